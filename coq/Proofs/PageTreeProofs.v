(* PageTreeProofs.v -- C12: the page iterator model yields the DFS leaves of every represented
   page tree within the depth limit, and on arbitrary graphs yields at most |objects| ids, all
   of them page dictionaries. *)
From LV Require Import Base.Bytes Base.Sx Model.Obj Model.DocQ Model.PageTree Spec.Dfs Gen.Consts.

Local Open Scope nat_scope.

(* ---------- small facts ---------- *)

Lemma iter_pop limit m s st : iter limit m [] (s :: st) = iter limit m s st.
Proof. destruct limit; reflexivity. Qed.

Lemma K_Page_neq_Pages : bytes_eqb K_Pages K_Page = false.
Proof. reflexivity. Qed.

Lemma node_type_leaf m id : represents m (PLeaf id) -> node_type m id = NPage.
Proof.
  intro H; inversion H as [id' d Hd Ht|]; subst.
  unfold node_type. rewrite Hd, Ht. reflexivity.
Qed.

Lemma node_type_node m id ks : represents m (PNode id ks) -> node_type m id = NPages.
Proof.
  intro H; inversion H as [|id' d ks' Hd Ht Hk Hf]; subst.
  unfold node_type. rewrite Hd, Ht. reflexivity.
Qed.

Lemma kids_of_node m id ks : represents m (PNode id ks) -> kids_of m id = map ref_of ks.
Proof.
  intro H; inversion H as [|id' d ks' Hd Ht Hk Hf]; subst.
  unfold kids_of. rewrite Hd, Hk. reflexivity.
Qed.

Lemma represents_kids m id ks : represents m (PNode id ks) -> Forall (represents m) ks.
Proof. intro H; inversion H; subst; assumption. Qed.

Lemma ids_nonempty t : ids t <> [].
Proof. destruct t; discriminate. Qed.

Lemma flat_ids_nil f : flat_map ids f = [] -> f = [].
Proof.
  destruct f as [|t f]; [reflexivity|]. cbn. intro H.
  apply app_eq_nil in H as [H _]. exfalso; exact (ids_nonempty t H).
Qed.

Lemma flat_flat_ids_nil st :
  flat_map (flat_map ids) st = [] -> flat_map (flat_map leaves) st = [].
Proof.
  induction st as [|s st IH]; [reflexivity|]. cbn. intro H.
  apply app_eq_nil in H as [H1 H2]. apply flat_ids_nil in H1. subst s. cbn. auto.
Qed.

Lemma fheight_cons t f : fheight (t :: f) = Nat.max (height t) (fheight f).
Proof. reflexivity. Qed.

Lemma height_node id ks : height (PNode id ks) = S (fheight ks).
Proof. reflexivity. Qed.

(* ---------- the loop invariant ---------- *)

(* every pending forest fits under the depth limit, counted from its position in the stack *)
Fixpoint stack_ok (L : nat) (st : list (list ptree)) : Prop :=
  match st with
  | [] => True
  | f :: st' => length st' + fheight f <= L /\ stack_ok L st'
  end.

Definition fsize (f : list ptree) : nat := length (flat_map ids f).
Definition ssize (st : list (list ptree)) : nat := length (flat_map (flat_map ids) st).

Lemma fsize_nil : fsize [] = 0. Proof. reflexivity. Qed.
Lemma fsize_leaf id rest : fsize (PLeaf id :: rest) = S (fsize rest). Proof. reflexivity. Qed.
Lemma fsize_node id ks rest : fsize (PNode id ks :: rest) = S (fsize ks + fsize rest).
Proof. unfold fsize. cbn [flat_map ids app length]. rewrite app_length. reflexivity. Qed.
Lemma ssize_nil : ssize [] = 0. Proof. reflexivity. Qed.
Lemma ssize_cons s st : ssize (s :: st) = fsize s + ssize st.
Proof. unfold ssize, fsize. cbn [flat_map]. rewrite app_length. reflexivity. Qed.

Lemma push_rest_map (rest : list ptree) (st : list (list ptree)) :
  push_rest (map ref_of rest) (map (map ref_of) st) =
  map (map ref_of) (match rest with [] => st | _ => rest :: st end).
Proof. destruct rest; reflexivity. Qed.

Section Inv.
  Variable m : objmap.
  Let L := N.to_nat PAGE_TREE_DEPTH_LIMIT.

  Lemma depth_test (st : list (list obj)) n :
    length st = n -> n < L -> (N.of_nat (length st) <? PAGE_TREE_DEPTH_LIMIT)%N = true.
  Proof. intros -> H. apply N.ltb_lt. subst L. lia. Qed.

  Lemma iter_forest :
    forall limit F0 st,
      Forall (represents m) F0 ->
      Forall (Forall (represents m)) st ->
      stack_ok L (F0 :: st) ->
      fsize F0 + ssize st <= limit ->
      iter limit m (map ref_of F0) (map (map ref_of) st)
      = flat_map leaves F0 ++ flat_map (flat_map leaves) st.
  Proof.
    induction limit as [|l IHl].
    - intros F0 st _ _ _ Hsz.
      assert (fsize F0 = 0 /\ ssize st = 0) as [H0 Hs] by lia.
      apply length_zero_iff_nil in H0, Hs.
      apply flat_ids_nil in H0. subst F0. rewrite (flat_flat_ids_nil _ Hs). reflexivity.
    - intros F0 st; revert F0. induction st as [|s st IHst]; intros F0 HF Hst Hok Hsz.
      + (* empty stack *)
        destruct F0 as [|t rest].
        * reflexivity.
        * cbn [map iter pop_nonempty].
          inversion HF as [|t' rest' Ht Hrest]; subst.
          destruct Hok as [Hh _]. cbn [length] in Hh. rewrite fheight_cons in Hh.
          destruct t as [id|id ks].
          -- unfold ref_of at 1; cbn [root_id fst snd]. destruct id as [i g]; cbn [fst snd].
             rewrite (node_type_leaf _ _ Ht).
             change (@nil (list obj)) with (map (map ref_of) []).
             rewrite IHl; try assumption.
             ++ reflexivity.
             ++ cbn [stack_ok length height] in *. split; [|exact I]. lia.
             ++ rewrite ?fsize_leaf, ?ssize_cons, ?ssize_nil in *. lia.
          -- unfold ref_of at 1; cbn [root_id fst snd]. destruct id as [i g]; cbn [fst snd].
             rewrite (node_type_node _ _ _ Ht).
             rewrite height_node in Hh.
             rewrite (depth_test [] 0) by (reflexivity || lia).
             rewrite (kids_of_node _ _ _ Ht).
             change (@nil (list obj)) with (map (map ref_of) []).
             rewrite push_rest_map.
             rewrite IHl.
             ++ cbn [flat_map leaves]. destruct rest; cbn [flat_map]; rewrite ?app_nil_r; reflexivity.
             ++ exact (represents_kids _ _ _ Ht).
             ++ destruct rest; [constructor|]. constructor; [assumption|constructor].
             ++ destruct rest as [|r rest]; cbn [stack_ok length].
                ** split; [lia|exact I].
                ** split; [lia|]. split; [|exact I]. cbn [length]. lia.
             ++ rewrite fsize_node in Hsz.
                destruct rest as [|r rest]; rewrite ?ssize_cons, ?ssize_nil, ?fsize_nil in *; lia.
      + (* non-empty stack *)
        inversion Hst as [|s' st' Hs Hst']; subst.
        destruct F0 as [|t rest].
        * cbn [map]. rewrite iter_pop. cbn [flat_map app].
          apply IHst; try assumption.
          -- destruct Hok as [_ Hok]. exact Hok.
          -- rewrite ssize_cons, fsize_nil in Hsz. lia.
        * cbn [map iter pop_nonempty].
          inversion HF as [|t' rest' Ht Hrest]; subst.
          destruct Hok as [Hh Hok]. rewrite fheight_cons in Hh.
          destruct t as [id|id ks].
          -- unfold ref_of at 1; cbn [root_id fst snd]. destruct id as [i g]; cbn [fst snd].
             rewrite (node_type_leaf _ _ Ht).
             change (map ref_of s :: map (map ref_of) st) with (map (map ref_of) (s :: st)).
             rewrite IHl; try assumption.
             ++ reflexivity.
             ++ cbn [stack_ok length height] in *. split; [lia|exact Hok].
             ++ rewrite ?fsize_leaf, ?ssize_cons, ?ssize_nil in *. lia.
          -- unfold ref_of at 1; cbn [root_id fst snd]. destruct id as [i g]; cbn [fst snd].
             rewrite (node_type_node _ _ _ Ht).
             rewrite height_node in Hh.
             change (map ref_of s :: map (map ref_of) st) with (map (map ref_of) (s :: st)).
             rewrite (depth_test _ (length (s :: st))) by (rewrite ?map_length; reflexivity || lia).
             rewrite (kids_of_node _ _ _ Ht).
             rewrite push_rest_map.
             rewrite IHl.
             ++ cbn [flat_map leaves]. destruct rest; cbn [flat_map]; rewrite ?app_nil_r, <- ?app_assoc; reflexivity.
             ++ exact (represents_kids _ _ _ Ht).
             ++ destruct rest; [assumption|]. constructor; assumption.
             ++ destruct rest as [|r rest]; cbn [stack_ok].
                ** split; [lia|exact Hok].
                ** split; [cbn [length] in *; lia|]. split; [lia|exact Hok].
             ++ rewrite fsize_node in Hsz.
                destruct rest as [|r rest]; rewrite ?ssize_cons, ?ssize_nil, ?fsize_nil in *; lia.
  Qed.
End Inv.

(* ---------- counting: distinct represented nodes are objects ---------- *)

Lemma lookup_in m id o : lookup m id = Some o -> In id (map fst m).
Proof.
  induction m as [|[i o'] m IH]; cbn; [discriminate|].
  destruct (oid_eqb i id) eqn:E.
  - intros _. left. apply oid_eqb_eq; exact E.
  - intro H. right. exact (IH H).
Qed.

Lemma get_dictionary_in m id d : get_dictionary m id = Some d -> In id (map fst m).
Proof.
  unfold get_dictionary, get_object. destruct (lookup m id) eqn:E; [|discriminate].
  intros _. exact (lookup_in _ _ _ E).
Qed.

Lemma ptree_ind' (P : ptree -> Prop) :
  (forall id, P (PLeaf id)) ->
  (forall id ks, Forall P ks -> P (PNode id ks)) ->
  forall t, P t.
Proof.
  intros Hl Hn. fix F 1. intros [id|id ks]; [apply Hl|]. apply Hn.
  induction ks as [|k ks IH]; constructor; [apply F | exact IH].
Qed.

Lemma represents_ids_in m t : represents m t -> incl (ids t) (map fst m).
Proof.
  induction t as [id|id ks IH] using ptree_ind'; intro H.
  - inversion H as [id' d Hd _|]; subst. intros x [<-|[]]. exact (get_dictionary_in _ _ _ Hd).
  - inversion H as [|id' d ks' Hd _ _ Hf]; subst. cbn [ids].
    intros x [<-|Hx]; [exact (get_dictionary_in _ _ _ Hd)|].
    apply in_flat_map in Hx as [t [Ht Hx]].
    rewrite Forall_forall in IH, Hf. exact (IH t Ht (Hf t Ht) x Hx).
Qed.

Lemma size_le_objects m t : represents m t -> NoDup (ids t) -> length (ids t) <= length m.
Proof.
  intros Hr Hn. rewrite <- (map_length fst m).
  apply NoDup_incl_length; [exact Hn | exact (represents_ids_in _ _ Hr)].
Qed.

(* ---------- main theorems ---------- *)

Definition tree_wf (d : doc) (t : ptree) : Prop :=
  represents (d_objects d) t /\ NoDup (ids t).

Theorem page_iter_dfs :
  forall d cat i g ks,
    catalog d = Some cat ->
    dict_get cat K_Pages = Some (ORef i g) ->
    tree_wf d (PNode (i, g) ks) ->
    (N.of_nat (height (PNode (i, g) ks)) <= PAGE_TREE_DEPTH_LIMIT + 1)%N ->
    page_iter d = leaves (PNode (i, g) ks).
Proof.
  intros d cat i g ks Hcat Hpages [Hrep Hnd] Hh.
  unfold page_iter. rewrite Hcat, Hpages.
  rewrite (kids_of_node _ _ _ Hrep).
  change (@nil (list obj)) with (map (map ref_of) []).
  rewrite iter_forest.
  - cbn [flat_map leaves]. rewrite app_nil_r. reflexivity.
  - exact (represents_kids _ _ _ Hrep).
  - constructor.
  - cbn [stack_ok length]. split; [|exact I]. rewrite height_node in Hh. lia.
  - pose proof (size_le_objects _ _ Hrep Hnd) as Hs. cbn [ids length] in Hs.
    unfold fsize, ssize. cbn [flat_map length]. lia.
Qed.

Lemma iter_total m : forall limit kids st,
  length (iter limit m kids st) <= limit /\
  Forall (fun id => node_type m id = NPage) (iter limit m kids st).
Proof.
  induction limit as [|l IH]; intros kids st; cbn [iter].
  - split; [cbn; lia | constructor].
  - destruct (pop_nonempty kids st) as [[[kid rest] st']|]; [|split; [cbn; lia|constructor]].
    destruct kid; try (destruct (IH rest st'); split; [lia|assumption]).
    destruct (node_type m (id, gen)) eqn:E.
    + destruct (IH rest st') as [H1 H2]. split; [cbn [length]; lia|]. constructor; assumption.
    + destruct (N.of_nat (length st') <? PAGE_TREE_DEPTH_LIMIT)%N;
        [destruct (IH (kids_of m (id, gen)) (push_rest rest st')) | destruct (IH rest st')];
        split; (lia || assumption).
    + destruct (IH rest st'); split; [lia|assumption].
Qed.

Theorem page_iter_total :
  forall d,
    length (page_iter d) <= length (d_objects d) /\
    Forall (fun id => node_type (d_objects d) id = NPage) (page_iter d).
Proof.
  intro d. unfold page_iter.
  destruct (catalog d) as [cat|]; [|split; [cbn; lia|constructor]].
  destruct (dict_get cat K_Pages) as [o|]; [|split; [cbn; lia|constructor]].
  destruct o; try (split; [cbn; lia|constructor]).
  apply iter_total.
Qed.

(* a yielded id really is a Page dictionary of the document *)
Lemma node_type_page_spec m id :
  node_type m id = NPage <-> exists d, get_dictionary m id = Some d /\ get_type d = Some K_Page.
Proof.
  unfold node_type. split.
  - destruct (get_dictionary m id) as [d|]; [|discriminate].
    destruct (get_type d) as [t|] eqn:Et; [|discriminate].
    destruct (bytes_eqb t K_Page) eqn:E.
    + apply bytes_eqb_eq in E. subst. intros _. exists d. auto.
    + destruct (bytes_eqb t K_Pages); discriminate.
  - intros [d [-> ->]]. reflexivity.
Qed.

Theorem get_pages_numbered :
  forall d, get_pages d = numbered 1 (page_iter d) /\
            map snd (get_pages d) = page_iter d /\
            map fst (get_pages d) = map N.of_nat (seq 1 (length (page_iter d))).
Proof.
  intro d. unfold get_pages.
  assert (Hn : forall l n, number_from n l = numbered n l) by (induction l; intro; cbn; congruence).
  assert (Hs : forall l n, map snd (number_from n l) = l) by (induction l; intro; cbn; congruence).
  assert (Hf : forall l n, map fst (number_from (N.of_nat n) l) = map N.of_nat (seq n (length l))).
  { induction l as [|x l IHl]; intro n; cbn [number_from map length seq]; [reflexivity|].
    f_equal. replace (N.of_nat n + 1)%N with (N.of_nat (S n)) by lia. apply IHl. }
  split; [apply Hn|]. split; [apply Hs|]. apply (Hf _ 1).
Qed.

(* ---------- non-vacuity: a concrete three-level tree meets the hypotheses ---------- *)

Definition ex_doc : doc :=
  let pg (p : N) := ODict [(K_Type, OName K_Page); (K_Parent, ORef p 0)] in
  {| d_version := bs "1.5"; d_binary_mark := []; d_max_id := 7;
     d_trailer := [(K_Root, ORef 1 0)];
     d_objects := [((1,0), ODict [(K_Type, OName (bs "Catalog")); (K_Pages, ORef 2 0)]);
                   ((2,0), ODict [(K_Type, OName K_Pages); (K_Kids, ORef 7 0)]);
                   ((3,0), pg 2);
                   ((4,0), ODict [(K_Type, OName K_Pages); (K_Kids, OArr [ORef 5 0])]);
                   ((5,0), pg 4);
                   ((6,0), pg 2);
                   ((7,0), OArr [ORef 3 0; ORef 4 0; ORef 6 0])]%N |}.
Definition ex_tree : ptree :=
  PNode (2,0)%N [PLeaf (3,0)%N; PNode (4,0)%N [PLeaf (5,0)%N]; PLeaf (6,0)%N].

Example ex_hyps :
  exists cat, catalog ex_doc = Some cat /\ dict_get cat K_Pages = Some (ORef 2 0) /\
              tree_wf ex_doc ex_tree /\
              (N.of_nat (height ex_tree) <= PAGE_TREE_DEPTH_LIMIT + 1)%N /\
              page_iter ex_doc = [(3,0); (5,0); (6,0)]%N.
Proof.
  eexists. split; [reflexivity|]. split; [reflexivity|]. split; [|split; [vm_compute; discriminate|reflexivity]].
  split.
  - unfold ex_tree. eapply RNode; [reflexivity|reflexivity|reflexivity|].
    repeat constructor.
    + eapply RLeaf; reflexivity.
    + eapply RNode; [reflexivity|reflexivity|reflexivity|]. repeat constructor. eapply RLeaf; reflexivity.
    + eapply RLeaf; reflexivity.
  - cbn. repeat constructor; cbn; intuition discriminate.
Qed.
