(* FilterProofsCodec.v -- the stream theorems of FilterProofsStream.v with the zlib / LZW stages defined by the
   executable codecs of Spec/Inflate.v and Spec/LzwSpec.v (Spec/StreamCodecSpec.v), using
   lzw_decode_encode_lim (Proofs/LzwProofs.v) and inflate_zlib_stored (Proofs/InflateProofs.v). *)
From LV Require Import Base.Bytes Model.Obj Gen.Filters Model.A85 Model.Png Model.StreamFilt
  Spec.A85Spec Spec.PngSpec Spec.StreamSpec Spec.StreamCodecSpec
  Proofs.FilterProofsDict Proofs.FilterProofsStream.
From LV Require Spec.LzwSpec Spec.Inflate Spec.ZlibStoredSpec Proofs.LzwProofs Proofs.InflateProofs.

Lemma inflate_nil : Inflate.inflate [] = None.
Proof. reflexivity. Qed.

Lemma gallina_inflate_implements : implements_inflate gallina_inflate.
Proof. intros enc d H. unfold gallina_inflate. rewrite H. reflexivity. Qed.

Lemma gallina_lzw_implements : implements_lzw gallina_lzw.
Proof. intros e enc d H. unfold gallina_lzw. rewrite H. reflexivity. Qed.

(* the reference encoders write streams the standards' decoders read back *)
Lemma ref_stage_std st data enc : encoded_stage_ref st data enc -> encodes_stage_std st data enc.
Proof.
  destruct st as [|pr|early pr]; cbn [encoded_stage_ref encodes_stage_std].
  - exact (fun H => H).
  - intros (payload & k & HP & ->). exists payload. split; [exact HP | apply InflateProofs.inflate_zlib_stored].
  - intros (payload & limit & HP & HL & ->). exists payload. split; [exact HP|].
    apply LzwProofs.lzw_decode_encode_lim. exact HL.
Qed.

Lemma ref_chain_std stages plain enc : encoded_chain_ref stages plain enc -> encodes_chain_std stages plain enc.
Proof.
  induction 1 as [plain | st sts plain mid enc _ IH HS]; [constructor|].
  econstructor; [exact IH | apply ref_stage_std; exact HS].
Qed.

Section ThirdParty.
  Variable inflate : bytes -> bytes.
  Variable lzw : bool -> bytes -> bytes.
  Hypothesis inflate_ok : implements_inflate inflate.
  Hypothesis lzw_ok : implements_lzw lzw.

  Lemma std_stage_oracle st data enc : encodes_stage_std st data enc -> encodes_stage inflate lzw st data enc.
  Proof.
    destruct st as [|pr|early pr]; cbn [encodes_stage_std encodes_stage].
    - exact (fun H => H).
    - intros (payload & HP & HI). exists payload. split; [exact HP|]. split.
      + intros ->. rewrite inflate_nil in HI. discriminate.
      + apply inflate_ok. exact HI.
    - intros (payload & HP & HI). exists payload. split; [exact HP | apply lzw_ok; exact HI].
  Qed.

  Lemma std_chain_oracle stages plain enc :
    encodes_chain_std stages plain enc -> encodes_chain inflate lzw stages plain enc.
  Proof.
    induction 1 as [plain | st sts plain mid enc _ IH HS]; [constructor|].
    econstructor; [exact IH | apply std_stage_oracle; exact HS].
  Qed.

  Theorem stage_decodes_std st p data enc :
    encodes_stage_std st data enc -> stage_parms_ok st p ->
    decode_one inflate lzw (stage_name st) p enc = Ok data.
  Proof. intros H. apply stage_decodes. apply std_stage_oracle. exact H. Qed.

  Theorem chain_decodes_std stages d content plain fo :
    stages <> [] ->
    dict_get d P_Filter = Some fo -> filter_entry (map stage_name stages) fo ->
    (forall i st, nth_error stages i = Some st -> stage_parms_ok st (spec_params (dict_get d P_DecodeParms) i)) ->
    encodes_chain_std stages plain content ->
    decompressed_content inflate lzw {| s_dict := d; s_content := content |} = Ok plain /\
    get_plain_content inflate lzw {| s_dict := d; s_content := content |} = Ok plain.
  Proof. intros HN HF HE HP HC. apply (chain_decodes inflate lzw stages d content plain fo); auto. apply std_chain_oracle. exact HC. Qed.

  Theorem chain_decodes_ref stages d content plain fo :
    stages <> [] ->
    dict_get d P_Filter = Some fo -> filter_entry (map stage_name stages) fo ->
    (forall i st, nth_error stages i = Some st -> stage_parms_ok st (spec_params (dict_get d P_DecodeParms) i)) ->
    encoded_chain_ref stages plain content ->
    decompressed_content inflate lzw {| s_dict := d; s_content := content |} = Ok plain /\
    get_plain_content inflate lzw {| s_dict := d; s_content := content |} = Ok plain.
  Proof. intros HN HF HE HP HC. apply (chain_decodes_std stages d content plain fo); auto. apply ref_chain_std. exact HC. Qed.

  (* compress: all that is asked of the compressor is that its output is a zlib stream for the content *)
  Theorem compress_lossless_std deflate s :
    dict_wf (s_dict s) -> valid_zlib_output deflate (s_content s) ->
    get_plain_content inflate lzw (compress deflate s) = get_plain_content inflate lzw s.
  Proof.
    intros W V. apply compress_lossless; [exact W | apply inflate_ok; exact V |].
    intro E. unfold valid_zlib_output in V. rewrite E, inflate_nil in V. discriminate.
  Qed.

  (* a stored-block compressor: nothing is assumed about it *)
  Theorem compress_lossless_stored k s :
    dict_wf (s_dict s) ->
    get_plain_content inflate lzw (compress (ZlibStoredSpec.zlib_stored k) s) = get_plain_content inflate lzw s.
  Proof. intro W. apply compress_lossless_std; [exact W | apply InflateProofs.inflate_zlib_stored]. Qed.
End ThirdParty.

(* lopdf's filter code around the Gallina codecs: no assumption about third-party code is left *)
Theorem chain_decodes_gallina stages d content plain fo :
  stages <> [] ->
  dict_get d P_Filter = Some fo -> filter_entry (map stage_name stages) fo ->
  (forall i st, nth_error stages i = Some st -> stage_parms_ok st (spec_params (dict_get d P_DecodeParms) i)) ->
  encoded_chain_ref stages plain content ->
  decompressed_content gallina_inflate gallina_lzw {| s_dict := d; s_content := content |} = Ok plain /\
  get_plain_content gallina_inflate gallina_lzw {| s_dict := d; s_content := content |} = Ok plain.
Proof. apply chain_decodes_ref; [exact gallina_inflate_implements | exact gallina_lzw_implements]. Qed.

(* non-vacuity: ASCII85 around LZW (EarlyChange 0) around Flate with Predictor 12 / Columns 2, every stage written
   by the Gallina reference encoders; parameters as a parallel array [null << /EarlyChange 0 >> << predictor >>] *)
Definition gx_zlib : bytes := Eval vm_compute in ZlibStoredSpec.zlib_stored 65534 ex_payload.
Definition gx_lzw : bytes := Eval vm_compute in LzwSpec.lzw_encode false gx_zlib.
Definition gx_content : bytes := Eval vm_compute in A85Spec.encode gx_lzw ++ EOD.
Definition gx_stages : list stage := [SA85; SLzw false None; SFlate (Some ex_pred)].
Definition gx_dict : dict :=
  [(P_Filter, OArr [OName N_ASCII85Decode; OName N_LZWDecode; OName N_FlateDecode]);
   (P_DecodeParms, OArr [ONull; ODict [(P_EarlyChange, OInt 0)]; ODict ex_parm_dict])].

Lemma gx_chain : encoded_chain_ref gx_stages (concat ex_rows) gx_content.
Proof.
  apply (ECR_cons SA85 _ _ gx_lzw).
  - apply (ECR_cons _ _ _ gx_zlib).
    + apply (ECR_cons _ [] _ (concat ex_rows)); [constructor|].
      exists ex_payload, 65534%N. split; [exact ex_predicted | reflexivity].
    + exists gx_zlib, LzwSpec.TABLE_MAX. split; [reflexivity|]. split; [apply N.le_refl | reflexivity].
  - exists (A85Spec.encode gx_lzw), []. split; reflexivity.
Qed.

Lemma gx_parms i st : nth_error gx_stages i = Some st ->
  stage_parms_ok st (spec_params (dict_get gx_dict P_DecodeParms) i).
Proof.
  destruct i as [|[|[|i]]]; cbn [nth_error gx_stages]; intro H; inversion H; subst; cbn.
  - exact I.
  - repeat split.
  - repeat split.
  - destruct i; discriminate.
Qed.

Lemma gx_hyps :
  gx_stages <> [] /\
  dict_get gx_dict P_Filter = Some (OArr (map OName (map stage_name gx_stages))) /\
  (forall i st, nth_error gx_stages i = Some st -> stage_parms_ok st (spec_params (dict_get gx_dict P_DecodeParms) i)) /\
  encoded_chain_ref gx_stages (concat ex_rows) gx_content /\
  concat ex_rows = [x01; x02; x03; x05] /\ length gx_content = 29.
Proof.
  split; [discriminate|]. split; [reflexivity|]. split; [exact gx_parms|]. split; [exact gx_chain|]. split; reflexivity.
Qed.
