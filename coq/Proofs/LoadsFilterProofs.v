(* LoadsFilterProofs.v -- C02 rung 3: the filter chain of structural streams.  The parameter [decompress] of c01's
   Model/LoaderExt.v (= Stream::decompress) is instantiated with lopdf's own filter plumbing (Model/StreamFilt.v, C09)
   run on the GALLINA decoders of the standards (Spec/Inflate.v for zlib / deflate, Spec/LzwSpec.v, Model/A85.v,
   Model/AsciiHex.v, Model/Png.v): [decompress_ref].  Every encoding the reference writer applies to a structural
   stream (Spec/RefWriter.v apply_filter: ASCII85, ASCIIHex, stored-block Flate with any block size, ASCII85 around
   Flate, Filter as a name or an array, and with Flate a PNG predictor: Predictor 10..15, any row filter per row,
   Colors / BitsPerComponent geometry, DecodeParms as a dictionary or an array) is decoded to the raw data.
   Part 1: the instance.  Part 2: the chains without predictor.  Part 3: the predictor.  Part 4: whole files. *)
From LV Require Import Base.Bytes Base.Sx Model.Obj Model.Writer Model.Parser Model.Xref Model.Loader Model.LoaderExt Model.Utf
  Gen.Lex Gen.Filters Model.A85 Model.Png Model.StreamFilt Spec.XrefSpec Spec.RefWriter Spec.StreamCodecSpec
  Spec.ZlibStoredSpec Spec.PngSpec Proofs.SpellingObjProofs
  Proofs.FilterProofsDict Proofs.XrefProofs.
From LV Require Proofs.FilterProofsA85 Proofs.InflateProofs Proofs.FilterProofsPng Proofs.AsciiHexProofs Model.AsciiHex.
From Coq Require Import Lia.
Local Open Scope N_scope.

(* ======================================================================================================
   Part 1: Stream::decompress on the Gallina codecs
   ====================================================================================================== *)
Definition decompress_ref (d : dict) (c : bytes) : option (dict * bytes) :=
  match StreamFilt.decompress gallina_inflate gallina_lzw {| s_dict := d; s_content := c |} with
  | Ok s => Some (s_dict s, s_content s)
  | _ => None
  end.
Definition can_ref (d : dict) : bool := true.

Lemma decompress_ref_ok d c plain :
  decompressed_content gallina_inflate gallina_lzw {| s_dict := d; s_content := c |} = Ok plain ->
  decompress_ref d c =
  Some (dict_set (dict_swap_remove (dict_swap_remove d K_DecodeParms) K_Filter) K_Length (OInt (Z.of_nat (length plain))), plain).
Proof. intro H. unfold decompress_ref, StreamFilt.decompress. rewrite H. reflexivity. Qed.

Lemma gallina_inflate_stored k data : gallina_inflate (zlib_stored k data) = data.
Proof. unfold gallina_inflate. rewrite InflateProofs.inflate_zlib_stored. reflexivity. Qed.

(* ======================================================================================================
   Part 2: one stage at a time
   ====================================================================================================== *)
Definition N_A85 := Eval cbv in bs "ASCII85Decode".
Definition N_Flate := Eval cbv in bs "FlateDecode".
Definition N_AHx := Eval cbv in bs "ASCIIHexDecode".

Lemma stage_a85 p data :
  decode_one gallina_inflate gallina_lzw N_A85 p (A85Spec.encode data ++ A85Spec.EOD) = Ok data.
Proof. unfold decode_one. change (bytes_eqb N_A85 F_FLATE) with false. change (bytes_eqb N_A85 F_LZW) with false.
  change (bytes_eqb N_A85 F_A85) with true. cbv iota. apply FilterProofsA85.a85_decode_encode. Qed.

Lemma stage_ahx p u ws data :
  decode_one gallina_inflate gallina_lzw N_AHx p (ahx_encode u ws ws data) = Ok data.
Proof.
  unfold decode_one. change (bytes_eqb N_AHx F_FLATE) with false. change (bytes_eqb N_AHx F_LZW) with false.
  change (bytes_eqb N_AHx F_A85) with false. change (AHX_ENABLED && bytes_eqb N_AHx F_AHX) with true. cbv iota.
  rewrite <- (app_nil_r (ahx_encode u ws ws data)). apply AsciiHexProofs.ahx_refwriter_roundtrip.
Qed.

Lemma stage_flate p k payload :
  decode_one gallina_inflate gallina_lzw N_Flate p (zlib_stored k payload) = decompress_predictor payload p.
Proof.
  unfold decode_one. change (bytes_eqb N_Flate F_FLATE) with true. cbv iota. unfold decompress_zlib.
  unfold zlib_stored at 1. rewrite <- (gallina_inflate_stored k payload) at 2. reflexivity.
Qed.

(* ---- the Filter entry ---- *)
Definition one_name (arr : bool) (n : bytes) : obj := if arr then OArr [OName n] else OName n.

Lemma filters_one D arr n : dict_get D K_Filter = Some (one_name arr n) -> filters D = Ok [n].
Proof. intro H. unfold filters. rewrite H. destruct arr; reflexivity. Qed.

Lemma filters_two D n1 n2 : dict_get D K_Filter = Some (OArr [OName n1; OName n2]) -> filters D = Ok [n1; n2].
Proof. intro H. unfold filters. rewrite H. reflexivity. Qed.

(* ---- the chains without a predictor ---- *)
Definition no_pred (f : sfilter) : Prop :=
  match f with SfFlate _ (Some _) | SfA85Flate _ (Some _) => False | _ => True end.

Theorem chain_decodes_nopred f cols arr raw D :
  f <> SfNone -> no_pred f ->
  dict_get D K_Filter = dict_get (snd (apply_filter f cols arr raw)) K_Filter ->
  dict_get D K_DecodeParms = dict_get (snd (apply_filter f cols arr raw)) K_DecodeParms ->
  decompressed_content gallina_inflate gallina_lzw {| s_dict := D; s_content := fst (apply_filter f cols arr raw) |} = Ok raw.
Proof.
  intros Hne Hnp HF HP. unfold decompressed_content. cbn [s_dict s_content].
  destruct f as [| |blk [p|]|blk [p|]|u ws]; try contradiction; cbn [apply_filter fst snd] in *.
  - (* ASCII85 *)
    rewrite (filters_one D arr N_A85) by (rewrite HF; destruct arr; reflexivity).
    cbn [decode_loop]. rewrite stage_a85. reflexivity.
  - (* Flate *)
    rewrite (filters_one D arr N_Flate) by (rewrite HF; destruct arr; reflexivity).
    cbn [decode_loop]. rewrite stage_flate.
    assert (Hp : params_for D 0 = None) by (unfold params_for; change K_DecodeParms_ with K_DecodeParms; rewrite HP; reflexivity).
    rewrite Hp. reflexivity.
  - (* ASCII85 around Flate *)
    rewrite (filters_two D N_A85 N_Flate) by (rewrite HF; reflexivity).
    cbn [decode_loop]. rewrite stage_a85. rewrite stage_flate.
    assert (Hp : params_for D 1 = None) by (unfold params_for; change K_DecodeParms_ with K_DecodeParms; rewrite HP; reflexivity).
    rewrite Hp. reflexivity.
  - (* ASCIIHex *)
    rewrite (filters_one D arr N_AHx) by (rewrite HF; destruct arr; reflexivity).
    cbn [decode_loop]. rewrite stage_ahx. reflexivity.
Qed.

(* ======================================================================================================
   Part 3: the PNG predictor in front of Flate
   ====================================================================================================== *)
Definition K_PredictorW := Eval cbv in bs "Predictor".
Definition K_ColumnsW := Eval cbv in bs "Columns".
Definition K_ColorsW := Eval cbv in bs "Colors".
Definition K_BitsW := Eval cbv in bs "BitsPerComponent".

(* the parameter dictionary the writer builds: Colors / BitsPerComponent present ([e1], [e2]) or left to their defaults *)
Definition pparms (pr : N) (cols colors bpc : nat) (e1 e2 : bool) : dict :=
  [(K_PredictorW, OInt (Z.of_N (10 + pr))); (K_ColumnsW, OInt (Z.of_nat cols))] ++
  (if e1 then [(K_ColorsW, OInt (Z.of_nat colors))] else []) ++
  (if e2 then [(K_BitsW, OInt (Z.of_nat bpc))] else []).

Lemma to_N_of_nat n : Z.to_N (Z.of_nat n) = N.of_nat n.
Proof. rewrite <- nat_N_Z, N2Z.id. reflexivity. Qed.

Lemma pred_decodes pr cols colors bpc (e1 e2 : bool) types rows :
  pr < 6 -> (1 <= cols)%nat -> (1 <= colors <= 4)%nat -> (bpc = 8 \/ bpc = 16)%nat ->
  (e1 = false -> colors = 1%nat) -> (e2 = false -> bpc = 8%nat) ->
  length types = length rows -> Forall valid_type types ->
  Forall (fun r => length r = (colors * (bpc / 8) * cols)%nat) rows ->
  N.of_nat (colors * (bpc / 8) * cols) <= Png.USIZE_MAX ->
  decompress_predictor (encode_frame types (colors * (bpc / 8)) (colors * (bpc / 8) * cols) rows)
                       (Some (pparms pr cols colors bpc e1 e2)) = Ok (concat rows).
Proof.
  intros Hpr Hc Hcol Hb H1 H2 Hl Hv Hr Hu.
  set (parms := pparms pr cols colors bpc e1 e2).
  assert (G1 : get_int parms K_Predictor PRED_DEFAULT = Z.of_N (10 + pr)) by (unfold parms, pparms; destruct e1, e2; reflexivity).
  assert (G2 : get_int parms K_COLUMNS COLUMNS_DEFAULT = Z.of_nat cols) by (unfold parms, pparms; destruct e1, e2; reflexivity).
  assert (G3 : get_int parms K_COLORS COLORS_DEFAULT = Z.of_nat colors).
  { unfold parms, pparms. destruct e1; [destruct e2; reflexivity|]. rewrite (H1 eq_refl). destruct e2; reflexivity. }
  assert (G4 : get_int parms K_BITS BITS_DEFAULT = Z.of_nat bpc).
  { unfold parms, pparms. destruct e2; [destruct e1; reflexivity|]. rewrite (H2 eq_refl). destruct e1; reflexivity. }
  unfold decompress_predictor. rewrite G1, G2, G3, G4.
  assert (Hin : (PRED_LO <=? Z.of_N (10 + pr))%Z && (Z.of_N (10 + pr) <=? PRED_HI)%Z = true).
  { apply andb_true_iff. unfold PRED_LO, PRED_HI. split; apply Z.leb_le; lia. }
  rewrite Hin.
  assert (E1 : Z.to_N (Z.max COLUMNS_MIN (Z.of_nat cols)) = N.of_nat cols).
  { unfold COLUMNS_MIN. rewrite Z.max_r by lia. apply to_N_of_nat. }
  assert (E2 : Z.to_N (Z.max COLORS_MIN (Z.of_nat colors)) = N.of_nat colors).
  { unfold COLORS_MIN. rewrite Z.max_r by lia. apply to_N_of_nat. }
  assert (E3 : Z.to_N (Z.max BITS_MIN (Z.of_nat bpc)) = N.of_nat bpc).
  { unfold BITS_MIN. rewrite Z.max_r by lia. apply to_N_of_nat. }
  rewrite E1, E2, E3.
  assert (E4 : N.of_nat colors * N.of_nat bpc / 8 = N.of_nat (colors * (bpc / 8))).
  { destruct Hb as [-> | ->].
    - change (8 / 8)%nat with 1%nat. rewrite Nat.mul_1_r. change (N.of_nat 8) with 8. apply N.div_mul. discriminate.
    - change (16 / 8)%nat with 2%nat. change (N.of_nat 16) with 16.
      replace (N.of_nat colors * 16) with (N.of_nat (colors * 2) * 8) by lia. apply N.div_mul. discriminate. }
  assert (E5 : (USIZE_MAX <? N.of_nat colors * N.of_nat bpc) = false).
  { apply N.ltb_ge. unfold USIZE_MAX. destruct Hb as [-> | ->]; lia. }
  rewrite E5, E4.
  apply FilterProofsPng.decode_frame_encode_frame; try assumption.
  destruct Hb as [-> | ->]; [change (8 / 8)%nat with 1%nat|change (16 / 8)%nat with 2%nat]; lia.
Qed.

(* ---- rows ---- *)
Lemma chunks_exact : forall m w data fuel, (0 < w)%nat -> length data = (m * w)%nat -> (m <= fuel)%nat ->
  concat (chunks fuel w data) = data /\ Forall (fun r => length r = w) (chunks fuel w data) /\ length (chunks fuel w data) = m.
Proof.
  induction m as [|m IH]; intros w data fuel Hw Hl Hf.
  - cbn in Hl. destruct data; [|discriminate Hl]. destruct fuel; cbn; repeat split; constructor.
  - destruct fuel as [|f]; [lia|]. destruct data as [|b t]; [cbn in Hl; lia|].
    cbn [chunks]. set (data := b :: t) in *.
    assert (Hs : length (skipn w data) = (m * w)%nat) by (rewrite skipn_length; lia).
    destruct (IH w (skipn w data) f Hw Hs ltac:(lia)) as [I1 [I2 I3]].
    cbn [concat length]. rewrite I1, I3, firstn_skipn. repeat split; try reflexivity.
    constructor; [rewrite firstn_length; lia|exact I2].
Qed.

Lemma cyc_types_length : forall k ts all, length (cyc_types k ts all) = k.
Proof.
  induction k as [|k IH]; intros ts all; [reflexivity|]. cbn [cyc_types].
  destruct ts as [|t ts']; [destruct all as [|t all']|]; cbn [length]; rewrite IH; reflexivity.
Qed.

Lemma cyc_types_valid : forall k ts all, Forall valid_type (cyc_types k ts all).
Proof.
  induction k as [|k IH]; intros ts all; [constructor|]. cbn [cyc_types].
  destruct ts as [|t ts']; [destruct all as [|t all']|]; constructor; try apply IH; unfold valid_type; try lia;
    apply N.mod_lt; discriminate.
Qed.

(* the predictor stage of the writer, on data that has a natural row width [w] (a cross-reference stream: the entry
   width) and consists of whole rows *)
Lemma predict_decodes p w m data :
  (0 < w)%nat -> data <> [] -> length data = (m * w)%nat -> N.of_nat w <= Png.USIZE_MAX ->
  exists cols colors bpc e1 e2,
    snd (predict p (N.of_nat w) data) = pparms (p_pred p mod 6) cols colors bpc e1 e2 /\
    decompress_predictor (fst (predict p (N.of_nat w) data)) (Some (pparms (p_pred p mod 6) cols colors bpc e1 e2)) = Ok data.
Proof.
  intros Hw Hne Hl Hu. unfold predict. destruct data as [|b0 t0] eqn:Ed; [contradiction|]. rewrite <- Ed in *. clear Hne.
  rewrite Nat2N.id.
  assert (Hnat : forall (A : Type) (u v : A), match N.of_nat w with 0 => u | _ => v end = v).
  { intros A u v. destruct w; [lia|reflexivity]. }
  set (colors := S (N.to_nat (p_colors p mod 4))). set (bpc := if p_bpc16 p then 16%nat else 8%nat).
  assert (Hcol : (1 <= colors <= 4)%nat).
  { unfold colors. pose proof (N.mod_lt (p_colors p) 4 ltac:(discriminate)). lia. }
  assert (Hb : (bpc = 8 \/ bpc = 16)%nat) by (unfold bpc; destruct (p_bpc16 p); auto).
  assert (Hm : (m <= length data)%nat) by (rewrite Hl; nia).
  destruct (chunks_exact m w data (length data) Hw Hl Hm) as [C1 [C2 C3]].
  assert (Hpr : p_pred p mod 6 < 6) by (apply N.mod_lt; discriminate).
  unfold geometry. fold colors. fold bpc. destruct w as [|w']; [lia|]. set (w := S w') in *.
  destruct (Nat.eqb (Nat.modulo w (colors * (bpc / 8))) 0) eqn:Edv.
  - (* the row is a whole number of pixels *)
    apply Nat.eqb_eq in Edv.
    assert (Hbpp : (0 < colors * (bpc / 8))%nat) by (destruct Hb as [-> | ->]; [change (8/8)%nat with 1%nat|change (16/8)%nat with 2%nat]; lia).
    assert (Hrow : (w = colors * (bpc / 8) * (w / (colors * (bpc / 8))))%nat).
    { apply Nat.div_exact; [lia|exact Edv]. }
    assert (Hcols : (1 <= w / (colors * (bpc / 8)))%nat).
    { destruct (w / (colors * (bpc / 8)))%nat; [rewrite Nat.mul_0_r in Hrow; unfold w in Hrow; lia|lia]. }
    exists (w / (colors * (bpc / 8)))%nat, colors, bpc,
           (p_explicit p || negb (Nat.eqb colors 1)), (p_explicit p || negb (Nat.eqb bpc 8)).
    cbn [fst snd]. rewrite (Hnat bytes). split; [reflexivity|].
    pose proof (pred_decodes (p_pred p mod 6) (w / (colors * (bpc / 8)))%nat colors bpc
                  (p_explicit p || negb (Nat.eqb colors 1)) (p_explicit p || negb (Nat.eqb bpc 8))
                  (cyc_types (length (chunks (length data) w data)) (p_types p) (p_types p)) (chunks (length data) w data)) as K.
    rewrite <- Hrow in K. rewrite C1 in K. apply K; try assumption.
    + intro E. apply orb_false_iff in E as [_ E]. apply negb_false_iff, Nat.eqb_eq in E. exact E.
    + intro E. apply orb_false_iff in E as [_ E]. apply negb_false_iff, Nat.eqb_eq in E. exact E.
    + rewrite cyc_types_length. reflexivity.
    + apply cyc_types_valid.
  - (* it is not: one byte per pixel *)
    exists w, 1%nat, 8%nat, (p_explicit p || negb (Nat.eqb 1 1)), (p_explicit p || negb (Nat.eqb 8 8)).
    cbn [fst snd]. rewrite (Hnat bytes). split; [reflexivity|].
    pose proof (pred_decodes (p_pred p mod 6) w 1 8 (p_explicit p || negb (Nat.eqb 1 1)) (p_explicit p || negb (Nat.eqb 8 8))
                  (cyc_types (length (chunks (length data) w data)) (p_types p) (p_types p)) (chunks (length data) w data)) as K.
    change (1 * (8 / 8))%nat with 1%nat in K. rewrite Nat.mul_1_l in K. rewrite C1 in K. apply K; try assumption; try lia; auto.
    + rewrite cyc_types_length. reflexivity.
    + apply cyc_types_valid.
Qed.

(* ---- every chain of the reference writer ---- *)
Theorem chain_decodes f w m arr raw D :
  f <> SfNone -> (0 < w)%nat -> raw <> [] -> length raw = (m * w)%nat -> N.of_nat w <= Png.USIZE_MAX ->
  dict_get D K_Filter = dict_get (snd (apply_filter f (N.of_nat w) arr raw)) K_Filter ->
  dict_get D K_DecodeParms = dict_get (snd (apply_filter f (N.of_nat w) arr raw)) K_DecodeParms ->
  decompressed_content gallina_inflate gallina_lzw
    {| s_dict := D; s_content := fst (apply_filter f (N.of_nat w) arr raw) |} = Ok raw.
Proof.
  intros Hne Hw Hr Hl Hu HF HP.
  destruct f as [| |blk [p|]|blk [p|]|u ws];
    try (apply chain_decodes_nopred; [exact Hne|exact I|exact HF|exact HP]).
  - (* Flate with a predictor *)
    destruct (predict_decodes p w m raw Hw Hr Hl Hu) as [cols [colors [bpc [e1 [e2 [Es Ed]]]]]].
    unfold decompressed_content. cbn [s_dict s_content]. cbn [apply_filter] in *.
    destruct (predict p (N.of_nat w) raw) as [pd parms] eqn:Ep. cbn [fst snd] in *. subst parms.
    unfold pparms in HF, HP. cbn [app] in HF, HP. cbn [fst snd] in HF, HP.
    rewrite (filters_one D arr N_Flate) by (rewrite HF; destruct arr; reflexivity).
    cbn [decode_loop]. rewrite stage_flate.
    assert (Hp : params_for D 0 = Some (pparms (p_pred p mod 6) cols colors bpc e1 e2)).
    { unfold params_for. change K_DecodeParms_ with K_DecodeParms. rewrite HP. destruct arr; reflexivity. }
    rewrite Hp, Ed. reflexivity.
  - (* ASCII85 around Flate with a predictor *)
    destruct (predict_decodes p w m raw Hw Hr Hl Hu) as [cols [colors [bpc [e1 [e2 [Es Ed]]]]]].
    unfold decompressed_content. cbn [s_dict s_content]. cbn [apply_filter] in *.
    destruct (predict p (N.of_nat w) raw) as [pd parms] eqn:Ep. cbn [fst snd] in *. subst parms.
    unfold pparms in HF, HP. cbn [app] in HF, HP. cbn [fst snd] in HF, HP.
    rewrite (filters_two D N_A85 N_Flate) by (rewrite HF; reflexivity).
    cbn [decode_loop]. rewrite stage_a85, stage_flate.
    assert (Hp : params_for D 1 = Some (pparms (p_pred p mod 6) cols colors bpc e1 e2)).
    { unfold params_for. change K_DecodeParms_ with K_DecodeParms. rewrite HP. reflexivity. }
    rewrite Hp, Ed. reflexivity.
Qed.

(* ======================================================================================================
   Part 4: the filter entries the writer adds to the dictionary are read back as they are (names, integers, null,
   arrays and dictionaries of these: no spelling to remember), and they are only Filter and DecodeParms
   ====================================================================================================== *)
Lemma predict_parms_ints p c data : Forall (fun kv : bytes * obj => exists z, snd kv = OInt z) (snd (predict p c data)).
Proof.
  unfold predict. destruct data as [|b t]; [constructor|].
  destruct (geometry p (N.to_nat c)) as [[[[bpp row] cols] colors] bpc]. cbn [snd].
  repeat (apply Forall_app; split); repeat constructor; cbn [snd]; try (eexists; reflexivity).
  - destruct (p_explicit p || negb (Nat.eqb colors 1)); repeat constructor. cbn [snd]. eexists. reflexivity.
  - destruct (p_explicit p || negb (Nat.eqb bpc 8)); repeat constructor. cbn [snd]. eexists. reflexivity.
Qed.

Lemma denote_dict_ints : forall d sts, Forall (fun kv : bytes * obj => exists z, snd kv = OInt z) d -> denote_dict d sts = d.
Proof.
  induction d as [|[k v] d IH]; intros sts H; [reflexivity|]. inversion H as [|? ? [z Hz] Hd]; subst.
  cbn [snd] in Hz. subst v. cbn [denote_dict denote]. rewrite IH by exact Hd. reflexivity.
Qed.

Lemma fent_plain f cols arr raw k v :
  dict_get (snd (apply_filter f cols arr raw)) k = Some v -> forall y, denote v y = v.
Proof.
  assert (Hd : forall parms y, Forall (fun kv : bytes * obj => exists z, snd kv = OInt z) parms -> denote (ODict parms) y = ODict parms).
  { intros parms y H. rewrite denote_dict_eq, denote_dict_ints by exact H. reflexivity. }
  assert (Hone : forall n y, denote (if arr then OArr [OName n] else OName n) y = (if arr then OArr [OName n] else OName n))
    by (intros; destruct arr; reflexivity).
  destruct f as [| |blk pr|blk pr|u ws]; cbn [apply_filter snd]; intros H y.
  - discriminate H.
  - cbn [dict_get] in H. destruct (bytes_eqb (bs "Filter") k); [|discriminate H]. inversion H; subst. apply Hone.
  - destruct pr as [p|].
    + pose proof (predict_parms_ints p cols raw) as Hp. destruct (predict p cols raw) as [pd parms]. cbn [snd] in *.
      cbn [dict_get] in H. destruct (bytes_eqb (bs "Filter") k); [inversion H; subst; apply Hone|].
      destruct parms as [|kv parms']; [cbn [dict_get] in H; discriminate H|]. cbn [dict_get] in H.
      destruct (bytes_eqb (bs "DecodeParms") k); [|discriminate H]. inversion H; subst.
      destruct arr; [|apply Hd; exact Hp]. rewrite denote_arr. cbn [denote_list]. rewrite Hd by exact Hp. reflexivity.
    + cbn [snd dict_get] in H. destruct (bytes_eqb (bs "Filter") k); [|discriminate H]. inversion H; subst. apply Hone.
  - destruct pr as [p|].
    + pose proof (predict_parms_ints p cols raw) as Hp. destruct (predict p cols raw) as [pd parms]. cbn [snd] in *.
      cbn [dict_get] in H. destruct (bytes_eqb (bs "Filter") k); [inversion H; subst; reflexivity|].
      destruct parms as [|kv parms']; [cbn [dict_get] in H; discriminate H|]. cbn [dict_get] in H.
      destruct (bytes_eqb (bs "DecodeParms") k); [|discriminate H]. inversion H; subst.
      rewrite denote_arr. cbn [denote_list]. rewrite Hd by exact Hp. reflexivity.
    + cbn [snd dict_get] in H. destruct (bytes_eqb (bs "Filter") k); [|discriminate H]. inversion H; subst. reflexivity.
  - cbn [dict_get] in H. destruct (bytes_eqb (bs "Filter") k); [|discriminate H]. inversion H; subst. apply Hone.
Qed.

Lemma fent_keys f cols arr raw k :
  k <> K_Filter -> k <> K_DecodeParms -> dict_get (snd (apply_filter f cols arr raw)) k = None.
Proof.
  intros N1 N2.
  assert (E1 : bytes_eqb (bs "Filter") k = false).
  { destruct (bytes_eqb (bs "Filter") k) eqn:E; [|reflexivity]. apply bytes_eqb_eq in E. exfalso. apply N1. symmetry. exact E. }
  assert (E2 : bytes_eqb (bs "DecodeParms") k = false).
  { destruct (bytes_eqb (bs "DecodeParms") k) eqn:E; [|reflexivity]. apply bytes_eqb_eq in E. exfalso. apply N2. symmetry. exact E. }
  destruct f as [| |blk pr|blk pr|u ws]; cbn [apply_filter snd]; try reflexivity;
    try (cbn [dict_get]; rewrite E1; reflexivity).
  - destruct pr as [p|]; [|cbn [snd dict_get]; rewrite E1; reflexivity].
    destruct (predict p cols raw) as [pd parms]. cbn [snd dict_get]. rewrite E1.
    destruct parms; [reflexivity|]. cbn [dict_get]. rewrite E2. reflexivity.
  - destruct pr as [p|]; [|cbn [snd dict_get]; rewrite E1; reflexivity].
    destruct (predict p cols raw) as [pd parms]. cbn [snd dict_get]. rewrite E1.
    destruct parms; [reflexivity|]. cbn [dict_get]. rewrite E2. reflexivity.
Qed.

Lemma fent_has_filter f cols arr raw : f <> SfNone -> dict_get (snd (apply_filter f cols arr raw)) K_Filter <> None.
Proof.
  intro H. destruct f as [| |blk pr|blk pr|u ws]; [contradiction| | | |]; cbn [apply_filter snd].
  - discriminate.
  - destruct pr as [p|]; [destruct (predict p cols raw) as [pd parms]|]; discriminate.
  - destruct pr as [p|]; [destruct (predict p cols raw) as [pd parms]|]; discriminate.
  - discriminate.
Qed.
