(* CMapProofsText.v -- segmentation of a text into codes (bytes_to_string loop) and UTF-16
   decoding: surrogate pairs, distribution over well-formed targets. *)
From LV Require Import Base.Bytes Model.RangeMap Model.CMap Spec.CMapSpec Gen.CMapC Proofs.CMapProofs.

Local Open Scope N_scope.

(* ---------- segmentation ---------- *)

(* a code the CMap maps at its own length and at none of its proper prefixes *)
Definition clean_code (cm : cmap) (c : bytes) : Prop :=
  (1 <= length c <= 4)%nat /\
  get cm (code_value c) (N.of_nat (length c)) <> None /\
  forall k, (0 < k < length c)%nat -> get cm (code_value (firstn k c)) (N.of_nat k) = None.

Definition code_target (cm : cmap) (c : bytes) : list N :=
  match get cm (code_value c) (N.of_nat (length c)) with Some v => v | None => [] end.

Lemma units_loop_code cm c rest :
  clean_code cm c -> units_loop cm (c ++ rest) 0 0 = code_target cm c ++ units_loop cm rest 0 0.
Proof.
  intros [Hlen [Hmapped Hpre]]. unfold code_target.
  destruct (get cm (code_value c) (N.of_nat (length c))) as [v|] eqn:Hv; [clear Hmapped|congruence].
  destruct c as [|b1 [|b2 [|b3 [|b4 [|b5 c]]]]]; cbn [length] in Hlen; try lia.
  - (* 1 byte *)
    cbn [app units_loop]. change (0 =? 4) with false. cbv iota.
    change (code_value [b1]) with (0 * 256 + N_of_byte b1) in Hv. change (N.of_nat (length [b1])) with (0 + 1) in Hv.
    rewrite Hv. reflexivity.
  - (* 2 bytes *)
    pose proof (Hpre 1%nat ltac:(cbn; lia)) as H1.
    change (code_value (firstn 1 [b1; b2])) with (0 * 256 + N_of_byte b1) in H1. change (N.of_nat 1) with (0 + 1) in H1.
    cbn [app units_loop]. change (0 =? 4) with false. cbv iota. rewrite H1.
    change (0 + 1 =? 4) with false. cbv iota. cbn [app].
    change (code_value [b1; b2]) with ((0 * 256 + N_of_byte b1) * 256 + N_of_byte b2) in Hv.
    change (N.of_nat (length [b1; b2])) with (0 + 1 + 1) in Hv. rewrite Hv. reflexivity.
  - (* 3 bytes *)
    pose proof (Hpre 1%nat ltac:(cbn; lia)) as H1. pose proof (Hpre 2%nat ltac:(cbn; lia)) as H2.
    change (code_value (firstn 1 [b1; b2; b3])) with (0 * 256 + N_of_byte b1) in H1. change (N.of_nat 1) with (0 + 1) in H1.
    change (code_value (firstn 2 [b1; b2; b3])) with ((0 * 256 + N_of_byte b1) * 256 + N_of_byte b2) in H2.
    change (N.of_nat 2) with (0 + 1 + 1) in H2.
    cbn [app units_loop]. change (0 =? 4) with false. cbv iota. rewrite H1.
    change (0 + 1 =? 4) with false. cbv iota. cbn [app]. rewrite H2.
    change (0 + 1 + 1 =? 4) with false. cbv iota. cbn [app].
    change (code_value [b1; b2; b3]) with (((0 * 256 + N_of_byte b1) * 256 + N_of_byte b2) * 256 + N_of_byte b3) in Hv.
    change (N.of_nat (length [b1; b2; b3])) with (0 + 1 + 1 + 1) in Hv. rewrite Hv. reflexivity.
  - (* 4 bytes *)
    pose proof (Hpre 1%nat ltac:(cbn; lia)) as H1. pose proof (Hpre 2%nat ltac:(cbn; lia)) as H2.
    pose proof (Hpre 3%nat ltac:(cbn; lia)) as H3.
    change (code_value (firstn 1 [b1; b2; b3; b4])) with (0 * 256 + N_of_byte b1) in H1. change (N.of_nat 1) with (0 + 1) in H1.
    change (code_value (firstn 2 [b1; b2; b3; b4])) with ((0 * 256 + N_of_byte b1) * 256 + N_of_byte b2) in H2.
    change (N.of_nat 2) with (0 + 1 + 1) in H2.
    change (code_value (firstn 3 [b1; b2; b3; b4])) with (((0 * 256 + N_of_byte b1) * 256 + N_of_byte b2) * 256 + N_of_byte b3) in H3.
    change (N.of_nat 3) with (0 + 1 + 1 + 1) in H3.
    cbn [app units_loop]. change (0 =? 4) with false. cbv iota. rewrite H1.
    change (0 + 1 =? 4) with false. cbv iota. cbn [app]. rewrite H2.
    change (0 + 1 + 1 =? 4) with false. cbv iota. cbn [app]. rewrite H3.
    change (0 + 1 + 1 + 1 =? 4) with false. cbv iota. cbn [app].
    change (code_value [b1; b2; b3; b4])
      with ((((0 * 256 + N_of_byte b1) * 256 + N_of_byte b2) * 256 + N_of_byte b3) * 256 + N_of_byte b4) in Hv.
    change (N.of_nat (length [b1; b2; b3; b4])) with (0 + 1 + 1 + 1 + 1) in Hv. rewrite Hv. reflexivity.
Qed.

Theorem segmentation_units cm codes :
  Forall (clean_code cm) codes ->
  units_of_text cm (concat codes) = concat (map (code_target cm) codes).
Proof.
  unfold units_of_text. induction 1 as [|c codes Hc _ IH]; cbn [concat map].
  - reflexivity.
  - rewrite units_loop_code by exact Hc. rewrite IH. reflexivity.
Qed.

(* ---------- UTF-16 ---------- *)

Lemma is_high_spec u : is_high u = true <-> high u.
Proof. unfold is_high, high. rewrite andb_true_iff, !N.leb_le. tauto. Qed.
Lemma is_low_spec u : is_low u = true <-> low u.
Proof. unfold is_low, low. rewrite andb_true_iff, !N.leb_le. tauto. Qed.

Theorem surrogates_pair h l rest :
  high h -> low l ->
  utf16_units_decode (h :: l :: rest) = scalar_of_pair h l :: utf16_units_decode rest.
Proof.
  intros Hh Hl. cbn [utf16_units_decode].
  apply is_high_spec in Hh. apply is_low_spec in Hl. rewrite Hh, Hl. reflexivity.
Qed.

Lemma scalar_of_pair_range h l : high h -> low l -> 65536 <= scalar_of_pair h l <= 1114111.
Proof. unfold high, low, scalar_of_pair. lia. Qed.

(* the decoder computes the relation [utf16] of the spec, and distributes over concatenation
   of well-formed pieces *)
Lemma decode_utf16_app us cs : utf16 us cs -> forall rest,
  utf16_units_decode (us ++ rest) = cs ++ utf16_units_decode rest.
Proof.
  induction 1 as [|u us cs Hu Hnh Hnl _ IH|h l us cs Hh Hl _ IH]; intro rest.
  - reflexivity.
  - cbn [app utf16_units_decode].
    destruct (is_high u) eqn:E1; [apply is_high_spec in E1; contradiction|].
    destruct (is_low u) eqn:E2; [apply is_low_spec in E2; contradiction|].
    rewrite IH. reflexivity.
  - cbn [app]. rewrite surrogates_pair by assumption. rewrite IH. reflexivity.
Qed.

Theorem decode_utf16 us cs : utf16 us cs -> utf16_units_decode us = cs.
Proof. intro H. pose proof (decode_utf16_app us cs H []) as E. rewrite !app_nil_r in E. exact E. Qed.

Theorem decode_concat (pieces : list (list N * list N)) :
  Forall (fun p => utf16 (fst p) (snd p)) pieces ->
  utf16_units_decode (concat (map fst pieces)) = concat (map snd pieces).
Proof.
  induction 1 as [|[us cs] ps Hp _ IH]; cbn [map concat fst snd].
  - reflexivity.
  - cbn [fst snd] in Hp. rewrite (decode_utf16_app us cs Hp). rewrite IH. reflexivity.
Qed.

(* bytes and back *)
Lemma be_units_be_bytes us : Forall (fun u => u < 65536) us -> be_units (be_bytes us) = (us, false).
Proof.
  induction 1 as [|u us Hu _ IH]; [reflexivity|].
  unfold be_bytes in *. cbn [flat_map app be_units]. rewrite IH.
  f_equal. f_equal.
  rewrite (N.mod_small (u / 256)) by (apply N.div_lt_upper_bound; lia).
  rewrite N.mul_comm. symmetry. apply N.div_mod. lia.
Qed.

Lemma utf16_units_lt us cs : utf16 us cs -> Forall (fun u => u < 65536) us.
Proof.
  induction 1; constructor; try assumption.
  - unfold high in *; lia.
  - constructor; [unfold low in *; lia | assumption].
Qed.

(* the whole of bytes_to_string on a text made of clean codes with well-formed targets *)
Theorem bytes_to_string_codes cm (codes : list (bytes * list N)) :
  Forall (fun p => clean_code cm (fst p) /\ utf16 (code_target cm (fst p)) (snd p)) codes ->
  bytes_to_string cm (concat (map fst codes)) = concat (map snd codes).
Proof.
  intro H. unfold bytes_to_string.
  rewrite segmentation_units by (apply Forall_map; eapply Forall_impl; [|exact H]; intros p [Hc _]; exact Hc).
  rewrite map_map.
  set (pieces := map (fun p => (code_target cm (fst p), snd p)) codes).
  assert (Hp : Forall (fun p => utf16 (fst p) (snd p)) pieces).
  { unfold pieces. apply Forall_map. eapply Forall_impl; [|exact H]. intros p [_ Hu]. exact Hu. }
  replace (map (fun x => code_target cm (fst x)) codes) with (map fst pieces)
    by (unfold pieces; rewrite map_map; reflexivity).
  replace (map snd codes) with (map snd pieces) by (unfold pieces; rewrite map_map; reflexivity).
  unfold utf16be_decode. rewrite be_units_be_bytes.
  - rewrite app_nil_r. apply decode_concat. exact Hp.
  - clear -Hp. induction Hp as [|p ps Hp _ IH]; cbn [map concat]; [constructor|].
    apply Forall_app. split; [eapply utf16_units_lt; exact Hp | exact IH].
Qed.

(* ---------- end to end, stated against the spec only ---------- *)

(* (code bytes, target units, scalar values): the CMap maps the code, none of its proper prefixes,
   and its target is well-formed UTF-16 for those scalar values *)
Definition defined_code (secs : list csection) (x : bytes * list N * list N) : Prop :=
  let '(c, t, cs) := x in
  (1 <= length c <= 4)%nat /\
  lookup secs (N.of_nat (length c)) (code_value c) = Some t /\
  (forall k, (0 < k < length c)%nat -> lookup secs (N.of_nat k) (code_value (firstn k c)) = None) /\
  utf16 t cs.

Theorem decodes_as_defined secs cm (codes : list (bytes * list N * list N)) :
  secs_u32 secs -> from_sections secs = FsOk cm ->
  Forall (defined_code secs) codes ->
  bytes_to_string cm (concat (map (fun x => fst (fst x)) codes)) = concat (map snd codes).
Proof.
  intros Hu Hf H.
  pose proof (bytes_to_string_codes cm (map (fun x => (fst (fst x), snd x)) codes)) as E.
  rewrite !map_map in E. cbn [fst snd] in E. apply E. clear E.
  apply Forall_map. eapply Forall_impl; [|exact H].
  intros [[c t] cs] [Hlen [Hl [Hp Hw]]]. cbn [fst snd].
  assert (Hg : get cm (code_value c) (N.of_nat (length c)) = Some t)
    by (rewrite (get_eq_spec secs cm Hu Hf); exact Hl).
  split.
  - split; [exact Hlen|]. split; [congruence|].
    intros k Hk. rewrite (get_eq_spec secs cm Hu Hf). apply Hp; exact Hk.
  - unfold code_target. rewrite Hg. exact Hw.
Qed.
