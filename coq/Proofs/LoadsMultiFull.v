(* LoadsMultiFull.v -- C02: the whole-file theorem for files of SEVERAL cross-reference sections (Proofs/LoadsMultiProofs.v)
   restated in the property's own terms, as LoadsFullProofs.v does for single-section files: loading the file
   ref_write_multi produced yields the version and EXACTLY the objects the file defines, each compared by value with
   [content a]; the superseded definitions that are in the file are not delivered. *)
From LV Require Import Base.Bytes Base.Sx Model.Obj Model.Writer Model.Parser Model.Xref Model.ObjStm Model.Loader Model.Utf Gen.Lex
  Spec.XrefSpec Spec.RefWriter Proofs.LoadsFrameProofs Proofs.LoadsTableProofs Proofs.LoadsStreamProofs Proofs.LoadsRefLenProofs.
From LV Require Import Model.LoaderExt Proofs.LoaderExtProofs Proofs.LoadsFilterProofs Proofs.LoadsFullProofs Proofs.LoadsMultiProofs.
From Coq Require Import Lia.
Local Open Scope N_scope.

Lemma top_ok_ok2 a tp : top_ok tp -> top_ok2 a tp.
Proof.
  destruct tp as [[[i g] o] y]. unfold top_ok, top_ok2. intros [H1 [H2 H3]]. split; [exact H1|]. split; [exact H2|].
  destruct o; try exact H3. destruct H3 as [A [B [C D]]]. split; [exact A|]. split; [exact B|]. split; [exact D|left; exact C].
Qed.

Lemma ref_write_multi_nodup st parts a file : ref_write_multi st parts a = Some file -> NoDup (LoadsTableProofs.nums a).
Proof.
  intro H. unfold ref_write_multi in H.
  destruct (contains (bs "%PDF-") (s_junk st) || contains [x0d] (a_version a) || contains [x0a] (a_version a)); [discriminate H|].
  match type of H with (if negb (nodup_N ?l && _ && _) then _ else _) = _ => destruct (nodup_N l) eqn:E; [|cbn [andb negb] in H; discriminate H] end.
  apply nodup_N_spec in E. apply NoDup_app_l in E. exact E.
Qed.

(* exactly the objects the file defines, each with the value it defines (no file-structure objects: every section is a table) *)
Definition objects_exact (a : adoc) (m : objmap) : Prop :=
  forall id, same_opt (lookup m id) (lookup (content a) id).

(* THE DOMAIN of the multi-section theorem (table-format parts): see Props/C02.v *)
Definition multi_dom_table (st : fstyle) (parts : list mpart) (a : adoc) (file : bytes) : Prop :=
  s_ostms st = [] /\ Forall (part_dom a) parts /\ Forall top_ok (LoadsTableProofs.tops st a) /\ utf8_decode (a_version a) <> None /\
  (dict_get (a_trailer a) RefWriter.K_Size = None /\ dict_get (a_trailer a) K_Prev = None /\
   dict_get (a_trailer a) K_Encrypt = None /\ dict_get (a_trailer a) K_XRefStm = None) /\
  1 + max_num (LoadsTableProofs.nums a) <= u32_max /\ blen file <= u32_max /\
  match parts with p :: _ => 25 < p_xpos st a p (blen (RefWriter.header st (a_version a))) | [] => True end /\
  window_ok st parts file.

Theorem loads_multi_table_full dec can st parts a file :
  multi_dom_table st parts a file -> ref_write_multi st parts a = Some file ->
  exists d, load_ext dec can file = LOk d XTTable /\ d_version d = a_version a /\ objects_exact a (d_objects d).
Proof.
  intros [Hos [Hdom [Htops [Hu [Htr [Hn32 [Hlen [H25 Hwin]]]]]]]] Hw.
  pose proof (ref_write_multi_nodup st parts a file Hw) as Hnd.
  destruct (loads_multi_table st a Hos dec can Hnd Htops Htr Hn32 parts file Hdom Hu Hw Hlen H25 Hwin) as [d [Hl [Hv [P1 P2]]]].
  exists d. split; [exact Hl|]. split; [exact Hv|]. intro id.
  destruct (lookup (content a) id) as [o'|] eqn:Ec.
  - destruct (content_lookup_some a id o' Ec) as [o [Hin ->]].
    set (tp := (id, o, find_istyle (s_objs st) (fst id))).
    assert (Htp : In tp (LoadsTableProofs.tops st a)) by (unfold LoadsTableProofs.tops; apply in_map_iff; exists (id, o); split; [reflexivity|exact Hin]).
    pose proof (P1 tp Htp) as Q. change (fst (fst tp)) with id in Q. rewrite Q. exact (top_same a tp (top_ok_ok2 a tp (proj1 (Forall_forall _ _) Htops tp Htp))).
  - destruct (lookup (d_objects d) id) as [v|] eqn:El; [|exact I]. destruct (P2 id v El) as [tp [Htp E]].
    unfold LoadsTableProofs.tops in Htp. apply in_map_iff in Htp as [io [Eio Hio]]. subst tp. cbn [fst] in E.
    assert (Hin : In (id, snd io) (a_objs a)) by (rewrite <- E; destruct io; exact Hio).
    rewrite (content_lookup_in a id (snd io) Hnd Hin) in Ec. discriminate Ec.
Qed.
