(* XrefTableProofs.v -- rung 1 of C02: the cross-reference TABLE parser (Model/Xref.v xref_table) is the inverse
   of the specification printer (Spec/XrefSpec.v table_text) for any sectioning, any of the three entry
   end-of-lines, any header end-of-line, with or without the space before it. *)
From LV Require Import Base.Bytes Base.Sx Model.Obj Model.Writer Model.Parser Model.Xref Spec.XrefSpec
  Proofs.LexProofs Proofs.XrefProofs.
Local Open Scope N_scope.

(* ---------- small parser facts ---------- *)
Lemma prefixb_app (t r : bytes) : prefixb t (t ++ r) = true.
Proof. apply prefixb_spec. exists r. reflexivity. Qed.

Lemma drop_app (t r : bytes) : drop (length t) (t ++ r) = r.
Proof. induction t as [|c t IH]; [destruct r; reflexivity | exact IH]. Qed.

Lemma ptag_app t r : ptag t (t ++ r) = POk tt r.
Proof. unfold ptag. rewrite prefixb_app, drop_app. reflexivity. Qed.

Lemma ptag_1 c r : ptag [c] (c :: r) = POk tt r.
Proof. exact (ptag_app [c] r). Qed.

Lemma ptag_1_ne c d r : c <> d -> ptag [c] (d :: r) = PErr.
Proof.
  intro H. unfold ptag. cbn [prefixb]. replace (byte_eqb c d) with false; [reflexivity|].
  symmetry. apply byte_eqb_neq. exact H.
Qed.

Lemma digit_char c : is_dec_digit c = true -> c <> x20 /\ c <> x0a /\ c <> x0d.
Proof. intro H. repeat split; intro E; subst c; discriminate. Qed.

(* end-of-line markers in front of a byte that is not LF *)
Lemma eol_rt e c r : c <> x0a -> eol (eol_bytes e ++ c :: r) = POk tt (c :: r).
Proof.
  intro H. destruct e; cbn [eol_bytes app eol]; try reflexivity.
  destruct c; try reflexivity. contradiction.
Qed.

Lemma xref_eol_rt el r : xref_eol (eol2_bytes el ++ r) = POk tt r.
Proof. destruct el; reflexivity. Qed.

(* zero-padded decimals *)
Lemma digits_val_zeros k ds : digits_val (repeat x30 k ++ ds) = digits_val ds.
Proof.
  unfold digits_val. rewrite fold_left_app.
  replace (fold_left (fun acc c => acc * 10 + (N_of_byte c - 48)) (repeat x30 k) 0) with 0; [reflexivity|].
  induction k as [|k IH]; [reflexivity|]. cbn [repeat fold_left]. change (0 * 10 + (N_of_byte x30 - 48)) with 0. exact IH.
Qed.

Lemma forallb_repeat_zero k : forallb is_dec_digit (repeat x30 k) = true.
Proof. induction k; [reflexivity|]. cbn [repeat forallb]. rewrite IHk. reflexivity. Qed.

Lemma unsigned_int_pad maxv w n rest :
  n <= maxv -> starts_with is_dec_digit rest = false ->
  unsigned_int maxv (pad_dec w n ++ rest) = POk n rest.
Proof.
  intros Hn Hr. unfold unsigned_int, pad_dec.
  assert (Hd : forallb is_dec_digit (repeat x30 (w - length (N_dec n)) ++ N_dec n) = true).
  { rewrite forallb_app, forallb_repeat_zero, N_dec_digits. reflexivity. }
  rewrite (take_while_app _ _ _ Hd Hr).
  assert (Hne : repeat x30 (w - length (N_dec n)) ++ N_dec n <> []).
  { intro E. apply app_eq_nil in E as [_ E]. exact (N_dec_nonempty n E). }
  rewrite (match_nonempty _ _ _ Hne), digits_val_zeros, N_dec_val.
  assert (n <=? maxv = true) as -> by lia. reflexivity.
Qed.

Lemma unsigned_int_pad_sp maxv w n r :
  n <= maxv -> unsigned_int maxv (pad_dec w n ++ x20 :: r) = POk n (x20 :: r).
Proof. intro H. apply unsigned_int_pad; [exact H | reflexivity]. Qed.

Lemma unsigned_int_nodigit maxv s : starts_with is_dec_digit s = false -> unsigned_int maxv s = PErr.
Proof.
  intro H. unfold unsigned_int. destruct s as [|c r]; [reflexivity|].
  cbn in H. cbn [take_while]. rewrite H. reflexivity.
Qed.

(* ---------- entries ---------- *)
Definition parsed_entry (e : sentry) : N * N * bool :=
  match e with
  | SInUse o g => (o, g, true)
  | SFree n g => (n, g, false)
  | SComp _ _ => (0, 0, false)
  end.

(* what a table entry can hold *)
Definition tentry_ok (e : sentry) : Prop :=
  match e with
  | SInUse o g => o <= u32_max /\ g < 65536
  | SFree n g => n <= u32_max /\ g <= u32_max
  | SComp _ _ => False
  end.

Lemma xref_entry_rt e el rest : tentry_ok e ->
  xref_entry (table_entry e el ++ rest) = POk (parsed_entry e) rest.
Proof.
  intro H. unfold xref_entry.
  destruct e as [n g|o g|c i]; cbn [table_entry tentry_ok parsed_entry] in *; [| |contradiction];
    destruct H as [H1 H2].
  - rewrite <- app_assoc; cbn [app].
    rewrite (unsigned_int_pad_sp u32_max 10 n _ H1); cbn [pbind].
    rewrite ptag_1; cbn [pbind]. rewrite <- app_assoc; cbn [app].
    rewrite (unsigned_int_pad_sp u32_max 5 g _ H2); cbn [pbind].
    rewrite ptag_1; cbn [pbind entry_kind]. rewrite xref_eol_rt; reflexivity.
  - assert (H2' : g <= u32_max) by (unfold u32_max; lia).
    rewrite <- app_assoc; cbn [app].
    rewrite (unsigned_int_pad_sp u32_max 10 o _ H1); cbn [pbind].
    rewrite ptag_1; cbn [pbind]. rewrite <- app_assoc; cbn [app].
    rewrite (unsigned_int_pad_sp u32_max 5 g _ H2'); cbn [pbind].
    rewrite ptag_1; cbn [pbind entry_kind]. rewrite xref_eol_rt; reflexivity.
Qed.

Definition entries_text (es : list (sentry * eol2)) : bytes :=
  flat_map (fun ee => table_entry (fst ee) (snd ee)) es.

Lemma many0_entries_rt : forall es fuel rest,
  Forall (fun ee => tentry_ok (fst ee)) es -> (length es < fuel)%nat ->
  xref_entry rest = PErr ->
  many0_entries fuel (entries_text es ++ rest) = POk (map (fun ee => parsed_entry (fst ee)) es) rest.
Proof.
  induction es as [|[e el] es IH]; intros fuel rest Hok Hf Hr.
  - destruct fuel as [|f]; [cbn in Hf; lia|]. cbn [entries_text flat_map app many0_entries map]. rewrite Hr. reflexivity.
  - destruct fuel as [|f]; [cbn in Hf; lia|]. inversion Hok; subst.
    unfold entries_text. cbn [flat_map fst snd many0_entries map]. rewrite <- app_assoc.
    rewrite xref_entry_rt by assumption.
    fold (entries_text es). rewrite IH; [reflexivity | assumption | cbn in Hf; lia | exact Hr].
Qed.

(* ---------- sections ---------- *)
Definition tsec_ok (s : tsection) : Prop :=
  Forall (fun ee => tentry_ok (fst ee)) (ts_entries s) /\ ts_entries s <> [] /\
  ts_first s + N.of_nat (length (ts_entries s)) <= two32 /\
  N.of_nat (length (ts_entries s)) <= u32_max.      (* the count must be printable as a u32 *)

(* a section header is not an entry, and neither is anything that does not start with a digit *)
Lemma xref_entry_nodigit s : starts_with is_dec_digit s = false -> xref_entry s = PErr.
Proof. intro H. unfold xref_entry. rewrite unsigned_int_nodigit by exact H. reflexivity. Qed.

Lemma N_dec_le_len n : (1 <= length (N_dec n))%nat.
Proof. destruct (N_dec n) eqn:E; [exact (False_ind _ (N_dec_nonempty n E)) | cbn; lia]. Qed.

Lemma table_entry_starts_digit e el r : starts_with is_dec_digit (table_entry e el ++ r) = true.
Proof.
  destruct e; cbn [table_entry]; unfold pad_dec;
    match goal with |- context [repeat x30 ?k ++ N_dec ?n] =>
      destruct (repeat x30 k) as [|z zs] eqn:Ez;
      [ destruct (N_dec_cons n) as [c [t [E Hc]]]; rewrite E; cbn; exact Hc
      | destruct k; [discriminate|]; cbn in Ez; inversion Ez; subst; reflexivity ]
    end.
Qed.

Lemma section_header_not_entry s rest : ts_first s <= u32_max ->
  xref_entry (table_section s ++ rest) = PErr.
Proof.
  intro Hf. unfold table_section, xref_entry. rewrite <- app_assoc. cbn [app].
  rewrite unsigned_int_rt by (try exact Hf; reflexivity). cbn [pbind]. rewrite ptag_1. cbn [pbind].
  rewrite <- !app_assoc.
  destruct (N.le_gt_cases (N.of_nat (length (ts_entries s))) u32_max) as [Hc|Hc].
  - destruct (ts_sp s).
    + cbn [app]. rewrite unsigned_int_rt by (try exact Hc; reflexivity). cbn [pbind]. rewrite ptag_1. cbn [pbind].
      destruct (ts_eol s); reflexivity.
    + cbn [app]. rewrite unsigned_int_rt by (try exact Hc; destruct (ts_eol s); reflexivity). cbn [pbind].
      destruct (ts_eol s); reflexivity.
  - unfold unsigned_int.
    assert (Hr : starts_with is_dec_digit ((if ts_sp s then [x20] else []) ++ eol_bytes (ts_eol s) ++
                   flat_map (fun ee => table_entry (fst ee) (snd ee)) (ts_entries s) ++ rest) = false)
      by (destruct (ts_sp s), (ts_eol s); reflexivity).
    rewrite (take_while_app _ _ _ (N_dec_digits _) Hr).
    rewrite (match_nonempty _ _ _ (N_dec_nonempty _)), N_dec_val.
    replace (N.of_nat (length (ts_entries s)) <=? u32_max) with false by (symmetry; apply N.leb_gt; exact Hc).
    reflexivity.
Qed.

Lemma strip_sp_rt (sp : bool) e tl :
  match (if sp then [x20] else []) ++ eol_bytes e ++ tl with
  | x20 :: t => t
  | _ => (if sp then [x20] else []) ++ eol_bytes e ++ tl
  end = eol_bytes e ++ tl.
Proof. destruct sp, e; reflexivity. Qed.

Lemma xref_section_rt s fuel rest :
  tsec_ok s -> (length (ts_entries s) < fuel)%nat -> xref_entry rest = PErr ->
  xref_section fuel (table_section s ++ rest) =
  POk (ts_first s, map (fun ee => parsed_entry (fst ee)) (ts_entries s)) rest.
Proof.
  intros [Hok [Hne [Hrange Hlen]]] Hf Hr. unfold table_section, xref_section.
  rewrite <- app_assoc. cbn [app].
  rewrite unsigned_int_rt by (try (unfold usize_max, two32 in *; lia); reflexivity). cbn [pbind].
  rewrite ptag_1. cbn [pbind]. rewrite <- !app_assoc.
  rewrite unsigned_int_rt by (try exact Hlen; destruct (ts_sp s), (ts_eol s); reflexivity). cbn [pbind].
  rewrite strip_sp_rt.
  (* the byte after the end-of-line is the first digit of the first entry *)
  destruct (ts_entries s) as [|[e el] es] eqn:Ees; [contradiction|].
  pose proof (table_entry_starts_digit e el (flat_map (fun ee => table_entry (fst ee) (snd ee)) es ++ rest)) as Hd.
  cbn [flat_map fst snd]. rewrite <- app_assoc.
  destruct (table_entry e el ++ flat_map (fun ee => table_entry (fst ee) (snd ee)) es ++ rest) as [|c r] eqn:Et;
    [discriminate|].
  cbn [starts_with] in Hd. destruct (digit_char c Hd) as [_ [Hlf _]].
  rewrite eol_rt by exact Hlf. cbn [pbind]. rewrite <- Et.
  pose proof (many0_entries_rt ((e, el) :: es) fuel rest) as Hm.
  unfold entries_text in Hm. cbn [flat_map fst snd] in Hm. rewrite <- app_assoc in Hm.
  rewrite Hm; [reflexivity | exact Hok | exact Hf | exact Hr].
Qed.

(* ---------- the fold closure against the specification's meaning ---------- *)
Definition no_comp (e : sentry) : Prop := match e with SComp _ _ => False | _ => True end.

Lemma add_section_spec : forall (es : list sentry) m first index,
  Forall tentry_ok es -> first + index + N.of_nat (length es) <= two32 ->
  add_section m first index (map parsed_entry es) = fold_left spec_step (number_from (first + index) es) m.
Proof.
  induction es as [|e es IH]; intros m first index Hok Hr; [reflexivity|].
  inversion Hok; subst. cbn [map add_section number_from fold_left length] in *.
  replace (first + index + 1) with (first + (index + 1)) by lia.
  destruct e as [n g|o g|c i]; cbn [parsed_entry tentry_ok] in *; [| |contradiction].
  - cbn [andb]. unfold spec_step at 2. cbn [snd]. apply IH; [assumption|lia].
  - destruct H1 as [Ho Hg]. replace (g <=? u16_max) with true by (symmetry; apply N.leb_le; unfold u16_max; lia).
    cbn [andb]. rewrite N.mod_small by lia. unfold spec_step at 2. cbn [fst snd]. apply IH; [assumption|lia].
Qed.

(* ---------- all sections ---------- *)
Definition sections_text (secs : list tsection) : bytes := flat_map table_section secs.

Lemma fold_sections_rt : forall secs n fuel rest m,
  Forall tsec_ok secs -> (length secs < n)%nat ->
  Forall (fun s => (length (ts_entries s) < fuel)%nat) secs ->
  starts_with is_dec_digit rest = false ->
  fold_sections n fuel (sections_text secs ++ rest) m =
  POk (fold_left spec_step (numbered (tsections_plain secs)) m) rest.
Proof.
  induction secs as [|s secs IH]; intros n fuel rest m Hok Hn Hf Hr.
  - destruct n as [|n]; [cbn in Hn; lia|]. cbn [sections_text flat_map app fold_sections].
    unfold xref_section. rewrite unsigned_int_nodigit by exact Hr. reflexivity.
  - destruct n as [|n]; [cbn in Hn; lia|]. inversion Hok as [|x l Hs Hrest]; subst. inversion Hf; subst.
    unfold sections_text. cbn [flat_map fold_sections]. rewrite <- app_assoc.
    assert (Hnext : xref_entry (flat_map table_section secs ++ rest) = PErr).
    { destruct secs as [|s2 secs2].
      - cbn [flat_map app]. apply xref_entry_nodigit. exact Hr.
      - cbn [flat_map]. rewrite <- app_assoc. apply section_header_not_entry.
        inversion Hrest as [|y l2 [_ [Hne2 [Hr2 _]]] _]; subst. destruct (ts_entries s2); [contradiction|]. cbn [length] in Hr2. unfold two32, u32_max in *. lia. }
    rewrite xref_section_rt by assumption.
    destruct Hs as [Hes [Hne [Hrange _]]].
    rewrite <- (map_map fst parsed_entry).
    rewrite <- (N.add_0_r (ts_first s)) at 1.
    rewrite add_section_spec.
    + fold (sections_text secs). rewrite IH by (try assumption; cbn in Hn; lia).
      unfold tsections_plain, numbered. cbn [map flat_map fst snd]. rewrite fold_left_app. rewrite ?N.add_0_r. reflexivity.
    + apply Forall_map. exact Hes.
    + rewrite map_length. lia.
Qed.

Lemma flat_map_length_ge {A} (f : A -> bytes) (l : list A) :
  (forall x, 1 <= length (f x))%nat -> (length l <= length (flat_map f l))%nat.
Proof.
  intro H. induction l as [|x l IH]; [cbn; lia|]. cbn [flat_map length]. rewrite app_length. specialize (H x). lia.
Qed.

Lemma table_entry_len e el : (1 <= length (table_entry e el))%nat.
Proof. destruct e; cbn [table_entry]; rewrite app_length; cbn; lia. Qed.

Lemma table_section_len s : (1 <= length (table_section s))%nat /\
  (length (ts_entries s) <= length (table_section s))%nat.
Proof.
  unfold table_section. rewrite !app_length. cbn [length]. rewrite !app_length.
  pose proof (flat_map_length_ge (fun ee => table_entry (fst ee) (snd ee)) (ts_entries s)
                (fun ee => table_entry_len (fst ee) (snd ee))).
  pose proof (N_dec_le_len (ts_first s)). lia.
Qed.

(* ---------- the theorem ---------- *)
Theorem xref_table_any_sectioning :
  forall (kw_eol : eolk) (secs : list tsection) (rest : bytes),
    secs <> [] -> Forall tsec_ok secs ->
    starts_with is_dec_digit rest = false ->
    xref_table (table_text kw_eol secs ++ rest) =
    POk {| x_type := XTTable; x_entries := spec_map (numbered (tsections_plain secs)); x_size := 0 |} (space rest).
Proof.
  intros kw_eol secs rest Hne Hok Hr. unfold xref_table, table_text.
  remember (S (length ((bs "xref" ++ eol_bytes kw_eol ++ flat_map table_section secs) ++ rest))) as fuel eqn:Efuel.
  (* lengths: the fuel exceeds every count *)
  assert (Hlen_all : forall s', In s' secs -> (length (ts_entries s') < fuel)%nat).
  { intros s' Hin. subst fuel. rewrite !app_length.
    assert (length (ts_entries s') <= length (flat_map table_section secs))%nat.
    { clear -Hin. induction secs as [|a l IH]; [contradiction|].
      cbn [flat_map]. rewrite app_length. destruct Hin as [->|Hin].
      - pose proof (table_section_len s'). lia.
      - specialize (IH Hin). lia. }
    lia. }
  assert (Hsecs : (length secs < fuel)%nat).
  { subst fuel. rewrite !app_length.
    pose proof (flat_map_length_ge table_section secs (fun s' => proj1 (table_section_len s'))). lia. }
  clear Efuel.
  rewrite <- !app_assoc. rewrite ptag_app. cbn [pbind].
  destruct secs as [|s secs]; [contradiction|]. inversion Hok as [|x l Hs Hrest]; subst x l.
  cbn [flat_map]. rewrite <- app_assoc.
  (* the end-of-line after "xref" is followed by the first digit of the first header *)
  assert (Hhd : exists c r, table_section s ++ flat_map table_section secs ++ rest = c :: r /\ is_dec_digit c = true).
  { unfold table_section. destruct (N_dec_cons (ts_first s)) as [c [t [E Hc]]]. rewrite E.
    eexists c, _. split; [reflexivity | exact Hc]. }
  destruct Hhd as [c [r [Ehd Hc]]]. rewrite Ehd. destruct (digit_char c Hc) as [_ [Hlf _]].
  rewrite eol_rt by exact Hlf. cbn [pbind]. rewrite <- Ehd.
  assert (Hnext : xref_entry (flat_map table_section secs ++ rest) = PErr).
  { destruct secs as [|s2 secs2].
    - cbn [flat_map app]. apply xref_entry_nodigit. exact Hr.
    - cbn [flat_map]. rewrite <- app_assoc. apply section_header_not_entry.
      inversion Hrest as [|y l2 [_ [Hne2 [Hr2 _]]] _]; subst. destruct (ts_entries s2); [contradiction|]. cbn [length] in Hr2. unfold two32, u32_max in *. lia. }
  rewrite xref_section_rt; [| exact Hs | exact (Hlen_all s (or_introl eq_refl)) | exact Hnext].
  destruct Hs as [Hes [Hne' [Hrange _]]].
  rewrite <- (map_map fst parsed_entry).
  rewrite <- (N.add_0_r (ts_first s)) at 1.
  rewrite add_section_spec; [| apply Forall_map; exact Hes | rewrite map_length; lia].
  fold (sections_text secs).
  rewrite fold_sections_rt; [| exact Hrest | cbn [length] in Hsecs; lia | | exact Hr].
  - cbn [pbind]. unfold spec_map, tsections_plain, numbered. cbn [map flat_map fst snd].
    rewrite fold_left_app. rewrite ?N.add_0_r. reflexivity.
  - apply Forall_forall. intros s' Hin. exact (Hlen_all s' (or_intror Hin)).
Qed.
