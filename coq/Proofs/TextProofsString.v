(* TextProofsString.v -- text strings: decode_text_string inverts text_string, encode_utf16_be and
   encode_utf8 on EVERY Unicode string (current tree); the pinned tree is refuted by witnesses. *)
From LV Require Import Base.Bytes Model.Utf Model.Obj Model.OneByte Model.TextString Gen.Tables
  Proofs.TextProofsUtf.
Local Open Scope N_scope.

Ltac Zify.zify_post_hook ::= Z.to_euclidean_division_equations.

(* ---- small list facts ---- *)
Lemma prefixb_app p r : prefixb p (p ++ r) = true.
Proof. induction p as [|x p IH]; cbn; [reflexivity|]. rewrite byte_eqb_refl. exact IH. Qed.

Lemma drop_app_length {A} (p r : list A) : drop (length p) (p ++ r) = r.
Proof. induction p; cbn; auto. Qed.

(* ---- the regenerated marks are consistent ---- *)
Lemma mark16_eq : be_bytes ENC_MARK_UTF16 = DEC_MARK_UTF16.
Proof. vm_compute. reflexivity. Qed.
Lemma mark8_eq : ENC_MARK_UTF8 = DEC_MARK_UTF8.
Proof. vm_compute. reflexivity. Qed.
Lemma skip16_eq : DEC_SKIP_UTF16 = length DEC_MARK_UTF16.
Proof. vm_compute. reflexivity. Qed.
Lemma skip8_eq : DEC_SKIP_UTF8 = length DEC_MARK_UTF8.
Proof. vm_compute. reflexivity. Qed.
Lemma self_table_eq : TEXT_STRING_SELF_TABLE = TEXT_STRING_ENCODING.
Proof. reflexivity. Qed.
(* the UTF-8 mark does not start with the UTF-16BE mark *)
Lemma mark8_not_16 r : prefixb DEC_MARK_UTF16 (DEC_MARK_UTF8 ++ r) = false.
Proof. vm_compute. reflexivity. Qed.
(* both marks start with a byte >= 128 *)
Lemma marks_high :
  (exists m t, DEC_MARK_UTF16 = m :: t /\ 128 <= N_of_byte m) /\
  (exists m t, DEC_MARK_UTF8 = m :: t /\ 128 <= N_of_byte m).
Proof.
  split; eexists; eexists; (split; [reflexivity|]); vm_compute; discriminate.
Qed.

(* ---- UTF-16BE payload ---- *)
Lemma units_of_be_bytes us :
  Forall (fun u => u < 0x10000) us -> units_of_be (flat_map be_bytes us) = us.
Proof.
  induction 1 as [|u us Hu _ IH]; [reflexivity|].
  cbn [flat_map]. unfold be_bytes at 1. cbn [app units_of_be]. rewrite IH. f_equal.
  unfold be_unit. rewrite !N_of_byte_of_N by lia. lia.
Qed.

Theorem utf16_marked_rt :
  forall s fmt, ustring_wf s -> decode_text_string (OStr (encode_utf16_be s) fmt) = Ok s.
Proof.
  intros s fmt H. unfold decode_text_string, encode_utf16_be.
  rewrite mark16_eq, prefixb_app, skip16_eq, drop_app_length.
  rewrite units_of_be_bytes by (apply utf16_units_u16; exact H).
  rewrite utf16_rt by exact H. reflexivity.
Qed.

Theorem utf8_marked_rt :
  forall s fmt, ustring_wf s -> decode_text_string (OStr (encode_utf8 s) fmt) = Ok s.
Proof.
  intros s fmt H. unfold decode_text_string, encode_utf8.
  rewrite mark8_eq, mark8_not_16, prefixb_app, skip8_eq, drop_app_length.
  rewrite utf8_rt by exact H. reflexivity.
Qed.

(* ---- the PDFDocEncoding branch of text_string ---- *)
Lemma self_encoded_spec b :
  self_encoded b = true -> N_of_byte b < 128 /\ cell TEXT_STRING_ENCODING b = Some (N_of_byte b).
Proof.
  unfold self_encoded. rewrite andb_true_iff, N.ltb_lt. intros [H1 H2]. split; [exact H1|].
  rewrite <- self_table_eq. destruct (cell TEXT_STRING_SELF_TABLE b) as [v|]; cbn in H2; [|discriminate].
  apply N.eqb_eq in H2. congruence.
Qed.

Lemma no_mark bs m t :
  forallb self_encoded bs = true -> 128 <= N_of_byte m -> prefixb (m :: t) bs = false.
Proof.
  intros H Hm. destruct bs as [|b bs]; [reflexivity|]. cbn [prefixb].
  cbn [forallb] in H. apply andb_true_iff in H. destruct H as [Hb _].
  apply self_encoded_spec in Hb. destruct Hb as [Hb _].
  destruct (byte_eqb_spec m b) as [->|]; [lia|reflexivity].
Qed.

Lemma self_units bs :
  forallb self_encoded bs = true -> bytes_to_units TEXT_STRING_ENCODING bs = map N_of_byte bs.
Proof.
  induction bs as [|b bs IH]; [reflexivity|].
  cbn [forallb]. rewrite andb_true_iff. intros [Hb Hbs]. apply self_encoded_spec in Hb.
  unfold bytes_to_units. cbn [filter_map map]. rewrite (proj2 Hb). f_equal. apply IH. exact Hbs.
Qed.

(* all UTF-8 bytes below 128 <-> the string is ASCII, and then the bytes are the characters *)
Lemma utf8_all_ascii s :
  ustring_wf s -> forallb self_encoded (utf8_encode s) = true ->
  map N_of_byte (utf8_encode s) = s /\ Forall (fun c => c < 128) s.
Proof.
  induction s as [|c s IH]; intros Hwf H; [split; [reflexivity|constructor]|].
  inversion Hwf as [|? ? Hc Hs]; subst.
  change (utf8_encode (c :: s)) with (utf8_encode_char c ++ utf8_encode s) in *.
  rewrite forallb_app in H. apply andb_true_iff in H. destruct H as [H1 H2].
  destruct (IH Hs H2) as [IH1 IH2].
  destruct (N.lt_ge_cases c 128) as [Hlt|Hge].
  - rewrite utf8_encode_char_ascii in * by exact Hlt. cbn [app map].
    rewrite N_of_byte_of_N by lia. rewrite IH1. split; [reflexivity|constructor; assumption].
  - destruct (utf8_encode_char_head c Hc Hge) as [b [t [E Hb]]]. rewrite E in H1.
    cbn [forallb] in H1. apply andb_true_iff in H1. destruct H1 as [H1 _].
    apply self_encoded_spec in H1. lia.
Qed.

Lemma ascii_no_surrogate s : Forall (fun c => c < 128) s -> Forall (fun u => is_surrogate u = false) s.
Proof. apply Forall_impl. intros c Hc. apply not_surrogate. lia. Qed.

(* (2) the main theorem: every Unicode string survives text_string / decode_text_string *)
Theorem text_string_rt : forall s, ustring_wf s -> decode_text_string (text_string s) = Ok s.
Proof.
  intros s Hwf. unfold text_string.
  destruct (forallb self_encoded (utf8_encode s)) eqn:E.
  - unfold decode_text_string.
    destruct marks_high as [[m1 [t1 [E1 H1]]] [m2 [t2 [E2 H2]]]].
    rewrite E1, (no_mark _ _ _ E H1), E2, (no_mark _ _ _ E H2).
    unfold bytes_to_string. rewrite (self_units _ E).
    destruct (utf8_all_ascii s Hwf E) as [Hs Ha]. rewrite Hs.
    rewrite (utf16_decode_bmp _ (ascii_no_surrogate _ Ha)). reflexivity.
  - apply utf16_marked_rt. exact Hwf.
Qed.

(* the representation chosen: self-encoded ASCII stays a PDFDocEncoding literal whose bytes are the
   characters; everything else is the UTF-16BE mark followed by the UTF-16BE units *)
Theorem text_string_shape :
  forall s, ustring_wf s ->
    (text_string s = OStr (map byte_of_N s) false /\ Forall (fun c => c < 128) s) \/
    text_string s = OStr (DEC_MARK_UTF16 ++ flat_map be_bytes (utf16_encode s)) true.
Proof.
  intros s Hwf. unfold text_string.
  destruct (forallb self_encoded (utf8_encode s)) eqn:E.
  - left. destruct (utf8_all_ascii s Hwf E) as [Hs Ha]. split; [|exact Ha].
    f_equal. rewrite <- Hs at 2. rewrite map_map.
    rewrite <- (map_id (utf8_encode s)) at 1. apply map_ext. intro b. symmetry. apply byte_of_N_of_byte.
  - right. unfold encode_utf16_be. rewrite mark16_eq. reflexivity.
Qed.

(* printable ASCII (0x20-0x7E) is kept as a literal *)
Lemma printable_self_sweep :
  byte_forallb (fun b => if (0x20 <=? N_of_byte b) && (N_of_byte b <=? 0x7E) then self_encoded b else true) = true.
Proof. vm_compute. reflexivity. Qed.

Theorem text_string_printable_ascii :
  forall s, Forall (fun c => 0x20 <= c <= 0x7E) s -> text_string s = OStr (map byte_of_N s) false.
Proof.
  intros s H. unfold text_string.
  assert (E : utf8_encode s = map byte_of_N s).
  { induction H as [|c s Hc _ IH]; [reflexivity|].
    change (utf8_encode (c :: s)) with (utf8_encode_char c ++ utf8_encode s).
    rewrite utf8_encode_char_ascii by lia. rewrite IH. reflexivity. }
  rewrite E.
  replace (forallb self_encoded (map byte_of_N s)) with true; [reflexivity|].
  symmetry. apply forallb_forall. intros b Hb. apply in_map_iff in Hb. destruct Hb as [c [<- Hc]].
  rewrite Forall_forall in H. specialize (H c Hc).
  pose proof (byte_forallb_spec _ printable_self_sweep (byte_of_N c)) as Hs. cbv beta in Hs.
  rewrite N_of_byte_of_N in Hs by lia.
  replace ((0x20 <=? c) && (c <=? 0x7E)) with true in Hs; [exact Hs|].
  symmetry. apply andb_true_iff. rewrite !N.leb_le. lia.
Qed.

(* ---- the pinned tree: both round trips are refuted ---- *)
Definition witness_ctl : ustring := [97; 10; 98; 9; 99].          (* "a\nb\tc" *)
Definition witness_utf8 : ustring := [104; 233; 108; 108; 111].    (* "hello" with e-acute *)

Lemma witness_wf : ustring_wf witness_ctl /\ ustring_wf witness_utf8.
Proof. split; repeat constructor. Qed.

Theorem text_string_rt_pinned_refuted :
  exists s, ustring_wf s /\ decode_text_string_pinned (text_string_pinned s) = Ok [97; 98; 99] /\
            s <> [97; 98; 99].
Proof.
  exists witness_ctl. split; [apply witness_wf|]. split; [vm_compute; reflexivity|discriminate].
Qed.

Theorem utf8_marked_pinned_refuted :
  exists s, ustring_wf s /\ decode_text_string_pinned (OStr (encode_utf8 s) false) = Ok (0xFEFF :: s).
Proof.
  exists witness_utf8. split; [apply witness_wf|]. vm_compute. reflexivity.
Qed.

(* and the same witnesses now pass *)
Theorem witnesses_repaired :
  decode_text_string (text_string witness_ctl) = Ok witness_ctl /\
  decode_text_string (OStr (encode_utf8 witness_utf8) false) = Ok witness_utf8.
Proof. split; vm_compute; reflexivity. Qed.
