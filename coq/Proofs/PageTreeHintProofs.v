(* PageTreeHintProofs.v -- C12, size_hint of the page iterator:
   on ANY document the promised upper bound covers the pages still to come at every observable state and
   the lower bound never exceeds it; the recorded pages are page_iter; on a represented tree with exact
   Count entries the fresh iterator announces exactly the number of leaves. *)
From LV Require Import Base.Bytes Base.Sx Model.Obj Model.DocQ Model.PageTree Model.PageTreeHint
  Spec.Dfs Spec.DfsCounts Gen.Consts Proofs.PageTreeProofs.

Local Open Scope nat_scope.

Lemma iter_hints_fst m : forall limit kids st, map fst (iter_hints limit m kids st) = iter limit m kids st.
Proof.
  induction limit as [|l IH]; intros kids st; cbn [iter_hints iter]; [reflexivity|].
  destruct (pop_nonempty kids st) as [[[kid rest] st']|]; [|reflexivity].
  destruct kid; try apply IH.
  destruct (node_type m (id, gen)).
  - cbn [map fst]. f_equal. apply IH.
  - destruct (N.of_nat (length st') <? PAGE_TREE_DEPTH_LIMIT)%N; apply IH.
  - apply IH.
Qed.

Lemma iter_hints_length m limit kids st : length (iter_hints limit m kids st) <= limit.
Proof.
  rewrite <- (map_length fst), iter_hints_fst. exact (proj1 (iter_total m limit kids st)).
Qed.

Lemma hint_le m limit kids st : (fst (hint m limit kids st) <= snd (hint m limit kids st))%N.
Proof. unfold hint; cbn [fst snd]. apply N.le_min_r. Qed.

Lemma iter_hints_ok m : forall limit kids st, steps_ok (iter_hints limit m kids st).
Proof.
  induction limit as [|l IH]; intros kids st; cbn [iter_hints]; [exact I|].
  destruct (pop_nonempty kids st) as [[[kid rest] st']|]; [|exact I].
  destruct kid; try apply IH.
  destruct (node_type m (id, gen)).
  - cbn [steps_ok]. split; [|apply IH]. split; [apply hint_le|].
    unfold hint; cbn [snd]. pose proof (iter_hints_length m l rest st'). lia.
  - destruct (N.of_nat (length st') <? PAGE_TREE_DEPTH_LIMIT)%N; apply IH.
  - apply IH.
Qed.

(* on ANY document *)
Theorem page_hints_ok :
  forall d,
    (fst (fst (page_hints d)) <= snd (fst (page_hints d)))%N /\
    (N.of_nat (length (snd (page_hints d))) <= snd (fst (page_hints d)))%N /\
    steps_ok (snd (page_hints d)) /\
    map fst (snd (page_hints d)) = page_iter d.
Proof.
  intro d. unfold page_hints, page_iter.
  destruct (catalog d) as [cat|].
  2:{ cbn [fst snd length map steps_ok]. repeat split; try apply hint_le; unfold hint; cbn [snd]; lia. }
  destruct (dict_get cat K_Pages) as [o|].
  2:{ cbn [fst snd length map steps_ok]. repeat split; try apply hint_le; unfold hint; cbn [snd]; lia. }
  destruct o; try (cbn [fst snd length map steps_ok]; repeat split; try apply hint_le; unfold hint; cbn [snd]; lia).
  cbn [fst snd]. split; [apply hint_le|]. split.
  - unfold hint; cbn [snd]. pose proof (iter_hints_length (d_objects d) (length (d_objects d)) (kids_of (d_objects d) (id, gen)) []). lia.
  - split; [apply iter_hints_ok | apply iter_hints_fst].
Qed.

(* ---------- exact Count entries ---------- *)

Fixpoint sumN (l : list N) : N := match l with [] => 0%N | x :: l' => (x + sumN l')%N end.

Lemma fold_sat l : forall a, (a <= USIZE_MAX)%N -> fold_left sat_add l a = N.min (a + sumN l) USIZE_MAX.
Proof.
  induction l as [|x l IH]; intros a Ha; cbn [fold_left sumN].
  - lia.
  - rewrite IH by (unfold sat_add; lia). unfold sat_add. lia.
Qed.

Lemma K_Page_not_Pages : bytes_eqb K_Page K_Pages = false.
Proof. reflexivity. Qed.

Lemma kid_count_exact m t :
  represents m t -> counts_exact m t -> kid_count m (ref_of t) = N.of_nat (length (leaves t)).
Proof.
  intros Hr Hc. destruct t as [id|id ks].
  - inversion Hr as [id' d Hd Ht|]; subst.
    unfold ref_of, kid_count; cbn [root_id]. destruct id as [i g]; cbn [fst snd].
    rewrite Hd, Ht, K_Page_not_Pages. reflexivity.
  - inversion Hr as [|id' d ks' Hd Ht Hk Hf]; subst.
    inversion Hc as [|id' d' ks' Hd' Hcnt Hcs]; subst.
    rewrite Hd in Hd'. inversion Hd'; subst d'.
    unfold ref_of, kid_count; cbn [root_id]. destruct id as [i g]; cbn [fst snd].
    rewrite Hd, Ht, bytes_eqb_refl, Hcnt. lia.
Qed.

Lemma sum_counts m ks :
  Forall (represents m) ks -> Forall (counts_exact m) ks ->
  sumN (map (kid_count m) (map ref_of ks)) = N.of_nat (length (flat_map leaves ks)).
Proof.
  intros Hr Hc. induction ks as [|k ks IH]; [reflexivity|].
  inversion Hr; inversion Hc; subst. cbn [map sumN flat_map].
  rewrite app_length, (kid_count_exact m k), IH by assumption. lia.
Qed.

Lemma leaves_le_ids t : length (leaves t) <= length (ids t).
Proof.
  induction t as [id|id ks IH] using ptree_ind'; cbn [leaves ids length]; [lia|].
  induction IH as [|k ks Hk _ IHks]; cbn [flat_map]; [lia|]. rewrite !app_length. lia.
Qed.

(* the fresh iterator over a represented tree whose immediate sections carry the right Count announces
   exactly the number of leaves.  |objects| <= usize::MAX is what the type of objects.len() guarantees. *)
Theorem hint_exact_initial :
  forall d cat i g ks,
    catalog d = Some cat ->
    dict_get cat K_Pages = Some (ORef i g) ->
    tree_wf d (PNode (i, g) ks) ->
    Forall (counts_exact (d_objects d)) ks ->
    (N.of_nat (length (d_objects d)) <= USIZE_MAX)%N ->
    fst (fst (page_hints d)) = N.of_nat (length (leaves (PNode (i, g) ks))).
Proof.
  intros d cat i g ks Hcat Hp [Hrep Hnd] Hc Hmax.
  unfold page_hints. rewrite Hcat, Hp. cbn [fst]. unfold hint; cbn [fst].
  rewrite (kids_of_node _ _ _ Hrep). unfold pending. cbn [rev concat]. rewrite app_nil_r.
  rewrite fold_sat by (unfold USIZE_MAX; lia).
  rewrite (sum_counts _ ks (represents_kids _ _ _ Hrep) Hc).
  pose proof (size_le_objects _ _ Hrep Hnd) as Hs.
  pose proof (leaves_le_ids (PNode (i, g) ks)) as Hl.
  cbn [leaves] in *. lia.
Qed.

(* non-vacuity: the example tree of PageTreeProofs with Count entries added *)
Definition ex_doc_counts : doc :=
  let pg (p : N) := ODict [(K_Type, OName K_Page); (K_Parent, ORef p 0)] in
  {| d_version := bs "1.5"; d_binary_mark := []; d_max_id := 7;
     d_trailer := [(K_Root, ORef 1 0)];
     d_objects := [((1,0), ODict [(K_Type, OName (bs "Catalog")); (K_Pages, ORef 2 0)]);
                   ((2,0), ODict [(K_Type, OName K_Pages); (K_Kids, ORef 7 0); (K_Count, OInt 3)]);
                   ((3,0), pg 2);
                   ((4,0), ODict [(K_Type, OName K_Pages); (K_Kids, OArr [ORef 5 0]); (K_Count, OInt 1)]);
                   ((5,0), pg 4);
                   ((6,0), pg 2);
                   ((7,0), OArr [ORef 3 0; ORef 4 0; ORef 6 0])]%N |}.

Example ex_counts :
  exists cat, catalog ex_doc_counts = Some cat /\ dict_get cat K_Pages = Some (ORef 2 0) /\
              tree_wf ex_doc_counts ex_tree /\
              Forall (counts_exact (d_objects ex_doc_counts))
                     [PLeaf (3,0)%N; PNode (4,0)%N [PLeaf (5,0)%N]; PLeaf (6,0)%N] /\
              page_hints ex_doc_counts = ((3, 7), [((3,0), (2, 6)); ((5,0), (1, 4)); ((6,0), (0, 3))])%N.
Proof.
  eexists. split; [reflexivity|]. split; [reflexivity|]. split; [|split; [|vm_compute; reflexivity]].
  - split.
    + unfold ex_tree. eapply RNode; [reflexivity|reflexivity|reflexivity|].
      repeat constructor.
      * eapply RLeaf; reflexivity.
      * eapply RNode; [reflexivity|reflexivity|reflexivity|]. repeat constructor. eapply RLeaf; reflexivity.
      * eapply RLeaf; reflexivity.
    + cbn. repeat constructor; cbn; intuition discriminate.
  - repeat constructor. eapply CNode; [reflexivity|reflexivity|]. repeat constructor.
Qed.

(* ---------- exact Count entries everywhere: the count-down n-1 .. 0 after each yielded page ---------- *)

Lemma lowers_cons id h r : lowers ((id, h) :: r) = fst h :: lowers r.
Proof. reflexivity. Qed.

Lemma sumN_app a b : sumN (a ++ b) = (sumN a + sumN b)%N.
Proof. induction a as [|x a IH]; cbn [app sumN]; [reflexivity|]. rewrite IH. lia. Qed.

Definition fleaves (f : list ptree) : nat := length (flat_map leaves f).
Definition sleaves (st : list (list ptree)) : nat := length (flat_map (flat_map leaves) st).

Lemma fleaves_cons t f : fleaves (t :: f) = length (leaves t) + fleaves f.
Proof. unfold fleaves. cbn [flat_map]. apply app_length. Qed.
Lemma sleaves_cons s st : sleaves (s :: st) = fleaves s + sleaves st.
Proof. unfold sleaves, fleaves. cbn [flat_map]. apply app_length. Qed.

Lemma fleaves_le_fsize f : fleaves f <= fsize f.
Proof.
  unfold fleaves, fsize. induction f as [|t f IH]; cbn [flat_map]; [lia|].
  rewrite !app_length. pose proof (leaves_le_ids t). lia.
Qed.
Lemma sleaves_le_ssize st : sleaves st <= ssize st.
Proof.
  induction st as [|s st IH]; [reflexivity|]. rewrite sleaves_cons, ssize_cons.
  pose proof (fleaves_le_fsize s). lia.
Qed.

Section Count.
  Variable m : objmap.
  Let L := N.to_nat PAGE_TREE_DEPTH_LIMIT.

  Lemma sum_forest f :
    Forall (represents m) f -> Forall (counts_exact m) f ->
    sumN (map (kid_count m) (map ref_of f)) = N.of_nat (fleaves f).
  Proof. apply sum_counts. Qed.

  Lemma sum_stack st :
    Forall (Forall (represents m)) st -> Forall (Forall (counts_exact m)) st ->
    sumN (map (kid_count m) (concat (rev (map (map ref_of) st)))) = N.of_nat (sleaves st).
  Proof.
    intros Hr Hc. induction st as [|s st IH]; [reflexivity|].
    inversion Hr; inversion Hc; subst.
    cbn [map rev]. rewrite concat_app, map_app, sumN_app. cbn [concat]. rewrite app_nil_r.
    rewrite IH, sum_forest, sleaves_cons by assumption. lia.
  Qed.

  Lemma hint_forest l f st :
    Forall (represents m) f -> Forall (Forall (represents m)) st ->
    Forall (counts_exact m) f -> Forall (Forall (counts_exact m)) st ->
    fsize f + ssize st <= l -> (N.of_nat l <= USIZE_MAX)%N ->
    fst (hint m l (map ref_of f) (map (map ref_of) st)) = N.of_nat (fleaves f + sleaves st).
  Proof.
    intros Hf Hst Cf Cst Hsz Hmax. unfold hint, pending; cbn [fst].
    rewrite fold_sat by (unfold USIZE_MAX; lia).
    rewrite map_app, sumN_app, sum_forest, sum_stack by assumption.
    pose proof (fleaves_le_fsize f). pose proof (sleaves_le_ssize st). lia.
  Qed.

  Lemma iter_hints_pop limit s st : iter_hints limit m [] (s :: st) = iter_hints limit m s st.
  Proof. destruct limit; reflexivity. Qed.

  Lemma counts_kids id ks : counts_exact m (PNode id ks) -> Forall (counts_exact m) ks.
  Proof. intro H; inversion H; subst; assumption. Qed.

  Lemma fleaves_node id ks rest : fleaves (PNode id ks :: rest) = fleaves ks + fleaves rest.
  Proof. rewrite fleaves_cons. reflexivity. Qed.

  Lemma iter_hints_forest :
    forall limit F0 st,
      Forall (represents m) F0 ->
      Forall (Forall (represents m)) st ->
      Forall (counts_exact m) F0 ->
      Forall (Forall (counts_exact m)) st ->
      stack_ok L (F0 :: st) ->
      fsize F0 + ssize st <= limit ->
      (N.of_nat limit <= USIZE_MAX)%N ->
      lowers (iter_hints limit m (map ref_of F0) (map (map ref_of) st)) = countdown (fleaves F0 + sleaves st).
  Proof.
    induction limit as [|l IHl].
    - intros F0 st _ _ _ _ _ Hsz _.
      pose proof (fleaves_le_fsize F0). pose proof (sleaves_le_ssize st).
      replace (fleaves F0 + sleaves st) with 0 by lia. reflexivity.
    - intros F0 st; revert F0. induction st as [|s st IHst]; intros F0 HF Hst CF Cst Hok Hsz Hmax.
      + destruct F0 as [|t rest].
        * reflexivity.
        * cbn [map iter_hints pop_nonempty].
          inversion HF as [|t' rest' Ht Hrest]; subst.
          inversion CF as [|t' rest' Ct Crest]; subst.
          destruct Hok as [Hh _]. cbn [length] in Hh. rewrite fheight_cons in Hh.
          destruct t as [id|id ks].
          -- unfold ref_of at 1; cbn [root_id fst snd]. destruct id as [i g]; cbn [fst snd].
             rewrite (node_type_leaf _ _ Ht).
             change (@nil (list obj)) with (map (map ref_of) []).
             rewrite lowers_cons.
             rewrite hint_forest;
               [ | assumption | constructor | assumption | constructor
                 | rewrite ?fsize_leaf, ?ssize_nil in *; lia | lia ].
             rewrite IHl;
               [ | assumption | constructor | assumption | constructor
                 | cbn [stack_ok length height] in *; split; [lia|exact I]
                 | rewrite ?fsize_leaf, ?ssize_cons, ?ssize_nil in *; lia | lia ].
             rewrite (fleaves_cons (PLeaf (i, g))). cbn [leaves length]. reflexivity.
          -- unfold ref_of at 1; cbn [root_id fst snd]. destruct id as [i g]; cbn [fst snd].
             rewrite (node_type_node _ _ _ Ht).
             rewrite height_node in Hh.
             rewrite (depth_test [] 0) by (reflexivity || lia).
             rewrite (kids_of_node _ _ _ Ht).
             change (@nil (list obj)) with (map (map ref_of) []).
             rewrite push_rest_map.
             rewrite IHl.
             ++ rewrite fleaves_node. destruct rest as [|r rest];
                  [ change (fleaves []) with 0; f_equal; lia | rewrite (sleaves_cons (r :: rest) []); f_equal; lia ].
             ++ exact (represents_kids _ _ _ Ht).
             ++ destruct rest; [constructor|]. constructor; [assumption|constructor].
             ++ exact (counts_kids _ _ Ct).
             ++ destruct rest; [constructor|]. constructor; [assumption|constructor].
             ++ destruct rest as [|r rest]; cbn [stack_ok length].
                ** split; [lia|exact I].
                ** split; [lia|]. split; [|exact I]. cbn [length]. lia.
             ++ rewrite fsize_node in Hsz.
                destruct rest as [|r rest]; rewrite ?ssize_cons, ?ssize_nil, ?fsize_nil in *; lia.
             ++ lia.
      + inversion Hst as [|s' st' Hs Hst']; subst.
        inversion Cst as [|s' st' Cs Cst']; subst.
        destruct F0 as [|t rest].
        * cbn [map]. rewrite iter_hints_pop.
          rewrite IHst; try assumption.
          -- rewrite sleaves_cons. unfold fleaves at 3. cbn [flat_map length]. reflexivity.
          -- destruct Hok as [_ Hok]. exact Hok.
          -- rewrite ssize_cons, fsize_nil in Hsz. lia.
        * cbn [map iter_hints pop_nonempty].
          inversion HF as [|t' rest' Ht Hrest]; subst.
          inversion CF as [|t' rest' Ct Crest]; subst.
          destruct Hok as [Hh Hok]. rewrite fheight_cons in Hh.
          destruct t as [id|id ks].
          -- unfold ref_of at 1; cbn [root_id fst snd]. destruct id as [i g]; cbn [fst snd].
             rewrite (node_type_leaf _ _ Ht).
             change (map ref_of s :: map (map ref_of) st) with (map (map ref_of) (s :: st)).
             rewrite lowers_cons.
             rewrite hint_forest;
               [ | assumption | assumption | assumption | assumption
                 | rewrite ?fsize_leaf in *; lia | lia ].
             rewrite IHl;
               [ | assumption | assumption | assumption | assumption
                 | cbn [stack_ok length height] in *; split; [lia|exact Hok]
                 | rewrite ?fsize_leaf, ?ssize_cons, ?ssize_nil in *; lia | lia ].
             rewrite (fleaves_cons (PLeaf (i, g))). cbn [leaves length]. reflexivity.
          -- unfold ref_of at 1; cbn [root_id fst snd]. destruct id as [i g]; cbn [fst snd].
             rewrite (node_type_node _ _ _ Ht).
             rewrite height_node in Hh.
             change (map ref_of s :: map (map ref_of) st) with (map (map ref_of) (s :: st)).
             rewrite (depth_test _ (length (s :: st))) by (rewrite ?map_length; reflexivity || lia).
             rewrite (kids_of_node _ _ _ Ht).
             rewrite push_rest_map.
             rewrite IHl.
             ++ rewrite fleaves_node. destruct rest as [|r rest];
                  [ change (fleaves []) with 0; f_equal; lia | rewrite (sleaves_cons (r :: rest) (s :: st)); f_equal; lia ].
             ++ exact (represents_kids _ _ _ Ht).
             ++ destruct rest; [assumption|]. constructor; assumption.
             ++ exact (counts_kids _ _ Ct).
             ++ destruct rest; [assumption|]. constructor; assumption.
             ++ destruct rest as [|r rest]; cbn [stack_ok].
                ** split; [lia|exact Hok].
                ** split; [cbn [length] in *; lia|]. split; [lia|exact Hok].
             ++ rewrite fsize_node in Hsz.
                destruct rest as [|r rest]; rewrite ?ssize_cons, ?ssize_nil, ?fsize_nil in *; lia.
             ++ lia.
  Qed.
End Count.

(* the full statement: with every Count right, the fresh iterator announces n pages and after the k-th page n-k *)
Theorem hint_countdown :
  forall d cat i g ks,
    catalog d = Some cat ->
    dict_get cat K_Pages = Some (ORef i g) ->
    tree_wf d (PNode (i, g) ks) ->
    Forall (counts_exact (d_objects d)) ks ->
    (N.of_nat (height (PNode (i, g) ks)) <= PAGE_TREE_DEPTH_LIMIT + 1)%N ->
    (N.of_nat (length (d_objects d)) <= USIZE_MAX)%N ->
    fst (fst (page_hints d)) :: lowers (snd (page_hints d)) = countdown (S (length (leaves (PNode (i, g) ks)))).
Proof.
  intros d cat i g ks Hcat Hp Hwf Hc Hh Hmax.
  cbn [countdown]. f_equal; [exact (hint_exact_initial d cat i g ks Hcat Hp Hwf Hc Hmax)|].
  destruct Hwf as [Hrep Hnd].
  unfold page_hints. rewrite Hcat, Hp. cbn [snd].
  rewrite (kids_of_node _ _ _ Hrep).
  change (@nil (list obj)) with (map (map ref_of) []).
  rewrite iter_hints_forest; try assumption; try constructor.
  - unfold sleaves, fleaves. cbn [flat_map length leaves]. f_equal. lia.
  - exact (represents_kids _ _ _ Hrep).
  - cbn [length]. rewrite height_node in Hh. lia.
  - exact I.
  - pose proof (size_le_objects _ _ Hrep Hnd) as Hs. cbn [ids length] in Hs.
    unfold fsize, ssize. cbn [flat_map length]. lia.
Qed.
