(* PageTreeHintProofs.v -- C12, size_hint of the page iterator:
   on ANY document the promised upper bound covers the pages still to come at every observable state and
   the lower bound never exceeds it; the recorded pages are page_iter; on a represented tree with exact
   Count entries the fresh iterator announces exactly the number of leaves. *)
From LV Require Import Base.Bytes Base.Sx Model.Obj Model.DocQ Model.PageTree Model.PageTreeHint
  Spec.Dfs Spec.DfsCounts Gen.Consts Proofs.PageTreeProofs.

Local Open Scope nat_scope.

Lemma iter_hints_fst m : forall limit kids st, map fst (iter_hints limit m kids st) = iter limit m kids st.
Proof.
  induction limit as [|l IH]; intros kids st; cbn [iter_hints iter]; [reflexivity|].
  destruct (pop_nonempty kids st) as [[[kid rest] st']|]; [|reflexivity].
  destruct kid; try apply IH.
  destruct (node_type m (id, gen)).
  - cbn [map fst]. f_equal. apply IH.
  - destruct (N.of_nat (length st') <? PAGE_TREE_DEPTH_LIMIT)%N; apply IH.
  - apply IH.
Qed.

Lemma iter_hints_length m limit kids st : length (iter_hints limit m kids st) <= limit.
Proof.
  rewrite <- (map_length fst), iter_hints_fst. exact (proj1 (iter_total m limit kids st)).
Qed.

Lemma hint_le m limit kids st : (fst (hint m limit kids st) <= snd (hint m limit kids st))%N.
Proof. unfold hint; cbn [fst snd]. apply N.le_min_r. Qed.

Lemma iter_hints_ok m : forall limit kids st, steps_ok (iter_hints limit m kids st).
Proof.
  induction limit as [|l IH]; intros kids st; cbn [iter_hints]; [exact I|].
  destruct (pop_nonempty kids st) as [[[kid rest] st']|]; [|exact I].
  destruct kid; try apply IH.
  destruct (node_type m (id, gen)).
  - cbn [steps_ok]. split; [|apply IH]. split; [apply hint_le|].
    unfold hint; cbn [snd]. pose proof (iter_hints_length m l rest st'). lia.
  - destruct (N.of_nat (length st') <? PAGE_TREE_DEPTH_LIMIT)%N; apply IH.
  - apply IH.
Qed.

(* on ANY document *)
Theorem page_hints_ok :
  forall d,
    (fst (fst (page_hints d)) <= snd (fst (page_hints d)))%N /\
    (N.of_nat (length (snd (page_hints d))) <= snd (fst (page_hints d)))%N /\
    steps_ok (snd (page_hints d)) /\
    map fst (snd (page_hints d)) = page_iter d.
Proof.
  intro d. unfold page_hints, page_iter.
  destruct (catalog d) as [cat|].
  2:{ cbn [fst snd length map steps_ok]. repeat split; try apply hint_le; unfold hint; cbn [snd]; lia. }
  destruct (dict_get cat K_Pages) as [o|].
  2:{ cbn [fst snd length map steps_ok]. repeat split; try apply hint_le; unfold hint; cbn [snd]; lia. }
  destruct o; try (cbn [fst snd length map steps_ok]; repeat split; try apply hint_le; unfold hint; cbn [snd]; lia).
  cbn [fst snd]. split; [apply hint_le|]. split.
  - unfold hint; cbn [snd]. pose proof (iter_hints_length (d_objects d) (length (d_objects d)) (kids_of (d_objects d) (id, gen)) []). lia.
  - split; [apply iter_hints_ok | apply iter_hints_fst].
Qed.

(* ---------- exact Count entries ---------- *)

Fixpoint sumN (l : list N) : N := match l with [] => 0%N | x :: l' => (x + sumN l')%N end.

Lemma fold_sat l : forall a, (a <= USIZE_MAX)%N -> fold_left sat_add l a = N.min (a + sumN l) USIZE_MAX.
Proof.
  induction l as [|x l IH]; intros a Ha; cbn [fold_left sumN].
  - lia.
  - rewrite IH by (unfold sat_add; lia). unfold sat_add. lia.
Qed.

Lemma K_Page_not_Pages : bytes_eqb K_Page K_Pages = false.
Proof. reflexivity. Qed.

Lemma kid_count_exact m t :
  represents m t -> counts_exact m t -> kid_count m (ref_of t) = N.of_nat (length (leaves t)).
Proof.
  intros Hr Hc. destruct t as [id|id ks].
  - inversion Hr as [id' d Hd Ht|]; subst.
    unfold ref_of, kid_count; cbn [root_id]. destruct id as [i g]; cbn [fst snd].
    rewrite Hd, Ht, K_Page_not_Pages. reflexivity.
  - inversion Hr as [|id' d ks' Hd Ht Hk Hf]; subst.
    inversion Hc as [|id' d' ks' Hd' Hcnt Hcs]; subst.
    rewrite Hd in Hd'. inversion Hd'; subst d'.
    unfold ref_of, kid_count; cbn [root_id]. destruct id as [i g]; cbn [fst snd].
    rewrite Hd, Ht, bytes_eqb_refl, Hcnt. lia.
Qed.

Lemma sum_counts m ks :
  Forall (represents m) ks -> Forall (counts_exact m) ks ->
  sumN (map (kid_count m) (map ref_of ks)) = N.of_nat (length (flat_map leaves ks)).
Proof.
  intros Hr Hc. induction ks as [|k ks IH]; [reflexivity|].
  inversion Hr; inversion Hc; subst. cbn [map sumN flat_map].
  rewrite app_length, (kid_count_exact m k), IH by assumption. lia.
Qed.

Lemma leaves_le_ids t : length (leaves t) <= length (ids t).
Proof.
  induction t as [id|id ks IH] using ptree_ind'; cbn [leaves ids length]; [lia|].
  induction IH as [|k ks Hk _ IHks]; cbn [flat_map]; [lia|]. rewrite !app_length. lia.
Qed.

(* the fresh iterator over a represented tree whose immediate sections carry the right Count announces
   exactly the number of leaves.  |objects| <= usize::MAX is what the type of objects.len() guarantees. *)
Theorem hint_exact_initial :
  forall d cat i g ks,
    catalog d = Some cat ->
    dict_get cat K_Pages = Some (ORef i g) ->
    tree_wf d (PNode (i, g) ks) ->
    Forall (counts_exact (d_objects d)) ks ->
    (N.of_nat (length (d_objects d)) <= USIZE_MAX)%N ->
    fst (fst (page_hints d)) = N.of_nat (length (leaves (PNode (i, g) ks))).
Proof.
  intros d cat i g ks Hcat Hp [Hrep Hnd] Hc Hmax.
  unfold page_hints. rewrite Hcat, Hp. cbn [fst]. unfold hint; cbn [fst].
  rewrite (kids_of_node _ _ _ Hrep). unfold pending. cbn [rev concat]. rewrite app_nil_r.
  rewrite fold_sat by (unfold USIZE_MAX; lia).
  rewrite (sum_counts _ ks (represents_kids _ _ _ Hrep) Hc).
  pose proof (size_le_objects _ _ Hrep Hnd) as Hs.
  pose proof (leaves_le_ids (PNode (i, g) ks)) as Hl.
  cbn [leaves] in *. lia.
Qed.

(* non-vacuity: the example tree of PageTreeProofs with Count entries added *)
Definition ex_doc_counts : doc :=
  let pg (p : N) := ODict [(K_Type, OName K_Page); (K_Parent, ORef p 0)] in
  {| d_version := bs "1.5"; d_binary_mark := []; d_max_id := 7;
     d_trailer := [(K_Root, ORef 1 0)];
     d_objects := [((1,0), ODict [(K_Type, OName (bs "Catalog")); (K_Pages, ORef 2 0)]);
                   ((2,0), ODict [(K_Type, OName K_Pages); (K_Kids, ORef 7 0); (K_Count, OInt 3)]);
                   ((3,0), pg 2);
                   ((4,0), ODict [(K_Type, OName K_Pages); (K_Kids, OArr [ORef 5 0]); (K_Count, OInt 1)]);
                   ((5,0), pg 4);
                   ((6,0), pg 2);
                   ((7,0), OArr [ORef 3 0; ORef 4 0; ORef 6 0])]%N |}.

Example ex_counts :
  exists cat, catalog ex_doc_counts = Some cat /\ dict_get cat K_Pages = Some (ORef 2 0) /\
              tree_wf ex_doc_counts ex_tree /\
              Forall (counts_exact (d_objects ex_doc_counts))
                     [PLeaf (3,0)%N; PNode (4,0)%N [PLeaf (5,0)%N]; PLeaf (6,0)%N] /\
              page_hints ex_doc_counts = ((3, 7), [((3,0), (2, 6)); ((5,0), (1, 4)); ((6,0), (0, 3))])%N.
Proof.
  eexists. split; [reflexivity|]. split; [reflexivity|]. split; [|split; [|vm_compute; reflexivity]].
  - split.
    + unfold ex_tree. eapply RNode; [reflexivity|reflexivity|reflexivity|].
      repeat constructor.
      * eapply RLeaf; reflexivity.
      * eapply RNode; [reflexivity|reflexivity|reflexivity|]. repeat constructor. eapply RLeaf; reflexivity.
      * eapply RLeaf; reflexivity.
    + cbn. repeat constructor; cbn; intuition discriminate.
  - repeat constructor. eapply CNode; [reflexivity|reflexivity|]. repeat constructor.
Qed.
