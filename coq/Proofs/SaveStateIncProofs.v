(* SaveStateIncProofs.v -- what a failed IncrementalDocument::save_to leaves behind (C19, resave clause, incremental
   saves).  The model is [SaveState.save_inc_with]; the plain counterpart is Proofs/SaveStateProofs.v.  No axioms. *)
From LV Require Import Base.Bytes Model.Obj Model.Sink Model.SaveState Proofs.SinkProofs Proofs.SaveStateProofs.

Local Open Scope N_scope.

(* ---- the counter does not influence what run_cw returns or delivers ---- *)
Lemma run_cw_from0 wa calls s n :
  run_cw wa calls {| cw_inner := s; cw_count := n |} =
  let '(r, d, c) := run_cw wa calls {| cw_inner := s; cw_count := 0 |} in
  (r, d, {| cw_inner := cw_inner c; cw_count := cw_count c + n |}).
Proof.
  pose proof (run_cw_count_shift wa calls s 0 n) as H.
  destruct (run_cw wa calls {| cw_inner := s; cw_count := 0 |}) as [[r d] c]. exact H.
Qed.

(* ---- the state model rides on the sink model: result and delivered bytes of [save_inc_with] are those of the
        incremental pipeline [run_inc] (property C19_incremental_is_plain is about) over pre ++ post ---- *)
Lemma save_inc_with_rd wa mode ids pre post st s :
  let '(r, d, _) := save_inc_with wa mode ids pre post st s in
  (r, d) = rd (run_inc wa (is_prev st) (pre ++ post) s).
Proof.
  unfold save_inc_with, run_inc, rd. cbv zeta.
  destruct (cw_write_all_after wa _ (is_prev st)) as [[r0 d0] c0]. destruct r0; [|reflexivity].
  rewrite run_cw_app. destruct (run_cw wa pre c0) as [[r1 d1] c1]. destruct r1; [|reflexivity].
  destruct (run_cw wa post c1) as [[r2 d2] c2]. reflexivity.
Qed.

(* ---- observably, the incremental save with state is the plain one with the previous bytes as first call and without
        the raise of max_id ([top = None]); the previous bytes stay ---- *)
Lemma save_inc_is_save_with wa mode ids pre post st s :
  let '(r, d, st') := save_inc_with wa mode ids pre post st s in
  let '(r2, d2, n') := save_with wa mode ids None (is_prev st :: pre) post (is_new st) s in
  r = r2 /\ d = d2 /\ is_prev st' = is_prev st /\ is_new st' = n'.
Proof.
  unfold save_inc_with, save_with. cbv zeta. cbn [run_cw raise_max_id]. unfold cw_write_all_after, cw_write_all.
  cbn [cw_inner cw_count].
  destruct (wa s (is_prev st)) as [[r0 d0] s0]. destruct r0 as [|e0]; [|repeat split; reflexivity].
  rewrite (run_cw_from0 wa pre s0 (0 + N.of_nat (length (is_prev st) - header_offset (is_prev st)))).
  rewrite (run_cw_from0 wa pre s0 (0 + N.of_nat (length (is_prev st)))).
  destruct (run_cw wa pre {| cw_inner := s0; cw_count := 0 |}) as [[r1 d1] c1].
  destruct r1 as [|e1]; [|repeat split; reflexivity].
  rewrite (run_cw_from0 wa post (cw_inner c1) (cw_count c1 + (0 + N.of_nat (length (is_prev st) - header_offset (is_prev st))))).
  rewrite (run_cw_from0 wa post (cw_inner c1) (cw_count c1 + (0 + N.of_nat (length (is_prev st))))).
  destruct (run_cw wa post {| cw_inner := cw_inner c1; cw_count := 0 |}) as [[r2 d2] c2].
  repeat split; try reflexivity. apply app_assoc.
Qed.

Section ResidueInc.
  Variable wa : script -> bytes -> wres * bytes * script.
  Hypothesis wa_ok : wa_sound wa.

  (* T9-inc: after IncrementalDocument::save_to -- whatever the sink did --
       * the previous bytes are the same;
       * result and delivered bytes are those of the incremental pipeline [run_inc] (hence, by C19_incremental_is_plain,
         of the plain pipeline with the previous bytes as first call);
       * the IncrementalDocument is the ORIGINAL (then the result is an error and fewer than |prev| + |pre| bytes were
         delivered) or the original with new_document mutated exactly as by a successful save (then at least
         |prev| + |pre| bytes were delivered).
     There is no raise of max_id here ([raise_max_id None] is the identity): a save that fails before the mutation
     point leaves NOTHING behind. *)
  Theorem incremental_failed_save_residue mode ids pre post st s r d st' :
    save_inc_with wa mode ids pre post st s = (r, d, st') ->
    is_prev st' = is_prev st /\
    (r, d) = rd (run_inc wa (is_prev st) (pre ++ post) s) /\
    (((length d < length (is_prev st) + length (concat pre))%nat /\ st' = st /\ r <> WOk) \/
     ((length (is_prev st) + length (concat pre) <= length d)%nat /\
      st' = {| is_prev := is_prev st; is_new := mutate mode ids (is_new st) |})).
  Proof.
    intro H.
    pose proof (save_inc_with_rd wa mode ids pre post st s) as Hrd. rewrite H in Hrd.
    pose proof (save_inc_is_save_with wa mode ids pre post st s) as E. rewrite H in E.
    destruct (save_with wa mode ids None (is_prev st :: pre) post (is_new st) s) as [[r2 d2] n'] eqn:E2.
    destruct E as (-> & -> & Hp & Hn).
    split; [exact Hp|]. split; [exact Hrd|].
    destruct (failed_save_residue wa wa_ok _ _ _ _ _ _ _ _ _ _ E2) as [[Hl [Hs Hr]] | [Hl Hs]];
      cbn [raise_max_id concat] in Hl, Hs; rewrite app_length in Hl; [left | right].
    - split; [exact Hl|]. split; [|exact Hr]. destruct st' as [p' n'']. destruct st as [p n]. cbn in *. congruence.
    - split; [exact Hl|]. destruct st' as [p' n'']. cbn in *. congruence.
  Qed.

  (* a successful incremental save always mutates *)
  Corollary incremental_ok_save_mutates mode ids pre post st s d st' :
    save_inc_with wa mode ids pre post st s = (WOk, d, st') ->
    st' = {| is_prev := is_prev st; is_new := mutate mode ids (is_new st) |}.
  Proof.
    intro H. destruct (incremental_failed_save_residue _ _ _ _ _ _ _ _ _ H) as [_ [_ [[_ [_ Hr]] | [_ Hm]]]]; [congruence | exact Hm].
  Qed.
End ResidueInc.

(* the two states of new_document a (failed) incremental save can leave: no raise in between *)
Lemma raise_none st : raise_max_id None st = st.
Proof. reflexivity. Qed.

(* ---- re-save, table format ---- *)
(* The calls of IncrementalDocument::save_internal as the source's data flow dictates: the previous bytes; then what
   is written before the mutation point, which reads the previous bytes (separator newline), version, binary mark and
   objects of new_document (fixed here) and new_document.max_id (Xref::new(max_id + 1): number of table rows) but not
   the trailer; then what is written from the MUTATED new_document. *)
Section ResaveIncTable.
  Variable pre_of : bytes -> N -> list bytes.   (* separator, header, mark, objects, xref table *)
  Variable post_of : sstate -> list bytes.      (* "trailer\n", the trailer dictionary, startxref *)
  Definition inc_table_calls (st : istate) : list bytes :=
    is_prev st :: table_calls (pre_of (is_prev st)) post_of None (is_new st).

  (* st' = what a failed (or successful) incremental save leaves behind (incremental_failed_save_residue): the
     re-save issues exactly the calls -- hence the bytes -- of a pristine save *)
  Theorem inc_resave_table_same_calls st st' :
    st' = st \/ st' = {| is_prev := is_prev st; is_new := mutate_table (is_new st) |} ->
    inc_table_calls st' = inc_table_calls st.
  Proof.
    unfold inc_table_calls. intros [-> | ->]; [reflexivity|]. cbn [is_prev is_new]. f_equal.
    apply resave_table_same_calls. right. reflexivity.
  Qed.
End ResaveIncTable.

(* ---- re-save, stream format ---- *)
(* Each save that reaches write_cross_reference_stream consumes one object number of new_document, so the calls after
   the mutation point differ (`Xref::new(max_id + 1)` is not written before it in this format; the number of the
   cross-reference stream object, Size and Index are max_id-dependent).  Everything before -- the previous bytes, the
   separator, header, mark and every object, at the same offsets -- is identical. *)
Section ResaveIncStream.
  Variable pre : bytes -> list bytes.           (* separator, header, mark, objects *)
  Variable post_of : sstate -> list bytes.      (* the cross-reference stream object, startxref *)
  Variable ids : list N.
  Definition inc_stream_calls (st : istate) : list bytes :=
    is_prev st :: stream_calls (pre (is_prev st)) post_of ids (is_new st).

  Lemma inc_stream_body st :
    firstn (length (is_prev st) + length (concat (pre (is_prev st)))) (concat (inc_stream_calls st)) =
    is_prev st ++ concat (pre (is_prev st)).
  Proof.
    unfold inc_stream_calls, stream_calls. cbn [concat]. rewrite concat_app, app_assoc.
    rewrite <- app_length. rewrite firstn_app, Nat.sub_diag, firstn_all. cbn [firstn]. apply app_nil_r.
  Qed.

  Theorem inc_resave_stream_same_body st st' :
    is_prev st' = is_prev st ->
    let n := (length (is_prev st) + length (concat (pre (is_prev st))))%nat in
    firstn n (concat (inc_stream_calls st')) = firstn n (concat (inc_stream_calls st)).
  Proof.
    intros Hp n. subst n. rewrite (inc_stream_body st). rewrite <- Hp at 1 2. rewrite (inc_stream_body st'), Hp. reflexivity.
  Qed.
End ResaveIncStream.

(* n incremental saves that reached the cross-reference stream: max_id + n, previous bytes unchanged *)
Definition inc_mutate (mode : xmode) (ids : list N) (st : istate) : istate :=
  {| is_prev := is_prev st; is_new := mutate mode ids (is_new st) |}.

Theorem inc_stream_residue_after_n ids st n :
  is_prev (iter n (inc_mutate XStream ids) st) = is_prev st /\
  s_max_id (is_new (iter n (inc_mutate XStream ids) st)) = s_max_id (is_new st) + N.of_nat n.
Proof.
  induction n as [|n [IH1 IH2]]; cbn [iter]; [split; [reflexivity | lia]|].
  cbn [inc_mutate is_prev is_new mutate]. rewrite mutate_stream_max_id, IH2. split; [exact IH1 | lia].
Qed.

(* ---- non-vacuity ---- *)
(* previous bytes with junk before the header and without a final newline *)
Definition ex_iprev : bytes := Eval cbv in bs "junk%PDF-1.5 old %%EOF".
Definition ex_istate : istate := {| is_prev := ex_iprev; is_new := ex_state |}.
Definition ex_ipre : list bytes := [[x0a]; bs "%PDF-1.5"; bs "objects"].

Example ex_inc_residue :
  (* the sink fails inside the previous bytes: nothing else is written, the document is untouched *)
  save_inc_with qwrite_all XStream [1; 2; 4] ex_ipre [bs "xrefstream"] ex_istate [Accept 9; Fail EStorageFull]
  = (WErr EStorageFull, bs "junk%PDF-", ex_istate) /\
  (* the sink fails inside the objects: untouched *)
  save_inc_with qwrite_all XStream [1; 2; 4] ex_ipre [bs "xrefstream"] ex_istate [Accept 30; Fail EBrokenPipe]
  = (WErr EBrokenPipe, ex_iprev ++ [x0a] ++ bs "%PDF-1.", ex_istate) /\
  (* the sink fails inside the cross-reference stream object: exactly the mutation of a successful save *)
  save_inc_with write_all XStream [1; 2; 4] ex_ipre [bs "xrefstream"] ex_istate [Accept 100; Accept 1; Accept 8; Accept 7; Accept 3; Zero]
  = (WErr EWriteZero, ex_iprev ++ [x0a] ++ bs "%PDF-1.5objectsxre", inc_mutate XStream [1; 2; 4] ex_istate) /\
  (* table format, healthy sink *)
  save_inc_with write_all XTable [1; 2; 4] ex_ipre [bs "trailer"] ex_istate []
  = (WOk, ex_iprev ++ [x0a] ++ bs "%PDF-1.5objectstrailer", inc_mutate XTable [] ex_istate).
Proof. repeat split; vm_compute; reflexivity. Qed.
