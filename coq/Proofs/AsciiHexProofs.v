(* AsciiHexProofs.v -- Stream::decode_asciihex (Model/AsciiHex.v) is the inverse of every legal ASCIIHexDecode
   encoding (Spec/AsciiHexSpec.v): plain, styled (case per digit, white-space anywhere), odd final digit, anything
   after the EOD marker; and of the encoder the reference writer uses on structural streams (Spec/RefWriter.v). *)
From LV Require Import Base.Bytes Gen.Filters Model.A85 Model.AsciiHex Spec.AsciiHexSpec Proofs.LexProofs.
From LV Require Spec.RefWriter.
From Coq Require Import Lia.
Local Open Scope N_scope.

(* ---------- digits ---------- *)
Definition digit_ok (d : N) : bool :=
  match hex_digit (digit_char true d), hex_digit (digit_char false d),
        hex_digit (RefWriter.hexd true d), hex_digit (RefWriter.hexd false d) with
  | Some a, Some b, Some c, Some e => (a =? d) && (b =? d) && (c =? d) && (e =? d)
  | _, _, _, _ => false
  end.
Lemma digit_sweep : below_nat 16 digit_ok = true. Proof. vm_compute. reflexivity. Qed.

Lemma digit_char_val u d : d < 16 -> hex_digit (digit_char u d) = Some d /\ hex_digit (RefWriter.hexd u d) = Some d.
Proof.
  intro H. pose proof (below_nat_spec 16 _ digit_sweep d H) as K. unfold digit_ok in K.
  destruct (hex_digit (digit_char true d)) as [a|] eqn:Ea; [|discriminate].
  destruct (hex_digit (digit_char false d)) as [b|] eqn:Eb; [|discriminate].
  destruct (hex_digit (RefWriter.hexd true d)) as [c|] eqn:Ec; [|discriminate].
  destruct (hex_digit (RefWriter.hexd false d)) as [e|] eqn:Ee; [|discriminate].
  apply andb_true_iff in K as [K K4]. apply andb_true_iff in K as [K K3]. apply andb_true_iff in K as [K1 K2].
  apply N.eqb_eq in K1, K2, K3, K4. subst a b c e. destruct u; split; assumption.
Qed.

(* ---------- one step of the loop ---------- *)
Lemma loop_digit c d tl high : hex_digit c = Some d ->
  loop (c :: tl) high =
  match high with
  | Some h => emit [byte_of_N (h * 16 + d)] (loop tl None)
  | None => loop tl (Some d)
  end.
Proof. intro H. cbn [loop]. rewrite H. reflexivity. Qed.

Definition white_ok (b : byte) : bool :=
  negb (byte_in b white) ||
  (match hex_digit b with None => true | Some _ => false end && negb (byte_eqb b AHX_EOD) &&
   (is_ascii_ws b || byte_eqb b AHX_WS_EXTRA)).
Lemma white_sweep : byte_forallb white_ok = true. Proof. vm_compute. reflexivity. Qed.

Lemma loop_white c tl high : In c white -> loop (c :: tl) high = loop tl high.
Proof.
  intro H. pose proof (byte_forallb_spec _ white_sweep c) as K. unfold white_ok in K.
  apply (proj2 (byte_in_In c white)) in H. rewrite H in K. cbn [negb orb] in K.
  apply andb_true_iff in K as [K K3]. apply andb_true_iff in K as [K1 K2]. apply negb_true_iff in K2.
  cbn [loop]. destruct (hex_digit c); [discriminate|]. rewrite K2, K3. reflexivity.
Qed.

Lemma loop_whites : forall w tl high, all_white w -> loop (w ++ tl) high = loop tl high.
Proof.
  induction w as [|c w IH]; intros tl high H; [reflexivity|]. inversion H; subst.
  cbn [app]. rewrite loop_white by assumption. apply IH. assumption.
Qed.

Lemma loop_eod rest high : loop (EOD ++ rest) high = Ok (flush high).
Proof. reflexivity. Qed.

Lemma loop_pair c1 c2 b tl : hex_digit c1 = Some (N_of_byte b / 16) -> hex_digit c2 = Some (N_of_byte b mod 16) ->
  loop (c1 :: c2 :: tl) None = emit [b] (loop tl None).
Proof. intros H1 H2. rewrite (loop_digit _ _ _ _ H1), (loop_digit _ _ _ _ H2), byte_nibbles. reflexivity. Qed.

(* ---------- round trips ---------- *)
(* decode (encode bs ++ ">" ++ anything) = bs *)
Theorem ahx_roundtrip : forall (upper : bool) (data rest : bytes),
  decode (encode upper data ++ EOD ++ rest) = Ok data.
Proof.
  intros upper data rest. unfold decode. induction data as [|b data IH]; [reflexivity|].
  unfold encode in *. cbn [flat_map encode_byte app].
  rewrite (loop_pair _ _ b) by (apply digit_char_val; first [apply hi_lt | apply lo_lt]).
  rewrite IH. reflexivity.
Qed.

(* every legal spelling: case per digit, white-space before each digit and before the EOD marker *)
Theorem ahx_roundtrip_styled : forall (data : bytes) (st : list dstyle) (tail_ws rest : bytes),
  Forall dstyle_ok st -> all_white tail_ws ->
  decode (encode_styled data st ++ tail_ws ++ EOD ++ rest) = Ok data.
Proof.
  intros data st tail_ws rest Hst Ht. unfold decode. revert st Hst.
  induction data as [|b data IH]; intros st Hst.
  - destruct st; cbn [encode_styled encode flat_map app]; rewrite loop_whites by exact Ht; reflexivity.
  - destruct st as [|y st].
    + cbn [encode_styled]. rewrite app_assoc. 
      assert (G : forall d, loop (encode true d ++ tail_ws ++ EOD ++ rest) None = Ok d).
      { induction d as [|b' d IHd]; [cbn [encode flat_map app]; rewrite loop_whites by exact Ht; reflexivity|].
        unfold encode in *. cbn [flat_map encode_byte app].
        rewrite (loop_pair _ _ b') by (apply digit_char_val; first [apply hi_lt | apply lo_lt]). rewrite IHd. reflexivity. }
      rewrite <- app_assoc. apply G.
    + inversion Hst as [|y' st' [Hy1 Hy2] Hst']; subst.
      cbn [encode_styled]. rewrite <- !app_assoc. rewrite loop_whites by exact Hy1. cbn [app].
      rewrite (loop_digit _ (N_of_byte b / 16)) by (apply digit_char_val; apply hi_lt).
      rewrite <- !app_assoc. rewrite loop_whites by exact Hy2. cbn [app].
      rewrite (loop_digit _ (N_of_byte b mod 16)) by (apply digit_char_val; apply lo_lt).
      rewrite byte_nibbles. rewrite (IH st Hst'). reflexivity.
Qed.

(* an odd number of digits: the missing one is 0 *)
Theorem ahx_odd_final_digit : forall (upper u : bool) (data : bytes) (d : N) (tail_ws rest : bytes),
  d < 16 -> all_white tail_ws ->
  decode (encode upper data ++ digit_char u d :: tail_ws ++ EOD ++ rest) = Ok (data ++ [byte_of_N (d * 16)]).
Proof.
  intros upper u data d tail_ws rest Hd Ht. unfold decode. induction data as [|b data IH].
  - cbn [encode flat_map app]. rewrite (loop_digit _ d) by (apply digit_char_val; exact Hd).
    rewrite loop_whites by exact Ht. reflexivity.
  - unfold encode in *. cbn [flat_map encode_byte app].
    rewrite (loop_pair _ _ b) by (apply digit_char_val; first [apply hi_lt | apply lo_lt]).
    rewrite IH. reflexivity.
Qed.

(* a character that is neither a digit, white-space nor the EOD marker is an error (7.4.2: "any other characters
   shall cause an error") *)
Theorem ahx_illegal_character : forall (upper : bool) (data : bytes) (c : byte) (rest : bytes),
  hex_digit c = None -> c <> x3e -> ~ In c white ->
  decode (encode upper data ++ c :: rest) = Err EIoData.
Proof.
  intros upper data c rest Hc He Hw. unfold decode. induction data as [|b data IH].
  - cbn [encode flat_map app loop]. rewrite Hc.
    assert (E1 : byte_eqb c AHX_EOD = false).
    { destruct (byte_eqb c AHX_EOD) eqn:E; [|reflexivity]. apply byte_eqb_eq in E. contradiction. }
    rewrite E1.
    assert (E2 : is_ascii_ws c || byte_eqb c AHX_WS_EXTRA = false).
    { destruct (is_ascii_ws c || byte_eqb c AHX_WS_EXTRA) eqn:E; [|reflexivity]. exfalso. apply Hw.
      apply orb_true_iff in E as [E|E].
      - unfold is_ascii_ws in E. apply byte_in_In in E. cbn [In] in E. cbn [white In]. intuition.
      - apply byte_eqb_eq in E. subst c. cbn [white In]. auto. }
    rewrite E2. reflexivity.
  - unfold encode in *. cbn [flat_map encode_byte app].
    rewrite (loop_pair _ _ b) by (apply digit_char_val; first [apply hi_lt | apply lo_lt]).
    rewrite IH. reflexivity.
Qed.

(* ---------- the reference writer's encoder (Spec/RefWriter.v ahx_encode: optional white-space before a byte) ---------- *)
Lemma ws_byte_white k : In (RefWriter.ws_byte k) white.
Proof.
  unfold RefWriter.ws_byte. assert (H : k mod 6 < 6) by (apply N.mod_lt; discriminate).
  destruct (k mod 6) as [|p]; [cbn; auto 10|].
  do 3 (destruct p as [p|p|]; try (cbn; auto 10); try (exfalso; lia)).
Qed.

Theorem ahx_refwriter_roundtrip : forall (data : bytes) (upper : bool) (ws all : list N) (rest : bytes),
  decode (RefWriter.ahx_encode upper ws all data ++ rest) = Ok data.
Proof.
  unfold decode. induction data as [|b data IH]; intros upper ws all rest; [reflexivity|].
  cbn [RefWriter.ahx_encode]. rewrite <- app_assoc.
  assert (S : forall tl, loop ((match ws with
                                | k :: _ => if k mod 7 =? 0 then [RefWriter.ws_byte (k / 7)] else []
                                | [] => [] end) ++ tl) None = loop tl None).
  { intro tl. destruct ws as [|k ws']; [reflexivity|]. destruct (k mod 7 =? 0); [|reflexivity].
    cbn [app]. apply loop_white. apply ws_byte_white. }
  rewrite S. cbn [app].
  rewrite (loop_pair _ _ b) by (apply digit_char_val; first [apply hi_lt | apply lo_lt]).
  rewrite IH. reflexivity.
Qed.
