(* SafeParserFuel.v -- C04, fuel sufficiency of the nom grammar model (Model/Parser.v):
   every loop iteration and every recursive call of the grammar consumes at least one input byte, so the fuel every
   entry point uses, [fuel_for s] = |s| + 2 (a LINEAR polynomial of the input length), is never exhausted:
   no byte string drives direct_object / dictionary / operand / Content::decode into [POut].
   With SafeContentProofs (no [PPanic]) this gives: on every byte string the grammar model ends in a value or an error. *)
From LV Require Import Base.Bytes Base.Sx Model.Obj Model.Writer Model.Parser Gen.Lex.
From Coq Require Import Lia.
Ltac llia := cbn [length fst snd] in *; lia.
Ltac noptag := match goal with H : ptag _ _ = POut |- _ => exfalso; revert H; unfold ptag; destruct (prefixb _ _); discriminate end.

(* [fine s r]: the result is not out-of-fuel, and a success has consumed at least one byte of [s] *)
Definition nout {A} (r : pres A) : Prop := r <> POut.
Definition adv {A} (s : bytes) (r : pres A) : Prop := forall a rest, r = POk a rest -> (length rest < length s)%nat.
Definition adv0 {A} (s : bytes) (r : pres A) : Prop := forall a rest, r = POk a rest -> (length rest <= length s)%nat.

(* ---------------- lengths of the scanners ---------------- *)
Lemma prefixb_length p : forall s, prefixb p s = true -> (length p <= length s)%nat.
Proof.
  induction p as [|x p IH]; intros s H; [cbn; lia|].
  destruct s as [|y s]; cbn [prefixb] in H; [discriminate|].
  apply andb_prop in H. destruct H as [_ H]. apply IH in H. cbn [length]. llia.
Qed.

Lemma drop_len {A} : forall n (l : list A), length (drop n l) = (length l - n)%nat.
Proof. intros n l. rewrite drop_skipn. apply skipn_length. Qed.

Lemma take_while_len p : forall s, (length (snd (take_while p s)) <= length s)%nat.
Proof.
  induction s as [|c t IH]; cbn [take_while]; [cbn; lia|].
  destruct (p c); [|cbn; lia]. destruct (take_while p t) as [a r]. cbn [snd length] in *. llia.
Qed.
Lemma take_while_split p : forall s, (length (fst (take_while p s)) + length (snd (take_while p s)) = length s)%nat.
Proof.
  induction s as [|c t IH]; cbn [take_while]; [reflexivity|].
  destruct (p c); [|cbn; lia]. destruct (take_while p t) as [a r]. cbn [fst snd length] in *. llia.
Qed.
Lemma skip_while_len p : forall s, (length (skip_while p s) <= length s)%nat.
Proof. induction s as [|c t IH]; cbn [skip_while]; [lia|]. destruct (p c); cbn [length]; llia. Qed.

Lemma space_aux_len : forall (s : bytes) (cstart : option bytes),
  (match cstart with Some s0 => length s <= length s0 | None => True end)%nat ->
  (length (space_aux s cstart) <= match cstart with Some s0 => length s0 | None => length s end)%nat.
Proof.
  induction s as [|c t IH]; intros cstart H; cbn [space_aux].
  - destruct cstart; cbn; lia.
  - destruct cstart as [s0|]; cbn beta iota in *.
    + cbn [length] in H. destruct (is_comment_end c).
      * pose proof (IH None I) as IH'. cbn beta iota in IH'. llia.
      * pose proof (IH (Some s0)) as IH'. cbn beta iota in IH'. apply IH'. llia.
    + destruct (is_whitespace c).
      * pose proof (IH None I) as IH'. cbn beta iota in IH'. cbn [length]. llia.
      * destruct (byte_eqb c x25).
        -- pose proof (IH (Some (c :: t))) as IH'. cbn beta iota in IH'. cbn [length] in IH' |- *. apply IH'. llia.
        -- llia.
Qed.
Lemma space_len s : (length (space s) <= length s)%nat.
Proof. unfold space. apply (space_aux_len s None I). Qed.

Lemma content_space_len s : (length (content_space s) <= length s)%nat.
Proof. apply skip_while_len. Qed.

Lemma many0_comment_aux_len : forall (s : bytes) (cstart : option bytes),
  (match cstart with Some s0 => length s <= length s0 | None => True end)%nat ->
  (length (many0_comment_aux s cstart) <= match cstart with Some s0 => length s0 | None => length s end)%nat.
Proof.
  induction s as [|c t IH]; intros cstart H; cbn [many0_comment_aux].
  - destruct cstart; cbn; lia.
  - pose proof (IH None I) as IHn. pose proof (fun s0 => IH (Some s0)) as IHs. cbn beta iota in IHn, IHs. clear IH.
    destruct cstart as [s0|]; cbn beta iota in *.
    + cbn [length] in H. destruct (byte_eqb c x0a).
      * llia.
      * destruct (byte_eqb c x0d).
        -- destruct t as [|c1 t'].
           ++ llia.
           ++ destruct (byte_eqb c1 x0a).
              ** apply IHs. llia.
              ** llia.
        -- apply IHs. llia.
    + destruct (byte_eqb c x25).
      * cbn [length]. specialize (IHs (c :: t)). cbn [length] in IHs. apply IHs. llia.
      * llia.
Qed.
Lemma many0_comment_len s : (length (many0_comment s) <= length s)%nat.
Proof. unfold many0_comment. apply (many0_comment_aux_len s None I). Qed.

Lemma name_body_len : forall n s, (length s <= n)%nat -> (length (snd (name_body s)) <= length s)%nat.
Proof.
  induction n as [|n IH]; intros s Hn.
  - destruct s; [cbn; lia|cbn in Hn; lia].
  - destruct s as [|c t]; [cbn; lia|]. cbn [name_body].
    destruct (byte_eqb c x23).
    + destruct t as [|a [|b t2]]; try (cbn; lia).
      destruct (hex_val a), (hex_val b); try (cbn; lia).
      assert (H2 : (length t2 <= n)%nat) by (cbn [length] in Hn; lia).
      specialize (IH t2 H2). destruct (name_body t2) as [nm r]. cbn [snd length] in *. llia.
    + destruct (is_regular c); [|cbn; lia].
      assert (H2 : (length t <= n)%nat) by (cbn [length] in Hn; lia).
      specialize (IH t H2). destruct (name_body t) as [nm r]. cbn [snd length] in *. llia.
Qed.

Lemma hex_body_len : forall s pending, (length (snd (hex_body s pending)) <= length s)%nat.
Proof.
  induction s as [|c t IH]; intros pending; cbn [hex_body]; [cbn; lia|].
  destruct (is_whitespace c); [specialize (IH pending); cbn [length]; lia|].
  destruct (hex_val c); [|cbn; lia].
  destruct pending.
  - specialize (IH None). destruct (hex_body t None) as [o r]. cbn [snd length] in *. llia.
  - specialize (IH (Some n)). cbn [length]. llia.
Qed.

(* ---------------- the leaves consume input ---------------- *)
Lemma adv_ptag {t s} : (0 < length t)%nat -> adv s (ptag t s).
Proof.
  intros Ht a rest. unfold ptag. destruct (prefixb t s) eqn:E; [|discriminate].
  intro H. injection H as _ <-. apply prefixb_length in E. rewrite drop_len. llia.
Qed.
Lemma adv0_ptag t s : adv0 s (ptag t s).
Proof.
  intros a rest. unfold ptag. destruct (prefixb t s) eqn:E; [|discriminate].
  intro H. injection H as _ <-. rewrite drop_len. llia.
Qed.
Lemma adv_pkeyword t s : (0 < length t)%nat -> adv s (pkeyword t s).
Proof.
  intros Ht a rest. unfold pkeyword. destruct (ptag t s) as [u r| | | |] eqn:E; try discriminate.
  destruct (token_end r); [|discriminate]. intro H. injection H as _ <-. exact (adv_ptag Ht _ _ E).
Qed.
Lemma adv_pmap {A B} (f : A -> B) s r : adv s r -> adv s (pmap f r).
Proof. intros H b rest. unfold pmap. destruct r; try discriminate. intro E. injection E as _ <-. eapply H. reflexivity. Qed.
Lemma adv_palt {A} s (p : pres A) q : adv s p -> adv s (q tt) -> adv s (palt p q).
Proof. intros Hp Hq. unfold palt. destruct p; try exact Hp; try (intros a r; discriminate). exact Hq. Qed.
Lemma adv_err {A} s : adv s (@PErr A). Proof. intros a r; discriminate. Qed.

Lemma adv_null s : adv s (null s).
Proof. unfold null. apply adv_pmap, adv_pkeyword. cbn; lia. Qed.
Lemma adv_boolean s : adv s (boolean s).
Proof. unfold boolean. apply adv_palt; apply adv_pmap, adv_pkeyword; cbn; lia. Qed.

Lemma adv_unsigned_int m s : adv s (unsigned_int m s).
Proof.
  intros a rest. unfold unsigned_int.
  pose proof (take_while_split is_dec_digit s) as Hs. destruct (take_while is_dec_digit s) as [ds r].
  destruct ds as [|d ds]; [discriminate|]. destruct (_ <=? m)%N; [|discriminate].
  intro H. injection H as _ <-. cbn [fst snd length] in Hs. llia.
Qed.
Lemma adv_object_id s : adv s (object_id s).
Proof.
  intros a rest. unfold object_id.
  destruct (unsigned_int u32_max s) as [i r| | | |] eqn:E1; try discriminate. cbn [pbind].
  destruct (unsigned_int u16_max (space r)) as [g r'| | | |] eqn:E2; try discriminate. cbn [pbind].
  intro H. injection H as _ <-.
  pose proof (adv_unsigned_int _ _ _ _ E1). pose proof (adv_unsigned_int _ _ _ _ E2).
  pose proof (space_len r). pose proof (space_len r'). llia.
Qed.
Lemma adv_reference s : adv s (reference s).
Proof.
  intros a rest. unfold reference.
  destruct (object_id s) as [id r| | | |] eqn:E1; try discriminate. cbn [pbind].
  destruct (ptag [x52] r) as [u r'| | | |] eqn:E2; try discriminate. cbn [pbind].
  intro H. injection H as _ <-.
  pose proof (adv_object_id _ _ _ E1). pose proof (adv0_ptag _ _ _ _ E2). llia.
Qed.

Lemma opt_sign_len s : (length (snd (opt_sign s)) <= length s)%nat.
Proof. unfold opt_sign. destruct s as [|c t]; [cbn; lia|]. destruct c; cbn [snd length]; llia. Qed.

Lemma adv_integer s : adv s (integer s).
Proof.
  intros a rest. unfold integer. pose proof (opt_sign_len s) as Ho. destruct (opt_sign s) as [sg t].
  pose proof (take_while_split is_dec_digit t) as Hs. destruct (take_while is_dec_digit t) as [ds r].
  destruct ds as [|d ds]; [discriminate|]. destruct (_ && _)%bool; [|discriminate].
  intro H. injection H as _ <-. cbn [fst snd length] in *. llia.
Qed.
Lemma adv_real s : adv s (real s).
Proof.
  intros a rest. unfold real. pose proof (opt_sign_len s) as Ho. destruct (opt_sign s) as [sg t].
  pose proof (take_while_split is_dec_digit t) as Hs. destruct (take_while is_dec_digit t) as [ds r].
  cbn [fst snd] in *.
  destruct ds as [|d ds], r as [|c r']; try discriminate; destruct (byte_eqb c x2e); try discriminate;
    pose proof (take_while_len is_dec_digit r') as Hf; destruct (take_while is_dec_digit r') as [fs r''];
    cbn [snd length] in *.
  - destruct fs; [discriminate|]. intro H. injection H as _ <-. llia.
  - intro H. injection H as _ <-. llia.
Qed.
Lemma adv_name s : adv s (name s).
Proof.
  intros a rest. unfold name. destruct s as [|c t]; [discriminate|]. destruct (byte_eqb c x2f); [|discriminate].
  pose proof (name_body_len (length t) t (le_n _)) as Hn. destruct (name_body t) as [n r].
  intro H. injection H as _ <-. cbn [snd length] in *. llia.
Qed.
Lemma adv_hex s : adv s (hexadecimal_string s).
Proof.
  intros a rest. unfold hexadecimal_string. destruct s as [|c t]; [discriminate|]. destruct (byte_eqb c x3c); [|discriminate].
  pose proof (hex_body_len t None) as Hh. destruct (hex_body t None) as [o r].
  destruct r as [|c2 r']; [discriminate|]. destruct (byte_eqb c2 x3e); [|discriminate].
  intro H. injection H as _ <-. cbn [snd length] in *. llia.
Qed.

(* ---------------- literal strings ---------------- *)
Lemma oct_char_len s b r : oct_char s = Some (b, r) -> (length r < length s)%nat.
Proof.
  unfold oct_char. destruct s as [|a t]; [discriminate|]. destruct (is_oct_digit a); [|discriminate].
  destruct t as [|b' t']; [intro H; injection H as _ <-; cbn; lia|].
  destruct (is_oct_digit b'); [|intro H; injection H as _ <-; cbn; lia].
  destruct t' as [|c t'']; [intro H; injection H as _ <-; cbn; lia|].
  destruct (is_oct_digit c); intro H; injection H as _ <-; cbn; lia.
Qed.
Lemma eol_len s r : eol s = POk tt r -> (length r < length s)%nat.
Proof.
  unfold eol. destruct s as [|c t]; [discriminate|].
  destruct c; try discriminate; try (intro H; injection H as <-; cbn; lia).
  destruct t as [|c1 t']; [intro H; injection H as <-; cbn; lia|].
  destruct c1; intro H; injection H as <-; cbn; lia.
Qed.
Lemma escape_len s e r : escape_after_backslash s = Some (e, r) -> (length r < length s)%nat.
Proof.
  unfold escape_after_backslash. destruct (oct_char s) as [[b r0]|] eqn:Eo.
  - intro H. injection H as _ <-. eapply oct_char_len; eassumption.
  - destruct (eol s) as [[] r0| | | |] eqn:Ee.
    + intro H. injection H as _ <-. apply eol_len; assumption.
    + destruct s as [|c t]; [discriminate|]. destruct (assoc_byte _ c); intro H; injection H as _ <-; cbn; lia.
    + destruct s as [|c t]; [discriminate|]. destruct (assoc_byte _ c); intro H; injection H as _ <-; cbn; lia.
    + destruct s as [|c t]; [discriminate|]. destruct (assoc_byte _ c); intro H; injection H as _ <-; cbn; lia.
    + destruct s as [|c t]; [discriminate|]. destruct (assoc_byte _ c); intro H; injection H as _ <-; cbn; lia.
Qed.

(* with more fuel than input bytes the fold over a literal string always comes back, on a suffix of its input *)
Lemma inner_literal_fuel : forall fuel depth s, (length s < fuel)%nat ->
  exists out r, inner_literal fuel depth s = Some (out, r) /\ (length r <= length s)%nat.
Proof.
  induction fuel as [|f IH]; intros depth s Hlt; [lia|].
  cbn [inner_literal]. destruct s as [|c t]; [exists [], []; split; [reflexivity|cbn; lia]|].
  cbn [length] in Hlt.
  assert (Ht : forall d, exists out r, inner_literal f d t = Some (out, r) /\ (length r <= length t)%nat)
    by (intro d; apply IH; lia).
  destruct (is_direct_literal c).
  { destruct (Ht depth) as [out [r [E Hr]]]. rewrite E. eexists _, _. split; [reflexivity|cbn [length]; lia]. }
  destruct (byte_eqb c x5c).
  { destruct (escape_after_backslash t) as [[e r0]|] eqn:Ee; [|eexists _, _; split; [reflexivity|lia]].
    apply escape_len in Ee.
    destruct (IH depth r0 ltac:(llia)) as [out [r [E Hr]]]. rewrite E. eexists _, _. split; [reflexivity|cbn [length]; lia]. }
  destruct (byte_eqb c x0d).
  { destruct t as [|c1 t'].
    - destruct (Ht depth) as [out [r [E Hr]]]. rewrite E. eexists _, _. split; [reflexivity|cbn [length] in *; lia].
    - destruct (byte_eqb c1 x0a).
      + cbn [length] in Hlt. destruct (IH depth t' ltac:(llia)) as [out [r [E Hr]]]. rewrite E.
        eexists _, _. split; [reflexivity|cbn [length]; lia].
      + destruct (Ht depth) as [out [r [E Hr]]]. rewrite E. eexists _, _. split; [reflexivity|cbn [length] in *; lia]. }
  destruct (byte_eqb c x0a).
  { destruct (Ht depth) as [out [r [E Hr]]]. rewrite E. eexists _, _. split; [reflexivity|cbn [length]; lia]. }
  destruct (byte_eqb c x28); [|eexists _, _; split; [reflexivity|lia]].
  destruct depth as [|d]; [eexists _, _; split; [reflexivity|lia]|].
  destruct (Ht d) as [nested [r1 [E1 Hr1]]]. rewrite E1.
  destruct r1 as [|c2 r]; [eexists _, _; split; [reflexivity|lia]|].
  destruct (byte_eqb c2 x29); [|eexists _, _; split; [reflexivity|lia]].
  cbn [length] in Hr1.
  destruct (IH (S d) r ltac:(llia)) as [out [r' [E Hr]]]. rewrite E. eexists _, _. split; [reflexivity|cbn [length]; lia].
Qed.

Lemma literal_string_fine n s : (length s <= n)%nat -> nout (literal_string n s) /\ adv s (literal_string n s).
Proof.
  intro Hn. unfold literal_string, nout, adv. destruct s as [|c t]; [split; [discriminate|intros; discriminate]|].
  destruct (byte_eqb c x28); [|split; [discriminate|intros; discriminate]].
  cbn [length] in Hn.
  destruct (inner_literal_fuel n (N.to_nat MAX_BRACKET) t ltac:(llia)) as [out [r [E Hr]]]. rewrite E.
  destruct r as [|c2 r']; [split; [discriminate|intros; discriminate]|].
  destruct (byte_eqb c2 x29); split; try discriminate; try (intros; discriminate).
  intros a rest H. injection H as _ <-. cbn [length] in *. llia.
Qed.

(* ---------------- containers, parametric in the element parser ---------------- *)
Section Elem.
  Variable elem : bytes -> pres obj.
  Variable bound : nat.
  (* the element parser is fine on every input shorter than [bound] *)
  Hypothesis Helem : forall s, (length s < bound)%nat -> nout (elem s) /\ adv s (elem s).

  Lemma many0_direct_fine : forall n s, (length s < n)%nat -> (length s < bound)%nat ->
    nout (many0_direct elem n s) /\ adv0 s (many0_direct elem n s).
  Proof.
    induction n as [|n IH]; intros s Hn Hb; [lia|]. cbn [many0_direct].
    destruct (Helem s Hb) as [Ho Ha]. unfold nout in *.
    destruct (elem s) as [o r| | | |] eqn:E; try (split; [discriminate|intros a rest; discriminate]); try (exfalso; congruence).
    - pose proof (Ha _ _ eq_refl) as Hr. pose proof (space_len r) as Hs.
      destruct (IH (space r) ltac:(llia) ltac:(llia)) as [Ho' Ha'].
      destruct (many0_direct elem n (space r)) as [l r'| | | |] eqn:E'; cbn [pmap];
        try (split; [discriminate|intros a rest; discriminate]); try (exfalso; congruence).
      split; [discriminate|]. intros a rest H. injection H as _ <-. pose proof (Ha' _ _ eq_refl). llia.
    - split; [discriminate|]. intros a rest H. injection H as _ <-. llia.
  Qed.

  Lemma inner_dictionary_fine : forall n s acc, (length s < n)%nat -> (length s < bound)%nat ->
    nout (inner_dictionary elem n s acc) /\ adv0 s (inner_dictionary elem n s acc).
  Proof.
    induction n as [|n IH]; intros s acc Hn Hb; [lia|]. cbn [inner_dictionary].
    destruct (name s) as [k r| | | |] eqn:En;
      try (split; [discriminate|intros a rest H; injection H as _ <-; lia]).
    pose proof (adv_name _ _ _ En) as Hr. pose proof (space_len r) as Hs.
    destruct (Helem (space r) ltac:(llia)) as [Ho Ha]. unfold nout in *.
    destruct (elem (space r)) as [v r'| | | |] eqn:E; try (split; [discriminate|intros a rest; discriminate]); try (exfalso; congruence).
    - pose proof (Ha _ _ eq_refl) as Hr'. pose proof (space_len r') as Hs'.
      destruct (IH (space r') (dict_set acc k v) ltac:(llia) ltac:(llia)) as [Ho' Ha'].
      split; [exact Ho'|]. intros a rest H. pose proof (Ha' _ _ H). llia.
    - split; [discriminate|]. intros a rest H. injection H as _ <-. llia.
  Qed.

  Lemma array_fine n s : (length s <= n)%nat -> (length s <= bound)%nat ->
    nout (array_p elem n s) /\ adv s (array_p elem n s).
  Proof.
    intros Hn Hb. unfold array_p. destruct s as [|c t]; [split; [discriminate|intros a r; discriminate]|].
    destruct c; try (split; [discriminate|intros a r; discriminate]).
    cbn [length] in *. pose proof (space_len t) as Hs.
    destruct (many0_direct_fine n (space t) ltac:(llia) ltac:(llia)) as [Ho Ha]. unfold nout in *.
    destruct (many0_direct elem n (space t)) as [l r| | | |] eqn:E; cbn [pbind];
      try (split; [discriminate|intros a rest; discriminate]); try (exfalso; congruence).
    pose proof (Ha _ _ eq_refl) as Hr.
    destruct (ptag [x5d] r) as [u r'| | | |] eqn:Et; cbn [pbind]; try noptag; try (split; [discriminate|intros a rest; discriminate]).
    split; [discriminate|]. intros a rest H. injection H as _ <-. pose proof (adv0_ptag _ _ _ _ Et). llia.
  Qed.

  Lemma dictionary_p_fine n s : (length s <= n)%nat -> (length s <= bound)%nat ->
    nout (dictionary_p elem n s) /\ adv s (dictionary_p elem n s).
  Proof.
    intros Hn Hb. unfold dictionary_p. destruct s as [|c t]; [split; [discriminate|intros a r; discriminate]|].
    destruct c; try (split; [discriminate|intros a r; discriminate]).
    destruct t as [|c2 t]; [split; [discriminate|intros a r; discriminate]|].
    destruct c2; try (split; [discriminate|intros a r; discriminate]).
    cbn [length] in *. pose proof (space_len t) as Hs.
    destruct (inner_dictionary_fine n (space t) [] ltac:(llia) ltac:(llia)) as [Ho Ha]. unfold nout in *.
    destruct (inner_dictionary elem n (space t) []) as [d r| | | |] eqn:E; cbn [pbind];
      try (split; [discriminate|intros a rest; discriminate]); try (exfalso; congruence).
    pose proof (Ha _ _ eq_refl) as Hr.
    destruct (ptag [x3e; x3e] r) as [u r'| | | |] eqn:Et; cbn [pbind]; try noptag; try (split; [discriminate|intros a rest; discriminate]).
    split; [discriminate|]. intros a rest H. injection H as _ <-. pose proof (adv0_ptag _ _ _ _ Et). llia.
  Qed.

  Lemma nout_palt {A} (p : pres A) q : nout p -> nout (q tt) -> nout (palt p q).
  Proof. unfold nout, palt. destruct p; congruence. Qed.
  Lemma nout_pmap {A B} (f : A -> B) (r : pres A) : nout r -> nout (pmap f r).
  Proof. unfold nout, pmap. destruct r; congruence. Qed.

  Lemma nout_leaf_null s : nout (null s).
  Proof. unfold nout, null, pkeyword, ptag. destruct (prefixb _ s); [destruct (token_end _)|]; discriminate. Qed.
  Lemma nout_leaf_boolean s : nout (boolean s).
  Proof.
    unfold boolean. apply nout_palt; apply nout_pmap; unfold nout, pkeyword, ptag;
      destruct (prefixb _ s); try destruct (token_end _); discriminate.
  Qed.

  Lemma nout_unsigned_int m s : nout (unsigned_int m s).
  Proof. unfold nout, unsigned_int. destruct (take_while _ s) as [ds r]. destruct ds; [discriminate|]. destruct (_ <=? m)%N; discriminate. Qed.
  Lemma nout_reference s : nout (reference s).
  Proof.
    unfold nout, reference, object_id.
    pose proof (nout_unsigned_int u32_max s) as H1. unfold nout in H1.
    destruct (unsigned_int u32_max s) as [i r| | | |]; cbn [pbind]; try discriminate; try (exfalso; congruence).
    pose proof (nout_unsigned_int u16_max (space r)) as H2. unfold nout in H2.
    destruct (unsigned_int u16_max (space r)) as [g r'| | | |]; cbn [pbind]; try discriminate; try (exfalso; congruence).
    unfold ptag. destruct (prefixb _ _); cbn [pbind]; discriminate.
  Qed.
  Lemma nout_real s : nout (real s).
  Proof.
    unfold nout, real. destruct (opt_sign s) as [sg t]. destruct (take_while _ t) as [ds r].
    destruct ds, r; try discriminate; destruct (byte_eqb _ _); try discriminate;
      destruct (take_while _ _) as [fs r'']; try discriminate. destruct fs; discriminate.
  Qed.
  Lemma nout_integer s : nout (integer s).
  Proof.
    unfold nout, integer. destruct (opt_sign s) as [sg t]. destruct (take_while _ t) as [ds r].
    destruct ds; [discriminate|]. destruct (_ && _)%bool; discriminate.
  Qed.
  Lemma nout_name s : nout (name s).
  Proof. unfold nout, name. destruct s; [discriminate|]. destruct (byte_eqb _ _); [|discriminate]. destruct (name_body s); discriminate. Qed.
  Lemma nout_hex s : nout (hexadecimal_string s).
  Proof.
    unfold nout, hexadecimal_string. destruct s; [discriminate|]. destruct (byte_eqb _ _); [|discriminate].
    destruct (hex_body s None) as [o [|c2 r]]; [discriminate|]. destruct (byte_eqb _ _); discriminate.
  Qed.

  Lemma object_alts_fine cont ar n s : (length s <= n)%nat -> (length s <= bound)%nat ->
    nout (object_alts_c elem cont ar n s) /\ adv s (object_alts_c elem cont ar n s).
  Proof.
    intros Hn Hb. unfold object_alts_c.
    destruct (literal_string_fine n s Hn) as [Hlo Hla].
    destruct (array_fine n s Hn Hb) as [Hao Haa].
    destruct (dictionary_p_fine n s Hn Hb) as [Hdo Hda].
    split.
    - apply nout_palt; [apply nout_leaf_null|].
      apply nout_palt; [apply nout_leaf_boolean|].
      apply nout_palt; [destruct ar; [apply nout_reference|discriminate]|].
      apply nout_palt; [apply nout_pmap, nout_real|].
      apply nout_palt; [apply nout_pmap, nout_integer|].
      apply nout_palt; [apply nout_pmap, nout_name|].
      apply nout_palt; [apply nout_pmap; exact Hlo|].
      apply nout_palt; [apply nout_pmap, nout_hex|].
      apply nout_palt; [destruct cont; [apply nout_pmap; exact Hao|discriminate]|].
      destruct cont; [apply nout_pmap; exact Hdo|discriminate].
    - apply adv_palt; [apply adv_null|].
      apply adv_palt; [apply adv_boolean|].
      apply adv_palt; [destruct ar; [apply adv_reference|apply adv_err]|].
      apply adv_palt; [apply adv_pmap, adv_real|].
      apply adv_palt; [apply adv_pmap, adv_integer|].
      apply adv_palt; [apply adv_pmap, adv_name|].
      apply adv_palt; [apply adv_pmap; exact Hla|].
      apply adv_palt; [apply adv_pmap, adv_hex|].
      apply adv_palt; [destruct cont; [apply adv_pmap; exact Haa|apply adv_err]|].
      destruct cont; [apply adv_pmap; exact Hda|apply adv_err].
  Qed.
End Elem.

(* ---------------- the recursion ---------------- *)
Theorem direct_objects_at_fine : forall fuel depth s, (length s < fuel)%nat ->
  nout (direct_objects_at fuel depth s) /\ adv s (direct_objects_at fuel depth s).
Proof.
  induction fuel as [|f IH]; intros depth s Hlt; [lia|].
  cbn [direct_objects_at].
  apply (object_alts_fine (direct_objects_at f (pred depth)) f); [|lia|lia].
  intros s' Hs'. apply IH. exact Hs'.
Qed.

(* parser::direct_object with the fuel every entry point uses *)
Theorem direct_object_fuel : forall s, direct_object (fuel_for s) s <> POut.
Proof.
  intro s. unfold direct_object, direct_objects, fuel_for.
  destruct (direct_objects_at_fine (S (S (length s))) MAX_DEPTH s ltac:(llia)) as [Ho _]. unfold nout in Ho.
  destruct (direct_objects_at _ _ s); cbn [pbind]; try discriminate; congruence.
Qed.

Theorem direct_objects_fuel : forall fuel s, (length s < fuel)%nat -> direct_objects fuel s <> POut.
Proof. intros fuel s H. unfold direct_objects. apply direct_objects_at_fine. exact H. Qed.

Theorem dictionary_fine : forall fuel s, (length s < fuel)%nat -> nout (dictionary fuel s) /\ adv s (dictionary fuel s).
Proof.
  intros fuel s H. unfold dictionary. destruct fuel as [|f]; [lia|].
  destruct (depth_ok MAX_DEPTH); [|split; [discriminate|apply adv_err]].
  apply (dictionary_p_fine (direct_objects_at f (pred MAX_DEPTH)) f); [|lia|lia].
  intros s' Hs'. apply direct_objects_at_fine. exact Hs'.
Qed.

(* ---------------- content streams ---------------- *)
Lemma operand_fine fuel s : (length s < fuel)%nat -> nout (operand fuel s) /\ adv s (operand fuel s).
Proof.
  intro H. unfold operand. destruct fuel as [|f]; [lia|].
  destruct (object_alts_fine (direct_objects_at f (pred MAX_DEPTH)) f
              (fun s' Hs' => direct_objects_at_fine f _ s' Hs') (depth_ok MAX_DEPTH) false f s ltac:(llia) ltac:(llia)) as [Ho Ha].
  unfold nout in *. destruct (object_alts_c _ _ _ _ s) as [o r| | | |] eqn:E; cbn [pbind];
    try (split; [discriminate|intros ? ?; discriminate]); try (exfalso; congruence).
  split; [discriminate|]. intros a rest Hr. injection Hr as _ <-.
  pose proof (Ha _ _ eq_refl). pose proof (content_space_len r). llia.
Qed.

Lemma many0_operand_fine fuel : forall n s, (length s < n)%nat -> (length s < fuel)%nat ->
  nout (many0_operand fuel n s) /\ adv0 s (many0_operand fuel n s).
Proof.
  induction n as [|n IH]; intros s Hn Hf; [lia|]. cbn [many0_operand].
  destruct (operand_fine fuel s Hf) as [Ho Ha]. unfold nout in *.
  destruct (operand fuel s) as [o r| | | |] eqn:E; try (split; [discriminate|intros a rest; discriminate]); try (exfalso; congruence).
  - pose proof (Ha _ _ eq_refl) as Hr.
    destruct (IH r ltac:(llia) ltac:(llia)) as [Ho' Ha'].
    destruct (many0_operand fuel n r) as [l r'| | | |] eqn:E'; cbn [pmap];
      try (split; [discriminate|intros a rest; discriminate]); try (exfalso; congruence).
    split; [discriminate|]. intros a rest H. injection H as _ <-. pose proof (Ha' _ _ eq_refl). llia.
  - split; [discriminate|]. intros a rest H. injection H as _ <-. llia.
Qed.

Lemma operator_adv s : adv s (operator s).
Proof.
  intros a rest. unfold operator. pose proof (take_while_split is_operator_char s) as Hs.
  destruct (take_while is_operator_char s) as [op r]. destruct op; [discriminate|].
  intro H. injection H as _ <-. cbn [fst snd length] in Hs. llia.
Qed.

Lemma take_n_len : forall k (s a r : bytes), take_n k s = Some (a, r) -> (length r <= length s)%nat.
Proof.
  induction k as [|k IH]; intros s a r; cbn [take_n].
  - intro H. injection H as _ <-. lia.
  - destruct s as [|x t]; [discriminate|]. destruct (take_n k t) as [[a0 r0]|] eqn:E; [|discriminate].
    intro H. injection H as _ <-. apply IH in E. cbn [length]. lia.
Qed.

Lemma image_data_len s d c r : image_data_stream s d = IdsOk c r -> (length r <= length s)%nat.
Proof.
  unfold image_data_stream.
  repeat match goal with
         | |- context [match ?x with _ => _ end] => destruct x eqn:?; try discriminate
         end.
  intro H. injection H as _ <-. eapply take_n_len; eassumption.
Qed.

Lemma id_sep_len s : (length (id_sep s) <= length s)%nat.
Proof.
  unfold id_sep. destruct (eol s) as [[] r| | | |] eqn:E.
  - apply eol_len in E. llia.
  - destruct s as [|c t]; [lia|]. destruct c; cbn [length]; llia.
  - destruct s as [|c t]; [lia|]. destruct c; cbn [length]; llia.
  - destruct s as [|c t]; [lia|]. destruct c; cbn [length]; llia.
  - destruct s as [|c t]; [lia|]. destruct c; cbn [length]; llia.
Qed.

Lemma inline_image_fine fuel s : (length s < fuel)%nat -> nout (inline_image fuel s) /\ adv s (inline_image fuel s).
Proof.
  intro H. unfold inline_image.
  destruct (pkeyword (bs "BI") s) as [u r| | | |] eqn:Ek; try (split; [discriminate|intros ? ?; discriminate]).
  pose proof (adv_pkeyword (bs "BI") s ltac:(cbn; lia) _ _ Ek) as Hr.
  destruct fuel as [|f]; [lia|].
  pose proof (content_space_len r) as Hc.
  destruct (inner_dictionary_fine (direct_objects_at f (pred MAX_DEPTH)) f
              (fun s' Hs' => direct_objects_at_fine f _ s' Hs') f (content_space r) [] ltac:(llia) ltac:(llia)) as [Ho Ha].
  unfold nout in *.
  destruct (inner_dictionary _ _ (content_space r) []) as [d r1| | | |] eqn:Ed;
    try (split; [discriminate|intros ? ?; discriminate]); try (exfalso; congruence).
  pose proof (Ha _ _ eq_refl) as Hr1.
  destruct (ptag (bs "ID") r1) as [u2 r2| | | |] eqn:Et; try (split; [discriminate|intros ? ?; discriminate]).
  pose proof (adv0_ptag _ _ _ _ Et) as Hr2. pose proof (id_sep_len r2) as Hi.
  destruct (image_data_stream (id_sep r2) d) as [c r3| |] eqn:Ei; try (split; [discriminate|intros ? ?; discriminate]).
  apply image_data_len in Ei. pose proof (content_space_len r3) as Hc3.
  destruct (ptag (bs "EI") (content_space r3)) as [u4 r4| | | |] eqn:Et4; try (split; [discriminate|intros ? ?; discriminate]).
  pose proof (adv0_ptag _ _ _ _ Et4) as Hr4. pose proof (content_space_len r4) as Hc4.
  split; [discriminate|]. intros a rest Hx. injection Hx as _ <-. llia.
Qed.

Lemma operation_fine fuel s : (length s < fuel)%nat -> nout (operation_p fuel s) /\ adv s (operation_p fuel s).
Proof.
  intro H. unfold operation_p. pose proof (many0_comment_len s) as Hm.
  set (s1 := many0_comment s) in *.
  destruct (inline_image_fine fuel s1 ltac:(llia)) as [Hio Hia].
  destruct (many0_operand_fine fuel fuel s1 ltac:(llia) ltac:(llia)) as [Hoo Hoa].
  unfold nout in *. split.
  - unfold palt. destruct (inline_image fuel s1) as [p r| | | |]; cbn [pmap]; try discriminate; try (exfalso; congruence).
    destruct (many0_operand fuel fuel s1) as [ops r| | | |]; cbn [pbind]; try discriminate; try (exfalso; congruence).
    unfold operator. destruct (take_while _ r) as [op r']. destruct op; cbn [pbind]; discriminate.
  - intros a rest. unfold palt.
    destruct (inline_image fuel s1) as [p r| | | |] eqn:Ei; cbn [pmap]; try discriminate.
    + intro Hx. injection Hx as _ <-. pose proof (Hia _ _ eq_refl). llia.
    + destruct (many0_operand fuel fuel s1) as [ops r| | | |] eqn:Eo; cbn [pbind]; try discriminate.
      destruct (operator r) as [op r'| | | |] eqn:Ep; cbn [pbind]; try discriminate.
      intro Hx. injection Hx as _ <-.
      pose proof (Hoa _ _ eq_refl). pose proof (operator_adv _ _ _ Ep). pose proof (content_space_len r'). llia.
Qed.

Lemma many0_operation_fuel fuel : forall n s, (length s < n)%nat -> (length s < fuel)%nat ->
  nout (many0_operation fuel n s).
Proof.
  induction n as [|n IH]; intros s Hn Hf; [lia|]. cbn [many0_operation].
  destruct (operation_fine fuel s Hf) as [Ho Ha]. unfold nout in *.
  destruct (operation_p fuel s) as [o r| | | |] eqn:E; try discriminate; try (exfalso; congruence).
  pose proof (Ha _ _ eq_refl) as Hr. specialize (IH r ltac:(llia) ltac:(llia)).
  destruct (many0_operation fuel n r); cbn [pmap]; try discriminate; congruence.
Qed.

(* Content::decode: the fuel |s| + 2 is never exhausted *)
Theorem decode_content_fuel : forall s, decode_content s <> DecOut.
Proof.
  intro s. unfold decode_content, fuel_for. pose proof (content_space_len s) as Hc.
  pose proof (many0_operation_fuel (S (S (length s))) (S (S (length s))) (content_space s) ltac:(llia) ltac:(llia)) as H.
  unfold nout in H. destruct (many0_operation _ _ _); try discriminate; congruence.
Qed.
