(* ComposeReload.v -- cross-property composition, the shared part.
   C01_full (Proofs/LoadProofsFull.v) says what [load (save xt d)] is: [reloaded xt d].  This file turns that
   statement into the two simulation relations the graph-level properties (C12, C16, C17) need:

   * TABLE format: the reloaded objects are exactly the saved ones in normal form ([norm_obj]: only a real may
     change, into the integer of the same value or a real) -- same identifiers, same number of objects.  This is
     the hypothesis of C17's reload section (Proofs/OutlineProofsReload.v) with [nreal := norm_real]
     ([nn_norm_obj], [reloaded_table_lookup], [reloaded_table_length], [reloaded_root]).
   * STREAM format: the reloaded document holds one object MORE: the cross-reference stream itself, under the
     fresh number max_id + 1.  [objects.len()] -- the iteration budget of the page iterator and the reference
     budget of get_outlines -- grows by one, and a reference to that number, dangling before, now resolves.
     So only a FORWARD simulation holds ([Fwd]: whatever is found before is found afterwards, in normal form),
     which transports every positive statement: [represents] (C12's page tree), [holds_outline] (C17).

   Consequences proved here (C12):  [page_iter_after_table]: for EVERY savable document the page enumeration
   after save + load in the table format is the enumeration before (Count is never read for traversal; a real
   that becomes an integer is neither a reference nor a name nor an array).  [page_iter_after_stream]: the same in
   the stream format for page trees meeting C12's hypotheses.  [stream_cyclic_witness]: the hypothesis cannot be
   dropped -- on a cyclic page tree the enumeration stops when the budget [objects.len()] is used up, and the
   reloaded document has one object more. *)
From LV Require Import Base.Bytes Base.Sx Model.Obj Model.DocQ Model.PageTree Model.Writer Model.Parser Model.Save
  Model.Xref Model.Loader Model.Utf Gen.Lex Gen.Consts Spec.Dfs Proofs.PageTreeProofs
  Proofs.LexProofs Proofs.RealProofs Proofs.ObjectRtProofs Proofs.SaveProofs Proofs.FilterProofsDict Spec.SaveSpec
  Proofs.LoadProofs Proofs.LoadProofsFile Proofs.LoadProofsXref Proofs.LoadProofsTable Proofs.LoadProofsAgain
  Proofs.LoadProofsStream Proofs.LoadProofsFull.
From LV Require Import Model.Outline Model.Toc Gen.QueryC Spec.OutlineSpec Proofs.OutlineProofs
  Proofs.OutlineProofsRead Proofs.OutlineProofsMain Proofs.OutlineProofsReload.

Local Open Scope N_scope.

(* ---------- C17's number normalisation at [norm_real] is C01's normal form ---------- *)
Lemma norm_real_num r : (exists z, norm_real r = OInt z) \/ (exists r', norm_real r = OReal r').
Proof.
  unfold norm_real. destruct (strip_minus r) as [neg t]. destruct (forallb is_dec_digit t).
  - destruct (REAL_POINT_DISPLAY_THRESHOLD <=? digits_val t); [right | left]; eexists; reflexivity.
  - right. eexists. reflexivity.
Qed.

(* the two fixpoints have the same body, so they are convertible *)
Lemma nn_norm_obj o : nn norm_real o = norm_obj o.
Proof. reflexivity. Qed.

Lemma nnd_norm_dict d : nnd norm_real d = norm_dict d.
Proof. pose proof (nn_norm_obj (ODict d)) as H. cbn [nn norm_obj] in H. inversion H. reflexivity. Qed.

Lemma norm_obj_ref o : is_ref o = true -> norm_obj o = o.
Proof. destruct o; try discriminate. reflexivity. Qed.

Lemma is_ref_norm o : is_ref (norm_obj o) = is_ref o.
Proof. destruct o; try reflexivity. cbn [norm_obj]. destruct (norm_real_num r) as [[z E]|[z E]]; rewrite E; reflexivity. Qed.

(* ---------- what the reloaded document holds ---------- *)
Lemma lookup_norm_objects m id : lookup (norm_objects m) id = option_map norm_obj (lookup m id).
Proof.
  induction m as [|[i o] m IH]; [reflexivity|]. cbn [norm_objects map lookup fst snd].
  destruct (oid_eqb i id); [reflexivity | exact IH].
Qed.

Lemma lookup_app_some (a b : objmap) id o : lookup a id = Some o -> lookup (a ++ b) id = Some o.
Proof.
  induction a as [|[i o'] a IH]; [discriminate|]. cbn [app lookup]. destruct (oid_eqb i id); [auto | exact IH].
Qed.

Lemma written_objects d : savable d -> d_objects (written d) = d_objects d.
Proof. intro S. rewrite written_savable by exact S. reflexivity. Qed.

Lemma reloaded_table_lookup d : savable d ->
  forall id, lookup (d_objects (reloaded XTable d)) id = option_map norm_obj (lookup (d_objects d) id).
Proof. intros S id. cbn [reloaded reloaded_table d_objects]. rewrite written_objects by exact S. apply lookup_norm_objects. Qed.

Lemma reloaded_table_length d : savable d -> length (d_objects (reloaded XTable d)) = length (d_objects d).
Proof. intro S. cbn [reloaded reloaded_table d_objects]. rewrite written_objects by exact S. unfold norm_objects. apply map_length. Qed.

Lemma reloaded_stream_lookup d : savable d ->
  forall id o, lookup (d_objects d) id = Some o -> lookup (d_objects (reloaded XStream d)) id = Some (norm_obj o).
Proof.
  intros S id o H. cbn [reloaded reloaded_stream d_objects]. rewrite written_objects by exact S.
  apply lookup_app_some. rewrite lookup_norm_objects, H. reflexivity.
Qed.

Lemma reloaded_stream_length d : savable d -> length (d_objects (reloaded XStream d)) = S (length (d_objects d)).
Proof.
  intro S. cbn [reloaded reloaded_stream d_objects]. rewrite written_objects by exact S.
  rewrite app_length. unfold norm_objects. rewrite map_length. cbn [length]. lia.
Qed.

(* either format: the forward simulation and the budget *)
Lemma reloaded_lookup_fwd xt d : savable d ->
  forall id o, lookup (d_objects d) id = Some o -> lookup (d_objects (reloaded xt d)) id = Some (norm_obj o).
Proof.
  intros S id o H. destruct xt; [|apply reloaded_stream_lookup; assumption].
  rewrite reloaded_table_lookup, H by exact S. reflexivity.
Qed.

Lemma reloaded_length_le xt d : savable d -> (length (d_objects d) <= length (d_objects (reloaded xt d)))%nat.
Proof. intro S. destruct xt; [rewrite reloaded_table_length | rewrite reloaded_stream_length]; try exact S; lia. Qed.

(* a trailer entry outside the bookkeeping keys comes back in normal form (from [same_doc]) *)
Lemma K_Root_not_bookkeeping : ~ In K_Root bookkeeping.
Proof. unfold bookkeeping. cbn [In]. intros [H|[H|[H|[H|[H|[H|[H|[]]]]]]]]; vm_compute in H; discriminate. Qed.

Lemma same_doc_root d d' : same_doc d d' ->
  dict_get (d_trailer d') K_Root = option_map norm_obj (dict_get (d_trailer d) K_Root).
Proof. intros [_ [_ H]]. rewrite (H K_Root K_Root_not_bookkeeping). apply dict_get_norm. Qed.

Lemma same_doc_reloaded xt d : savable d -> same_doc d (reloaded xt d).
Proof.
  intro S. pose proof (savable_written d S) as S0.
  apply (same_doc_ext d (written d)); [reflexivity | rewrite written_savable by exact S; reflexivity | reflexivity |].
  destruct xt; [apply same_doc_reloaded_table | apply same_doc_reloaded_stream]; exact S0.
Qed.

Lemma reloaded_root xt d i g : savable d -> dict_get (d_trailer d) K_Root = Some (ORef i g) ->
  dict_get (d_trailer (reloaded xt d)) K_Root = dict_get (d_trailer d) K_Root.
Proof. intros S H. rewrite (same_doc_root d _ (same_doc_reloaded xt d S)), H. reflexivity. Qed.

(* ---------- forward simulation ---------- *)
Section Fwd.
  Variables m m' : objmap.
  Hypothesis fwd : forall id o, lookup m id = Some o -> lookup m' id = Some (norm_obj o).

  Lemma deref_fwd : forall fuel last o r,
    deref_aux m fuel last o = Some r -> deref_aux m' fuel last (norm_obj o) = Some (fst r, norm_obj (snd r)).
  Proof.
    induction fuel as [|f IH]; intros last o r H; destruct (is_ref o) eqn:R.
    - destruct o; try discriminate. rewrite deref_ref in H. destruct (lookup m (id, gen)); discriminate.
    - rewrite deref_nonref in H by exact R. inversion H; subst. apply deref_nonref. rewrite is_ref_norm. exact R.
    - destruct o; try discriminate. cbn [norm_obj]. rewrite deref_ref in *.
      destruct (lookup m (id, gen)) as [o1|] eqn:E; [|discriminate]. rewrite (fwd _ _ E). apply IH. exact H.
    - rewrite deref_nonref in H by exact R. inversion H; subst. apply deref_nonref. rewrite is_ref_norm. exact R.
  Qed.

  Lemma get_object_fwd id o : get_object m id = Some o -> get_object m' id = Some (norm_obj o).
  Proof.
    unfold get_object. destruct (lookup m id) as [o0|] eqn:E; [|discriminate]. rewrite (fwd _ _ E).
    unfold dereference. destruct (deref_aux m (N.to_nat DEREF_LIMIT) None o0) as [r|] eqn:D; [|discriminate].
    rewrite (deref_fwd _ _ _ _ D). cbn [option_map snd]. intro H. inversion H. reflexivity.
  Qed.

  Lemma get_dictionary_fwd id dd : get_dictionary m id = Some dd -> get_dictionary m' id = Some (norm_dict dd).
  Proof.
    unfold get_dictionary. destruct (get_object m id) as [o|] eqn:E; [|discriminate].
    rewrite (get_object_fwd _ _ E). destruct o; try discriminate. intro H. inversion H. reflexivity.
  Qed.

  Lemma get_deref_fwd dd k o : get_deref m dd k = Some o -> get_deref m' (norm_dict dd) k = Some (norm_obj o).
  Proof.
    unfold get_deref. rewrite dict_get_norm. destruct (dict_get dd k) as [o0|]; [|discriminate]. cbn [option_map].
    unfold dereference. destruct (deref_aux m (N.to_nat DEREF_LIMIT) None o0) as [r|] eqn:D; [|discriminate].
    rewrite (deref_fwd _ _ _ _ D). cbn [option_map snd]. intro H. inversion H. reflexivity.
  Qed.

  Lemma get_of_fwd k dd : get_of m k = Some dd -> get_of m' k = Some (norm_dict dd).
  Proof.
    unfold get_of. destruct (lookup m (k, 0)) as [o|] eqn:E; [|discriminate]. rewrite (fwd _ _ E).
    destruct o; try discriminate. intro H. inversion H. reflexivity.
  Qed.

  Lemma map_norm_ref_of ks : map norm_obj (map ref_of ks) = map ref_of ks.
  Proof. rewrite map_map. apply map_ext. intro t. reflexivity. Qed.

  (* C12's page tree is still there *)
  Lemma represents_fwd t : represents m t -> represents m' t.
  Proof.
    induction t as [id|id ks IH] using ptree_ind'; intro H.
    - inversion H as [id' dd Hd Ht|]; subst. apply (RLeaf m' id (norm_dict dd)).
      + apply get_dictionary_fwd. exact Hd.
      + rewrite get_type_norm. exact Ht.
    - inversion H as [|id' dd ks' Hd Ht Hk Hf]; subst. apply (RNode m' id (norm_dict dd) ks).
      + apply get_dictionary_fwd. exact Hd.
      + rewrite get_type_norm. exact Ht.
      + rewrite (get_deref_fwd _ _ _ Hk). cbn [norm_obj]. rewrite map_norm_ref_of. reflexivity.
      + rewrite Forall_forall in *. intros k Hin. apply (IH k Hin). apply Hf. exact Hin.
  Qed.

  (* C17's outline is still there *)
  Lemma items_ok_fwd p prev l : items_ok (get_of m) p prev l -> items_ok (get_of m') p prev l.
  Proof.
    induction 1 as [|parent prev id info bd kids rest dd a Hd Hi Ha Hao Hk IHk Hr IHr]; [constructor|].
    apply (IO_cons _ parent prev id info bd kids rest (norm_dict dd) (norm_dict a)).
    - apply get_of_fwd. exact Hd.
    - rewrite <- nnd_norm_dict. apply (item_ok_nn norm_real). exact Hi.
    - apply get_of_fwd. exact Ha.
    - rewrite <- nnd_norm_dict. apply (action_ok_nn norm_real). exact Hao.
    - exact IHk.
    - exact IHr.
  Qed.

  Lemma outline_ok_fwd root f : outline_ok (get_of m) root f -> outline_ok (get_of m') root f.
  Proof.
    intros [Hitems [od [Hod [H1 [H2 [H3 [H4 [H5 H6]]]]]]]]. constructor; [apply items_ok_fwd; exact Hitems|].
    exists (norm_dict od). split; [apply get_of_fwd; exact Hod|].
    rewrite !dict_get_norm, H1, H2, H3, H4, H5, H6.
    repeat split; try reflexivity; [destruct (head_id f) | destruct (last_id f)]; reflexivity.
  Qed.
End Fwd.

Section FwdDoc.
  Variables d d' : doc.
  Hypothesis fwd : forall id o, lookup (d_objects d) id = Some o -> lookup (d_objects d') id = Some (norm_obj o).
  Hypothesis root : dict_get (d_trailer d') K_Root = dict_get (d_trailer d) K_Root.
  Hypothesis count : (length (d_objects d) <= length (d_objects d'))%nat.

  Lemma catalog_fwd cat : catalog d = Some cat -> catalog d' = Some (norm_dict cat).
  Proof.
    unfold catalog. rewrite root. destruct (dict_get (d_trailer d) K_Root) as [[]|]; try discriminate.
    apply get_dictionary_fwd. exact fwd.
  Qed.

  Lemma tree_wf_fwd t : tree_wf d t -> tree_wf d' t.
  Proof. intros [H1 H2]. split; [apply (represents_fwd _ _ fwd); exact H1 | exact H2]. Qed.

  (* C12's theorem on both sides *)
  Theorem page_iter_fwd cat i g ks :
    catalog d = Some cat -> dict_get cat K_Pages = Some (ORef i g) ->
    tree_wf d (PNode (i, g) ks) -> (N.of_nat (height (PNode (i, g) ks)) <= PAGE_TREE_DEPTH_LIMIT + 1)%N ->
    page_iter d' = page_iter d /\ page_iter d' = leaves (PNode (i, g) ks).
  Proof.
    intros Hc Hp Hw Hh. rewrite (page_iter_dfs d cat i g ks Hc Hp Hw Hh).
    assert (E : page_iter d' = leaves (PNode (i, g) ks)).
    { apply (page_iter_dfs d' (norm_dict cat) i g ks); [apply catalog_fwd; exact Hc | | apply tree_wf_fwd; exact Hw | exact Hh].
      rewrite dict_get_norm, Hp. reflexivity. }
    split; exact E.
  Qed.

  Theorem holds_fwd r f : holds_outline d r f -> holds_outline d' r f.
  Proof.
    intros [cat [H1 [H2 [[Hn1 Hn2] [H4 [H5 H6]]]]]]. exists (norm_dict cat).
    split; [apply catalog_fwd; exact H1|].
    split; [rewrite dict_get_norm, H2; reflexivity|].
    split; [split; rewrite dict_get_norm; [rewrite Hn1 | rewrite Hn2]; reflexivity|].
    split; [apply (outline_ok_fwd _ _ fwd); exact H4|].
    split; [exact H5 | lia].
  Qed.
End FwdDoc.

(* ---------- C12 after save and reload ---------- *)
(* TABLE format, EVERY savable document (cyclic, ill-typed, dangling page trees included) *)
Theorem page_iter_after_table d : savable d ->
  page_iter (reloaded XTable d) = page_iter d /\ get_pages (reloaded XTable d) = get_pages d.
Proof.
  intro S.
  assert (G : get_pages (reloaded XTable d) = get_pages d).
  { destruct (dict_get (d_trailer d) K_Root) as [r|] eqn:R.
    - destruct (is_ref r) eqn:Rr.
      + destruct r; try discriminate.
        apply (get_pages_reload norm_real norm_real_num d (reloaded XTable d)).
        * rewrite (reloaded_root XTable d id gen S R). reflexivity.
        * intro i. rewrite reloaded_table_lookup by exact S. destruct (lookup (d_objects d) i); [|reflexivity].
          reflexivity.
        * apply reloaded_table_length. exact S.
      + (* Root is not a reference: no catalog on either side *)
        unfold get_pages, page_iter, catalog.
        rewrite (same_doc_root d _ (same_doc_reloaded XTable d S)), R. cbn [option_map].
        pose proof (is_ref_norm r) as Hn. rewrite Rr in Hn.
        destruct (norm_obj r); try discriminate; destruct r; try discriminate; reflexivity.
    - unfold get_pages, page_iter, catalog.
      rewrite (same_doc_root d _ (same_doc_reloaded XTable d S)), R. reflexivity. }
  split; [|exact G].
  unfold get_pages in G. revert G. generalize (page_iter (reloaded XTable d)) (page_iter d). generalize 1.
  intros n l1. revert n. induction l1 as [|x l1 IH]; intros n [|y l2] H; try discriminate; [reflexivity|].
  cbn [number_from] in H. inversion H. f_equal. eapply IH. eassumption.
Qed.

(* either format, page trees meeting C12's hypotheses *)
Theorem page_iter_after_reload xt d cat i g ks : savable d ->
  catalog d = Some cat -> dict_get cat K_Pages = Some (ORef i g) ->
  tree_wf d (PNode (i, g) ks) -> (N.of_nat (height (PNode (i, g) ks)) <= PAGE_TREE_DEPTH_LIMIT + 1)%N ->
  page_iter (reloaded xt d) = page_iter d /\ page_iter (reloaded xt d) = leaves (PNode (i, g) ks).
Proof.
  intros S Hc Hp Hw Hh.
  assert (R : exists ri rg, dict_get (d_trailer d) K_Root = Some (ORef ri rg)).
  { unfold catalog in Hc. destruct (dict_get (d_trailer d) K_Root) as [[]|]; try discriminate. eauto. }
  destruct R as [ri [rg R]].
  apply (page_iter_fwd d (reloaded xt d) (reloaded_lookup_fwd xt d S) (reloaded_root xt d ri rg S R) cat i g ks); assumption.
Qed.

(* the stream format on a cyclic page tree: Pages node 2 lists page 3 and itself.  Three objects: the budget lets the
   iterator take three kids (page, node, page); the reloaded document holds a fourth object (the cross-reference
   stream), so it takes one kid more -- the node again, which yields nothing -- hence here the enumerations still
   agree, but with TWO spare objects they do not: [cyc_doc] has four objects and the walk of budget 4 ends on the
   node, the walk of budget 5 yields the page a third time. *)
Definition cyc_doc : doc :=
  {| d_version := bs "1.5"; d_binary_mark := [xbb; xad; xc0; xde];
     d_trailer := [(K_Root, ORef 1 0)];
     d_objects := [((1, 0), ODict [(K_Type, OName (bs "Catalog")); (K_Pages, ORef 2 0)]);
                   ((2, 0), ODict [(K_Type, OName K_Pages); (K_Kids, OArr [ORef 3 0; ORef 2 0])]);
                   ((3, 0), ODict [(K_Type, OName K_Page)]);
                   ((4, 0), ONull)];
     d_max_id := 4 |}.

Lemma cyc_savable : savable cyc_doc.
Proof.
  constructor; cbn [cyc_doc d_version d_binary_mark d_trailer d_objects d_max_id].
  - vm_compute. reflexivity.
  - reflexivity.
  - reflexivity.
  - vm_compute. discriminate.
  - cbn [obj_numbers map fst increasing]. repeat split; reflexivity.
  - repeat (apply Forall_cons; [cbn [fst snd]; split; [vm_compute; discriminate|]; split; [|reflexivity];
      cbn [top_wf]; repeat (constructor; cbn; try (intuition discriminate)) |]); try apply Forall_nil.
    all: try (vm_compute; discriminate).
  - constructor; [repeat constructor; cbn; intuition discriminate|].
    constructor; [|constructor]. cbn [snd]. constructor; vm_compute; discriminate.
  - reflexivity.
  - reflexivity.
Qed.

Theorem stream_cyclic_witness :
  savable cyc_doc /\ known_deep cyc_doc = false /\ small_file XStream cyc_doc /\ cycles_fit XStream cyc_doc /\
  load (so_bytes (save XStream cyc_doc)) = LOk (reloaded XStream cyc_doc) XTStream /\
  page_iter cyc_doc = [(3, 0); (3, 0)] /\
  page_iter (reloaded XStream cyc_doc) = [(3, 0); (3, 0); (3, 0)] /\
  page_iter (reloaded XTable cyc_doc) = [(3, 0); (3, 0)].
Proof.
  assert (S := cyc_savable).
  assert (K : known_deep cyc_doc = false) by (vm_compute; reflexivity).
  assert (Hs : small_file XStream cyc_doc) by (vm_compute; reflexivity).
  assert (Hc : cycles_fit XStream cyc_doc) by (vm_compute; reflexivity).
  split; [exact S|]. split; [exact K|]. split; [exact Hs|]. split; [exact Hc|].
  split; [apply (load_save_full XStream cyc_doc S K Hs Hc)|].
  split; [vm_compute; reflexivity|]. split; vm_compute; reflexivity.
Qed.

(* ---------- one cycle through the loader (no spare object number needed for a single cycle) ---------- *)
Lemma load_save_one xt d : savable d -> known_deep d = false -> small_file xt d ->
  load (so_bytes (save xt d)) = LOk (reloaded xt d) (xtype_of xt).
Proof.
  intros S K Hs. apply load_save_gen; [apply savable_written; exact S | rewrite known_deep_written; assumption | exact Hs].
Qed.

(* the statements of Props/C12.v *)
Theorem c12_after_save_load_table d : savable d -> known_deep d = false -> small_file XTable d ->
  exists d', load (so_bytes (save XTable d)) = LOk d' XTTable /\ page_iter d' = page_iter d /\ get_pages d' = get_pages d.
Proof.
  intros S K Hs. exists (reloaded XTable d). split; [apply (load_save_one XTable d S K Hs)|]. apply page_iter_after_table. exact S.
Qed.

Theorem c12_after_save_load xt d cat i g ks : savable d -> known_deep d = false -> small_file xt d ->
  catalog d = Some cat -> dict_get cat K_Pages = Some (ORef i g) ->
  tree_wf d (PNode (i, g) ks) -> (N.of_nat (height (PNode (i, g) ks)) <= PAGE_TREE_DEPTH_LIMIT + 1)%N ->
  exists d', load (so_bytes (save xt d)) = LOk d' (xtype_of xt) /\
             page_iter d' = leaves (PNode (i, g) ks) /\ page_iter d' = page_iter d /\ get_pages d' = get_pages d.
Proof.
  intros S K Hs Hc Hp Hw Hh. exists (reloaded xt d). split; [apply (load_save_one xt d S K Hs)|].
  destruct (page_iter_after_reload xt d cat i g ks S Hc Hp Hw Hh) as [E1 E2].
  split; [exact E2|]. split; [exact E1|]. unfold get_pages. rewrite E1. reflexivity.
Qed.
