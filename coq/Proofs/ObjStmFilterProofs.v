(* ObjStmFilterProofs.v -- C02: ObjectStream::new (Model/ObjStm.v objstm_new) with Stream::decompress := decompress_ref
   (Proofs/LoadsFilterProofs.v) on the container object the reference writer builds (Spec/RefWriter.v os_object), as the
   loader hands it over (the dictionary read back in any spelling, Length set): the decompression attempt (none without a
   Filter; ASCII85, ASCIIHex, stored-block Flate, ASCII85 around Flate otherwise) leaves the payload, and the members
   are exactly the denoted objects (Proofs/ObjStmSpellProofs.v).  Not covered: a PNG predictor on an object stream (the
   writer pads the payload with spaces to whole rows). *)
From LV Require Import Base.Bytes Base.Sx Model.Obj Model.Writer Model.Parser Model.Utf Model.ObjStm Gen.Lex Gen.Filters
  Model.A85 Model.StreamFilt Spec.XrefSpec Spec.RefWriter Spec.StreamCodecSpec
  Proofs.SpellingObjProofs Proofs.ObjStmProofs Proofs.ObjStmSpellProofs Proofs.LoadsFilterProofs Proofs.FilterProofsDict.
From LV Require Proofs.LoadsTableProofs.
From Coq Require Import Lia.
Local Open Scope N_scope.

Lemma dict_get_denote_int : forall d sts k z,
  dict_get d k = Some (OInt z) -> dict_get (denote_dict d sts) k = Some (OInt z).
Proof.
  induction d as [|[k0 v] d IH]; intros sts k z H; [discriminate H|].
  cbn [denote_dict dict_get] in *. destruct (bytes_eqb k0 k).
  - inversion H; subst. reflexivity.
  - apply IH. exact H.
Qed.

Lemma dict_get_denote_gen : forall d sts k v,
  dict_get d k = Some v -> (forall y, denote v y = v) -> dict_get (denote_dict d sts) k = Some v.
Proof.
  induction d as [|[k0 v0] d IH]; intros sts k v H Hp; [discriminate H|].
  cbn [denote_dict dict_get] in *. destruct (bytes_eqb k0 k).
  - inversion H; subst. rewrite Hp. reflexivity.
  - apply IH; assumption.
Qed.

Lemma dict_get_denote_none' : forall d sts k, dict_get d k = None -> dict_get (denote_dict d sts) k = None.
Proof.
  induction d as [|[k0 v] d IH]; intros sts k H; [reflexivity|]. cbn [denote_dict dict_get] in *.
  destruct (bytes_eqb k0 k); [discriminate H|apply IH; exact H].
Qed.

Section Container.
  Variable objs : list (oid * obj).
  Variable s : ostm.
  Variable items : list ositem.
  Variable sts : list (nstyle * filler * ostyle * filler).     (* the spelling of the container's dictionary *)
  Hypothesis Hb : os_build objs (os_members s) (os_items s) true = Some items.
  Hypothesis Hne : os_members s <> [].
  Hypothesis Hnd : NoDup (os_members s).
  Hypothesis Hm : Forall (fun m => m <= u32_max) (os_members s).
  Hypothesis Hok : Forall (fun oy => mem_ok (fst oy) (snd oy)) (os_pairs objs (os_members s) (os_items s)).
  Hypothesis Hlen : N.of_nat (length (flat_map oi_text items)) <= u32_max.
  Hypothesis Hnp : no_pred (os_filter s).

  Definition payload : bytes := snd (os_payload items (at_least_ws (os_hdr_end s))).
  Definition firstv : N := fst (os_payload items (at_least_ws (os_hdr_end s))).
  Definition enc : bytes * dict := apply_filter (os_filter s) 0 (os_array s) payload.
  Definition dC : dict :=
    [(bs "Type", OName (bs "ObjStm")); (bs "N", OInt (Z.of_nat (length items))); (bs "First", OInt (Z.of_N firstv))] ++
    snd enc ++ [(bs "Length", OInt (Z.of_nat (length (fst enc))))].
  (* the dictionary as the loader hands it to ObjectStream::new *)
  Definition D : dict := dict_set (denote_dict dC sts) K_Length (OInt (Z.of_nat (length (fst enc)))).

  Lemma os_object_eq : os_object objs s = Some (OStream dC (fst enc)).
  Proof.
    unfold os_object. rewrite Hb. unfold dC, enc, payload, firstv.
    destruct (os_payload items (at_least_ws (os_hdr_end s))) as [f p]. cbn [fst snd].
    destruct (apply_filter (os_filter s) 0 (os_array s) p) as [dat fe]. reflexivity.
  Qed.

  Lemma dC_get k v : (forall y, denote v y = v) -> dict_get dC k = Some v -> k <> K_Length -> dict_get D k = Some v.
  Proof.
    intros Hp H Hk. unfold D. rewrite dict_get_set_other by exact Hk. apply dict_get_denote_gen; assumption.
  Qed.

  Lemma dC_first : dict_get D K_First = Some (OInt (Z.of_N firstv)).
  Proof. apply dC_get; [reflexivity|reflexivity|discriminate]. Qed.
  Lemma dC_n : dict_get D K_N = Some (OInt (Z.of_nat (length items))).
  Proof. apply dC_get; [reflexivity|reflexivity|discriminate]. Qed.

  Lemma dC_fent k : k <> K_Length -> bytes_eqb (bs "Type") k = false -> bytes_eqb (bs "N") k = false -> bytes_eqb (bs "First") k = false ->
    dict_get D k = dict_get (snd enc) k.
  Proof.
    intros Hk E1 E2 E3. unfold D. rewrite dict_get_set_other by exact Hk.
    assert (Hx : dict_get dC k = match dict_get (snd enc) k with Some v => Some v | None => None end).
    { unfold dC. cbn [app dict_get]. rewrite E1, E2, E3.
      induction (snd enc) as [|[k0 v0] l IH]; cbn [app dict_get].
      - destruct (bytes_eqb (bs "Length") k) eqn:E; [|reflexivity]. apply bytes_eqb_eq in E. exfalso. apply Hk. symmetry. exact E.
      - destruct (bytes_eqb k0 k); [reflexivity|exact IH]. }
    destruct (dict_get (snd enc) k) as [v|] eqn:Ef.
    - apply dict_get_denote_gen; [exact Hx|]. exact (fent_plain _ _ _ _ _ _ Ef).
    - apply dict_get_denote_none'. exact Hx.
  Qed.

  Definition members_val : objmap :=
    fold_left (fun m it => insert m (oi_num it, 0)
                 (val_of (os_members s) (map (fun oy => denote (fst oy) (snd oy)) (os_pairs objs (os_members s) (os_items s))) it))
              items [].

  Lemma plain_members d' : dict_get d' K_First = Some (OInt (Z.of_N firstv)) -> dict_get d' K_N = Some (OInt (Z.of_nat (length items))) ->
    objstm_plain d' payload = OsOk members_val.
  Proof.
    intros HF HN. unfold payload, members_val.
    apply (objstm_any_spelling objs (os_members s) (os_items s) (os_hdr_end s) items d' _ Hb Hne Hnd Hm Hok Hlen HF HN).
  Qed.

  Lemma D_wf : NoDup (map fst (snd enc)) -> ~ In (bs "Type") (map fst (snd enc)) -> ~ In (bs "N") (map fst (snd enc)) ->
    ~ In (bs "First") (map fst (snd enc)) -> ~ In (bs "Length") (map fst (snd enc)) -> dict_wf D.
  Proof.
    intros H0 H1 H2 H3 H4. unfold D. apply dict_set_wf. unfold dict_wf, keys. rewrite denote_dict_keys.
    unfold dC. rewrite !map_app. cbn [map fst app].
    constructor; [cbn [In]; rewrite in_app_iff; cbn [In]; intros [K|[K|[K|[K|[]]]]]; try discriminate K; contradiction|].
    constructor; [cbn [In]; rewrite in_app_iff; cbn [In]; intros [K|[K|[K|[]]]]; try discriminate K; contradiction|].
    constructor; [rewrite in_app_iff; cbn [In]; intros [K|[K|[]]]; try discriminate K; contradiction|].
    apply LoadsTableProofs.NoDup_app_disj; [exact H0|constructor; [intros []|constructor]|].
    intros x Hx [<-|[]]. contradiction.
  Qed.

  Lemma filtered : os_filter s <> SfNone ->
    exists d', decompress_ref D (fst enc) = Some (d', payload) /\
               dict_get d' K_First = Some (OInt (Z.of_N firstv)) /\ dict_get d' K_N = Some (OInt (Z.of_nat (length items))).
  Proof.
    intro Hf.
    assert (Hdec : decompressed_content gallina_inflate gallina_lzw {| s_dict := D; s_content := fst enc |} = Ok payload).
    { unfold enc. apply chain_decodes_nopred; [exact Hf|exact Hnp| |].
      - apply dC_fent; try discriminate; reflexivity.
      - apply dC_fent; try discriminate; reflexivity. }
    rewrite (decompress_ref_ok D (fst enc) payload Hdec). eexists. split; [reflexivity|].
    assert (W : dict_wf D).
    { apply D_wf; unfold enc; destruct (os_filter s) as [| |blk [p|]|blk [p|]|u ws]; try (exfalso; apply Hf; reflexivity); try contradiction;
        cbn [apply_filter snd map fst]; first [ (constructor; [intros []|constructor]) | (cbn [In]; intuition discriminate) ]. }
    split.
    - rewrite dict_get_set_other by discriminate.
      rewrite dict_get_swap_remove_other; [|apply swap_remove_wf; exact W|discriminate].
      rewrite dict_get_swap_remove_other; [exact dC_first|exact W|discriminate].
    - rewrite dict_get_set_other by discriminate.
      rewrite dict_get_swap_remove_other; [|apply swap_remove_wf; exact W|discriminate].
      rewrite dict_get_swap_remove_other; [exact dC_n|exact W|discriminate].
  Qed.

  Theorem objstm_new_ref :
    exists d', objstm_new decompress_ref D (fst enc) = ((d', payload), OsOk members_val).
  Proof.
    unfold objstm_new. pose proof filtered as Fl.
    destruct (os_filter s) as [| |blk pr|blk pr|u ws] eqn:Ef.
    1:{ (* no filter: Stream::decompress fails (no Filter entry), the stream stays as it is *)
      assert (Hn : dict_get D K_Filter = None).
      { rewrite dC_fent by (try discriminate; reflexivity). unfold enc. rewrite Ef. reflexivity. }
      assert (Hd : decompress_ref D (fst enc) = None).
      { unfold decompress_ref, StreamFilt.decompress, decompressed_content, filters. cbn [s_dict]. rewrite Hn. reflexivity. }
      assert (Ep : fst enc = payload) by (unfold enc; rewrite Ef; reflexivity).
      rewrite Hd. cbn [fst snd]. exists D. rewrite Ep. f_equal. apply plain_members; [exact dC_first|exact dC_n]. }
    all: destruct Fl as [d' [-> [HF HN]]]; [discriminate|];
         exists d'; cbn [fst snd]; f_equal; apply plain_members; assumption.
  Qed.
End Container.
