(* LitStringProofs.v -- literal strings: Writer.write_literal then Parser.literal_string is
   the identity on every byte string.
   Steps: (1) the writer's stack scan computes the same escape set as the structural function
   [go] (a mask plus the number of pending open parentheses the suffix closes);
   (2) the emitted text is in the relation [Emit] (unescaped parentheses balanced, nested at most
   MAX_BRACKET deep); (3) the parser inverts every [Emit] text. *)
From LV Require Import Base.Bytes Base.Sx Model.Obj Model.Writer Model.Parser Gen.Lex Proofs.LexProofs.
From Coq Require Import ZifyBool ZifyN ZifyNat.

Local Open Scope nat_scope.

Definition MAXB : nat := N.to_nat MAX_BRACKET.

(* ---------- (1) the scan as a structural function ---------- *)

Fixpoint go (t : bytes) (k : nat) : list bool * nat :=
  match t with
  | [] => ([], 0)
  | b :: t' =>
    if byte_eqb b x28 then
      if MAXB <=? k then let '(m, c) := go t' k in (true :: m, c)
      else let '(m, c) := go t' (S k) in ((match c with O => true | S _ => false end) :: m, pred c)
    else if byte_eqb b x29 then
      match k with
      | O => let '(m, c) := go t' 0 in (true :: m, c)
      | S k' => let '(m, c) := go t' k' in (false :: m, S c)
      end
    else if byte_eqb b x5c || byte_eqb b x0d then let '(m, c) := go t' k in (true :: m, c)
    else let '(m, c) := go t' k in (false :: m, c)
  end.

Fixpoint emit_mask (t : bytes) (m : list bool) : bytes :=
  match t, m with
  | b :: t', e :: m' =>
    if e then x5c :: (if byte_eqb b x0d then x72 else b) :: emit_mask t' m'
    else b :: emit_mask t' m'
  | _, _ => []
  end.

Lemma go_length t : forall k, length (fst (go t k)) = length t.
Proof.
  induction t as [|b t IH]; intro k; cbn [go]; [reflexivity|].
  destruct (byte_eqb b x28).
  - destruct (MAXB <=? k).
    + specialize (IH k). destruct (go t k). cbn in *. lia.
    + specialize (IH (S k)). destruct (go t (S k)). cbn in *. lia.
  - destruct (byte_eqb b x29).
    + destruct k as [|k'].
      * specialize (IH 0). destruct (go t 0). cbn in *. lia.
      * specialize (IH k'). destruct (go t k'). cbn in *. lia.
    + destruct (byte_eqb b x5c || byte_eqb b x0d);
        specialize (IH k); destruct (go t k); cbn in *; lia.
Qed.

Lemma go_count t : forall k, snd (go t k) <= k.
Proof.
  induction t as [|b t IH]; intro k; cbn [go]; [cbn; lia|].
  destruct (byte_eqb b x28).
  - destruct (MAXB <=? k).
    + specialize (IH k). destruct (go t k). cbn in *. lia.
    + specialize (IH (S k)). destruct (go t (S k)). cbn in *. lia.
  - destruct (byte_eqb b x29).
    + destruct k as [|k'].
      * specialize (IH 0). destruct (go t 0). cbn in *. lia.
      * specialize (IH k'). destruct (go t k'). cbn in *. lia.
    + destruct (byte_eqb b x5c || byte_eqb b x0d);
        specialize (IH k); destruct (go t k); cbn in *; lia.
Qed.

Lemma max_test k : (MAX_BRACKET <=? N.of_nat k)%N = (MAXB <=? k).
Proof. unfold MAXB. destruct (MAXB <=? k) eqn:E; unfold MAXB in E; lia. Qed.

(* membership in the scan's result *)
Definition in_mask (i : nat) (m : list bool) (x : nat) : Prop :=
  exists j, x = i + j /\ nth j m false = true.

Lemma in_mask_cons_true i m x : in_mask i (true :: m) x <-> x = i \/ in_mask (S i) m x.
Proof.
  unfold in_mask. split.
  - intros [j [-> Hj]]. destruct j as [|j]; [left; lia|]. right. exists j. split; [lia|exact Hj].
  - intros [->|[j [-> Hj]]]; [exists 0; split; [lia|reflexivity]|]. exists (S j). split; [lia|exact Hj].
Qed.

Lemma in_mask_cons_false i m x : in_mask i (false :: m) x <-> in_mask (S i) m x.
Proof.
  unfold in_mask. split.
  - intros [j [-> Hj]]. destruct j as [|j]; [discriminate|]. exists j. split; [lia|exact Hj].
  - intros [j [-> Hj]]. exists (S j). split; [lia|exact Hj].
Qed.

Lemma in_mask_ge i m x : in_mask i m x -> i <= x.
Proof. intros [j [-> _]]. lia. Qed.

Lemma scan_go : forall t i P E,
  Forall (fun x => x < i) P ->
  forall x, In x (lit_scan i t P E) <->
            In x E \/ In x (skipn (snd (go t (length P))) P) \/ in_mask i (fst (go t (length P))) x.
Proof.
  induction t as [|b t IH]; intros i P E HP x.
  - cbn [lit_scan go fst snd skipn]. rewrite in_app_iff. unfold in_mask. split.
    + intros [H|H]; auto.
    + intros [H|[H|[j [_ Hj]]]]; auto. destruct j; discriminate.
  - cbn [lit_scan go].
    assert (HP' : Forall (fun x => x < S i) P) by (eapply Forall_impl; [|exact HP]; cbn; intros; lia).
    destruct (byte_eqb b x28).
    + rewrite max_test. destruct (MAXB <=? length P).
      * rewrite (IH (S i) P (i :: E) HP' x).
        destruct (go t (length P)) as [m c]. cbn [fst snd]. rewrite in_mask_cons_true. cbn [In]. intuition.
      * assert (HP2 : Forall (fun x => x < S i) (i :: P)) by (constructor; [lia|exact HP']).
        rewrite (IH (S i) (i :: P) E HP2 x). cbn [length].
        destruct (go t (S (length P))) as [m c]. cbn [fst snd].
        destruct c as [|c]; cbn [pred skipn].
        -- rewrite in_mask_cons_true. cbn [In]. intuition.
        -- rewrite in_mask_cons_false. reflexivity.
    + destruct (byte_eqb b x29).
      * destruct P as [|p P].
        -- rewrite (IH (S i) [] (i :: E) HP' x). cbn [length].
           destruct (go t 0) as [m c]. cbn [fst snd]. rewrite in_mask_cons_true.
           rewrite !skipn_nil. cbn [In]. intuition.
        -- inversion HP' as [|? ? Hp HP'']; subst.
           rewrite (IH (S i) P E HP'' x). cbn [length].
           destruct (go t (length P)) as [m c]. cbn [fst snd skipn]. rewrite in_mask_cons_false. reflexivity.
      * destruct (byte_eqb b x5c || byte_eqb b x0d).
        -- rewrite (IH (S i) P (i :: E) HP' x).
           destruct (go t (length P)) as [m c]. cbn [fst snd]. rewrite in_mask_cons_true. cbn [In]. intuition.
        -- rewrite (IH (S i) P E HP' x).
           destruct (go t (length P)) as [m c]. cbn [fst snd]. rewrite in_mask_cons_false. reflexivity.
Qed.

Lemma nat_in_iff i l : nat_in i l = true <-> In i l.
Proof.
  unfold nat_in. rewrite existsb_exists. split.
  - intros [x [Hx E]]. apply Nat.eqb_eq in E. subst. exact Hx.
  - intro H. exists i. split; [exact H|apply Nat.eqb_refl].
Qed.

Lemma emit_eq : forall t i m S,
  length m = length t ->
  (forall x, i <= x -> (In x S <-> in_mask i m x)) ->
  lit_emit i t S = emit_mask t m.
Proof.
  induction t as [|b t IH]; intros i m S Hl HS; [reflexivity|].
  destruct m as [|e m]; [discriminate|]. cbn [lit_emit emit_mask].
  assert (Hrec : lit_emit (Datatypes.S i) t S = emit_mask t m).
  { apply IH; [cbn in Hl; lia|]. intros x Hx. rewrite (HS x) by lia.
    destruct e; [rewrite in_mask_cons_true|rewrite in_mask_cons_false]; [|reflexivity].
    split; [intros [->|H]; [lia|exact H]|auto]. }
  destruct e.
  - assert (nat_in i S = true) as ->.
    { apply nat_in_iff. apply (HS i); [lia|]. apply in_mask_cons_true. auto. }
    rewrite Hrec. reflexivity.
  - assert (nat_in i S = false) as ->.
    { destruct (nat_in i S) eqn:E; [|reflexivity]. apply nat_in_iff in E. apply (HS i) in E; [|lia].
      apply in_mask_cons_false, in_mask_ge in E. lia. }
    rewrite Hrec. reflexivity.
Qed.

Theorem write_literal_go t :
  write_literal t = x28 :: emit_mask t (fst (go t 0)) ++ [x29].
Proof.
  unfold write_literal. f_equal. f_equal.
  apply emit_eq; [apply go_length|].
  intros x _. rewrite (scan_go t 0 [] [] (Forall_nil _) x). cbn [length In].
  rewrite skipn_nil. cbn [In]. intuition.
Qed.

(* ---------- (2) the emitted text is balanced: Emit ---------- *)

(* byte c is written as backslash c' and read back as c *)
Definition esc_ok (c c' : byte) : Prop :=
  forall X, escape_after_backslash (c' :: X) = Some (Some c, X).

Inductive Emit : nat -> bytes -> bytes -> Prop :=
| E_nil d : Emit d [] []
| E_direct d c t b : is_direct_literal c = true -> Emit d t b -> Emit d (c :: t) (c :: b)
| E_esc d c c' t b : esc_ok c c' -> Emit d t b -> Emit d (c :: t) (x5c :: c' :: b)
| E_lf d t b : Emit d t b -> Emit d (x0a :: t) (x0a :: b)
| E_nest d t1 b1 t2 b2 :
    Emit d t1 b1 -> Emit (S d) t2 b2 ->
    Emit (S d) (x28 :: t1 ++ x29 :: t2) (x28 :: b1 ++ x29 :: b2).

Lemma Emit_mono d t b : Emit d t b -> forall d', d <= d' -> Emit d' t b.
Proof.
  induction 1 as [d|d c t b Hc H IH|d c c' t b He H IH|d t b H IH|d t1 b1 t2 b2 H1 IH1 H2 IH2];
    intros d' Hd; try (constructor; auto; fail).
  destruct d' as [|d']; [lia|]. apply E_nest; [apply IH1; lia|apply IH2; lia].
Qed.

Fixpoint EmitK (D c : nat) (t b : bytes) : Prop :=
  match c with
  | O => Emit D t b
  | S c' => exists t0 b0 t' b',
      t = t0 ++ x29 :: t' /\ b = b0 ++ x29 :: b' /\ Emit D t0 b0 /\ EmitK (S D) c' t' b'
  end.

(* a prefix step that preserves Emit at every depth can be put in front of the first segment *)
Lemma EmitK_prefix (pt pb : bytes) :
  (forall d t b, Emit d t b -> Emit d (pt ++ t) (pb ++ b)) ->
  forall D c t b, EmitK D c t b -> EmitK D c (pt ++ t) (pb ++ b).
Proof.
  intros Hp D c t b H. destruct c as [|c]; cbn [EmitK] in *; [apply Hp; exact H|].
  destruct H as [t0 [b0 [t' [b' [-> [-> [H0 Hk]]]]]]].
  exists (pt ++ t0), (pb ++ b0), t', b'. rewrite <- !app_assoc. repeat split; auto.
Qed.

Lemma EmitK_direct c D k t b :
  is_direct_literal c = true -> EmitK D k t b -> EmitK D k (c :: t) (c :: b).
Proof. intros Hc. apply (EmitK_prefix [c] [c]). intros. cbn. constructor; assumption. Qed.

Lemma EmitK_esc c c' D k t b :
  esc_ok c c' -> EmitK D k t b -> EmitK D k (c :: t) (x5c :: c' :: b).
Proof. intros Hc. apply (EmitK_prefix [c] [x5c; c']). intros. cbn. apply E_esc; assumption. Qed.

Lemma EmitK_lf D k t b : EmitK D k t b -> EmitK D k (x0a :: t) (x0a :: b).
Proof. apply (EmitK_prefix [x0a] [x0a]). intros. cbn. constructor; assumption. Qed.

Lemma EmitK_nest d c t0 b0 t b :
  Emit d t0 b0 -> EmitK (S d) c t b ->
  EmitK (S d) c (x28 :: t0 ++ x29 :: t) (x28 :: b0 ++ x29 :: b).
Proof.
  intros H0 H. destruct c as [|c]; cbn [EmitK] in *; [apply E_nest; assumption|].
  destruct H as [u0 [v0 [u' [v' [-> [-> [Hu Hk]]]]]]].
  exists (x28 :: t0 ++ x29 :: u0), (x28 :: b0 ++ x29 :: v0), u', v'.
  cbn [app]. rewrite <- !app_assoc. cbn [app]. repeat split; auto.
  apply E_nest; assumption.
Qed.

(* the concrete escapes of the writer are inverted by escape_sequence (computed on Gen/Lex.v) *)
Lemma esc_open : esc_ok x28 x28.  Proof. intro X. reflexivity. Qed.
Lemma esc_close : esc_ok x29 x29. Proof. intro X. reflexivity. Qed.
Lemma esc_backslash : esc_ok x5c x5c. Proof. intro X. reflexivity. Qed.
Lemma esc_cr : esc_ok x0d x72. Proof. intro X. reflexivity. Qed.

(* sweep: a byte that is not direct is one of the five special bytes *)
Definition special_ok (c : byte) : bool :=
  is_direct_literal c || byte_eqb c x28 || byte_eqb c x29 || byte_eqb c x5c || byte_eqb c x0d || byte_eqb c x0a.
Lemma special_sweep : byte_forallb special_ok = true.
Proof. vm_compute. reflexivity. Qed.

Lemma not_special_direct c :
  byte_eqb c x28 = false -> byte_eqb c x29 = false -> byte_eqb c x5c || byte_eqb c x0d = false ->
  byte_eqb c x0a = false -> is_direct_literal c = true.
Proof.
  intros H1 H2 H3 H4. apply orb_false_iff in H3 as [H3 H5].
  pose proof (byte_forallb_spec _ special_sweep c) as Hk. unfold special_ok in Hk.
  rewrite H1, H2, H3, H5, H4 in Hk. rewrite !orb_false_r in Hk. exact Hk.
Qed.

Lemma go_emit : forall t k, k <= MAXB ->
  EmitK (MAXB - k) (snd (go t k)) t (emit_mask t (fst (go t k))).
Proof.
  induction t as [|b t IH]; intros k Hk.
  - cbn. constructor.
  - cbn [go]. destruct (byte_eqb b x28) eqn:E28.
    + apply byte_eqb_eq in E28. subst b. destruct (MAXB <=? k) eqn:EM.
      * specialize (IH k Hk). destruct (go t k) as [m c]. cbn [fst snd emit_mask] in *.
        change (if byte_eqb x28 x0d then x72 else x28) with x28.
        apply EmitK_esc; [exact esc_open|exact IH].
      * assert (Hk' : S k <= MAXB) by lia. specialize (IH (S k) Hk').
        destruct (go t (S k)) as [m c]. cbn [fst snd] in *.
        destruct c as [|c]; cbn [pred emit_mask].
        -- change (if byte_eqb x28 x0d then x72 else x28) with x28.
           cbn [EmitK] in *. apply E_esc; [exact esc_open|]. apply (Emit_mono _ _ _ IH). lia.
        -- cbn [EmitK] in IH. destruct IH as [t0 [b0 [t' [b' [Et [Eb [H0 Hk2]]]]]]].
           rewrite Eb, Et. replace (MAXB - k) with (S (MAXB - S k)) by lia.
           apply EmitK_nest; assumption.
    + destruct (byte_eqb b x29) eqn:E29.
      * apply byte_eqb_eq in E29. subst b. destruct k as [|k'].
        -- specialize (IH 0 Hk). destruct (go t 0) as [m c]. cbn [fst snd emit_mask] in *.
           change (if byte_eqb x29 x0d then x72 else x29) with x29.
           apply EmitK_esc; [exact esc_close|exact IH].
        -- assert (Hk' : k' <= MAXB) by lia. specialize (IH k' Hk').
           destruct (go t k') as [m c]. cbn [fst snd emit_mask EmitK] in *.
           exists [], [], t, (emit_mask t m). repeat split; [constructor|].
           replace (S (MAXB - S k')) with (MAXB - k') by lia. exact IH.
      * destruct (byte_eqb b x5c || byte_eqb b x0d) eqn:E5.
        -- specialize (IH k Hk). destruct (go t k) as [m c]. cbn [fst snd emit_mask] in *.
           apply orb_true_iff in E5 as [E5|E5]; apply byte_eqb_eq in E5; subst b.
           ++ change (if byte_eqb x5c x0d then x72 else x5c) with x5c.
              apply EmitK_esc; [exact esc_backslash|exact IH].
           ++ change (if byte_eqb x0d x0d then x72 else x0d) with x72.
              apply EmitK_esc; [exact esc_cr|exact IH].
        -- specialize (IH k Hk). destruct (go t k) as [m c]. cbn [fst snd emit_mask] in *.
           destruct (byte_eqb b x0a) eqn:Ea.
           ++ apply byte_eqb_eq in Ea. subst b. apply EmitK_lf. exact IH.
           ++ apply EmitK_direct; [|exact IH]. apply not_special_direct; assumption.
Qed.

Theorem write_literal_emit t : Emit MAXB t (emit_mask t (fst (go t 0))).
Proof.
  pose proof (go_emit t 0 (Nat.le_0_l _)) as H. pose proof (go_count t 0) as Hc.
  assert (snd (go t 0) = 0) as E by lia. rewrite E in H. cbn [EmitK] in H.
  rewrite Nat.sub_0_r in H. exact H.
Qed.

(* ---------- (3) the parser inverts Emit ---------- *)

(* concrete byte-class facts the parser branches on (computed on Gen/Lex.v) *)
Lemma direct_facts :
  is_direct_literal x5c = false /\ is_direct_literal x28 = false /\ is_direct_literal x29 = false /\
  is_direct_literal x0a = false /\ is_direct_literal x0d = false.
Proof. repeat split; reflexivity. Qed.

Lemma direct_not c : is_direct_literal c = true ->
  byte_eqb c x5c = false /\ byte_eqb c x0d = false /\ byte_eqb c x0a = false /\
  byte_eqb c x28 = false /\ byte_eqb c x29 = false.
Proof.
  intro H. destruct direct_facts as [F1 [F2 [F3 [F4 F5]]]].
  repeat split; apply byte_eqb_neq; intro E; subst; congruence.
Qed.

(* remaining input never grows *)
Lemma escape_shorter t e r : escape_after_backslash t = Some (e, r) -> length r < length t.
Proof.
  unfold escape_after_backslash. destruct (oct_char t) as [[b r0]|] eqn:Eo.
  - intro H. inversion H; subst. clear H. unfold oct_char in Eo.
    destruct t as [|a t1]; [discriminate|]. destruct (is_oct_digit a); [|discriminate].
    destruct t1 as [|b1 t2]; [inversion Eo; subst; cbn; lia|].
    destruct (is_oct_digit b1); [|inversion Eo; subst; cbn; lia].
    destruct t2 as [|c1 t3]; [inversion Eo; subst; cbn; lia|].
    destruct (is_oct_digit c1); inversion Eo; subst; cbn; lia.
  - destruct (eol t) as [u r0| | | |] eqn:Ee.
    + intro H. inversion H; subst. clear H. unfold eol in Ee.
      destruct t as [|a t1]; [discriminate|].
      destruct a; try discriminate.
      * inversion Ee; subst. cbn; lia.
      * destruct t1 as [|b1 t2]; [inversion Ee; subst; cbn; lia|].
        destruct b1; inversion Ee; subst; cbn; lia.
    + destruct t as [|c t1]; [discriminate|]. destruct (assoc_byte ESCAPE_LETTERS c); intro H; inversion H; subst; cbn; lia.
    + destruct t as [|c t1]; [discriminate|]. destruct (assoc_byte ESCAPE_LETTERS c); intro H; inversion H; subst; cbn; lia.
    + destruct t as [|c t1]; [discriminate|]. destruct (assoc_byte ESCAPE_LETTERS c); intro H; inversion H; subst; cbn; lia.
    + destruct t as [|c t1]; [discriminate|]. destruct (assoc_byte ESCAPE_LETTERS c); intro H; inversion H; subst; cbn; lia.
Qed.

(* fuel monotonicity *)
Lemma inner_mono : forall f d s x,
  inner_literal f d s = Some x -> forall f', f <= f' -> inner_literal f' d s = Some x.
Proof.
  induction f as [|f IH]; intros d s x H f' Hf; [discriminate|].
  destruct f' as [|f']; [lia|]. assert (Hff : f <= f') by lia.
  cbn [inner_literal] in *. destruct s as [|c t]; [exact H|].
  destruct (is_direct_literal c).
  { destruct (inner_literal f d t) as [[o r]|] eqn:E; [|discriminate].
    rewrite (IH _ _ _ E f' Hff). exact H. }
  destruct (byte_eqb c x5c).
  { destruct (escape_after_backslash t) as [[e r]|]; [|exact H].
    destruct (inner_literal f d r) as [[o r']|] eqn:E; [|discriminate].
    rewrite (IH _ _ _ E f' Hff). exact H. }
  destruct (byte_eqb c x0d).
  { destruct t as [|c1 t'].
    - destruct (inner_literal f d []) as [[o r]|] eqn:E; [|discriminate].
      rewrite (IH _ _ _ E f' Hff). exact H.
    - destruct (byte_eqb c1 x0a).
      + destruct (inner_literal f d t') as [[o r]|] eqn:E; [|discriminate].
        rewrite (IH _ _ _ E f' Hff). exact H.
      + destruct (inner_literal f d (c1 :: t')) as [[o r]|] eqn:E; [|discriminate].
        rewrite (IH _ _ _ E f' Hff). exact H. }
  destruct (byte_eqb c x0a).
  { destruct (inner_literal f d t) as [[o r]|] eqn:E; [|discriminate].
    rewrite (IH _ _ _ E f' Hff). exact H. }
  destruct (byte_eqb c x28); [|exact H].
  destruct d as [|d]; [exact H|].
  destruct (inner_literal f d t) as [[o r]|] eqn:E; [|discriminate].
  rewrite (IH _ _ _ E f' Hff).
  destruct r as [|c2 r]; [exact H|]. destruct (byte_eqb c2 x29); [|exact H].
  destruct (inner_literal f (S d) r) as [[o' r']|] eqn:E2; [|discriminate].
  rewrite (IH _ _ _ E2 f' Hff). exact H.
Qed.

(* a closing parenthesis stops the fold *)
Lemma inner_stop_close f d X : 0 < f -> inner_literal f d (x29 :: X) = Some ([], x29 :: X).
Proof. intro Hf. destruct f as [|f]; [lia|]. reflexivity. Qed.

Lemma inner_emit : forall d t b, Emit d t b ->
  forall depth R out r f, d <= depth ->
    inner_literal f depth R = Some (out, r) ->
    exists f', inner_literal f' depth (b ++ R) = Some (t ++ out, r).
Proof.
  induction 1 as [d|d c t b Hc H IH|d c c' t b He H IH|d t b H IH|d t1 b1 t2 b2 H1 IH1 H2 IH2];
    intros depth R out r f Hd HR.
  - exists f. exact HR.
  - destruct (IH depth R out r f Hd HR) as [f' Hf']. exists (S f').
    cbn [app inner_literal]. rewrite Hc, Hf'. reflexivity.
  - destruct (IH depth R out r f Hd HR) as [f' Hf']. exists (S f').
    cbn [app inner_literal]. destruct direct_facts as [F1 _]. rewrite F1.
    change (byte_eqb x5c x5c) with true. cbn iota. rewrite (He (b ++ R)), Hf'. reflexivity.
  - destruct (IH depth R out r f Hd HR) as [f' Hf']. exists (S f').
    cbn [app inner_literal]. destruct direct_facts as [_ [_ [_ [F4 _]]]]. rewrite F4.
    change (byte_eqb x0a x5c) with false. change (byte_eqb x0a x0d) with false.
    change (byte_eqb x0a x0a) with true. cbn iota. rewrite Hf'. reflexivity.
  - destruct depth as [|dd]; [lia|].
    destruct (IH2 (S dd) R out r f Hd HR) as [f2 Hf2].
    assert (Hstop : inner_literal 1 dd (x29 :: b2 ++ R) = Some ([], x29 :: b2 ++ R)) by reflexivity.
    destruct (IH1 dd (x29 :: b2 ++ R) [] (x29 :: b2 ++ R) 1 ltac:(lia) Hstop) as [f1 Hf1].
    exists (S (Nat.max f1 f2)).
    cbn [app]. rewrite <- app_assoc. cbn [app inner_literal].
    destruct direct_facts as [_ [F2 _]]. rewrite F2.
    change (byte_eqb x28 x5c) with false. change (byte_eqb x28 x0d) with false.
    change (byte_eqb x28 x0a) with false. change (byte_eqb x28 x28) with true. cbn iota.
    rewrite (inner_mono _ _ _ _ Hf1 (Nat.max f1 f2)) by lia.
    change (byte_eqb x29 x29) with true. cbn iota.
    rewrite (inner_mono _ _ _ _ Hf2 (Nat.max f1 f2)) by lia.
    rewrite app_nil_r, <- app_assoc. reflexivity.
Qed.

(* fuel sufficiency: the fold takes at most one step per input byte *)
Lemma inner_enough : forall f d s, length s < f ->
  exists out r, inner_literal f d s = Some (out, r) /\ length r <= length s.
Proof.
  induction f as [|f IH]; intros d s Hl; [lia|]. cbn [inner_literal].
  destruct s as [|c t]; [exists [], []; split; [reflexivity|cbn; lia]|].
  cbn [length] in Hl.
  assert (Hrec : forall d' u, length u <= length t ->
            exists out r, inner_literal f d' u = Some (out, r) /\ length r <= length u)
    by (intros; apply IH; lia).
  destruct (is_direct_literal c).
  { destruct (Hrec d t (le_n _)) as [o [r [E Hr]]]. rewrite E. exists (c :: o), r. split; [reflexivity|cbn; lia]. }
  destruct (byte_eqb c x5c).
  { destruct (escape_after_backslash t) as [[e r0]|] eqn:Ee.
    - pose proof (escape_shorter _ _ _ Ee) as Hs.
      destruct (Hrec d r0 ltac:(lia)) as [o [r [E Hr]]]. rewrite E.
      eexists _, r. split; [reflexivity|cbn; lia].
    - exists [], (c :: t). split; [reflexivity|lia]. }
  destruct (byte_eqb c x0d).
  { destruct t as [|c1 t'].
    - destruct (Hrec d [] (le_n _)) as [o [r [E Hr]]]. rewrite E. eexists _, r. split; [reflexivity|cbn in *; lia].
    - destruct (byte_eqb c1 x0a).
      + destruct (Hrec d t' ltac:(cbn; lia)) as [o [r [E Hr]]]. rewrite E. eexists _, r. split; [reflexivity|cbn in *; lia].
      + destruct (Hrec d (c1 :: t') (le_n _)) as [o [r [E Hr]]]. rewrite E. eexists _, r. split; [reflexivity|cbn in *; lia]. }
  destruct (byte_eqb c x0a).
  { destruct (Hrec d t (le_n _)) as [o [r [E Hr]]]. rewrite E. eexists _, r. split; [reflexivity|cbn; lia]. }
  destruct (byte_eqb c x28); [|exists [], (c :: t); split; [reflexivity|lia]].
  destruct d as [|d]; [exists [], (c :: t); split; [reflexivity|lia]|].
  destruct (Hrec d t (le_n _)) as [o [r [E Hr]]]. rewrite E.
  destruct r as [|c2 r]; [exists [], (c :: t); split; [reflexivity|lia]|].
  destruct (byte_eqb c2 x29); [|exists [], (c :: t); split; [reflexivity|lia]].
  destruct (Hrec (S d) r ltac:(cbn in Hr; lia)) as [o' [r' [E' Hr']]]. rewrite E'.
  eexists _, r'. split; [reflexivity|cbn in *; lia].
Qed.

(* ---------- the round trip ---------- *)

Theorem literal_string_rt : forall t rest fuel,
  length (write_literal t ++ rest) <= fuel ->
  literal_string fuel (write_literal t ++ rest) = POk t rest.
Proof.
  intros t rest fuel Hf. rewrite write_literal_go in *.
  set (b := emit_mask t (fst (go t 0))) in *.
  cbn [app] in *. rewrite <- app_assoc in *. cbn [app] in *.
  unfold literal_string. change (byte_eqb x28 x28) with true. cbn iota.
  pose proof (write_literal_emit t) as HE. fold b in HE.
  assert (Hstop : inner_literal 1 MAXB (x29 :: rest) = Some ([], x29 :: rest)) by reflexivity.
  destruct (inner_emit _ _ _ HE MAXB (x29 :: rest) [] (x29 :: rest) 1 (le_n _) Hstop) as [f' Hf'].
  rewrite app_nil_r in Hf'.
  destruct (inner_enough fuel MAXB (b ++ x29 :: rest)) as [o [r [E _]]]; [cbn [length] in Hf; lia|].
  pose proof (inner_mono _ _ _ _ Hf' (Nat.max f' fuel) ltac:(lia)) as M1.
  pose proof (inner_mono _ _ _ _ E (Nat.max f' fuel) ltac:(lia)) as M2.
  rewrite M1 in M2. inversion M2; subst o r.
  fold MAXB. rewrite E. change (byte_eqb x29 x29) with true. reflexivity.
Qed.

(* no byte of a written literal string is needed from [rest]: the first byte is '(' *)
Lemma write_literal_head t : exists u, write_literal t = x28 :: u.
Proof. eexists. reflexivity. Qed.
