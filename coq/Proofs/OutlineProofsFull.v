(* OutlineProofsFull.v -- C17: the whole pipeline with zero-page parents:
   add_bookmark calls, adjust_zero_pages, build_outline, attach, get_toc.
   Main result: [reads_back_adjusted]. *)
From LV Require Import Base.Bytes Model.Obj Model.DocQ Model.PageTree Model.Outline Model.Toc Gen.QueryC
  Spec.OutlineSpec Proofs.OutlineProofs Proofs.OutlineProofsTitle Proofs.OutlineProofsRead
  Proofs.OutlineProofsOps Proofs.OutlineProofsMain Proofs.OutlineProofsAdjust Proofs.OutlineProofsForest.

Local Open Scope N_scope.

Lemma preorder_fix_titles f :
  map (fun r : row => (fst (fst r), snd (fst r))) (preorder (map fix_tree f))
  = map (fun r : row => (fst (fst r), snd (fst r))) (preorder f).
Proof.
  unfold preorder. induction f as [|t f IH]; [reflexivity|].
  cbn [map flat_map]. rewrite !map_app. f_equal; [apply rows_fix_titles | exact IH].
Qed.

Lemma titles_fix f : titles (map fix_tree f) = titles f.
Proof.
  unfold titles.
  assert (E : forall l : list row, map (fun r => snd (fst r)) l = map snd (map (fun r : row => (fst (fst r), snd (fst r))) l))
    by (intro l; rewrite map_map; reflexivity).
  rewrite !E, preorder_fix_titles. reflexivity.
Qed.

Lemma scalar_titles_fix f : scalar_titles f -> scalar_titles (map fix_tree f).
Proof.
  unfold scalar_titles, row_title. intro H.
  apply (proj1 (Forall_map (fun r : row => snd (fst r)) (Forall scalar) (preorder (map fix_tree f)))).
  change (map (fun r : row => snd (fst r)) (preorder (map fix_tree f))) with (titles (map fix_tree f)).
  rewrite titles_fix. unfold titles.
  apply (proj2 (Forall_map (fun r : row => snd (fst r)) (Forall scalar) (preorder f))). exact H.
Qed.

Theorem reads_back_adjusted d ops cid rid cat fuel fuel2 :
  let b := add_all (fresh_bdoc d) ops in
  let f := forest_of_ops (map sop_of ops) in
  let g := map fix_tree f in
  let m0 := d_max_id d in
  f <> [] ->
  max_id_bounds d ->
  m0 + 1 + 2 * N.of_nat (fsize f) < U32_LIMIT ->
  root_id d = Some cid ->
  get_object_mut_id (d_objects d) cid = Some (rid, ODict cat) ->
  no_name_trees cat ->
  distinct_titles f -> scalar_titles f ->
  N.of_nat (fheight f) <= OUTLINE_DEPTH_LIMIT + 1 ->
  (fheight f <= fuel)%nat ->
  (fsize f <= fuel2)%nat ->
  exists b1 b',
    adjust_zero_pages (default_fuel b) b = OOk b1 /\
    Forall (trepr (bookmark_table b1)) g /\
    build_outline fuel b1 = OOk (Some (m0 + 1, 0), b') /\
    let d2 := attach (base b') cid (m0 + 1, 0) in
    (targets_are_pages d2 g -> get_toc fuel2 d2 = TOk (expected_toc d2 g) 0).
Proof.
  intros b f g m0 Hne Hmax Hlim Hroot Hcat Hnn Hdist Hscal Hdeep Hfuel Hfuel2.
  destruct (add_all_repr d ops) as [Hbase [Hroots [Htr Hdf]]]. fold b f in Hbase, Hroots, Htr, Hdf.
  pose proof (forest_ids_nodup (map sop_of ops)) as Hnd. fold f in Hnd.
  pose proof (forest_height_le (map sop_of ops)) as Hh. fold f in Hh. rewrite map_length in Hh.
  destruct (adjust_zero_pages_ok b f (default_fuel b) Hroots Htr Hnd ltac:(rewrite Hdf; lia))
    as [b1 [Hadj [Hb1 [Hr1 [_ [Htr1 _]]]]]].
  fold g in Htr1.
  assert (Hne_g : g <> []) by (unfold g; destruct f; [congruence | discriminate]).
  pose proof (reads_back_forest b1 g cid rid cat fuel fuel2) as H. cbv zeta in H.
  rewrite Hb1, Hbase in H. fold m0 in H. unfold g in H. rewrite fsize_fix, !fheight_fix in H. fold g in H.
  destruct H as [b' [Hbuild Htoc]]; try assumption.
  - rewrite Hr1, Hroots. unfold g. rewrite map_iid_fix_tree. reflexivity.
  - unfold distinct_titles, g. rewrite titles_fix. exact Hdist.
  - apply scalar_titles_fix. exact Hscal.
  - exists b1, b'. split; [exact Hadj|]. split; [exact Htr1|]. split; [exact Hbuild | exact Htoc].
Qed.

(* ---------- the same pipeline over the complete model of get_toc (Model/TocNamed.v), ANY catalog ---------- *)
From LV Require Model.TocNamed Proofs.OutlineProofsNamed.

Theorem reads_back_adjusted_nm d ops cid rid cat fuel fuel2 :
  let b := add_all (fresh_bdoc d) ops in
  let f := forest_of_ops (map sop_of ops) in
  let g := map fix_tree f in
  let m0 := d_max_id d in
  f <> [] ->
  max_id_bounds d ->
  m0 + 1 + 2 * N.of_nat (fsize f) < U32_LIMIT ->
  root_id d = Some cid ->
  get_object_mut_id (d_objects d) cid = Some (rid, ODict cat) ->
  distinct_titles f -> scalar_titles f ->
  N.of_nat (fheight f) <= OUTLINE_DEPTH_LIMIT + 1 ->
  (fheight f <= fuel)%nat ->
  (fsize f <= fuel2)%nat ->
  exists b1 b',
    adjust_zero_pages (default_fuel b) b = OOk b1 /\
    Forall (trepr (bookmark_table b1)) g /\
    build_outline fuel b1 = OOk (Some (m0 + 1, 0), b') /\
    let d2 := attach (base b') cid (m0 + 1, 0) in
    (targets_are_pages d2 g -> TocNamed.get_toc fuel2 d2 = OutlineProofsNamed.toc_or_err d2 g).
Proof.
  intros b f g m0 Hne Hmax Hlim Hroot Hcat Hdist Hscal Hdeep Hfuel Hfuel2.
  destruct (add_all_repr d ops) as [Hbase [Hroots [Htr Hdf]]]. fold b f in Hbase, Hroots, Htr, Hdf.
  pose proof (forest_ids_nodup (map sop_of ops)) as Hnd. fold f in Hnd.
  pose proof (forest_height_le (map sop_of ops)) as Hh. fold f in Hh. rewrite map_length in Hh.
  destruct (adjust_zero_pages_ok b f (default_fuel b) Hroots Htr Hnd ltac:(rewrite Hdf; lia))
    as [b1 [Hadj [Hb1 [Hr1 [_ [Htr1 _]]]]]].
  fold g in Htr1.
  assert (Hne_g : g <> []) by (unfold g; destruct f; [congruence | discriminate]).
  pose proof (OutlineProofsNamed.reads_back_forest_nm b1 g cid rid cat fuel fuel2) as H. cbv zeta in H.
  rewrite Hb1, Hbase in H. fold m0 in H. unfold g in H. rewrite fsize_fix, !fheight_fix in H. fold g in H.
  destruct H as [b' [Hbuild Htoc]]; try assumption.
  - rewrite Hr1, Hroots. unfold g. rewrite map_iid_fix_tree. reflexivity.
  - unfold distinct_titles, g. rewrite titles_fix. exact Hdist.
  - apply scalar_titles_fix. exact Hscal.
  - exists b1, b'. split; [exact Hadj|]. split; [exact Htr1|]. split; [exact Hbuild | exact Htoc].
Qed.
