(* EditProofsEx.v -- C11: decidable checkers for the hypotheses, and the concrete non-vacuity examples. *)
From LV Require Import Base.Bytes Model.Obj Model.DocQ Model.PageTree Model.Traverse Model.Edit
  Spec.RenumberSpec Proofs.RenumberProofsMap Proofs.EditProofs Proofs.EditProofsBm Proofs.EditProofsOutline.
From LV Require Model.Outline.

Definition alloc_okb (d : doc) : bool :=
  forallb (fun io : oid * obj => (fst (fst io) <=? d_max_id d)%N) (d_objects d).

Lemma alloc_okb_ok d : alloc_okb d = true -> alloc_ok d.
Proof.
  unfold alloc_okb, alloc_ok, has_obj. rewrite forallb_forall. intros H id Hin.
  apply in_map_iff in Hin. destruct Hin as [[i o] [<- Hio]]. apply H in Hio. apply N.leb_le in Hio. exact Hio.
Qed.

Fixpoint sortedb (l : list oid) : bool :=
  match l with
  | [] => true
  | a :: l' => forallb (oid_ltb a) l' && sortedb l'
  end.

Lemma sortedb_ok l : sortedb l = true -> StronglySorted oid_lt l.
Proof.
  induction l as [|a l IH]; cbn [sortedb]; intro H; constructor.
  - apply IH. apply andb_true_iff in H. tauto.
  - apply andb_true_iff in H. destruct H as [H _]. rewrite forallb_forall in H. apply Forall_forall. exact H.
Qed.

Lemma doc_wfb_ok d : sortedb (map fst (d_objects d)) = true -> doc_wf d.
Proof. apply sortedb_ok. Qed.

(* oracles used by the examples: nothing is ever compressed *)
Definition O0 : oracles := {| o_inflate := fun b => b; o_lzw := fun _ b => b; o_deflate := fun b => b |}.

Definition K_Catalog := Eval cbv in bs "Catalog".
Definition K_Font := Eval cbv in bs "Font".
Definition K_F1 := Eval cbv in bs "F1".

(* catalog 1 -> Pages 2 (inheritable Resources with one font) -> pages 3 and 4; 3 has content stream 5; 7 is unreachable *)
Definition ex_doc : doc :=
  {| d_version := bs "1.5"; d_binary_mark := [];
     d_trailer := [(K_Root, ORef 1 0)];
     d_objects :=
       [((1, 0), ODict [(K_Type, OName K_Catalog); (K_Pages, ORef 2 0)]);
        ((2, 0), ODict [(K_Type, OName K_Pages); (K_Kids, OArr [ORef 3 0; ORef 4 0]); (K_Count, OInt 2);
                        (K_Resources, ODict [(K_Font, ODict [(K_F1, ORef 6 0)])])]);
        ((3, 0), ODict [(K_Type, OName K_Page); (K_Parent, ORef 2 0); (K_Contents, ORef 5 0)]);
        ((4, 0), ODict [(K_Type, OName K_Page); (K_Parent, ORef 2 0); (K_Contents, ORef 5 0)]);
        ((5, 0), OStream [(K_Length, OInt 3)] (bs "q Q"));
        ((6, 0), ODict [(K_Type, OName K_Font)]);
        ((7, 0), OArr [ORef 3 0; OInt 1; ORef 3 0])]%N;
     d_max_id := 7 |}.

Definition ex_ops : list op :=
  [NewObjectId; AddObject (OInt 5); SetObject (8, 0)%N ONull; DeleteObject (3, 0)%N; PruneObjects; NewObjectId].

Lemma ex_hyps : doc_wf ex_doc /\ alloc_ok ex_doc /\ prog_dom O0 ex_doc ex_ops /\ no_renumber ex_ops.
Proof.
  split; [apply doc_wfb_ok; vm_compute; reflexivity|].
  split; [apply alloc_okb_ok; vm_compute; reflexivity|].
  split.
  - cbn [prog_dom ex_ops op_dom]. repeat split. vm_compute. discriminate.
  - cbn. tauto.
Qed.

Lemma ex_run :
  handed_out O0 ex_doc ex_ops = [(8, 0); (9, 0); (10, 0)]%N /\
  map fst (d_objects (run_ops O0 ex_doc ex_ops)) = [(1, 0); (2, 0); (4, 0); (5, 0); (6, 0)]%N /\
  d_max_id (run_ops O0 ex_doc ex_ops) = 10%N.
Proof. vm_compute. auto. Qed.

(* ---------- the whole state: a nested bookmark forest (1 > 2 > 3, and 4), build_outline, then allocations and a save ---------- *)
Definition ex_col : bytes * bytes * bytes := (bs "0", bs "0.5", bs "1").
Definition ex_sops : list sop :=
  [SAddBookmark [65] 0 ex_col (3, 0) None; SAddBookmark [66] 1 ex_col (4, 0) (Some 1); SDoc NewObjectId;
   SAddBookmark [67] 2 ex_col (4, 0) (Some 2); SAddBookmark [68] 0 ex_col (3, 0) None;
   SBuildOutline; SDoc (AddObject (OInt 5)); SDoc (Save true); SDoc NewObjectId]%N.

Lemma ex_s_hyps :
  doc_wf (Outline.base (Outline.fresh_bdoc ex_doc)) /\ alloc_ok (Outline.base (Outline.fresh_bdoc ex_doc)) /\
  sprog_dom O0 (Outline.fresh_bdoc ex_doc) ex_sops /\ s_no_renumber ex_sops.
Proof.
  split; [apply doc_wfb_ok; vm_compute; reflexivity|].
  split; [apply alloc_okb_ok; vm_compute; reflexivity|].
  split.
  - cbn [sprog_dom ex_sops sop_dom op_dom]. repeat split.
  - cbn. tauto.
Qed.

Lemma ex_s_run :
  s_handed_out O0 (Outline.fresh_bdoc ex_doc) ex_sops =
    [(8, 0); (9, 0); (10, 0); (11, 0); (12, 0); (13, 0); (14, 0); (15, 0); (16, 0); (17, 0); (18, 0); (20, 0)]%N /\
  map fst (d_objects (Outline.base (srun_ops O0 (Outline.fresh_bdoc ex_doc) ex_sops))) =
    [(1, 0); (2, 0); (3, 0); (4, 0); (5, 0); (6, 0); (7, 0); (9, 0); (10, 0); (11, 0); (12, 0); (13, 0); (14, 0); (15, 0);
     (16, 0); (17, 0); (18, 0)]%N /\
  d_max_id (Outline.base (srun_ops O0 (Outline.fresh_bdoc ex_doc) ex_sops)) = 20%N /\
  forest_of_program ex_sops <> [].
Proof. vm_compute. repeat split; try reflexivity. discriminate. Qed.
