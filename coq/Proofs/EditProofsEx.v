(* EditProofsEx.v -- C11: decidable checkers for the hypotheses, and the concrete non-vacuity examples. *)
From LV Require Import Base.Bytes Model.Obj Model.DocQ Model.PageTree Model.Traverse Model.Edit
  Spec.RenumberSpec Proofs.RenumberProofsMap Proofs.EditProofs.

Definition alloc_okb (d : doc) : bool :=
  forallb (fun io : oid * obj => (fst (fst io) <=? d_max_id d)%N) (d_objects d).

Lemma alloc_okb_ok d : alloc_okb d = true -> alloc_ok d.
Proof.
  unfold alloc_okb, alloc_ok, has_obj. rewrite forallb_forall. intros H id Hin.
  apply in_map_iff in Hin. destruct Hin as [[i o] [<- Hio]]. apply H in Hio. apply N.leb_le in Hio. exact Hio.
Qed.

Fixpoint sortedb (l : list oid) : bool :=
  match l with
  | [] => true
  | a :: l' => forallb (oid_ltb a) l' && sortedb l'
  end.

Lemma sortedb_ok l : sortedb l = true -> StronglySorted oid_lt l.
Proof.
  induction l as [|a l IH]; cbn [sortedb]; intro H; constructor.
  - apply IH. apply andb_true_iff in H. tauto.
  - apply andb_true_iff in H. destruct H as [H _]. rewrite forallb_forall in H. apply Forall_forall. exact H.
Qed.

Lemma doc_wfb_ok d : sortedb (map fst (d_objects d)) = true -> doc_wf d.
Proof. apply sortedb_ok. Qed.

(* oracles used by the examples: nothing is ever compressed *)
Definition O0 : oracles := {| o_inflate := fun b => b; o_lzw := fun _ b => b; o_deflate := fun b => b |}.

Definition K_Catalog := Eval cbv in bs "Catalog".
Definition K_Font := Eval cbv in bs "Font".
Definition K_F1 := Eval cbv in bs "F1".

(* catalog 1 -> Pages 2 (inheritable Resources with one font) -> pages 3 and 4; 3 has content stream 5; 7 is unreachable *)
Definition ex_doc : doc :=
  {| d_version := bs "1.5"; d_binary_mark := [];
     d_trailer := [(K_Root, ORef 1 0)];
     d_objects :=
       [((1, 0), ODict [(K_Type, OName K_Catalog); (K_Pages, ORef 2 0)]);
        ((2, 0), ODict [(K_Type, OName K_Pages); (K_Kids, OArr [ORef 3 0; ORef 4 0]); (K_Count, OInt 2);
                        (K_Resources, ODict [(K_Font, ODict [(K_F1, ORef 6 0)])])]);
        ((3, 0), ODict [(K_Type, OName K_Page); (K_Parent, ORef 2 0); (K_Contents, ORef 5 0)]);
        ((4, 0), ODict [(K_Type, OName K_Page); (K_Parent, ORef 2 0); (K_Contents, ORef 5 0)]);
        ((5, 0), OStream [(K_Length, OInt 3)] (bs "q Q"));
        ((6, 0), ODict [(K_Type, OName K_Font)]);
        ((7, 0), OArr [ORef 3 0; OInt 1; ORef 3 0])]%N;
     d_max_id := 7 |}.

Definition ex_ops : list op :=
  [NewObjectId; AddObject (OInt 5); SetObject (8, 0)%N ONull; DeleteObject (3, 0)%N; PruneObjects; NewObjectId].

Lemma ex_hyps : doc_wf ex_doc /\ alloc_ok ex_doc /\ prog_dom O0 ex_doc ex_ops /\ no_renumber ex_ops.
Proof.
  split; [apply doc_wfb_ok; vm_compute; reflexivity|].
  split; [apply alloc_okb_ok; vm_compute; reflexivity|].
  split.
  - cbn [prog_dom ex_ops op_dom]. repeat split. vm_compute. discriminate.
  - cbn. tauto.
Qed.

Lemma ex_run :
  handed_out O0 ex_doc ex_ops = [(8, 0); (9, 0); (10, 0)]%N /\
  map fst (d_objects (run_ops O0 ex_doc ex_ops)) = [(1, 0); (2, 0); (4, 0); (5, 0); (6, 0)]%N /\
  d_max_id (run_ops O0 ex_doc ex_ops) = 10%N.
Proof. vm_compute. auto. Qed.
