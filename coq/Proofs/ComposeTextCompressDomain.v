(* ComposeTextCompressDomain.v -- Document::compress keeps a document inside the domain of the save + load composition:
   [savable], [known_deep = false], [unreferenced] and [content_normal] of the compressed document follow from those of the
   document (Stream::compress adds the entries /Filter /FlateDecode and /Length n, removes /DecodeParms, touches nothing
   else; object numbers, the trailer and every non-stream object are unchanged).  Only [small_file] -- the size of the file
   that is written -- remains a hypothesis about the compressed document.  With it the compress + save + load theorems of
   ComposeTextCompress.v are restated with every domain hypothesis on the document the user holds. *)
From LV Require Import Base.Bytes Base.Sx Model.Obj Model.DocQ Model.Writer Model.Parser Model.Save
  Model.Xref Model.Loader Model.Utf Gen.Lex Gen.Consts Gen.Filters Model.StreamFilt
  Spec.StreamSpec Spec.StreamCodecSpec Proofs.FilterProofsDict Proofs.FilterProofsStream Proofs.FilterProofsCodec
  Proofs.ObjectRtProofs Proofs.ContentProofs Proofs.SaveProofs Spec.SaveSpec Proofs.OutlineProofs Proofs.OutlineProofsMain
  Proofs.LoadProofsFull Proofs.ComposeReload.
From LV Require Model.Query.
From LV Require Import Gen.Tables Model.OneByte Model.TextExtract
  Spec.ShownText Spec.ShownBlocks Proofs.TextProofsTables Proofs.TextProofsExtract Proofs.TextProofsBlocks
  Proofs.ComposeText Proofs.ComposeTextDecode Proofs.ComposeTextCompress.

Local Open Scope N_scope.

(* ---------- a property of all values of a dictionary, under dict_set / dict_swap_remove ---------- *)
Section Vals.
  Variable P : obj -> Prop.
  Definition all_vals (d : dict) : Prop := Forall (fun kv : bytes * obj => P (snd kv)) d.

  Lemma in_dict_set d k v kv : In kv (dict_set d k v) -> In kv d \/ snd kv = v.
  Proof.
    induction d as [|[k' v'] d IH]; cbn [dict_set].
    - intros [<-|[]]. right. reflexivity.
    - destruct (bytes_eqb k' k); cbn [In].
      + intros [<-|H]; [right; reflexivity | left; right; exact H].
      + intros [<-|H]; [left; left; reflexivity|]. destruct (IH H) as [H1|H1]; [left; right; exact H1 | right; exact H1].
  Qed.

  Lemma all_vals_set d k v : all_vals d -> P v -> all_vals (dict_set d k v).
  Proof.
    intros H Hv. apply Forall_forall. intros kv Hin. destruct (in_dict_set d k v kv Hin) as [H1| ->]; [|exact Hv].
    unfold all_vals in H. rewrite Forall_forall in H. apply (H kv H1).
  Qed.

  Lemma all_vals_swap_remove d k : dict_wf d -> all_vals d -> all_vals (dict_swap_remove d k).
  Proof.
    intros W H. apply Forall_forall. intros [k' v'] Hin. apply (swap_remove_in d k k' v' W) in Hin as [Hin _].
    unfold all_vals in H. rewrite Forall_forall in H. apply (H _ Hin).
  Qed.
End Vals.

Section Domain.
  Variable deflate : bytes -> bytes.
  Notation mk := (fun sd c => {| s_dict := sd; s_content := c |}).
  Notation cf sd c := (compressed_form deflate {| s_dict := sd; s_content := c |}).

  Lemma cf_dict sd c :
    s_dict (cf sd c) = dict_set (dict_swap_remove (dict_set sd K_Filter (OName COMPRESS_FILTER)) K_DecodeParms_) K_Length (len_obj (deflate c))
    /\ s_content (cf sd c) = deflate c.
  Proof. split; reflexivity. Qed.

  Lemma cf_vals (P : obj -> Prop) sd c :
    dict_wf sd -> all_vals P sd -> P (OName COMPRESS_FILTER) -> P (len_obj (deflate c)) -> all_vals P (s_dict (cf sd c)).
  Proof.
    intros W H H1 H2. destruct (cf_dict sd c) as [-> _].
    apply all_vals_set; [|exact H2]. apply all_vals_swap_remove; [apply FilterProofsDict.dict_set_wf; exact W|].
    apply all_vals_set; assumption.
  Qed.

  Lemma cf_wf sd c : dict_wf sd -> dict_wf (s_dict (cf sd c)).
  Proof.
    intro W. destruct (cf_dict sd c) as [-> _]. apply FilterProofsDict.dict_set_wf. apply swap_remove_wf.
    apply FilterProofsDict.dict_set_wf. exact W.
  Qed.

  Lemma cf_get sd c k : dict_wf sd -> k <> P_Filter -> k <> P_DecodeParms -> k <> P_Length ->
    dict_get (s_dict (cf sd c)) k = dict_get sd k.
  Proof.
    intros W H1 H2 H3. destruct (cf_dict sd c) as [-> _].
    change K_Length with P_Length. change K_DecodeParms_ with P_DecodeParms. change K_Filter with P_Filter.
    rewrite FilterProofsDict.dict_get_set_other by exact H3.
    rewrite FilterProofsDict.dict_get_swap_remove_other by (apply FilterProofsDict.dict_set_wf; exact W) || exact H2.
    apply FilterProofsDict.dict_get_set_other. exact H1.
  Qed.

  Lemma cf_length sd c : dict_get (s_dict (cf sd c)) K_Length = Some (len_obj (deflate c)).
  Proof. destruct (cf_dict sd c) as [-> _]. apply FilterProofsDict.dict_get_set_same. Qed.

  (* ---------- one object ---------- *)
  Lemma compress_obj_cases nocomp id o :
    compress_obj deflate nocomp id o = o \/
    exists sd c, o = OStream sd c /\ (length (deflate c) + 19 < length c)%nat /\
                 compress_obj deflate nocomp id o = OStream (s_dict (cf sd c)) (s_content (cf sd c)).
  Proof.
    destruct o; try (left; reflexivity). cbn [compress_obj]. destruct (existsb (oid_eqb id) nocomp); [left; reflexivity|].
    destruct (compress_cases deflate {| s_dict := d; s_content := content |}) as [E | (_ & H & E)]; rewrite E.
    - left. reflexivity.
    - right. exists d, content. cbn [s_content] in H. split; [reflexivity|]. split; [exact H | reflexivity].
  Qed.

  Lemma top_wf_stream sd c : top_wf (OStream sd c) ->
    dict_wf sd /\ all_vals obj_wf sd /\ in_i64 (Z.of_nat (length c)) = true.
  Proof.
    intros [Hw Hl]. inversion Hw as [| | | | | | |d0 ND HF|]; subst. split; [exact ND|]. split; [exact HF|].
    apply (dict_get_In sd K_Length _ ND) in Hl. unfold all_vals in HF. rewrite Forall_forall in HF.
    specialize (HF _ Hl). cbn [snd] in HF. inversion HF; assumption.
  Qed.

  Lemma in_i64_smaller (a b : nat) : (a < b)%nat -> in_i64 (Z.of_nat b) = true -> in_i64 (Z.of_nat a) = true.
  Proof.
    unfold in_i64, i64_min, i64_max. intros H Hb. apply andb_true_iff in Hb as [_ H2]. apply Z.leb_le in H2.
    apply andb_true_iff. split; apply Z.leb_le; lia.
  Qed.

  Lemma compress_obj_top_wf nocomp id o : top_wf o -> top_wf (compress_obj deflate nocomp id o).
  Proof.
    intro T. destruct (compress_obj_cases nocomp id o) as [-> | (sd & c & -> & Hlt & ->)]; [exact T|].
    destruct (top_wf_stream sd c T) as (W & HF & Hi). cbn [top_wf]. split.
    - constructor; [apply (cf_wf sd c W)|]. apply (cf_vals obj_wf sd c W HF); [constructor|].
      constructor. destruct (cf_dict sd c) as [_ E]. apply (in_i64_smaller _ (length c)); [lia | exact Hi].
    - destruct (cf_dict sd c) as [_ ->]. apply cf_length.
  Qed.

  Lemma key_Type_ne : K_Type <> P_Filter /\ K_Type <> P_DecodeParms /\ K_Type <> P_Length /\
                      K_Linearized <> P_Filter /\ K_Linearized <> P_DecodeParms /\ K_Linearized <> P_Length.
  Proof. repeat split; intro H; cbv in H; discriminate H. Qed.

  Lemma compress_obj_skipped nocomp id o : top_wf o -> skipped (compress_obj deflate nocomp id o) = skipped o.
  Proof.
    intro T. destruct (compress_obj_cases nocomp id o) as [-> | (sd & c & -> & Hlt & ->)]; [reflexivity|].
    destruct (top_wf_stream sd c T) as (W & _ & _). unfold skipped, type_name, get_type, dict_has.
    destruct key_Type_ne as (A1 & A2 & A3 & B1 & B2 & B3).
    rewrite !(cf_get sd c _ W) by assumption. reflexivity.
  Qed.

  Lemma nest_dict_ge d n : Forall (fun kv : bytes * obj => (nest (snd kv) <= n)%nat) d -> (nest_dict d <= n)%nat.
  Proof. induction 1 as [|kv d H _ IH]; cbn [nest_dict fold_right]; [lia|]. fold (nest_dict d). lia. Qed.

  Lemma compress_obj_nest nocomp id o : top_wf o -> (nest (compress_obj deflate nocomp id o) <= nest o)%nat.
  Proof.
    intro T. destruct (compress_obj_cases nocomp id o) as [-> | (sd & c & -> & Hlt & ->)]; [apply le_n|].
    destruct (top_wf_stream sd c T) as (W & _ & _). cbn [nest]. fold (nest_dict sd). fold (nest_dict (s_dict (cf sd c))).
    apply le_n_S. apply nest_dict_ge.
    apply (cf_vals (fun o => (nest o <= nest_dict sd)%nat) sd c W); [apply nest_dict_le; apply le_n | cbn [nest]; lia | cbn [nest len_obj]; lia].
  Qed.

  Lemma compress_obj_refs okid nocomp id o : top_wf o -> refs_ok okid o = true -> refs_ok okid (compress_obj deflate nocomp id o) = true.
  Proof.
    intros T R. destruct (compress_obj_cases nocomp id o) as [-> | (sd & c & -> & Hlt & ->)]; [exact R|].
    destruct (top_wf_stream sd c T) as (W & _ & _). cbn [refs_ok] in *. apply forallb_forall.
    assert (H : all_vals (fun o => refs_ok okid o = true) (s_dict (cf sd c))).
    { apply (cf_vals _ sd c W); [|reflexivity|reflexivity]. apply Forall_forall. rewrite forallb_forall in R. exact R. }
    unfold all_vals in H. rewrite Forall_forall in H. exact H.
  Qed.

  Lemma norm_dict_fixed d : norm_dict d = d <-> all_vals (fun o => norm_obj o = o) d.
  Proof.
    unfold norm_dict, all_vals. induction d as [|[k v] d IH]; cbn [map fst snd].
    - split; [constructor | reflexivity].
    - split.
      + intro H. injection H as H1 H2. constructor; [exact H1 | apply IH; exact H2].
      + intro H. inversion H as [|? ? H1 H2]; subst. cbn [snd] in H1. rewrite H1. f_equal. apply IH. exact H2.
  Qed.

  Lemma compress_rel_normal sd c sd' c' : dict_wf sd -> compress_rel deflate sd c sd' c' -> norm_dict sd = sd -> norm_dict sd' = sd'.
  Proof.
    intros W [[-> _] | E] H; [exact H|]. apply (f_equal s_dict) in E. cbn [s_dict] in E. rewrite E.
    apply norm_dict_fixed. apply (cf_vals _ sd c W); [apply norm_dict_fixed; exact H | reflexivity | reflexivity].
  Qed.

  (* ---------- the document ---------- *)
  Lemma doc_compress_map nocomp m :
    doc_compress deflate nocomp m = map (fun io => (fst io, compress_obj deflate nocomp (fst io) (snd io))) m.
  Proof.
    unfold doc_compress. apply map_ext. intros [id o]. cbn [fst snd]. unfold compress_obj.
    destruct o; try reflexivity. destruct (existsb (oid_eqb id) nocomp); reflexivity.
  Qed.

  Lemma fold_max_map (f : oid * obj -> oid * obj) : (forall io, fst (f io) = fst io) ->
    forall m a, fold_left (fun a io => N.max a (fst (fst io))) (map f m) a = fold_left (fun a io => N.max a (fst (fst io))) m a.
  Proof. intros H m. induction m as [|io m IH]; intro a; [reflexivity|]. cbn [map fold_left]. rewrite H. apply IH. Qed.

  Lemma last_number_compress nocomp m : last_number (doc_compress deflate nocomp m) = last_number m.
  Proof. rewrite doc_compress_map. apply fold_max_map. reflexivity. Qed.

  Theorem savable_compress nocomp d : savable d -> savable (compress_doc deflate nocomp d).
  Proof.
    intros [S1 S2 S3 S4 S5 S6 S7 S8 S9]. constructor; cbn [compress_doc d_version d_binary_mark d_trailer d_objects d_max_id]; try assumption.
    - rewrite last_number_compress. exact S1.
    - rewrite doc_compress_map. unfold obj_numbers in *. rewrite map_map. exact S5.
    - rewrite doc_compress_map. apply Forall_map. eapply Forall_impl; [|exact S6]. intros [id o] (A & B & C). cbn [fst snd] in *.
      split; [exact A|]. split; [apply compress_obj_top_wf; exact B|]. rewrite compress_obj_skipped by exact B. exact C.
  Qed.

  Theorem known_deep_compress nocomp d : savable d -> known_deep d = false -> known_deep (compress_doc deflate nocomp d) = false.
  Proof.
    intros S K. unfold known_deep in *. cbn [compress_doc d_objects d_trailer]. apply orb_false_iff in K as [K1 K2].
    apply orb_false_iff. split; [|exact K2].
    destruct (existsb (fun io : oid * obj => (MAX_DEPTH <? nest (snd io))%nat) (doc_compress deflate nocomp (d_objects d))) eqn:E; [|reflexivity].
    apply existsb_exists in E as (io' & Hin & Hlt). rewrite doc_compress_map in Hin. apply in_map_iff in Hin as ([id o] & <- & Hin).
    cbn [fst snd] in Hlt. pose proof (sd_objects d S) as Ho. rewrite Forall_forall in Ho. destruct (Ho _ Hin) as (_ & T & _). cbn [snd] in T.
    pose proof (compress_obj_nest nocomp id o T) as Hle. apply Nat.ltb_lt in Hlt.
    assert (existsb (fun io : oid * obj => (MAX_DEPTH <? nest (snd io))%nat) (d_objects d) = true).
    { apply existsb_exists. exists (id, o). split; [exact Hin|]. cbn [snd]. apply Nat.ltb_lt. lia. }
    congruence.
  Qed.

  Lemma xref_id_compress nocomp d : xref_id (compress_doc deflate nocomp d) = xref_id d.
  Proof.
    unfold xref_id, written, raise_max_id, with_objects, with_trailer, last_object_number.
    cbn [compress_doc d_max_id d_objects]. change (fold_left _ ?m 0) with (last_number m). rewrite last_number_compress. reflexivity.
  Qed.

  Theorem unreferenced_compress nocomp xt d : savable d -> unreferenced xt d -> unreferenced xt (compress_doc deflate nocomp d).
  Proof.
    intros S U id o' L. cbn [compress_doc d_objects] in L. rewrite lookup_doc_compress in L.
    destruct (lookup (d_objects d) id) as [o|] eqn:E; [|discriminate]. cbn [option_map] in L. inversion L; subst o'.
    assert (EO : okid_of xt (compress_doc deflate nocomp d) = okid_of xt d).
    { destruct xt; [reflexivity|]. cbn [okid_of]. rewrite xref_id_compress. reflexivity. }
    rewrite EO. apply compress_obj_refs; [|apply (U id o E)].
    apply lookup_In' in E. pose proof (sd_objects d S) as Ho. rewrite Forall_forall in Ho. destruct (Ho _ E) as (_ & T & _). exact T.
  Qed.
End Domain.

Section DomainPage.
  Variable inflate : bytes -> bytes.
  Variable lzw : bool -> bytes -> bytes.
  Variable deflate : bytes -> bytes.
  Hypothesis inflate_ok : implements_inflate inflate.
  Notation decomp := (stream_decomp inflate lzw).

  (* with [savable], what is asked of the compressor alone *)
  Definition zlib_compressor (m : objmap) : Prop :=
    forall id sd c, lookup m id = Some (OStream sd c) -> valid_zlib_output deflate c.

  Lemma compressible_savable d : savable d -> zlib_compressor (d_objects d) -> compressible deflate (d_objects d).
  Proof.
    intros S Z id sd c L. split; [|apply (Z id sd c L)]. apply lookup_In' in L.
    pose proof (sd_objects d S) as Ho. rewrite Forall_forall in Ho. destruct (Ho _ L) as (_ & T & _). cbn [snd] in T.
    apply (top_wf_stream sd c T).
  Qed.

  Lemma get_object_top_wf d id o : savable d -> get_object (d_objects d) id = Some o -> top_wf o.
  Proof.
    intros S G. unfold get_object in G. destruct (lookup (d_objects d) id) as [o0|] eqn:L; [|discriminate].
    assert (HT : forall id1 o1, lookup (d_objects d) id1 = Some o1 -> top_wf o1).
    { intros id1 o1 L1. apply lookup_In' in L1. pose proof (sd_objects d S) as Ho. rewrite Forall_forall in Ho.
      destruct (Ho _ L1) as (_ & T & _). exact T. }
    unfold dereference in G. revert G. generalize (@None oid). generalize (HT id o0 L). generalize (N.to_nat DEREF_LIMIT). clear L.
    intro fuel. revert o0. induction fuel as [|f IH]; intros o0 T0 last G.
    - destruct o0; cbn [deref_aux option_map] in G; try (inversion G; subst; exact T0).
      destruct (lookup (d_objects d) (id0, gen)); discriminate.
    - destruct o0; cbn [deref_aux option_map] in G; try (inversion G; subst; exact T0).
      destruct (lookup (d_objects d) (id0, gen)) as [o1|] eqn:L1; [|discriminate]. apply (IH o1 (HT _ _ L1) _ G).
  Qed.

  Theorem content_normal_compress nocomp d fuel pid :
    savable d -> zlib_compressor (d_objects d) ->
    content_normal fuel (d_objects d) pid -> content_normal fuel (d_objects (compress_doc deflate nocomp d)) pid.
  Proof.
    intros S Z Hn ids Hids id sd' c' Hin G. cbn [compress_doc d_objects] in *.
    pose proof (compressible_savable d S Z) as HC.
    pose proof (compress_obj_same inflate lzw deflate inflate_ok nocomp (d_objects d) HC) as Htr.
    pose proof (lookup_doc_compress deflate nocomp (d_objects d)) as Hsim.
    rewrite (get_page_contents_csim decomp (compress_rel deflate) (compress_obj deflate nocomp) (d_objects d) _ Htr Hsim) in Hids.
    destruct (get_object_stream_csim decomp (compress_rel deflate) (compress_obj deflate nocomp) (d_objects d) _ Htr Hsim id sd' c' G)
      as (sd & c & G0 & HQ).
    apply (compress_rel_normal deflate sd c sd' c'); [|exact HQ|apply (Hn ids Hids id sd c Hin G0)].
    apply (top_wf_stream sd c (get_object_top_wf d id _ S G0)).
  Qed.

  (* ---------- the compositions, every domain hypothesis but the file size on the document in memory ---------- *)
  Theorem extract_written_after_compress_save_load_dom nocomp xt d fuel pid font t fname size ps :
    savable d -> known_deep d = false -> unreferenced xt d -> content_normal fuel (d_objects d) pid ->
    small_file xt (compress_doc deflate nocomp d) ->
    zlib_compressor (d_objects d) ->
    page_written decomp fuel (d_objects d) pid fname font (show_ops fname size t ps) ->
    operand_dom size -> Forall piece_i64 ps ->
    get_font_encoding font = Ok (EncOneByte t) ->
    Forall (piece_over (in_repertoire t)) ps ->
    exists d' p',
      load (so_bytes (save xt (compress_doc deflate nocomp d))) = LOk d' (xtype_of xt) /\
      doc_page decomp content_decode fuel (d_objects d') pid = Some p' /\
      extract_text [p'] [1] = Ok (shown_text ps).
  Proof.
    intros S K U Hn Hsm Z Hw Hs Hi He Hp.
    apply (extract_written_after_compress_save_load inflate lzw deflate inflate_ok nocomp xt d fuel pid font t fname size ps); try assumption.
    - apply savable_compress; exact S.
    - apply known_deep_compress; assumption.
    - apply unreferenced_compress; assumption.
    - apply content_normal_compress; assumption.
    - apply compressible_savable; assumption.
  Qed.

  Theorem extract_written_blocks_after_compress_save_load_dom nocomp xt d fuel pid font t inside fname size bss :
    savable d -> known_deep d = false -> unreferenced xt d -> content_normal fuel (d_objects d) pid ->
    small_file xt (compress_doc deflate nocomp d) ->
    zlib_compressor (d_objects d) ->
    page_written decomp fuel (d_objects d) pid fname font (blocks_ops inside fname size t bss) ->
    operand_dom size -> Forall (Forall piece_i64) bss ->
    get_font_encoding font = Ok (EncOneByte t) ->
    Forall (Forall (piece_over (in_repertoire t))) bss -> Forall block_shows bss ->
    exists d' p',
      load (so_bytes (save xt (compress_doc deflate nocomp d))) = LOk d' (xtype_of xt) /\
      doc_page decomp content_decode fuel (d_objects d') pid = Some p' /\
      extract_text [p'] [1] = Ok (shown_blocks bss).
  Proof.
    intros S K U Hn Hsm Z Hw Hs Hi He Hp Hb.
    apply (extract_written_blocks_after_compress_save_load inflate lzw deflate inflate_ok nocomp xt d fuel pid font t inside fname size bss); try assumption.
    - apply savable_compress; exact S.
    - apply known_deep_compress; assumption.
    - apply unreferenced_compress; assumption.
    - apply content_normal_compress; assumption.
    - apply compressible_savable; assumption.
  Qed.

  (* whatever the pages hold, with any Content::decode *)
  Theorem extract_same_after_compress_save_load_dom decode nocomp xt d fuel pids pages nums :
    savable d -> known_deep d = false -> unreferenced xt d ->
    Forall (fun pid => lookup (d_objects d) pid <> None /\ content_normal fuel (d_objects d) pid) pids ->
    small_file xt (compress_doc deflate nocomp d) ->
    zlib_compressor (d_objects d) ->
    Forall2 (fun pid p => doc_page decomp decode fuel (d_objects d) pid = Some p) pids pages ->
    exists d' pages',
      load (so_bytes (save xt (compress_doc deflate nocomp d))) = LOk d' (xtype_of xt) /\
      Forall2 (fun pid p => doc_page decomp decode fuel (d_objects d') pid = Some p) pids pages' /\
      extract_text_chunks pages' nums = extract_text_chunks pages nums /\
      extract_text pages' nums = extract_text pages nums.
  Proof.
    intros S K U Hp Hsm Z H.
    apply (extract_same_after_compress_save_load inflate lzw deflate inflate_ok decode nocomp xt d fuel pids pages nums); try assumption.
    - apply savable_compress; exact S.
    - apply known_deep_compress; assumption.
    - apply unreferenced_compress; assumption.
    - eapply Forall_impl; [|exact Hp]. intros pid [H1 H2]. split.
      + cbn [compress_doc d_objects]. rewrite lookup_doc_compress. destruct (lookup (d_objects d) pid); [discriminate | contradiction].
      + apply content_normal_compress; assumption.
    - apply compressible_savable; assumption.
  Qed.

  (* ANY operations of C14's plain domain written with Content::encode (any operators, any fonts selected): what is extracted
     after compress + save + load is what extract_text makes of those operations (reals in normal form) *)
  Theorem extract_any_written_after_compress_save_load_dom nocomp xt d fuel pid fname font ops nums :
    savable d -> known_deep d = false -> unreferenced xt d -> content_normal fuel (d_objects d) pid ->
    small_file xt (compress_doc deflate nocomp d) ->
    zlib_compressor (d_objects d) ->
    page_written decomp fuel (d_objects d) pid fname font ops -> Forall plain_ok ops ->
    exists d' p',
      load (so_bytes (save xt (compress_doc deflate nocomp d))) = LOk d' (xtype_of xt) /\
      doc_page decomp content_decode fuel (d_objects d') pid = Some p' /\
      extract_text_chunks [p'] nums = extract_text_chunks [{| p_fonts := [(fname, font)]; p_ops := map norm_pair ops |}] nums /\
      extract_text [p'] nums = extract_text [{| p_fonts := [(fname, font)]; p_ops := map norm_pair ops |}] nums.
  Proof.
    intros S K U Hn Hsm Z Hw Hops.
    pose proof (doc_page_written decomp fuel (d_objects d) pid fname font ops Hw Hops) as Hd.
    assert (Hl : lookup (d_objects d) pid <> None) by (apply (doc_page_exists _ _ _ _ _ _ Hd); discriminate).
    destruct (extract_same_after_compress_save_load_dom content_decode nocomp xt d fuel [pid]
                [{| p_fonts := [(fname, font)]; p_ops := map norm_pair ops |}] nums S K U
                (Forall_cons _ (conj Hl Hn) (Forall_nil _)) Hsm Z (Forall2_cons _ _ Hd (Forall2_nil _)))
      as (d' & pages' & HL & HF & H1 & H2).
    inversion HF as [|? p' ? rest Hp' Hrest]; subst. inversion Hrest; subst.
    exists d', p'. repeat split; assumption.
  Qed.
End DomainPage.
