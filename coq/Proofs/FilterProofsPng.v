(* FilterProofsPng.v -- Model/Png.v against Spec/PngSpec.v. *)
From LV Require Import Base.Bytes Gen.Filters Model.A85 Model.Png Spec.PngSpec.
From Coq Require Import Lia ZArith Znumtheory.

Local Open Scope Z_scope.

(* ---------- bytes as numbers ---------- *)

Lemma N_of_byte_byte_of_N n : N_of_byte (byte_of_N n) = (n mod 256)%N.
Proof.
  assert (H : byte_of_N n = byte_of_N (n mod 256)).
  { unfold byte_of_N. rewrite N.mod_mod by lia. reflexivity. }
  rewrite H. apply N_of_byte_of_N. apply N.mod_lt. lia.
Qed.

Lemma N_of_byte_inj a b : N_of_byte a = N_of_byte b -> a = b.
Proof. unfold N_of_byte. apply to_N_inj. Qed.

Lemma val_range b : 0 <= val b < 256.
Proof. unfold val. pose proof (N_of_byte_lt b). lia. Qed.

Lemma zb_val b : zb b = val b.
Proof. reflexivity. Qed.

Lemma val_inj a b : val a = val b -> a = b.
Proof. unfold val. intro H. apply N_of_byte_inj. lia. Qed.

Lemma val_of_val z : val (of_val z) = z mod 256.
Proof.
  unfold val, of_val. rewrite N_of_byte_byte_of_N.
  pose proof (Z.mod_pos_bound z 256 ltac:(lia)).
  rewrite N2Z.inj_mod. rewrite Z2N.id by lia. change (Z.of_N 256) with 256.
  apply Z.mod_small. lia.
Qed.

Lemma val_x00 : val x00 = 0.
Proof. reflexivity. Qed.

Lemma val_badd x y : val (badd x y) = (val x + val y) mod 256.
Proof.
  unfold badd, val. rewrite N_of_byte_byte_of_N. rewrite N2Z.inj_mod.
  rewrite N2Z.inj_add. reflexivity.
Qed.

(* ---------- Paeth: all 2^24 triples by arithmetic ---------- *)

Lemma paeth_eq_spec l a ul : val (paeth l a ul) = PaethPredictor (val l) (val a) (val ul).
Proof.
  unfold paeth, PaethPredictor. change zb with val.
  set (p := val l + val a - val ul).
  destruct (Z.leb_spec (Z.abs (p - val l)) (Z.abs (p - val a)));
  destruct (Z.leb_spec (Z.abs (p - val l)) (Z.abs (p - val ul)));
  destruct (Z.leb_spec (Z.abs (p - val a)) (Z.abs (p - val ul)));
  cbn [andb];
  repeat (match goal with |- context [Z_le_dec ?x ?y] => destruct (Z_le_dec x y) end); try reflexivity; lia.
Qed.

(* the simplified distances most decoders use are the same function *)
Lemma paeth_simplified a b c :
  PaethPredictor a b c =
  (if Z_le_dec (Z.abs (b - c)) (Z.abs (a - c))
   then (if Z_le_dec (Z.abs (b - c)) (Z.abs (a + b - 2 * c)) then a
         else if Z_le_dec (Z.abs (a - c)) (Z.abs (a + b - 2 * c)) then b else c)
   else if Z_le_dec (Z.abs (a - c)) (Z.abs (a + b - 2 * c)) then b else c).
Proof.
  unfold PaethPredictor.
  replace (a + b - c - a) with (b - c) by lia.
  replace (a + b - c - b) with (a - c) by lia.
  replace (a + b - c - c) with (a + b - 2 * c) by lia.
  reflexivity.
Qed.

(* the i16 arithmetic of paeth_predict never leaves the i16 range *)
Lemma paeth_i16_safe l a ul :
  let p := zb l + zb a - zb ul in
  -32768 <= p <= 32767 /\ -32768 <= p - zb l <= 32767 /\ -32768 <= p - zb a <= 32767 /\
  -32768 <= p - zb ul <= 32767.
Proof.
  cbv zeta. change zb with val. pose proof (val_range l). pose proof (val_range a). pose proof (val_range ul). lia.
Qed.

Lemma paeth_is_argument l a ul : paeth l a ul = l \/ paeth l a ul = a \/ paeth l a ul = ul.
Proof.
  unfold paeth.
  destruct (_ && _); [auto|]. destruct (_ <=? _); auto.
Qed.

Lemma val_avg l a : val (avg l a) = (val l + val a) / 2.
Proof.
  unfold avg, val. rewrite N_of_byte_byte_of_N.
  pose proof (N_of_byte_lt l). pose proof (N_of_byte_lt a).
  rewrite N.mod_small.
  - rewrite N2Z.inj_div, N2Z.inj_add. reflexivity.
  - apply N.div_lt_upper_bound; lia.
Qed.

(* ---------- one byte: reconstruction inverts filtering ---------- *)

Definition tnum (t : ftype) : N :=
  match t with FNone => 0 | FSub => 1 | FUp => 2 | FAvg => 3 | FPaeth => 4 end%N.

Lemma ftype_of_N_tnum tn t : ftype_of_N tn = Some t -> tn = tnum t.
Proof.
  unfold ftype_of_N, PNG_NONE, PNG_SUB, PNG_UP, PNG_AVG, PNG_PAETH.
  destruct (N.eqb_spec tn 0) as [->|_]; [intro H; inversion H; reflexivity|].
  destruct (N.eqb_spec tn 1) as [->|_]; [intro H; inversion H; reflexivity|].
  destruct (N.eqb_spec tn 2) as [->|_]; [intro H; inversion H; reflexivity|].
  destruct (N.eqb_spec tn 3) as [->|_]; [intro H; inversion H; reflexivity|].
  destruct (N.eqb_spec tn 4) as [->|_]; [intro H; inversion H; reflexivity|].
  discriminate.
Qed.

Lemma ftype_of_N_valid tn : valid_type tn -> exists t, ftype_of_N tn = Some t.
Proof.
  unfold valid_type. intro H.
  assert (tn = 0 \/ tn = 1 \/ tn = 2 \/ tn = 3 \/ tn = 4)%N as [->|[->|[->|[->| ->]]]] by lia;
    eexists; reflexivity.
Qed.

Lemma predictor_val t l a ul :
  predictor (tnum t) (val l) (val a) (val ul) =
  match t with FNone => 0 | FSub => val l | FUp => val a | FAvg => val (avg l a) | FPaeth => val (paeth l a ul) end.
Proof. destruct t; cbn [tnum predictor]; try reflexivity; [rewrite val_avg | rewrite paeth_eq_spec]; reflexivity. Qed.

Lemma predictor_range t l a ul : 0 <= predictor (tnum t) (val l) (val a) (val ul) < 256.
Proof. rewrite predictor_val. destruct t; try apply val_range; lia. Qed.

Lemma recon_filt t x l a ul :
  recon t (of_val (val x - predictor (tnum t) (val l) (val a) (val ul))) l a ul = x.
Proof.
  apply val_inj.
  pose proof (predictor_range t l a ul) as Hr. rewrite predictor_val in *.
  pose proof (val_range x).
  destruct t; cbn [recon]; rewrite ?val_badd, !val_of_val.
  - rewrite Z.sub_0_r. apply Z.mod_small. lia.
  - rewrite Zplus_mod_idemp_l. replace (val x - val l + val l) with (val x) by lia. apply Z.mod_small; lia.
  - rewrite Zplus_mod_idemp_l. replace (val x - val a + val a) with (val x) by lia. apply Z.mod_small; lia.
  - rewrite Zplus_mod_idemp_l. replace (val x - val (avg l a) + val (avg l a)) with (val x) by lia. apply Z.mod_small; lia.
  - rewrite Zplus_mod_idemp_l. replace (val x - val (paeth l a ul) + val (paeth l a ul)) with (val x) by lia.
    apply Z.mod_small; lia.
Qed.

(* and the other way round: filtering the reconstruction gives the filtered byte back *)
Lemma filt_recon t y l a ul :
  of_val (val (recon t y l a ul) - predictor (tnum t) (val l) (val a) (val ul)) = y.
Proof.
  apply val_inj. rewrite val_of_val.
  pose proof (predictor_range t l a ul) as Hr. rewrite predictor_val in *.
  pose proof (val_range y).
  destruct t; cbn [recon]; rewrite ?val_badd.
  - rewrite Z.sub_0_r. apply Z.mod_small. lia.
  - rewrite Zminus_mod_idemp_l. replace (val y + val l - val l) with (val y) by lia. apply Z.mod_small; lia.
  - rewrite Zminus_mod_idemp_l. replace (val y + val a - val a) with (val y) by lia. apply Z.mod_small; lia.
  - rewrite Zminus_mod_idemp_l. replace (val y + val (avg l a) - val (avg l a)) with (val y) by lia. apply Z.mod_small; lia.
  - rewrite Zminus_mod_idemp_l. replace (val y + val (paeth l a ul) - val (paeth l a ul)) with (val y) by lia.
    apply Z.mod_small; lia.
Qed.

Local Close Scope Z_scope.

(* ---------- the reference encoder in the same left-to-right shape as the model ---------- *)

Fixpoint enc_go (tn : N) (k : nat) (rraw rprior prior raw : bytes) : bytes :=
  match raw with
  | [] => []
  | x :: raw' =>
    let above := hd x00 prior in
    let left := nth k rraw x00 in
    let upperleft := nth k rprior x00 in
    of_val (val x - predictor tn (val left) (val above) (val upperleft))
      :: enc_go tn k (x :: rraw) (above :: rprior) (tl prior) raw'
  end.

Lemma back_rev (done rest : bytes) k :
  back (done ++ rest) (length done) (S k) = val (nth k (rev done) x00).
Proof.
  unfold back. destruct (Nat.ltb_spec (length done) (S k)) as [H|H].
  - rewrite nth_overflow by (rewrite rev_length; lia). reflexivity.
  - rewrite rev_nth by lia. rewrite app_nth1 by lia.
    replace (length done - S k) with (length done - S k) by reflexivity. reflexivity.
Qed.

Lemma encode_row_go_gen tn k (raw prior : bytes) :
  forall rest done pdone prest,
    raw = done ++ rest -> prior = pdone ++ prest -> length pdone = length done -> length prest = length rest ->
    map (filt_byte tn (S k) prior raw) (seq (length done) (length rest)) =
    enc_go tn k (rev done) (rev pdone) prest rest.
Proof.
  induction rest as [|x rest IH]; intros done pdone prest Hr Hp Hl Hl2; [reflexivity|].
  destruct prest as [|a prest]; [discriminate|].
  cbn [length seq map enc_go hd tl]. f_equal.
  - unfold filt_byte. subst raw prior.
    rewrite (app_nth2 done) by lia. rewrite Nat.sub_diag. cbn [nth].
    rewrite back_rev. rewrite <- Hl at 2. rewrite back_rev.
    rewrite (app_nth2 pdone) by lia. rewrite Hl, Nat.sub_diag. reflexivity.
  - specialize (IH (done ++ [x]) (pdone ++ [a]) prest).
    rewrite !app_length in IH. cbn [length] in IH.
    replace (length done + 1) with (S (length done)) in IH by lia.
    rewrite !rev_app_distr in IH. cbn [rev app] in IH.
    apply IH.
    + rewrite <- app_assoc. exact Hr.
    + rewrite <- app_assoc. exact Hp.
    + lia.
    + cbn [length] in Hl2. lia.
Qed.

Lemma encode_row_go tn k prior raw :
  length prior = length raw ->
  encode_row tn (S k) prior raw = enc_go tn k [] [] prior raw.
Proof.
  intro H. unfold encode_row.
  exact (encode_row_go_gen tn k raw prior raw [] [] prior eq_refl eq_refl eq_refl H).
Qed.

Lemma enc_go_length tn k : forall raw rraw rprior prior, length (enc_go tn k rraw rprior prior raw) = length raw.
Proof. induction raw; intros; cbn [enc_go length]; [reflexivity | rewrite IHraw; reflexivity]. Qed.

Lemma encode_row_length tn bpp prior raw : length (encode_row tn bpp prior raw) = length raw.
Proof. unfold encode_row. rewrite map_length, seq_length. reflexivity. Qed.

(* ---------- the model inverts the reference encoder, in lockstep ---------- *)

Lemma row_go_enc_go t k : forall raw rraw rprior prior,
  row_go t (S k) rraw rprior prior (enc_go (tnum t) k rraw rprior prior raw) = raw.
Proof.
  induction raw as [|x raw IH]; intros; [reflexivity|].
  cbn [enc_go row_go]. rewrite recon_filt. f_equal. apply IH.
Qed.

(* and the reference encoder inverts the model *)
Lemma enc_go_row_go t k : forall cur rdone rprev prev,
  enc_go (tnum t) k rdone rprev prev (row_go t (S k) rdone rprev prev cur) = cur.
Proof.
  induction cur as [|y cur IH]; intros; [reflexivity|].
  cbn [enc_go row_go]. rewrite filt_recon. f_equal. apply IH.
Qed.

Lemma row_go_length t bpp : forall cur rdone rprev prev, length (row_go t bpp rdone rprev prev cur) = length cur.
Proof. induction cur; intros; cbn [row_go length]; [reflexivity | rewrite IHcur; reflexivity]. Qed.

(* bytes per pixel beyond the end of the row all behave alike: no byte has a left neighbour *)
Lemma row_go_bpp_large t k1 k2 : forall cur rdone rprev prev,
  length rprev = length rdone ->
  length rdone + length cur <= S k1 -> length rdone + length cur <= S k2 ->
  row_go t (S k1) rdone rprev prev cur = row_go t (S k2) rdone rprev prev cur.
Proof.
  induction cur as [|x cur IH]; intros rdone rprev prev Hl H1 H2; [reflexivity|].
  cbn [length] in H1, H2. cbn [row_go].
  rewrite !(nth_overflow rdone) by lia. rewrite !(nth_overflow rprev) by lia.
  f_equal. apply IH; cbn [length]; lia.
Qed.

Theorem decode_row_encode_row t bpp prior raw :
  0 < bpp -> length prior = length raw ->
  decode_row t (N.of_nat bpp) prior (encode_row (tnum t) bpp prior raw) = Ok raw.
Proof.
  intros Hb Hl. unfold decode_row. rewrite encode_row_length.
  replace (length prior <? length raw) with false by (symmetry; apply Nat.ltb_ge; lia).
  rewrite andb_false_r. f_equal.
  destruct bpp as [|k]; [lia|].
  rewrite encode_row_go by exact Hl.
  destruct (Nat.le_gt_cases (S k) (length raw)) as [Hle|Hgt].
  - rewrite N.min_l by lia. rewrite Nat2N.id. apply row_go_enc_go.
  - rewrite N.min_r by lia. rewrite Nat2N.id.
    destruct raw as [|x raw]; [reflexivity|].
    cbn [length]. rewrite (row_go_bpp_large t (length raw) k).
    + apply row_go_enc_go.
    + reflexivity.
    + rewrite enc_go_length. cbn [length]. lia.
    + rewrite enc_go_length. cbn [length] in *. lia.
Qed.

(* the model's output satisfies the reconstruction equations of the reference decoder *)
Theorem decode_row_recon t bpp prior filt raw :
  0 < bpp -> length prior = length filt ->
  decode_row t (N.of_nat bpp) prior filt = Ok raw ->
  encode_row (tnum t) bpp prior raw = filt.
Proof.
  intros Hb Hl. unfold decode_row.
  replace (length prior <? length filt) with false by (symmetry; apply Nat.ltb_ge; lia).
  rewrite andb_false_r. intro H. inversion H as [H1]; clear H.
  destruct bpp as [|k]; [lia|].
  rewrite encode_row_go by (rewrite row_go_length; exact Hl).
  destruct (Nat.le_gt_cases (S k) (length filt)) as [Hle|Hgt].
  - rewrite N.min_l by lia. rewrite Nat2N.id. apply enc_go_row_go.
  - rewrite N.min_r by lia. rewrite Nat2N.id.
    destruct filt as [|x filt]; [reflexivity|].
    cbn [length]. rewrite (row_go_bpp_large t (length filt) k); cbn [length] in *; try lia.
    apply enc_go_row_go.
Qed.

(* ... and therefore satisfies the reconstruction equations of the PNG reference decoder, byte for byte *)
Lemma encode_row_Recon tn bpp prior raw filt :
  encode_row tn bpp prior raw = filt -> Recon tn bpp prior filt raw.
Proof.
  intro H. subst filt. unfold Recon. rewrite encode_row_length. split; [reflexivity|].
  intros i Hi. unfold encode_row.
  rewrite nth_indep with (l := map _ _) (d' := filt_byte tn bpp prior raw 0) by (rewrite map_length, seq_length; exact Hi).
  rewrite map_nth. rewrite seq_nth by exact Hi. cbn [Nat.add].
  unfold filt_byte. rewrite val_of_val.
  rewrite Zplus_mod_idemp_l.
  match goal with |- _ = ((?a - ?b + ?b) mod 256)%Z => replace (a - b + b)%Z with a by lia end.
  symmetry. apply Z.mod_small. apply val_range.
Qed.

Theorem decode_row_Recon t bpp prior filt raw :
  0 < bpp -> length prior = length filt ->
  decode_row t (N.of_nat bpp) prior filt = Ok raw -> Recon (tnum t) bpp prior filt raw.
Proof. intros Hb Hl H. apply encode_row_Recon. apply (decode_row_recon t bpp prior filt raw Hb Hl H). Qed.

(* the reconstruction equations determine the row: any two solutions are equal (so "the" reference decoding) *)
Lemma Recon_unique tn bpp prior filt raw1 raw2 :
  0 < bpp -> Recon tn bpp prior filt raw1 -> Recon tn bpp prior filt raw2 -> raw1 = raw2.
Proof.
  intros Hb [L1 R1] [L2 R2].
  assert (forall i, i < length filt -> nth i raw1 x00 = nth i raw2 x00) as H.
  { induction i as [i IH] using lt_wf_ind. intro Hi.
    apply val_inj. rewrite R1, R2 by exact Hi.
    assert (back raw1 i bpp = back raw2 i bpp) as ->; [|reflexivity].
    unfold back. destruct (Nat.ltb_spec i bpp); [reflexivity|].
    rewrite IH by lia. reflexivity. }
  apply (nth_ext _ _ x00 x00); [congruence|]. intros i Hi. apply H. lia.
Qed.

(* ---------- frames ---------- *)

Definition prior_of (prev : option bytes) (n : nat) : bytes :=
  match prev with Some p => p | None => repeat x00 n end.

Lemma firstn_app_exact {A} (l1 l2 : list A) n : length l1 = n -> firstn n (l1 ++ l2) = l1.
Proof.
  intro H. rewrite firstn_app, H, Nat.sub_diag. cbn [firstn]. rewrite app_nil_r.
  rewrite <- H. apply firstn_all.
Qed.

Lemma skipn_app_exact {A} (l1 l2 : list A) n : length l1 = n -> skipn n (l1 ++ l2) = l2.
Proof.
  intro H. rewrite skipn_app, H, Nat.sub_diag. cbn [skipn]. rewrite <- H, skipn_all. reflexivity.
Qed.

Lemma frame_go_encode_rows bpp n :
  0 < bpp ->
  forall rows types prev fuel,
    length (prior_of prev n) = n ->
    length types = length rows ->
    Forall valid_type types ->
    Forall (fun r => length r = n) rows ->
    length (encode_rows types bpp (prior_of prev n) rows) <= fuel ->
    frame_go fuel (N.of_nat bpp) (N.of_nat n) prev (encode_rows types bpp (prior_of prev n) rows)
    = Ok (concat rows).
Proof.
  intro Hb. induction rows as [|r rows IH]; intros types prev fuel Hp Hl Hv Hr Hf.
  - destruct types; [|discriminate]. destruct fuel; reflexivity.
  - destruct types as [|tn types]; [discriminate|].
    cbn [encode_rows] in *. cbn [length] in Hf, Hl.
    destruct fuel as [|fuel]; [lia|].
    inversion Hv as [|? ? Hv1 Hv2]; subst. inversion Hr as [|? ? Hr1 Hr2]; subst.
    cbn [frame_go].
    rewrite N_of_byte_byte_of_N. unfold valid_type in Hv1. rewrite N.mod_small by lia.
    destruct (ftype_of_N_valid tn Hv1) as [t Ht]. rewrite Ht.
    pose proof (ftype_of_N_tnum _ _ Ht) as ->.
    pose proof (encode_row_length (tnum t) bpp (prior_of prev (length r)) r) as He.
    replace (N.of_nat (length (encode_row (tnum t) bpp (prior_of prev (length r)) r ++
                                encode_rows types bpp r rows)) <? N.of_nat (length r))%N with false
      by (symmetry; apply N.ltb_ge; rewrite app_length, He; lia).
    rewrite Nat2N.id.
    rewrite firstn_app_exact by exact He. rewrite skipn_app_exact by exact He.
    fold (prior_of prev (length r)).
    rewrite decode_row_encode_row by (try exact Hb; exact Hp).
    change r with (prior_of (Some r) (length r)) at 3.
    rewrite IH; try assumption.
    + reflexivity.
    + reflexivity.
    + lia.
    + cbn [prior_of]. rewrite app_length in Hf. lia.
Qed.

Theorem decode_frame_encode_frame bpp ppr types rows :
  0 < bpp ->
  (N.of_nat (bpp * ppr) <= USIZE_MAX)%N ->
  length types = length rows ->
  Forall valid_type types ->
  Forall (fun r => length r = bpp * ppr) rows ->
  decode_frame (encode_frame types bpp (bpp * ppr) rows) (N.of_nat bpp) (N.of_nat ppr) = Ok (concat rows).
Proof.
  intros Hb Ha Hl Hv Hr. unfold decode_frame, encode_frame.
  rewrite <- Nat2N.inj_mul.
  replace (USIZE_MAX <? N.of_nat (bpp * ppr))%N with false by (symmetry; apply N.ltb_ge; exact Ha).
  change (repeat x00 (bpp * ppr)) with (prior_of None (bpp * ppr)).
  apply frame_go_encode_rows; try assumption.
  - cbn [prior_of]. apply repeat_length.
  - apply le_n.
Qed.

(* ---------- the defect that was repaired (commit f51f21b) ----------
   Before the repair decode_row added  left + above/2  for the Average filter.  That formula does not invert
   the PNG Average filter: raw byte 19 with left 8 and above 20 is filtered to 5 and came back as 23. *)
Definition avg_before_repair (l a : byte) : byte := byte_of_N (N_of_byte l + N_of_byte a / 2).

Lemma avg_before_repair_refuted :
  exists x l a, badd (of_val (val x - predictor 3 (val l) (val a) 0)) (avg_before_repair l a) <> x.
Proof. exists x13, x08, x14. vm_compute. discriminate. Qed.
