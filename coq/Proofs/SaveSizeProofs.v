(* SaveSizeProofs.v -- the size of the file written in the SECOND cycle of property C01 is derived from the size
   of the first: the document that comes back from load (save d) is written in no more bytes than d itself in
   the cross-reference TABLE format, and in at most [stream_slack] more bytes in the cross-reference STREAM
   format.  So the hypothesis "the second file is below 4 GiB" of C01_full follows from a bound on the FIRST
   file (Props/C01.v: C01_full_slack).

   Why: the reloaded document differs from d by
     - the normal form of the objects: an integral real below 2^63 comes back as the integer it denotes, whose
       decimal spelling is not longer ([write_norm_le]; "-0" -> "0", "007" -> "7"); integers and reals are in
       the same separator classes, so no separator appears ([need_sep_norm]);
     - max_id = the largest object number (table) resp. max_id + 1 (stream): the cross-reference table has the
       same sub-sections with the same numbers of 20-byte entries ([sections_loop_shape], [sections_loop_extra]),
       Size does not grow (table) resp. grows by one (stream: at most one more digit);
     - the stream format: the new cross-reference stream has the number max_id + 2 instead of max_id + 1 (one more
       digit at most), the same number of 7-byte entries, and an Index array with at most one more sub-section
       ([index_tail_step]: 13 more bytes at most);
     - startxref: the body is not longer, so its decimal spelling is not longer ([N_dec_mono]). *)
From LV Require Import Base.Bytes Base.Sx Model.Obj Model.Writer Model.Parser Model.Save Model.Xref Model.Loader
  Model.Utf Gen.Lex Gen.SaveFmt Proofs.LexProofs Proofs.RealProofs Proofs.ObjectRtProofs Proofs.SaveProofs
  Proofs.FilterProofsDict Spec.SaveSpec Proofs.LoadProofs Proofs.LoadProofsFile Proofs.LoadProofsXref
  Proofs.LoadProofsTable Proofs.LoadProofsAgain Proofs.LoadProofsStream Proofs.LoadProofsFull
  Model.ObjStm Model.LoaderExt Model.LoaderEnc.
From Coq Require Import ZifyBool ZifyN ZifyNat Permutation.

Local Open Scope N_scope.

(* ---------- decimal spellings ---------- *)
Lemma fold_dstep_lt : forall ds acc, forallb is_dec_digit ds = true ->
  fold_left dstep ds acc < (acc + 1) * 10 ^ N.of_nat (length ds).
Proof.
  induction ds as [|c ds IH]; intros acc H; cbn [fold_left length].
  - change (N.of_nat 0) with 0. rewrite N.pow_0_r. lia.
  - cbn [forallb] in H. apply andb_true_iff in H as [Hc Ht]. specialize (IH (dstep acc c) Ht).
    assert (Hd : dstep acc c + 1 <= (acc + 1) * 10) by (unfold dstep, is_dec_digit in *; lia).
    rewrite Nat2N.inj_succ, N.pow_succ_r'. set (p := 10 ^ N.of_nat (length ds)) in *.
    assert ((dstep acc c + 1) * p <= (acc + 1) * 10 * p) by (apply N.mul_le_mono_r; exact Hd). lia.
Qed.

Lemma digits_val_lt ds : forallb is_dec_digit ds = true -> digits_val ds < 10 ^ N.of_nat (length ds).
Proof. intro H. rewrite digits_val_fold. pose proof (fold_dstep_lt ds 0 H). lia. Qed.

Lemma N_dec_lt n : n < 10 ^ N.of_nat (length (N_dec n)).
Proof. pose proof (digits_val_lt (N_dec n) (N_dec_digits n)) as H. rewrite N_dec_val in H. exact H. Qed.

Lemma N_dec_pos n : (0 < length (N_dec n))%nat.
Proof. pose proof (N_dec_nonempty n). destruct (N_dec n); [contradiction | cbn; lia]. Qed.

(* the spelling of a smaller number is not longer *)
Lemma N_dec_mono a b : a <= b -> (length (N_dec a) <= length (N_dec b))%nat.
Proof. intro H. apply N_dec_length; [apply N_dec_pos|]. pose proof (N_dec_lt b). lia. Qed.

Lemma N_dec_succ a : (length (N_dec (a + 1)) <= length (N_dec a) + 1)%nat.
Proof.
  replace (length (N_dec a) + 1)%nat with (S (length (N_dec a))) by lia.
  apply N_dec_length; [lia|]. rewrite Nat2N.inj_succ, N.pow_succ_r'. pose proof (N_dec_lt a). lia.
Qed.

Lemma N_dec_u32 a : a < u32_mod -> (length (N_dec a) <= 10)%nat.
Proof. intro H. apply N_dec_length; [lia|]. change (10 ^ N.of_nat 10) with 10000000000. unfold u32_mod in H. lia. Qed.

Lemma digits_dec_le ds : ds <> [] -> forallb is_dec_digit ds = true -> (length (N_dec (digits_val ds)) <= length ds)%nat.
Proof. intros Hne Hd. apply N_dec_length; [destruct ds; [contradiction | cbn; lia]|]. apply digits_val_lt. exact Hd. Qed.

(* ---------- the normal form of an object is not written longer ---------- *)
Lemma real_text_length neg ds fs :
  length (real_text neg ds fs) = ((if neg then 1 else 0) + length ds + match fs with [] => 0 | _ => S (length fs) end)%nat.
Proof. unfold real_text. rewrite !app_length. destruct neg, fs; cbn [length]; lia. Qed.

Lemma int_of_text_len neg ds : ds <> [] -> forallb is_dec_digit ds = true ->
  (length (Z_dec (int_of_text neg ds)) <= length (real_text neg ds []))%nat.
Proof.
  intros Hne Hd. pose proof (digits_dec_le ds Hne Hd) as H. rewrite real_text_length.
  assert (1 <= length ds)%nat by (destruct ds; [contradiction | cbn; lia]).
  unfold int_of_text. destruct (digits_val ds) as [|p] eqn:E.
  - destruct neg; cbn [Z.of_N Z.opp Z_dec length] in *; lia.
  - destruct neg; cbn [Z.of_N Z.opp Z_dec length] in *; lia.
Qed.

Lemma norm_real_len r : real_wf r -> (length (write_object (norm_real r)) <= length (write_real r))%nat.
Proof.
  intros [neg [ds [fs [-> [Hne [Hd Hf]]]]]]. destruct fs as [|f0 fs].
  - rewrite (norm_real_int neg ds Hne Hd). unfold write_real. rewrite (needs_point_text neg ds Hne Hd).
    destruct (REAL_POINT_DISPLAY_THRESHOLD <=? digits_val ds) eqn:E.
    + cbn [write_object]. unfold write_real. rewrite needs_point_frac by (auto; discriminate).
      unfold real_text. rewrite !app_length. cbn [length]. lia.
    + cbn [write_object]. apply int_of_text_len; assumption.
  - rewrite norm_real_frac by (auto; discriminate). cbn [write_object]. lia.
Qed.

Lemma need_sep_norm o : need_separator (norm_obj o) = need_separator o.
Proof.
  destruct o as [|b|z|r|n|s h|l|d|d c|i g]; try reflexivity.
  cbn [norm_obj]. destruct (norm_real_shape r) as [[z ->]|[r' ->]]; reflexivity.
Qed.

Lemma need_end_sep_norm o : need_end_separator (norm_obj o) = need_end_separator o.
Proof.
  destruct o as [|b|z|r|n|s h|l|d|d c|i g]; try reflexivity.
  cbn [norm_obj]. destruct (norm_real_shape r) as [[z ->]|[r' ->]]; reflexivity.
Qed.

Definition wlen (o : obj) : nat := length (write_object o).

Lemma arr_tail_norm_le l :
  Forall (fun x => obj_wf x -> (wlen (norm_obj x) <= wlen x)%nat) l -> Forall obj_wf l ->
  (length (write_arr_tail (map norm_obj l)) <= length (write_arr_tail l))%nat.
Proof.
  induction 1 as [|x l Hx _ IH]; intro W; [cbn; lia|]. inversion W as [|? ? Wx Wl]; subst.
  cbn [map write_arr_tail]. rewrite !app_length, need_sep_norm. specialize (Hx Wx). specialize (IH Wl). unfold wlen in Hx. lia.
Qed.

Lemma dict_body_norm_le d :
  Forall (fun kv => obj_wf (snd kv) -> (wlen (norm_obj (snd kv)) <= wlen (snd kv))%nat) d ->
  Forall (fun kv => obj_wf (snd kv)) d ->
  (length (write_dict_body (norm_dict d)) <= length (write_dict_body d))%nat.
Proof.
  induction 1 as [|[k v] d Hx _ IH]; intro W; [cbn; lia|]. inversion W as [|? ? Wx Wl]; subst.
  cbn [norm_dict map write_dict_body fst snd]. fold (norm_dict d). rewrite !app_length, need_sep_norm.
  specialize (Hx Wx). specialize (IH Wl). unfold wlen in Hx. cbn [snd] in Hx. lia.
Qed.

Theorem write_norm_le o : obj_wf o -> (wlen (norm_obj o) <= wlen o)%nat.
Proof.
  induction o using obj_rt_ind; intro W; unfold wlen; cbn [norm_obj]; try lia.
  - inversion W; subst. change (write_object (OReal r)) with (write_real r). apply norm_real_len. assumption.
  - inversion W as [| | | | | |? Wl| |]; subst. rewrite !write_arr_eq. cbn [length]. rewrite !app_length. cbn [length].
    destruct l as [|x l]; [cbn; lia|]. inversion H as [|? ? Hx Hl]; subst. inversion Wl as [|? ? Wx Wl']; subst.
    cbn [map arr_items]. rewrite !app_length. pose proof (arr_tail_norm_le l Hl Wl'). specialize (Hx Wx). unfold wlen in Hx. lia.
  - inversion W as [| | | | | | |? Wn Wd|]; subst. fold (norm_dict d). rewrite !write_dict_eq. cbn [length]. rewrite !app_length.
    pose proof (dict_body_norm_le d H Wd). lia.
  - inversion W.
Qed.

Lemma dict_norm_le d : obj_wf (ODict d) -> (length (write_dict_body (norm_dict d)) <= length (write_dict_body d))%nat.
Proof.
  intro W. inversion W as [| | | | | | |? Wn Wd|]; subst. apply dict_body_norm_le; [|exact Wd].
  apply Forall_forall. intros kv _. apply write_norm_le.
Qed.

Lemma top_norm_le o : top_wf o -> (wlen (norm_obj o) <= wlen o)%nat.
Proof.
  destruct o as [|b|z|r|n|s h|l|d|d c|i g]; cbn [top_wf]; intro H; try (apply write_norm_le; exact H).
  destruct H as [W _]. unfold wlen. cbn [norm_obj]. fold (norm_dict d). rewrite !write_stream_eq, !write_dict_eq.
  repeat (rewrite !app_length; cbn [length]). pose proof (dict_norm_le d W). lia.
Qed.

Lemma wio_norm_le id g o : top_wf o ->
  (length (write_indirect_object id g (norm_obj o)) <= length (write_indirect_object id g o))%nat.
Proof.
  intro H. rewrite !wio_eq. repeat (rewrite !app_length; cbn [length]). rewrite need_sep_norm, need_end_sep_norm.
  pose proof (top_norm_le o H) as K. unfold wlen in K. lia.
Qed.

(* ---------- the object loop: bytes written and numbers recorded ---------- *)
Fixpoint objs_len (objs : objmap) : nat :=
  match objs with
  | [] => 0%nat
  | ((id, g), o) :: rest => if skipped o then objs_len rest else (length (write_indirect_object id g o) + objs_len rest)%nat
  end.

Lemma write_objects_len : forall objs pos x, length (fst (fst (write_objects pos objs x))) = objs_len objs.
Proof.
  induction objs as [|[[id g] o] rest IH]; intros pos x; cbn [write_objects objs_len]; [reflexivity|].
  destruct (skipped o); [apply IH|].
  specialize (IH (pos + blen (write_indirect_object id g o)) (Save.xinsert x id (Save.XNormal (pos mod u32_mod) g))).
  destruct (write_objects _ rest _) as [[b p] x'] eqn:E. cbn [fst snd] in *. rewrite app_length, IH. reflexivity.
Qed.

Lemma objs_len_norm objs : Forall (fun io : oid * obj => top_wf (snd io)) objs ->
  (objs_len (norm_objects objs) <= objs_len objs)%nat.
Proof.
  induction 1 as [|[[id g] o] rest H _ IH]; [cbn; lia|]. cbn [norm_objects map fst snd objs_len]. fold (norm_objects rest).
  rewrite skipped_norm. destruct (skipped o); [exact IH|]. pose proof (wio_norm_le id g o H). lia.
Qed.

Lemma body_of_len d :
  length (body_of d) = (length (header_bytes d) + length (mark_bytes d) + objs_len (d_objects d))%nat.
Proof. unfold body_of. rewrite save_body_eq. cbv zeta. cbn [fst]. rewrite !app_length, write_objects_len. reflexivity. Qed.

(* which object numbers the map records *)
Definition has (x : Save.xmap) (j : N) : bool := match Save.xget x j with Some _ => true | None => false end.
Definition writes (objs : objmap) (j : N) : bool :=
  existsb (fun io : oid * obj => (fst (fst io) =? j) && negb (skipped (snd io))) objs.

Lemma write_objects_has : forall objs pos x j,
  has (snd (write_objects pos objs x)) j = has x j || writes objs j.
Proof.
  induction objs as [|[[id g] o] rest IH]; intros pos x j; cbn [write_objects writes existsb fst snd].
  - rewrite orb_false_r. reflexivity.
  - fold (writes rest j). destruct (skipped o); cbn [negb]; [rewrite andb_false_r; apply IH|].
    specialize (IH (pos + blen (write_indirect_object id g o)) (Save.xinsert x id (Save.XNormal (pos mod u32_mod) g)) j).
    destruct (write_objects _ rest _) as [[b p] x'] eqn:E. cbn [fst snd] in *. rewrite IH.
    unfold has at 1. rewrite xget_xinsert. rewrite andb_true_r. destruct (id =? j); [destruct (has x j); reflexivity|].
    reflexivity.
Qed.

Lemma xmap_has d j : has (xmap_of d) j = writes (d_objects d) j.
Proof. unfold xmap_of. rewrite save_body_eq. cbv zeta. cbn [snd]. rewrite write_objects_has. reflexivity. Qed.

Lemma writes_norm objs j : writes (norm_objects objs) j = writes objs j.
Proof.
  induction objs as [|[[id g] o] rest IH]; [reflexivity|]. cbn [norm_objects map writes existsb fst snd].
  rewrite skipped_norm. fold (norm_objects rest). fold (writes (norm_objects rest) j). fold (writes rest j). rewrite IH. reflexivity.
Qed.

Lemma writes_bound objs j B : Forall (fun io : oid * obj => fst (fst io) <= B) objs -> B < j -> writes objs j = false.
Proof.
  induction 1 as [|io rest H _ IH]; intro Hj; [reflexivity|]. cbn [writes existsb]. fold (writes rest j). rewrite (IH Hj).
  replace (fst (fst io) =? j) with false by (symmetry; apply N.eqb_neq; lia). reflexivity.
Qed.

Lemma has_none x j : has x j = false -> Save.xget x j = None.
Proof. unfold has. destruct (Save.xget x j); [discriminate | reflexivity]. Qed.

(* every recorded entry fits the fixed-width fields *)
Lemma xmap_in_range d : Forall (fun io : oid * obj => snd (fst io) <= u16_max) (d_objects d) ->
  forall j e, Save.xget (xmap_of d) j = Some e -> xentry_in_range e.
Proof.
  intros Hg j e H. destruct e as [| |off g|c i]; cbn [xentry_in_range]; try exact I.
  destruct (offsets_sound d j off g H) as [o [pre [post [Hin [_ [_ Ho]]]]]]. subst off.
  rewrite Forall_forall in Hg. specialize (Hg _ Hin). cbn [fst snd] in Hg. split.
  - apply N.mod_lt. discriminate.
  - unfold u16_max in Hg. lia.
Qed.

(* ---------- the sectioning loop: the sub-sections depend only on WHICH numbers the map records ---------- *)
Definition shape (secs : list xsection) : list (N * nat) := map (fun s : xsection => (fst s, length (snd s))) secs.

Lemma sections_loop_shape : forall n id x x' conv conv' start cur cur',
  (forall j, has x j = has x' j) -> length cur = length cur' ->
  shape (sections_loop n id x conv start cur) = shape (sections_loop n id x' conv' start cur').
Proof.
  induction n as [|n IH]; intros id x x' conv conv' start cur cur' Hh Hl; cbn [sections_loop].
  - destruct cur, cur'; try discriminate; [reflexivity|]. cbn [shape map fst snd]. rewrite Hl. reflexivity.
  - pose proof (Hh id) as Hid. unfold has in Hid.
    assert (Hs : match cur with [] => id | _ => start end = match cur' with [] => id | _ => start end)
      by (destruct cur, cur'; try discriminate; reflexivity).
    destruct (Save.xget x id) as [e|], (Save.xget x' id) as [e'|]; try discriminate.
    + rewrite Hs. apply IH; [exact Hh|]. rewrite !app_length. cbn [length]. lia.
    + destruct cur, cur'; try discriminate.
      * apply IH; [exact Hh | reflexivity].
      * cbn [shape map fst snd]. rewrite Hl. f_equal. apply IH; [exact Hh | reflexivity].
Qed.

(* numbers beyond the last recorded one change nothing *)
Lemma sections_loop_none x conv : forall k id start cur,
  (forall j, id <= j -> Save.xget x j = None) ->
  sections_loop k id x conv start cur = match cur with [] => [] | _ => [(start, cur)] end.
Proof.
  induction k as [|k IH]; intros id start cur H; cbn [sections_loop]; [reflexivity|].
  rewrite (H id) by lia. destruct cur as [|c cur'].
  - rewrite IH by (intros; apply H; lia). reflexivity.
  - rewrite IH by (intros; apply H; lia). reflexivity.
Qed.

Lemma sections_loop_extra x conv k : forall n id start cur,
  (forall j, id + N.of_nat n <= j -> Save.xget x j = None) ->
  sections_loop (n + k) id x conv start cur = sections_loop n id x conv start cur.
Proof.
  induction n as [|n IH]; intros id start cur H.
  - cbn [plus]. rewrite sections_loop_none by (intros; apply H; lia). reflexivity.
  - cbn [plus sections_loop].
    assert (H' : forall j, id + 1 + N.of_nat n <= j -> Save.xget x j = None) by (intros; apply H; lia).
    destruct (Save.xget x id); [apply IH; exact H'|]. destruct cur; [apply IH; exact H'|]. f_equal. apply IH; exact H'.
Qed.

Lemma sections_loop_range (P : Save.xentry -> Prop) : forall n id (x : Save.xmap) conv start cur,
  Forall P cur -> (forall j e, Save.xget x j = Some e -> P (conv e)) ->
  Forall (fun s : xsection => Forall P (snd s)) (sections_loop n id x conv start cur).
Proof.
  induction n as [|n IH]; intros id x conv start cur Hc Hx; cbn [sections_loop].
  - destruct cur; [constructor|]. constructor; [exact Hc | constructor].
  - destruct (Save.xget x id) as [e|] eqn:E.
    + apply IH; [|exact Hx]. apply Forall_app. split; [exact Hc|]. constructor; [eapply Hx; exact E | constructor].
    + destruct cur; [apply IH; [constructor | exact Hx]|].
      constructor; [exact Hc | apply IH; [constructor | exact Hx]].
Qed.

(* the bytes of a list of table sub-sections, from its shape *)
Definition sec_len (s : N * nat) : nat :=
  match snd s with
  | O => 0%nat
  | k => (length (N_dec (fst s)) + 1 + length (N_dec (N.of_nat k)) + 1 + 20 * k)%nat
  end.

Lemma entries_len es : Forall xentry_in_range es -> length (flat_map write_xref_entry es) = (20 * length es)%nat.
Proof.
  induction 1 as [|e es H _ IH]; [reflexivity|]. cbn [flat_map length]. rewrite app_length, IH, (xref_entry_20 e H). lia.
Qed.

Lemma write_xref_section_len s : Forall xentry_in_range (snd s) ->
  length (write_xref_section s) = sec_len (fst s, length (snd s)).
Proof.
  intro H. unfold write_xref_section, sec_len. cbn [fst snd]. destruct (snd s) as [|e es] eqn:E; [reflexivity|].
  rewrite app_length. cbn [length]. rewrite app_length. cbn [length]. rewrite (entries_len _ H). cbn [length]. lia.
Qed.

Lemma sections_len secs : Forall (fun s : xsection => Forall xentry_in_range (snd s)) secs ->
  length (flat_map write_xref_section secs) = list_sum (map sec_len (shape secs)).
Proof.
  induction 1 as [|s secs H _ IH]; [reflexivity|]. cbn [flat_map shape map list_sum]. fold (shape secs).
  rewrite app_length, IH, (write_xref_section_len s H). reflexivity.
Qed.

Lemma table_conv_range e : xentry_in_range e -> xentry_in_range (table_conv e).
Proof. destruct e; cbn; tauto. Qed.

Lemma write_xref_len x size :
  (forall j e, Save.xget x j = Some e -> xentry_in_range e) ->
  length (write_xref x size) = (5 + list_sum (map sec_len (shape (table_sections x size))))%nat.
Proof.
  intro H. unfold write_xref. rewrite app_length. cbn [length]. rewrite sections_len; [reflexivity|].
  unfold table_sections. apply sections_loop_range; [constructor; [exact I | constructor]|].
  intros j e He. apply table_conv_range. exact (H j e He).
Qed.

(* the cross-reference table of two maps recording the same numbers, none above L, L <= M *)
Lemma write_xref_same x x' L M :
  (forall j e, Save.xget x j = Some e -> xentry_in_range e) ->
  (forall j e, Save.xget x' j = Some e -> xentry_in_range e) ->
  (forall j, has x j = has x' j) -> (forall j, L < j -> has x j = false) -> L <= M ->
  length (write_xref x' (L + 1)) = length (write_xref x (M + 1)).
Proof.
  intros R R' Hh Hb Hle. rewrite (write_xref_len x _ R), (write_xref_len x' _ R'). f_equal. f_equal. f_equal.
  unfold table_sections.
  replace (N.to_nat (M + 1 - 1)) with (N.to_nat (L + 1 - 1) + N.to_nat (M - L))%nat by lia.
  rewrite sections_loop_extra by (intros j Hj; apply has_none, Hb; lia).
  apply sections_loop_shape; [intro j; symmetry; apply Hh | reflexivity].
Qed.

(* ---------- dictionaries: the written length entry by entry ---------- *)
Definition dlen (d : dict) : nat := length (write_dict_body d).
Definition elen (k : bytes) (v : obj) : nat :=
  (length (write_name k) + length (sp_if (need_separator v)) + length (write_object v))%nat.
Definition glen (k : bytes) (ov : option obj) : nat := match ov with Some v => elen k v | None => 0%nat end.

Lemma dlen_cons k v d : dlen ((k, v) :: d) = (elen k v + dlen d)%nat.
Proof. unfold dlen, elen. cbn [write_dict_body]. rewrite !app_length. lia. Qed.

(* IndexMap::insert: the old value, if any, is replaced *)
Lemma dlen_set d k v : (dlen (dict_set d k v) + glen k (dict_get d k) = dlen d + elen k v)%nat.
Proof.
  induction d as [|[k' v'] d IH]; cbn [dict_set dict_get].
  - rewrite dlen_cons. cbn [glen]. unfold dlen. cbn. lia.
  - destruct (bytes_eqb k' k) eqn:E.
    + apply bytes_eqb_eq in E. subst k'. rewrite !dlen_cons. cbn [glen]. lia.
    + rewrite !dlen_cons. lia.
Qed.

Lemma dlen_perm d d' : Permutation d d' -> dlen d = dlen d'.
Proof.
  induction 1 as [|[k v] a b _ IH|[k v] [k' v'] a|a b c _ IH1 _ IH2]; [reflexivity| | |congruence].
  - rewrite !dlen_cons, IH. reflexivity.
  - rewrite !dlen_cons. lia.
Qed.

(* IndexMap::swap_remove: the entry is gone, the others are all still there *)
Lemma dlen_swap_remove d k : dict_wf d -> (dlen (dict_swap_remove d k) + glen k (dict_get d k) = dlen d)%nat.
Proof.
  intro W. destruct (in_dec (list_eq_dec Byte.byte_eq_dec) k (keys d)) as [Hin|Hn].
  - destruct (swap_remove_perm d k W) as (v & P). specialize (P Hin).
    assert (Hg : dict_get d k = Some v).
    { apply (FilterProofsDict.dict_get_In d k v W). apply (Permutation_in _ (Permutation_sym P)). left. reflexivity. }
    rewrite Hg. cbn [glen]. rewrite (dlen_perm _ _ P), dlen_cons. lia.
  - rewrite swap_remove_absent by exact Hn. apply dict_get_None in Hn. rewrite Hn. cbn [glen]. lia.
Qed.

Lemma write_dictionary_len t : length (write_dictionary t) = (4 + dlen t)%nat.
Proof. unfold write_dictionary, dlen. rewrite write_dict_eq. cbn [length]. rewrite app_length. cbn [length]. lia. Qed.

Lemma elen_int_mono k a b : a <= b -> (elen k (OInt (Z.of_N a)) <= elen k (OInt (Z.of_N b)))%nat.
Proof.
  intro H. unfold elen. cbn [write_object]. rewrite !Z_dec_of_N. pose proof (N_dec_mono a b H).
  change (need_separator (OInt (Z.of_N a))) with (need_separator (OInt (Z.of_N b))). lia.
Qed.

Lemma elen_int_succ k a : (elen k (OInt (Z.of_N (a + 1))) <= elen k (OInt (Z.of_N a)) + 1)%nat.
Proof.
  unfold elen. cbn [write_object]. rewrite !Z_dec_of_N. pose proof (N_dec_succ a).
  change (need_separator (OInt (Z.of_N (a + 1)))) with (need_separator (OInt (Z.of_N a))). lia.
Qed.

Lemma startxref_len n : length (startxref_bytes n) = (17 + length (N_dec n))%nat.
Proof.
  unfold startxref_bytes. repeat (rewrite ?app_length; cbn [length]).
  change (length (bs "startxref")) with 9%nat. change (length (bs "%%EOF")) with 5%nat. lia.
Qed.

(* ---------- the bytes of a successful save ---------- *)
Lemma save_core_table_bytes d : d_max_id d + 1 < u32_mod -> binary_mark_ok (d_binary_mark d) = true ->
  so_bytes (save_core XTable d) =
  body_of d ++ write_xref (xmap_of d) (d_max_id d + 1) ++ trailer_bytes (trailer_table d) ++ startxref_bytes (blen (body_of d)).
Proof.
  intros Hm Hk. unfold save_core.
  replace (u32_top <=? d_max_id d) with false by (symmetry; apply N.leb_gt; unfold u32_top, u32_mod in *; lia).
  rewrite Hk. cbn [negb].
  pose proof (xref_start_is_length d) as Hl. unfold xref_start_of, body_of, xmap_of in *.
  destruct (save_body d) as [[body xs] x]. cbn [fst snd so_bytes] in *. subst xs. rewrite <- ?app_assoc. reflexivity.
Qed.

(* ---------- TABLE FORMAT: the second file is not longer than the first ---------- *)
Theorem second_table_le d : savable_core_enc d ->
  (length (so_bytes (save_core XTable (reloaded_table d))) <= length (so_bytes (save_core XTable d)))%nat.
Proof.
  intro S. pose proof (se_max_id d S) as Hm. pose proof (se_objects d S) as Ho.
  assert (HL : last_number (d_objects d) <= d_max_id d).
  { unfold last_number. apply fold_max_le; [lia|]. eapply Forall_impl; [|exact Ho]. intros io [H1 _]. exact H1. }
  rewrite (save_core_table_bytes d) by (try apply (se_mark d S); lia).
  rewrite (save_core_table_bytes (reloaded_table d)) by (cbn [reloaded_table d_max_id d_binary_mark]; try apply (se_mark d S); lia).
  assert (Hbody : (length (body_of (reloaded_table d)) <= length (body_of d))%nat).
  { rewrite !body_of_len. cbn [reloaded_table d_objects]. 
    assert (objs_len (norm_objects (d_objects d)) <= objs_len (d_objects d))%nat.
    { apply objs_len_norm. eapply Forall_impl; [|exact Ho]. intros io [_ [_ [H _]]]. exact H. }
    change (header_bytes (reloaded_table d)) with (header_bytes d).
    change (mark_bytes (reloaded_table d)) with (mark_bytes d). lia. }
  assert (Hx : length (write_xref (xmap_of (reloaded_table d)) (d_max_id (reloaded_table d) + 1)) =
               length (write_xref (xmap_of d) (d_max_id d + 1))).
  { cbn [reloaded_table d_max_id]. apply write_xref_same.
    - apply xmap_in_range. eapply Forall_impl; [|exact Ho]. intros io [_ [H _]]. exact H.
    - apply xmap_in_range. cbn [reloaded_table d_objects]. unfold norm_objects. apply Forall_forall. intros io' Hin.
      apply in_map_iff in Hin as [io [<- Hin]]. cbn [fst snd]. rewrite Forall_forall in Ho. apply (Ho io Hin).
    - intro j. rewrite !xmap_has. cbn [reloaded_table d_objects]. symmetry. apply writes_norm.
    - intros j Hj. rewrite xmap_has. apply (writes_bound _ j (last_number (d_objects d))); [|exact Hj].
      apply Forall_forall. intros io Hin. apply le_last_number. exact Hin.
    - exact HL. }
  assert (Ht : (length (trailer_bytes (trailer_table (reloaded_table d))) <= length (trailer_bytes (trailer_table d)))%nat).
  { unfold trailer_bytes. rewrite !app_length. cbn [length]. rewrite !write_dictionary_len.
    unfold trailer_table at 1. cbn [reloaded_table d_trailer d_max_id].
    pose proof (dlen_set (norm_dict (trailer_table d)) Save.K_Size (OInt (Z.of_N (last_number (d_objects d) + 1)))) as E.
    rewrite dict_get_norm in E. unfold trailer_table at 2 in E. rewrite FilterProofsDict.dict_get_set_same in E.
    cbn [option_map norm_obj glen] in E.
    pose proof (elen_int_mono Save.K_Size (last_number (d_objects d) + 1) (d_max_id d + 1) ltac:(lia)).
    pose proof (dict_norm_le (trailer_table d) (trailer_table_wf_enc d S)) as Hn. fold (dlen (norm_dict (trailer_table d))) in Hn.
    fold (dlen (trailer_table d)) in Hn. lia. }
  assert (Hs : (length (startxref_bytes (blen (body_of (reloaded_table d)))) <= length (startxref_bytes (blen (body_of d))))%nat).
  { rewrite !startxref_len. pose proof (N_dec_mono (blen (body_of (reloaded_table d))) (blen (body_of d))) as K.
    unfold blen in *. lia. }
  rewrite !app_length. lia.
Qed.

(* ================================ STREAM FORMAT ================================ *)

(* ---------- content and Index of the cross-reference stream, from the shape of the sub-sections ---------- *)
Definition cnt (sh : list (N * nat)) : nat := list_sum (map snd sh).
Definition pair_len (s : N * nat) : nat := (2 + length (N_dec (fst s)) + length (N_dec (N.of_nat (snd s))))%nat.
Definition itl (sh : list (N * nat)) : nat := list_sum (map pair_len sh).

Lemma list_sum_cons a l : list_sum (a :: l) = (a + list_sum l)%nat.
Proof. reflexivity. Qed.

Lemma be_bytes_length : forall w n, length (Save.be_bytes w n) = w.
Proof. induction w as [|w IH]; intro n; cbn [Save.be_bytes]; [reflexivity|]. rewrite app_length, IH. cbn [length]. lia. Qed.

Lemma xstream_entry_len id e : length (xstream_entry id e) = 7%nat.
Proof. destruct e; cbn [xstream_entry length]; rewrite app_length, !be_bytes_length; reflexivity. Qed.

Lemma xstream_entries_len : forall es id, length (xstream_entries id es) = (7 * length es)%nat.
Proof.
  induction es as [|e es IH]; intro id; cbn [xstream_entries]; [reflexivity|].
  rewrite app_length, IH, xstream_entry_len. cbn [length]. lia.
Qed.

Lemma xstream_content_len secs : length (xstream_content secs) = (7 * cnt (shape secs))%nat.
Proof.
  unfold xstream_content, cnt. induction secs as [|s secs IH]; [reflexivity|].
  cbn [flat_map shape map list_sum snd]. fold (shape secs). rewrite app_length, IH, xstream_entries_len.
  change (list_sum (length (snd s) :: map snd (shape secs))) with (length (snd s) + list_sum (map snd (shape secs)))%nat. lia.
Qed.

Definition idx_items (secs : list xsection) : list obj :=
  flat_map (fun s : xsection => [OInt (Z.of_N (fst s)); OInt (Z.of_nat (length (snd s)))]) secs.

Lemma arr_tail_app a b : write_arr_tail (a ++ b) = write_arr_tail a ++ write_arr_tail b.
Proof. induction a as [|x a IH]; [reflexivity|]. cbn [app write_arr_tail]. rewrite IH, <- !app_assoc. reflexivity. Qed.

Lemma idx_tail_len secs : length (write_arr_tail (idx_items secs)) = itl (shape secs).
Proof.
  unfold idx_items, itl. induction secs as [|s secs IH]; [reflexivity|].
  cbn [flat_map shape map list_sum]. fold (shape secs). rewrite arr_tail_app, app_length, IH. f_equal.
  unfold pair_len. cbn [fst snd write_arr_tail write_object]. rewrite <- nat_N_Z, !Z_dec_of_N.
  repeat (rewrite !app_length; cbn [length]).
  change (sp_if (need_separator (OInt (Z.of_N (fst s))))) with [x20].
  change (sp_if (need_separator (OInt (Z.of_N (N.of_nat (length (snd s))))))) with [x20]. cbn [length]. rewrite list_sum_cons. lia.
Qed.

Lemma arr_tail_le_items l : (length (write_arr_tail l) <= length (arr_items l) + 1)%nat.
Proof.
  destruct l as [|x l]; cbn [write_arr_tail arr_items]; [cbn; lia|]. rewrite !app_length.
  destruct (need_separator x); cbn [sp_if length]; lia.
Qed.

Lemma index_wlen secs :
  (wlen (xstream_index secs) <= 2 + itl (shape secs) /\ itl (shape secs) + 1 <= wlen (xstream_index secs))%nat.
Proof.
  unfold wlen. change (xstream_index secs) with (OArr (idx_items secs)). rewrite write_arr_eq. cbn [length]. rewrite app_length. cbn [length].
  rewrite <- idx_tail_len. pose proof (arr_items_le (idx_items secs)). pose proof (arr_tail_le_items (idx_items secs)). lia.
Qed.

Lemma norm_index secs : norm_obj (xstream_index secs) = xstream_index secs.
Proof.
  unfold xstream_index. cbn [norm_obj]. f_equal. induction secs as [|s secs IH]; [reflexivity|].
  cbn [flat_map]. rewrite map_app, IH. reflexivity.
Qed.

(* ---------- the last steps of the loop: first file "M+1 recorded", second file "M+1 not recorded, M+2 recorded" ---------- *)
Definition Rsh (sh sh' : list (N * nat)) : Prop := cnt sh = cnt sh' /\ (itl sh' <= itl sh + 13)%nat.

Lemma Rsh_cons p sh sh' : Rsh sh sh' -> Rsh (p :: sh) (p :: sh').
Proof. unfold Rsh, cnt, itl. cbn [map]. rewrite !list_sum_cons. lia. Qed.

Lemma sl_S n id x conv start cur :
  sections_loop (S n) id x conv start cur =
  match Save.xget x id with
  | Some e => sections_loop n (id + 1) x conv (match cur with [] => id | _ => start end) (cur ++ [conv e])
  | None => match cur with
            | [] => sections_loop n (id + 1) x conv id []
            | _ => (match cur with [] => id | _ => start end, cur) :: sections_loop n (id + 1) x conv id []
            end
  end.
Proof. reflexivity. Qed.

Lemma has_some x j : has x j = true -> exists e, Save.xget x j = Some e.
Proof. unfold has. destruct (Save.xget x j) as [e|]; [eauto | discriminate]. Qed.

Lemma stream_tail_step : forall n id x x' conv conv' start cur cur',
  (forall j, id <= j -> j < id + N.of_nat n -> has x j = has x' j) ->
  has x (id + N.of_nat n) = true -> has x' (id + N.of_nat n) = false -> has x' (id + N.of_nat n + 1) = true ->
  id + N.of_nat n + 1 < u32_mod -> length cur = length cur' ->
  Rsh (shape (sections_loop (S n) id x conv start cur)) (shape (sections_loop (S (S n)) id x' conv' start cur')).
Proof.
  induction n as [|n IH]; intros id x x' conv conv' start cur cur' Hh H1 H2 H3 Hb Hl.
  - replace (id + N.of_nat 0) with id in * by lia.
    destruct (has_some _ _ H1) as [e E1]. apply has_none in H2. destruct (has_some _ _ H3) as [e' E3].
    rewrite (sl_S 0 id x), E1. rewrite (sl_S 1 id x'), H2.
    pose proof (N_dec_succ id) as Hs. pose proof (N_dec_u32 (id + 1) Hb) as Hu.
    destruct cur as [|c cur], cur' as [|c' cur']; try discriminate.
    + rewrite (sl_S 0 (id + 1) x'), E3. cbn [sections_loop app shape map fst snd length].
      unfold Rsh, cnt, itl, pair_len. cbn [map fst snd]. rewrite !list_sum_cons. cbn [list_sum fold_right]. lia.
    + rewrite (sl_S 0 (id + 1) x'), E3. cbn [sections_loop app shape map fst snd].
      unfold Rsh, cnt, itl, pair_len. cbn [map fst snd]. rewrite !list_sum_cons. cbn [list_sum fold_right].
      cbn [length] in *. rewrite app_length. cbn [length].
      pose proof (N_dec_mono (N.of_nat (S (length cur'))) (N.of_nat (S (length cur + 1))) ltac:(lia)).
      change (length (N_dec (N.of_nat 1))) with 1%nat. lia.
  - replace (id + N.of_nat (S n)) with (id + 1 + N.of_nat n) in * by lia.
    assert (Hh' : forall j, id + 1 <= j -> j < id + 1 + N.of_nat n -> has x j = has x' j) by (intros; apply Hh; lia).
    pose proof (Hh id ltac:(lia) ltac:(lia)) as Hid. unfold has in Hid.
    rewrite (sl_S (S n) id x), (sl_S (S (S n)) id x').
    assert (Hs : match cur with [] => id | _ => start end = match cur' with [] => id | _ => start end)
      by (destruct cur, cur'; try discriminate; reflexivity).
    destruct (Save.xget x id) as [e|], (Save.xget x' id) as [e'|]; try discriminate.
    + rewrite Hs. apply IH; try assumption; rewrite !app_length; cbn [length]; lia.
    + destruct cur as [|c cur], cur' as [|c' cur']; try discriminate.
      * apply IH; try assumption; reflexivity.
      * cbn [shape map fst snd]. rewrite Hl. apply Rsh_cons. apply IH; try assumption; reflexivity.
Qed.

(* ---------- the dictionary of the cross-reference stream ---------- *)
Lemma dlen_norm_le d : Forall (fun kv : bytes * obj => (wlen (norm_obj (snd kv)) <= wlen (snd kv))%nat) d ->
  (dlen (norm_dict d) <= dlen d)%nat.
Proof.
  induction 1 as [|[k v] d H _ IH]; [cbn; lia|]. cbn [norm_dict map fst snd]. fold (norm_dict d). rewrite !dlen_cons.
  unfold elen. rewrite need_sep_norm. unfold wlen in H. cbn [snd] in H. lia.
Qed.

Lemma dlen_xs_trailer T sz idx len : dict_wf T ->
  (dlen (xs_trailer T sz idx len) + glen K_Type (dict_get T K_Type) + glen Save.K_Size (dict_get T Save.K_Size)
   + glen Save.K_W (dict_get T Save.K_W) + glen Save.K_Index (dict_get T Save.K_Index)
   + glen K_Filter (dict_get T K_Filter) + glen K_Length (dict_get T K_Length)
   = dlen T + elen K_Type (OName K_XRef) + elen Save.K_Size (OInt sz) + elen Save.K_W xs_W
     + elen Save.K_Index idx + elen K_Length (OInt len))%nat.
Proof.
  intro W. unfold xs_trailer.
  set (a1 := dict_set T K_Type (OName K_XRef)). set (a2 := dict_set a1 Save.K_Size (OInt sz)).
  set (a3 := dict_set a2 Save.K_W xs_W). set (a4 := dict_set a3 Save.K_Index idx).
  set (a5 := dict_swap_remove a4 K_Filter).
  assert (W4 : dict_wf a4) by (unfold a4, a3, a2, a1; repeat apply dict_set_wf; exact W).
  pose proof (dlen_set T K_Type (OName K_XRef)) as E1. fold a1 in E1.
  pose proof (dlen_set a1 Save.K_Size (OInt sz)) as E2. fold a2 in E2.
  pose proof (dlen_set a2 Save.K_W xs_W) as E3. fold a3 in E3.
  pose proof (dlen_set a3 Save.K_Index idx) as E4. fold a4 in E4.
  pose proof (dlen_swap_remove a4 K_Filter W4) as E5. fold a5 in E5.
  pose proof (dlen_set a5 K_Length (OInt len)) as E6.
  assert (G2 : dict_get a1 Save.K_Size = dict_get T Save.K_Size)
    by (unfold a1; rewrite !FilterProofsDict.dict_get_set_other by discriminate; reflexivity).
  assert (G3 : dict_get a2 Save.K_W = dict_get T Save.K_W)
    by (unfold a2, a1; rewrite !FilterProofsDict.dict_get_set_other by discriminate; reflexivity).
  assert (G4 : dict_get a3 Save.K_Index = dict_get T Save.K_Index)
    by (unfold a3, a2, a1; rewrite !FilterProofsDict.dict_get_set_other by discriminate; reflexivity).
  assert (G5 : dict_get a4 K_Filter = dict_get T K_Filter)
    by (unfold a4, a3, a2, a1; rewrite !FilterProofsDict.dict_get_set_other by discriminate; reflexivity).
  assert (G6 : dict_get a5 K_Length = dict_get T K_Length).
  { unfold a5. rewrite (FilterProofsDict.dict_get_swap_remove_other a4 K_Filter K_Length W4) by discriminate.
    unfold a4, a3, a2, a1. rewrite !FilterProofsDict.dict_get_set_other by discriminate. reflexivity. }
  rewrite G2 in E2. rewrite G3 in E3. rewrite G4 in E4. rewrite G5 in E5. rewrite G6 in E6. lia.
Qed.

(* the trailer of the reloaded document: the stream dictionary in normal form without Length, W, Index *)
Section SecondDict.
  Variables (tr : dict) (sz : Z) (idx : obj) (len : Z).
  Hypothesis W : dict_wf tr.
  Hypothesis Hidx : norm_obj idx = idx.
  Let t6 := xs_trailer tr sz idx len.
  Let n6 := norm_dict t6.

  Lemma n6_wf : dict_wf n6.
  Proof. apply norm_dict_wf, xs_trailer_wf. exact W. Qed.

  Lemma n6_get k : dict_get n6 k = option_map norm_obj (dict_get t6 k).
  Proof. apply dict_get_norm. Qed.

  Lemma T_get_type : dict_get (sr3 n6) K_Type = Some (OName K_XRef).
  Proof. rewrite sr3_get by exact n6_wf. rewrite n6_get. unfold t6. rewrite xs_trailer_get by exact W. reflexivity. Qed.
  Lemma T_get_size : dict_get (sr3 n6) Save.K_Size = Some (OInt sz).
  Proof. rewrite sr3_get by exact n6_wf. rewrite n6_get. unfold t6. rewrite xs_trailer_get by exact W. reflexivity. Qed.
  Lemma T_get_w : dict_get (sr3 n6) Save.K_W = None.
  Proof. rewrite sr3_get by exact n6_wf. reflexivity. Qed.
  Lemma T_get_index : dict_get (sr3 n6) Save.K_Index = None.
  Proof. rewrite sr3_get by exact n6_wf. reflexivity. Qed.
  Lemma T_get_length : dict_get (sr3 n6) K_Length = None.
  Proof. rewrite sr3_get by exact n6_wf. reflexivity. Qed.
  Lemma T_get_filter : dict_get (sr3 n6) K_Filter = None.
  Proof. rewrite sr3_get by exact n6_wf. rewrite n6_get. unfold t6. rewrite xs_trailer_get by exact W. reflexivity. Qed.

  Lemma dlen_sr3 :
    (dlen (sr3 n6) + elen K_Length (OInt len) + elen Save.K_W xs_W + elen Save.K_Index idx = dlen n6)%nat.
  Proof.
    pose proof n6_wf as Wn. unfold sr3.
    set (b1 := dict_swap_remove n6 K_Length). set (b2 := dict_swap_remove b1 Xref.K_W).
    assert (W1 : dict_wf b1) by (apply swap_remove_wf; exact Wn).
    assert (W2 : dict_wf b2) by (apply swap_remove_wf; exact W1).
    pose proof (dlen_swap_remove n6 K_Length Wn) as R1. fold b1 in R1.
    pose proof (dlen_swap_remove b1 Xref.K_W W1) as R2. fold b2 in R2.
    pose proof (dlen_swap_remove b2 Xref.K_Index W2) as R3.
    assert (G1 : dict_get n6 K_Length = Some (OInt len)).
    { rewrite n6_get. unfold t6. rewrite xs_trailer_get by exact W. reflexivity. }
    assert (G2 : dict_get b1 Xref.K_W = Some xs_W).
    { unfold b1. rewrite (FilterProofsDict.dict_get_swap_remove_other n6 K_Length Xref.K_W Wn) by discriminate.
      rewrite n6_get. unfold t6. rewrite xs_trailer_get by exact W. reflexivity. }
    assert (G3 : dict_get b2 Xref.K_Index = Some idx).
    { unfold b2. rewrite (FilterProofsDict.dict_get_swap_remove_other b1 Xref.K_W Xref.K_Index W1) by discriminate.
      unfold b1. rewrite (FilterProofsDict.dict_get_swap_remove_other n6 K_Length Xref.K_Index Wn) by discriminate.
      rewrite n6_get. unfold t6. rewrite xs_trailer_get by exact W. change (option_map norm_obj (Some idx) = Some idx).
      cbn [option_map]. rewrite Hidx. reflexivity. }
    rewrite G1 in R1. rewrite G2 in R2. rewrite G3 in R3. cbn [glen] in *.
    change Xref.K_W with Save.K_W in *. change Xref.K_Index with Save.K_Index in *. lia.
  Qed.

  Lemma dlen_second sz' idx' len' :
    (dlen (xs_trailer (sr3 n6) sz' idx' len') + elen Save.K_Size (OInt sz) + elen Save.K_Index idx + elen K_Length (OInt len)
     = dlen n6 + elen Save.K_Size (OInt sz') + elen Save.K_Index idx' + elen K_Length (OInt len'))%nat.
  Proof.
    pose proof (dlen_xs_trailer (sr3 n6) sz' idx' len' (sr3_wf n6 n6_wf)) as E.
    rewrite T_get_type, T_get_size, T_get_w, T_get_index, T_get_length, T_get_filter in E. cbn [glen] in E.
    pose proof dlen_sr3. lia.
  Qed.
End SecondDict.

Lemma save_core_stream_bytes d : d_max_id d + 2 < u32_mod -> binary_mark_ok (d_binary_mark d) = true ->
  so_bytes (save_core XStream d) =
  body_of d ++ write_indirect_object (d_max_id d + 1) 0
                 (OStream (fst (fst (xstream_of d))) (snd (fst (xstream_of d)))) ++ startxref_bytes (blen (body_of d)).
Proof.
  intros Hm Hk. unfold xstream_of, save_core.
  replace (u32_top <=? d_max_id d) with false by (symmetry; apply N.leb_gt; unfold u32_top, u32_mod in *; lia).
  rewrite Hk. cbn [negb].
  pose proof (xref_start_is_length d) as Hl. unfold xref_start_of, body_of, xmap_of in *.
  destruct (save_body d) as [[body xs] x]. cbn [fst snd] in *. subst xs.
  replace (u32_top <=? d_max_id d + 1) with false by (symmetry; apply N.leb_gt; unfold u32_top, u32_mod in *; lia).
  destruct (xstream_parts d x (Save.blen body mod u32_mod)) as [[t c] x1]. cbn [so_bytes fst snd]. rewrite <- ?app_assoc. reflexivity.
Qed.

Lemma wio_stream_cmp id id' t t' c c' a :
  (length (N_dec id') <= length (N_dec id) + 1)%nat -> (dlen t' <= dlen t + a)%nat -> length c' = length c ->
  (length (write_indirect_object id' 0 (OStream t' c')) <= length (write_indirect_object id 0 (OStream t c)) + 1 + a)%nat.
Proof.
  intros H1 H2 H3. rewrite !wio_eq, !write_stream_eq, !write_dict_eq. repeat (rewrite !app_length; cbn [length]).
  change (need_separator (OStream t' c')) with (need_separator (OStream t c)).
  change (need_end_separator (OStream t' c')) with (need_end_separator (OStream t c)). unfold dlen in H2. lia.
Qed.

Definition stream_slack : nat := 16.

(* ---------- STREAM FORMAT: the second file is at most 16 bytes longer than the first ---------- *)
Theorem second_stream_le d : savable_core_enc d -> d_max_id d + 3 < u32_mod ->
  (length (so_bytes (save_core XStream (restream d))) <= length (so_bytes (save_core XStream d)) + stream_slack)%nat.
Proof.
  intros Sv Hm3. pose proof (se_objects d Sv) as Ho.
  pose proof (se_trailer d Sv) as Hwt. inversion Hwt as [| | | | | | |tr0 W Wv|]; subst.
  rewrite (save_core_stream_bytes d) by (try apply (se_mark d Sv); lia).
  rewrite (save_core_stream_bytes (restream d)) by (cbn [restream with_objects reloaded_stream d_max_id d_binary_mark]; try apply (se_mark d Sv); lia).
  (* the body *)
  assert (Hbody : (length (body_of (restream d)) <= length (body_of d))%nat).
  { rewrite !body_of_len. cbn [restream with_objects d_objects].
    assert (objs_len (norm_objects (d_objects d)) <= objs_len (d_objects d))%nat.
    { apply objs_len_norm. eapply Forall_impl; [|exact Ho]. intros io [_ [_ [H _]]]. exact H. }
    change (header_bytes (restream d)) with (header_bytes d). change (mark_bytes (restream d)) with (mark_bytes d). lia. }
  assert (Hs : (length (startxref_bytes (blen (body_of (restream d)))) <= length (startxref_bytes (blen (body_of d))))%nat).
  { rewrite !startxref_len. pose proof (N_dec_mono (blen (body_of (restream d))) (blen (body_of d))) as K. unfold blen in *. lia. }
  (* the two cross-reference streams *)
  set (M := d_max_id d) in *.
  set (x1 := Save.xinsert (xmap_of d) (M + 1) (Save.XNormal (Save.blen (body_of d) mod u32_mod) 0)).
  set (secs := stream_sections x1 (M + 1)).
  set (x1' := Save.xinsert (xmap_of (restream d)) (M + 1 + 1) (Save.XNormal (Save.blen (body_of (restream d)) mod u32_mod) 0)).
  set (secs' := stream_sections x1' (M + 1 + 1)).
  set (t6 := xs_trailer (d_trailer d) (Z.of_N (M + 1 + 1)) (xstream_index secs) (Z.of_nat (length (xstream_content secs)))).
  assert (E1 : xstream_of d = (t6, xstream_content secs, x1)) by (unfold xstream_of; rewrite xstream_parts_eq; reflexivity).
  assert (Etr : d_trailer (restream d) = sr3 (norm_dict t6)).
  { change (d_trailer (restream d)) with (sr3 (norm_dict (fst (fst (xstream_of d))))). rewrite E1. reflexivity. }
  assert (E2 : xstream_of (restream d) =
               (xs_trailer (sr3 (norm_dict t6)) (Z.of_N (M + 1 + 1 + 1)) (xstream_index secs') (Z.of_nat (length (xstream_content secs'))),
                xstream_content secs', x1')).
  { unfold xstream_of. rewrite xstream_parts_eq. rewrite Etr. reflexivity. }
  rewrite E1, E2. cbn [fst snd].
  change (d_max_id (restream d)) with (M + 1).
  (* the sub-sections *)
  assert (HR : Rsh (shape secs) (shape secs')).
  { unfold secs, secs', stream_sections.
    replace (N.to_nat (M + 1)) with (S (N.to_nat M)) by lia. replace (N.to_nat (M + 1 + 1)) with (S (S (N.to_nat M))) by lia.
    assert (Hw : forall j, M < j -> writes (d_objects d) j = false).
    { intros j Hj. apply (writes_bound _ j M); [|exact Hj]. eapply Forall_impl; [|exact Ho]. intros io [H _]. exact H. }
    assert (Hx1 : forall j, has x1 j = (M + 1 =? j) || writes (d_objects d) j).
    { intro j. unfold has, x1. rewrite xget_xinsert. destruct (M + 1 =? j); [reflexivity|]. apply xmap_has. }
    assert (Hx1' : forall j, has x1' j = (M + 1 + 1 =? j) || writes (d_objects d) j).
    { intro j. unfold has, x1'. rewrite xget_xinsert. destruct (M + 1 + 1 =? j); [reflexivity|].
      fold (has (xmap_of (restream d)) j). rewrite xmap_has. cbn [restream with_objects d_objects]. apply writes_norm. }
    apply stream_tail_step; rewrite ?N2Nat.id.
    - intros j Hj1 Hj2. rewrite Hx1, Hx1'.
      replace (M + 1 =? j) with false by (symmetry; apply N.eqb_neq; lia).
      replace (M + 1 + 1 =? j) with false by (symmetry; apply N.eqb_neq; lia). reflexivity.
    - rewrite Hx1. replace (M + 1 =? 1 + M) with true by (symmetry; apply N.eqb_eq; lia). reflexivity.
    - rewrite Hx1'. replace (M + 1 + 1 =? 1 + M) with false by (symmetry; apply N.eqb_neq; lia). apply Hw. lia.
    - rewrite Hx1'. replace (M + 1 + 1 =? 1 + M + 1) with true by (symmetry; apply N.eqb_eq; lia). reflexivity.
    - unfold u32_mod in *. lia.
    - reflexivity. }
  destruct HR as [Hcnt Hitl].
  assert (Hc : length (xstream_content secs') = length (xstream_content secs)) by (rewrite !xstream_content_len; lia).
  (* the dictionaries *)
  assert (Hd : (dlen (xs_trailer (sr3 (norm_dict t6)) (Z.of_N (M + 1 + 1 + 1)) (xstream_index secs') (Z.of_nat (length (xstream_content secs'))))
                <= dlen t6 + 15)%nat).
  { pose proof (dlen_second (d_trailer d) (Z.of_N (M + 1 + 1)) (xstream_index secs) (Z.of_nat (length (xstream_content secs)))
                  W (norm_index secs) (Z.of_N (M + 1 + 1 + 1)) (xstream_index secs') (Z.of_nat (length (xstream_content secs')))) as E.
    fold t6 in E. rewrite Hc in E. rewrite Hc.
    assert (Hn : (dlen (norm_dict t6) <= dlen t6)%nat).
    { apply dlen_norm_le. unfold t6. apply (xs_trailer_forall (fun v => (wlen (norm_obj v) <= wlen v)%nat)); try exact W; try (cbn; lia).
      - eapply Forall_impl; [|exact Wv]. intros kv Hkv. apply write_norm_le. exact Hkv.
      - rewrite norm_index. lia. }
    pose proof (elen_int_succ Save.K_Size (M + 1 + 1)) as Hsz.
    destruct (index_wlen secs) as [_ I1]. destruct (index_wlen secs') as [I2 _].
    assert (Hi : (elen Save.K_Index (xstream_index secs') <= elen Save.K_Index (xstream_index secs) + 14)%nat).
    { unfold elen. change (need_separator (xstream_index secs')) with (need_separator (xstream_index secs)). unfold wlen in *. lia. }
    lia. }
  pose proof (wio_stream_cmp (M + 1) (M + 1 + 1) t6 _ (xstream_content secs) (xstream_content secs') 15 (N_dec_succ (M + 1)) Hd Hc) as Hw.
  unfold stream_slack. rewrite !app_length. lia.
Qed.

(* ================================ the second file, from the first ================================ *)
Definition slack (xt : xref_type) : nat := match xt with XTable => 0%nat | XStream => stream_slack end.

(* the property's comparison of sizes: |save xt (load (save xt d))| <= |save xt d| + slack xt *)
Theorem second_file_le xt d : savable_enc d -> cycles_fit xt d ->
  (length (so_bytes (save xt (reloaded xt d))) <= length (so_bytes (save xt d)) + slack xt)%nat.
Proof.
  intros S Hfit. pose proof (savable_written_enc d S) as S0.
  rewrite (save_written xt d), (save_written xt (reloaded xt d)). destruct xt; cbn [reloaded slack].
  - rewrite written_reloaded_table_enc by exact S0. pose proof (second_table_le (written d) S0). lia.
  - rewrite written_reloaded_stream_enc by exact S0. apply second_stream_le; [exact S0|].
    rewrite written_savable_enc by exact S. exact Hfit.
Qed.

(* the first file is below 4 GiB with [slack xt] bytes to spare (0 for the table format, 16 for the stream format) *)
Definition small_file_slack (xt : xref_type) (d : doc) : Prop :=
  Save.blen (so_bytes (save xt d)) + N.of_nat (slack xt) < u32_mod.

Lemma small_file_of_slack xt d : small_file_slack xt d -> small_file xt d.
Proof. unfold small_file_slack, small_file. lia. Qed.

Theorem small_file_second xt d : savable_enc d -> cycles_fit xt d -> small_file_slack xt d -> small_file xt (reloaded xt d).
Proof.
  intros S Hfit Hs. pose proof (second_file_le xt d S Hfit) as H. unfold small_file_slack, small_file, Save.blen in *. lia.
Qed.

(* C01 in full with a size hypothesis on the FIRST file only *)
Theorem load_save_full_slack xt d :
  savable d -> known_deep d = false -> small_file_slack xt d -> cycles_fit xt d ->
  load (so_bytes (save xt d)) = LOk (reloaded xt d) (xtype_of xt) /\
  same_doc d (reloaded xt d) /\
  load (so_bytes (save xt (reloaded xt d))) = LOk (reloaded xt (reloaded xt d)) (xtype_of xt) /\
  same_doc (reloaded xt d) (reloaded xt (reloaded xt d)) /\
  same_doc d (reloaded xt (reloaded xt d)).
Proof.
  intros S K Hs Hfit.
  destruct (load_save_full xt d S K (small_file_of_slack xt d Hs) Hfit) as [L1 [D1 H2]].
  destruct (H2 (small_file_second xt d (savable_enc_of d S) Hfit Hs)) as [L2 [D2 D3]].
  split; [exact L1|]. split; [exact D1|]. split; [exact L2|]. split; assumption.
Qed.

Theorem load_save_enc_slack decompress can_decompress (R : Type) (ret : lres -> R) (after : Xref.xmap -> doc -> xtype -> R) xt d :
  savable_enc d -> known_deep d = false -> small_file_slack xt d -> cycles_fit xt d ->
  (exists x : Save.xmap, Forall normal_ok x /\
     load_encx decompress can_decompress R ret after (so_bytes (save xt d)) =
     if dict_has (d_trailer d) Save.K_Encrypt then after (conv_map x) (reloaded xt d) (xtype_of xt)
     else ret (LOk (reloaded xt d) (xtype_of xt))) /\
  same_doc d (reloaded xt d) /\
  (exists x : Save.xmap, Forall normal_ok x /\
     load_encx decompress can_decompress R ret after (so_bytes (save xt (reloaded xt d))) =
     if dict_has (d_trailer (reloaded xt d)) Save.K_Encrypt
     then after (conv_map x) (reloaded xt (reloaded xt d)) (xtype_of xt)
     else ret (LOk (reloaded xt (reloaded xt d)) (xtype_of xt))) /\
  same_doc (reloaded xt d) (reloaded xt (reloaded xt d)) /\
  same_doc d (reloaded xt (reloaded xt d)).
Proof.
  intros S K Hs Hfit.
  destruct (load_save_enc decompress can_decompress R ret after xt d S K (small_file_of_slack xt d Hs) Hfit) as [L1 [D1 H2]].
  destruct (H2 (small_file_second xt d S Hfit Hs)) as [L2 [D2 D3]].
  split; [exact L1|]. split; [exact D1|]. split; [exact L2|]. split; assumption.
Qed.

(* ---------- what a string costs in the file (for the size of an ENCRYPTED document, notes/C05.md) ---------- *)
Lemma lit_emit_len : forall text i esc, (length text <= length (lit_emit i text esc) <= 2 * length text)%nat.
Proof.
  induction text as [|b t IH]; intros i esc; cbn [lit_emit length]; [lia|].
  specialize (IH (S i) esc). destruct (nat_in i esc); cbn [length]; lia.
Qed.

(* a literal string of n bytes is written in n + 2 .. 2 n + 2 bytes, a hexadecimal string in 2 n + 2 *)
Theorem string_written_length s :
  (length s + 2 <= length (write_literal s) <= 2 * length s + 2)%nat /\ length (write_hex s) = (2 * length s + 2)%nat.
Proof.
  split.
  - unfold write_literal. cbn [length]. rewrite app_length. cbn [length].
    pose proof (lit_emit_len s 0%nat (lit_scan 0 s [] [])). lia.
  - unfold write_hex. cbn [length]. rewrite app_length. cbn [length].
    assert (length (flat_map hex2_upper s) = (2 * length s)%nat).
    { induction s as [|b t IH]; [reflexivity|]. cbn [flat_map length app hex2_upper]. rewrite IH. lia. }
    lia.
Qed.
