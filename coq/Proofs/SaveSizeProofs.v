(* SaveSizeProofs.v -- the size of the file written in the SECOND cycle of property C01 is derived from the size
   of the first: the document that comes back from load (save d) is written in no more bytes than d itself in
   the cross-reference TABLE format, and in at most [stream_slack] more bytes in the cross-reference STREAM
   format.  So the hypothesis "the second file is below 4 GiB" of C01_full follows from a bound on the FIRST
   file (Props/C01.v: C01_full_slack).

   Why: the reloaded document differs from d by
     - the normal form of the objects: an integral real below 2^63 comes back as the integer it denotes, whose
       decimal spelling is not longer ([write_norm_le]; "-0" -> "0", "007" -> "7"); integers and reals are in
       the same separator classes, so no separator appears ([need_sep_norm]);
     - max_id = the largest object number (table) resp. max_id + 1 (stream): the cross-reference table has the
       same sub-sections with the same numbers of 20-byte entries ([sections_loop_shape], [sections_loop_extra]),
       Size does not grow (table) resp. grows by one (stream: at most one more digit);
     - the stream format: the new cross-reference stream has the number max_id + 2 instead of max_id + 1 (one more
       digit at most), the same number of 7-byte entries, and an Index array with at most one more sub-section
       ([index_tail_step]: 13 more bytes at most);
     - startxref: the body is not longer, so its decimal spelling is not longer ([N_dec_mono]). *)
From LV Require Import Base.Bytes Base.Sx Model.Obj Model.Writer Model.Parser Model.Save Model.Xref Model.Loader
  Model.Utf Gen.Lex Gen.SaveFmt Proofs.LexProofs Proofs.RealProofs Proofs.ObjectRtProofs Proofs.SaveProofs
  Proofs.FilterProofsDict Spec.SaveSpec Proofs.LoadProofs Proofs.LoadProofsFile Proofs.LoadProofsXref
  Proofs.LoadProofsTable Proofs.LoadProofsAgain Proofs.LoadProofsStream Proofs.LoadProofsFull.
From Coq Require Import ZifyBool ZifyN ZifyNat Permutation.

Local Open Scope N_scope.

(* ---------- decimal spellings ---------- *)
Lemma fold_dstep_lt : forall ds acc, forallb is_dec_digit ds = true ->
  fold_left dstep ds acc < (acc + 1) * 10 ^ N.of_nat (length ds).
Proof.
  induction ds as [|c ds IH]; intros acc H; cbn [fold_left length].
  - change (N.of_nat 0) with 0. rewrite N.pow_0_r. lia.
  - cbn [forallb] in H. apply andb_true_iff in H as [Hc Ht]. specialize (IH (dstep acc c) Ht).
    assert (Hd : dstep acc c + 1 <= (acc + 1) * 10) by (unfold dstep, is_dec_digit in *; lia).
    rewrite Nat2N.inj_succ, N.pow_succ_r'. set (p := 10 ^ N.of_nat (length ds)) in *.
    assert ((dstep acc c + 1) * p <= (acc + 1) * 10 * p) by (apply N.mul_le_mono_r; exact Hd). lia.
Qed.

Lemma digits_val_lt ds : forallb is_dec_digit ds = true -> digits_val ds < 10 ^ N.of_nat (length ds).
Proof. intro H. rewrite digits_val_fold. pose proof (fold_dstep_lt ds 0 H). lia. Qed.

Lemma N_dec_lt n : n < 10 ^ N.of_nat (length (N_dec n)).
Proof. pose proof (digits_val_lt (N_dec n) (N_dec_digits n)) as H. rewrite N_dec_val in H. exact H. Qed.

Lemma N_dec_pos n : (0 < length (N_dec n))%nat.
Proof. pose proof (N_dec_nonempty n). destruct (N_dec n); [contradiction | cbn; lia]. Qed.

(* the spelling of a smaller number is not longer *)
Lemma N_dec_mono a b : a <= b -> (length (N_dec a) <= length (N_dec b))%nat.
Proof. intro H. apply N_dec_length; [apply N_dec_pos|]. pose proof (N_dec_lt b). lia. Qed.

Lemma N_dec_succ a : (length (N_dec (a + 1)) <= length (N_dec a) + 1)%nat.
Proof.
  replace (length (N_dec a) + 1)%nat with (S (length (N_dec a))) by lia.
  apply N_dec_length; [lia|]. rewrite Nat2N.inj_succ, N.pow_succ_r'. pose proof (N_dec_lt a). lia.
Qed.

Lemma N_dec_u32 a : a < u32_mod -> (length (N_dec a) <= 10)%nat.
Proof. intro H. apply N_dec_length; [lia|]. change (10 ^ N.of_nat 10) with 10000000000. unfold u32_mod in H. lia. Qed.

Lemma digits_dec_le ds : ds <> [] -> forallb is_dec_digit ds = true -> (length (N_dec (digits_val ds)) <= length ds)%nat.
Proof. intros Hne Hd. apply N_dec_length; [destruct ds; [contradiction | cbn; lia]|]. apply digits_val_lt. exact Hd. Qed.

(* ---------- the normal form of an object is not written longer ---------- *)
Lemma real_text_length neg ds fs :
  length (real_text neg ds fs) = ((if neg then 1 else 0) + length ds + match fs with [] => 0 | _ => S (length fs) end)%nat.
Proof. unfold real_text. rewrite !app_length. destruct neg, fs; cbn [length]; lia. Qed.

Lemma int_of_text_len neg ds : ds <> [] -> forallb is_dec_digit ds = true ->
  (length (Z_dec (int_of_text neg ds)) <= length (real_text neg ds []))%nat.
Proof.
  intros Hne Hd. pose proof (digits_dec_le ds Hne Hd) as H. rewrite real_text_length.
  assert (1 <= length ds)%nat by (destruct ds; [contradiction | cbn; lia]).
  unfold int_of_text. destruct (digits_val ds) as [|p] eqn:E.
  - destruct neg; cbn [Z.of_N Z.opp Z_dec length] in *; lia.
  - destruct neg; cbn [Z.of_N Z.opp Z_dec length] in *; lia.
Qed.

Lemma norm_real_len r : real_wf r -> (length (write_object (norm_real r)) <= length (write_real r))%nat.
Proof.
  intros [neg [ds [fs [-> [Hne [Hd Hf]]]]]]. destruct fs as [|f0 fs].
  - rewrite (norm_real_int neg ds Hne Hd). unfold write_real. rewrite (needs_point_text neg ds Hne Hd).
    destruct (REAL_POINT_DISPLAY_THRESHOLD <=? digits_val ds) eqn:E.
    + cbn [write_object]. unfold write_real. rewrite needs_point_frac by (auto; discriminate).
      unfold real_text. rewrite !app_length. cbn [length]. lia.
    + cbn [write_object]. apply int_of_text_len; assumption.
  - rewrite norm_real_frac by (auto; discriminate). cbn [write_object]. lia.
Qed.

Lemma need_sep_norm o : need_separator (norm_obj o) = need_separator o.
Proof.
  destruct o as [|b|z|r|n|s h|l|d|d c|i g]; try reflexivity.
  cbn [norm_obj]. destruct (norm_real_shape r) as [[z ->]|[r' ->]]; reflexivity.
Qed.

Lemma need_end_sep_norm o : need_end_separator (norm_obj o) = need_end_separator o.
Proof.
  destruct o as [|b|z|r|n|s h|l|d|d c|i g]; try reflexivity.
  cbn [norm_obj]. destruct (norm_real_shape r) as [[z ->]|[r' ->]]; reflexivity.
Qed.

Definition wlen (o : obj) : nat := length (write_object o).

Lemma arr_tail_norm_le l :
  Forall (fun x => obj_wf x -> (wlen (norm_obj x) <= wlen x)%nat) l -> Forall obj_wf l ->
  (length (write_arr_tail (map norm_obj l)) <= length (write_arr_tail l))%nat.
Proof.
  induction 1 as [|x l Hx _ IH]; intro W; [cbn; lia|]. inversion W as [|? ? Wx Wl]; subst.
  cbn [map write_arr_tail]. rewrite !app_length, need_sep_norm. specialize (Hx Wx). specialize (IH Wl). unfold wlen in Hx. lia.
Qed.

Lemma dict_body_norm_le d :
  Forall (fun kv => obj_wf (snd kv) -> (wlen (norm_obj (snd kv)) <= wlen (snd kv))%nat) d ->
  Forall (fun kv => obj_wf (snd kv)) d ->
  (length (write_dict_body (norm_dict d)) <= length (write_dict_body d))%nat.
Proof.
  induction 1 as [|[k v] d Hx _ IH]; intro W; [cbn; lia|]. inversion W as [|? ? Wx Wl]; subst.
  cbn [norm_dict map write_dict_body fst snd]. fold (norm_dict d). rewrite !app_length, need_sep_norm.
  specialize (Hx Wx). specialize (IH Wl). unfold wlen in Hx. cbn [snd] in Hx. lia.
Qed.

Theorem write_norm_le o : obj_wf o -> (wlen (norm_obj o) <= wlen o)%nat.
Proof.
  induction o using obj_rt_ind; intro W; unfold wlen; cbn [norm_obj]; try lia.
  - inversion W; subst. change (write_object (OReal r)) with (write_real r). apply norm_real_len. assumption.
  - inversion W as [| | | | | |? Wl| |]; subst. rewrite !write_arr_eq. cbn [length]. rewrite !app_length. cbn [length].
    destruct l as [|x l]; [cbn; lia|]. inversion H as [|? ? Hx Hl]; subst. inversion Wl as [|? ? Wx Wl']; subst.
    cbn [map arr_items]. rewrite !app_length. pose proof (arr_tail_norm_le l Hl Wl'). specialize (Hx Wx). unfold wlen in Hx. lia.
  - inversion W as [| | | | | | |? Wn Wd|]; subst. fold (norm_dict d). rewrite !write_dict_eq. cbn [length]. rewrite !app_length.
    pose proof (dict_body_norm_le d H Wd). lia.
  - inversion W.
Qed.

Lemma dict_norm_le d : obj_wf (ODict d) -> (length (write_dict_body (norm_dict d)) <= length (write_dict_body d))%nat.
Proof.
  intro W. inversion W as [| | | | | | |? Wn Wd|]; subst. apply dict_body_norm_le; [|exact Wd].
  apply Forall_forall. intros kv _. apply write_norm_le.
Qed.

Lemma top_norm_le o : top_wf o -> (wlen (norm_obj o) <= wlen o)%nat.
Proof.
  destruct o as [|b|z|r|n|s h|l|d|d c|i g]; cbn [top_wf]; intro H; try (apply write_norm_le; exact H).
  destruct H as [W _]. unfold wlen. cbn [norm_obj]. fold (norm_dict d). rewrite !write_stream_eq, !write_dict_eq.
  repeat (rewrite !app_length; cbn [length]). pose proof (dict_norm_le d W). lia.
Qed.

Lemma wio_norm_le id g o : top_wf o ->
  (length (write_indirect_object id g (norm_obj o)) <= length (write_indirect_object id g o))%nat.
Proof.
  intro H. rewrite !wio_eq. repeat (rewrite !app_length; cbn [length]). rewrite need_sep_norm, need_end_sep_norm.
  pose proof (top_norm_le o H) as K. unfold wlen in K. lia.
Qed.

(* ---------- the object loop: bytes written and numbers recorded ---------- *)
Fixpoint objs_len (objs : objmap) : nat :=
  match objs with
  | [] => 0%nat
  | ((id, g), o) :: rest => if skipped o then objs_len rest else (length (write_indirect_object id g o) + objs_len rest)%nat
  end.

Lemma write_objects_len : forall objs pos x, length (fst (fst (write_objects pos objs x))) = objs_len objs.
Proof.
  induction objs as [|[[id g] o] rest IH]; intros pos x; cbn [write_objects objs_len]; [reflexivity|].
  destruct (skipped o); [apply IH|].
  specialize (IH (pos + blen (write_indirect_object id g o)) (Save.xinsert x id (Save.XNormal (pos mod u32_mod) g))).
  destruct (write_objects _ rest _) as [[b p] x'] eqn:E. cbn [fst snd] in *. rewrite app_length, IH. reflexivity.
Qed.

Lemma objs_len_norm objs : Forall (fun io : oid * obj => top_wf (snd io)) objs ->
  (objs_len (norm_objects objs) <= objs_len objs)%nat.
Proof.
  induction 1 as [|[[id g] o] rest H _ IH]; [cbn; lia|]. cbn [norm_objects map fst snd objs_len]. fold (norm_objects rest).
  rewrite skipped_norm. destruct (skipped o); [exact IH|]. pose proof (wio_norm_le id g o H). lia.
Qed.

Lemma body_of_len d :
  length (body_of d) = (length (header_bytes d) + length (mark_bytes d) + objs_len (d_objects d))%nat.
Proof. unfold body_of. rewrite save_body_eq. cbv zeta. cbn [fst]. rewrite !app_length, write_objects_len. reflexivity. Qed.

(* which object numbers the map records *)
Definition has (x : Save.xmap) (j : N) : bool := match Save.xget x j with Some _ => true | None => false end.
Definition writes (objs : objmap) (j : N) : bool :=
  existsb (fun io : oid * obj => (fst (fst io) =? j) && negb (skipped (snd io))) objs.

Lemma write_objects_has : forall objs pos x j,
  has (snd (write_objects pos objs x)) j = has x j || writes objs j.
Proof.
  induction objs as [|[[id g] o] rest IH]; intros pos x j; cbn [write_objects writes existsb fst snd].
  - rewrite orb_false_r. reflexivity.
  - fold (writes rest j). destruct (skipped o); cbn [negb]; [rewrite andb_false_r; apply IH|].
    specialize (IH (pos + blen (write_indirect_object id g o)) (Save.xinsert x id (Save.XNormal (pos mod u32_mod) g)) j).
    destruct (write_objects _ rest _) as [[b p] x'] eqn:E. cbn [fst snd] in *. rewrite IH.
    unfold has at 1. rewrite xget_xinsert. rewrite andb_true_r. destruct (id =? j); [destruct (has x j); reflexivity|].
    reflexivity.
Qed.

Lemma xmap_has d j : has (xmap_of d) j = writes (d_objects d) j.
Proof. unfold xmap_of. rewrite save_body_eq. cbv zeta. cbn [snd]. rewrite write_objects_has. reflexivity. Qed.

Lemma writes_norm objs j : writes (norm_objects objs) j = writes objs j.
Proof.
  induction objs as [|[[id g] o] rest IH]; [reflexivity|]. cbn [norm_objects map writes existsb fst snd].
  rewrite skipped_norm. fold (norm_objects rest). fold (writes (norm_objects rest) j). fold (writes rest j). rewrite IH. reflexivity.
Qed.

Lemma writes_bound objs j B : Forall (fun io : oid * obj => fst (fst io) <= B) objs -> B < j -> writes objs j = false.
Proof.
  induction 1 as [|io rest H _ IH]; intro Hj; [reflexivity|]. cbn [writes existsb]. fold (writes rest j). rewrite (IH Hj).
  replace (fst (fst io) =? j) with false by (symmetry; apply N.eqb_neq; lia). reflexivity.
Qed.

Lemma has_none x j : has x j = false -> Save.xget x j = None.
Proof. unfold has. destruct (Save.xget x j); [discriminate | reflexivity]. Qed.

(* every recorded entry fits the fixed-width fields *)
Lemma xmap_in_range d : Forall (fun io : oid * obj => snd (fst io) <= u16_max) (d_objects d) ->
  forall j e, Save.xget (xmap_of d) j = Some e -> xentry_in_range e.
Proof.
  intros Hg j e H. destruct e as [| |off g|c i]; cbn [xentry_in_range]; try exact I.
  destruct (offsets_sound d j off g H) as [o [pre [post [Hin [_ [_ Ho]]]]]]. subst off.
  rewrite Forall_forall in Hg. specialize (Hg _ Hin). cbn [fst snd] in Hg. split.
  - apply N.mod_lt. discriminate.
  - unfold u16_max in Hg. lia.
Qed.

(* ---------- the sectioning loop: the sub-sections depend only on WHICH numbers the map records ---------- *)
Definition shape (secs : list xsection) : list (N * nat) := map (fun s : xsection => (fst s, length (snd s))) secs.

Lemma sections_loop_shape : forall n id x x' conv conv' start cur cur',
  (forall j, has x j = has x' j) -> length cur = length cur' ->
  shape (sections_loop n id x conv start cur) = shape (sections_loop n id x' conv' start cur').
Proof.
  induction n as [|n IH]; intros id x x' conv conv' start cur cur' Hh Hl; cbn [sections_loop].
  - destruct cur, cur'; try discriminate; [reflexivity|]. cbn [shape map fst snd]. rewrite Hl. reflexivity.
  - pose proof (Hh id) as Hid. unfold has in Hid.
    assert (Hs : match cur with [] => id | _ => start end = match cur' with [] => id | _ => start end)
      by (destruct cur, cur'; try discriminate; reflexivity).
    destruct (Save.xget x id) as [e|], (Save.xget x' id) as [e'|]; try discriminate.
    + rewrite Hs. apply IH; [exact Hh|]. rewrite !app_length. cbn [length]. lia.
    + destruct cur, cur'; try discriminate.
      * apply IH; [exact Hh | reflexivity].
      * cbn [shape map fst snd]. rewrite Hl. f_equal. apply IH; [exact Hh | reflexivity].
Qed.

(* numbers beyond the last recorded one change nothing *)
Lemma sections_loop_none x conv : forall k id start cur,
  (forall j, id <= j -> Save.xget x j = None) ->
  sections_loop k id x conv start cur = match cur with [] => [] | _ => [(start, cur)] end.
Proof.
  induction k as [|k IH]; intros id start cur H; cbn [sections_loop]; [reflexivity|].
  rewrite (H id) by lia. destruct cur as [|c cur'].
  - rewrite IH by (intros; apply H; lia). reflexivity.
  - rewrite IH by (intros; apply H; lia). reflexivity.
Qed.

Lemma sections_loop_extra x conv k : forall n id start cur,
  (forall j, id + N.of_nat n <= j -> Save.xget x j = None) ->
  sections_loop (n + k) id x conv start cur = sections_loop n id x conv start cur.
Proof.
  induction n as [|n IH]; intros id start cur H.
  - cbn [plus]. rewrite sections_loop_none by (intros; apply H; lia). reflexivity.
  - cbn [plus sections_loop].
    assert (H' : forall j, id + 1 + N.of_nat n <= j -> Save.xget x j = None) by (intros; apply H; lia).
    destruct (Save.xget x id); [apply IH; exact H'|]. destruct cur; [apply IH; exact H'|]. f_equal. apply IH; exact H'.
Qed.

Lemma sections_loop_range (P : Save.xentry -> Prop) : forall n id (x : Save.xmap) conv start cur,
  Forall P cur -> (forall j e, Save.xget x j = Some e -> P (conv e)) ->
  Forall (fun s : xsection => Forall P (snd s)) (sections_loop n id x conv start cur).
Proof.
  induction n as [|n IH]; intros id x conv start cur Hc Hx; cbn [sections_loop].
  - destruct cur; [constructor|]. constructor; [exact Hc | constructor].
  - destruct (Save.xget x id) as [e|] eqn:E.
    + apply IH; [|exact Hx]. apply Forall_app. split; [exact Hc|]. constructor; [eapply Hx; exact E | constructor].
    + destruct cur; [apply IH; [constructor | exact Hx]|].
      constructor; [exact Hc | apply IH; [constructor | exact Hx]].
Qed.

(* the bytes of a list of table sub-sections, from its shape *)
Definition sec_len (s : N * nat) : nat :=
  match snd s with
  | O => 0%nat
  | k => (length (N_dec (fst s)) + 1 + length (N_dec (N.of_nat k)) + 1 + 20 * k)%nat
  end.

Lemma entries_len es : Forall xentry_in_range es -> length (flat_map write_xref_entry es) = (20 * length es)%nat.
Proof.
  induction 1 as [|e es H _ IH]; [reflexivity|]. cbn [flat_map length]. rewrite app_length, IH, (xref_entry_20 e H). lia.
Qed.

Lemma write_xref_section_len s : Forall xentry_in_range (snd s) ->
  length (write_xref_section s) = sec_len (fst s, length (snd s)).
Proof.
  intro H. unfold write_xref_section, sec_len. cbn [fst snd]. destruct (snd s) as [|e es] eqn:E; [reflexivity|].
  rewrite app_length. cbn [length]. rewrite app_length. cbn [length]. rewrite (entries_len _ H). cbn [length]. lia.
Qed.

Lemma sections_len secs : Forall (fun s : xsection => Forall xentry_in_range (snd s)) secs ->
  length (flat_map write_xref_section secs) = list_sum (map sec_len (shape secs)).
Proof.
  induction 1 as [|s secs H _ IH]; [reflexivity|]. cbn [flat_map shape map list_sum]. fold (shape secs).
  rewrite app_length, IH, (write_xref_section_len s H). reflexivity.
Qed.

Lemma table_conv_range e : xentry_in_range e -> xentry_in_range (table_conv e).
Proof. destruct e; cbn; tauto. Qed.

Lemma write_xref_len x size :
  (forall j e, Save.xget x j = Some e -> xentry_in_range e) ->
  length (write_xref x size) = (5 + list_sum (map sec_len (shape (table_sections x size))))%nat.
Proof.
  intro H. unfold write_xref. rewrite app_length. cbn [length]. rewrite sections_len; [reflexivity|].
  unfold table_sections. apply sections_loop_range; [constructor; [exact I | constructor]|].
  intros j e He. apply table_conv_range. exact (H j e He).
Qed.

(* the cross-reference table of two maps recording the same numbers, none above L, L <= M *)
Lemma write_xref_same x x' L M :
  (forall j e, Save.xget x j = Some e -> xentry_in_range e) ->
  (forall j e, Save.xget x' j = Some e -> xentry_in_range e) ->
  (forall j, has x j = has x' j) -> (forall j, L < j -> has x j = false) -> L <= M ->
  length (write_xref x' (L + 1)) = length (write_xref x (M + 1)).
Proof.
  intros R R' Hh Hb Hle. rewrite (write_xref_len x _ R), (write_xref_len x' _ R'). f_equal. f_equal. f_equal.
  unfold table_sections.
  replace (N.to_nat (M + 1 - 1)) with (N.to_nat (L + 1 - 1) + N.to_nat (M - L))%nat by lia.
  rewrite sections_loop_extra by (intros j Hj; apply has_none, Hb; lia).
  apply sections_loop_shape; [intro j; symmetry; apply Hh | reflexivity].
Qed.

(* ---------- dictionaries: the written length entry by entry ---------- *)
Definition dlen (d : dict) : nat := length (write_dict_body d).
Definition elen (k : bytes) (v : obj) : nat :=
  (length (write_name k) + length (sp_if (need_separator v)) + length (write_object v))%nat.
Definition glen (k : bytes) (ov : option obj) : nat := match ov with Some v => elen k v | None => 0%nat end.

Lemma dlen_cons k v d : dlen ((k, v) :: d) = (elen k v + dlen d)%nat.
Proof. unfold dlen, elen. cbn [write_dict_body]. rewrite !app_length. lia. Qed.

(* IndexMap::insert: the old value, if any, is replaced *)
Lemma dlen_set d k v : (dlen (dict_set d k v) + glen k (dict_get d k) = dlen d + elen k v)%nat.
Proof.
  induction d as [|[k' v'] d IH]; cbn [dict_set dict_get].
  - rewrite dlen_cons. cbn [glen]. unfold dlen. cbn. lia.
  - destruct (bytes_eqb k' k) eqn:E.
    + apply bytes_eqb_eq in E. subst k'. rewrite !dlen_cons. cbn [glen]. lia.
    + rewrite !dlen_cons. lia.
Qed.

Lemma dlen_perm d d' : Permutation d d' -> dlen d = dlen d'.
Proof.
  induction 1 as [|[k v] a b _ IH|[k v] [k' v'] a|a b c _ IH1 _ IH2]; [reflexivity| | |congruence].
  - rewrite !dlen_cons, IH. reflexivity.
  - rewrite !dlen_cons. lia.
Qed.

(* IndexMap::swap_remove: the entry is gone, the others are all still there *)
Lemma dlen_swap_remove d k : dict_wf d -> (dlen (dict_swap_remove d k) + glen k (dict_get d k) = dlen d)%nat.
Proof.
  intro W. destruct (in_dec (list_eq_dec Byte.byte_eq_dec) k (keys d)) as [Hin|Hn].
  - destruct (swap_remove_perm d k W) as (v & P). specialize (P Hin).
    assert (Hg : dict_get d k = Some v).
    { apply (FilterProofsDict.dict_get_In d k v W). apply (Permutation_in _ (Permutation_sym P)). left. reflexivity. }
    rewrite Hg. cbn [glen]. rewrite (dlen_perm _ _ P), dlen_cons. lia.
  - rewrite swap_remove_absent by exact Hn. apply dict_get_None in Hn. rewrite Hn. cbn [glen]. lia.
Qed.

Lemma write_dictionary_len t : length (write_dictionary t) = (4 + dlen t)%nat.
Proof. unfold write_dictionary, dlen. rewrite write_dict_eq. cbn [length]. rewrite app_length. cbn [length]. lia. Qed.

Lemma elen_int_mono k a b : a <= b -> (elen k (OInt (Z.of_N a)) <= elen k (OInt (Z.of_N b)))%nat.
Proof.
  intro H. unfold elen. cbn [write_object]. rewrite !Z_dec_of_N. pose proof (N_dec_mono a b H).
  change (need_separator (OInt (Z.of_N a))) with (need_separator (OInt (Z.of_N b))). lia.
Qed.

Lemma elen_int_succ k a : (elen k (OInt (Z.of_N (a + 1))) <= elen k (OInt (Z.of_N a)) + 1)%nat.
Proof.
  unfold elen. cbn [write_object]. rewrite !Z_dec_of_N. pose proof (N_dec_succ a).
  change (need_separator (OInt (Z.of_N (a + 1)))) with (need_separator (OInt (Z.of_N a))). lia.
Qed.

Lemma startxref_len n : length (startxref_bytes n) = (17 + length (N_dec n))%nat.
Proof.
  unfold startxref_bytes. repeat (rewrite ?app_length; cbn [length]).
  change (length (bs "startxref")) with 9%nat. change (length (bs "%%EOF")) with 5%nat. lia.
Qed.

(* ---------- the bytes of a successful save ---------- *)
Lemma save_core_table_bytes d : d_max_id d + 1 < u32_mod -> binary_mark_ok (d_binary_mark d) = true ->
  so_bytes (save_core XTable d) =
  body_of d ++ write_xref (xmap_of d) (d_max_id d + 1) ++ trailer_bytes (trailer_table d) ++ startxref_bytes (blen (body_of d)).
Proof.
  intros Hm Hk. unfold save_core.
  replace (u32_top <=? d_max_id d) with false by (symmetry; apply N.leb_gt; unfold u32_top, u32_mod in *; lia).
  rewrite Hk. cbn [negb].
  pose proof (xref_start_is_length d) as Hl. unfold xref_start_of, body_of, xmap_of in *.
  destruct (save_body d) as [[body xs] x]. cbn [fst snd so_bytes] in *. subst xs. rewrite <- ?app_assoc. reflexivity.
Qed.

(* ---------- TABLE FORMAT: the second file is not longer than the first ---------- *)
Theorem second_table_le d : savable_core_enc d ->
  (length (so_bytes (save_core XTable (reloaded_table d))) <= length (so_bytes (save_core XTable d)))%nat.
Proof.
  intro S. pose proof (se_max_id d S) as Hm. pose proof (se_objects d S) as Ho.
  assert (HL : last_number (d_objects d) <= d_max_id d).
  { unfold last_number. apply fold_max_le; [lia|]. eapply Forall_impl; [|exact Ho]. intros io [H1 _]. exact H1. }
  rewrite (save_core_table_bytes d) by (try apply (se_mark d S); lia).
  rewrite (save_core_table_bytes (reloaded_table d)) by (cbn [reloaded_table d_max_id d_binary_mark]; try apply (se_mark d S); lia).
  assert (Hbody : (length (body_of (reloaded_table d)) <= length (body_of d))%nat).
  { rewrite !body_of_len. cbn [reloaded_table d_objects]. 
    assert (objs_len (norm_objects (d_objects d)) <= objs_len (d_objects d))%nat.
    { apply objs_len_norm. eapply Forall_impl; [|exact Ho]. intros io [_ [_ [H _]]]. exact H. }
    change (header_bytes (reloaded_table d)) with (header_bytes d).
    change (mark_bytes (reloaded_table d)) with (mark_bytes d). lia. }
  assert (Hx : length (write_xref (xmap_of (reloaded_table d)) (d_max_id (reloaded_table d) + 1)) =
               length (write_xref (xmap_of d) (d_max_id d + 1))).
  { cbn [reloaded_table d_max_id]. apply write_xref_same.
    - apply xmap_in_range. eapply Forall_impl; [|exact Ho]. intros io [_ [H _]]. exact H.
    - apply xmap_in_range. cbn [reloaded_table d_objects]. unfold norm_objects. apply Forall_forall. intros io' Hin.
      apply in_map_iff in Hin as [io [<- Hin]]. cbn [fst snd]. rewrite Forall_forall in Ho. apply (Ho io Hin).
    - intro j. rewrite !xmap_has. cbn [reloaded_table d_objects]. symmetry. apply writes_norm.
    - intros j Hj. rewrite xmap_has. apply (writes_bound _ j (last_number (d_objects d))); [|exact Hj].
      apply Forall_forall. intros io Hin. apply le_last_number. exact Hin.
    - exact HL. }
  assert (Ht : (length (trailer_bytes (trailer_table (reloaded_table d))) <= length (trailer_bytes (trailer_table d)))%nat).
  { unfold trailer_bytes. rewrite !app_length. cbn [length]. rewrite !write_dictionary_len.
    unfold trailer_table at 1. cbn [reloaded_table d_trailer d_max_id].
    pose proof (dlen_set (norm_dict (trailer_table d)) Save.K_Size (OInt (Z.of_N (last_number (d_objects d) + 1)))) as E.
    rewrite dict_get_norm in E. unfold trailer_table at 2 in E. rewrite FilterProofsDict.dict_get_set_same in E.
    cbn [option_map norm_obj glen] in E.
    pose proof (elen_int_mono Save.K_Size (last_number (d_objects d) + 1) (d_max_id d + 1) ltac:(lia)).
    pose proof (dict_norm_le (trailer_table d) (trailer_table_wf_enc d S)) as Hn. fold (dlen (norm_dict (trailer_table d))) in Hn.
    fold (dlen (trailer_table d)) in Hn. lia. }
  assert (Hs : (length (startxref_bytes (blen (body_of (reloaded_table d)))) <= length (startxref_bytes (blen (body_of d))))%nat).
  { rewrite !startxref_len. pose proof (N_dec_mono (blen (body_of (reloaded_table d))) (blen (body_of d))) as K.
    unfold blen in *. lia. }
  rewrite !app_length. lia.
Qed.
