(* FilterProofsA85.v -- Model/A85.v against Spec/A85Spec.v. *)
From LV Require Import Base.Bytes Model.Obj Gen.Filters Model.A85 Model.FiltersPinned Spec.A85Spec Spec.StreamSpec
  Proofs.FilterProofsPng.
From Coq Require Import Lia ZArith.

Local Open Scope N_scope.

Ltac Zify.zify_post_hook ::= Z.div_mod_to_equations.

(* ---------- EOD ---------- *)

Lemma bytes_eqb_length a b : bytes_eqb a b = true -> length a = length b.
Proof. intro H. apply bytes_eqb_eq in H. congruence. Qed.

Lemma strip_suffix_app suf : forall x, strip_suffix suf (x ++ suf) = Some x.
Proof.
  induction x as [|a x IH].
  - cbn [app]. destruct suf; cbn [strip_suffix]; rewrite bytes_eqb_refl; reflexivity.
  - cbn [app strip_suffix].
    destruct (bytes_eqb (a :: x ++ suf) suf) eqn:E.
    + apply bytes_eqb_length in E. cbn [length] in E. rewrite app_length in E. lia.
    + rewrite IH. reflexivity.
Qed.

Lemma strip_eod_app x : strip_eod (x ++ A85_EOD) = x.
Proof. unfold strip_eod. rewrite strip_suffix_app. reflexivity. Qed.

(* ---------- one digit ---------- *)

(* finite fact about the 85 digit characters, checked by computation (bound visible) *)
Lemma digit_char_facts :
  below_nat 85 (fun d => negb (byte_eqb (digit d) A85_Z) && negb (is_skipped (digit d)) &&
                         in_digit_range (digit d) && (N_of_byte (digit d) - N_of_byte A85_LO =? d)) = true.
Proof. vm_compute. reflexivity. Qed.

Lemma digit_facts d : d < 85 ->
  byte_eqb (digit d) A85_Z = false /\ is_skipped (digit d) = false /\
  in_digit_range (digit d) = true /\ N_of_byte (digit d) - N_of_byte A85_LO = d.
Proof.
  intro H. pose proof (below_nat_spec 85 _ digit_char_facts d ltac:(lia)) as F. cbv beta in F.
  apply andb_true_iff in F as [F F4]. apply andb_true_iff in F as [F F3]. apply andb_true_iff in F as [F1 F2].
  apply negb_true_iff in F1. apply negb_true_iff in F2. apply N.eqb_eq in F4. auto.
Qed.

Lemma loop_digit d more buf cnt : d < 85 ->
  loop (digit d :: more) buf cnt =
  match accum buf d with
  | None => Err EA85
  | Some b => if Nat.eqb (S cnt) A85_GROUP then emit (be_bytes b) (loop more 0 O) else loop more b (S cnt)
  end.
Proof.
  intro H. destruct (digit_facts d H) as (F1 & F2 & F3 & F4).
  cbn [loop]. rewrite F1, F2, F3, F4. cbn [negb]. reflexivity.
Qed.

Lemma accum_ok buf d r : r = buf * 85 + d -> r <= U32_MAX -> accum buf d = Some r.
Proof.
  intros -> H. unfold accum, checked_mul_u32, checked_add_u32, A85_BASE.
  replace (buf * 85 <=? U32_MAX) with true by (symmetry; apply N.leb_le; lia).
  replace (buf * 85 + d <=? U32_MAX) with true by (symmetry; apply N.leb_le; lia).
  reflexivity.
Qed.

Lemma accum_div q : q <= U32_MAX -> accum (q / 85) (q mod 85) = Some q.
Proof. intro H. apply accum_ok; [pose proof (N.div_mod q 85); lia | exact H]. Qed.

Lemma accum_first q : q < 85 -> accum 0 q = Some q.
Proof. intro H. apply accum_ok; unfold U32_MAX; lia. Qed.

Lemma accum_pad q : q * 85 + 84 <= U32_MAX -> accum q A85_PAD = Some (q * 85 + 84).
Proof. intro H. apply accum_ok; [reflexivity | exact H]. Qed.

(* ---------- a full group ---------- *)

Lemma byte_of_N_eq n b : n mod 256 = N_of_byte b -> byte_of_N n = b.
Proof.
  intro H. apply N_of_byte_inj. rewrite N_of_byte_byte_of_N. exact H.
Qed.

Lemma group_value_lt a b c d : group_value a b c d < 4294967296.
Proof.
  unfold group_value. pose proof (N_of_byte_lt a). pose proof (N_of_byte_lt b).
  pose proof (N_of_byte_lt c). pose proof (N_of_byte_lt d). lia.
Qed.

Lemma div_eq w m q : m <> 0 -> q * m <= w < q * m + m -> w / m = q.
Proof. intros Hm H. symmetry. apply (N.div_unique w m q (w - q * m)); lia. Qed.

Lemma mod_eq w m q r : r < m -> w = q * m + r -> w mod m = r.
Proof. intros Hr H. symmetry. apply (N.mod_unique w m q r); lia. Qed.

(* the leading bytes of a u32 that lies in the block starting at the given bytes *)
Lemma be_prefix1 a w :
  N_of_byte a * 16777216 <= w < N_of_byte a * 16777216 + 16777216 ->
  byte_of_N (w / 16777216) = a.
Proof.
  intro H. pose proof (N_of_byte_lt a).
  rewrite (div_eq w 16777216 (N_of_byte a)) by lia. apply byte_of_N_of_byte.
Qed.

Lemma be_prefix2 a b w :
  (N_of_byte a * 256 + N_of_byte b) * 65536 <= w < (N_of_byte a * 256 + N_of_byte b) * 65536 + 65536 ->
  byte_of_N (w / 16777216) = a /\ byte_of_N (w / 65536) = b.
Proof.
  intro H. pose proof (N_of_byte_lt a). pose proof (N_of_byte_lt b). split.
  - apply be_prefix1. lia.
  - rewrite (div_eq w 65536 (N_of_byte a * 256 + N_of_byte b)) by lia.
    apply byte_of_N_eq. apply (mod_eq _ 256 (N_of_byte a)); lia.
Qed.

Lemma be_prefix3 a b c w :
  ((N_of_byte a * 256 + N_of_byte b) * 256 + N_of_byte c) * 256 <= w
  < ((N_of_byte a * 256 + N_of_byte b) * 256 + N_of_byte c) * 256 + 256 ->
  byte_of_N (w / 16777216) = a /\ byte_of_N (w / 65536) = b /\ byte_of_N (w / 256) = c.
Proof.
  intro H. pose proof (N_of_byte_lt a). pose proof (N_of_byte_lt b). pose proof (N_of_byte_lt c).
  destruct (be_prefix2 a b w) as [P1 P2]; [lia|]. repeat split; try assumption.
  rewrite (div_eq w 256 ((N_of_byte a * 256 + N_of_byte b) * 256 + N_of_byte c)) by lia.
  apply byte_of_N_eq. apply (mod_eq _ 256 (N_of_byte a * 256 + N_of_byte b)); lia.
Qed.

Lemma be_bytes_group a b c d : be_bytes (group_value a b c d) = [a; b; c; d].
Proof.
  unfold be_bytes, group_value.
  pose proof (N_of_byte_lt a). pose proof (N_of_byte_lt b).
  pose proof (N_of_byte_lt c). pose proof (N_of_byte_lt d).
  destruct (be_prefix3 a b c (((N_of_byte a * 256 + N_of_byte b) * 256 + N_of_byte c) * 256 + N_of_byte d))
    as (-> & -> & ->); [lia|].
  repeat f_equal. apply byte_of_N_eq.
  apply (mod_eq _ 256 ((N_of_byte a * 256 + N_of_byte b) * 256 + N_of_byte c)); lia.
Qed.

Lemma loop_digits5 v more : v <= U32_MAX ->
  loop (digits5 v ++ more) 0 O = emit (be_bytes v) (loop more 0 O).
Proof.
  unfold U32_MAX. intro Hv. unfold digits5. cbv zeta. cbn [app].
  rewrite loop_digit by lia.
  rewrite accum_first by lia. cbn [Nat.eqb A85_GROUP].
  rewrite loop_digit by (apply N.mod_lt; lia).
  rewrite accum_div by (unfold U32_MAX; lia). cbn [Nat.eqb A85_GROUP].
  rewrite loop_digit by (apply N.mod_lt; lia).
  rewrite accum_div by (unfold U32_MAX; lia). cbn [Nat.eqb A85_GROUP].
  rewrite loop_digit by (apply N.mod_lt; lia).
  rewrite accum_div by (unfold U32_MAX; lia). cbn [Nat.eqb A85_GROUP].
  rewrite loop_digit by (apply N.mod_lt; lia).
  rewrite accum_div by (unfold U32_MAX; lia). cbn [Nat.eqb A85_GROUP].
  reflexivity.
Qed.

Lemma group_value_zero a b c d : group_value a b c d = 0 -> a = x00 /\ b = x00 /\ c = x00 /\ d = x00.
Proof.
  unfold group_value. intro H.
  repeat split; apply N_of_byte_inj; change (N_of_byte x00) with 0; lia.
Qed.

Lemma loop_z more : loop (char_z :: more) 0 O = emit [x00; x00; x00; x00] (loop more 0 O).
Proof. reflexivity. Qed.

(* ---------- the final partial group ---------- *)

Lemma pad_step buf k : pad buf (S k) = match accum buf A85_PAD with None => None | Some b => pad b k end.
Proof. reflexivity. Qed.

Lemma loop_partial3 a b c :
  loop (firstn 4 (digits5 (group_value a b c x00))) 0 O = Ok [a; b; c].
Proof.
  unfold group_value. change (N_of_byte x00) with 0.
  pose proof (N_of_byte_lt a). pose proof (N_of_byte_lt b). pose proof (N_of_byte_lt c).
  remember (((N_of_byte a * 256 + N_of_byte b) * 256 + N_of_byte c) * 256 + 0) as v eqn:Ev.
  assert (Hv : v <= 4294967040) by lia.
  unfold digits5. cbv zeta. cbn [firstn].
  rewrite loop_digit by lia.
  rewrite accum_first by lia. cbn [Nat.eqb A85_GROUP].
  rewrite loop_digit by (apply N.mod_lt; lia).
  rewrite accum_div by (unfold U32_MAX; lia). cbn [Nat.eqb A85_GROUP].
  rewrite loop_digit by (apply N.mod_lt; lia).
  rewrite accum_div by (unfold U32_MAX; lia). cbn [Nat.eqb A85_GROUP].
  rewrite loop_digit by (apply N.mod_lt; lia).
  rewrite accum_div by (unfold U32_MAX; lia). cbn [Nat.eqb A85_GROUP].
  cbn [loop finish A85_GROUP Nat.sub]. rewrite pad_step.
  rewrite accum_pad by (unfold U32_MAX; lia).
  cbn [pad]. unfold be_bytes. cbn [firstn].
  destruct (be_prefix3 a b c (v / 85 * 85 + 84)) as (-> & -> & ->); [lia | reflexivity].
Qed.

Lemma loop_partial2 a b :
  loop (firstn 3 (digits5 (group_value a b x00 x00))) 0 O = Ok [a; b].
Proof.
  unfold group_value. change (N_of_byte x00) with 0.
  pose proof (N_of_byte_lt a). pose proof (N_of_byte_lt b).
  remember (((N_of_byte a * 256 + N_of_byte b) * 256 + 0) * 256 + 0) as v eqn:Ev.
  assert (Hv : v <= 4294901760) by lia.
  unfold digits5. cbv zeta. cbn [firstn].
  rewrite loop_digit by lia.
  rewrite accum_first by lia. cbn [Nat.eqb A85_GROUP].
  rewrite loop_digit by (apply N.mod_lt; lia).
  rewrite accum_div by (unfold U32_MAX; lia). cbn [Nat.eqb A85_GROUP].
  rewrite loop_digit by (apply N.mod_lt; lia).
  rewrite accum_div by (unfold U32_MAX; lia). cbn [Nat.eqb A85_GROUP].
  cbn [loop finish A85_GROUP Nat.sub].
  rewrite pad_step, accum_pad by (unfold U32_MAX; lia). cbv beta iota.
  rewrite pad_step, accum_pad by (unfold U32_MAX; lia). cbv beta iota.
  cbn [pad]. unfold be_bytes. cbn [firstn].
  destruct (be_prefix2 a b ((v / 85 / 85 * 85 + 84) * 85 + 84)) as (-> & ->); [lia | reflexivity].
Qed.

Lemma loop_partial1 a :
  loop (firstn 2 (digits5 (group_value a x00 x00 x00))) 0 O = Ok [a].
Proof.
  unfold group_value. change (N_of_byte x00) with 0.
  pose proof (N_of_byte_lt a).
  remember (((N_of_byte a * 256 + 0) * 256 + 0) * 256 + 0) as v eqn:Ev.
  assert (Hv : v <= 4278190080) by lia.
  unfold digits5. cbv zeta. cbn [firstn].
  rewrite loop_digit by lia.
  rewrite accum_first by lia. cbn [Nat.eqb A85_GROUP].
  rewrite loop_digit by (apply N.mod_lt; lia).
  rewrite accum_div by (unfold U32_MAX; lia). cbn [Nat.eqb A85_GROUP].
  cbn [loop finish A85_GROUP Nat.sub].
  rewrite pad_step, accum_pad by (unfold U32_MAX; lia). cbv beta iota.
  rewrite pad_step, accum_pad by (unfold U32_MAX; lia). cbv beta iota.
  rewrite pad_step, accum_pad by (unfold U32_MAX; lia). cbv beta iota.
  cbn [pad]. unfold be_bytes. cbn [firstn].
  rewrite (be_prefix1 a (((v / 85 / 85 / 85 * 85 + 84) * 85 + 84) * 85 + 84)); [reflexivity | lia].
Qed.

(* ---------- all byte strings ---------- *)

Lemma list4_ind (P : bytes -> Prop) :
  P [] -> (forall a, P [a]) -> (forall a b, P [a; b]) -> (forall a b c, P [a; b; c]) ->
  (forall a b c d r, P r -> P (a :: b :: c :: d :: r)) -> forall l, P l.
Proof.
  intros H0 H1 H2 H3 H4. fix IH 1.
  intros [|a [|b [|c [|d r]]]]; [apply H0 | apply H1 | apply H2 | apply H3 | apply H4; apply IH].
Qed.

Lemma loop_encode : forall data, loop (encode data) 0 O = Ok data.
Proof.
  induction data as [|a|a b|a b c|a b c d r IH] using list4_ind.
  - reflexivity.
  - apply loop_partial1.
  - apply loop_partial2.
  - apply loop_partial3.
  - change (encode (a :: b :: c :: d :: r))
      with ((if group_value a b c d =? 0 then [char_z] else digits5 (group_value a b c d)) ++ encode r).
    destruct (N.eqb_spec (group_value a b c d) 0) as [E|E].
    + apply group_value_zero in E as (-> & -> & -> & ->).
      cbn [app]. rewrite loop_z, IH. reflexivity.
    + rewrite loop_digits5 by (pose proof (group_value_lt a b c d); unfold U32_MAX; lia).
      rewrite IH, be_bytes_group. reflexivity.
Qed.

Theorem a85_decode_encode : forall data, A85.decode (encode data ++ EOD) = Ok data.
Proof.
  intro data. unfold decode. change EOD with A85_EOD. rewrite strip_eod_app. apply loop_encode.
Qed.

(* ---------- white space is ignored ---------- *)

(* the characters the decoder skips are exactly the white-space characters of ISO 32000-1 table 1 (256 cases) *)
Lemma skipped_is_white : byte_forallb (fun b => Bool.eqb (is_skipped b) (is_white b)) = true.
Proof. vm_compute. reflexivity. Qed.

Lemma is_skipped_white b : is_skipped b = is_white b.
Proof. apply Bool.eqb_prop. exact (byte_forallb_spec _ skipped_is_white b). Qed.

Lemma ws_not_z : byte_forallb (fun b => negb (is_skipped b) || negb (byte_eqb b A85_Z)) = true.
Proof. vm_compute. reflexivity. Qed.

Lemma loop_skip_ws : forall input buf cnt,
  loop (filter (fun b => negb (is_skipped b)) input) buf cnt = loop input buf cnt.
Proof.
  induction input as [|ch input IH]; intros buf cnt; [reflexivity|].
  cbn [filter]. destruct (is_skipped ch) eqn:W; cbn [negb].
  - rewrite IH. cbn [loop].
    pose proof (byte_forallb_spec _ ws_not_z ch) as F. cbv beta in F. rewrite W in F. cbn [negb orb] in F.
    apply negb_true_iff in F. rewrite F, W. reflexivity.
  - cbn [loop]. rewrite W.
    destruct (byte_eqb ch A85_Z).
    + destruct cnt; [rewrite IH; reflexivity | reflexivity].
    + destruct (negb (in_digit_range ch)); [reflexivity|].
      destruct (accum buf (N_of_byte ch - N_of_byte A85_LO)); [|reflexivity].
      destruct (Nat.eqb (S cnt) A85_GROUP); rewrite IH; reflexivity.
Qed.

(* ---------- EOD ends the data; what follows it is not read ---------- *)

Lemma tilde_facts : byte_eqb x7e A85_Z = false /\ is_skipped x7e = false /\ in_digit_range x7e = false.
Proof. repeat split; vm_compute; reflexivity. Qed.

Lemma loop_tilde : forall X Y buf cnt, loop (X ++ x7e :: Y) buf cnt = loop X buf cnt.
Proof.
  induction X as [|ch X IH]; intros Y buf cnt.
  - destruct tilde_facts as (F1 & F2 & F3). cbn [app loop]. rewrite F1, F2, F3. reflexivity.
  - cbn [app loop].
    destruct (byte_eqb ch A85_Z).
    + destruct cnt; [rewrite IH; reflexivity | reflexivity].
    + destruct (is_skipped ch); [apply IH|].
      destruct (negb (in_digit_range ch)); [reflexivity|].
      destruct (accum buf (N_of_byte ch - N_of_byte A85_LO)); [|reflexivity].
      destruct (Nat.eqb (S cnt) A85_GROUP); rewrite IH; reflexivity.
Qed.

Lemma strip_suffix_spec suf : forall l l', strip_suffix suf l = Some l' -> l = l' ++ suf.
Proof.
  induction l as [|x l IH]; intros l' H; cbn [strip_suffix] in H.
  - destruct (bytes_eqb [] suf) eqn:E; [|discriminate].
    apply bytes_eqb_eq in E. inversion H. subst. reflexivity.
  - destruct (bytes_eqb (x :: l) suf) eqn:E.
    + apply bytes_eqb_eq in E. inversion H. subst. reflexivity.
    + destruct (strip_suffix suf l) as [l''|]; [|discriminate].
      inversion H. subst. cbn [app]. f_equal. apply IH. reflexivity.
Qed.

Lemma loop_body data body :
  filter (fun b => negb (is_white b)) body = encode data -> loop body 0 O = Ok data.
Proof.
  intro H. rewrite <- loop_skip_ws.
  rewrite (filter_ext _ (fun b => negb (is_white b))) by (intro b; rewrite is_skipped_white; reflexivity).
  rewrite H. apply loop_encode.
Qed.

(* the decoder agrees with the standard on every well-formed ASCII85 text: white space anywhere in the
   body, EOD, then arbitrary bytes that a reader must not look at *)
Theorem a85_agrees data text : a85_text data text -> A85.decode text = Ok data.
Proof.
  intros (body & rest & -> & H). unfold decode, strip_eod.
  change (body ++ EOD ++ rest) with (body ++ x7e :: (x3e :: rest)).
  destruct (strip_suffix A85_EOD (body ++ x7e :: x3e :: rest)) as [l|] eqn:E.
  - apply strip_suffix_spec in E.
    rewrite <- (loop_tilde l [x3e]). change (l ++ [x7e; x3e]) with (l ++ A85_EOD). rewrite <- E.
    rewrite loop_tilde. apply loop_body. exact H.
  - rewrite loop_tilde. apply loop_body. exact H.
Qed.

(* robustness beyond the standard: a text whose EOD marker is missing is decoded all the same *)
Theorem a85_missing_eod data body :
  filter (fun b => negb (is_white b)) body = encode data -> A85.decode body = Ok data.
Proof.
  intro H. unfold decode, strip_eod.
  destruct (strip_suffix A85_EOD body) as [l|] eqn:E; [|apply loop_body; exact H].
  apply strip_suffix_spec in E. subst body.
  rewrite filter_app in H. change (filter (fun b => negb (is_white b)) A85_EOD) with [x7e; x3e] in H.
  rewrite <- (loop_skip_ws l).
  rewrite (filter_ext _ (fun b => negb (is_white b))) by (intro b; rewrite is_skipped_white; reflexivity).
  rewrite <- (loop_tilde _ [x3e]). rewrite H. apply loop_encode.
Qed.

(* ---------- the defects that were repaired ----------
   c049d3a: the five characters s 8 W - and a double quote denote 2^32: the multiplication check passes
   (50529027 * 85 = 4294967295) and the unchecked addition of the last digit overflowed u32 (a panic, overflow
   checks being on); the repaired code reports an error.
   efed7db: NUL is a white-space character of the standard; the pinned decoder ended the data there. *)
Lemma a85_overflow_is_error : A85.decode (bs "s8W-""~>") = Err EA85.
Proof. vm_compute. reflexivity. Qed.

Lemma a85_overflow_pinned_panics : decode_v0 (bs "s8W-""~>") = Panic.
Proof. vm_compute. reflexivity. Qed.

Definition nul_witness_data : bytes := Eval cbv in bs "Hello, world".
Definition nul_witness_text : bytes := Eval cbv in (bs "87cURD_" ++ [x00] ++ bs "*#TDfTZ)~>").

Lemma nul_witness_is_text : a85_text nul_witness_data nul_witness_text.
Proof. exists (bs "87cURD_" ++ [x00] ++ bs "*#TDfTZ)"), []. split; vm_compute; reflexivity. Qed.

Lemma a85_nul_pinned_refuted :
  exists data text, a85_text data text /\ decode_v0 text = Ok (firstn 5 data) /\ firstn 5 data <> data.
Proof.
  exists nul_witness_data, nul_witness_text. split; [exact nul_witness_is_text|].
  split; [vm_compute; reflexivity | vm_compute; discriminate].
Qed.

Lemma a85_nul_repaired : A85.decode nul_witness_text = Ok nul_witness_data.
Proof. vm_compute. reflexivity. Qed.
