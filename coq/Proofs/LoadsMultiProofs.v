(* LoadsMultiProofs.v -- C02 rung 3: files of SEVERAL cross-reference sections written by the reference writer
   (Spec/RefWriter.v ref_write_multi / write_parts): every part = objects, a cross-reference TABLE with its trailer
   (Prev = the section of the part before), startxref, %%EOF.  A part may list objects of earlier parts again (mp_relist,
   entry taken from [known]) and may hold superseded definitions (mp_old: same identifier as an object whose current
   definition is in a later part).
   The invariant [Inv] is carried along write_parts: the sections written so far form a chain (LoadsLoopProofs.chain_ok) in
   the prefix followed by ANY further bytes; [known] is the merge of that chain (newest first); an entry of the merge whose
   number no remaining part defines names the CURRENT definition at the byte where it starts; every current object of a
   finished part has an entry.  At the end Reader::read is LoadsLoopProofs.load_ext_frame_chain on the merged table. *)
From LV Require Import Base.Bytes Base.Sx Model.Obj Model.Writer Model.Parser Model.Xref Model.ObjStm Model.Loader Model.Utf Gen.Lex
  Spec.XrefSpec Spec.RefWriter Proofs.LexProofs Proofs.LoadProofs Proofs.LoadProofsFile Proofs.XrefProofs
  Proofs.XrefTableProofs Proofs.ObjectRtProofs Proofs.SpellingProofs Proofs.SpellingObjProofs Proofs.SpellingFileProofs
  Proofs.LoadsFrameProofs Proofs.LoadsTableProofs Proofs.FilterProofsDict.
From LV Require Import Model.LoaderExt Proofs.LoaderExtProofs Proofs.LoadsLoopProofs.
From LV Require Proofs.C07Bytes.
From Coq Require Import Lia.
Local Open Scope N_scope.

(* ======================================================================================================
   Part 0: facts that do not depend on the file
   ====================================================================================================== *)
(* one object at its place, read by Reader::read_object (Length direct: the table is not consulted) *)
Lemma indirect_x_top buf x tp post : top_ok tp -> fst (fst (fst tp)) <= u32_max ->
  indirect_x buf x (top_text tp ++ post) None = IxOk (fst (fst tp)) (loaded_top tp) None /\ no_objstm (loaded_top tp).
Proof.
  intros Hk Hi. destruct (indirect_top tp post Hk Hi) as [P1 P2]. split; [|exact P2].
  unfold indirect_x.
  match goal with |- indirect_with ?b ?s0 ?e ?l = _ => pose proof (indirect_with_agrees b s0 e l) as A end.
  rewrite P1 in A. destruct A as [pos [-> [->|[d0 [K Kn]]]]]; [reflexivity|]. exfalso.
  destruct tp as [[[i g] o] y]. unfold loaded_top in K. cbn [fst snd] in K.
  destruct o; cbn [denote] in K; try discriminate K.
  unfold stream_new in K. inversion K; subst. unfold no_length in Kn. rewrite FilterProofsDict.dict_get_set_same in Kn. exact Kn.
Qed.

(* sorted maps: the table a section denotes, and the merge *)
Lemma spec_map_sorted : forall l m, C07Bytes.xincr 0 m -> C07Bytes.xincr 0 (fold_left spec_step l m).
Proof.
  induction l as [|[n se] l IH]; intros m H; [exact H|]. cbn [fold_left]. apply IH.
  unfold spec_step. cbn [fst snd]. destruct se; [exact H|apply C07Bytes.xinsert_sorted; exact H|apply C07Bytes.xinsert_sorted; exact H].
Qed.

Lemma pos_none_fold : forall (es : xmap) p id, pos_get p id = None ->
  pos_get (fold_left (pstep (fun _ _ => None)) es p) id = None.
Proof.
  induction es as [|[k e] es IH]; intros p id H; [exact H|]. cbn [fold_left]. apply IH.
  unfold pstep. cbn [fst snd]. destruct e as [| |off g|c i]; try exact H. rewrite pos_get_set. destruct (oid_eqb (k, g) id); [reflexivity|exact H].
Qed.

Lemma mem_N_In x l : mem_N x l = true <-> In x l.
Proof.
  unfold mem_N. rewrite existsb_exists. split.
  - intros [y [H1 H2]]. apply N.eqb_eq in H2. subst. exact H1.
  - intro H. exists x. split; [exact H|apply N.eqb_refl].
Qed.

Lemma find_obj_In : forall objs n g o, find_obj objs n = Some (g, o) -> In ((n, g), o) objs.
Proof.
  induction objs as [|[[i g0] o0] objs IH]; intros n g o H; [discriminate H|]. cbn [find_obj] in H.
  destruct (i =? n) eqn:E; [apply N.eqb_eq in E; inversion H; subst; left; reflexivity|right; apply IH; exact H].
Qed.

Lemma s_xref_with_part st p l : s_xref (with_part st p l) = mp_xref p.
Proof. unfold with_part. destruct (mp_sx p) as [[[[e1 s1] s2] e2] fe]. reflexivity. Qed.

Lemma first_entry_none_keys : forall (l : list xref) n, first_entry l n = None -> forall x, In x l -> xget (x_entries x) n = None.
Proof.
  induction l as [|y l IH]; intros n H x Hin; [contradiction|]. cbn [first_entry] in H.
  destruct (xget (x_entries y) n) eqn:E; [discriminate H|]. destruct Hin as [<-|Hin]; [exact E|apply IH; assumption].
Qed.

Lemma chain_ok_weaken dec can buf : forall rest hi hi', hi <= hi' -> chain_ok dec can buf hi rest -> chain_ok dec can buf hi' rest.
Proof. destruct rest as [|[off [x t]] rest]; intros hi hi' H K; [exact I|]. cbn [chain_ok] in *. destruct K as [K1 K2]. split; [lia|exact K2]. Qed.

(* ======================================================================================================
   Part 1: one part of write_parts (table format, no object streams), in closed form
   ====================================================================================================== *)
Section Multi.
  Variable st : fstyle.
  Variable a : adoc.
  Hypothesis Hos : s_ostms st = [].
  Variable dec : dict -> bytes -> option (dict * bytes).
  Variable can : dict -> bool.

  Notation tops := (LoadsTableProofs.tops st a).
  Notation nums := (LoadsTableProofs.nums a).

  Definition p_olds (p : mpart) : list top :=
    flat_map (fun no => match find_obj (a_objs a) (fst no) with
                        | Some (g, _) => [((fst no, g), snd no, find_istyle (s_objs st) (fst no))]
                        | None => []
                        end) (mp_old p).
  Definition p_mine (p : mpart) : list top := filter (fun t => mem_N (fst (fst (fst t))) (mp_nums p)) tops ++ p_olds p.
  Definition p_otops (p : mpart) : list top := ordered (mp_order p) (p_mine p).
  Definition p_hnums (p : mpart) : list N := map (fun t : top => fst (fst (fst t))) (p_mine p).
  Definition p_xpos (p : mpart) (pos : N) : N := pos + N.of_nat (length (body_of (p_otops p))).
  Definition p_ehere (p : mpart) (pos n : N) : sentry :=
    match find_off (offs_of pos (p_otops p) ++ []) n with Some (g, q) => SInUse q g | None => SFree 0 0 end.
  Definition p_here (p : mpart) (pos n : N) : bool := is_used (p_ehere p pos n).
  Definition p_entry (p : mpart) (pos : N) (known : list (N * sentry)) (n : N) : sentry :=
    if p_here p pos n then p_ehere p pos n
    else if mem_N n (mp_relist p) then match lookup_entry known n with Some e => e | None => SFree 0 0 end
    else if n =? 0 then SFree 0 65535 else SFree 0 0.
  Definition p_size (p : mpart) (maxnum : N) : N := 1 + N.max maxnum (max_num (p_hnums p ++ [])).
  Definition p_secs (p : mpart) (t : tstyle) (pos : N) (prev : option N) (known : list (N * sentry)) (maxnum : N) : list (N * N) :=
    match prev with
    | None => use_secs (t_secs t) (p_size p maxnum) (fun n => (n =? 0) || p_here p pos n)
    | Some _ => if secs_ok_later (t_secs t) (p_size p maxnum) (p_here p pos) (p_entry p pos known) then t_secs t
                else runs_of (p_here p pos) 0 (N.to_nat (p_size p maxnum))
    end.
  Definition p_prev (prev : option N) : list (bytes * obj) :=
    match prev with Some q => [(K_PrevW, OInt (Z.of_N q))] | None => [] end.
  Definition p_text (p : mpart) (t : tstyle) (last : bool) (pos : N) (prev : option N) (known : list (N * sentry)) (maxnum : N) : bytes :=
    body_of (p_otops p) ++
    section_text (with_part st p last) a (p_secs p t pos prev known maxnum) (p_entry p pos known) (p_size p maxnum) (p_xpos p pos) (p_prev prev).
  Definition p_known (p : mpart) (pos : N) (known : list (N * sentry)) (maxnum : N) : list (N * sentry) :=
    map (fun n => (n, p_entry p pos known n)) (filter (p_here p pos) (range_N 0 (N.to_nat (p_size p maxnum)))) ++ known.
  Definition p_last (rest : list mpart) : bool := match rest with [] => true | _ => false end.

  Lemma write_parts_step p rest pos prev known maxnum t : mp_xref p = XTable t ->
    write_parts st a tops (p :: rest) pos prev known maxnum =
    if negb (nodup_N (p_hnums p) && forallb (fun no => mem_N (fst no) (flat_map (part_defines st) rest)) (mp_old p) &&
             Nat.eqb (length (p_olds p)) (length (mp_old p)))
    then None
    else if negb (existsb (p_here p pos) (range_N 0 (N.to_nat (p_size p maxnum)))) then None
    else match write_parts st a tops rest (pos + N.of_nat (length (p_text p t (p_last rest) pos prev known maxnum)))
                           (Some (p_xpos p pos)) (p_known p pos known maxnum) (p_size p maxnum - 1) with
         | Some r => Some (p_text p t (p_last rest) pos prev known maxnum ++ r)
         | None => None
         end.
  Proof.
    intro Hxt. cbn [write_parts]. rewrite emit_objs_eq. unfold part_containers. rewrite Hos. cbn [filter]. rewrite Hxt.
    destruct prev; reflexivity.
  Qed.

  (* ---------- the domain ---------- *)
  Hypothesis Hnd : NoDup nums.
  Hypothesis Htops : Forall top_ok tops.
  (* the trailer of every part can be spelled whatever Size and Prev it carries *)
  Definition trailer_dom (t : tstyle) : Prop :=
    forall sz prev, sz <= u32_max -> (prev = None \/ exists q, q <= u32_max /\ prev = Some q) ->
      spell_wf (ODict (a_trailer a ++ [(RefWriter.K_Size, OInt (Z.of_N sz))] ++ p_prev prev)) (t_trailer t) /\
      (nest (ODict (a_trailer a ++ [(RefWriter.K_Size, OInt (Z.of_N sz))] ++ p_prev prev)) <= MAX_DEPTH)%nat.
  Hypothesis Htrail : dict_get (a_trailer a) RefWriter.K_Size = None /\ dict_get (a_trailer a) K_Prev = None /\
                      dict_get (a_trailer a) K_Encrypt = None /\ dict_get (a_trailer a) K_XRefStm = None.
  Hypothesis Hnums32 : 1 + max_num nums <= u32_max.

  Lemma tops_nums_eq : map top_num tops = nums.
  Proof. unfold LoadsTableProofs.tops, LoadsTableProofs.nums. rewrite map_map. reflexivity. Qed.

  Lemma tops_id cur : In cur tops -> 1 <= top_num cur /\ snd (fst (fst cur)) <= u16_max /\ In (top_num cur) nums /\ top_ok cur.
  Proof.
    intro H. pose proof (proj1 (Forall_forall _ _) Htops cur H) as Hk. split; [|split; [|split; [|exact Hk]]].
    - destruct cur as [[[i g] o] y]. cbn in Hk. unfold top_num. cbn [fst]. tauto.
    - destruct cur as [[[i g] o] y]. cbn in Hk. cbn [fst snd]. tauto.
    - rewrite <- tops_nums_eq. apply in_map. exact H.
  Qed.

  Lemma tops_unique tp tp' : In tp tops -> In tp' tops -> top_num tp = top_num tp' -> tp = tp'.
  Proof. intros H1 H2 E. apply (unique_by_key top_num tops); [rewrite tops_nums_eq; exact Hnd|exact H1|exact H2|exact E]. Qed.

  Lemma top_of_num n : In n nums -> exists tp, In tp tops /\ top_num tp = n.
  Proof. rewrite <- tops_nums_eq. intro H. apply in_map_iff in H as [tp [E Hin]]. exists tp. split; assumption. Qed.

  Lemma mine_cases p tp : In tp (p_mine p) ->
    (In tp tops /\ In (top_num tp) (mp_nums p)) \/
    (exists cur o, In cur tops /\ fst (fst cur) = fst (fst tp) /\ In (top_num tp, o) (mp_old p)).
  Proof.
    unfold p_mine. intro H. apply in_app_or in H as [H|H].
    - apply filter_In in H as [H1 H2]. left. split; [exact H1|apply mem_N_In; exact H2].
    - right. unfold p_olds in H. apply in_flat_map in H as [[n o] [H1 H2]]. cbn [fst snd] in H2.
      destruct (find_obj (a_objs a) n) as [[g o']|] eqn:Ef; [|contradiction]. destruct H2 as [<-|[]].
      apply find_obj_In in Ef. exists ((n, g), o', find_istyle (s_objs st) n), o. split; [|split; [reflexivity|exact H1]].
      unfold LoadsTableProofs.tops. apply in_map_iff. exists ((n, g), o'). split; [reflexivity|exact Ef].
  Qed.

  Lemma mine_id p tp : In tp (p_mine p) -> exists cur, In cur tops /\ fst (fst cur) = fst (fst tp).
  Proof.
    intro H. destruct (mine_cases p tp H) as [[H1 _]|[cur [o [H1 [H2 _]]]]]; [exists tp; split; [exact H1|reflexivity]|exists cur; split; assumption].
  Qed.

  Lemma mine_bounds p tp : In tp (p_mine p) -> 1 <= top_num tp /\ snd (fst (fst tp)) <= u16_max /\ In (top_num tp) nums.
  Proof.
    intro H. destruct (mine_id p tp H) as [cur [H1 H2]]. destruct (tops_id cur H1) as [K1 [K2 [K3 _]]].
    unfold top_num in *. rewrite H2 in *. auto.
  Qed.

  Lemma max_num_le : forall l B a0, a0 <= B -> (forall x, In x l -> x <= B) -> fold_left N.max l a0 <= B.
  Proof. induction l as [|y l IH]; intros B a0 Ha H; [exact Ha|]. cbn [fold_left]. apply IH; [|intros; apply H; right; assumption]. pose proof (H y (or_introl eq_refl)). lia. Qed.

  Lemma hnums_le p : max_num (p_hnums p) <= max_num nums.
  Proof.
    unfold max_num at 1. apply max_num_le; [lia|]. intros x Hx. unfold p_hnums in Hx. apply in_map_iff in Hx as [tp [<- Hin]].
    apply max_num_ge. apply (mine_bounds p tp Hin).
  Qed.

  Lemma p_size_eq p maxnum : p_size p maxnum = 1 + N.max maxnum (max_num (p_hnums p)).
  Proof. unfold p_size. rewrite app_nil_r. reflexivity. Qed.

  (* ---------- runs_of: the maximal runs cover what the part defines ---------- *)
  Lemma secs_increasing_weaken : forall secs lo lo', lo' <= lo -> secs_increasing lo secs = true -> secs_increasing lo' secs = true.
  Proof.
    destruct secs as [|[f c] secs]; intros lo lo' H K; [reflexivity|]. cbn [secs_increasing] in *.
    apply andb_true_iff in K as [K K3]. apply andb_true_iff in K as [K1 K2]. apply N.leb_le in K1.
    rewrite K2, K3. replace (lo' <=? f) with true by (symmetry; apply N.leb_le; lia). reflexivity.
  Qed.

  Lemma runs_of_good (here : N -> bool) : forall count n,
    secs_increasing n (runs_of here n count) = true /\
    (forall f c, In (f, c) (runs_of here n count) -> 1 <= c /\ f + c <= n + N.of_nat count) /\
    (forall k, n <= k < n + N.of_nat count -> here k = true -> exists f c, In (f, c) (runs_of here n count) /\ f <= k < f + c).
  Proof.
    induction count as [|count IH]; intro n.
    - cbn [runs_of]. split; [reflexivity|]. split; [intros f c []|intros k Hk; lia].
    - destruct (IH (n + 1)) as [I1 [I2 I3]]. cbn [runs_of]. destruct (here n) eqn:Eh.
      + destruct (runs_of here (n + 1) count) as [|[f k] tl] eqn:Er.
        * split; [cbn [secs_increasing]; replace (n <=? n) with true by (symmetry; apply N.leb_le; lia); reflexivity|].
          split; [intros f c [E|[]]; inversion E; subst; lia|].
          intros k Hk Hh. destruct (N.eq_dec k n) as [->|Hne]; [exists n, 1; split; [left; reflexivity|lia]|].
          destruct (I3 k) as [f [c [[] _]]]; [lia|exact Hh].
        * cbn [secs_increasing] in I1. apply andb_true_iff in I1 as [I1 I1c]. apply andb_true_iff in I1 as [I1a I1b].
          apply N.leb_le in I1a, I1b. destruct (I2 f k (or_introl eq_refl)) as [B1 B2].
          destruct (f =? n + 1) eqn:Ef.
          -- apply N.eqb_eq in Ef. subst f. split.
             { cbn [secs_increasing]. replace (n <=? n) with true by (symmetry; apply N.leb_le; lia).
               replace (1 <=? k + 1) with true by (symmetry; apply N.leb_le; lia).
               replace (n + (k + 1)) with (n + 1 + k) by lia. exact I1c. }
             split.
             { intros f c [E|Hin]; [inversion E; subst; lia|]. destruct (I2 f c (or_intror Hin)). lia. }
             intros k0 Hk Hh. destruct (N.eq_dec k0 n) as [->|Hne]; [exists n, (k + 1); split; [left; reflexivity|lia]|].
             destruct (I3 k0) as [f [c [[E|Hin] Hr]]]; [lia|exact Hh| |].
             { assert (c = k) by congruence. assert (f = n + 1) by congruence. subst c f. exists n, (k + 1). split; [left; reflexivity|lia]. }
             { exists f, c. split; [right; exact Hin|exact Hr]. }
          -- apply N.eqb_neq in Ef. split.
             { cbn [secs_increasing]. replace (n <=? n) with true by (symmetry; apply N.leb_le; lia).
               replace (n + 1 <=? f) with true by (symmetry; apply N.leb_le; lia).
               replace (1 <=? k) with true by (symmetry; apply N.leb_le; lia). cbn [andb N.leb]. exact I1c. }
             split.
             { intros f0 c [E|Hin]; [inversion E; subst; lia|]. destruct (I2 f0 c Hin). lia. }
             intros k0 Hk Hh. destruct (N.eq_dec k0 n) as [->|Hne]; [exists n, 1; split; [left; reflexivity|lia]|].
             destruct (I3 k0) as [f0 [c [Hin Hr]]]; [lia|exact Hh|]. exists f0, c. split; [right; exact Hin|exact Hr].
      + split; [apply (secs_increasing_weaken _ (n + 1)); [lia|exact I1]|]. split.
        * intros f c Hin. destruct (I2 f c Hin). lia.
        * intros k Hk Hh. destruct (N.eq_dec k n) as [->|Hne]; [rewrite Eh in Hh; discriminate Hh|]. apply I3; [lia|exact Hh].
  Qed.

  Lemma dget_app (d e : dict) k : dict_get (d ++ e) k = match dict_get d k with Some v => Some v | None => dict_get e k end.
  Proof. induction d as [|[k0 v0] d IH]; [reflexivity|]. cbn [app dict_get]. destruct (bytes_eqb k0 k); [reflexivity|exact IH]. Qed.

  Lemma keys_denote : forall d sts, map fst (denote_dict d sts) = map fst d.
  Proof. induction d as [|[k v] d IH]; intro sts; [reflexivity|]. cbn [denote_dict map fst]. f_equal. apply IH. Qed.

  Lemma lookup_entry_map (f : N -> sentry) known : forall l n,
    lookup_entry (map (fun k => (k, f k)) l ++ known) n = if mem_N n l then Some (f n) else lookup_entry known n.
  Proof.
    induction l as [|k l IH]; intro n; [reflexivity|]. cbn [map app lookup_entry mem_N existsb]. rewrite IH. unfold mem_N.
    rewrite (N.eqb_sym n k). destruct (k =? n) eqn:E; [apply N.eqb_eq in E; subst; reflexivity|reflexivity].
  Qed.

  (* ====================================================================================================
     Part 2: the invariant, and one part at its place: prefix P (the header and the parts before), the part, ANY bytes
     ==================================================================================================== *)
  Definition fe (chain : list csec) (n : N) : option xentry := first_entry (map (fun s : csec => fst (snd s)) chain) n.
  Definition prev_N (chain : list csec) : option N := match chain with [] => None | (off, _) :: _ => Some off end.

  Record Inv (rem : list mpart) (P : bytes) (chain : list csec) (known : list (N * sentry)) (maxnum : N) : Prop := {
    i_nums : forall n e, fe chain n = Some e -> In n nums /\ n <= maxnum /\ exists off g, e = XNormal off g;
    i_cur : forall n off g, fe chain n = Some (XNormal off g) -> ~ In n (flat_map mp_nums rem) ->
            exists tp pre post, In tp tops /\ fst (fst tp) = (n, g) /\ P = pre ++ top_text tp ++ post /\ off = blen pre;
    i_all : forall tp, In tp tops -> ~ In (top_num tp) (flat_map mp_nums rem) -> fe chain (top_num tp) <> None;
    i_known : forall n, match lookup_entry known n with Some e => entry_meaning e | None => None end = fe chain n;
    i_kn : forall n e, lookup_entry known n = Some e -> exists off g, e = SInUse off g /\ off <= blen P /\ g <= u16_max;
    i_chain : forall ext, chain_ok dec can (P ++ ext) (blen P) chain;
    i_max : maxnum <= max_num nums
  }.

  Section Part.
    Variable p : mpart.
    Variable t : tstyle.
    Variable P : bytes.
    Variable chain : list csec.
    Variable known : list (N * sentry).
    Variable maxnum : N.
    Variable rest : list mpart.
    Hypothesis Hxt : mp_xref p = XTable t.
    Hypothesis Hhn : NoDup (p_hnums p).
    Hypothesis Hinv : Inv (p :: rest) P chain known maxnum.
    Hypothesis Hex : exists n, p_here p (blen P) n = true.
    Hypothesis Hold : forall no, In no (mp_old p) -> In (fst no) (flat_map mp_nums rest).
    Hypothesis Htr : trailer_dom t.

    Notation prev := (prev_N chain).
    Notation last := (p_last rest).
    Notation pos := (blen P).
    Notation sz := (p_size p maxnum).
    Notation secs := (p_secs p t pos prev known maxnum).
    Notation en := (p_entry p pos known).
    Notation xpos := (p_xpos p pos).
    Notation T := (p_text p t last pos prev known maxnum).
    Hypothesis HU : blen (P ++ T) <= u32_max.

    Lemma Hkn : forall n e, lookup_entry known n = Some e -> exists off g, e = SInUse off g /\ off <= blen P /\ g <= u16_max.
    Proof. exact (i_kn _ _ _ _ _ Hinv). Qed.
    Lemma Hmaxn : maxnum <= max_num nums.
    Proof. exact (i_max _ _ _ _ _ Hinv). Qed.
    Lemma Hprev : prev = None \/ exists q, q <= u32_max /\ prev = Some q.
    Proof.
      pose proof (i_chain _ _ _ _ _ Hinv []) as K.
      assert (G : forall c, chain_ok dec can (P ++ []) (blen P) c -> prev_N c = None \/ exists q, q < blen P /\ prev_N c = Some q).
      { intros [|[off [x0 t0]] r] Hc; [left; reflexivity|right]. exists off. split; [apply Hc|reflexivity]. }
      destruct (G chain K) as [G1|[q [G1 G2]]]; [left; exact G1|right; exists q; split; [|exact G2]].
      assert (blen P <= blen (P ++ T)) by (unfold blen; rewrite app_length; lia). lia.
    Qed.

    Definition p_tsecs := build_tsecs secs en (t_eols t) (t_eols t) (t_sec_eols t) (t_sec_sp t).
    Definition p_trd : dict := a_trailer a ++ [(RefWriter.K_Size, OInt (Z.of_N sz))] ++ p_prev prev.
    Definition p_front : bytes :=
      table_text (t_kw_eol t) p_tsecs ++ bs "trailer" ++ sep_bytes (bs "trailer") (t_f1 t) (w_obj (ODict p_trd) (t_trailer t)) ++
      w_obj (ODict p_trd) (t_trailer t) ++ sep_bytes (w_obj (ODict p_trd) (t_trailer t)) (t_f2 t) (startxref_text (with_part st p last) xpos).
    Definition p_tpart : bytes :=
      join [(bs "trailer", t_f1 t); (w_obj (ODict p_trd) (t_trailer t), t_f2 t); (startxref_text (with_part st p last) xpos, [])].
    Definition p_xr : bytes := table_text (t_kw_eol t) p_tsecs ++ p_tpart.

    Lemma T_eq : T = body_of (p_otops p) ++ p_xr.
    Proof. unfold p_text, section_text. rewrite s_xref_with_part, Hxt. reflexivity. Qed.

    Lemma xr_front : p_xr = p_front ++ startxref_text (with_part st p last) xpos.
    Proof.
      unfold p_xr, p_tpart, p_front. cbn [join]. change (fill_bytes []) with (@nil byte). rewrite app_nil_r, <- !app_assoc. reflexivity.
    Qed.

    Lemma sz_le : sz <= u32_max.
    Proof. rewrite p_size_eq. pose proof (hnums_le p). pose proof Hmaxn. lia. Qed.

    Lemma otop_mine tp : In tp (p_otops p) <-> In tp (p_mine p).
    Proof. apply ordered_In. Qed.

    Lemma otop_uniq tp tp' : In tp (p_otops p) -> In tp' (p_otops p) -> top_num tp = top_num tp' -> tp = tp'.
    Proof. intros H1 H2 E. apply (unique_by_key top_num (p_mine p)); [exact Hhn|apply otop_mine; exact H1|apply otop_mine; exact H2|exact E]. Qed.

    Lemma ehere_inuse n off g : p_ehere p pos n = SInUse off g ->
      exists pre tp post, p_otops p = pre ++ tp :: post /\ fst (fst tp) = (n, g) /\ off = pos + N.of_nat (length (body_of pre)).
    Proof.
      unfold p_ehere. rewrite app_nil_r. destruct (find_off (offs_of pos (p_otops p)) n) as [[g0 p0]|] eqn:Ef; [|discriminate].
      intro H. inversion H; subst. apply find_off_In in Ef.
      destruct (offs_of_In _ _ _ _ _ Ef) as [pre [o [y [post [E Ep]]]]]. exists pre, ((n, g), o, y), post. auto.
    Qed.

    Lemma ehere_of_top tp : In tp (p_otops p) ->
      exists pre post, p_otops p = pre ++ tp :: post /\
                       p_ehere p pos (top_num tp) = SInUse (pos + N.of_nat (length (body_of pre))) (snd (fst (fst tp))).
    Proof.
      intro H. destruct (find_off_exists (p_otops p) pos tp H) as [g [q Ef]].
      assert (En : p_ehere p pos (top_num tp) = SInUse q g) by (unfold p_ehere; rewrite app_nil_r, Ef; reflexivity).
      destruct (ehere_inuse _ _ _ En) as [pre [tp' [post [E [Ek Ep]]]]].
      assert (tp' = tp).
      { apply otop_uniq; [rewrite E; apply in_or_app; right; left; reflexivity|exact H|]. unfold top_num. rewrite Ek. reflexivity. }
      subst tp'. exists pre, post. split; [exact E|]. rewrite En, Ep, Ek. reflexivity.
    Qed.

    Lemma here_iff n : p_here p pos n = true <-> In n (p_hnums p).
    Proof.
      unfold p_here. split.
      - destruct (p_ehere p pos n) as [a0 b0|off g|c i] eqn:E; cbn [is_used]; try discriminate. 
        + intros _. destruct (ehere_inuse _ _ _ E) as [pre [tp [post [Eo [Ek _]]]]]. unfold p_hnums. apply in_map_iff. exists tp.
          split; [rewrite Ek; reflexivity|]. apply otop_mine. rewrite Eo. apply in_or_app. right. left. reflexivity.
        + exfalso. unfold p_ehere in E. destruct (find_off (offs_of pos (p_otops p) ++ []) n) as [[g0 q0]|]; discriminate E.
      - intro H. unfold p_hnums in H. apply in_map_iff in H as [tp [E Hin]]. apply otop_mine in Hin.
        destruct (ehere_of_top tp Hin) as [pre [post [_ Ee]]]. unfold top_num in Ee. rewrite E in Ee. rewrite Ee. reflexivity.
    Qed.

    Lemma here_lt n : p_here p pos n = true -> n < sz /\ In n nums.
    Proof.
      intro H. apply here_iff in H. rewrite p_size_eq. pose proof (max_num_ge _ _ H). split; [lia|].
      unfold p_hnums in H. apply in_map_iff in H as [tp [<- Hin]]. apply (mine_bounds p tp Hin).
    Qed.

    Lemma en_here n : p_here p pos n = true -> en n = p_ehere p pos n.
    Proof. intro H. unfold p_entry. rewrite H. reflexivity. Qed.

    (* the object an own entry names, at its byte *)
    Lemma ehere_at n off g : p_ehere p pos n = SInUse off g ->
      exists tp pre post, In tp (p_mine p) /\ fst (fst tp) = (n, g) /\ P ++ T = pre ++ top_text tp ++ post /\ off = blen pre.
    Proof.
      intro H. destruct (ehere_inuse _ _ _ H) as [pre [tp [post [Eo [Ek Ep]]]]].
      exists tp, (P ++ body_of pre), (body_of post ++ p_xr). split; [apply otop_mine; rewrite Eo; apply in_or_app; right; left; reflexivity|].
      split; [exact Ek|]. split.
      - rewrite T_eq, Eo, body_of_app. change (body_of (tp :: post)) with (top_text tp ++ body_of post). rewrite <- !app_assoc. reflexivity.
      - rewrite Ep. unfold blen. rewrite app_length. lia.
    Qed.

    Lemma en_tentry_ok k : tentry_ok (en k).
    Proof.
      unfold p_entry. destruct (p_here p pos k) eqn:Eh.
      - unfold p_here in Eh. destruct (p_ehere p pos k) as [a0 b0|off g|c i] eqn:E; cbn [is_used] in Eh; try discriminate Eh.
        + destruct (ehere_at _ _ _ E) as [tp [pre [post [Hin [Ek [EP Eoff]]]]]]. cbn [tentry_ok]. split.
          * assert (blen pre <= blen (P ++ T)) by (rewrite EP; unfold blen; rewrite !app_length; lia). lia.
          * destruct (mine_bounds p tp Hin) as [_ [Hg _]]. rewrite Ek in Hg. cbn [snd] in Hg. unfold u16_max in Hg. lia.
        + exfalso. unfold p_ehere in E. destruct (find_off (offs_of pos (p_otops p) ++ []) k) as [[g0 q0]|]; discriminate E.
      - destruct (mem_N k (mp_relist p)).
        + destruct (lookup_entry known k) as [e|] eqn:El; [|cbn; unfold u32_max; lia].
          destruct (Hkn k e El) as [off [g [-> [H1 H2]]]]. cbn [tentry_ok]. split.
          * assert (blen P <= blen (P ++ T)) by (unfold blen; rewrite app_length; lia). lia.
          * unfold u16_max in H2. lia.
        + destruct (k =? 0); cbn; unfold u32_max; lia.
    Qed.

    Lemma secs_props :
      secs <> [] /\ secs_increasing 0 secs = true /\
      (forall f c, In (f, c) secs -> 1 <= c /\ f + c <= sz) /\
      (forall n, p_here p pos n = true -> exists f c, In (f, c) secs /\ f <= n < f + c).
    Proof.
      assert (Hsz : 1 <= sz) by (rewrite p_size_eq; lia).
      assert (Main : secs_increasing 0 secs = true /\ (forall f c, In (f, c) secs -> 1 <= c /\ f + c <= sz) /\
                     (forall n, n < sz -> p_here p pos n = true -> exists f c, In (f, c) secs /\ f <= n < f + c)).
      { unfold p_secs. destruct prev as [q|].
        - destruct (secs_ok_later (t_secs t) sz (p_here p pos) en) eqn:E.
          + unfold secs_ok_later in E. apply andb_true_iff in E as [E E3]. apply andb_true_iff in E as [E1 E2].
            split; [exact E1|]. split.
            * intros f c Hin. split; [eapply secs_increasing_c; eassumption|].
              rewrite forallb_forall in E3. specialize (E3 (f, c) Hin). cbn [fst snd] in E3. apply andb_true_iff in E3 as [E3 _].
              apply N.leb_le. exact E3.
            * intros n Hn Hu. unfold secs_cover in E2. rewrite forallb_forall in E2.
              assert (Hin : In n (range_N 0 (N.to_nat sz))) by (apply range_N_In; rewrite N2Nat.id; lia).
              specialize (E2 n Hin). rewrite Hu in E2. cbn [negb orb] in E2. apply existsb_exists in E2 as [[f c] [K1 K2]].
              cbn [fst snd] in K2. apply andb_true_iff in K2 as [K2 K3]. apply N.leb_le in K2. apply N.ltb_lt in K3. eauto.
          + destruct (runs_of_good (p_here p pos) (N.to_nat sz) 0) as [R1 [R2 R3]]. rewrite N2Nat.id in R2, R3. split; [exact R1|]. split.
            * intros f c Hin. destruct (R2 f c Hin). split; [assumption|lia].
            * intros n Hn Hu. apply R3; [lia|exact Hu].
        - destruct (use_secs_good (t_secs t) sz (fun n => (n =? 0) || p_here p pos n) Hsz) as [G1 [G2 G3]].
          split; [exact G1|]. split; [exact G3|]. intros n Hn Hu. apply G2; [exact Hn|]. cbv beta. rewrite Hu. apply orb_true_r. }
      destruct Main as [M1 [M2 M3]]. split; [|split; [exact M1|split; [exact M2|]]].
      - destruct Hex as [n0 Hn0]. destruct (M3 n0 (proj1 (here_lt n0 Hn0)) Hn0) as [f [c [Hin _]]]. intro E. rewrite E in Hin. contradiction.
      - intros n Hn. apply M3; [apply (here_lt n Hn)|exact Hn].
    Qed.

    Definition p_numb := map (fun k => (k, en k)) (keys_of secs).
    Lemma p_numbered_eq : numbered (tsections_plain p_tsecs) = p_numb.
    Proof. unfold p_tsecs. rewrite build_tsecs_plain. apply numbered_plain. Qed.
    Lemma p_numb_nodup : NoDup (map fst p_numb).
    Proof. unfold p_numb. rewrite map_map. cbn [fst]. rewrite map_id. destruct secs_props as [_ [H _]]. apply (keys_increasing secs 0 H). Qed.

    Definition p_x : xref := {| x_type := XTTable; x_entries := spec_map p_numb; x_size := i64_as_u32 (Z.of_N sz) |}.
    Definition p_t : dict := denote_dict p_trd (dict_sts (t_trailer t)).

    Lemma xr_parse_p ext : xref_and_trailer_table (p_xr ++ ext) = XOk (p_x, p_t).
    Proof.
      unfold xref_and_trailer_table, p_xr. rewrite <- app_assoc.
      assert (Htk : tok_start (p_tpart ++ ext) = true) by reflexivity.
      rewrite (xref_table_any_sectioning (t_kw_eol t) p_tsecs (p_tpart ++ ext)).
      2:{ apply build_tsecs_ne. apply secs_props. }
      2:{ apply (build_tsecs_ok en _ sz en_tentry_ok sz_le). apply secs_props. }
      2:{ reflexivity. }
      rewrite (space_tok _ Htk).
      destruct (Htr sz prev sz_le Hprev) as [Hw Hn].
      pose proof (trailer_any_spelling (t_f1 t) (t_f2 t) p_trd (t_trailer t) (startxref_text (with_part st p last) xpos) ext Hw Hn) as Et.
      assert (Et' : Xref.trailer (p_tpart ++ ext) = POk p_t (startxref_text (with_part st p last) xpos ++ ext)).
      { apply Et; rewrite startxref_text_block; [discriminate|reflexivity]. }
      rewrite Et'.
      assert (Eg : dict_get p_t Xref.K_Size = Some (OInt (Z.of_N sz))).
      { change Xref.K_Size with RefWriter.K_Size. unfold p_t. apply dict_get_denote. unfold p_trd. rewrite dget_app.
        destruct Htrail as [Hs _]. rewrite Hs. reflexivity. }
      rewrite Eg. cbn [x_type x_entries]. rewrite p_numbered_eq. reflexivity.
    Qed.

    Lemma xparse_p ext : xref_and_trailer_x dec can ((P ++ T) ++ ext) xpos = SOk (p_x, p_t).
    Proof.
      unfold xref_and_trailer_x. rewrite T_eq.
      replace ((P ++ body_of (p_otops p) ++ p_xr) ++ ext) with ((P ++ body_of (p_otops p)) ++ p_xr ++ ext) by (rewrite <- !app_assoc; reflexivity).
      replace xpos with (blen (P ++ body_of (p_otops p))) by (unfold p_xpos, blen; rewrite app_length; lia).
      rewrite from_app, xr_parse_p. reflexivity.
    Qed.

    Lemma xpos_lt : xpos < blen (P ++ T).
    Proof.
      rewrite T_eq. assert (E : exists r, p_xr = x78 :: r) by (unfold p_xr, table_text; eexists; reflexivity).
      destruct E as [r ->]. unfold p_xpos, blen. rewrite !app_length. cbn [length]. lia.
    Qed.

    Lemma PT_front : P ++ T = (P ++ body_of (p_otops p) ++ p_front) ++ startxref_text (with_part st p last) xpos /\
                     xpos <= blen (P ++ body_of (p_otops p) ++ p_front).
    Proof. rewrite T_eq, xr_front. split; [rewrite <- !app_assoc; reflexivity|]. unfold p_xpos, blen. rewrite !app_length. lia. Qed.

    Lemma p_t_prev : dict_get p_t K_Prev = prev_of ((xpos, (p_x, p_t)) :: chain) \/ True.
    Proof. right. exact I. Qed.

    Lemma p_t_prev_get : dict_get p_t K_Prev = match prev with Some q => Some (OInt (Z.of_N q)) | None => None end.
    Proof.
      destruct Htrail as [_ [Hp _]]. unfold p_t, p_trd. destruct prev as [q|]; cbn [p_prev].
      - apply dict_get_denote. rewrite dget_app, Hp. reflexivity.
      - apply dict_get_denote_none. rewrite dget_app, Hp. reflexivity.
    Qed.

    Lemma p_t_none k : dict_get (a_trailer a) k = None -> bytes_eqb RefWriter.K_Size k = false -> bytes_eqb K_PrevW k = false ->
      dict_get p_t k = None.
    Proof.
      intros H1 H2 H3. unfold p_t, p_trd. apply dict_get_denote_none. rewrite dget_app, H1. cbn [app dict_get]. rewrite H2.
      destruct prev; cbn [p_prev dict_get]; [rewrite H3|]; reflexivity.
    Qed.

    Lemma p_t_removed k : k <> K_Prev -> dict_get (dict_swap_remove p_t K_Prev) k = dict_get p_t k.
    Proof.
      intro H. apply dict_get_swap_remove_other; [|exact H]. unfold dict_wf, keys, p_t. rewrite keys_denote.
      destruct (Htr sz prev sz_le Hprev) as [Hw _]. apply spell_wf_dict in Hw. apply Hw.
    Qed.

    Lemma p_x_sorted : C07Bytes.xincr 0 (x_entries p_x).
    Proof. apply spec_map_sorted. exact I. Qed.

    Lemma xget_p_cases n :
      (In n (keys_of secs) /\ xget (x_entries p_x) n = entry_meaning (en n)) \/ (~ In n (keys_of secs) /\ xget (x_entries p_x) n = None).
    Proof.
      destruct (in_dec N.eq_dec n (keys_of secs)) as [Hin|Hn]; [left|right]; (split; [assumption|]).
      - cbn [x_entries p_x]. apply (xget_spec_map p_numb n (en n) p_numb_nodup). unfold p_numb. apply in_map_iff. exists n. split; [reflexivity|exact Hin].
      - cbn [x_entries p_x]. unfold spec_map. rewrite xget_spec_map_absent; [reflexivity|].
        unfold p_numb. rewrite map_map. cbn [fst]. rewrite map_id. exact Hn.
    Qed.

    (* ---------- the invariant after this part ---------- *)
    Notation chain' := ((xpos, (p_x, p_t)) :: chain).

    Lemma fe_step n : fe chain' n = if p_here p pos n then entry_meaning (p_ehere p pos n) else fe chain n.
    Proof.
      unfold fe. cbn [map first_entry fst snd]. change (first_entry (map (fun s : csec => fst (snd s)) chain) n) with (fe chain n).
      destruct (p_here p pos n) eqn:Eh.
      - destruct secs_props as [_ [_ [_ Hc]]]. destruct (Hc n Eh) as [f [c [Hin Hr]]].
        destruct (xget_p_cases n) as [[_ ->]|[Hn _]]; [|exfalso; apply Hn; apply keys_of_In; eauto].
        rewrite (en_here n Eh). unfold p_here in Eh. destruct (p_ehere p pos n); cbn [is_used] in Eh; try discriminate Eh; reflexivity.
      - destruct (xget_p_cases n) as [[_ ->]|[_ ->]]; [|reflexivity].
        unfold p_entry. rewrite Eh. destruct (mem_N n (mp_relist p)).
        + pose proof (i_known _ _ _ _ _ Hinv n) as K. destruct (lookup_entry known n) as [e|]; [|reflexivity].
          rewrite <- K. destruct (entry_meaning e); reflexivity.
        + destruct (n =? 0); reflexivity.
    Qed.

    Lemma known_step n :
      lookup_entry (p_known p pos known maxnum) n = if p_here p pos n then Some (p_ehere p pos n) else lookup_entry known n.
    Proof.
      unfold p_known. rewrite (lookup_entry_map en known). destruct (p_here p pos n) eqn:Eh.
      - replace (mem_N n (filter (p_here p pos) (range_N 0 (N.to_nat sz)))) with true; [rewrite (en_here n Eh); reflexivity|].
        symmetry. apply mem_N_In. apply filter_In. split; [|exact Eh]. apply range_N_In. rewrite N2Nat.id. destruct (here_lt n Eh). lia.
      - replace (mem_N n (filter (p_here p pos) (range_N 0 (N.to_nat sz)))) with false; [reflexivity|].
        symmetry. destruct (mem_N n (filter (p_here p pos) (range_N 0 (N.to_nat sz)))) eqn:E; [|reflexivity].
        apply mem_N_In in E. apply filter_In in E as [_ E]. congruence.
    Qed.

    Lemma inv_step : Inv rest (P ++ T) chain' (p_known p pos known maxnum) (sz - 1).
    Proof.
      assert (HPT : blen P <= blen (P ++ T)) by (unfold blen; rewrite app_length; lia).
      assert (Hhere : forall n, p_here p pos n = true -> exists off g, p_ehere p pos n = SInUse off g).
      { intros n Eh. unfold p_here in Eh. destruct (p_ehere p pos n) as [a0 b0|off g|c i] eqn:E; cbn [is_used] in Eh; try discriminate Eh; [eauto|].
        exfalso. unfold p_ehere in E. destruct (find_off (offs_of pos (p_otops p) ++ []) n) as [[g0 q0]|]; discriminate E. }
      assert (Hmine : forall tp, In tp tops -> In (top_num tp) (mp_nums p) -> p_here p pos (top_num tp) = true).
      { intros tp Htp K. apply here_iff. unfold p_hnums. apply in_map_iff. exists tp. split; [reflexivity|]. unfold p_mine. apply in_or_app. left.
        apply filter_In. split; [exact Htp|]. apply mem_N_In. exact K. }
      constructor.
      - (* i_nums *) intros n e H. rewrite fe_step in H. destruct (p_here p pos n) eqn:Eh.
        + destruct (Hhere n Eh) as [off [g Ee]]. rewrite Ee in H. cbn [entry_meaning] in H. inversion H; subst e.
          destruct (here_lt n Eh) as [H1 H2]. split; [exact H2|]. split; [lia|eauto].
        + destruct (i_nums _ _ _ _ _ Hinv n e H) as [H1 [H2 H3]]. split; [exact H1|]. split; [rewrite p_size_eq; lia|exact H3].
      - (* i_cur *) intros n off g H Hnr. rewrite fe_step in H. destruct (p_here p pos n) eqn:Eh.
        + destruct (Hhere n Eh) as [off' [g' Ee]]. rewrite Ee in H. cbn [entry_meaning] in H. inversion H; subst off' g'.
          destruct (ehere_at _ _ _ Ee) as [tp [pre [post [Hin [Ek [EP Eoff]]]]]].
          destruct (mine_cases p tp Hin) as [[Ht _]|[cur [o [_ [_ Ho]]]]].
          * exists tp, pre, post. auto.
          * exfalso. apply Hnr. unfold top_num in Ho. rewrite Ek in Ho. cbn [fst] in Ho. apply (Hold _ Ho).
        + assert (Hnp : ~ In n (mp_nums p)).
          { intro K. destruct (i_nums _ _ _ _ _ Hinv n _ H) as [Hn _]. destruct (top_of_num n Hn) as [tp [Htp En]].
            rewrite <- En in K. pose proof (Hmine tp Htp K) as K2. rewrite En in K2. congruence. }
          destruct (i_cur _ _ _ _ _ Hinv n off g H) as [tp [pre [post [H1 [H2 [H3 H4]]]]]].
          { cbn [flat_map]. intro K. apply in_app_or in K as [K|K]; [apply Hnp; exact K|apply Hnr; exact K]. }
          exists tp, pre, (post ++ T). split; [exact H1|]. split; [exact H2|]. split; [rewrite H3, <- !app_assoc; reflexivity|exact H4].
      - (* i_all *) intros tp Htp Hnr. rewrite fe_step. destruct (p_here p pos (top_num tp)) eqn:Eh.
        + destruct (Hhere _ Eh) as [off [g ->]]. discriminate.
        + apply (i_all _ _ _ _ _ Hinv tp Htp). cbn [flat_map]. intro K. apply in_app_or in K as [K|K]; [|apply Hnr; exact K].
          pose proof (Hmine tp Htp K). congruence.
      - (* i_known *) intro n. rewrite known_step, fe_step. destruct (p_here p pos n); [reflexivity|apply (i_known _ _ _ _ _ Hinv)].
      - (* i_kn *) intros n e H. rewrite known_step in H. destruct (p_here p pos n) eqn:Eh.
        + inversion H; subst e. destruct (Hhere n Eh) as [off [g Ee]]. exists off, g. split; [exact Ee|].
          destruct (ehere_at _ _ _ Ee) as [tp [pre [post [Hin [Ek [EP Eoff]]]]]]. split.
          * rewrite Eoff, EP. unfold blen. rewrite !app_length. lia.
          * destruct (mine_bounds p tp Hin) as [_ [Hg _]]. rewrite Ek in Hg. exact Hg.
        + destruct (Hkn n e H) as [off [g [E1 [E2 E3]]]]. exists off, g. split; [exact E1|]. split; [lia|exact E3].
      - (* i_chain *) intro ext. cbn [chain_ok]. split; [exact xpos_lt|]. split; [apply xparse_p|]. split.
        + apply p_t_none; [apply Htrail|reflexivity|reflexivity].
        + split.
          * rewrite p_t_prev_get.
            assert (G : forall c, match prev_N c with Some q => Some (OInt (Z.of_N q)) | None => None end = prev_of c)
              by (intros [|[off [x0 t0]] r]; reflexivity).
            apply G.
          * rewrite <- app_assoc. apply (chain_ok_weaken dec can _ chain (blen P)); [unfold p_xpos; lia|apply (i_chain _ _ _ _ _ Hinv)].
      - (* i_max *) rewrite p_size_eq. pose proof (hnums_le p). pose proof Hmaxn. lia.
    Qed.
  End Part.

  (* ====================================================================================================
     Part 3: all parts
     ==================================================================================================== *)
  Lemma part_defines_eq p : part_defines st p = mp_nums p.
  Proof. unfold part_defines, part_containers. rewrite Hos. cbn [filter flat_map]. apply app_nil_r. Qed.

  Lemma defines_eq : forall l, flat_map (part_defines st) l = flat_map mp_nums l.
  Proof. induction l as [|p l IH]; [reflexivity|]. cbn [flat_map]. rewrite IH, part_defines_eq. reflexivity. Qed.

  Definition part_dom (p : mpart) : Prop := exists t, mp_xref p = XTable t /\ trailer_dom t.

  Lemma parts_inv : forall parts P chain known maxnum r,
    Forall part_dom parts -> Inv parts P chain known maxnum ->
    write_parts st a tops parts (blen P) (prev_N chain) known maxnum = Some r ->
    blen (P ++ r) <= u32_max ->
    exists chainF knownF maxF, Inv [] (P ++ r) chainF knownF maxF /\
      (parts <> [] -> exists xs x0 t0 cr lastp front,
         chainF = (xs, (x0, t0)) :: cr /\ C07Bytes.xincr 0 (x_entries x0) /\ last_part parts = Some lastp /\
         P ++ r = front ++ startxref_text (with_part st lastp true) xs /\ xs <= blen front /\
         match parts with p :: _ => p_xpos p (blen P) <= xs | [] => True end /\
         dict_get (dict_swap_remove t0 K_Prev) K_XRefStm = None /\ dict_has (dict_swap_remove t0 K_Prev) K_Encrypt = false /\
         x_type x0 = XTTable).
  Proof.
    induction parts as [|p rest IH]; intros P chain known maxnum r Hdom Hinv Hw HU.
    - cbn [write_parts] in Hw. inversion Hw; subst r. rewrite app_nil_r. exists chain, known, maxnum. split; [exact Hinv|]. intro K. contradiction.
    - inversion Hdom as [|? ? [t [Hxt Htr]] Hdom']; subst.
      rewrite (write_parts_step p rest _ _ _ _ t Hxt) in Hw.
      destruct (negb (nodup_N (p_hnums p) && forallb (fun no => mem_N (fst no) (flat_map (part_defines st) rest)) (mp_old p) &&
                      Nat.eqb (length (p_olds p)) (length (mp_old p)))) eqn:C1; [discriminate Hw|].
      apply negb_false_iff in C1. apply andb_true_iff in C1 as [C1 _]. apply andb_true_iff in C1 as [C1a C1b].
      destruct (negb (existsb (p_here p (blen P)) (range_N 0 (N.to_nat (p_size p maxnum))))) eqn:C2; [discriminate Hw|].
      apply negb_false_iff in C2. apply existsb_exists in C2 as [n0 [_ Hn0]].
      set (T := p_text p t (p_last rest) (blen P) (prev_N chain) known maxnum) in *.
      destruct (write_parts st a tops rest (blen P + N.of_nat (length T)) (Some (p_xpos p (blen P))) (p_known p (blen P) known maxnum)
                            (p_size p maxnum - 1)) as [r'|] eqn:Hr; [|discriminate Hw].
      inversion Hw; subst r. clear Hw.
      assert (Hhn : NoDup (p_hnums p)) by (apply nodup_N_spec; exact C1a).
      assert (Hold : forall no, In no (mp_old p) -> In (fst no) (flat_map mp_nums rest)).
      { intros no Hno. rewrite forallb_forall in C1b. specialize (C1b no Hno). apply mem_N_In in C1b. rewrite defines_eq in C1b. exact C1b. }
      assert (Hex : exists n, p_here p (blen P) n = true) by (exists n0; exact Hn0).
      assert (HU1 : blen (P ++ T) <= u32_max).
      { unfold blen in *. rewrite !app_length in *. lia. }
      pose proof (inv_step p t P chain known maxnum rest Hxt Hhn Hinv Hex Hold Htr HU1) as Hinv'. fold T in Hinv'.
      assert (HTb : p_xpos p (blen P) <= blen (P ++ T)).
      { unfold T, p_text, p_xpos, blen. rewrite !app_length. lia. }
      destruct rest as [|p2 rest2].
      + cbn [write_parts] in Hr. inversion Hr; subst r'. rewrite app_nil_r.
        eexists _, _, _. split; [exact Hinv'|]. intros _.
        destruct (PT_front p t P chain known maxnum []) as [F1 F2]; try assumption. fold T in F1.
        eexists _, _, _, _, p, _. split; [reflexivity|]. split; [apply p_x_sorted|]. split; [reflexivity|].
        split; [exact F1|]. split; [exact F2|]. split; [lia|]. split; [|split; [|reflexivity]].
        * rewrite (p_t_removed p t P chain known maxnum [] Hinv Htr HU1 K_XRefStm) by (intro E; discriminate E).
          apply (p_t_none p t P chain known maxnum []); first [assumption | apply Htrail | reflexivity].
        * unfold dict_has. rewrite (p_t_removed p t P chain known maxnum [] Hinv Htr HU1 K_Encrypt) by (intro E; discriminate E).
          rewrite (p_t_none p t P chain known maxnum []); first [assumption | apply Htrail | reflexivity].
      + assert (Epos : blen P + N.of_nat (length T) = blen (P ++ T)) by (unfold blen; rewrite app_length; lia).
        rewrite Epos in Hr.
        destruct (IH (P ++ T) _ _ _ r' Hdom' Hinv' Hr) as [cF [kF [mF [I1 I2]]]].
        { rewrite <- app_assoc. exact HU. }
        exists cF, kF, mF. split; [rewrite app_assoc; exact I1|]. intros _.
        destruct I2 as [xs [x0 [t0 [cr [lastp [front [E1 [E2 [E3 [E4 [E5 [E6 E7]]]]]]]]]]]]; [discriminate|].
        exists xs, x0, t0, cr, lastp, front. split; [exact E1|]. split; [exact E2|]. split; [exact E3|].
        split; [rewrite app_assoc; exact E4|]. split; [exact E5|]. split; [|exact E7].
        unfold p_xpos in E6 at 1. lia.
  Qed.

  (* ---------- the writer's top level ---------- *)
  Lemma part_xids_nil : forall parts, Forall part_dom parts -> part_xids parts = [].
  Proof.
    induction parts as [|p l IH]; intro H; [reflexivity|]. inversion H as [|? ? [t [Hxt _]] H']; subst.
    unfold part_xids in *. cbn [flat_map]. rewrite Hxt, (IH H'). reflexivity.
  Qed.

  Lemma ref_write_multi_shape parts file : Forall part_dom parts -> ref_write_multi st parts a = Some file ->
    exists r, file = s_junk st ++ RefWriter.header st (a_version a) ++ r /\
      write_parts st a tops parts (blen (RefWriter.header st (a_version a))) None [] 0 = Some r /\ parts <> [] /\
      contains (bs "%PDF-") (s_junk st) = false /\ no_eolb (a_version a) = true /\
      (forall tp, In tp tops -> In (top_num tp) (flat_map mp_nums parts)).
  Proof.
    intros Hdom H. unfold ref_write_multi in H. unfold compressed_nums in H. rewrite Hos, (part_xids_nil parts Hdom) in H.
    cbn [flat_map map containers app] in H. rewrite !app_nil_r in H.
    destruct (contains (bs "%PDF-") (s_junk st) || contains [x0d] (a_version a) || contains [x0a] (a_version a)) eqn:C1; [discriminate H|].
    apply orb_false_iff in C1 as [C1 C1c]. apply orb_false_iff in C1 as [C1a C1b].
    match type of H with (if ?c then _ else _) = _ => destruct c eqn:C2; [discriminate H|] end.
    rewrite filter_all_true in H by (intro; reflexivity).
    match type of H with (if ?c then _ else _) = _ => destruct c eqn:C3; [discriminate H|] end.
    apply negb_false_iff in C3. apply andb_true_iff in C3 as [_ C3].
    match type of H with match ?w with Some _ => _ | None => _ end = _ => destruct w as [r|] eqn:Hr; [|discriminate H] end.
    destruct parts as [|p0 parts0]; [discriminate H|]. inversion H; subst file. exists r.
    split; [reflexivity|]. split; [exact Hr|]. split; [discriminate|]. split; [exact C1a|]. split; [apply version_no_eol; assumption|].
    intros tp Htp. rewrite forallb_forall in C3. apply mem_N_In. apply (C3 tp Htp).
  Qed.

  Definition objfM (n g : N) : obj :=
    match find (fun tp => top_num tp =? n) tops with Some tp => loaded_top tp | None => ONull end.

  Lemma objfM_top tp : In tp tops -> objfM (top_num tp) (snd (fst (fst tp))) = loaded_top tp.
  Proof.
    intro H. unfold objfM. destruct (find (fun tp0 => top_num tp0 =? top_num tp) tops) as [tp'|] eqn:Ef.
    - apply find_some in Ef as [H1 H2]. apply N.eqb_eq in H2. rewrite (tops_unique tp' tp H1 H H2). reflexivity.
    - exfalso. pose proof (find_none _ _ Ef tp H) as K. cbv beta in K. rewrite N.eqb_refl in K. discriminate K.
  Qed.

  Lemma ostm_none (x : xmap) : flat_map (ostm_of (fun _ => None)) x = [].
  Proof. induction x as [|[k e] x IH]; [reflexivity|]. cbn [flat_map]. rewrite IH. unfold ostm_of. cbn [fst snd]. destruct e; reflexivity. Qed.

  Definition window_ok (parts : list mpart) (file : bytes) : Prop :=
    forall lastp xs, last_part parts = Some lastp -> xs <= blen file ->
      (9 + length (sx_mid (s_sx_eol1 (with_part st lastp true)) (s_sx_sp1 (with_part st lastp true)) xs
                          (s_sx_sp2 (with_part st lastp true)) (s_sx_eol2 (with_part st lastp true))) <= 25)%nat.

  Theorem loads_multi_table parts file :
    Forall part_dom parts -> utf8_decode (a_version a) <> None ->
    ref_write_multi st parts a = Some file -> blen file <= u32_max ->
    match parts with p :: _ => 25 < p_xpos p (blen (RefWriter.header st (a_version a))) | [] => True end ->
    window_ok parts file ->
    exists d, load_ext dec can file = LOk d XTTable /\ d_version d = a_version a /\
      (forall tp, In tp tops -> lookup (d_objects d) (fst (fst tp)) = Some (loaded_top tp)) /\
      (forall id o, lookup (d_objects d) id = Some o -> exists tp, In tp tops /\ fst (fst tp) = id).
  Proof.
    intros Hdom Hu Hw Hlen H25 Hsx.
    destruct (ref_write_multi_shape parts file Hdom Hw) as [r [-> [Hr [Hne [Hj [Hv Hplaced]]]]]].
    set (hdr := RefWriter.header st (a_version a)) in *.
    assert (Hinv0 : Inv parts hdr [] [] 0).
    { constructor.
      - intros n e H. discriminate H.
      - intros n off g H. discriminate H.
      - intros tp Htp Hn. exfalso. apply Hn. apply Hplaced. exact Htp.
      - intro n. reflexivity.
      - intros n e H. discriminate H.
      - intro ext. exact I.
      - lia. }
    assert (HU : blen (hdr ++ r) <= u32_max) by (unfold blen in *; rewrite !app_length in *; lia).
    destruct (parts_inv parts hdr [] [] 0 r Hdom Hinv0 Hr HU) as [cF [kF [mF [IF HF]]]].
    destruct (HF Hne) as [xs [x0 [t0 [cr [lastp [front [E1 [E2 [E3 [E4 [E5 [E6 [E7 [E8 E9]]]]]]]]]]]]]]. subst cF. clear HF.
    pose proof (i_chain _ _ _ _ _ IF []) as Hc. rewrite app_nil_r in Hc. cbn [chain_ok] in Hc.
    destruct Hc as [Hc1 [Hc2 [Hc3 [Hc4 Hc5]]]].
    set (buf := hdr ++ r) in *.
    set (xm := fold_left xref_merge (map (fun s : csec => fst (snd s)) cr) x0).
    assert (Hsorted : C07Bytes.xincr 0 (x_entries xm)) by (apply C07Bytes.fold_merge_sorted; exact E2).
    assert (Hfe : forall n e, In (n, e) (x_entries xm) -> fe ((xs, (x0, t0)) :: cr) n = Some e).
    { intros n e Hin. unfold fe. cbn [map fst snd]. rewrite <- xget_merge_chain. apply (C07Bytes.xget_in_sorted _ 0); assumption. }
    assert (Hmax : xref_max_id xm < u32_max).
    { unfold xref_max_id. apply N.le_lt_trans with (m := max_num nums); [|lia].
      apply max_id_le; [lia|]. intros k v Hin. destruct (i_nums _ _ _ _ _ IF k v (Hfe k v Hin)) as [Hk _]. apply max_num_ge. exact Hk. }
    assert (Hspec : forall n off g, In (n, XNormal off g) (x_entries xm) ->
                      entry_spec dec can buf (x_entries xm) objfM (fun _ _ => None) (fun _ => None) n off g).
    { intros n off g Hin. destruct (i_cur _ _ _ _ _ IF n off g (Hfe _ _ Hin)) as [tp [pre [post [H1 [H2 [H3 H4]]]]]]; [intros []|].
      destruct (tops_id tp H1) as [K1 [K2 [K3 K4]]].
      assert (Hn : top_num tp = n) by (unfold top_num; rewrite H2; reflexivity).
      assert (Hg : snd (fst (fst tp)) = g) by (rewrite H2; reflexivity).
      unfold entry_spec. rewrite H4, H3. split; [unfold blen; rewrite !app_length; lia|]. rewrite from_app.
      destruct (indirect_x_top (pre ++ top_text tp ++ post) (x_entries xm) tp post K4) as [P1 P2].
      { fold (top_num tp). pose proof (max_num_ge _ _ K3). lia. }
      rewrite <- Hn, <- Hg, (objfM_top tp H1). rewrite P1. split; [f_equal; destruct tp as [[[? ?] ?] ?]; reflexivity|].
      split; [exact P2|]. destruct (loaded_top tp); try reflexivity; exact I. }
    eexists. split.
    - rewrite <- E9. apply (load_ext_frame_chain dec can buf (x_entries xm) objfM (fun _ _ => None) (fun _ => None) (s_junk st) buf (a_version a) xs x0 t0 cr).
      + unfold buf, hdr, RefWriter.header. rewrite <- !app_assoc. apply pdf_offset_junk. exact Hj.
      + reflexivity.
      + unfold buf, hdr, RefWriter.header. rewrite <- !app_assoc. apply header_any_eol; assumption.
      + rewrite E4, startxref_text_block.
        assert (Hfb : blen front <= blen buf) by (rewrite E4; unfold blen; rewrite app_length; lia).
        apply get_xref_start_styled.
        * exact E5.
        * destruct parts as [|p0 parts0]; [contradiction|]. lia.
        * unfold u32_max in HU. lia.
        * apply Hsx; [exact E3|]. unfold buf, blen in *. rewrite !app_length in *. lia.
      + lia.
      + exact Hc2.
      + exact E7.
      + exact Hc4.
      + exact Hc5.
      + reflexivity.
      + exact E8.
      + exact Hmax.
      + exact Hspec.
    - cbn [d_version d_objects]. split; [reflexivity|].
      rewrite ostm_none. unfold merge_object_streams. cbn [fold_left]. rewrite zero_pass_id.
      2:{ intros id' q Hq. rewrite pos_none_fold in Hq by reflexivity. discriminate Hq. }
      set (M := fold_left (ins objfM) (x_entries xm) []).
      assert (Hlk : forall id, lookup M id = if hit (xget (x_entries xm)) (x_entries xm) id then Some (objfM (fst id) (snd id)) else None).
      { intro id. unfold M. rewrite (lookup_fold_ins objfM (xget (x_entries xm)) _ [] id); [reflexivity|].
        intros n e Hin. apply (C07Bytes.xget_in_sorted _ 0); assumption. }
      split.
      + intros tp Htp. rewrite Hlk.
        assert (Hne' : fe ((xs, (x0, t0)) :: cr) (top_num tp) <> None) by (apply (i_all _ _ _ _ _ IF tp Htp); intros []).
        destruct (fe ((xs, (x0, t0)) :: cr) (top_num tp)) as [e|] eqn:Ee; [|contradiction].
        destruct (i_nums _ _ _ _ _ IF _ _ Ee) as [_ [_ [off [g ->]]]].
        destruct (i_cur _ _ _ _ _ IF _ _ _ Ee) as [tp' [pre [post [H1 [H2 _]]]]]; [intros []|].
        assert (tp' = tp) by (apply tops_unique; [exact H1|exact Htp|unfold top_num; rewrite H2; reflexivity]). subst tp'.
        assert (Hx : xget (x_entries xm) (top_num tp) = Some (XNormal off g)) by (unfold xm; rewrite xget_merge_chain; exact Ee).
        unfold hit. change (fst (fst (fst tp))) with (top_num tp). rewrite (xget_some_key _ _ _ (xget_In _ _ _ Hx)), Hx. cbn [andb].
        assert (g = snd (fst (fst tp))) by (rewrite H2; reflexivity). subst g. rewrite N.eqb_refl. rewrite objfM_top by exact Htp. reflexivity.
      + intros id o Hl. rewrite Hlk in Hl. destruct (hit (xget (x_entries xm)) (x_entries xm) id) eqn:Eh; [|discriminate Hl].
        unfold hit in Eh. apply andb_true_iff in Eh as [_ Eh].
        destruct (xget (x_entries xm) (fst id)) as [[| |off g|c i]|] eqn:Ex; try discriminate Eh. apply N.eqb_eq in Eh.
        assert (Ee : fe ((xs, (x0, t0)) :: cr) (fst id) = Some (XNormal off g))
          by (unfold fe; cbn [map fst snd]; rewrite <- xget_merge_chain; exact Ex).
        destruct (i_cur _ _ _ _ _ IF _ _ _ Ee) as [tp [pre [post [H1 [H2 _]]]]]; [intros []|].
        exists tp. split; [exact H1|]. rewrite H2. destruct id; cbn [fst snd] in *. subst. reflexivity.
  Qed.
End Multi.
