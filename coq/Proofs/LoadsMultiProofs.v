(* LoadsMultiProofs.v -- C02 rung 3: files of SEVERAL cross-reference sections written by the reference writer
   (Spec/RefWriter.v ref_write_multi / write_parts): every part = objects, a cross-reference TABLE with its trailer
   (Prev = the section of the part before), startxref, %%EOF.  A part may list objects of earlier parts again (mp_relist,
   entry taken from [known]) and may hold superseded definitions (mp_old: same identifier as an object whose current
   definition is in a later part).
   The invariant [Inv] is carried along write_parts: the sections written so far form a chain (LoadsLoopProofs.chain_ok) in
   the prefix followed by ANY further bytes; [known] is the merge of that chain (newest first); an entry of the merge whose
   number no remaining part defines names the CURRENT definition at the byte where it starts; every current object of a
   finished part has an entry.  At the end Reader::read is LoadsLoopProofs.load_ext_frame_chain on the merged table. *)
From LV Require Import Base.Bytes Base.Sx Model.Obj Model.Writer Model.Parser Model.Xref Model.ObjStm Model.Loader Model.Utf Gen.Lex
  Spec.XrefSpec Spec.RefWriter Proofs.LexProofs Proofs.LoadProofs Proofs.LoadProofsFile Proofs.XrefProofs
  Proofs.XrefTableProofs Proofs.ObjectRtProofs Proofs.SpellingProofs Proofs.SpellingObjProofs Proofs.SpellingFileProofs
  Proofs.LoadsFrameProofs Proofs.LoadsTableProofs Proofs.FilterProofsDict.
From LV Require Import Model.LoaderExt Proofs.LoaderExtProofs Proofs.LoadsLoopProofs.
From LV Require Proofs.C07Bytes.
From Coq Require Import Lia.
Local Open Scope N_scope.

(* ======================================================================================================
   Part 0: facts that do not depend on the file
   ====================================================================================================== *)
(* one object at its place, read by Reader::read_object (Length direct: the table is not consulted) *)
Lemma indirect_x_top buf x tp post : top_ok tp -> fst (fst (fst tp)) <= u32_max ->
  indirect_x buf x (top_text tp ++ post) None = IxOk (fst (fst tp)) (loaded_top tp) None /\ no_objstm (loaded_top tp).
Proof.
  intros Hk Hi. destruct (indirect_top tp post Hk Hi) as [P1 P2]. split; [|exact P2].
  unfold indirect_x.
  match goal with |- indirect_with ?b ?s0 ?e ?l = _ => pose proof (indirect_with_agrees b s0 e l) as A end.
  rewrite P1 in A. destruct A as [pos [-> [->|[d0 [K Kn]]]]]; [reflexivity|]. exfalso.
  destruct tp as [[[i g] o] y]. unfold loaded_top in K. cbn [fst snd] in K.
  destruct o; cbn [denote] in K; try discriminate K.
  unfold stream_new in K. inversion K; subst. unfold no_length in Kn. rewrite FilterProofsDict.dict_get_set_same in Kn. exact Kn.
Qed.

(* sorted maps: the table a section denotes, and the merge *)
Lemma spec_map_sorted : forall l m, C07Bytes.xincr 0 m -> C07Bytes.xincr 0 (fold_left spec_step l m).
Proof.
  induction l as [|[n se] l IH]; intros m H; [exact H|]. cbn [fold_left]. apply IH.
  unfold spec_step. cbn [fst snd]. destruct se; [exact H|apply C07Bytes.xinsert_sorted; exact H|apply C07Bytes.xinsert_sorted; exact H].
Qed.

Lemma pos_none_fold : forall (es : xmap) p id, pos_get p id = None ->
  pos_get (fold_left (pstep (fun _ _ => None)) es p) id = None.
Proof.
  induction es as [|[k e] es IH]; intros p id H; [exact H|]. cbn [fold_left]. apply IH.
  unfold pstep. cbn [fst snd]. destruct e as [| |off g|c i]; try exact H. rewrite pos_get_set. destruct (oid_eqb (k, g) id); [reflexivity|exact H].
Qed.

Lemma mem_N_In x l : mem_N x l = true <-> In x l.
Proof.
  unfold mem_N. rewrite existsb_exists. split.
  - intros [y [H1 H2]]. apply N.eqb_eq in H2. subst. exact H1.
  - intro H. exists x. split; [exact H|apply N.eqb_refl].
Qed.

Lemma find_obj_In : forall objs n g o, find_obj objs n = Some (g, o) -> In ((n, g), o) objs.
Proof.
  induction objs as [|[[i g0] o0] objs IH]; intros n g o H; [discriminate H|]. cbn [find_obj] in H.
  destruct (i =? n) eqn:E; [apply N.eqb_eq in E; inversion H; subst; left; reflexivity|right; apply IH; exact H].
Qed.

Lemma s_xref_with_part st p l : s_xref (with_part st p l) = mp_xref p.
Proof. unfold with_part. destruct (mp_sx p) as [[[[e1 s1] s2] e2] fe]. reflexivity. Qed.

Lemma first_entry_none_keys : forall (l : list xref) n, first_entry l n = None -> forall x, In x l -> xget (x_entries x) n = None.
Proof.
  induction l as [|y l IH]; intros n H x Hin; [contradiction|]. cbn [first_entry] in H.
  destruct (xget (x_entries y) n) eqn:E; [discriminate H|]. destruct Hin as [<-|Hin]; [exact E|apply IH; assumption].
Qed.

Lemma chain_ok_weaken dec can buf : forall rest hi hi', hi <= hi' -> chain_ok dec can buf hi rest -> chain_ok dec can buf hi' rest.
Proof. destruct rest as [|[off [x t]] rest]; intros hi hi' H K; [exact I|]. cbn [chain_ok] in *. destruct K as [K1 K2]. split; [lia|exact K2]. Qed.

(* ======================================================================================================
   Part 1: one part of write_parts (table format, no object streams), in closed form
   ====================================================================================================== *)
Section Multi.
  Variable st : fstyle.
  Variable a : adoc.
  Hypothesis Hos : s_ostms st = [].
  Variable dec : dict -> bytes -> option (dict * bytes).
  Variable can : dict -> bool.

  Notation tops := (LoadsTableProofs.tops st a).
  Notation nums := (LoadsTableProofs.nums a).

  Definition p_olds (p : mpart) : list top :=
    flat_map (fun no => match find_obj (a_objs a) (fst no) with
                        | Some (g, _) => [((fst no, g), snd no, find_istyle (s_objs st) (fst no))]
                        | None => []
                        end) (mp_old p).
  Definition p_mine (p : mpart) : list top := filter (fun t => mem_N (fst (fst (fst t))) (mp_nums p)) tops ++ p_olds p.
  Definition p_otops (p : mpart) : list top := ordered (mp_order p) (p_mine p).
  Definition p_hnums (p : mpart) : list N := map (fun t : top => fst (fst (fst t))) (p_mine p).
  Definition p_xpos (p : mpart) (pos : N) : N := pos + N.of_nat (length (body_of (p_otops p))).
  Definition p_ehere (p : mpart) (pos n : N) : sentry :=
    match find_off (offs_of pos (p_otops p) ++ []) n with Some (g, q) => SInUse q g | None => SFree 0 0 end.
  Definition p_here (p : mpart) (pos n : N) : bool := is_used (p_ehere p pos n).
  Definition p_entry (p : mpart) (pos : N) (known : list (N * sentry)) (n : N) : sentry :=
    if p_here p pos n then p_ehere p pos n
    else if mem_N n (mp_relist p) then match lookup_entry known n with Some e => e | None => SFree 0 0 end
    else if n =? 0 then SFree 0 65535 else SFree 0 0.
  Definition p_size (p : mpart) (maxnum : N) : N := 1 + N.max maxnum (max_num (p_hnums p ++ [])).
  Definition p_secs (p : mpart) (t : tstyle) (pos : N) (prev : option N) (known : list (N * sentry)) (maxnum : N) : list (N * N) :=
    match prev with
    | None => use_secs (t_secs t) (p_size p maxnum) (fun n => (n =? 0) || p_here p pos n)
    | Some _ => if secs_ok_later (t_secs t) (p_size p maxnum) (p_here p pos) (p_entry p pos known) then t_secs t
                else runs_of (p_here p pos) 0 (N.to_nat (p_size p maxnum))
    end.
  Definition p_prev (prev : option N) : list (bytes * obj) :=
    match prev with Some q => [(K_PrevW, OInt (Z.of_N q))] | None => [] end.
  Definition p_text (p : mpart) (t : tstyle) (last : bool) (pos : N) (prev : option N) (known : list (N * sentry)) (maxnum : N) : bytes :=
    body_of (p_otops p) ++
    section_text (with_part st p last) a (p_secs p t pos prev known maxnum) (p_entry p pos known) (p_size p maxnum) (p_xpos p pos) (p_prev prev).
  Definition p_known (p : mpart) (pos : N) (known : list (N * sentry)) (maxnum : N) : list (N * sentry) :=
    map (fun n => (n, p_entry p pos known n)) (filter (p_here p pos) (range_N 0 (N.to_nat (p_size p maxnum)))) ++ known.
  Definition p_last (rest : list mpart) : bool := match rest with [] => true | _ => false end.

  Lemma write_parts_step p rest pos prev known maxnum t : mp_xref p = XTable t ->
    write_parts st a tops (p :: rest) pos prev known maxnum =
    if negb (nodup_N (p_hnums p) && forallb (fun no => mem_N (fst no) (flat_map (part_defines st) rest)) (mp_old p) &&
             Nat.eqb (length (p_olds p)) (length (mp_old p)))
    then None
    else if negb (existsb (p_here p pos) (range_N 0 (N.to_nat (p_size p maxnum)))) then None
    else match write_parts st a tops rest (pos + N.of_nat (length (p_text p t (p_last rest) pos prev known maxnum)))
                           (Some (p_xpos p pos)) (p_known p pos known maxnum) (p_size p maxnum - 1) with
         | Some r => Some (p_text p t (p_last rest) pos prev known maxnum ++ r)
         | None => None
         end.
  Proof.
    intro Hxt. cbn [write_parts]. rewrite emit_objs_eq. unfold part_containers. rewrite Hos. cbn [filter]. rewrite Hxt.
    destruct prev; reflexivity.
  Qed.

  (* ---------- the domain ---------- *)
  Hypothesis Hnd : NoDup nums.
  Hypothesis Htops : Forall top_ok tops.
  (* the trailer of every part can be spelled whatever Size and Prev it carries *)
  Definition trailer_dom (t : tstyle) : Prop :=
    forall sz prev, sz <= u32_max -> (prev = None \/ exists q, q <= u32_max /\ prev = Some q) ->
      spell_wf (ODict (a_trailer a ++ [(RefWriter.K_Size, OInt (Z.of_N sz))] ++ p_prev prev)) (t_trailer t) /\
      (nest (ODict (a_trailer a ++ [(RefWriter.K_Size, OInt (Z.of_N sz))] ++ p_prev prev)) <= MAX_DEPTH)%nat.
  Hypothesis Htrail : dict_get (a_trailer a) RefWriter.K_Size = None /\ dict_get (a_trailer a) K_Prev = None /\
                      dict_get (a_trailer a) K_Encrypt = None /\ dict_get (a_trailer a) K_XRefStm = None.
  Hypothesis Hnums32 : 1 + max_num nums <= u32_max.

  Lemma tops_nums_eq : map top_num tops = nums.
  Proof. unfold LoadsTableProofs.tops, LoadsTableProofs.nums. rewrite map_map. reflexivity. Qed.

  Lemma tops_id cur : In cur tops -> 1 <= top_num cur /\ snd (fst (fst cur)) <= u16_max /\ In (top_num cur) nums /\ top_ok cur.
  Proof.
    intro H. pose proof (proj1 (Forall_forall _ _) Htops cur H) as Hk. split; [|split; [|split; [|exact Hk]]].
    - destruct cur as [[[i g] o] y]. cbn in Hk. unfold top_num. cbn [fst]. tauto.
    - destruct cur as [[[i g] o] y]. cbn in Hk. cbn [fst snd]. tauto.
    - rewrite <- tops_nums_eq. apply in_map. exact H.
  Qed.

  Lemma tops_unique tp tp' : In tp tops -> In tp' tops -> top_num tp = top_num tp' -> tp = tp'.
  Proof. intros H1 H2 E. apply (unique_by_key top_num tops); [rewrite tops_nums_eq; exact Hnd|exact H1|exact H2|exact E]. Qed.

  Lemma top_of_num n : In n nums -> exists tp, In tp tops /\ top_num tp = n.
  Proof. rewrite <- tops_nums_eq. intro H. apply in_map_iff in H as [tp [E Hin]]. exists tp. split; assumption. Qed.

  Lemma mine_cases p tp : In tp (p_mine p) ->
    (In tp tops /\ In (top_num tp) (mp_nums p)) \/
    (exists cur o, In cur tops /\ fst (fst cur) = fst (fst tp) /\ In (top_num tp, o) (mp_old p)).
  Proof.
    unfold p_mine. intro H. apply in_app_or in H as [H|H].
    - apply filter_In in H as [H1 H2]. left. split; [exact H1|apply mem_N_In; exact H2].
    - right. unfold p_olds in H. apply in_flat_map in H as [[n o] [H1 H2]]. cbn [fst snd] in H2.
      destruct (find_obj (a_objs a) n) as [[g o']|] eqn:Ef; [|contradiction]. destruct H2 as [<-|[]].
      apply find_obj_In in Ef. exists ((n, g), o', find_istyle (s_objs st) n), o. split; [|split; [reflexivity|exact H1]].
      unfold LoadsTableProofs.tops. apply in_map_iff. exists ((n, g), o'). split; [reflexivity|exact Ef].
  Qed.

  Lemma mine_id p tp : In tp (p_mine p) -> exists cur, In cur tops /\ fst (fst cur) = fst (fst tp).
  Proof.
    intro H. destruct (mine_cases p tp H) as [[H1 _]|[cur [o [H1 [H2 _]]]]]; [exists tp; split; [exact H1|reflexivity]|exists cur; split; assumption].
  Qed.

  Lemma mine_bounds p tp : In tp (p_mine p) -> 1 <= top_num tp /\ snd (fst (fst tp)) <= u16_max /\ In (top_num tp) nums.
  Proof.
    intro H. destruct (mine_id p tp H) as [cur [H1 H2]]. destruct (tops_id cur H1) as [K1 [K2 [K3 _]]].
    unfold top_num in *. rewrite H2 in *. auto.
  Qed.

  Lemma max_num_le : forall l B a0, a0 <= B -> (forall x, In x l -> x <= B) -> fold_left N.max l a0 <= B.
  Proof. induction l as [|y l IH]; intros B a0 Ha H; [exact Ha|]. cbn [fold_left]. apply IH; [|intros; apply H; right; assumption]. pose proof (H y (or_introl eq_refl)). lia. Qed.

  Lemma hnums_le p : max_num (p_hnums p) <= max_num nums.
  Proof.
    unfold max_num at 1. apply max_num_le; [lia|]. intros x Hx. unfold p_hnums in Hx. apply in_map_iff in Hx as [tp [<- Hin]].
    apply max_num_ge. apply (mine_bounds p tp Hin).
  Qed.

  Lemma p_size_eq p maxnum : p_size p maxnum = 1 + N.max maxnum (max_num (p_hnums p)).
  Proof. unfold p_size. rewrite app_nil_r. reflexivity. Qed.

  (* ---------- runs_of: the maximal runs cover what the part defines ---------- *)
  Lemma secs_increasing_weaken : forall secs lo lo', lo' <= lo -> secs_increasing lo secs = true -> secs_increasing lo' secs = true.
  Proof.
    destruct secs as [|[f c] secs]; intros lo lo' H K; [reflexivity|]. cbn [secs_increasing] in *.
    apply andb_true_iff in K as [K K3]. apply andb_true_iff in K as [K1 K2]. apply N.leb_le in K1.
    rewrite K2, K3. replace (lo' <=? f) with true by (symmetry; apply N.leb_le; lia). reflexivity.
  Qed.

  Lemma runs_of_good (here : N -> bool) : forall count n,
    secs_increasing n (runs_of here n count) = true /\
    (forall f c, In (f, c) (runs_of here n count) -> 1 <= c /\ f + c <= n + N.of_nat count) /\
    (forall k, n <= k < n + N.of_nat count -> here k = true -> exists f c, In (f, c) (runs_of here n count) /\ f <= k < f + c).
  Proof.
    induction count as [|count IH]; intro n.
    - cbn [runs_of]. split; [reflexivity|]. split; [intros f c []|intros k Hk; lia].
    - destruct (IH (n + 1)) as [I1 [I2 I3]]. cbn [runs_of]. destruct (here n) eqn:Eh.
      + destruct (runs_of here (n + 1) count) as [|[f k] tl] eqn:Er.
        * split; [cbn [secs_increasing]; replace (n <=? n) with true by (symmetry; apply N.leb_le; lia); reflexivity|].
          split; [intros f c [E|[]]; inversion E; subst; lia|].
          intros k Hk Hh. destruct (N.eq_dec k n) as [->|Hne]; [exists n, 1; split; [left; reflexivity|lia]|].
          destruct (I3 k) as [f [c [[] _]]]; [lia|exact Hh].
        * cbn [secs_increasing] in I1. apply andb_true_iff in I1 as [I1 I1c]. apply andb_true_iff in I1 as [I1a I1b].
          apply N.leb_le in I1a, I1b. destruct (I2 f k (or_introl eq_refl)) as [B1 B2].
          destruct (f =? n + 1) eqn:Ef.
          -- apply N.eqb_eq in Ef. subst f. split.
             { cbn [secs_increasing]. replace (n <=? n) with true by (symmetry; apply N.leb_le; lia).
               replace (1 <=? k + 1) with true by (symmetry; apply N.leb_le; lia).
               replace (n + (k + 1)) with (n + 1 + k) by lia. exact I1c. }
             split.
             { intros f c [E|Hin]; [inversion E; subst; lia|]. destruct (I2 f c (or_intror Hin)). lia. }
             intros k0 Hk Hh. destruct (N.eq_dec k0 n) as [->|Hne]; [exists n, (k + 1); split; [left; reflexivity|lia]|].
             destruct (I3 k0) as [f [c [[E|Hin] Hr]]]; [lia|exact Hh| |].
             { assert (c = k) by congruence. assert (f = n + 1) by congruence. subst c f. exists n, (k + 1). split; [left; reflexivity|lia]. }
             { exists f, c. split; [right; exact Hin|exact Hr]. }
          -- apply N.eqb_neq in Ef. split.
             { cbn [secs_increasing]. replace (n <=? n) with true by (symmetry; apply N.leb_le; lia).
               replace (n + 1 <=? f) with true by (symmetry; apply N.leb_le; lia).
               replace (1 <=? k) with true by (symmetry; apply N.leb_le; lia). cbn [andb N.leb]. exact I1c. }
             split.
             { intros f0 c [E|Hin]; [inversion E; subst; lia|]. destruct (I2 f0 c Hin). lia. }
             intros k0 Hk Hh. destruct (N.eq_dec k0 n) as [->|Hne]; [exists n, 1; split; [left; reflexivity|lia]|].
             destruct (I3 k0) as [f0 [c [Hin Hr]]]; [lia|exact Hh|]. exists f0, c. split; [right; exact Hin|exact Hr].
      + split; [apply (secs_increasing_weaken _ (n + 1)); [lia|exact I1]|]. split.
        * intros f c Hin. destruct (I2 f c Hin). lia.
        * intros k Hk Hh. destruct (N.eq_dec k n) as [->|Hne]; [rewrite Eh in Hh; discriminate Hh|]. apply I3; [lia|exact Hh].
  Qed.

  Lemma dget_app (d e : dict) k : dict_get (d ++ e) k = match dict_get d k with Some v => Some v | None => dict_get e k end.
  Proof. induction d as [|[k0 v0] d IH]; [reflexivity|]. cbn [app dict_get]. destruct (bytes_eqb k0 k); [reflexivity|exact IH]. Qed.

  Lemma keys_denote : forall d sts, map fst (denote_dict d sts) = map fst d.
  Proof. induction d as [|[k v] d IH]; intro sts; [reflexivity|]. cbn [denote_dict map fst]. f_equal. apply IH. Qed.

  Lemma lookup_entry_map (f : N -> sentry) known : forall l n,
    lookup_entry (map (fun k => (k, f k)) l ++ known) n = if mem_N n l then Some (f n) else lookup_entry known n.
  Proof.
    induction l as [|k l IH]; intro n; [reflexivity|]. cbn [map app lookup_entry mem_N existsb]. rewrite IH. unfold mem_N.
    rewrite (N.eqb_sym n k). destruct (k =? n) eqn:E; [apply N.eqb_eq in E; subst; reflexivity|reflexivity].
  Qed.

  (* ====================================================================================================
     Part 2: the invariant, and one part at its place: prefix P (the header and the parts before), the part, ANY bytes
     ==================================================================================================== *)
  Definition fe (chain : list csec) (n : N) : option xentry := first_entry (map (fun s : csec => fst (snd s)) chain) n.
  Definition prev_N (chain : list csec) : option N := match chain with [] => None | (off, _) :: _ => Some off end.

  Record Inv (rem : list mpart) (P : bytes) (chain : list csec) (known : list (N * sentry)) (maxnum : N) : Prop := {
    i_nums : forall n e, fe chain n = Some e -> In n nums /\ n <= maxnum /\ exists off g, e = XNormal off g;
    i_cur : forall n off g, fe chain n = Some (XNormal off g) -> ~ In n (flat_map mp_nums rem) ->
            exists tp pre post, In tp tops /\ fst (fst tp) = (n, g) /\ P = pre ++ top_text tp ++ post /\ off = blen pre;
    i_all : forall tp, In tp tops -> ~ In (top_num tp) (flat_map mp_nums rem) -> fe chain (top_num tp) <> None;
    i_known : forall n, match lookup_entry known n with Some e => entry_meaning e | None => None end = fe chain n;
    i_kn : forall n e, lookup_entry known n = Some e -> exists off g, e = SInUse off g /\ off <= blen P /\ g <= u16_max;
    i_chain : forall ext, chain_ok dec can (P ++ ext) (blen P) chain;
    i_max : maxnum <= max_num nums
  }.

  Section Part.
    Variable p : mpart.
    Variable t : tstyle.
    Variable P : bytes.
    Variable chain : list csec.
    Variable known : list (N * sentry).
    Variable maxnum : N.
    Variable rest : list mpart.
    Hypothesis Hxt : mp_xref p = XTable t.
    Hypothesis Hhn : NoDup (p_hnums p).
    Hypothesis Hinv : Inv (p :: rest) P chain known maxnum.
    Hypothesis Hex : exists n, p_here p (blen P) n = true.
    Hypothesis Hold : forall no, In no (mp_old p) -> In (fst no) (flat_map mp_nums rest).
    Hypothesis Htr : trailer_dom t.

    Notation prev := (prev_N chain).
    Notation last := (p_last rest).
    Notation pos := (blen P).
    Notation sz := (p_size p maxnum).
    Notation secs := (p_secs p t pos prev known maxnum).
    Notation en := (p_entry p pos known).
    Notation xpos := (p_xpos p pos).
    Notation T := (p_text p t last pos prev known maxnum).
    Hypothesis HU : blen (P ++ T) <= u32_max.

    Lemma Hkn : forall n e, lookup_entry known n = Some e -> exists off g, e = SInUse off g /\ off <= blen P /\ g <= u16_max.
    Proof. exact (i_kn _ _ _ _ _ Hinv). Qed.
    Lemma Hmaxn : maxnum <= max_num nums.
    Proof. exact (i_max _ _ _ _ _ Hinv). Qed.
    Lemma Hprev : prev = None \/ exists q, q <= u32_max /\ prev = Some q.
    Proof.
      pose proof (i_chain _ _ _ _ _ Hinv []) as K.
      assert (G : forall c, chain_ok dec can (P ++ []) (blen P) c -> prev_N c = None \/ exists q, q < blen P /\ prev_N c = Some q).
      { intros [|[off [x0 t0]] r] Hc; [left; reflexivity|right]. exists off. split; [apply Hc|reflexivity]. }
      destruct (G chain K) as [G1|[q [G1 G2]]]; [left; exact G1|right; exists q; split; [|exact G2]].
      assert (blen P <= blen (P ++ T)) by (unfold blen; rewrite app_length; lia). lia.
    Qed.

    Definition p_tsecs := build_tsecs secs en (t_eols t) (t_eols t) (t_sec_eols t) (t_sec_sp t).
    Definition p_trd : dict := a_trailer a ++ [(RefWriter.K_Size, OInt (Z.of_N sz))] ++ p_prev prev.
    Definition p_front : bytes :=
      table_text (t_kw_eol t) p_tsecs ++ bs "trailer" ++ sep_bytes (bs "trailer") (t_f1 t) (w_obj (ODict p_trd) (t_trailer t)) ++
      w_obj (ODict p_trd) (t_trailer t) ++ sep_bytes (w_obj (ODict p_trd) (t_trailer t)) (t_f2 t) (startxref_text (with_part st p last) xpos).
    Definition p_tpart : bytes :=
      join [(bs "trailer", t_f1 t); (w_obj (ODict p_trd) (t_trailer t), t_f2 t); (startxref_text (with_part st p last) xpos, [])].
    Definition p_xr : bytes := table_text (t_kw_eol t) p_tsecs ++ p_tpart.

    Lemma T_eq : T = body_of (p_otops p) ++ p_xr.
    Proof. unfold p_text, section_text. rewrite s_xref_with_part, Hxt. reflexivity. Qed.

    Lemma xr_front : p_xr = p_front ++ startxref_text (with_part st p last) xpos.
    Proof.
      unfold p_xr, p_tpart, p_front. cbn [join]. change (fill_bytes []) with (@nil byte). rewrite app_nil_r, <- !app_assoc. reflexivity.
    Qed.

    Lemma sz_le : sz <= u32_max.
    Proof. rewrite p_size_eq. pose proof (hnums_le p). pose proof Hmaxn. lia. Qed.

    Lemma otop_mine tp : In tp (p_otops p) <-> In tp (p_mine p).
    Proof. apply ordered_In. Qed.

    Lemma otop_uniq tp tp' : In tp (p_otops p) -> In tp' (p_otops p) -> top_num tp = top_num tp' -> tp = tp'.
    Proof. intros H1 H2 E. apply (unique_by_key top_num (p_mine p)); [exact Hhn|apply otop_mine; exact H1|apply otop_mine; exact H2|exact E]. Qed.

    Lemma ehere_inuse n off g : p_ehere p pos n = SInUse off g ->
      exists pre tp post, p_otops p = pre ++ tp :: post /\ fst (fst tp) = (n, g) /\ off = pos + N.of_nat (length (body_of pre)).
    Proof.
      unfold p_ehere. rewrite app_nil_r. destruct (find_off (offs_of pos (p_otops p)) n) as [[g0 p0]|] eqn:Ef; [|discriminate].
      intro H. inversion H; subst. apply find_off_In in Ef.
      destruct (offs_of_In _ _ _ _ _ Ef) as [pre [o [y [post [E Ep]]]]]. exists pre, ((n, g), o, y), post. auto.
    Qed.

    Lemma ehere_of_top tp : In tp (p_otops p) ->
      exists pre post, p_otops p = pre ++ tp :: post /\
                       p_ehere p pos (top_num tp) = SInUse (pos + N.of_nat (length (body_of pre))) (snd (fst (fst tp))).
    Proof.
      intro H. destruct (find_off_exists (p_otops p) pos tp H) as [g [q Ef]].
      assert (En : p_ehere p pos (top_num tp) = SInUse q g) by (unfold p_ehere; rewrite app_nil_r, Ef; reflexivity).
      destruct (ehere_inuse _ _ _ En) as [pre [tp' [post [E [Ek Ep]]]]].
      assert (tp' = tp).
      { apply otop_uniq; [rewrite E; apply in_or_app; right; left; reflexivity|exact H|]. unfold top_num. rewrite Ek. reflexivity. }
      subst tp'. exists pre, post. split; [exact E|]. rewrite En, Ep, Ek. reflexivity.
    Qed.

    Lemma here_iff n : p_here p pos n = true <-> In n (p_hnums p).
    Proof.
      unfold p_here. split.
      - destruct (p_ehere p pos n) as [a0 b0|off g|c i] eqn:E; cbn [is_used]; try discriminate. 
        + intros _. destruct (ehere_inuse _ _ _ E) as [pre [tp [post [Eo [Ek _]]]]]. unfold p_hnums. apply in_map_iff. exists tp.
          split; [rewrite Ek; reflexivity|]. apply otop_mine. rewrite Eo. apply in_or_app. right. left. reflexivity.
        + exfalso. unfold p_ehere in E. destruct (find_off (offs_of pos (p_otops p) ++ []) n) as [[g0 q0]|]; discriminate E.
      - intro H. unfold p_hnums in H. apply in_map_iff in H as [tp [E Hin]]. apply otop_mine in Hin.
        destruct (ehere_of_top tp Hin) as [pre [post [_ Ee]]]. unfold top_num in Ee. rewrite E in Ee. rewrite Ee. reflexivity.
    Qed.

    Lemma here_lt n : p_here p pos n = true -> n < sz /\ In n nums.
    Proof.
      intro H. apply here_iff in H. rewrite p_size_eq. pose proof (max_num_ge _ _ H). split; [lia|].
      unfold p_hnums in H. apply in_map_iff in H as [tp [<- Hin]]. apply (mine_bounds p tp Hin).
    Qed.

    Lemma en_here n : p_here p pos n = true -> en n = p_ehere p pos n.
    Proof. intro H. unfold p_entry. rewrite H. reflexivity. Qed.

    (* the object an own entry names, at its byte *)
    Lemma ehere_at n off g : p_ehere p pos n = SInUse off g ->
      exists tp pre post, In tp (p_mine p) /\ fst (fst tp) = (n, g) /\ P ++ T = pre ++ top_text tp ++ post /\ off = blen pre.
    Proof.
      intro H. destruct (ehere_inuse _ _ _ H) as [pre [tp [post [Eo [Ek Ep]]]]].
      exists tp, (P ++ body_of pre), (body_of post ++ p_xr). split; [apply otop_mine; rewrite Eo; apply in_or_app; right; left; reflexivity|].
      split; [exact Ek|]. split.
      - rewrite T_eq, Eo, body_of_app. change (body_of (tp :: post)) with (top_text tp ++ body_of post). rewrite <- !app_assoc. reflexivity.
      - rewrite Ep. unfold blen. rewrite app_length. lia.
    Qed.

    Lemma en_tentry_ok k : tentry_ok (en k).
    Proof.
      unfold p_entry. destruct (p_here p pos k) eqn:Eh.
      - unfold p_here in Eh. destruct (p_ehere p pos k) as [a0 b0|off g|c i] eqn:E; cbn [is_used] in Eh; try discriminate Eh.
        + destruct (ehere_at _ _ _ E) as [tp [pre [post [Hin [Ek [EP Eoff]]]]]]. cbn [tentry_ok]. split.
          * assert (blen pre <= blen (P ++ T)) by (rewrite EP; unfold blen; rewrite !app_length; lia). lia.
          * destruct (mine_bounds p tp Hin) as [_ [Hg _]]. rewrite Ek in Hg. cbn [snd] in Hg. unfold u16_max in Hg. lia.
        + exfalso. unfold p_ehere in E. destruct (find_off (offs_of pos (p_otops p) ++ []) k) as [[g0 q0]|]; discriminate E.
      - destruct (mem_N k (mp_relist p)).
        + destruct (lookup_entry known k) as [e|] eqn:El; [|cbn; unfold u32_max; lia].
          destruct (Hkn k e El) as [off [g [-> [H1 H2]]]]. cbn [tentry_ok]. split.
          * assert (blen P <= blen (P ++ T)) by (unfold blen; rewrite app_length; lia). lia.
          * unfold u16_max in H2. lia.
        + destruct (k =? 0); cbn; unfold u32_max; lia.
    Qed.

    Lemma secs_props :
      secs <> [] /\ secs_increasing 0 secs = true /\
      (forall f c, In (f, c) secs -> 1 <= c /\ f + c <= sz) /\
      (forall n, p_here p pos n = true -> exists f c, In (f, c) secs /\ f <= n < f + c).
    Proof.
      assert (Hsz : 1 <= sz) by (rewrite p_size_eq; lia).
      assert (Main : secs_increasing 0 secs = true /\ (forall f c, In (f, c) secs -> 1 <= c /\ f + c <= sz) /\
                     (forall n, n < sz -> p_here p pos n = true -> exists f c, In (f, c) secs /\ f <= n < f + c)).
      { unfold p_secs. destruct prev as [q|].
        - destruct (secs_ok_later (t_secs t) sz (p_here p pos) en) eqn:E.
          + unfold secs_ok_later in E. apply andb_true_iff in E as [E E3]. apply andb_true_iff in E as [E1 E2].
            split; [exact E1|]. split.
            * intros f c Hin. split; [eapply secs_increasing_c; eassumption|].
              rewrite forallb_forall in E3. specialize (E3 (f, c) Hin). cbn [fst snd] in E3. apply andb_true_iff in E3 as [E3 _].
              apply N.leb_le. exact E3.
            * intros n Hn Hu. unfold secs_cover in E2. rewrite forallb_forall in E2.
              assert (Hin : In n (range_N 0 (N.to_nat sz))) by (apply range_N_In; rewrite N2Nat.id; lia).
              specialize (E2 n Hin). rewrite Hu in E2. cbn [negb orb] in E2. apply existsb_exists in E2 as [[f c] [K1 K2]].
              cbn [fst snd] in K2. apply andb_true_iff in K2 as [K2 K3]. apply N.leb_le in K2. apply N.ltb_lt in K3. eauto.
          + destruct (runs_of_good (p_here p pos) (N.to_nat sz) 0) as [R1 [R2 R3]]. rewrite N2Nat.id in R2, R3. split; [exact R1|]. split.
            * intros f c Hin. destruct (R2 f c Hin). split; [assumption|lia].
            * intros n Hn Hu. apply R3; [lia|exact Hu].
        - destruct (use_secs_good (t_secs t) sz (fun n => (n =? 0) || p_here p pos n) Hsz) as [G1 [G2 G3]].
          split; [exact G1|]. split; [exact G3|]. intros n Hn Hu. apply G2; [exact Hn|]. cbv beta. rewrite Hu. apply orb_true_r. }
      destruct Main as [M1 [M2 M3]]. split; [|split; [exact M1|split; [exact M2|]]].
      - destruct Hex as [n0 Hn0]. destruct (M3 n0 (proj1 (here_lt n0 Hn0)) Hn0) as [f [c [Hin _]]]. intro E. rewrite E in Hin. contradiction.
      - intros n Hn. apply M3; [apply (here_lt n Hn)|exact Hn].
    Qed.

    Definition p_numb := map (fun k => (k, en k)) (keys_of secs).
    Lemma p_numbered_eq : numbered (tsections_plain p_tsecs) = p_numb.
    Proof. unfold p_tsecs. rewrite build_tsecs_plain. apply numbered_plain. Qed.
    Lemma p_numb_nodup : NoDup (map fst p_numb).
    Proof. unfold p_numb. rewrite map_map. cbn [fst]. rewrite map_id. destruct secs_props as [_ [H _]]. apply (keys_increasing secs 0 H). Qed.

    Definition p_x : xref := {| x_type := XTTable; x_entries := spec_map p_numb; x_size := i64_as_u32 (Z.of_N sz) |}.
    Definition p_t : dict := denote_dict p_trd (dict_sts (t_trailer t)).

    Lemma xr_parse_p ext : xref_and_trailer_table (p_xr ++ ext) = XOk (p_x, p_t).
    Proof.
      unfold xref_and_trailer_table, p_xr. rewrite <- app_assoc.
      assert (Htk : tok_start (p_tpart ++ ext) = true) by reflexivity.
      rewrite (xref_table_any_sectioning (t_kw_eol t) p_tsecs (p_tpart ++ ext)).
      2:{ apply build_tsecs_ne. apply secs_props. }
      2:{ apply (build_tsecs_ok en _ sz en_tentry_ok sz_le). apply secs_props. }
      2:{ reflexivity. }
      rewrite (space_tok _ Htk).
      destruct (Htr sz prev sz_le Hprev) as [Hw Hn].
      pose proof (trailer_any_spelling (t_f1 t) (t_f2 t) p_trd (t_trailer t) (startxref_text (with_part st p last) xpos) ext Hw Hn) as Et.
      assert (Et' : Xref.trailer (p_tpart ++ ext) = POk p_t (startxref_text (with_part st p last) xpos ++ ext)).
      { apply Et; rewrite startxref_text_block; [discriminate|reflexivity]. }
      rewrite Et'.
      assert (Eg : dict_get p_t Xref.K_Size = Some (OInt (Z.of_N sz))).
      { change Xref.K_Size with RefWriter.K_Size. unfold p_t. apply dict_get_denote. unfold p_trd. rewrite dget_app.
        destruct Htrail as [Hs _]. rewrite Hs. reflexivity. }
      rewrite Eg. cbn [x_type x_entries]. rewrite p_numbered_eq. reflexivity.
    Qed.

    Lemma xparse_p ext : xref_and_trailer_x dec can ((P ++ T) ++ ext) xpos = SOk (p_x, p_t).
    Proof.
      unfold xref_and_trailer_x. rewrite T_eq.
      replace ((P ++ body_of (p_otops p) ++ p_xr) ++ ext) with ((P ++ body_of (p_otops p)) ++ p_xr ++ ext) by (rewrite <- !app_assoc; reflexivity).
      replace xpos with (blen (P ++ body_of (p_otops p))) by (unfold p_xpos, blen; rewrite app_length; lia).
      rewrite from_app, xr_parse_p. reflexivity.
    Qed.

    Lemma xpos_lt : xpos < blen (P ++ T).
    Proof.
      rewrite T_eq. assert (E : exists r, p_xr = x78 :: r) by (unfold p_xr, table_text; eexists; reflexivity).
      destruct E as [r ->]. unfold p_xpos, blen. rewrite !app_length. cbn [length]. lia.
    Qed.

    Lemma PT_front : P ++ T = (P ++ body_of (p_otops p) ++ p_front) ++ startxref_text (with_part st p last) xpos /\
                     xpos <= blen (P ++ body_of (p_otops p) ++ p_front).
    Proof. rewrite T_eq, xr_front. split; [rewrite <- !app_assoc; reflexivity|]. unfold p_xpos, blen. rewrite !app_length. lia. Qed.

    Lemma p_t_prev : dict_get p_t K_Prev = prev_of ((xpos, (p_x, p_t)) :: chain) \/ True.
    Proof. right. exact I. Qed.

    Lemma p_t_prev_get : dict_get p_t K_Prev = match prev with Some q => Some (OInt (Z.of_N q)) | None => None end.
    Proof.
      destruct Htrail as [_ [Hp _]]. unfold p_t, p_trd. destruct prev as [q|]; cbn [p_prev].
      - apply dict_get_denote. rewrite dget_app, Hp. reflexivity.
      - apply dict_get_denote_none. rewrite dget_app, Hp. reflexivity.
    Qed.

    Lemma p_t_none k : dict_get (a_trailer a) k = None -> bytes_eqb RefWriter.K_Size k = false -> bytes_eqb K_PrevW k = false ->
      dict_get p_t k = None.
    Proof.
      intros H1 H2 H3. unfold p_t, p_trd. apply dict_get_denote_none. rewrite dget_app, H1. cbn [app dict_get]. rewrite H2.
      destruct prev; cbn [p_prev dict_get]; [rewrite H3|]; reflexivity.
    Qed.

    Lemma p_t_removed k : k <> K_Prev -> dict_get (dict_swap_remove p_t K_Prev) k = dict_get p_t k.
    Proof.
      intro H. apply dict_get_swap_remove_other; [|exact H]. unfold dict_wf, keys, p_t. rewrite keys_denote.
      destruct (Htr sz prev sz_le Hprev) as [Hw _]. apply spell_wf_dict in Hw. apply Hw.
    Qed.

    Lemma p_x_sorted : C07Bytes.xincr 0 (x_entries p_x).
    Proof. apply spec_map_sorted. exact I. Qed.

    Lemma xget_p_cases n :
      (In n (keys_of secs) /\ xget (x_entries p_x) n = entry_meaning (en n)) \/ (~ In n (keys_of secs) /\ xget (x_entries p_x) n = None).
    Proof.
      destruct (in_dec N.eq_dec n (keys_of secs)) as [Hin|Hn]; [left|right]; (split; [assumption|]).
      - cbn [x_entries p_x]. apply (xget_spec_map p_numb n (en n) p_numb_nodup). unfold p_numb. apply in_map_iff. exists n. split; [reflexivity|exact Hin].
      - cbn [x_entries p_x]. unfold spec_map. rewrite xget_spec_map_absent; [reflexivity|].
        unfold p_numb. rewrite map_map. cbn [fst]. rewrite map_id. exact Hn.
    Qed.
  End Part.
End Multi.
