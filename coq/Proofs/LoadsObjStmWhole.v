(* LoadsObjStmWhole.v -- C02 rung 3: the reference writer (Spec/RefWriter.v ref_write) with a cross-reference STREAM lays
   its file out as Proofs/LoadsObjStmFile.v assumes, whatever object streams the style asks for; hence load_ext returns
   exactly the document: the top-level objects, the members of every object stream, the containers and the
   cross-reference stream object, nothing else. *)
From LV Require Import Base.Bytes Base.Sx Model.Obj Model.Writer Model.Parser Model.Xref Model.ObjStm Model.Loader Model.Utf Gen.Lex
  Spec.XrefSpec Spec.RefWriter Proofs.LexProofs Proofs.LoadProofs Proofs.LoadProofsFile Proofs.XrefProofs
  Proofs.XrefTableProofs Proofs.ObjectRtProofs Proofs.SpellingProofs Proofs.SpellingObjProofs Proofs.SpellingFileProofs
  Proofs.LoadsFrameProofs Proofs.LoadsTableProofs Proofs.FilterProofsDict.
From LV Require Import Model.LoaderExt Proofs.LoaderExtProofs.
From LV Require Import Proofs.LoadsFilterProofs Proofs.LoadsStreamProofs Proofs.LoadsRefLenProofs Proofs.LoadsLoopProofs.
From LV Require Import Proofs.ObjStmSpellProofs Proofs.ObjStmFilterProofs Proofs.LoadsObjStmProofs Proofs.LoadsObjStmFile.
From LV Require Model.Png.
From Coq Require Import Lia.
Local Open Scope N_scope.

(* the container objects of the file *)
Definition contsof (st : fstyle) (a : adoc) : list top :=
  match containers (a_objs a) (s_ostms st) with Some c => c | None => [] end.

(* the encoded data of the cross-reference stream and its filter entries *)
Definition gxs_enc (st : fstyle) (a : adoc) (x : xsstyle) : bytes * dict :=
  apply_filter (xs_filter x)
    (N.of_nat (gw0 st a x (contsof st a) + gw1 st a x (contsof st a) + gw2 st a x (contsof st a)))
    (xs_array x) (rawG st a x (contsof st a)).

Theorem ref_write_objstm st a x file :
  s_xref st = XStream x -> ref_write st a = Some file ->
  containers (a_objs a) (s_ostms st) = Some (contsof st a) /\
  file = s_junk st ++ FG st a x (contsof st a) (snd (gxs_enc st a x)) (fst (gxs_enc st a x)) /\
  NoDup (numsG st a x) /\ ~ In 0 (numsG st a x) /\ NoDup (comp st) /\
  contains (bs "%PDF-") (s_junk st) = false /\ no_eolb (a_version a) = true.
Proof.
  intros Hxs H. unfold ref_write in H. rewrite Hxs in H.
  destruct (contains (bs "%PDF-") (s_junk st) || contains [x0d] (a_version a) || contains [x0a] (a_version a)) eqn:C1; [discriminate H|].
  apply orb_false_iff in C1 as [C1 C1c]. apply orb_false_iff in C1 as [C1a C1b].
  fold (nums a) in H. fold (cids st) in H. fold (comp st) in H. change [xs_id x] with [gxid x] in H.
  change (nums a ++ cids st ++ [gxid x]) with (numsG st a x) in H.
  destruct (negb (nodup_N (numsG st a x) && nodup_N (comp st) && negb (mem_N 0 (numsG st a x)))) eqn:C2; [discriminate H|].
  apply negb_false_iff in C2. apply andb_true_iff in C2 as [C2 C2c]. apply andb_true_iff in C2 as [C2a C2b].
  cbv iota in H.
  destruct (containers (a_objs a) (s_ostms st)) as [conts|] eqn:Ec; [|discriminate H].
  assert (Eco : contsof st a = conts) by (unfold contsof; rewrite Ec; reflexivity).
  rewrite emit_objs_eq in H. destruct (xs_w x) as [[w0 w1] w2] eqn:Ew.
  match type of H with context [apply_filter ?f ?c ?b ?r] =>
    assert (Ee : apply_filter f c b r = gxs_enc st a x)
      by (unfold gxs_enc, rawG, gw0, gw1, gw2; rewrite Eco, Ew; reflexivity);
    rewrite Ee in H end.
  destruct (gxs_enc st a x) as [dat fe] eqn:Ex. cbv iota beta in H.
  assert (Einj : forall (u v : bytes), Some u = Some v -> u = v) by (intros u v K; inversion K; reflexivity).
  apply Einj in H. subst file. clear Einj.
  split; [rewrite Eco; reflexivity|]. split.
  - f_equal. cbn [fst snd]. rewrite Eco. unfold FG, TAILG, xobj_textG. rewrite <- (app_assoc (w_indirect _ _ _ _)).
    unfold xdG, xdG_of, idx_partG, rawG, gw0, gw1, gw2. rewrite Ew. cbn [fst snd].
    reflexivity.
  - split; [apply nodup_N_spec; exact C2a|]. split.
    + intro K. apply negb_true_iff in C2c. unfold mem_N in C2c.
      assert (existsb (N.eqb 0) (numsG st a x) = true) by (apply existsb_exists; exists 0; split; [exact K|reflexivity]). congruence.
    + split; [apply nodup_N_spec; exact C2b|]. split; [exact C1a|]. apply version_no_eol; assumption.
Qed.

(* the dictionary of the cross-reference stream as written *)
Definition gxdf (st : fstyle) (a : adoc) (x : xsstyle) : dict :=
  xdG st a x (contsof st a) (snd (gxs_enc st a x)) (fst (gxs_enc st a x)).

(* the trailer the loader ends with: the dictionary as read back, without Filter / DecodeParms (when the stream was
   filtered), Length, W, Index *)
Definition tGof (st : fstyle) (a : adoc) (x : xsstyle) : dict :=
  match xs_filter x with
  | SfNone => t0GS st a x (contsof st a) (snd (gxs_enc st a x)) (fst (gxs_enc st a x))
  | _ => t0GF st a x (contsof st a) (snd (gxs_enc st a x)) (fst (gxs_enc st a x))
  end.

Definition loads_to (st : fstyle) (a : adoc) (x : xsstyle) (file : bytes) : Prop :=
  exists d, load_ext decompress_ref can_ref file = LOk d XTStream /\
    d_version d = a_version a /\ d_trailer d = tGof st a x /\
    (forall tp, In tp (ptops st a) -> lookup (d_objects d) (fst (fst tp)) = Some (loaded_top tp)) /\
    (forall s n, In s (s_ostms st) -> In n (os_members s) -> lookup (d_objects d) (n, 0) = Some (member_val (a_objs a) s n)) /\
    (forall s, In s (s_ostms st) ->
               exists d' k, lookup (d_objects d) (os_id s, 0) = Some (OStream d' (payload s (itemsof a s) ++ repeat x20 k))) /\
    lookup (d_objects d) (xs_id x, 0) =
      Some (stream_new (ddG st a x (contsof st a) (snd (gxs_enc st a x)) (fst (gxs_enc st a x))) (fst (gxs_enc st a x))) /\
    (forall id o, lookup (d_objects d) id = Some o ->
       (exists tp, In tp (ptops st a) /\ fst (fst tp) = id) \/
       (exists s n, In s (s_ostms st) /\ In n (os_members s) /\ id = (n, 0)) \/
       (exists s, In s (s_ostms st) /\ id = (os_id s, 0)) \/ id = (xs_id x, 0)).

Theorem loads_objstm_file st a x file :
  s_xref st = XStream x -> ref_write st a = Some file ->
  Forall (top_ok2 a) (ptops st a) -> Forall (cont_ok a) (s_ostms st) -> utf8_decode (a_version a) <> None ->
  (spell_wf (ODict (gxdf st a x)) (i_obj (xs_istyle x)) /\ (nest (ODict (gxdf st a x)) <= MAX_DEPTH)%nat /\
   dict_get (a_trailer a) K_Prev = None /\ dict_get (a_trailer a) K_Encrypt = None /\
   dict_get (a_trailer a) K_Filter = None /\ dict_get (a_trailer a) Xref.K_Index = None) ->
  dict_get (a_trailer a) K_DecodeParms = None ->
  (gxpos st a (contsof st a) <= u32_max /\ sizeG st a x <= u32_max /\ 25 < gxpos st a (contsof st a)) ->
  N.of_nat (gw0 st a x (contsof st a) + gw1 st a x (contsof st a) + gw2 st a x (contsof st a)) <= Png.USIZE_MAX ->
  (9 + length (sx_mid (s_sx_eol1 st) (s_sx_sp1 st) (gxpos st a (contsof st a)) (s_sx_sp2 st) (s_sx_eol2 st)) <= 25)%nat ->
  loads_to st a x file.
Proof.
  intros Hxs Hw Htops Hcont Hu Hxd Hdp Hsmall Hwm Hsx.
  destruct (ref_write_objstm st a x file Hxs Hw) as [Hc [-> [Hnd [H0 [Hcnd [Hj Hv]]]]]].
  unfold loads_to, tGof.
  destruct (xs_filter x) eqn:Ef.
  1:{ apply (loads_objstm_plain st a x (contsof st a) Hc (snd (gxs_enc st a x)) (fst (gxs_enc st a x)) Hnd H0 Hcnd Htops Hcont (conj Hv Hu) Hj Hxd
               (fent_keys _ _ _ _) Hsmall Hsx); unfold gxs_enc; rewrite Ef; reflexivity. }
  all: apply (loads_objstm_filtered st a x (contsof st a) Hc (snd (gxs_enc st a x)) (fst (gxs_enc st a x)) Hnd H0 Hcnd Htops Hcont (conj Hv Hu) Hj Hxd
                (fent_keys _ _ _ _) Hsmall Hsx (xs_filter x) (xs_array x)); try assumption;
    try (rewrite Ef; discriminate); unfold gxs_enc; destruct (apply_filter _ _ _ _); reflexivity.
Qed.
