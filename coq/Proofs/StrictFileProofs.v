(* StrictFileProofs.v -- C03, part 3: the pieces of a saved file, written by the model of the writer
   (Model/Save.v, Model/Writer.v) in ANY context (arbitrary bytes before, arbitrary bytes after
   subject to a one-byte follow condition), are read back by the corresponding pieces of the strict
   reader (Spec/StrictReader.v):
     - one indirect object  "id gen obj ... endobj"      (p_objhdr, p_objbody, read_at)
     - the list of written objects through their entries (read_entries)
     - a cross-reference table with its trailer           (p_subsections, p_xref_table)
     - the content of a cross-reference stream            (decode_xstream)
   The context-independent form is what makes the same lemmas serve the plain save (one revision)
   and the incremental save (the previous file followed by a second revision).
   Built on the object-level round trip of Proofs/StrictObjectProofs.v and on c01's byte-counter
   lemmas (Proofs/SaveProofs.v, Proofs/LoadProofsTable.v: objs_bytes, entries_of). *)
From LV Require Import Base.Bytes Base.Sx Model.Obj Model.Writer Model.Save Gen.Lex Gen.SaveFmt
  Proofs.LexProofs Proofs.RealProofs Proofs.ObjectRtProofs Proofs.SaveProofs Spec.SaveSpec
  Proofs.FilterProofsDict Proofs.LoadProofs Proofs.LoadProofsXref Proofs.LoadProofsTable
  Proofs.StrictReaderProofs Proofs.SaveStrictProofs Proofs.StrictObjectProofs.
From LV Require Spec.StrictReader.
From Coq Require Import ZifyBool ZifyN ZifyNat.

Local Open Scope N_scope.


(* ---------- small facts about the strict lexer ---------- *)
(* [solid s]: s is empty or begins with a byte that is neither white space nor "%" *)
Definition solid (s : bytes) : bool :=
  match s with [] => true | c :: _ => negb (SR.is_ws c) && negb (byte_eqb c x25) end.

Lemma skip_sp_solid s : solid s = true -> SR.skip_sp s = s.
Proof.
  destruct s as [|c s]; [reflexivity|]. cbn [solid SR.skip_sp]. intro H.
  apply andb_true_iff in H as [H _]. apply negb_true_iff in H. rewrite H. reflexivity.
Qed.

Lemma skip_ws_solid s : solid s = true -> SR.skip_ws s false = s.
Proof.
  destruct s as [|c s]; [reflexivity|]. cbn [solid SR.skip_ws]. intro H.
  apply andb_true_iff in H as [H1 H2]. apply negb_true_iff in H1, H2. rewrite H1, H2. reflexivity.
Qed.

Lemma solid_digits ds tail : ds <> [] -> forallb is_dec_digit ds = true -> solid (ds ++ tail) = true.
Proof.
  intros Hne Hd. destruct ds as [|c ds]; [contradiction|]. cbn [forallb] in Hd.
  apply andb_true_iff in Hd as [Hc _]. destruct (SaveStrictProofs.digit_facts c Hc) as [Hw _].
  cbn [app solid]. rewrite Hw. cbn [negb andb]. destruct c; try discriminate Hc; reflexivity.
Qed.

Lemma lenN_app a b : SR.lenN (a ++ b) = SR.lenN a + SR.lenN b.
Proof. unfold SR.lenN. rewrite app_length. lia. Qed.

Lemma lenN_blen a : SR.lenN a = blen a.
Proof. reflexivity. Qed.

(* ---------- one indirect object ---------- *)
(* what follows "id gen obj" LF in the writer's rendering *)
Definition obj_tail (o : obj) (rest : bytes) : bytes :=
  sp_if (need_separator o) ++ write_object o ++ sp_if (need_end_separator o) ++
  x0a :: bs "endobj" ++ x0a :: rest.

Lemma wio_shape id g o rest :
  write_indirect_object id g o ++ rest = N_dec id ++ x20 :: N_dec g ++ bs " obj" ++ x0a :: obj_tail o rest.
Proof.
  unfold write_indirect_object, obj_tail. repeat (rewrite <- ?app_assoc; cbn [app]). reflexivity.
Qed.

Lemma objhdr_exact id g t :
  SR.p_objhdr (N_dec id ++ x20 :: N_dec g ++ bs " obj" ++ x0a :: t) = Some (id, g, x0a :: t).
Proof.
  unfold SR.p_objhdr.
  rewrite p_nat_N_dec by reflexivity. cbn [SR.obnd snd fst SR.ws1 SR.is_ws].
  rewrite skip_sp_digits by (try apply N_dec_nonempty; apply N_dec_digits).
  change (bs " obj" ++ ?x) with (x20 :: bs "obj" ++ x).
  rewrite p_nat_N_dec by reflexivity. cbn [SR.obnd snd fst SR.ws1 SR.is_ws].
  change (bs "obj" ++ ?x) with (x6f :: x62 :: x6a :: x) at 1.
  cbn [SR.skip_sp SR.is_ws].
  match goal with |- context [SR.kw_tok SR.KW_obj (x6f :: x62 :: x6a :: ?t)] =>
    change (x6f :: x62 :: x6a :: t) with (SR.KW_obj ++ t) end.
  unfold SR.kw_tok. rewrite strip_app. cbn [app SR.tok_end].
  change (SR.is_regular x0a) with false. cbn [negb SR.obnd fst]. reflexivity.
Qed.

Lemma wio_objhdr id g o rest :
  SR.p_objhdr (write_indirect_object id g o ++ rest) = Some (id, g, x0a :: obj_tail o rest).
Proof. rewrite wio_shape. apply objhdr_exact. Qed.

(* the end of an object satisfies the follow condition of every token *)
Lemma end_tail_follow o rest :
  sfollow o (sp_if (need_end_separator o) ++ x0a :: bs "endobj" ++ x0a :: rest).
Proof.
  destruct o; cbn [sfollow]; try exact I; destruct (need_end_separator _); cbn [sp_if app];
    try reflexivity; split; reflexivity.
Qed.

Lemma end_tail_skip b rest :
  SR.skip_ws (sp_if b ++ x0a :: bs "endobj" ++ x0a :: rest) false = bs "endobj" ++ x0a :: rest.
Proof. destruct b; reflexivity. Qed.

Lemma norm_obj_not_stream o : (forall d c, o <> OStream d c) -> forall d c, norm_obj o <> OStream d c.
Proof.
  intros H d c. destruct o; cbn [norm_obj]; try discriminate.
  - unfold norm_real. destruct (strip_minus r) as [neg t].
    destruct (forallb is_dec_digit t); [destruct (REAL_POINT_DISPLAY_THRESHOLD <=? digits_val t)|]; discriminate.
  - exfalso. eapply H. reflexivity.
Qed.

Lemma objbody_direct resolve id o rest :
  obj_wf o ->
  SR.p_objbody resolve id (x0a :: obj_tail o rest) = SR.SOk (norm_obj o, SR.skip_sp rest).
Proof.
  intro Hw. unfold SR.p_objbody, obj_tail.
  assert (Hs : SR.skip_ws (x0a :: sp_if (need_separator o) ++ write_object o ++ sp_if (need_end_separator o) ++
                           x0a :: bs "endobj" ++ x0a :: rest) false =
               write_object o ++ sp_if (need_end_separator o) ++ x0a :: bs "endobj" ++ x0a :: rest).
  { cbn [SR.skip_ws SR.is_ws]. apply skip_ws_sep_object. exact Hw. }
  rewrite Hs. rewrite (strict_p_object_rt o _ Hw (end_tail_follow o rest)).
  cbn [SR.of_opt SR.sbind]. rewrite end_tail_skip.
  assert (Hns : SR.strip SR.KW_stream (bs "endobj" ++ x0a :: rest) = None) by reflexivity.
  rewrite Hns.
  assert (Hm : match norm_obj o, @None bytes with
               | ODict d, Some r2 => SR.SErr SR.R_fuel 0
               | _, _ => SR.SOk (norm_obj o, bs "endobj" ++ x0a :: rest)
               end = SR.SOk (norm_obj o, bs "endobj" ++ x0a :: rest)) by (destruct (norm_obj o); reflexivity).
  destruct (norm_obj o) eqn:En; cbn [SR.sbind];
    (change (bs "endobj" ++ x0a :: rest) with (SR.KW_endobj ++ x0a :: rest);
     unfold SR.kw_tok; rewrite strip_app; cbn [SR.tok_end]; change (SR.is_regular x0a) with false;
     cbn [negb SR.of_opt SR.sbind SR.skip_sp SR.is_ws]; reflexivity).
Qed.

Lemma length_value_direct resolve d n :
  dict_get d K_Length = Some (OInt (Z.of_nat n)) ->
  SR.length_value resolve (norm_dict d) = Some (N.of_nat n).
Proof.
  intro H. unfold SR.length_value. change SR.N_Length with K_Length.
  rewrite dict_get_norm, H. cbn [option_map norm_obj].
  replace (Z.of_nat n <? 0)%Z with false by (symmetry; apply Z.ltb_ge; lia).
  f_equal. lia.
Qed.

Lemma objbody_stream resolve id d c rest :
  obj_wf (ODict d) -> dict_get d K_Length = Some (OInt (Z.of_nat (length c))) ->
  SR.p_objbody resolve id (x0a :: write_dictionary d ++ stream_tail c rest) =
  SR.SOk (OStream (norm_dict d) c, SR.skip_sp rest).
Proof.
  intros Hw Hlen. unfold SR.p_objbody.
  assert (Hws : SR.skip_ws (x0a :: write_dictionary d ++ stream_tail c rest) false =
                write_dictionary d ++ stream_tail c rest).
  { unfold write_dictionary. cbn [write_object app SR.skip_ws SR.is_ws]. reflexivity. }
  rewrite Hws. unfold write_dictionary. rewrite (strict_p_object_rt (ODict d) _ Hw I).
  cbn [norm_obj]. fold (norm_dict d). cbn [SR.of_opt SR.sbind].
  assert (Hst : SR.skip_ws (stream_tail c rest) false = stream_tail c rest) by reflexivity.
  rewrite Hst. unfold stream_tail at 1.
  change SR.KW_stream with (bs "stream"). rewrite strip_app.
  cbn [SR.of_opt SR.sbind]. change (byte_eqb x0a x0a) with true. cbv iota. cbn [SR.of_opt SR.sbind].
  rewrite (length_value_direct resolve d (length c) Hlen). cbn [SR.of_opt SR.sbind].
  rewrite Nat2N.id, SaveStrictProofs.take_n_app.
  cbn [SR.of_opt SR.sbind SR.p_eol]. change (byte_eqb x0a x0d) with false. change (byte_eqb x0a x0a) with true.
  cbv iota.
  unfold SR.kw_tok. change SR.KW_endstream with (bs "endstream"). rewrite strip_app.
  cbn [SR.tok_end]. change (SR.is_regular x20) with false. cbn [negb SR.of_opt SR.sbind].
  cbn [SR.skip_ws SR.is_ws]. change (byte_eqb x20 x25) with false.
  change (bs "endobj" ++ x0a :: rest) with (x65 :: x6e :: x64 :: x6f :: x62 :: x6a :: x0a :: rest).
  cbn [SR.skip_ws SR.is_ws]. change (byte_eqb x65 x25) with false. cbv iota.
  change (x65 :: x6e :: x64 :: x6f :: x62 :: x6a :: x0a :: rest) with (SR.KW_endobj ++ x0a :: rest).
  rewrite strip_app. cbn [SR.tok_end]. change (SR.is_regular x0a) with false.
  cbn [negb SR.of_opt SR.sbind SR.skip_sp SR.is_ws]. reflexivity.
Qed.

Lemma obj_tail_stream d c rest : obj_tail (OStream d c) rest = write_dictionary d ++ stream_tail c rest.
Proof.
  unfold obj_tail, stream_tail, write_dictionary.
  change (need_separator (OStream d c)) with false. change (need_end_separator (OStream d c)) with true.
  cbn [sp_if write_object]. repeat (rewrite <- ?app_assoc; cbn [app]). reflexivity.
Qed.

(* every indirect object of the domain (direct object, or stream with Length = |content|) *)
Theorem objbody_rt resolve id o rest :
  top_wf o ->
  SR.p_objbody resolve id (x0a :: obj_tail o rest) = SR.SOk (norm_obj o, SR.skip_sp rest).
Proof.
  intro Hw. destruct o; try (apply objbody_direct; exact Hw).
  destruct Hw as [Hd Hl]. rewrite obj_tail_stream. cbn [norm_obj]. fold (norm_dict d).
  apply objbody_stream; assumption.
Qed.

(* ---------- an entry pointing at a written object ---------- *)
Lemma at_off_app pre r : SR.at_off (pre ++ r) (blen pre) = r.
Proof. apply at_off_prefix. Qed.

Lemma wio_nonempty id g o : 0 < blen (write_indirect_object id g o).
Proof.
  unfold write_indirect_object. rewrite blen_app.
  pose proof (N_dec_nonempty id) as Hne. destruct (N_dec id); [contradiction|]. unfold blen. cbn [length]. lia.
Qed.

Theorem read_at_written_gen file revs pre id g o post :
  file = pre ++ write_indirect_object id g o ++ post ->
  g <= 65535 -> top_wf o ->
  SR.read_at file (SR.lenN file) revs id (blen pre) g =
  SR.SOk {| SR.l_id := id; SR.l_gen := g; SR.l_off := blen pre;
            SR.l_end := SR.lenN file - SR.lenN (SR.skip_sp post); SR.l_obj := norm_obj o |}.
Proof.
  intros Hf Hg Hw. unfold SR.read_at.
  replace (65535 <? g) with false by (symmetry; apply N.ltb_ge; exact Hg).
  pose proof (wio_nonempty id g o) as Hne.
  assert (Hlen : SR.lenN file = blen pre + blen (write_indirect_object id g o) + blen post).
  { subst file. unfold SR.lenN, blen. rewrite !app_length. lia. }
  replace (SR.lenN file <=? blen pre) with false by (symmetry; apply N.leb_gt; lia).
  rewrite Hf at 1. rewrite at_off_app, wio_objhdr. rewrite !N.eqb_refl. cbn [andb].
  rewrite (objbody_rt _ id o post Hw). cbn [SR.sbind fst snd]. reflexivity.
Qed.

Theorem read_at_written file revs pre id g o post :
  file = pre ++ write_indirect_object id g o ++ post ->
  g <= 65535 -> top_wf o -> solid post = true ->
  SR.read_at file (SR.lenN file) revs id (blen pre) g =
  SR.SOk {| SR.l_id := id; SR.l_gen := g; SR.l_off := blen pre;
            SR.l_end := blen pre + blen (write_indirect_object id g o); SR.l_obj := norm_obj o |}.
Proof.
  intros Hf Hg Hw Hp. rewrite (read_at_written_gen file revs pre id g o post Hf Hg Hw).
  rewrite (skip_sp_solid post Hp). f_equal. f_equal.
  subst file. unfold SR.lenN, blen. rewrite !app_length. lia.
Qed.

(* ---------- all written objects through their entries ---------- *)
Definition xuse_of (ke : N * xentry) : N * SR.xent := (fst ke, xent_of (snd ke)).

Fixpoint located_of (pos : N) (objs : objmap) : list SR.located :=
  match objs with
  | [] => []
  | ((id, g), o) :: rest =>
    if skipped o then located_of pos rest
    else {| SR.l_id := id; SR.l_gen := g; SR.l_off := pos;
            SR.l_end := pos + blen (write_indirect_object id g o); SR.l_obj := norm_obj o |}
         :: located_of (pos + blen (write_indirect_object id g o)) rest
  end.

Definition obj_dom (io : oid * obj) : Prop := snd (fst io) <= 65535 /\ top_wf (snd io).

Lemma objs_bytes_solid objs tail : solid tail = true -> solid (objs_bytes objs ++ tail) = true.
Proof.
  intro Ht. induction objs as [|[[id g] o] rest IH]; [exact Ht|].
  unfold objs_bytes in *. cbn [flat_map fst snd]. destruct (skipped o); [exact IH|].
  unfold write_indirect_object. rewrite <- !app_assoc.
  apply solid_digits; [apply N_dec_nonempty | apply N_dec_digits].
Qed.

Theorem read_entries_written : forall objs file revs pre tail,
  file = pre ++ objs_bytes objs ++ tail ->
  Forall obj_dom objs -> solid tail = true -> SR.lenN file <= u32_mod ->
  SR.read_entries file (SR.lenN file) revs (map xuse_of (entries_of (blen pre) objs)) =
  SR.SOk (located_of (blen pre) objs).
Proof.
  induction objs as [|[[id g] o] rest IH]; intros file revs pre tail Hf Hd Ht Hs; [reflexivity|].
  inversion Hd as [|? ? [Hg Hw] Hd']; subst. cbn [fst snd] in *.
  cbn [entries_of located_of]. destruct (skipped o) eqn:Hsk.
  - apply (IH _ revs pre tail); try assumption.
    unfold objs_bytes. cbn [flat_map fst snd]. rewrite Hsk. reflexivity.
  - rewrite objs_bytes_cons in * by exact Hsk. rewrite <- app_assoc in *.
    pose proof (wio_nonempty id g o) as Hne.
    assert (Hpos : blen pre mod u32_mod = blen pre).
    { apply N.mod_small. unfold SR.lenN, blen in *. rewrite !app_length in Hs. lia. }
    cbn [map xuse_of fst snd xent_of SR.read_entries]. rewrite Hpos.
    rewrite (read_at_written _ revs pre id g o (objs_bytes rest ++ tail) eq_refl Hg Hw (objs_bytes_solid rest tail Ht)).
    cbn [SR.sbind].
    replace (blen pre + blen (write_indirect_object id g o)) with (blen (pre ++ write_indirect_object id g o))
      by apply blen_app.
    rewrite (IH _ revs (pre ++ write_indirect_object id g o) tail); try assumption.
    + reflexivity.
    + rewrite <- app_assoc. reflexivity.
Qed.


(* ---------- cross-reference table ---------- *)
Definition sec_good (s : xsection) : Prop := snd s <> [] /\ Forall xentry_in_range (snd s).

Lemma number_from_enum : forall es id, number_from id es = map xuse_of (enum id es).
Proof. induction es as [|e es IH]; intro id; cbn [number_from enum map]; [reflexivity|]. rewrite IH. reflexivity. Qed.

Lemma entries_length es : Forall xentry_in_range es -> length (flat_map write_xref_entry es) = (20 * length es)%nat.
Proof.
  induction 1 as [|e es He Hes IH]; [reflexivity|]. cbn [flat_map length]. rewrite app_length, IH, (xref_entry_20 e He). lia.
Qed.

Lemma strip_trailer_digit c t : is_dec_digit c = true -> SR.strip SR.KW_trailer (c :: t) = None.
Proof. intro H. destruct c; try discriminate H; reflexivity. Qed.

Lemma section_shape st es :
  es <> [] -> write_xref_section (st, es) = N_dec st ++ x20 :: N_dec (N.of_nat (length es)) ++ x0a :: flat_map write_xref_entry es.
Proof. intro H. unfold write_xref_section. cbn [fst snd]. destruct es; [contradiction | reflexivity]. Qed.

Lemma subsections_written : forall secs fuel pos0 rest,
  Forall sec_good secs -> (length secs < fuel)%nat ->
  SR.p_subsections fuel pos0 (flat_map write_xref_section secs ++ bs "trailer" ++ rest) =
  SR.SOk (map xuse_of (flatten secs), bs "trailer" ++ rest).
Proof.
  induction secs as [|[st es] secs IH]; intros fuel pos0 rest Hg Hf; (destruct fuel as [|f]; [lia|]).
  - cbn [flat_map app SR.p_subsections]. change SR.KW_trailer with (bs "trailer"). rewrite strip_app. reflexivity.
  - inversion Hg as [|? ? [Hne Hr] Hg']; subst. cbn [fst snd] in *.
    cbn [flat_map]. rewrite (section_shape st es Hne). repeat (rewrite <- app_assoc; cbn [app]).
    cbn [SR.p_subsections].
    assert (Hst : forall X, SR.strip SR.KW_trailer (N_dec st ++ X) = None).
    { intro X. destruct (N_dec_cons st) as [c [t [E Hc]]]. rewrite E. cbn [app]. apply strip_trailer_digit. exact Hc. }
    rewrite Hst.
    rewrite p_nat_N_dec by reflexivity. cbn [SR.obnd snd fst]. rewrite byte_eqb_refl.
    rewrite p_nat_N_dec by reflexivity. cbn [SR.obnd snd fst SR.p_eol].
    change (byte_eqb x0a x0d) with false. change (byte_eqb x0a x0a) with true. cbv iota.
    cbn [SR.obnd SR.of_opt SR.sbind].
    assert (Hl : SR.lenN (flat_map write_xref_entry es ++ flat_map write_xref_section secs ++ bs "trailer" ++ rest)
                 <? N.of_nat (length es) * 20 = false).
    { apply N.ltb_ge. unfold SR.lenN. rewrite app_length, (entries_length es Hr). lia. }
    rewrite Hl. rewrite Nat2N.id. rewrite (save_entries_accepted es st _ Hr).
    cbn [SR.of_opt SR.sbind snd fst]. rewrite (IH f pos0 rest Hg' ltac:(cbn [length] in Hf; lia)).
    cbn [SR.sbind fst snd]. unfold flatten. cbn [flat_map fst snd]. rewrite map_app, number_from_enum. reflexivity.
Qed.

Lemma sections_bytes_long : forall secs, Forall sec_good secs -> (length secs <= length (flat_map write_xref_section secs))%nat.
Proof.
  induction 1 as [|[st es] secs [Hne _] Hs IH]; [cbn; lia|]. cbn [fst snd] in *.
  cbn [flat_map length]. rewrite app_length, (section_shape st es Hne), app_length.
  pose proof (N_dec_nonempty st). destruct (N_dec st); [contradiction|]. cbn [length]. lia.
Qed.

Theorem xref_table_written x secs t rest :
  Forall sec_good secs -> obj_wf (ODict t) ->
  SR.p_xref_table x (bs "xref" ++ x0a :: flat_map write_xref_section secs ++ trailer_bytes t ++ rest) =
  SR.SOk (map xuse_of (flatten secs), norm_dict t, rest).
Proof.
  intros Hg Hw. unfold SR.p_xref_table. change SR.KW_xref with (bs "xref"). rewrite strip_app.
  cbn [SR.obnd SR.p_eol]. change (byte_eqb x0a x0d) with false. change (byte_eqb x0a x0a) with true. cbv iota.
  cbn [SR.of_opt SR.sbind]. unfold trailer_bytes. rewrite <- !app_assoc.
  rewrite subsections_written; [|exact Hg|].
  2:{ pose proof (sections_bytes_long secs Hg). rewrite app_length. lia. }
  cbn [SR.sbind fst snd]. change SR.KW_trailer with (bs "trailer"). unfold SR.kw_tok. rewrite strip_app.
  cbn [app SR.tok_end]. change (SR.is_regular x0a) with false. cbn [negb SR.of_opt SR.sbind].
  assert (Hs : SR.skip_ws (x0a :: write_dictionary t ++ rest) false = write_dictionary t ++ rest) by reflexivity.
  rewrite Hs. unfold write_dictionary. rewrite (strict_p_object_rt (ODict t) rest Hw I).
  cbn [norm_obj SR.of_opt SR.sbind fst snd]. reflexivity.
Qed.

(* ---------- cross-reference stream content ---------- *)
Definition bstep (v : N) (c : byte) : N := v * 256 + SR.nb c.

Lemma be_val_app : forall a s acc, SR.be_val (length a) (a ++ s) acc = Some (fold_left bstep a acc, s).
Proof. induction a as [|c a IH]; intros s acc; cbn [length app SR.be_val fold_left]; [reflexivity|]. apply IH. Qed.

Lemma be_bytes_length : forall w n, length (be_bytes w n) = w.
Proof. induction w as [|w IH]; intro n; cbn [be_bytes]; [reflexivity|]. rewrite app_length, IH. cbn [length]. lia. Qed.

Lemma be_bytes_fold : forall w n acc, fold_left bstep (be_bytes w n) acc = acc * 256 ^ N.of_nat w + n mod 256 ^ N.of_nat w.
Proof.
  induction w as [|w IH]; intros n acc; cbn [be_bytes fold_left].
  - change (256 ^ N.of_nat 0) with 1. rewrite N.mod_1_r. lia.
  - rewrite fold_left_app, IH. cbn [fold_left]. unfold bstep at 1. unfold SR.nb.
    assert (Hb' : N_of_byte (byte_of_N n) = n mod 256).
    { pose proof (N.mod_lt n 256 ltac:(lia)) as Hlt.
      pose proof (N_of_byte_of_N (n mod 256) Hlt) as K. unfold byte_of_N in *. rewrite N.mod_mod in K by lia. exact K. }
    rewrite Hb'. replace (N.of_nat (S w)) with (N.succ (N.of_nat w)) by lia. rewrite N.pow_succ_r'.
    rewrite (N.mod_mul_r n 256 (256 ^ N.of_nat w)) by (try lia; apply N.pow_nonzero; lia). lia.
Qed.

Lemma be_val_be_bytes w n s : n < 256 ^ N.of_nat w -> SR.be_val w (be_bytes w n ++ s) 0 = Some (n, s).
Proof.
  intro H. rewrite <- (be_bytes_length w n) at 1. rewrite be_val_app, be_bytes_fold. rewrite N.mod_small by exact H.
  reflexivity.
Qed.

Definition sec_normal (s : xsection) : Prop :=
  Forall (fun e => match e with XNormal off g => off < u32_mod /\ g < 65536 | _ => False end) (snd s).

Lemma xs_entry_written id off g s :
  off < u32_mod -> g < 65536 ->
  SR.p_xs_entry XS_W1 XS_W2 XS_W3 (xstream_entry id (XNormal off g) ++ s) = Some (Some (SR.XUse off g), s).
Proof.
  intros Ho Hg. unfold SR.p_xs_entry, xstream_entry. cbn [app]. rewrite <- app_assoc.
  change (SR.be_val XS_W1 (x01 :: ?t) 0) with (Some (1, t)). cbn [SR.obnd snd fst].
  rewrite be_val_be_bytes by (unfold XS_W2, u32_mod in *; change (256 ^ N.of_nat 4) with 4294967296; exact Ho).
  cbn [SR.obnd snd fst].
  rewrite be_val_be_bytes by (unfold XS_W3; change (256 ^ N.of_nat 2) with 65536; exact Hg).
  cbn [SR.obnd snd fst]. reflexivity.
Qed.

Lemma xs_entries_written : forall es id s,
  sec_normal (id, es) ->
  SR.p_xs_entries XS_W1 XS_W2 XS_W3 (length es) id (xstream_entries id es ++ s) = SR.SOk (map xuse_of (enum id es), s).
Proof.
  induction es as [|e es IH]; intros id s H; [reflexivity|]. unfold sec_normal in H. cbn [snd] in H.
  inversion H as [|? ? He Hes]; subst. destruct e as [| |off g|]; try contradiction. destruct He as [Ho Hg].
  cbn [length xstream_entries SR.p_xs_entries]. rewrite <- app_assoc. rewrite (xs_entry_written id off g _ Ho Hg).
  rewrite (IH (id + 1) s Hes). cbn [SR.sbind fst snd enum map]. reflexivity.
Qed.

Definition index_pairs (secs : list xsection) : list (N * N) := map (fun s => (fst s, N.of_nat (length (snd s)))) secs.

Lemma xs_sections_written : forall secs,
  Forall sec_normal secs ->
  SR.p_xs_sections XS_W1 XS_W2 XS_W3 (index_pairs secs) (xstream_content secs) = SR.SOk (map xuse_of (flatten secs)).
Proof.
  induction secs as [|[st es] secs IH]; intro H; [reflexivity|]. inversion H; subst.
  unfold index_pairs, xstream_content, flatten in *. cbn [map flat_map fst snd SR.p_xs_sections].
  rewrite Nat2N.id. rewrite (xs_entries_written es st _ H2). cbn [SR.sbind fst snd].
  rewrite (IH H3). cbn [SR.sbind]. rewrite map_app. reflexivity.
Qed.

Lemma index_parsed : forall secs,
  SR.obnd (SR.all_nats (flat_map (fun s : xsection => [OInt (Z.of_N (fst s)); OInt (Z.of_nat (length (snd s)))]) secs)) SR.pairs_of
  = Some (index_pairs secs).
Proof.
  induction secs as [|[st es] secs IH]; [reflexivity|]. cbn [flat_map fst snd app SR.all_nats SR.as_nat_obj].
  replace (Z.of_N st <? 0)%Z with false by (symmetry; apply Z.ltb_ge; lia).
  replace (Z.of_nat (length es) <? 0)%Z with false by (symmetry; apply Z.ltb_ge; lia).
  unfold index_pairs in *. cbn [map fst snd].
  destruct (SR.all_nats (flat_map (fun s : xsection => [OInt (Z.of_N (fst s)); OInt (Z.of_nat (length (snd s)))]) secs)) as [l|];
    cbn [SR.obnd] in *; [|discriminate IH].
  cbn [SR.pairs_of]. rewrite IH. rewrite N2Z.id. f_equal. f_equal. f_equal. lia.
Qed.

Lemma xstream_entries_length : forall es id, length (xstream_entries id es) = (7 * length es)%nat.
Proof.
  induction es as [|e es IH]; intro id; [reflexivity|]. cbn [xstream_entries length]. rewrite app_length, IH.
  destruct e; cbn [xstream_entry length]; rewrite app_length, !be_bytes_length; unfold XS_W2, XS_W3; lia.
Qed.

Lemma xstream_content_length : forall secs, SR.lenN (xstream_content secs) = SR.sum_counts (index_pairs secs) * 7.
Proof.
  induction secs as [|[st es] secs IH]; [reflexivity|]. unfold xstream_content, index_pairs, SR.lenN in *.
  cbn [flat_map map fst snd]. rewrite app_length, xstream_entries_length.
  match goal with |- _ = SR.sum_counts (?a :: ?l) * 7 =>
    change (SR.sum_counts (a :: l)) with (snd a + SR.sum_counts l) end.
  cbn [snd]. lia.
Qed.

Theorem decode_xstream_written x dct secs size :
  dict_get dct SR.N_Type = Some (OName SR.N_XRef) -> dict_get dct SR.N_Filter = None ->
  dict_get dct SR.N_Size = Some (OInt (Z.of_N size)) -> dict_get dct SR.N_W = Some xs_W ->
  dict_get dct SR.N_Index = Some (xstream_index secs) ->
  Forall sec_normal secs ->
  SR.decode_xstream x dct (xstream_content secs) = SR.SOk (map xuse_of (flatten secs)).
Proof.
  intros HT HF HS HW HI Hn. unfold SR.decode_xstream. rewrite HT, bytes_eqb_refl, HF. cbn [negb].
  rewrite HS. cbn [SR.obnd SR.as_nat_obj]. replace (Z.of_N size <? 0)%Z with false by (symmetry; apply Z.ltb_ge; lia).
  cbn [SR.of_opt SR.sbind]. rewrite HW.
  match goal with |- context [SR.of_opt SR.R_xstream_W x ?e] =>
    let v := eval vm_compute in e in change e with v end.
  cbn [SR.of_opt SR.sbind].
  rewrite HI. unfold xstream_index. rewrite index_parsed. cbn [SR.of_opt SR.sbind].
  rewrite xstream_content_length. change (1 + 4 + 2) with 7. rewrite N.eqb_refl. cbn [negb].
  change (N.to_nat 1) with XS_W1. change (N.to_nat 4) with XS_W2. change (N.to_nat 2) with XS_W3.
  apply xs_sections_written. exact Hn.
Qed.

