(* StrictFileProofs.v -- C03, part 3: the pieces of a saved file, written by the model of the writer
   (Model/Save.v, Model/Writer.v) in ANY context (arbitrary bytes before, arbitrary bytes after
   subject to a one-byte follow condition), are read back by the corresponding pieces of the strict
   reader (Spec/StrictReader.v):
     - one indirect object  "id gen obj ... endobj"      (p_objhdr, p_objbody, read_at)
     - the list of written objects through their entries (read_entries)
     - a cross-reference table with its trailer           (p_subsections, p_xref_table)
     - the content of a cross-reference stream            (decode_xstream)
   The context-independent form is what makes the same lemmas serve the plain save (one revision)
   and the incremental save (the previous file followed by a second revision).
   Built on the object-level round trip of Proofs/StrictObjectProofs.v and on c01's byte-counter
   lemmas (Proofs/SaveProofs.v, Proofs/LoadProofsTable.v: objs_bytes, entries_of). *)
From LV Require Import Base.Bytes Base.Sx Model.Obj Model.Writer Model.Save Gen.Lex Gen.SaveFmt
  Proofs.LexProofs Proofs.RealProofs Proofs.ObjectRtProofs Proofs.SaveProofs Spec.SaveSpec
  Proofs.FilterProofsDict Proofs.LoadProofs Proofs.LoadProofsXref Proofs.LoadProofsTable
  Proofs.StrictReaderProofs Proofs.SaveStrictProofs.
From LV Require Spec.StrictReader.
From Coq Require Import ZifyBool ZifyN ZifyNat.

Local Open Scope N_scope.

(* DEVSTUB-BEGIN *)
Definition sfollow (o : obj) (rest : bytes) : Prop :=
  match o with
  | ONull | OBool _ | OName _ | ORef _ _ => SR.tok_end rest = true
  | OInt _ | OReal _ => SR.tok_end rest = true /\ SR.p_ref_tail rest = None
  | _ => True
  end.
Section Dev.
Hypothesis strict_p_object_rt : forall o rest,
  obj_wf o -> sfollow o rest -> SR.p_object (write_object o ++ rest) = Some (norm_obj o, rest).
Hypothesis skip_ws_sep_object : forall o rest, obj_wf o ->
  SR.skip_ws (sp_if (need_separator o) ++ write_object o ++ rest) false = write_object o ++ rest.
(* DEVSTUB-END *)

(* ---------- small facts about the strict lexer ---------- *)
(* [solid s]: s is empty or begins with a byte that is neither white space nor "%" *)
Definition solid (s : bytes) : bool :=
  match s with [] => true | c :: _ => negb (SR.is_ws c) && negb (byte_eqb c x25) end.

Lemma skip_sp_solid s : solid s = true -> SR.skip_sp s = s.
Proof.
  destruct s as [|c s]; [reflexivity|]. cbn [solid SR.skip_sp]. intro H.
  apply andb_true_iff in H as [H _]. apply negb_true_iff in H. rewrite H. reflexivity.
Qed.

Lemma skip_ws_solid s : solid s = true -> SR.skip_ws s false = s.
Proof.
  destruct s as [|c s]; [reflexivity|]. cbn [solid SR.skip_ws]. intro H.
  apply andb_true_iff in H as [H1 H2]. apply negb_true_iff in H1, H2. rewrite H1, H2. reflexivity.
Qed.

Lemma solid_digits ds tail : ds <> [] -> forallb is_dec_digit ds = true -> solid (ds ++ tail) = true.
Proof.
  intros Hne Hd. destruct ds as [|c ds]; [contradiction|]. cbn [forallb] in Hd.
  apply andb_true_iff in Hd as [Hc _]. destruct (SaveStrictProofs.digit_facts c Hc) as [Hw _].
  cbn [app solid]. rewrite Hw. cbn [negb andb]. destruct c; try discriminate Hc; reflexivity.
Qed.

Lemma lenN_app a b : SR.lenN (a ++ b) = SR.lenN a + SR.lenN b.
Proof. unfold SR.lenN. rewrite app_length. lia. Qed.

Lemma lenN_blen a : SR.lenN a = blen a.
Proof. reflexivity. Qed.

(* ---------- one indirect object ---------- *)
(* what follows "id gen obj" LF in the writer's rendering *)
Definition obj_tail (o : obj) (rest : bytes) : bytes :=
  sp_if (need_separator o) ++ write_object o ++ sp_if (need_end_separator o) ++
  x0a :: bs "endobj" ++ x0a :: rest.

Lemma wio_shape id g o rest :
  write_indirect_object id g o ++ rest = N_dec id ++ x20 :: N_dec g ++ bs " obj" ++ x0a :: obj_tail o rest.
Proof.
  unfold write_indirect_object, obj_tail. repeat (rewrite <- ?app_assoc; cbn [app]). reflexivity.
Qed.

Lemma objhdr_exact id g t :
  SR.p_objhdr (N_dec id ++ x20 :: N_dec g ++ bs " obj" ++ x0a :: t) = Some (id, g, x0a :: t).
Proof.
  unfold SR.p_objhdr.
  rewrite p_nat_N_dec by reflexivity. cbn [SR.obnd snd fst SR.ws1 SR.is_ws].
  rewrite skip_sp_digits by (try apply N_dec_nonempty; apply N_dec_digits).
  change (bs " obj" ++ ?x) with (x20 :: bs "obj" ++ x).
  rewrite p_nat_N_dec by reflexivity. cbn [SR.obnd snd fst SR.ws1 SR.is_ws].
  change (bs "obj" ++ ?x) with (x6f :: x62 :: x6a :: x) at 1.
  cbn [SR.skip_sp SR.is_ws].
  match goal with |- context [SR.kw_tok SR.KW_obj (x6f :: x62 :: x6a :: ?t)] =>
    change (x6f :: x62 :: x6a :: t) with (SR.KW_obj ++ t) end.
  unfold SR.kw_tok. rewrite strip_app. cbn [app SR.tok_end].
  change (SR.is_regular x0a) with false. cbn [negb SR.obnd fst]. reflexivity.
Qed.

Lemma wio_objhdr id g o rest :
  SR.p_objhdr (write_indirect_object id g o ++ rest) = Some (id, g, x0a :: obj_tail o rest).
Proof. rewrite wio_shape. apply objhdr_exact. Qed.

(* the end of an object satisfies the follow condition of every token *)
Lemma end_tail_follow o rest :
  sfollow o (sp_if (need_end_separator o) ++ x0a :: bs "endobj" ++ x0a :: rest).
Proof.
  destruct o; cbn [sfollow]; try exact I; destruct (need_end_separator _); cbn [sp_if app];
    try reflexivity; split; reflexivity.
Qed.

Lemma end_tail_skip b rest :
  SR.skip_ws (sp_if b ++ x0a :: bs "endobj" ++ x0a :: rest) false = bs "endobj" ++ x0a :: rest.
Proof. destruct b; reflexivity. Qed.

Lemma norm_obj_not_stream o : (forall d c, o <> OStream d c) -> forall d c, norm_obj o <> OStream d c.
Proof.
  intros H d c. destruct o; cbn [norm_obj]; try discriminate.
  - unfold norm_real. destruct (strip_minus r) as [neg t].
    destruct (forallb is_dec_digit t); [destruct (REAL_POINT_DISPLAY_THRESHOLD <=? digits_val t)|]; discriminate.
  - exfalso. eapply H. reflexivity.
Qed.

Lemma objbody_direct resolve id o rest :
  obj_wf o ->
  SR.p_objbody resolve id (x0a :: obj_tail o rest) = SR.SOk (norm_obj o, SR.skip_sp rest).
Proof.
  intro Hw. unfold SR.p_objbody, obj_tail.
  assert (Hs : SR.skip_ws (x0a :: sp_if (need_separator o) ++ write_object o ++ sp_if (need_end_separator o) ++
                           x0a :: bs "endobj" ++ x0a :: rest) false =
               write_object o ++ sp_if (need_end_separator o) ++ x0a :: bs "endobj" ++ x0a :: rest).
  { cbn [SR.skip_ws SR.is_ws]. apply skip_ws_sep_object. exact Hw. }
  rewrite Hs. rewrite (strict_p_object_rt o _ Hw (end_tail_follow o rest)).
  cbn [SR.of_opt SR.sbind]. rewrite end_tail_skip.
  assert (Hns : SR.strip SR.KW_stream (bs "endobj" ++ x0a :: rest) = None) by reflexivity.
  rewrite Hns.
  assert (Hm : match norm_obj o, @None bytes with
               | ODict d, Some r2 => SR.SErr SR.R_fuel 0
               | _, _ => SR.SOk (norm_obj o, bs "endobj" ++ x0a :: rest)
               end = SR.SOk (norm_obj o, bs "endobj" ++ x0a :: rest)) by (destruct (norm_obj o); reflexivity).
  destruct (norm_obj o) eqn:En; cbn [SR.sbind];
    (change (bs "endobj" ++ x0a :: rest) with (SR.KW_endobj ++ x0a :: rest);
     unfold SR.kw_tok; rewrite strip_app; cbn [SR.tok_end]; change (SR.is_regular x0a) with false;
     cbn [negb SR.of_opt SR.sbind SR.skip_sp SR.is_ws]; reflexivity).
Qed.

Lemma length_value_direct resolve d n :
  dict_get d K_Length = Some (OInt (Z.of_nat n)) ->
  SR.length_value resolve (norm_dict d) = Some (N.of_nat n).
Proof.
  intro H. unfold SR.length_value. change SR.N_Length with K_Length.
  rewrite dict_get_norm, H. cbn [option_map norm_obj].
  replace (Z.of_nat n <? 0)%Z with false by (symmetry; apply Z.ltb_ge; lia).
  f_equal. lia.
Qed.

Lemma objbody_stream resolve id d c rest :
  obj_wf (ODict d) -> dict_get d K_Length = Some (OInt (Z.of_nat (length c))) ->
  SR.p_objbody resolve id (x0a :: write_dictionary d ++ stream_tail c rest) =
  SR.SOk (OStream (norm_dict d) c, SR.skip_sp rest).
Proof.
  intros Hw Hlen. unfold SR.p_objbody.
  assert (Hws : SR.skip_ws (x0a :: write_dictionary d ++ stream_tail c rest) false =
                write_dictionary d ++ stream_tail c rest).
  { unfold write_dictionary. cbn [write_object app SR.skip_ws SR.is_ws]. reflexivity. }
  rewrite Hws. unfold write_dictionary. rewrite (strict_p_object_rt (ODict d) _ Hw I).
  cbn [norm_obj]. fold (norm_dict d). cbn [SR.of_opt SR.sbind].
  assert (Hst : SR.skip_ws (stream_tail c rest) false = stream_tail c rest) by reflexivity.
  rewrite Hst. unfold stream_tail at 1.
  change SR.KW_stream with (bs "stream"). rewrite strip_app.
  cbn [SR.of_opt SR.sbind]. change (byte_eqb x0a x0a) with true. cbv iota. cbn [SR.of_opt SR.sbind].
  rewrite (length_value_direct resolve d (length c) Hlen). cbn [SR.of_opt SR.sbind].
  rewrite Nat2N.id, SaveStrictProofs.take_n_app.
  cbn [SR.of_opt SR.sbind SR.p_eol]. change (byte_eqb x0a x0d) with false. change (byte_eqb x0a x0a) with true.
  cbv iota.
  unfold SR.kw_tok. change SR.KW_endstream with (bs "endstream"). rewrite strip_app.
  cbn [SR.tok_end]. change (SR.is_regular x20) with false. cbn [negb SR.of_opt SR.sbind].
  cbn [SR.skip_ws SR.is_ws]. change (byte_eqb x20 x25) with false.
  change (bs "endobj" ++ x0a :: rest) with (x65 :: x6e :: x64 :: x6f :: x62 :: x6a :: x0a :: rest).
  cbn [SR.skip_ws SR.is_ws]. change (byte_eqb x65 x25) with false. cbv iota.
  change (x65 :: x6e :: x64 :: x6f :: x62 :: x6a :: x0a :: rest) with (SR.KW_endobj ++ x0a :: rest).
  rewrite strip_app. cbn [SR.tok_end]. change (SR.is_regular x0a) with false.
  cbn [negb SR.of_opt SR.sbind SR.skip_sp SR.is_ws]. reflexivity.
Qed.

Lemma obj_tail_stream d c rest : obj_tail (OStream d c) rest = write_dictionary d ++ stream_tail c rest.
Proof.
  unfold obj_tail, stream_tail, write_dictionary.
  change (need_separator (OStream d c)) with false. change (need_end_separator (OStream d c)) with true.
  cbn [sp_if write_object]. repeat (rewrite <- ?app_assoc; cbn [app]). reflexivity.
Qed.

(* every indirect object of the domain (direct object, or stream with Length = |content|) *)
Theorem objbody_rt resolve id o rest :
  top_wf o ->
  SR.p_objbody resolve id (x0a :: obj_tail o rest) = SR.SOk (norm_obj o, SR.skip_sp rest).
Proof.
  intro Hw. destruct o; try (apply objbody_direct; exact Hw).
  destruct Hw as [Hd Hl]. rewrite obj_tail_stream. cbn [norm_obj]. fold (norm_dict d).
  apply objbody_stream; assumption.
Qed.

(* ---------- an entry pointing at a written object ---------- *)
Lemma at_off_app pre r : SR.at_off (pre ++ r) (blen pre) = r.
Proof. apply at_off_prefix. Qed.

Lemma wio_nonempty id g o : 0 < blen (write_indirect_object id g o).
Proof.
  unfold write_indirect_object. rewrite blen_app.
  pose proof (N_dec_nonempty id) as Hne. destruct (N_dec id); [contradiction|]. unfold blen. cbn [length]. lia.
Qed.

Theorem read_at_written file revs pre id g o post :
  file = pre ++ write_indirect_object id g o ++ post ->
  g <= 65535 -> top_wf o -> solid post = true ->
  SR.read_at file (SR.lenN file) revs id (blen pre) g =
  SR.SOk {| SR.l_id := id; SR.l_gen := g; SR.l_off := blen pre;
            SR.l_end := blen pre + blen (write_indirect_object id g o); SR.l_obj := norm_obj o |}.
Proof.
  intros Hf Hg Hw Hp. unfold SR.read_at.
  replace (65535 <? g) with false by (symmetry; apply N.ltb_ge; exact Hg).
  pose proof (wio_nonempty id g o) as Hne.
  assert (Hlen : SR.lenN file = blen pre + blen (write_indirect_object id g o) + blen post).
  { subst file. rewrite !lenN_app, !lenN_blen. lia. }
  replace (SR.lenN file <=? blen pre) with false by (symmetry; apply N.leb_gt; lia).
  rewrite Hf at 1. rewrite at_off_app, wio_objhdr. rewrite !N.eqb_refl. cbn [andb].
  rewrite (objbody_rt _ id o post Hw). cbn [SR.sbind fst snd].
  rewrite (skip_sp_solid post Hp). f_equal. f_equal. rewrite Hlen, lenN_blen. lia.
Qed.

(* ---------- all written objects through their entries ---------- *)
Definition xuse_of (ke : N * xentry) : N * SR.xent := (fst ke, xent_of (snd ke)).

Fixpoint located_of (pos : N) (objs : objmap) : list SR.located :=
  match objs with
  | [] => []
  | ((id, g), o) :: rest =>
    if skipped o then located_of pos rest
    else {| SR.l_id := id; SR.l_gen := g; SR.l_off := pos;
            SR.l_end := pos + blen (write_indirect_object id g o); SR.l_obj := norm_obj o |}
         :: located_of (pos + blen (write_indirect_object id g o)) rest
  end.

Definition obj_dom (io : oid * obj) : Prop := snd (fst io) <= 65535 /\ top_wf (snd io).

Lemma objs_bytes_solid objs tail : solid tail = true -> solid (objs_bytes objs ++ tail) = true.
Proof.
  intro Ht. induction objs as [|[[id g] o] rest IH]; [exact Ht|].
  unfold objs_bytes in *. cbn [flat_map fst snd]. destruct (skipped o); [exact IH|].
  unfold write_indirect_object. rewrite <- !app_assoc.
  apply solid_digits; [apply N_dec_nonempty | apply N_dec_digits].
Qed.

Theorem read_entries_written : forall objs file revs pre tail,
  file = pre ++ objs_bytes objs ++ tail ->
  Forall obj_dom objs -> solid tail = true -> SR.lenN file <= u32_mod ->
  SR.read_entries file (SR.lenN file) revs (map xuse_of (entries_of (blen pre) objs)) =
  SR.SOk (located_of (blen pre) objs).
Proof.
  induction objs as [|[[id g] o] rest IH]; intros file revs pre tail Hf Hd Ht Hs; [reflexivity|].
  inversion Hd as [|? ? [Hg Hw] Hd']; subst. cbn [fst snd] in *.
  cbn [entries_of located_of]. destruct (skipped o) eqn:Hsk.
  - apply (IH _ revs pre tail); try assumption.
    unfold objs_bytes. cbn [flat_map fst snd]. rewrite Hsk. reflexivity.
  - rewrite objs_bytes_cons in * by exact Hsk. rewrite <- app_assoc in *.
    pose proof (wio_nonempty id g o) as Hne.
    assert (Hpos : blen pre mod u32_mod = blen pre).
    { apply N.mod_small. rewrite !lenN_app, !lenN_blen in Hs. lia. }
    cbn [map xuse_of fst snd xent_of SR.read_entries]. rewrite Hpos.
    rewrite (read_at_written _ revs pre id g o (objs_bytes rest ++ tail) eq_refl Hg Hw (objs_bytes_solid rest tail Ht)).
    cbn [SR.sbind].
    replace (blen pre + blen (write_indirect_object id g o)) with (blen (pre ++ write_indirect_object id g o))
      by apply blen_app.
    rewrite (IH _ revs (pre ++ write_indirect_object id g o) tail); try assumption.
    + reflexivity.
    + rewrite <- app_assoc. reflexivity.
Qed.

(* DEVSTUB-BEGIN *)
End Dev.
(* DEVSTUB-END *)
