(* LzwProofs.v -- the LZW codec of Spec/LzwSpec.v is lossless:

     lzw_decode_encode_lim : limit <= 4096 -> lzw_decode ec (lzw_encode_lim limit ec data) = Some data
     lzw_decode_encode     : lzw_decode ec (lzw_encode ec data) = Some data

   for EVERY byte string, both EarlyChange values and every point (up to the full table of 4096 codes) at which the
   encoder clears its table.  Three layers:
     bits   : bits_of_bytes (bytes_of_bits l) = l ++ padding,
              unpack (pack cs ++ anything) = cs up to its EOD marker, provided every code fits the width of its
              position ([fits]) -- the width schedule is the same function of the number of codes since the last clear
              on both sides;
     codes  : the dictionary-synchronisation invariant [sync]: when the encoder holds the table t and has matched w,
              the decoder has either nothing (start / after a clear) or the previous sequence p and the table t minus
              its last entry, which is p ++ [first byte of w] -- so the decoder's next step, whatever w finally becomes,
              yields w (the entry it does not have yet is p ++ [first byte of p]: the KwKwK case) and leaves it with t;
     widths : a code is below 258 + k after k codes since the clear, and 258 + k <= 2^width because the encoder clears
              before the table outgrows [limit] <= 4096. *)
From LV Require Import Base.Bytes Spec.LzwSpec.

Local Open Scope N_scope.

(* ------------------------------------------------------------------------------------------------ *)
(* bits <-> bytes                                                                                   *)
(* ------------------------------------------------------------------------------------------------ *)
Lemma byte_bits_of_bits b0 b1 b2 b3 b4 b5 b6 b7 :
  byte_bits (Byte.of_bits (b0, (b1, (b2, (b3, (b4, (b5, (b6, b7)))))))) = [b7; b6; b5; b4; b3; b2; b1; b0].
Proof. unfold byte_bits. rewrite Byte.to_bits_of_bits. reflexivity. Qed.

Lemma bits_of_bytes_cons b r : bits_of_bytes (b :: r) = byte_bits b ++ bits_of_bytes r.
Proof. reflexivity. Qed.

Lemma bytes_of_bits8_pad n : forall l, (length l <= n)%nat ->
  exists pad, bits_of_bytes (bytes_of_bits8 (l ++ repeat false 7)) = l ++ pad.
Proof.
  induction n as [|n IH]; intros l Hl.
  - destruct l; [|cbn in Hl; lia]. exists []. reflexivity.
  - destruct l as [|b7 [|b6 [|b5 [|b4 [|b3 [|b2 [|b1 [|b0 r]]]]]]]];
      try (eexists; cbn [app repeat bytes_of_bits8]; try rewrite bits_of_bytes_cons, byte_bits_of_bits; cbn [app bits_of_bytes flat_map]; reflexivity).
    destruct (IH r) as [pad Hp]; [cbn [length] in Hl; lia|].
    exists pad. cbn [app bytes_of_bits8]. rewrite bits_of_bytes_cons, byte_bits_of_bits, Hp. reflexivity.
Qed.

Lemma bits_bytes_bits l : exists pad, bits_of_bytes (bytes_of_bits l) = l ++ pad.
Proof. apply (bytes_of_bits8_pad (length l)). lia. Qed.

(* ------------------------------------------------------------------------------------------------ *)
(* codes <-> bits                                                                                   *)
(* ------------------------------------------------------------------------------------------------ *)
Definition b2n (b : bool) : N := if b then 1 else 0.

Lemma split_top v m : v < 2 ^ (m + 1) -> v = b2n (N.testbit v m) * 2 ^ m + v mod 2 ^ m.
Proof.
  intro H. pose proof (N.testbit_spec' v m) as T. unfold N.b2n in T.
  assert (P : 2 ^ m <> 0) by (apply N.pow_nonzero; lia).
  assert (D : v / 2 ^ m < 2).
  { apply N.div_lt_upper_bound; [exact P|]. rewrite N.pow_add_r in H. cbn in H. lia. }
  rewrite N.mod_small in T by exact D.
  pose proof (N.div_mod v (2 ^ m) P) as E.
  unfold b2n. destruct (N.testbit v m); lia.
Qed.

Lemma bits_of_mod w : forall v m, (N.of_nat w <= m) -> bits_of w (v mod 2 ^ m) = bits_of w v.
Proof.
  induction w as [|w IH]; intros v m H; [reflexivity|].
  cbn [bits_of]. rewrite IH by lia. f_equal. apply N.mod_pow2_bits_low. lia.
Qed.

(* what unpack does once a code is complete *)
Definition emit (ec : bool) (k : N) (c : N) (r : list bool) : list N :=
  if c =? EOD then [EOD]
  else let k' := if c =? CLEAR then 0 else k + 1 in c :: unpack ec k' (width ec k') 0 r.

Lemma unpack_bits_of ec k : forall n acc v r, v < 2 ^ N.of_nat (S n) ->
  unpack ec k (S n) acc (bits_of (S n) v ++ r) = emit ec k (acc * 2 ^ N.of_nat (S n) + v) r.
Proof.
  induction n as [|n IH]; intros acc v r Hv.
  - cbn [bits_of app unpack]. change (N.of_nat 1) with 1 in *. change (N.of_nat 0) with 0.
    pose proof (split_top v 0 Hv) as E. rewrite N.pow_0_r, N.mod_1_r in E. unfold b2n in E.
    unfold emit. replace (acc * 2 ^ 1 + v) with (2 * acc + (if N.testbit v 0 then 1 else 0)); [reflexivity|].
    change (2 ^ 1) with 2. destruct (N.testbit v 0); lia.
  - change (bits_of (S (S n)) v) with (N.testbit v (N.of_nat (S n)) :: bits_of (S n) v).
    cbn [app unpack].
    rewrite <- (bits_of_mod (S n) v (N.of_nat (S n))) by lia.
    rewrite IH by (apply N.mod_lt; apply N.pow_nonzero; lia).
    f_equal.
    assert (Hv' : v < 2 ^ (N.of_nat (S n) + 1)) by (replace (N.of_nat (S n) + 1) with (N.of_nat (S (S n))) by lia; exact Hv).
    pose proof (split_top v (N.of_nat (S n)) Hv') as E. unfold b2n in E.
    replace (N.of_nat (S (S n))) with (N.of_nat (S n) + 1) by lia. rewrite N.pow_add_r. change (2 ^ 1) with 2.
    destruct (N.testbit v (N.of_nat (S n))); lia.
Qed.

Lemma width_cases ec k : width ec k = 9%nat \/ width ec k = 10%nat \/ width ec k = 11%nat \/ width ec k = 12%nat.
Proof. unfold width. repeat match goal with |- context [if ?c then _ else _] => destruct c end; auto. Qed.

Lemma width_S ec k : exists n, width ec k = S n.
Proof. destruct (width_cases ec k) as [H|[H|[H|H]]]; rewrite H; eauto. Qed.

Lemma width_ge9 ec k : 512 <= 2 ^ N.of_nat (width ec k).
Proof. destruct (width_cases ec k) as [H|[H|[H|H]]]; rewrite H; cbn; lia. Qed.

Theorem unpack_pack ec : forall cs k rest, fits ec k cs -> In EOD cs ->
  unpack ec k (width ec k) 0 (pack ec k cs ++ rest) = cut cs.
Proof.
  induction cs as [|c cs IH]; intros k rest Hf Hin; [destruct Hin|].
  cbn [pack cut fits] in *. destruct Hf as [Hc Hf].
  destruct (width_S ec k) as [n Hn]. rewrite Hn in *. rewrite <- app_assoc.
  rewrite unpack_bits_of by exact Hc. rewrite N.mul_0_l, N.add_0_l. unfold emit.
  destruct (c =? EOD) eqn:E; [reflexivity|].
  cbv zeta. f_equal. apply IH; [exact Hf|].
  destruct Hin as [Hin|Hin]; [|exact Hin]. apply N.eqb_neq in E. congruence.
Qed.

(* without an EOD marker in the codes nothing is lost either: the codes come out and reading goes on *)
Lemma dec_cut : forall cs t prev, dec t prev (cut cs) = dec t prev cs.
Proof.
  induction cs as [|c cs IH]; intros t prev; [reflexivity|].
  cbn [cut]. destruct (c =? EOD) eqn:E.
  - cbn [dec]. rewrite E. change (EOD =? EOD) with true. reflexivity.
  - cbn [dec]. rewrite E. destruct (c =? CLEAR); [apply IH|].
    destruct prev as [p|].
    + destruct (match entry t c with Some e => Some e | None => if c =? FIRST + N.of_nat (length t) then Some (p ++ firstn 1 p) else None end);
        [rewrite IH; reflexivity | reflexivity].
    + destruct (entry t c); [rewrite IH; reflexivity | reflexivity].
Qed.

(* ------------------------------------------------------------------------------------------------ *)
(* the table                                                                                        *)
(* ------------------------------------------------------------------------------------------------ *)
Lemma index_of_found w : forall t, existsb (bytes_eqb w) t = true ->
  (N.to_nat (index_of w t) < length t)%nat /\ nth_error t (N.to_nat (index_of w t)) = Some w.
Proof.
  induction t as [|e t IH]; cbn [existsb index_of]; intro H; [discriminate|].
  destruct (bytes_eqb w e) eqn:E.
  - apply bytes_eqb_eq in E. subst. cbn. split; [lia | reflexivity].
  - cbn [orb] in H. destruct (IH H) as [H1 H2].
    replace (N.to_nat (1 + index_of w t)) with (S (N.to_nat (index_of w t))) by lia.
    cbn [length nth_error]. split; [lia | exact H2].
Qed.

Lemma firstn1_app (w x : bytes) : w <> [] -> firstn 1 (w ++ x) = firstn 1 w.
Proof. destruct w; [congruence | reflexivity]. Qed.

(* the dictionary-synchronisation invariant *)
Definition sync (limit : N) (t : table) (w : bytes) (td : table) (prev : option bytes) : Prop :=
  (t = [] /\ td = [] /\ prev = None) \/
  (exists p, p <> [] /\ prev = Some p /\ t = td ++ [p ++ firstn 1 w] /\ FIRST + N.of_nat (length t) < limit).

Lemma code_of_range t w : w <> [] -> in_table t w = true ->
  code_of t w <> EOD /\ code_of t w <> CLEAR /\ code_of t w < FIRST + N.of_nat (length t).
Proof.
  intros Hw Hin. unfold code_of, in_table in *.
  destruct w as [|b [|b' w']]; [congruence| |].
  - pose proof (N_of_byte_lt b). unfold EOD, CLEAR, FIRST. lia.
  - destruct (index_of_found _ _ Hin) as [H1 _]. unfold EOD, CLEAR, FIRST. lia.
Qed.

(* one decoder step on the code of the sequence the encoder finally matched *)
Lemma dec_step limit t w td prev cs : limit <= TABLE_MAX ->
  w <> [] -> in_table t w = true -> sync limit t w td prev ->
  dec td prev (code_of t w :: cs) = option_map (app w) (dec t (Some w) cs).
Proof.
  intros Hl Hw Hin Hs.
  destruct (code_of_range t w Hw Hin) as [N1 [N2 _]].
  cbn [dec]. apply N.eqb_neq in N1, N2. rewrite N1, N2. clear N1 N2.
  destruct w as [|b [|b' w']]; [congruence| |].
  - (* a single byte *)
    assert (E : entry td (code_of t [b]) = Some [b]).
    { unfold entry, code_of. pose proof (N_of_byte_lt b) as Hb. apply N.ltb_lt in Hb. rewrite Hb.
      rewrite byte_of_N_of_byte. reflexivity. }
    rewrite E. destruct Hs as [[-> [-> ->]] | [p [Hp [-> [Ht Hsz]]]]]; [reflexivity|].
    cbn [firstn] in *.
    assert (Hlt : FIRST + N.of_nat (length td) <? TABLE_MAX = true).
    { apply N.ltb_lt. rewrite Ht, app_length in Hsz. cbn [length] in Hsz. lia. }
    rewrite Hlt, <- Ht. reflexivity.
  - (* a table entry *)
    set (w := b :: b' :: w') in *.
    assert (Hex : existsb (bytes_eqb w) t = true) by exact Hin.
    destruct Hs as [[-> _] | [p [Hp [-> [Ht Hsz]]]]]; [discriminate Hex|].
    destruct (index_of_found _ _ Hex) as [Hi Hn].
    assert (Hc : code_of t w = FIRST + index_of w t) by reflexivity.
    remember (index_of w t) as i eqn:Hi0. clear Hi0.
    assert (Hfw : firstn 1 w = [b]) by reflexivity.
    assert (Hlen : length t = S (length td)) by (rewrite Ht, app_length; cbn [length]; lia).
    assert (Hlt : FIRST + N.of_nat (length td) <? TABLE_MAX = true) by (apply N.ltb_lt; lia).
    assert (E1 : code_of t w <? 256 = false) by (apply N.ltb_ge; rewrite Hc; unfold FIRST; lia).
    assert (E2 : code_of t w <? FIRST = false) by (apply N.ltb_ge; rewrite Hc; lia).
    unfold entry. rewrite E1, E2, Hlt.
    replace (N.to_nat (code_of t w - FIRST)) with (N.to_nat i) by (rewrite Hc; lia).
    destruct (Nat.lt_ge_cases (N.to_nat i) (length td)) as [Hlo|Hhi].
    + (* an entry the decoder has already *)
      rewrite Ht, nth_error_app1 in Hn by exact Hlo. rewrite Hn, Hfw, <- Hfw, <- Ht. reflexivity.
    + (* the entry the encoder has just made: K w K w K *)
      assert (Hidx : N.to_nat i = length td) by lia.
      assert (Hnone : nth_error td (N.to_nat i) = None) by (apply nth_error_None; lia).
      rewrite Hnone.
      assert (Heq : code_of t w =? FIRST + N.of_nat (length td) = true) by (apply N.eqb_eq; rewrite Hc; lia).
      rewrite Heq.
      rewrite Ht, nth_error_app2, Hidx, Nat.sub_diag in Hn by lia. cbn [nth_error] in Hn.
      assert (Hw2 : w = p ++ firstn 1 w) by congruence.
      assert (Hfp : firstn 1 w = firstn 1 p) by (rewrite Hw2 at 1; apply firstn1_app; exact Hp).
      rewrite <- Hfp, <- Hw2, <- Ht. reflexivity.
Qed.

Lemma in_table_single t c : in_table t [c] = true.
Proof. reflexivity. Qed.

Lemma snoc_nonempty {A} (w : list A) c : w ++ [c] <> [].
Proof. destruct w; discriminate. Qed.

(* ------------------------------------------------------------------------------------------------ *)
(* codes: the decoder inverts the encoder                                                           *)
(* ------------------------------------------------------------------------------------------------ *)
Theorem dec_enc limit : limit <= TABLE_MAX -> forall data t w td prev,
  w <> [] -> in_table t w = true -> sync limit t w td prev ->
  dec td prev (enc limit t w data) = Some (w ++ data).
Proof.
  intro Hl. induction data as [|c data IH]; intros t w td prev Hw Hin Hs.
  - cbn [enc]. rewrite (dec_step limit) by assumption.
    cbn [dec]. change (EOD =? EOD) with true. cbn [option_map]. reflexivity.
  - cbn [enc]. cbv zeta. destruct (in_table t (w ++ [c])) eqn:Hwc.
    + rewrite IH; [rewrite <- app_assoc; reflexivity | apply snoc_nonempty | exact Hwc |].
      destruct Hs as [Hs | [p [Hp [Hprev [Ht Hsz]]]]]; [left; exact Hs | right].
      exists p. rewrite firstn1_app by exact Hw. auto.
    + rewrite (dec_step limit) by assumption.
      destruct (limit <=? FIRST + N.of_nat (length (t ++ [w ++ [c]]))) eqn:Hfull.
      * cbn [dec]. change (CLEAR =? EOD) with false. change (CLEAR =? CLEAR) with true. cbv iota.
        rewrite IH; [reflexivity | discriminate | reflexivity | left; auto].
      * rewrite IH; [reflexivity | discriminate | reflexivity |].
        right. exists w. apply N.leb_gt in Hfull. auto.
Qed.

(* ------------------------------------------------------------------------------------------------ *)
(* the codes fit their widths                                                                       *)
(* ------------------------------------------------------------------------------------------------ *)
Lemma width_holds ec k : FIRST + k <= TABLE_MAX -> FIRST + k <= 2 ^ N.of_nat (width ec k).
Proof.
  unfold width, FIRST, TABLE_MAX. intro H. cbv zeta.
  destruct (257 + k + (if ec then 1 else 0) <? 512) eqn:E1; [apply N.ltb_lt in E1; change (2 ^ N.of_nat 9) with 512; destruct ec; lia|].
  destruct (257 + k + (if ec then 1 else 0) <? 1024) eqn:E2; [apply N.ltb_lt in E2; change (2 ^ N.of_nat 10) with 1024; destruct ec; lia|].
  destruct (257 + k + (if ec then 1 else 0) <? 2048) eqn:E3; [apply N.ltb_lt in E3; change (2 ^ N.of_nat 11) with 2048; destruct ec; lia|].
  change (2 ^ N.of_nat 12) with 4096. lia.
Qed.

Lemma enc_fits ec limit : limit <= TABLE_MAX -> forall data t w,
  w <> [] -> in_table t w = true -> (t = [] \/ FIRST + N.of_nat (length t) < limit) ->
  fits ec (N.of_nat (length t)) (enc limit t w data).
Proof.
  intro Hl.
  assert (Hcode : forall t w, w <> [] -> in_table t w = true -> (t = [] \/ FIRST + N.of_nat (length t) < limit) ->
                  code_of t w < 2 ^ N.of_nat (width ec (N.of_nat (length t))) /\ (code_of t w =? CLEAR) = false).
  { intros t w Hw Hin Hsz. destruct (code_of_range t w Hw Hin) as [_ [N2 Hlt]].
    split; [|apply N.eqb_neq; exact N2].
    eapply N.lt_le_trans; [exact Hlt|]. apply width_holds.
    destruct Hsz as [-> | Hsz]; [cbn; unfold FIRST, TABLE_MAX; lia | lia]. }
  induction data as [|c data IH]; intros t w Hw Hin Hsz.
  - cbn [enc fits]. destruct (Hcode t w Hw Hin Hsz) as [H1 H2]. rewrite H2.
    split; [exact H1|]. split; [|exact I].
    pose proof (width_ge9 ec (N.of_nat (length t) + 1)). unfold EOD. lia.
  - cbn [enc]. cbv zeta. destruct (in_table t (w ++ [c])) eqn:Hwc.
    + apply IH; [apply snoc_nonempty | exact Hwc | exact Hsz].
    + destruct (Hcode t w Hw Hin Hsz) as [H1 H2].
      assert (Hk : N.of_nat (length t) + 1 = N.of_nat (length (t ++ [w ++ [c]]))) by (rewrite app_length; cbn [length]; lia).
      destruct (limit <=? FIRST + N.of_nat (length (t ++ [w ++ [c]]))) eqn:Hfull.
      * cbn [fits]. rewrite H2. split; [exact H1|].
        change (CLEAR =? CLEAR) with true. cbv iota. split.
        { pose proof (width_ge9 ec (N.of_nat (length t) + 1)). unfold CLEAR. lia. }
        apply (IH [] [c]); [discriminate | reflexivity | left; reflexivity].
      * cbn [fits]. rewrite H2. split; [exact H1|]. rewrite Hk.
        apply IH; [discriminate | reflexivity | right; apply N.leb_gt in Hfull; exact Hfull].
Qed.

Lemma enc_has_eod limit : forall data t w, In EOD (enc limit t w data).
Proof.
  induction data as [|c data IH]; intros t w; cbn [enc]; cbv zeta.
  - right. left. reflexivity.
  - destruct (in_table t (w ++ [c])); [apply IH|].
    right. destruct (limit <=? _); [right|]; apply IH.
Qed.

(* ------------------------------------------------------------------------------------------------ *)
(* the codec                                                                                        *)
(* ------------------------------------------------------------------------------------------------ *)
Theorem lzw_codes_fit ec limit data : limit <= TABLE_MAX -> fits ec 0 (lzw_codes limit data).
Proof.
  intro Hl. unfold lzw_codes. cbn [fits]. change (CLEAR =? CLEAR) with true. cbv iota.
  split; [pose proof (width_ge9 ec 0); unfold CLEAR; lia|].
  destruct data as [|c data].
  - cbn [fits]. split; [pose proof (width_ge9 ec 0); unfold EOD; lia | exact I].
  - apply (enc_fits ec limit Hl data [] [c]); [discriminate | reflexivity | left; reflexivity].
Qed.

Theorem dec_lzw_codes limit data : limit <= TABLE_MAX -> dec [] None (lzw_codes limit data) = Some data.
Proof.
  intro Hl. unfold lzw_codes. cbn [dec]. change (CLEAR =? EOD) with false. change (CLEAR =? CLEAR) with true. cbv iota.
  destruct data as [|c data].
  - reflexivity.
  - apply (dec_enc limit Hl data [] [c] [] None); [discriminate | reflexivity | left; auto].
Qed.

Theorem lzw_decode_encode_lim limit ec data : limit <= TABLE_MAX ->
  lzw_decode ec (lzw_encode_lim limit ec data) = Some data.
Proof.
  intro Hl. unfold lzw_decode, lzw_encode_lim.
  destruct (bits_bytes_bits (pack ec 0 (lzw_codes limit data))) as [pad ->].
  rewrite unpack_pack.
  - rewrite dec_cut. apply dec_lzw_codes. exact Hl.
  - apply lzw_codes_fit. exact Hl.
  - unfold lzw_codes. right. destruct data; [left; reflexivity | apply enc_has_eod].
Qed.

Theorem lzw_decode_encode ec data : lzw_decode ec (lzw_encode ec data) = Some data.
Proof. apply lzw_decode_encode_lim. apply N.le_refl. Qed.
