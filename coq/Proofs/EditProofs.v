(* EditProofs.v -- C11, part 1: allocation invariant, frames of the allocation operations,
   prune_objects removes exactly the unreachable objects. *)
From LV Require Import Base.Bytes Model.Obj Model.DocQ Model.PageTree Model.Traverse Model.Edit
  Model.StreamFilt Model.Writer Model.Renumber
  Spec.RenumberSpec Proofs.RenumberProofsMap Proofs.RenumberProofs Proofs.RenumberProofsTrav
  Proofs.RenumberProofsDense Proofs.RenumberProofsTop Proofs.RenumberProofsMain.

(* ---------- well-formedness of the state: BTreeMap keys sorted; allocation cursor ---------- *)
Definition alloc_ok (d : doc) : Prop :=
  forall id, has_obj (d_objects d) id -> (fst id <= d_max_id d)%N.

Definition doc_wf (d : doc) : Prop := sorted_keys (d_objects d).

(* ---------- keys are preserved by the traversals ---------- *)
Lemma act_loop_keys act : forall fuel m refs index m' refs',
  act_loop act fuel m refs index = Some (m', refs') -> map fst m' = map fst m.
Proof.
  induction fuel as [|k IH]; intros m refs index m' refs' H; cbn [act_loop] in H; [discriminate|].
  destruct (nth_error refs index) as [id|]; [|inversion H; reflexivity].
  destruct (lookup m id) as [o|].
  - apply IH in H. rewrite H. apply keys_update.
  - apply IH in H. exact H.
Qed.

Lemma trav_loop_keys f : forall fuel m refs index m' refs',
  trav_loop f fuel m refs index = Some (m', refs') -> map fst m' = map fst m.
Proof.
  induction fuel as [|k IH]; intros m refs index m' refs' H; cbn [trav_loop] in H; [discriminate|].
  destruct (nth_error refs index) as [id|]; [|inversion H; reflexivity].
  destruct (lookup m id) as [o|].
  - destruct (trav_obj f o refs) as [o' r']. apply IH in H. rewrite H. apply keys_update.
  - apply IH in H. exact H.
Qed.

Lemma sorted_update m id o : sorted_keys m -> sorted_keys (update m id o).
Proof. unfold sorted_keys. rewrite keys_update. auto. Qed.

Lemma keys_fold_remove ids : forall m x, In x (map fst (fold_left remove ids m)) -> In x (map fst m).
Proof.
  induction ids as [|i ids IH]; intros m x H; cbn [fold_left] in H; [exact H|].
  apply IH in H. eapply keys_remove_incl; exact H.
Qed.

Lemma sorted_fold_remove ids : forall m, sorted_keys m -> sorted_keys (fold_left remove ids m).
Proof.
  induction ids as [|i ids IH]; intros m H; cbn [fold_left]; [exact H|]. apply IH. apply sorted_remove. exact H.
Qed.

Lemma lookup_fold_remove ids : forall m x, sorted_keys m ->
  lookup (fold_left remove ids m) x = if mem_oid x ids then None else lookup m x.
Proof.
  induction ids as [|i ids IH]; intros m x S; cbn [fold_left]; [reflexivity|].
  rewrite IH by (apply sorted_remove; exact S). rewrite lookup_remove by exact S.
  unfold mem_oid. cbn [existsb]. fold (mem_oid x ids). rewrite (oid_eqb_sym x i).
  destruct (mem_oid x ids), (oid_eqb i x); reflexivity.
Qed.

(* ---------- remove_annot_loop keeps keys ---------- *)
Lemma remove_annot_loop_keys target : forall pages m m' ok,
  remove_annot_loop target pages m = (m', ok) -> map fst m' = map fst m.
Proof.
  induction pages as [|p ps IH]; intros m m' ok H; cbn [remove_annot_loop] in H.
  - inversion H; reflexivity.
  - destruct (get_object_mut_id m p) as [t|]; [|inversion H; reflexivity].
    destruct (lookup m t) as [[| | | | | | |pd| |]|]; try (inversion H; reflexivity).
    destruct (dict_get pd K_Annots) as [[| | | | | |l| | |]|]; try (inversion H; reflexivity).
    apply IH in H. rewrite H. apply keys_update.
Qed.

(* ---------- per-operation facts ---------- *)
Lemma new_object_id_spec d d' id :
  new_object_id d = Some (d', id) ->
  id = ((d_max_id d + 1)%N, 0%N) /\ d_max_id d' = (d_max_id d + 1)%N /\
  d_objects d' = d_objects d /\ d_trailer d' = d_trailer d /\ (d_max_id d < U32_MAX)%N.
Proof.
  unfold new_object_id. destruct (d_max_id d <? U32_MAX)%N eqn:E; [|discriminate].
  intro H; inversion H; subst. apply N.ltb_lt in E. cbn. auto.
Qed.

Lemma add_object_spec d o d' id :
  add_object d o = Some (d', id) ->
  id = ((d_max_id d + 1)%N, 0%N) /\ d_max_id d' = (d_max_id d + 1)%N /\
  d_objects d' = insert (d_objects d) id o /\ d_trailer d' = d_trailer d.
Proof.
  unfold add_object. destruct (new_object_id d) as [[d1 i]|] eqn:E; [|discriminate].
  intro H; inversion H; subst. apply new_object_id_spec in E. destruct E as [-> [E1 [E2 [E3 _]]]].
  cbn. rewrite E2. auto.
Qed.

Lemma delete_object_keys d id d' r :
  delete_object d id = Some (d', r) ->
  (forall x, has_obj (d_objects d') x -> has_obj (d_objects d) x) /\ d_max_id d' = d_max_id d /\
  (doc_wf d -> doc_wf d').
Proof.
  unfold delete_object, act_traverse.
  destruct (act_loop _ _ _ _ _) as [[m' refs]|] eqn:E; [|discriminate].
  intro H; inversion H; subst. cbn. apply act_loop_keys in E. split; [|split; [reflexivity|]].
  - intros x Hx. unfold has_obj in *. apply keys_remove_incl in Hx. rewrite E in Hx. exact Hx.
  - unfold doc_wf. cbn. intro S. apply sorted_remove. unfold sorted_keys. rewrite E. exact S.
Qed.

Lemma prune_objects_keys d d' ids :
  prune_objects d = Some (d', ids) ->
  (forall x, has_obj (d_objects d') x -> has_obj (d_objects d) x) /\ d_max_id d' = d_max_id d /\
  (doc_wf d -> doc_wf d').
Proof.
  unfold prune_objects, traverse_objects.
  destruct (trav_dict _ _ _) as [tr' refs0].
  destruct (trav_loop _ _ _ _ _) as [[m' refs]|] eqn:E; [|discriminate].
  intro H; inversion H; subst. cbn. apply trav_loop_keys in E. split; [|split; [reflexivity|]].
  - intros x Hx. unfold has_obj in *. apply keys_fold_remove in Hx. rewrite E in Hx. exact Hx.
  - unfold doc_wf. cbn. intro S. apply sorted_fold_remove. unfold sorted_keys. rewrite E. exact S.
Qed.

Lemma remove_annot_keys d t d' ok :
  remove_annot d t = (d', ok) ->
  map fst (d_objects d') = map fst (d_objects d) /\ d_max_id d' = d_max_id d /\ d_trailer d' = d_trailer d.
Proof.
  unfold remove_annot. destruct (remove_annot_loop _ _ _) as [m b] eqn:E.
  intro H; inversion H; subst. cbn. apply remove_annot_loop_keys in E. auto.
Qed.

(* ---------- key extension: what one step may do to the key set and the cursor ---------- *)
Definition kx (d d' : doc) : Prop :=
  (forall x, has_obj (d_objects d') x -> has_obj (d_objects d) x \/ (fst x <= d_max_id d')%N) /\
  (d_max_id d <= d_max_id d')%N /\
  (doc_wf d -> doc_wf d').

Lemma kx_refl d : kx d d.
Proof. split; [auto|]. split; [lia | auto]. Qed.

Lemma kx_trans d1 d2 d3 : kx d1 d2 -> kx d2 d3 -> kx d1 d3.
Proof.
  intros [A1 [B1 C1]] [A2 [B2 C2]]. split; [|split; [lia | auto]].
  intros x Hx. apply A2 in Hx. destruct Hx as [Hx|Hx]; [|right; lia].
  apply A1 in Hx. destruct Hx as [Hx|Hx]; [left; exact Hx | right; lia].
Qed.

Lemma kx_same_keys d d' :
  map fst (d_objects d') = map fst (d_objects d) -> d_max_id d' = d_max_id d -> kx d d'.
Proof.
  intros K M. split; [|split].
  - intros x Hx. left. unfold has_obj in *. rewrite K in Hx. exact Hx.
  - lia.
  - unfold doc_wf, sorted_keys. rewrite K. auto.
Qed.

Lemma kx_with_objs d m : map fst m = map fst (d_objects d) -> kx d (with_objs d m).
Proof. intro K. apply kx_same_keys; [exact K | reflexivity]. Qed.

Lemma kx_add_object d o d' id : add_object d o = Some (d', id) -> kx d d'.
Proof.
  intro E. apply add_object_spec in E. destruct E as [Ei [E1 [E2 _]]]. split; [|split].
  - intros x Hx. rewrite E2 in Hx. unfold has_obj in Hx. apply keys_insert in Hx. destruct Hx as [->|Hx]; [|left; exact Hx].
    right. rewrite Ei, E1. cbn [fst]. lia.
  - lia.
  - unfold doc_wf. rewrite E2. apply sorted_insert.
Qed.

Lemma kx_delete_object d id d' r : delete_object d id = Some (d', r) -> kx d d'.
Proof.
  intro E. apply delete_object_keys in E. destruct E as [K [M W]]. split; [|split; [lia | exact W]].
  intros x Hx. left. apply K. exact Hx.
Qed.

Lemma count_loop_keys : forall fuel m r m' lr, count_loop fuel m r = (m', lr) -> map fst m' = map fst m.
Proof.
  induction fuel as [|k IH]; intros m r m' lr H; cbn [count_loop] in H.
  - destruct r; inversion H; reflexivity.
  - destruct r as [id|]; [|inversion H; reflexivity].
    destruct (lookup m id) as [[| | | | | | |pt| |]|]; try (inversion H; reflexivity).
    destruct (read_count m pt) as [c|]; [|apply IH in H; exact H].
    destruct (c =? I64_MIN)%Z; [inversion H; reflexivity|].
    apply IH in H. rewrite H. apply keys_update.
Qed.

Lemma kx_delete_pages_loop pages : forall nums d d' lr, delete_pages_loop pages nums d = (d', lr) -> kx d d'.
Proof.
  induction nums as [|n ns IH]; intros d d' lr H; cbn [delete_pages_loop] in H.
  - inversion H; subst. apply kx_refl.
  - destruct (assoc_N pages n) as [pid|]; [|apply IH in H; exact H].
    destruct (delete_object d pid) as [[d1 [page|]]|] eqn:E.
    + destruct (count_loop _ _ _) as [m2 r2] eqn:Ec. apply count_loop_keys in Ec.
      apply kx_delete_object in E.
      assert (K2 : kx d (with_objs d1 m2)).
      { eapply kx_trans; [exact E|]. apply kx_with_objs. exact Ec. }
      destruct r2; try (inversion H; subst; exact K2).
      apply IH in H. eapply kx_trans; eassumption.
    + apply kx_delete_object in E. apply IH in H. eapply kx_trans; eassumption.
    + inversion H; subst. apply kx_refl.
Qed.

Lemma doc_compress_keys df nc m : map fst (StreamFilt.doc_compress df nc m) = map fst m.
Proof.
  unfold StreamFilt.doc_compress. rewrite map_map. apply map_ext. intros [i o]. cbn [fst snd].
  destruct o; try reflexivity. destruct (existsb _ nc); reflexivity.
Qed.

Lemma decompress_objs_keys O : forall m m' ok, decompress_objs O m = (m', ok) -> map fst m' = map fst m.
Proof.
  induction m as [|io m IH]; intros m' ok H; cbn [decompress_objs] in H; [inversion H; reflexivity|].
  destruct (decompress_objs O m) as [r b] eqn:E. specialize (IH r b eq_refl).
  destruct (snd io) as [| | | | | | | |sd c|] eqn:Eo; try (inversion H; subst; cbn [map]; congruence).
  destruct (StreamFilt.decompress _ _ _) as [s|e| |]; inversion H; subst; cbn [map fst]; congruence.
Qed.

Lemma kx_change_content_stream O d id c : kx d (change_content_stream O d id c).
Proof.
  unfold change_content_stream. destruct (lookup (d_objects d) id) as [[| | | | | | | |sd c0|]|]; try apply kx_refl.
  apply kx_with_objs. apply keys_update.
Qed.

Lemma set_page_entry_keys m page k v m' : set_page_entry m page k v = Some m' -> map fst m' = map fst m.
Proof.
  unfold set_page_entry. destruct (get_object_mut_id m page) as [t|]; [|discriminate].
  destruct (lookup m t) as [[| | | | | | |td| |]|]; try discriminate.
  intro H; inversion H; subst. apply keys_update.
Qed.

Lemma kx_add_page_contents d page c d' r : add_page_contents d page c = (d', r) -> kx d d'.
Proof.
  unfold add_page_contents. destruct (get_dictionary (d_objects d) page) as [pd|]; [|intro H; inversion H; apply kx_refl].
  destruct (add_object d (new_stream c)) as [[d1 nid]|] eqn:E; [|intro H; inversion H; apply kx_refl].
  apply kx_add_object in E.
  destruct (set_page_entry _ _ _ _) as [m2|] eqn:Es; intro H; inversion H; subst; [|exact E].
  eapply kx_trans; [exact E|]. apply kx_with_objs. eapply set_page_entry_keys; exact Es.
Qed.

Lemma kx_replace_page_content d page c d' r : replace_page_content d page c = (d', r) -> kx d d'.
Proof.
  unfold replace_page_content.
  destruct (add_object d (new_stream c)) as [[d1 nid]|] eqn:E; [|intro H; inversion H; apply kx_refl].
  apply kx_add_object in E.
  destruct (set_page_entry _ _ _ _) as [m2|] eqn:Es; intro H; inversion H; subst; [|exact E].
  eapply kx_trans; [exact E|]. apply kx_with_objs. eapply set_page_entry_keys; exact Es.
Qed.

Lemma kx_change_page_content O d page c d' r : change_page_content O d page c = (d', r) -> kx d d'.
Proof.
  unfold change_page_content. destruct (get_dictionary (d_objects d) page) as [pd|]; [|intro H; inversion H; apply kx_refl].
  destruct (dict_get pd K_Contents) as [x|]; [|intro H; inversion H; apply kx_refl].
  destruct (single_stream (d_objects d) x) as [id|]; [|apply kx_replace_page_content].
  destruct (is_content_stream_of_another_page d id page); [apply kx_replace_page_content|].
  intro H; inversion H; subst. apply kx_change_content_stream.
Qed.

Lemma loc_set_keys m l o : map fst (loc_set m l o) = map fst m.
Proof.
  destruct l as [t|t]; cbn [loc_set]; [apply keys_update|].
  destruct (lookup m t) as [[| | | | | | |td| |]|]; try reflexivity. apply keys_update.
Qed.

Lemma kx_gocr d page d' loc : get_or_create_resources d page = (d', loc) -> kx d d'.
Proof.
  unfold get_or_create_resources. destruct (get_object (d_objects d) page) as [[| | | | | | |pd| |]|];
    try (intro H; inversion H; apply kx_refl).
  destruct (if dict_has pd K_Resources then as_ref (dict_get pd K_Resources) else None); [intro H; inversion H; apply kx_refl|].
  destruct (get_object_mut_id (d_objects d) page) as [t|]; [|intro H; inversion H; apply kx_refl].
  destruct (lookup (d_objects d) t) as [[| | | | | | |td| |]|]; try (intro H; inversion H; apply kx_refl).
  intro H; inversion H; subst. apply kx_with_objs. apply keys_update.
Qed.

Lemma kx_add_resource follow key d page nm x d' r : add_resource follow key d page nm x = (d', r) -> kx d d'.
Proof.
  unfold add_resource. destruct (get_or_create_resources d page) as [d1 loc] eqn:E. apply kx_gocr in E.
  destruct loc as [loc|]; [|intro H; inversion H; subst; exact E].
  destruct (loc_get (d_objects d1) loc) as [[| | | | | | |rd| |]|]; try (intro H; inversion H; subst; exact E).
  set (rd1 := if dict_has rd key then rd else dict_set rd key (ODict [])).
  assert (K2 : kx d (with_objs d1 (loc_set (d_objects d1) loc (ODict rd1)))).
  { eapply kx_trans; [exact E|]. apply kx_with_objs. apply loc_set_keys. }
  destruct (dict_get rd1 key) as [[| | | | | | |xd| |i g]|]; try (intro H; inversion H; subst; exact K2).
  - intro H; inversion H; subst. eapply kx_trans; [exact E|]. apply kx_with_objs. rewrite !loc_set_keys. reflexivity.
  - destruct follow; [|intro H; inversion H; subst; exact K2].
    destruct (get_object _ (i, g)); [|intro H; inversion H; subst; exact K2].
    destruct (get_object_mut_id _ (i, g)) as [t|]; [|intro H; inversion H; subst; exact K2].
    destruct (lookup _ t) as [[| | | | | | |xd| |]|]; try (intro H; inversion H; subst; exact K2).
    intro H; inversion H; subst. eapply kx_trans; [exact E|]. apply kx_with_objs. rewrite keys_update, loc_set_keys. reflexivity.
Qed.

Lemma top_number_ge m : forall id, has_obj m id -> (fst id <= top_number m)%N.
Proof.
  unfold has_obj, top_number. induction m as [|[i o] m IH]; cbn [map fst fold_right In]; [tauto|].
  intros id [<-|H]; [lia|]. specialize (IH id H). lia.
Qed.

(* since /repo 19ab1a6 every save re-establishes the allocation invariant, whatever the document was *)
Lemma raise_max_alloc d : alloc_ok (raise_max d).
Proof. intros id H. cbn in *. apply top_number_ge in H. lia. Qed.

Lemma save_effect_shape stream d :
  d_objects (fst (save_effect stream d)) = d_objects d /\
  (d_max_id (raise_max d) <= d_max_id (fst (save_effect stream d)))%N.
Proof.
  unfold save_effect. destruct (U32_MAX <=? d_max_id (raise_max d))%N; [cbn [fst]; split; [reflexivity | lia]|].
  destruct (negb _); [cbn [fst]; split; [reflexivity | lia]|].
  destruct stream; [destruct (U32_MAX <=? d_max_id (raise_max d) + 1)%N|];
    unfold SaveState.mutate, SaveState.mutate_stream, SaveState.mutate_table, with_state, state_of;
    cbn [d_max_id d_objects SaveState.s_max_id fst]; (split; [reflexivity | lia]).
Qed.

Theorem save_alloc stream d : alloc_ok (fst (save_effect stream d)).
Proof.
  destruct (save_effect_shape stream d) as [E M]. intros id H. rewrite E in H.
  pose proof (raise_max_alloc d id H) as G. lia.
Qed.

Lemma kx_save stream d : kx d (fst (save_effect stream d)).
Proof.
  destruct (save_effect_shape stream d) as [E M]. split; [|split].
  - intros x Hx. left. rewrite E in Hx. exact Hx.
  - cbn in M. lia.
  - unfold doc_wf. rewrite E. auto.
Qed.

Theorem frame_save stream d : let d' := fst (save_effect stream d) in
  d_objects d' = d_objects d /\ (d_max_id d <= d_max_id d')%N /\ alloc_ok d'.
Proof.
  cbn zeta. destruct (save_effect_shape stream d) as [E M]. split; [exact E|]. split; [cbn in M; lia | apply save_alloc].
Qed.

(* ---------- renumbering: Model/Renumber.v, facts from the C10 development ---------- *)
Definition rdoc_of (d : doc) : rdoc := {| base := d; max_bookmark_id := 0; bookmarks := []; bm_table := [] |}.

(* the domain of renumbering: fewer than 2^32 objects (C10's renumber_dense_all needs nothing else since the
   dangling-in-range finding was repaired in /repo e5c19fd) *)
Definition renumber_dom (d : doc) : Prop := fits 1 (rdoc_of d).

Lemma nums_from_bound : forall n s x, In x (nums_from s n) -> (s <= x < s + N.of_nat n)%N.
Proof.
  induction n as [|n IH]; intros s x H; cbn [nums_from] in H; [destruct H|].
  destruct H as [<-|H]; [lia|]. apply IH in H. lia.
Qed.

Lemma renumber_spec d : doc_wf d -> renumber_dom d ->
  exists d', renumber d = (d', OUnit) /\ doc_wf d' /\ alloc_ok d'.
Proof.
  intros W F. destruct (renumber_dense_all 1 (rdoc_of d) W F) as [rd [E [L [Nm [_ [S [_ [Mx M0]]]]]]]].
  exists (base rd). assert (Er : renumber_objects (rdoc_of d) = Done rd) by exact E.
  unfold renumber. unfold rdoc_of in Er. rewrite Er. split; [reflexivity|]. split; [exact S|].
  intros x Hx. unfold has_obj in Hx. apply (in_map fst) in Hx. rewrite Nm in Hx. apply nums_from_bound in Hx.
  cbn [base rdoc_of] in *.
  destruct (d_objects d) as [|io m] eqn:Em.
  - cbn in Hx. lia.
  - rewrite Mx by discriminate. lia.
Qed.

(* the domain reading of "replace": set_object targets an id that exists or was handed out;
   renumbering inside C10's proved domain *)
Definition op_dom (d : doc) (o : op) : Prop :=
  match o with
  | SetObject id _ => (fst id <= d_max_id d)%N
  | RenumberObjects => renumber_dom d
  | _ => True
  end.

Fixpoint prog_dom (O : oracles) (d : doc) (ops : list op) : Prop :=
  match ops with
  | [] => True
  | o :: r => op_dom d o /\ prog_dom O (fst (step O d o)) r
  end.

Definition is_renumber (o : op) : bool := match o with RenumberObjects => true | _ => false end.

(* ---------- one step ---------- *)
Lemma step_kx O d o : is_renumber o = false -> op_dom d o -> kx d (fst (step O d o)).
Proof.
  intros NR Dm. destruct o; cbn [step]; try discriminate.
  - destruct (new_object_id d) as [[d' i]|] eqn:E; cbn [fst]; [|apply kx_refl].
    apply new_object_id_spec in E. destruct E as [_ [E1 [E2 _]]]. split; [|split].
    + intros x Hx. left. rewrite E2 in Hx. exact Hx.
    + lia.
    + unfold doc_wf. rewrite E2. auto.
  - destruct (add_object d o) as [[d' i]|] eqn:E; cbn [fst]; [|apply kx_refl]. eapply kx_add_object; exact E.
  - cbn [fst]. split; [|split].
    + intros x Hx. unfold set_object in Hx. cbn in Hx. unfold has_obj in Hx. apply keys_insert in Hx.
      destruct Hx as [->|Hx]; [right; cbn; exact Dm | left; exact Hx].
    + cbn. lia.
    + unfold doc_wf, set_object. cbn. apply sorted_insert.
  - destruct (delete_object d id) as [[d' r]|] eqn:E; cbn [fst]; [|apply kx_refl]. eapply kx_delete_object; exact E.
  - destruct (remove_annot d id) as [d' ok] eqn:E. cbn [fst]. apply remove_annot_keys in E.
    apply kx_same_keys; tauto.
  - destruct (prune_objects d) as [[d' r]|] eqn:E; cbn [fst]; [|apply kx_refl].
    apply prune_objects_keys in E. destruct E as [K [M W]]. split; [|split; [lia | exact W]].
    intros x Hx. left. apply K. exact Hx.
  - destruct (delete_pages d nums) as [d' r] eqn:E. cbn [fst]. unfold delete_pages in E.
    eapply kx_delete_pages_loop; exact E.
  - cbn [fst]. unfold compress_all. apply kx_with_objs. apply doc_compress_keys.
  - destruct (decompress_objs O (d_objects d)) as [m ok] eqn:E. cbn [fst]. apply kx_with_objs.
    eapply decompress_objs_keys; exact E.
  - cbn [fst]. apply kx_change_content_stream.
  - destruct (change_page_content O d page c) as [d' r] eqn:E. cbn [fst]. eapply kx_change_page_content; exact E.
  - destruct (add_page_contents d page c) as [d' r] eqn:E. cbn [fst]. eapply kx_add_page_contents; exact E.
  - unfold add_to_page_content. destruct (add_page_contents d page (Writer.encode_content ops)) as [d' r] eqn:E.
    cbn [fst]. eapply kx_add_page_contents; exact E.
  - destruct (get_or_create_resources d page) as [d' loc] eqn:E. cbn [fst]. eapply kx_gocr; exact E.
  - unfold add_xobject. destruct (add_resource true K_XObject d page name x) as [d' r] eqn:E. cbn [fst].
    eapply kx_add_resource; exact E.
  - unfold add_graphics_state. destruct (add_resource false K_ExtGState d page name g) as [d' r] eqn:E. cbn [fst].
    eapply kx_add_resource; exact E.
  - cbn [fst]. apply kx_refl.
  - apply kx_save.
Qed.

Lemma step_wf O d o : doc_wf d -> op_dom d o -> doc_wf (fst (step O d o)).
Proof.
  intros W Dm. destruct (is_renumber o) eqn:R.
  - destruct o; try discriminate. cbn [step]. cbn [op_dom] in Dm.
    destruct (renumber_spec d W Dm) as [d' [E [W' _]]]. rewrite E. exact W'.
  - apply (step_kx O d o R Dm). exact W.
Qed.

Lemma step_alloc O d o : doc_wf d -> alloc_ok d -> op_dom d o -> alloc_ok (fst (step O d o)).
Proof.
  intros W A Dm. destruct (is_renumber o) eqn:R.
  - destruct o; try discriminate. cbn [step]. cbn [op_dom] in Dm.
    destruct (renumber_spec d W Dm) as [d' [E [_ A']]]. rewrite E. exact A'.
  - destruct (step_kx O d o R Dm) as [K [M _]]. intros x Hx. apply K in Hx. destruct Hx as [Hx|Hx]; [|exact Hx].
    apply A in Hx. lia.
Qed.

(* ---------- the invariants over every program ---------- *)
Theorem run_ops_inv O : forall ops d,
  doc_wf d -> alloc_ok d -> prog_dom O d ops ->
  doc_wf (run_ops O d ops) /\ alloc_ok (run_ops O d ops).
Proof.
  unfold run_ops. induction ops as [|o ops IH]; intros d W A P; cbn [fold_left]; [auto|].
  destruct P as [P1 P2]. apply IH; [apply step_wf | apply step_alloc | exact P2]; assumption.
Qed.

Theorem I_alloc_inv O ops d :
  doc_wf d -> alloc_ok d -> prog_dom O d ops -> alloc_ok (run_ops O d ops).
Proof. intros W A P. apply (run_ops_inv O ops d W A P). Qed.

(* only new_object_id and add_object hand out ids *)
Ltac crush_out H :=
  repeat match type of H with
         | context [match ?x with _ => _ end] => destruct x
         | context [if ?x then _ else _] => destruct x
         end; try discriminate; try (inversion H; fail).

Lemma step_out_id O d o d' id :
  step O d o = (d', OId id) -> o = NewObjectId \/ exists x, o = AddObject x.
Proof.
  intro H. destruct o; [left; reflexivity | right; eexists; reflexivity | | | | | | | | | | | | | | | | | ]; exfalso;
    cbn [step] in H.
  - inversion H.
  - destruct (delete_object d id0) as [[d1 r]|]; inversion H.
  - destruct (remove_annot d id0) as [d1 ok]. destruct ok; inversion H.
  - destruct (prune_objects d) as [[d1 r]|]; inversion H.
  - destruct (delete_pages d nums) as [d1 r]. destruct r; inversion H.
  - unfold renumber in H. destruct (renumber_objects _); inversion H.
  - inversion H.
  - destruct (decompress_objs O (d_objects d)) as [m ok]. destruct ok; inversion H.
  - inversion H.
  - unfold change_page_content, replace_page_content in H. crush_out H.
  - unfold add_page_contents in H. crush_out H.
  - unfold add_to_page_content, add_page_contents in H. crush_out H.
  - destruct (get_or_create_resources d page) as [d1 loc]. crush_out H.
  - unfold add_xobject, add_resource in H. destruct (get_or_create_resources d page) as [d1 loc]. crush_out H.
  - unfold add_graphics_state, add_resource in H. destruct (get_or_create_resources d page) as [d1 loc]. crush_out H.
  - crush_out H.
  - unfold save_effect in H. crush_out H.
Qed.

(* an id handed out is above the cursor, hence (under the invariant) names no existing object -- not
   even one with another generation number -- and the cursor moves to it *)
Theorem alloc_fresh O d o d' id :
  step O d o = (d', OId id) ->
  (d_max_id d < fst id)%N /\ d_max_id d' = fst id /\ snd id = 0%N /\
  (alloc_ok d -> forall k, has_obj (d_objects d) k -> fst k <> fst id).
Proof.
  intro H. assert (E : id = ((d_max_id d + 1)%N, 0%N) /\ d_max_id d' = (d_max_id d + 1)%N).
  { destruct (step_out_id _ _ _ _ _ H) as [->|[x ->]]; cbn [step] in H.
    - destruct (new_object_id d) as [[d1 i1]|] eqn:E; inversion H; subst. apply new_object_id_spec in E. tauto.
    - destruct (add_object d x) as [[d1 i1]|] eqn:E; inversion H; subst. apply add_object_spec in E. tauto. }
  destruct E as [-> E2]. cbn [fst snd]. repeat split; try lia.
  intros A k Hk. apply A in Hk. lia.
Qed.

(* the ids handed out by a program, in order *)
Fixpoint handed_out (O : oracles) (d : doc) (ops : list op) : list oid :=
  match ops with
  | [] => []
  | o :: r => match snd (step O d o) with
              | OId id => id :: handed_out O (fst (step O d o)) r
              | _ => handed_out O (fst (step O d o)) r
              end
  end.

(* between two renumberings the cursor never moves backwards *)
Fixpoint no_renumber (ops : list op) : Prop :=
  match ops with [] => True | o :: r => is_renumber o = false /\ no_renumber r end.

Lemma handed_out_above O : forall ops d id,
  no_renumber ops -> prog_dom O d ops -> In id (handed_out O d ops) -> (d_max_id d < fst id)%N.
Proof.
  induction ops as [|o ops IH]; intros d id NR P H; cbn [handed_out] in H; [destruct H|].
  destruct NR as [NR1 NR2]. destruct P as [P1 P2].
  destruct (step_kx O d o NR1 P1) as [_ [Hm _]].
  destruct (step O d o) as [d' r] eqn:E. cbn [fst snd] in *.
  assert (Hrest : In id (handed_out O d' ops) -> (d_max_id d < fst id)%N).
  { intro Hin. specialize (IH d' id NR2 P2 Hin). lia. }
  destruct r; try (apply Hrest; exact H).
  destruct H as [<-|H]; [|apply Hrest; exact H].
  apply alloc_fresh in E. lia.
Qed.

(* across any interleaving with the other operations, no id is handed out twice (renumbering
   compacts the numbers and restarts the cursor, so the statement is per renumbering-free stretch) *)
Theorem alloc_no_collision O : forall ops d,
  no_renumber ops -> prog_dom O d ops -> NoDup (map fst (handed_out O d ops)).
Proof.
  induction ops as [|o ops IH]; intros d NR P; cbn [handed_out]; [constructor|].
  destruct NR as [NR1 NR2]. destruct P as [P1 P2].
  destruct (step O d o) as [d' r] eqn:E. cbn [fst snd] in *.
  destruct r; try (apply IH; assumption).
  cbn [map]. constructor; [|apply IH; assumption].
  intro Hin. apply in_map_iff in Hin. destruct Hin as [y [Ey Hy]].
  apply handed_out_above in Hy; try assumption. apply alloc_fresh in E. lia.
Qed.

(* ---------- frames of the allocation operations ---------- *)
Theorem frame_new O d d' r : step O d NewObjectId = (d', r) ->
  d_objects d' = d_objects d /\ d_trailer d' = d_trailer d.
Proof.
  cbn [step]. destruct (new_object_id d) as [[d1 i]|] eqn:E; intro H; inversion H; subst; [|auto].
  apply new_object_id_spec in E. tauto.
Qed.

Theorem frame_add O d x d' id : step O d (AddObject x) = (d', OId id) ->
  d_trailer d' = d_trailer d /\ lookup (d_objects d') id = Some x /\
  forall y, y <> id -> lookup (d_objects d') y = lookup (d_objects d) y.
Proof.
  cbn [step]. destruct (add_object d x) as [[d1 i]|] eqn:E; intro H; inversion H; subst.
  apply add_object_spec in E. destruct E as [_ [_ [E2 E3]]]. rewrite E2. split; [exact E3|]. split.
  - rewrite lookup_insert, oid_eqb_refl. reflexivity.
  - intros y Hy. rewrite lookup_insert. replace (oid_eqb id y) with false; [reflexivity|].
    symmetry. apply oid_eqb_neq. congruence.
Qed.

Theorem frame_set O d id x : let d' := fst (step O d (SetObject id x)) in
  d_trailer d' = d_trailer d /\ d_max_id d' = d_max_id d /\ lookup (d_objects d') id = Some x /\
  forall y, y <> id -> lookup (d_objects d') y = lookup (d_objects d) y.
Proof.
  cbn. split; [reflexivity|]. split; [reflexivity|]. split.
  - rewrite lookup_insert, oid_eqb_refl. reflexivity.
  - intros y Hy. rewrite lookup_insert. replace (oid_eqb id y) with false; [reflexivity|].
    symmetry. apply oid_eqb_neq. congruence.
Qed.

(* ---------- prune_objects ---------- *)
Lemma rename_id o : rename (fun x => x) o = o.
Proof.
  induction o as [|b|z|r|n|s h|l Hl|d Hd|d c Hd|i g] using obj_ind'; try reflexivity; cbn [rename].
  - f_equal. induction Hl as [|x l Hx Hl IH]; cbn [map]; [reflexivity|]. rewrite Hx, IH. reflexivity.
  - f_equal. induction Hd as [|[k v] l Hx Hl IH]; cbn [map]; [reflexivity|]. cbn [fst snd] in *. rewrite Hx, IH. reflexivity.
  - f_equal. induction Hd as [|[k v] l Hx Hl IH]; cbn [map]; [reflexivity|]. cbn [fst snd] in *. rewrite Hx, IH. reflexivity.
Qed.

Lemma rename_dict_id d : rename_dict (fun x => x) d = d.
Proof.
  unfold rename_dict. induction d as [|[k v] d IH]; cbn [map]; [reflexivity|]. cbn [fst snd]. rewrite rename_id, IH. reflexivity.
Qed.

Lemma reachf_id tr m x : reachf (fun y => y) tr m x <-> reach tr m x.
Proof.
  split; induction 1.
  - apply reach_root; assumption.
  - eapply reach_step; eassumption.
  - apply (reachf_root (fun y => y)); assumption.
  - eapply (reachf_step (fun y => y)); eassumption.
Qed.

Theorem prune_total d : prune_objects d <> None.
Proof.
  unfold prune_objects.
  destruct (traverse_spec (fun x => x) (d_trailer d) (d_objects d) _ (le_n _)) as [m' [refs [E _]]].
  rewrite E. discriminate.
Qed.

(* exactly the objects that cannot be reached from the trailer go away; every other object, the
   trailer and the cursor stay as they are *)
Theorem I_prune d d' ids :
  doc_wf d -> prune_objects d = Some (d', ids) ->
  let tr := d_trailer d in let m := d_objects d in
  (forall id, In id ids <-> has_obj m id /\ ~ reach tr m id) /\
  (forall id, reach tr m id -> lookup (d_objects d') id = lookup m id) /\
  (forall id, ~ reach tr m id -> lookup (d_objects d') id = None) /\
  d_trailer d' = tr /\ d_max_id d' = d_max_id d.
Proof.
  intros S H tr m. unfold prune_objects in H. fold tr m in H.
  destruct (traverse_spec (fun x => x) tr m _ (le_n _)) as [m' [refs [E [ND [R [K [L1 L2]]]]]]].
  rewrite E in H. inversion H; subst d' ids; clear H. cbn [d_objects d_trailer d_max_id with_graph].
  assert (Lm : forall x, lookup m' x = lookup m x).
  { intro x. destruct (in_dec oid_eq_dec x refs) as [Hin|Hnin].
    - apply R in Hin. rewrite (L1 _ Hin). destruct (lookup m x); cbn; [rewrite rename_id|]; reflexivity.
    - apply L2. intro Hr. apply Hnin. apply R. exact Hr. }
  assert (S' : sorted_keys m') by (unfold sorted_keys; rewrite K; exact S).
  assert (Hids : forall id, In id (filter (fun id => negb (mem_oid id refs)) (map fst m')) <-> has_obj m id /\ ~ reach tr m id).
  { intro id. rewrite filter_In, K, negb_true_iff, mem_oid_nIn, R, reachf_id. reflexivity. }
  split; [exact Hids|]. split; [|split; [|split; [apply rename_dict_id | reflexivity]]].
  - intros id Hr. rewrite lookup_fold_remove by exact S'.
    replace (mem_oid id _) with false; [apply Lm|]. symmetry. apply mem_oid_nIn. rewrite Hids. tauto.
  - intros id Hr. rewrite lookup_fold_remove by exact S'.
    destruct (mem_oid id _) eqn:Em; [reflexivity|]. rewrite Lm.
    apply mem_oid_nIn in Em. rewrite Hids in Em. apply lookup_none. tauto.
Qed.
