(* EditProofs.v -- C11, part 1: allocation invariant, frames of the allocation operations,
   prune_objects removes exactly the unreachable objects. *)
From LV Require Import Base.Bytes Model.Obj Model.DocQ Model.PageTree Model.Traverse Model.Edit
  Spec.RenumberSpec Proofs.RenumberProofsMap Proofs.RenumberProofs Proofs.RenumberProofsTrav.

(* ---------- well-formedness of the state: BTreeMap keys sorted; allocation cursor ---------- *)
Definition alloc_ok (d : doc) : Prop :=
  forall id, has_obj (d_objects d) id -> (fst id <= d_max_id d)%N.

Definition doc_wf (d : doc) : Prop := sorted_keys (d_objects d).

(* the domain reading of "replace": set_object targets an id that exists or was handed out *)
Definition op_dom (d : doc) (o : op) : Prop :=
  match o with
  | SetObject id _ => (fst id <= d_max_id d)%N
  | _ => True
  end.

Fixpoint prog_dom (O : oracles) (d : doc) (ops : list op) : Prop :=
  match ops with
  | [] => True
  | o :: r => op_dom d o /\ prog_dom O (fst (step O d o)) r
  end.

(* ---------- keys are preserved by the traversals ---------- *)
Lemma act_loop_keys act : forall fuel m refs index m' refs',
  act_loop act fuel m refs index = Some (m', refs') -> map fst m' = map fst m.
Proof.
  induction fuel as [|k IH]; intros m refs index m' refs' H; cbn [act_loop] in H; [discriminate|].
  destruct (nth_error refs index) as [id|]; [|inversion H; reflexivity].
  destruct (lookup m id) as [o|].
  - apply IH in H. rewrite H. apply keys_update.
  - apply IH in H. exact H.
Qed.

Lemma trav_loop_keys f : forall fuel m refs index m' refs',
  trav_loop f fuel m refs index = Some (m', refs') -> map fst m' = map fst m.
Proof.
  induction fuel as [|k IH]; intros m refs index m' refs' H; cbn [trav_loop] in H; [discriminate|].
  destruct (nth_error refs index) as [id|]; [|inversion H; reflexivity].
  destruct (lookup m id) as [o|].
  - destruct (trav_obj f o refs) as [o' r']. apply IH in H. rewrite H. apply keys_update.
  - apply IH in H. exact H.
Qed.

Lemma sorted_update m id o : sorted_keys m -> sorted_keys (update m id o).
Proof. unfold sorted_keys. rewrite keys_update. auto. Qed.

Lemma keys_fold_remove ids : forall m x, In x (map fst (fold_left remove ids m)) -> In x (map fst m).
Proof.
  induction ids as [|i ids IH]; intros m x H; cbn [fold_left] in H; [exact H|].
  apply IH in H. eapply keys_remove_incl; exact H.
Qed.

Lemma sorted_fold_remove ids : forall m, sorted_keys m -> sorted_keys (fold_left remove ids m).
Proof.
  induction ids as [|i ids IH]; intros m H; cbn [fold_left]; [exact H|]. apply IH. apply sorted_remove. exact H.
Qed.

Lemma lookup_fold_remove ids : forall m x, sorted_keys m ->
  lookup (fold_left remove ids m) x = if mem_oid x ids then None else lookup m x.
Proof.
  induction ids as [|i ids IH]; intros m x S; cbn [fold_left]; [reflexivity|].
  rewrite IH by (apply sorted_remove; exact S). rewrite lookup_remove by exact S.
  unfold mem_oid. cbn [existsb]. fold (mem_oid x ids). rewrite (oid_eqb_sym x i).
  destruct (mem_oid x ids), (oid_eqb i x); reflexivity.
Qed.

(* ---------- remove_annot_loop keeps keys ---------- *)
Lemma remove_annot_loop_keys target : forall pages m m' ok,
  remove_annot_loop target pages m = (m', ok) -> map fst m' = map fst m.
Proof.
  induction pages as [|p ps IH]; intros m m' ok H; cbn [remove_annot_loop] in H.
  - inversion H; reflexivity.
  - destruct (get_object_mut_id m p) as [t|]; [|inversion H; reflexivity].
    destruct (lookup m t) as [[| | | | | | |pd| |]|]; try (inversion H; reflexivity).
    destruct (dict_get pd K_Annots) as [[| | | | | |l| | |]|]; try (inversion H; reflexivity).
    apply IH in H. rewrite H. apply keys_update.
Qed.

(* ---------- per-operation facts ---------- *)
Lemma new_object_id_spec d d' id :
  new_object_id d = Some (d', id) ->
  id = ((d_max_id d + 1)%N, 0%N) /\ d_max_id d' = (d_max_id d + 1)%N /\
  d_objects d' = d_objects d /\ d_trailer d' = d_trailer d /\ (d_max_id d < U32_MAX)%N.
Proof.
  unfold new_object_id. destruct (d_max_id d <? U32_MAX)%N eqn:E; [|discriminate].
  intro H; inversion H; subst. apply N.ltb_lt in E. cbn. auto.
Qed.

Lemma add_object_spec d o d' id :
  add_object d o = Some (d', id) ->
  id = ((d_max_id d + 1)%N, 0%N) /\ d_max_id d' = (d_max_id d + 1)%N /\
  d_objects d' = insert (d_objects d) id o /\ d_trailer d' = d_trailer d.
Proof.
  unfold add_object. destruct (new_object_id d) as [[d1 i]|] eqn:E; [|discriminate].
  intro H; inversion H; subst. apply new_object_id_spec in E. destruct E as [-> [E1 [E2 [E3 _]]]].
  cbn. rewrite E2. auto.
Qed.

Lemma delete_object_keys d id d' r :
  delete_object d id = Some (d', r) ->
  (forall x, has_obj (d_objects d') x -> has_obj (d_objects d) x) /\ d_max_id d' = d_max_id d /\
  (doc_wf d -> doc_wf d').
Proof.
  unfold delete_object, act_traverse.
  destruct (act_loop _ _ _ _ _) as [[m' refs]|] eqn:E; [|discriminate].
  intro H; inversion H; subst. cbn. apply act_loop_keys in E. split; [|split; [reflexivity|]].
  - intros x Hx. unfold has_obj in *. apply keys_remove_incl in Hx. rewrite E in Hx. exact Hx.
  - unfold doc_wf. cbn. intro S. apply sorted_remove. unfold sorted_keys. rewrite E. exact S.
Qed.

Lemma prune_objects_keys d d' ids :
  prune_objects d = Some (d', ids) ->
  (forall x, has_obj (d_objects d') x -> has_obj (d_objects d) x) /\ d_max_id d' = d_max_id d /\
  (doc_wf d -> doc_wf d').
Proof.
  unfold prune_objects, traverse_objects.
  destruct (trav_dict _ _ _) as [tr' refs0].
  destruct (trav_loop _ _ _ _ _) as [[m' refs]|] eqn:E; [|discriminate].
  intro H; inversion H; subst. cbn. apply trav_loop_keys in E. split; [|split; [reflexivity|]].
  - intros x Hx. unfold has_obj in *. apply keys_fold_remove in Hx. rewrite E in Hx. exact Hx.
  - unfold doc_wf. cbn. intro S. apply sorted_fold_remove. unfold sorted_keys. rewrite E. exact S.
Qed.

Lemma remove_annot_keys d t d' ok :
  remove_annot d t = (d', ok) ->
  map fst (d_objects d') = map fst (d_objects d) /\ d_max_id d' = d_max_id d /\ d_trailer d' = d_trailer d.
Proof.
  unfold remove_annot. destruct (remove_annot_loop _ _ _) as [m b] eqn:E.
  intro H; inversion H; subst. cbn. apply remove_annot_loop_keys in E. auto.
Qed.

(* ---------- one step preserves the two invariants ---------- *)
Lemma step_wf O d o : doc_wf d -> doc_wf (fst (step O d o)).
Proof.
  intro S. destruct o as [|x|id x|id|id|]; cbn [step].
  - destruct (new_object_id d) as [[d' i]|] eqn:E; cbn [fst]; [|exact S].
    apply new_object_id_spec in E. unfold doc_wf. destruct E as [_ [_ [-> _]]]. exact S.
  - destruct (add_object d x) as [[d' i]|] eqn:E; cbn [fst]; [|exact S].
    apply add_object_spec in E. unfold doc_wf. destruct E as [_ [_ [-> _]]]. apply sorted_insert. exact S.
  - cbn [fst]. unfold doc_wf, set_object. cbn. apply sorted_insert. exact S.
  - destruct (delete_object d id) as [[d' r]|] eqn:E; cbn [fst]; [|exact S].
    apply delete_object_keys in E. apply E. exact S.
  - destruct (remove_annot d id) as [d' ok] eqn:E. cbn [fst].
    apply remove_annot_keys in E. unfold doc_wf, sorted_keys. destruct E as [-> _]. exact S.
  - destruct (prune_objects d) as [[d' r]|] eqn:E; cbn [fst]; [|exact S].
    apply prune_objects_keys in E. apply E. exact S.
Qed.

Lemma step_alloc O d o : alloc_ok d -> op_dom d o -> alloc_ok (fst (step O d o)).
Proof.
  intros A Dm. destruct o as [|x|id x|id|id|]; cbn [step].
  - destruct (new_object_id d) as [[d' i]|] eqn:E; cbn [fst]; [|exact A].
    apply new_object_id_spec in E. destruct E as [_ [E1 [E2 _]]]. intros y Hy. rewrite E2 in Hy.
    apply A in Hy. rewrite E1. lia.
  - destruct (add_object d x) as [[d' i]|] eqn:E; cbn [fst]; [|exact A].
    apply add_object_spec in E. destruct E as [Ei [E1 [E2 _]]]. intros y Hy. rewrite E2 in Hy.
    unfold has_obj in Hy. apply keys_insert in Hy. rewrite E1. destruct Hy as [->|Hy].
    + rewrite Ei. cbn [fst]. lia.
    + apply A in Hy. lia.
  - cbn [fst]. intros y Hy. unfold set_object in Hy. cbn in Hy. unfold has_obj in Hy. apply keys_insert in Hy.
    cbn. destruct Hy as [->|Hy]; [exact Dm | apply A; exact Hy].
  - destruct (delete_object d id) as [[d' r]|] eqn:E; cbn [fst]; [|exact A].
    apply delete_object_keys in E. destruct E as [K [M _]]. intros y Hy. rewrite M. apply A. apply K. exact Hy.
  - destruct (remove_annot d id) as [d' ok] eqn:E. cbn [fst].
    apply remove_annot_keys in E. destruct E as [K [M _]]. intros y Hy. unfold has_obj in Hy. rewrite K in Hy.
    rewrite M. apply A. exact Hy.
  - destruct (prune_objects d) as [[d' r]|] eqn:E; cbn [fst]; [|exact A].
    apply prune_objects_keys in E. destruct E as [K [M _]]. intros y Hy. rewrite M. apply A. apply K. exact Hy.
Qed.

(* ---------- the invariants over every program ---------- *)
Theorem run_ops_wf O : forall ops d, doc_wf d -> doc_wf (run_ops O d ops).
Proof.
  unfold run_ops. induction ops as [|o ops IH]; intros d S; cbn [fold_left]; [exact S|].
  apply IH. apply step_wf. exact S.
Qed.

Theorem I_alloc_inv O : forall ops d,
  alloc_ok d -> prog_dom O d ops -> alloc_ok (run_ops O d ops).
Proof.
  unfold run_ops. induction ops as [|o ops IH]; intros d A P; cbn [fold_left]; [exact A|].
  destruct P as [P1 P2]. apply IH; [apply step_alloc; assumption | exact P2].
Qed.

(* an id handed out is above the cursor, hence (under the invariant) names no existing object -- not
   even one with another generation number -- and the cursor moves to it *)
Theorem alloc_fresh O d o d' id :
  step O d o = (d', OId id) ->
  (d_max_id d < fst id)%N /\ d_max_id d' = fst id /\ snd id = 0%N /\
  (alloc_ok d -> forall k, has_obj (d_objects d) k -> fst k <> fst id).
Proof.
  intro H. assert (E : id = ((d_max_id d + 1)%N, 0%N) /\ d_max_id d' = (d_max_id d + 1)%N).
  { destruct o as [|x|i x|i|i|]; cbn [step] in H.
    - destruct (new_object_id d) as [[d1 i1]|] eqn:E; inversion H; subst. apply new_object_id_spec in E. tauto.
    - destruct (add_object d x) as [[d1 i1]|] eqn:E; inversion H; subst. apply add_object_spec in E. tauto.
    - inversion H.
    - destruct (delete_object d i) as [[d1 r]|]; inversion H.
    - destruct (remove_annot d i) as [d1 ok]. destruct ok; inversion H.
    - destruct (prune_objects d) as [[d1 r]|]; inversion H. }
  destruct E as [-> E2]. cbn [fst snd]. repeat split; try lia.
  intros A k Hk. apply A in Hk. lia.
Qed.

(* the cursor never moves backwards (no operation of this set lowers it) *)
Lemma step_max_mono O d o : (d_max_id d <= d_max_id (fst (step O d o)))%N.
Proof.
  destruct o as [|x|id x|id|id|]; cbn [step].
  - destruct (new_object_id d) as [[d' i]|] eqn:E; cbn [fst]; [|lia]. apply new_object_id_spec in E. lia.
  - destruct (add_object d x) as [[d' i]|] eqn:E; cbn [fst]; [|lia]. apply add_object_spec in E. lia.
  - cbn. lia.
  - destruct (delete_object d id) as [[d' r]|] eqn:E; cbn [fst]; [|lia]. apply delete_object_keys in E. lia.
  - destruct (remove_annot d id) as [d' ok] eqn:E. cbn [fst]. apply remove_annot_keys in E. lia.
  - destruct (prune_objects d) as [[d' r]|] eqn:E; cbn [fst]; [|lia]. apply prune_objects_keys in E. lia.
Qed.

(* the ids handed out by a program, in order *)
Fixpoint handed_out (O : oracles) (d : doc) (ops : list op) : list oid :=
  match ops with
  | [] => []
  | o :: r => match snd (step O d o) with
              | OId id => id :: handed_out O (fst (step O d o)) r
              | _ => handed_out O (fst (step O d o)) r
              end
  end.

Lemma handed_out_above O : forall ops d id, In id (handed_out O d ops) -> (d_max_id d < fst id)%N.
Proof.
  induction ops as [|o ops IH]; intros d id H; cbn [handed_out] in H; [destruct H|].
  pose proof (step_max_mono O d o) as Hm.
  destruct (step O d o) as [d' r] eqn:E. cbn [fst snd] in *.
  destruct r; try (apply IH in H; lia).
  destruct H as [<-|H]; [|apply IH in H; lia].
  apply alloc_fresh in E. lia.
Qed.

(* across any interleaving with the other operations, no id is handed out twice *)
Theorem alloc_no_collision O : forall ops d, NoDup (map fst (handed_out O d ops)).
Proof.
  induction ops as [|o ops IH]; intro d; cbn [handed_out]; [constructor|].
  destruct (step O d o) as [d' r] eqn:E. cbn [fst snd].
  destruct r; try apply IH.
  cbn [map]. constructor; [|apply IH].
  intro Hin. apply in_map_iff in Hin. destruct Hin as [y [Ey Hy]].
  apply handed_out_above in Hy. apply alloc_fresh in E. lia.
Qed.

(* ---------- frames of the allocation operations ---------- *)
Theorem frame_new O d d' r : step O d NewObjectId = (d', r) ->
  d_objects d' = d_objects d /\ d_trailer d' = d_trailer d.
Proof.
  cbn [step]. destruct (new_object_id d) as [[d1 i]|] eqn:E; intro H; inversion H; subst; [|auto].
  apply new_object_id_spec in E. tauto.
Qed.

Theorem frame_add O d x d' id : step O d (AddObject x) = (d', OId id) ->
  d_trailer d' = d_trailer d /\ lookup (d_objects d') id = Some x /\
  forall y, y <> id -> lookup (d_objects d') y = lookup (d_objects d) y.
Proof.
  cbn [step]. destruct (add_object d x) as [[d1 i]|] eqn:E; intro H; inversion H; subst.
  apply add_object_spec in E. destruct E as [_ [_ [E2 E3]]]. rewrite E2. split; [exact E3|]. split.
  - rewrite lookup_insert, oid_eqb_refl. reflexivity.
  - intros y Hy. rewrite lookup_insert. replace (oid_eqb id y) with false; [reflexivity|].
    symmetry. apply oid_eqb_neq. congruence.
Qed.

Theorem frame_set O d id x : let d' := fst (step O d (SetObject id x)) in
  d_trailer d' = d_trailer d /\ d_max_id d' = d_max_id d /\ lookup (d_objects d') id = Some x /\
  forall y, y <> id -> lookup (d_objects d') y = lookup (d_objects d) y.
Proof.
  cbn. split; [reflexivity|]. split; [reflexivity|]. split.
  - rewrite lookup_insert, oid_eqb_refl. reflexivity.
  - intros y Hy. rewrite lookup_insert. replace (oid_eqb id y) with false; [reflexivity|].
    symmetry. apply oid_eqb_neq. congruence.
Qed.

(* ---------- prune_objects ---------- *)
Lemma rename_id o : rename (fun x => x) o = o.
Proof.
  induction o as [|b|z|r|n|s h|l Hl|d Hd|d c Hd|i g] using obj_ind'; try reflexivity; cbn [rename].
  - f_equal. induction Hl as [|x l Hx Hl IH]; cbn [map]; [reflexivity|]. rewrite Hx, IH. reflexivity.
  - f_equal. induction Hd as [|[k v] l Hx Hl IH]; cbn [map]; [reflexivity|]. cbn [fst snd] in *. rewrite Hx, IH. reflexivity.
  - f_equal. induction Hd as [|[k v] l Hx Hl IH]; cbn [map]; [reflexivity|]. cbn [fst snd] in *. rewrite Hx, IH. reflexivity.
Qed.

Lemma rename_dict_id d : rename_dict (fun x => x) d = d.
Proof.
  unfold rename_dict. induction d as [|[k v] d IH]; cbn [map]; [reflexivity|]. cbn [fst snd]. rewrite rename_id, IH. reflexivity.
Qed.

Lemma reachf_id tr m x : reachf (fun y => y) tr m x <-> reach tr m x.
Proof.
  split; induction 1.
  - apply reach_root; assumption.
  - eapply reach_step; eassumption.
  - apply (reachf_root (fun y => y)); assumption.
  - eapply (reachf_step (fun y => y)); eassumption.
Qed.

Theorem prune_total d : prune_objects d <> None.
Proof.
  unfold prune_objects.
  destruct (traverse_spec (fun x => x) (d_trailer d) (d_objects d) _ (le_n _)) as [m' [refs [E _]]].
  rewrite E. discriminate.
Qed.

(* exactly the objects that cannot be reached from the trailer go away; every other object, the
   trailer and the cursor stay as they are *)
Theorem I_prune d d' ids :
  doc_wf d -> prune_objects d = Some (d', ids) ->
  let tr := d_trailer d in let m := d_objects d in
  (forall id, In id ids <-> has_obj m id /\ ~ reach tr m id) /\
  (forall id, reach tr m id -> lookup (d_objects d') id = lookup m id) /\
  (forall id, ~ reach tr m id -> lookup (d_objects d') id = None) /\
  d_trailer d' = tr /\ d_max_id d' = d_max_id d.
Proof.
  intros S H tr m. unfold prune_objects in H. fold tr m in H.
  destruct (traverse_spec (fun x => x) tr m _ (le_n _)) as [m' [refs [E [ND [R [K [L1 L2]]]]]]].
  rewrite E in H. inversion H; subst d' ids; clear H. cbn [d_objects d_trailer d_max_id with_graph].
  assert (Lm : forall x, lookup m' x = lookup m x).
  { intro x. destruct (in_dec oid_eq_dec x refs) as [Hin|Hnin].
    - apply R in Hin. rewrite (L1 _ Hin). destruct (lookup m x); cbn; [rewrite rename_id|]; reflexivity.
    - apply L2. intro Hr. apply Hnin. apply R. exact Hr. }
  assert (S' : sorted_keys m') by (unfold sorted_keys; rewrite K; exact S).
  assert (Hids : forall id, In id (filter (fun id => negb (mem_oid id refs)) (map fst m')) <-> has_obj m id /\ ~ reach tr m id).
  { intro id. rewrite filter_In, K, negb_true_iff, mem_oid_nIn, R, reachf_id. reflexivity. }
  split; [exact Hids|]. split; [|split; [|split; [apply rename_dict_id | reflexivity]]].
  - intros id Hr. rewrite lookup_fold_remove by exact S'.
    replace (mem_oid id _) with false; [apply Lm|]. symmetry. apply mem_oid_nIn. rewrite Hids. tauto.
  - intros id Hr. rewrite lookup_fold_remove by exact S'.
    destruct (mem_oid id _) eqn:Em; [reflexivity|]. rewrite Lm.
    apply mem_oid_nIn in Em. rewrite Hids in Em. apply lookup_none. tauto.
Qed.
