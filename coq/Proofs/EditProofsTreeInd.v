(* EditProofsTreeInd.v -- C11, I_count at tree level on the domain with INDIRECT Counts (Spec/PageTreeEditInd.v).
   The route of EditProofsTree2.v with the Count of a node read through references ([read_count], the code after /repo e03ecb9):
   * a reference chain that ends at an integer reads the same after delete_object(p) when p names a dictionary or nothing
     ([deref_int_del]: no object on such a chain is p, none is altered by [strip p]) and after the Count loop
     (EditProofsCount.read_count_agrees: the loop rewrites dictionaries only);
   * the Parent chain of the page in the stripped map is a [ref_chain] whose ids are [chain p t] ([chain_ref]);
   * a map holding every remaining node stripped, with Count := (the number read) - 1 as a DIRECT integer exactly on the
     chain, holds [prune p t] with exact Counts ([prune_page_tree_ind]);
   * the loop and the numbering as before ([delete_pages_tree_ind]). *)
From LV Require Import Base.Bytes Model.Obj Model.DocQ Model.PageTree Model.Traverse Model.Edit Gen.Consts
  Spec.Dfs Spec.DfsCounts Spec.RenumberSpec Spec.PageTreeEdit Spec.PageTreeEditInd
  Proofs.RenumberProofsMap Proofs.PageTreeProofs Proofs.EditProofs Proofs.EditProofsTrav Proofs.EditProofsDelete
  Proofs.EditProofsCount Proofs.FilterProofsDict Proofs.EditProofsTree Proofs.EditProofsTree2.
From LV Require Proofs.EditProofsRes.

Local Open Scope nat_scope.

(* ---------- the specification's reading of Count is the code's ---------- *)
Lemma count_reads_read m d n : count_reads m d n <-> read_count m d = Some n.
Proof.
  unfold count_reads, read_count. split.
  - intros [c [r [G D]]]. rewrite G, D. reflexivity.
  - destruct (dict_get d K_Count) as [c|]; [|discriminate].
    destruct (dereference m c) as [[r o]|] eqn:D; [|discriminate].
    destruct o; try discriminate. intro H; inversion H; subst. exists c, r. split; [reflexivity | exact D].
Qed.

Lemma read_count_int m d n : dict_get d K_Count = Some (OInt n) -> read_count m d = Some n.
Proof. intro G. unfold read_count. rewrite G. unfold dereference. destruct (N.to_nat DEREF_LIMIT); reflexivity. Qed.

(* the direct layout is an instance *)
Lemma page_tree_is_ind m :
  (forall t par, page_tree m par t -> page_tree_ind m par t) /\
  (forall f par, Forall (page_tree m par) f -> Forall (page_tree_ind m par) f).
Proof.
  apply ptree_forest_ind.
  - intros i par H. inversion H as [? ? dd L W Ty Pa|]; subst. eapply PILeaf; [exact L | exact W | exact Ty | reflexivity].
  - intros i ks Q par H. inversion H as [|? ? dd ? L W Ty Kd Ct Pa F]; subst.
    eapply PINode; [exact L | exact W | exact Ty | exact Kd | | reflexivity | eapply Q; exact F].
    apply count_reads_read. apply read_count_int. exact Ct.
  - constructor.
  - intros k ks P Q par H. inversion H; subst. constructor; [eapply P | eapply Q]; eassumption.
Qed.

Lemma page_doc_is_ind d t : page_doc d t -> page_doc_ind d t.
Proof.
  intros [ci [cg [cat [Wt [Rt [Lc [Wc [Pg [Nd [PT [ND Hc]]]]]]]]]]]. exists ci, cg, cat.
  repeat (split; [assumption|]). split; [exact (proj1 (page_tree_is_ind _) t None PT)|]. split; assumption.
Qed.

(* ---------- page_tree_ind in C12's vocabulary ---------- *)
Lemma page_tree_ind_represents m :
  (forall t par, page_tree_ind m par t -> represents m t) /\
  (forall f par, Forall (page_tree_ind m par) f -> Forall (represents m) f).
Proof.
  apply ptree_forest_ind.
  - intros i par H. inversion H; subst. eapply RLeaf; [apply lookup_get_dictionary; eassumption|].
    apply get_type_name. assumption.
  - intros i ks Q par H. inversion H; subst.
    eapply RNode; [apply lookup_get_dictionary; eassumption | apply get_type_name; assumption | | eapply Q; eassumption].
    apply get_deref_direct; [assumption | discriminate].
  - constructor.
  - intros k ks P Q par H. inversion H; subst. constructor; [eapply P | eapply Q]; eassumption.
Qed.

Lemma page_tree_ind_counts m :
  (forall t par, page_tree_ind m par t -> counts_exact m t) /\
  (forall f par, Forall (page_tree_ind m par) f -> Forall (counts_exact m) f).
Proof.
  apply ptree_forest_ind.
  - intros i par _. constructor.
  - intros i ks Q par H. inversion H as [|? ? dd ? L W Ty Kd Ct Pa F]; subst.
    eapply CNode; [apply lookup_get_dictionary; eassumption | | eapply Q; eassumption].
    destruct Ct as [c [r [G D]]]. unfold get_deref. rewrite G, D. reflexivity.
  - constructor.
  - intros k ks P Q par H. inversion H; subst. constructor; [eapply P | eapply Q]; eassumption.
Qed.

Lemma page_tree_ind_nodes m :
  (forall t par, page_tree_ind m par t -> forall x, In x (nodes t) ->
     exists d, lookup m x = Some (ODict d) /\ dict_get d K_Type = Some (OName K_Pages)) /\
  (forall f par, Forall (page_tree_ind m par) f -> forall x, In x (flat_map nodes f) ->
     exists d, lookup m x = Some (ODict d) /\ dict_get d K_Type = Some (OName K_Pages)).
Proof.
  apply ptree_forest_ind.
  - intros i par _ x [].
  - intros i ks Q par H x Hx. inversion H; subst. destruct Hx as [<-|Hx]; [eauto | eapply Q; eassumption].
  - intros par _ x [].
  - intros k ks P Q par H x Hx. inversion H; subst. cbn [flat_map] in Hx. apply in_app_iff in Hx.
    destruct Hx; [eapply P | eapply Q]; eassumption.
Qed.

Lemma page_tree_ind_leaves m :
  (forall t par, page_tree_ind m par t -> forall x, In x (leaves t) ->
     exists d, lookup m x = Some (ODict d) /\ dict_wf d /\ dict_get d K_Type = Some (OName K_Page) /\
               (leaf_parent m x = par \/ exists q, leaf_parent m x = Some q /\ In q (nodes t))) /\
  (forall f par, Forall (page_tree_ind m par) f -> forall x, In x (flat_map leaves f) ->
     exists d, lookup m x = Some (ODict d) /\ dict_wf d /\ dict_get d K_Type = Some (OName K_Page) /\
               (leaf_parent m x = par \/ exists q, leaf_parent m x = Some q /\ In q (flat_map nodes f))).
Proof.
  apply ptree_forest_ind.
  - intros i par H x [<-|[]]. inversion H as [? ? d L W Ty Pa|]; subst. exists d.
    split; [exact L|]. split; [exact W|]. split; [exact Ty|]. left. unfold leaf_parent. rewrite L. reflexivity.
  - intros i ks Q par H x Hx. inversion H as [|? ? d ? L W Ty Kd Ct Pa F]; subst. cbn [leaves] in Hx.
    destruct (Q (Some i) F x Hx) as [dx [Lx [Wx [Tx Hp]]]]. exists dx.
    split; [exact Lx|]. split; [exact Wx|]. split; [exact Tx|]. right.
    destruct Hp as [Hp|[q [Hq Hn]]]; [exists i; split; [exact Hp | left; reflexivity]|].
    exists q. split; [exact Hq | right; exact Hn].
  - intros par _ x [].
  - intros k ks P Q par H x Hx. inversion H as [|? ? Fk Fks]; subst. cbn [flat_map] in *. apply in_app_iff in Hx.
    destruct Hx as [Hx|Hx].
    + destruct (P par Fk x Hx) as [dx [Lx [Wx [Tx Hp]]]]. exists dx. repeat (split; [assumption|]).
      destruct Hp as [Hp|[q [Hq Hn]]]; [left; exact Hp|]. right. exists q. split; [exact Hq|].
      apply in_app_iff. left. exact Hn.
    + destruct (Q par Fks x Hx) as [dx [Lx [Wx [Tx Hp]]]]. exists dx. repeat (split; [assumption|]).
      destruct Hp as [Hp|[q [Hq Hn]]]; [left; exact Hp|]. right. exists q. split; [exact Hq|].
      apply in_app_iff. right. exact Hn.
Qed.

Lemma page_tree_ind_wf m :
  (forall t par, page_tree_ind m par t -> forall x, In x (ids t) -> forall dx, lookup m x = Some (ODict dx) -> dict_wf dx) /\
  (forall f par, Forall (page_tree_ind m par) f -> forall x, In x (flat_map ids f) -> forall dx,
     lookup m x = Some (ODict dx) -> dict_wf dx).
Proof.
  apply ptree_forest_ind.
  - intros i par H x [<-|[]] dx Lx. inversion H as [? ? dd L W Ty Pa|]; subst. rewrite L in Lx. inversion Lx; subst dd. exact W.
  - intros i ks Q par H x Hx dx Lx. inversion H as [|? ? dd ? L W Ty Kd Ct Pa F]; subst.
    destruct Hx as [<-|Hx]; [rewrite L in Lx; inversion Lx; subst dd; exact W | eapply Q; eassumption].
  - intros par _ x [].
  - intros k ks P Q par H x Hx dx Lx. inversion H; subst. cbn [flat_map] in Hx. apply in_app_iff in Hx.
    destruct Hx; [eapply P | eapply Q]; eassumption.
Qed.

Lemma page_tree_ind_count m :
  (forall t par, page_tree_ind m par t -> forall x, In x (nodes t) -> forall dx, lookup m x = Some (ODict dx) ->
     exists c, read_count m dx = Some c) /\
  (forall f par, Forall (page_tree_ind m par) f -> forall x, In x (flat_map nodes f) -> forall dx,
     lookup m x = Some (ODict dx) -> exists c, read_count m dx = Some c).
Proof.
  apply ptree_forest_ind.
  - intros i par _ x [].
  - intros i ks Q par H x Hx dx Lx. inversion H as [|? ? dd ? L0 W0 Ty Kd Ct Pa F]; subst.
    destruct Hx as [<-|Hx]; [|eapply Q; eassumption].
    rewrite L0 in Lx. inversion Lx; subst dd. eexists. apply count_reads_read. exact Ct.
  - intros par _ x [].
  - intros k ks P Q par H x Hx dx Lx. inversion H; subst. cbn [flat_map] in Hx. apply in_app_iff in Hx.
    destruct Hx; [eapply P | eapply Q]; eassumption.
Qed.

(* ---------- a reference chain to an integer survives delete_object(p) ---------- *)
Lemma deref_int_del m m1 p :
  (forall o, lookup m p = Some o -> exists d, o = ODict d) ->
  (forall x, x <> p -> lookup m1 x = lookup m x \/ lookup m1 x = option_map (strip p) (lookup m x)) ->
  forall f last o n, int_result (deref_aux m f last o) = Some n ->
    int_result (deref_aux m1 f last o) = Some n /\ strip p o = o.
Proof.
  intros Hp Hx. induction f as [|f IH]; intros last o n; destruct o as [| | | | | | | | |i g]; cbn [deref_aux int_result];
    try discriminate; try (intro H; split; [exact H | reflexivity]).
  - destruct (lookup m (i, g)); discriminate.
  - destruct (oid_eq_dec (i, g) p) as [E|Hne].
    + rewrite E. destruct (lookup m p) as [o|] eqn:L; [|discriminate].
      destruct (Hp o eq_refl) as [dd ->]. rewrite EditProofsRes.deref_aux_dict. discriminate.
    + destruct (lookup m (i, g)) as [o'|] eqn:L; [|discriminate]. intro H.
      destruct (IH (Some (i, g)) o' n H) as [H1 H2].
      split; [|cbn [strip]; replace (oid_eqb (i, g) p) with false by (symmetry; apply oid_eqb_neq; exact Hne); reflexivity].
      destruct (Hx (i, g) Hne) as [E1|E1]; rewrite E1, L; [exact H1|]. cbn [option_map]. rewrite H2. exact H1.
Qed.

Lemma strip_id_not_ref p c : strip p c = c -> is_ref_to p c = false.
Proof.
  destruct c; try reflexivity. cbn [strip is_ref_to]. destruct (oid_eqb _ p); [discriminate | reflexivity].
Qed.

Lemma read_count_del m m1 p :
  (forall o, lookup m p = Some o -> exists d, o = ODict d) ->
  (forall x, x <> p -> lookup m1 x = lookup m x \/ lookup m1 x = option_map (strip p) (lookup m x)) ->
  forall d n, dict_wf d -> read_count m d = Some n -> read_count m1 (sd p d) = Some n.
Proof.
  intros Hp Hx d n W. unfold read_count. destruct (dict_get d K_Count) as [c|] eqn:G; [|discriminate].
  intro H.
  assert (Hi : int_result (dereference m c) = Some n).
  { destruct (dereference m c) as [[r o]|]; [|discriminate]. destruct o; try discriminate. exact H. }
  destruct (deref_int_del m m1 p Hp Hx _ None c n Hi) as [H1 H2]. fold (dereference m1 c) in H1.
  rewrite (sd_get p d K_Count c W G (strip_id_not_ref p c H2)), H2.
  destruct (dereference m1 c) as [[r o]|]; [|discriminate]. destruct o; try discriminate. exact H1.
Qed.

(* every object other than the deleted one: untouched or stripped *)
Lemma delete_object_any d id d1 r :
  doc_wf d -> delete_object d id = Some (d1, r) ->
  forall x, x <> id -> lookup (d_objects d1) x = lookup (d_objects d) x \/
                       lookup (d_objects d1) x = option_map (strip id) (lookup (d_objects d) x).
Proof.
  intros W E x Hx.
  destruct (delete_object_spec d id W) as [d1' [r' [E' [_ [_ [_ [L1 [L2 _]]]]]]]].
  rewrite E in E'. inversion E'; subst d1' r'. clear E'.
  destruct (act_traverse_spec (strip id) (strip_trailer id) (d_trailer d) (d_objects d) _ (le_n _))
    as [m2 [refs2 [_ [_ [R2 _]]]]].
  destruct (in_dec oid_eq_dec x refs2) as [Hin|Hnin].
  - right. apply L1; [exact Hx|]. apply R2. exact Hin.
  - left. apply L2; [exact Hx|]. intro Hr. apply Hnin. apply R2. exact Hr.
Qed.

(* ---------- delete_object reaches every node of the tree ---------- *)
Section ReachInd.
  Variables (d : doc) (p : oid).
  Let m := d_objects d.
  Let tr' := del_trailer d p.
  Let g := del_graph d p.

  Lemma reach_tree_ind :
    (forall t par, page_tree_ind m par t -> ~ In p (nodes t) -> root_id t <> p -> reach tr' g (root_id t) ->
       forall x, In x (ids t) -> x <> p -> reach tr' g x) /\
    (forall f par, Forall (page_tree_ind m par) f -> ~ In p (flat_map nodes f) ->
       (forall k, In k f -> root_id k <> p -> reach tr' g (root_id k)) ->
       forall x, In x (flat_map ids f) -> x <> p -> reach tr' g x).
  Proof.
    apply ptree_forest_ind.
    - intros i par _ _ _ R x [<-|[]] _. exact R.
    - intros i ks Q par PT Hn Hr R x Hx Hxp. cbn [root_id] in *. cbn [nodes] in Hn.
      destruct Hx as [<-|Hx]; [exact R|].
      inversion PT as [|? ? dd ? L W Ty Kd Ct Pa F]; subst.
      assert (Hnk : ~ In p (flat_map nodes ks)) by (intro H; apply Hn; right; exact H).
      apply (Q (Some i) F Hnk); [|exact Hx | exact Hxp].
      intros k Hk Hkp. eapply reach_step; [exact R | |].
      + unfold g, del_graph. rewrite lookup_mapv. fold m. rewrite L. cbn [option_map]. rewrite strip_dict_sd. reflexivity.
      + cbn [refs_of]. fold (refs_of_dict (sd p dd)).
        eapply dict_get_refs; [apply (sd_get p dd K_Kids _ W Kd eq_refl)|].
        rewrite strip_kids by exact Hnk. cbn [refs_of]. apply in_flat_map.
        exists (ref_of (prune p k)). split.
        * apply in_map. unfold pkids. apply in_flat_map. exists k. split; [exact Hk|].
          replace (oid_eqb (root_id k) p) with false by (symmetry; apply oid_eqb_neq; exact Hkp). left. reflexivity.
        * unfold ref_of. rewrite root_id_prune. cbn [refs_of]. left. destruct (root_id k); reflexivity.
    - intros par _ _ _ x [].
    - intros k ks P Q par F Hn R x Hx Hxp. inversion F as [|? ? Fk Fks]; subst.
      cbn [flat_map] in *. rewrite in_app_iff in Hn. apply in_app_iff in Hx. destruct Hx as [Hx|Hx].
      + assert (Hk : root_id k <> p).
        { intro E. rewrite (root_p_leaf p k) in Hx by tauto. destruct Hx as [Hx|[]]. congruence. }
        apply (P par Fk); try tauto. apply R; [left; reflexivity | exact Hk].
      + apply (Q par Fks); try tauto. intros k' Hk'. apply R. right. exact Hk'.
  Qed.
End ReachInd.

Lemma delete_reaches_ind d t p ci cg cat d1 r :
  doc_wf d ->
  dict_wf (d_trailer d) -> dict_get (d_trailer d) K_Root = Some (ORef ci cg) ->
  lookup (d_objects d) (ci, cg) = Some (ODict cat) -> dict_wf cat -> dict_get cat K_Pages = Some (ref_of t) ->
  page_tree_ind (d_objects d) None t -> ~ In p (nodes t) -> root_id t <> p -> (ci, cg) <> p ->
  delete_object d p = Some (d1, r) ->
  d_trailer d1 = sd p (d_trailer d) /\
  lookup (d_objects d1) (ci, cg) = Some (ODict (sd p cat)) /\
  (forall x dx, In x (ids t) -> x <> p -> lookup (d_objects d) x = Some (ODict dx) ->
     lookup (d_objects d1) x = Some (ODict (sd p dx))) /\
  lookup (d_objects d1) p = None /\
  (r = lookup (d_objects d) p \/ r = option_map (strip p) (lookup (d_objects d) p)).
Proof.
  intros W Wt Rt Lc Wc Pg PT Hn Hr Hc E.
  destruct (delete_object_spec d p W) as [d1' [r' [E' [T1 [_ [Lid [L1 [_ Hres]]]]]]]].
  rewrite E in E'. inversion E'; subst d1' r'. clear E'.
  assert (Rc : reach (del_trailer d p) (del_graph d p) (ci, cg)).
  { apply reach_root. unfold del_trailer. change (strip_trailer p (d_trailer d)) with (sd p (d_trailer d)).
    eapply dict_get_refs; [apply (sd_get p _ K_Root _ Wt Rt)|].
    - cbn [is_ref_to]. apply oid_eqb_neq. exact Hc.
    - cbn [strip]. replace (oid_eqb (ci, cg) p) with false by (symmetry; apply oid_eqb_neq; exact Hc).
      left. reflexivity. }
  assert (Rr : reach (del_trailer d p) (del_graph d p) (root_id t)).
  { eapply reach_step; [exact Rc | |].
    - unfold del_graph. rewrite lookup_mapv, Lc. cbn [option_map]. rewrite strip_dict_sd. reflexivity.
    - cbn [refs_of]. fold (refs_of_dict (sd p cat)).
      eapply dict_get_refs; [apply (sd_get p cat K_Pages _ Wc Pg (is_ref_to_ref_of p t Hr))|].
      rewrite strip_ref_of by exact Hr. unfold ref_of. rewrite root_id_prune. cbn [refs_of]. left.
      destruct (root_id t); reflexivity. }
  split; [exact T1|]. split; [|split; [|split; [exact Lid | exact Hres]]].
  - rewrite (L1 _ Hc Rc), Lc. cbn [option_map]. rewrite strip_dict_sd. reflexivity.
  - intros x dx Hx Hxp Lx.
    rewrite (L1 x Hxp (proj1 (reach_tree_ind d p) t None PT Hn Hr Rr x Hx Hxp)), Lx.
    cbn [option_map]. rewrite strip_dict_sd. reflexivity.
Qed.

(* ---------- the Parent chain of p, Counts read through references ---------- *)
Inductive count_tree_r (m1 : objmap) (lp : oid -> option oid) : option oid -> ptree -> Prop :=
| CRLeaf par i : lp i = par -> count_tree_r m1 lp par (PLeaf i)
| CRNode par i d ks :
    lookup m1 i = Some (ODict d) -> read_count m1 d = Some (Z.of_nat (length (flat_map leaves ks))) ->
    as_ref (dict_get d K_Parent) = par ->
    Forall (count_tree_r m1 lp (Some i)) ks ->
    count_tree_r m1 lp par (PNode i ks).

Lemma chain_ref m1 lp p :
  (forall t par above, count_tree_r m1 lp par t -> NoDup (leaves t) -> In p (leaves t) -> ref_chain m1 par above ->
     exists ancs, ref_chain m1 (lp p) (ancs ++ above) /\ map anc_id ancs = chain p t) /\
  (forall f par above, Forall (count_tree_r m1 lp par) f -> NoDup (flat_map leaves f) -> In p (flat_map leaves f) ->
     ref_chain m1 par above ->
     exists ancs, ref_chain m1 (lp p) (ancs ++ above) /\ map anc_id ancs = flat_map (chain p) f).
Proof.
  apply ptree_forest_ind.
  - intros i par above C _ [E|[]] An. subst i. inversion C; subst. exists []. split; [exact An | reflexivity].
  - intros i ks Q par above C ND Hin An. inversion C as [|? ? d ? L Hc Hp F]; subst.
    cbn [leaves] in ND, Hin.
    destruct (Q (Some i) ((i, d, read_count m1 d) :: above) F ND Hin) as [ancs [A1 A2]].
    { apply rc_cons; [exact L | | exact An].
      rewrite Hc. unfold I64_MIN. intro E. inversion E. lia. }
    exists (ancs ++ [(i, d, read_count m1 d)]). split.
    + rewrite <- app_assoc. exact A1.
    + rewrite map_app, A2. cbn [map anc_id fst chain]. apply mem_oid_In in Hin. rewrite Hin. reflexivity.
  - intros par above _ _ [].
  - intros k ks P Q par above F ND Hin An. inversion F as [|? ? Fk Fks]; subst.
    cbn [flat_map] in *. apply nodup_app in ND. destruct ND as [Na [Nb Nx]].
    destruct (in_dec oid_eq_dec p (leaves k)) as [Hk|Hk].
    + destruct (P par above Fk Na Hk An) as [ancs [A1 A2]]. exists ancs. split; [exact A1|].
      rewrite chain_nil_forest by (intro H; exact (Nx p Hk H)). rewrite app_nil_r. exact A2.
    + apply in_app_iff in Hin. destruct Hin as [Hin|Hin]; [contradiction|].
      destruct (Q par above Fks Nb Hin An) as [ancs [A1 A2]]. exists ancs. split; [exact A1|].
      rewrite chain_nil by exact Hk. exact A2.
Qed.

Lemma ref_chain_In m r l : ref_chain m r l ->
  forall id d c, In (id, d, c) l -> lookup m id = Some (ODict d) /\ c = read_count m d.
Proof.
  induction 1 as [|id Hn|id d rest L Hc C IH]; intros id0 d0 c0 Hin; try destruct Hin.
  - inversion H; subst. split; [exact L | reflexivity].
  - apply IH. exact H.
Qed.

Lemma page_count_tree_ind m m1 p T :
  (forall x dx, In x (ids T) -> x <> p -> lookup m x = Some (ODict dx) -> lookup m1 x = Some (ODict (sd p dx))) ->
  (forall dx n, dict_wf dx -> read_count m dx = Some n -> read_count m1 (sd p dx) = Some n) ->
  (forall t par, incl (ids t) (ids T) -> page_tree_ind m par t -> ~ In p (nodes t) -> par <> Some p ->
     count_tree_r m1 (leaf_parent m) par t) /\
  (forall f par, incl (flat_map ids f) (ids T) -> Forall (page_tree_ind m par) f -> ~ In p (flat_map nodes f) ->
     par <> Some p -> Forall (count_tree_r m1 (leaf_parent m) par) f).
Proof.
  intros M1 RC. apply ptree_forest_ind.
  - intros i par _ PT _ _. inversion PT as [? ? dd L W Ty Pa|]; subst. constructor.
    unfold leaf_parent. rewrite L. reflexivity.
  - intros i ks Q par Hi PT Hn Hpar. inversion PT as [|? ? dd ? L W Ty Kd Ct Pa F]; subst. cbn [nodes] in Hn.
    assert (Hip : i <> p) by (intro E; apply Hn; left; exact E).
    eapply CRNode.
    + apply M1; [apply Hi; left; reflexivity | exact Hip | exact L].
    + apply (RC dd _ W). apply count_reads_read. exact Ct.
    + rewrite parent_ref_as_ref in *. apply sd_parent; assumption.
    + apply Q; [intros x Hx; apply Hi; right; exact Hx | exact F | intro H; apply Hn; right; exact H|].
      intro E. inversion E. exact (Hip H0).
  - intros par _ _ _ _. constructor.
  - intros k ks P Q par Hi F Hn Hpar. inversion F as [|? ? Fk Fks]; subst. cbn [flat_map] in *.
    apply incl_app_inv in Hi. destruct Hi as [Hik Hiks]. rewrite in_app_iff in Hn.
    constructor; [apply P | apply Q]; tauto.
Qed.

(* ---------- the map after the deletion holds the pruned tree ---------- *)
(* what the Count loop leaves in an ancestor: the number it READ (in the stripped map m1) minus one, as a direct integer *)
Definition adjr (m1 : objmap) (b : bool) (d : dict) : dict :=
  if b then match read_count m1 d with Some z => dict_set d K_Count (OInt (z - 1)) | None => d end else d.

Lemma adjr_wf m1 b d : dict_wf d -> dict_wf (adjr m1 b d).
Proof. intro W. unfold adjr. destruct b; [|exact W]. destruct (read_count m1 d); [apply dict_set_wf; exact W | exact W]. Qed.

Lemma adjr_get_other m1 b d k : k <> K_Count -> dict_get (adjr m1 b d) k = dict_get d k.
Proof.
  intro H. unfold adjr. destruct b; [|reflexivity]. destruct (read_count m1 d); [|reflexivity].
  apply dict_get_set_other. exact H.
Qed.

Lemma adjr_direct m1 d c : read_count m1 d = Some c -> dict_get (adjr m1 true d) K_Count = Some (OInt (c - 1)%Z).
Proof. intro H. unfold adjr. rewrite H. apply dict_get_set_same. Qed.

Lemma adjr_keeps_direct m1 b d c : dict_get d K_Count = Some (OInt c) -> exists c', dict_get (adjr m1 b d) K_Count = Some (OInt c').
Proof.
  intro H. unfold adjr. destruct b; [|eauto]. destruct (read_count m1 d); [|eauto]. eexists. apply dict_get_set_same.
Qed.

Section PruneInd.
  Variables (m m1 m2 : objmap) (p : oid) (A : list oid) (T : ptree).
  Hypothesis H2 : forall x d, In x (ids T) -> x <> p -> lookup m x = Some (ODict d) ->
    lookup m2 x = Some (ODict (adjr m1 (mem_oid x A) (sd p d))).
  Hypothesis HA : forall x, In x A -> exists d, lookup m x = Some (ODict d) /\ dict_get d K_Type = Some (OName K_Pages).
  (* Counts read in m survive into the stripped map; the final map reads what the stripped map reads *)
  Hypothesis RC1 : forall d n, dict_wf d -> read_count m d = Some n -> read_count m1 (sd p d) = Some n.
  Hypothesis RC2 : forall d, read_count m2 d = read_count m1 d.

  Lemma prune_page_tree_ind :
    (forall t par, incl (ids t) (ids T) -> page_tree_ind m par t -> marks p A t -> ~ In p (nodes t) -> NoDup (leaves t) ->
       par <> Some p -> root_id t <> p -> page_tree_ind m2 par (prune p t)) /\
    (forall f par, incl (flat_map ids f) (ids T) -> Forall (page_tree_ind m par) f -> Forall (marks p A) f ->
       ~ In p (flat_map nodes f) -> NoDup (flat_map leaves f) -> par <> Some p ->
       Forall (page_tree_ind m2 par) (pkids p f)).
  Proof.
    apply ptree_forest_ind.
    - intros i par Hi PT _ _ _ Hpar Hr. cbn [root_id] in Hr. cbn [prune].
      inversion PT as [? ? d L W Ty Pa|]; subst.
      assert (Hb : mem_oid i A = false).
      { destruct (mem_oid i A) eqn:E; [|reflexivity]. apply mem_oid_In in E. apply HA in E.
        destruct E as [d' [L' Ty']]. rewrite L in L'. inversion L'; subst d'. rewrite Ty in Ty'. discriminate Ty'. }
      pose proof (H2 i d (Hi i (or_introl eq_refl)) Hr L) as L2. rewrite Hb in L2. cbn [adjr] in L2.
      eapply PILeaf; [exact L2 | apply sd_wf; exact W | apply sd_get_name; assumption|].
      rewrite parent_ref_as_ref in *. apply sd_parent; assumption.
    - intros i ks Q par Hi PT M Hn ND Hpar Hr. cbn [root_id] in Hr. rewrite prune_node.
      inversion PT as [|? ? d ? L W Ty Kd Ct Pa F]; subst.
      inversion M as [|? ? Hm Fm]; subst.
      cbn [nodes] in Hn. cbn [leaves] in ND, Ct.
      assert (Hnk : ~ In p (flat_map nodes ks)) by (intro H; apply Hn; right; exact H).
      pose proof (H2 i d (Hi i (or_introl eq_refl)) Hr L) as L2.
      apply count_reads_read in Ct. pose proof (RC1 d _ W Ct) as Ct1.
      eapply PINode; [exact L2 | apply adjr_wf, sd_wf; exact W | | | | |].
      + rewrite adjr_get_other by discriminate. apply sd_get_name; assumption.
      + rewrite adjr_get_other by discriminate.
        rewrite (sd_get p d K_Kids _ W Kd eq_refl). rewrite strip_kids by exact Hnk. reflexivity.
      + apply count_reads_read. cbn [leaves]. rewrite (proj2 (prune_leaves p) ks Hnk).
        destruct (mem_oid i A) eqn:E.
        * apply read_count_int. rewrite (adjr_direct _ _ _ Ct1). do 2 f_equal.
          apply mem_oid_In in E. apply Hm in E. pose proof (without_length p _ ND E). lia.
        * cbn [adjr]. rewrite RC2, Ct1. do 2 f_equal.
          apply mem_oid_nIn in E. rewrite without_notin by (intro H; apply E; apply Hm; exact H). reflexivity.
      + rewrite adjr_get_other by discriminate. rewrite parent_ref_as_ref in *. apply sd_parent; assumption.
      + apply Q; try assumption.
        * intros x Hx. apply Hi. right. exact Hx.
        * intro E. inversion E. congruence.
    - intros par _ _ _ _ _ _. constructor.
    - intros k ks P Q par Hi F M Hn ND Hpar. rewrite pkids_cons.
      inversion F as [|? ? Fk Fks]; subst. inversion M as [|? ? Mk Mks]; subst.
      cbn [flat_map] in *. apply incl_app_inv in Hi. destruct Hi as [Hik Hiks].
      rewrite in_app_iff in Hn. apply nodup_app in ND. destruct ND as [Na [Nb _]].
      apply Forall_app. split.
      + destruct (oid_eqb (root_id k) p) eqn:E; [constructor|]. apply oid_eqb_neq in E.
        constructor; [|constructor]. apply P; tauto.
      + apply Q; tauto.
  Qed.
End PruneInd.

(* ---------- from the maps to page_doc_ind ---------- *)
Lemma page_doc_after_ind d t p ci cg cat m1 d2 :
  dict_wf (d_trailer d) -> dict_get (d_trailer d) K_Root = Some (ORef ci cg) ->
  lookup (d_objects d) (ci, cg) = Some (ODict cat) -> dict_wf cat -> dict_get cat K_Pages = Some (ref_of t) ->
  is_node t -> page_tree_ind (d_objects d) None t -> NoDup (ids t) -> ~ In (ci, cg) (ids t) ->
  ~ In p (nodes t) -> (ci, cg) <> p ->
  d_trailer d2 = sd p (d_trailer d) ->
  lookup (d_objects d2) (ci, cg) = Some (ODict (sd p cat)) ->
  (forall x dx, In x (ids t) -> x <> p -> lookup (d_objects d) x = Some (ODict dx) ->
     lookup (d_objects d2) x = Some (ODict (adjr m1 (mem_oid x (chain p t)) (sd p dx)))) ->
  (forall dx n, dict_wf dx -> read_count (d_objects d) dx = Some n -> read_count m1 (sd p dx) = Some n) ->
  (forall dx, read_count (d_objects d2) dx = read_count m1 dx) ->
  page_doc_ind d2 (prune p t).
Proof.
  intros Wt Rt Lc Wc Pg Nd PT ND Hc Hn Hcp T2 Lc2 H2 RC1 RC2.
  assert (Hr : root_id t <> p).
  { destruct t as [i|i ks]; [destruct Nd|]. cbn [root_id nodes] in *. intro E. apply Hn. left. exact E. }
  exists ci, cg, (sd p cat).
  split; [unfold unique_keys; rewrite T2; apply sd_wf; exact Wt|].
  split; [rewrite T2, (sd_get p _ K_Root _ Wt Rt)|].
  { cbn [strip]. replace (oid_eqb (ci, cg) p) with false by (symmetry; apply oid_eqb_neq; exact Hcp). reflexivity. }
  { cbn [is_ref_to]. apply oid_eqb_neq. exact Hcp. }
  split; [exact Lc2|]. split; [apply sd_wf; exact Wc|].
  split; [rewrite (sd_get p cat K_Pages _ Wc Pg (is_ref_to_ref_of p t Hr)), strip_ref_of by exact Hr; reflexivity|].
  split; [destruct t; [destruct Nd | exact I]|].
  split; [|split].
  - apply (proj1 (prune_page_tree_ind (d_objects d) m1 (d_objects d2) p (chain p t) t H2
                    (fun x Hx => proj1 (page_tree_ind_nodes (d_objects d)) t None PT x (proj1 (chain_nodes p) t x Hx))
                    RC1 RC2)).
    + apply incl_refl.
    + exact PT.
    + apply (proj1 (chain_marks p)); [exact ND | intros; tauto].
    + exact Hn.
    + apply (proj1 leaves_nodup). exact ND.
    + discriminate.
    + exact Hr.
  - rewrite (proj1 (prune_ids p) t Hn Hr). apply without_nodup. exact ND.
  - rewrite (proj1 (prune_ids p) t Hn Hr). intro H. apply without_In in H. tauto.
Qed.

(* the Count loop rewrites dictionaries only: Counts read through references read the same afterwards *)
Lemma read_count_dec_all m1 ancs r d :
  ref_chain m1 r ancs -> NoDup (map anc_id ancs) -> read_count (dec_all m1 ancs) d = read_count m1 d.
Proof.
  intros C ND. apply (read_count_agrees m1 (dec_all m1 ancs) []). intro x.
  destruct (in_dec oid_eq_dec x (map anc_id ancs)) as [Hin|Hnin].
  - right. apply in_map_iff in Hin. destruct Hin as [[[x' d'] c'] [Ex Hin]]. cbn [anc_id fst] in Ex. subst x'.
    destruct (ref_chain_In _ _ _ C _ _ _ Hin) as [Lx _].
    split; [eexists; exact Lx|]. split; [|intros []].
    eexists. apply (dec_all_member ancs m1 x d' c' ND Hin Lx).
  - left. apply dec_all_other. exact Hnin.
Qed.

(* ---------- one round of delete_pages' loop ---------- *)
Lemma delete_page_step_ind d t p :
  doc_wf d -> page_doc_ind d t -> (In p (leaves t) \/ lookup (d_objects d) p = None) ->
  exists d2,
    (forall pages n ns, assoc_N pages n = Some p ->
       delete_pages_loop pages (n :: ns) d = delete_pages_loop pages ns d2) /\
    doc_wf d2 /\ page_doc_ind d2 (prune p t) /\
    leaves (prune p t) = without p (leaves t) /\
    lookup (d_objects d2) p = None /\
    (forall x, lookup (d_objects d) x = None -> lookup (d_objects d2) x = None) /\
    ~ In p (nodes t) /\
    (* the Counts the call touched are direct integers now; direct ones stay direct *)
    (forall x, In x (chain p t) -> count_is_direct (d_objects d2) x) /\
    (forall x, In x (ids t) -> x <> p -> count_is_direct (d_objects d) x -> count_is_direct (d_objects d2) x).
Proof.
  intros W [ci [cg [cat [Wt [Rt [Lc [Wc [Pg [Nd [PT [ND Hc]]]]]]]]]]] Hp.
  set (m := d_objects d) in *.
  assert (Hn : ~ In p (nodes t)).
  { intro H. destruct (proj1 (page_tree_ind_nodes m) t None PT p H) as [dn [Ln Tn]].
    destruct Hp as [Hp|Hp]; [|congruence].
    destruct (proj1 (page_tree_ind_leaves m) t None PT p Hp) as [dl [Ll [_ [Tl _]]]].
    rewrite Ln in Ll. inversion Ll; subst dl. rewrite Tn in Tl. discriminate Tl. }
  assert (Hcp : (ci, cg) <> p).
  { intro E. subst p. destruct Hp as [Hp|Hp]; [|unfold m in *; congruence].
    apply Hc. apply (proj1 leaves_ids). exact Hp. }
  assert (Hr : root_id t <> p).
  { destruct t as [i|i ks]; [destruct Nd|]. cbn [root_id nodes] in *. intro E. apply Hn. left. exact E. }
  (* p names a dictionary or nothing *)
  assert (Hpd : forall o, lookup m p = Some o -> exists dd, o = ODict dd).
  { intros o Lo. destruct Hp as [Hp|Hp]; [|congruence].
    destruct (proj1 (page_tree_ind_leaves m) t None PT p Hp) as [dl [Ll _]]. rewrite Ll in Lo. inversion Lo. eauto. }
  destruct (delete_object d p) as [[d1 r]|] eqn:E; [|exfalso; exact (delete_object_total d p W E)].
  destruct (delete_reaches_ind d t p ci cg cat d1 r W Wt Rt Lc Wc Pg PT Hn Hr Hcp E) as [T1 [Lc1 [M1 [Lp1 Hres]]]].
  destruct (delete_object_keys d p d1 r E) as [K1 [_ W1]]. specialize (W1 W).
  pose proof (read_count_del m (d_objects d1) p Hpd (delete_object_any d p d1 r W E)) as RC1.
  assert (None1 : forall x, lookup m x = None -> lookup (d_objects d1) x = None).
  { intros x H. apply lookup_none. intro Hh. apply K1 in Hh. apply lookup_none in H. exact (H Hh). }
  destruct Hp as [Hp|Hp].
  - destruct (proj1 (page_tree_ind_leaves m) t None PT p Hp) as [pd [Lp [Wp [_ Hpar]]]].
    assert (Hlp : leaf_parent m p <> Some p).
    { destruct Hpar as [Hpar|[q [Hq Hqn]]]; [rewrite Hpar; discriminate|]. rewrite Hq. intro E1. inversion E1. congruence. }
    assert (Hlp' : as_ref (dict_get pd K_Parent) = leaf_parent m p) by (unfold leaf_parent; rewrite Lp; reflexivity).
    assert (Hpage : exists pd', r = Some (ODict pd') /\ as_ref (dict_get pd' K_Parent) = leaf_parent m p).
    { fold m in Hres. rewrite Lp in Hres. destruct Hres as [->| ->].
      - exists pd. split; [reflexivity | exact Hlp'].
      - cbn [option_map]. rewrite strip_dict_sd. exists (sd p pd). split; [reflexivity|].
        rewrite <- Hlp'. apply sd_parent; [exact Wp | rewrite Hlp'; exact Hlp]. }
    destruct Hpage as [pd' [-> Hpd']].
    pose proof (proj1 (page_count_tree_ind m (d_objects d1) p t M1 RC1) t None (incl_refl _) PT Hn
                  (fun H => ltac:(discriminate H))) as CT.
    destruct (proj1 (chain_ref (d_objects d1) (leaf_parent m) p) t None [] CT (proj1 leaves_nodup t ND) Hp (rc_none _))
      as [ancs [An Ai]].
    rewrite app_nil_r in An.
    assert (NDa : NoDup (map anc_id ancs)) by (rewrite Ai; apply (proj1 (chain_nodup p)); exact ND).
    pose proof (count_loop_ref_chain (d_objects d1) _ ancs _ An NDa (ref_chain_fuel _ _ _ An NDa)) as CL.
    assert (H2 : forall x dx, In x (ids t) -> x <> p -> lookup m x = Some (ODict dx) ->
              lookup (dec_all (d_objects d1) ancs) x =
              Some (ODict (adjr (d_objects d1) (mem_oid x (chain p t)) (sd p dx)))).
    { intros x dx Hx Hxp Lx. pose proof (M1 x dx Hx Hxp Lx) as Lx1.
      destruct (mem_oid x (chain p t)) eqn:Em.
      - apply mem_oid_In in Em. rewrite <- Ai in Em. apply in_map_iff in Em. destruct Em as [[[x' d'] c'] [Ex Hin]].
        cbn [anc_id fst] in Ex. subst x'. destruct (ref_chain_In _ _ _ An _ _ _ Hin) as [Lx' Hc'].
        rewrite Lx1 in Lx'. inversion Lx'; subst d'.
        rewrite (dec_all_member ancs _ x (sd p dx) c' NDa Hin Lx1). subst c'. reflexivity.
      - apply mem_oid_nIn in Em. rewrite dec_all_other by (rewrite Ai; exact Em). exact Lx1. }
    exists (with_objs d1 (dec_all (d_objects d1) ancs)).
    split; [|split; [|split; [|split; [|split; [|split; [|split; [exact Hn|split]]]]]]].
    + intros pages n ns Ha. cbn [delete_pages_loop]. rewrite Ha, E. rewrite EditProofsRes.dereference_dict. rewrite Hpd', CL. reflexivity.
    + unfold doc_wf. cbn [with_objs d_objects]. unfold sorted_keys. rewrite dec_all_keys. exact W1.
    + apply (page_doc_after_ind d t p ci cg cat (d_objects d1)); try assumption.
      * cbn [with_objs d_objects]. rewrite dec_all_other; [exact Lc1|].
        rewrite Ai. intro H. apply Hc. apply chain_ids with p. exact H.
      * intros dx. cbn [with_objs d_objects]. apply (read_count_dec_all _ _ _ _ An NDa).
    + apply (proj1 (prune_leaves p)); assumption.
    + cbn [with_objs d_objects]. apply (lookup_none_keys (d_objects d1)); [apply dec_all_keys | exact Lp1].
    + intros x H. cbn [with_objs d_objects]. apply (lookup_none_keys (d_objects d1)); [apply dec_all_keys | exact (None1 x H)].
    + intros x Hx. cbn [with_objs d_objects].
      pose proof (proj1 (chain_nodes p) t x Hx) as Hxn.
      destruct (proj1 (page_tree_ind_nodes m) t None PT x Hxn) as [dx [Lx _]].
      assert (Hxp : x <> p) by (intro E1; subst x; exact (Hn Hxn)).
      pose proof (chain_ids p t x Hx) as Hxi.
      pose proof (H2 x dx Hxi Hxp Lx) as L2.
      replace (mem_oid x (chain p t)) with true in L2 by (symmetry; apply mem_oid_In; exact Hx).
      destruct (proj1 (page_tree_ind_count m) t None PT x Hxn dx Lx) as [c Hc0].
      pose proof (RC1 dx c (proj1 (page_tree_ind_wf m) t None PT x Hxi dx Lx) Hc0) as Hc1.
      exists (adjr (d_objects d1) true (sd p dx)), (c - 1)%Z. split; [exact L2 | apply adjr_direct; exact Hc1].
    + intros x Hx Hxp [dx [c [Lx Gc]]]. cbn [with_objs d_objects]. fold m in Lx.
      pose proof (proj1 (page_tree_ind_wf m) t None PT x Hx dx Lx) as Wx.
      destruct (adjr_keeps_direct (d_objects d1) (mem_oid x (chain p t)) (sd p dx) c (sd_get_int p dx K_Count c Wx Gc)) as [c' Hc'].
      eexists. exists c'. split; [exact (H2 x dx Hx Hxp Lx) | exact Hc'].
  - assert (Hr' : r = None) by (fold m in Hres; rewrite Hp in Hres; destruct Hres as [->| ->]; reflexivity). subst r.
    assert (Hnl : ~ In p (leaves t)).
    { intro H. destruct (proj1 (page_tree_ind_leaves m) t None PT p H) as [dl [Ll _]]. congruence. }
    assert (H2 : forall x dx, In x (ids t) -> x <> p -> lookup m x = Some (ODict dx) ->
              lookup (d_objects d1) x = Some (ODict (adjr (d_objects d1) (mem_oid x (chain p t)) (sd p dx)))).
    { intros x dx Hx Hxp Lx. rewrite chain_nil by exact Hnl. cbn [mem_oid existsb adjr]. exact (M1 x dx Hx Hxp Lx). }
    exists d1. split; [|split; [exact W1|split; [|split; [|split; [exact Lp1 |split; [exact None1|split; [exact Hn|split]]]]]]].
    + intros pages n ns Ha. cbn [delete_pages_loop]. rewrite Ha, E. reflexivity.
    + apply (page_doc_after_ind d t p ci cg cat (d_objects d1)); try assumption. intros; reflexivity.
    + apply (proj1 (prune_leaves p)); assumption.
    + intros x Hx. rewrite chain_nil in Hx by exact Hnl. destruct Hx.
    + intros x Hx Hxp [dx [c [Lx Gc]]]. fold m in Lx.
      exists (sd p dx), c. split; [exact (M1 x dx Hx Hxp Lx)|].
      apply sd_get_int; [exact (proj1 (page_tree_ind_wf m) t None PT x Hx dx Lx) | exact Gc].
Qed.

(* ---------- the loop ---------- *)
Lemma nodes_prune p :
  (forall t, ~ In p (nodes t) -> nodes (prune p t) = nodes t) /\
  (forall f, ~ In p (flat_map nodes f) -> flat_map nodes (pkids p f) = flat_map nodes f).
Proof.
  apply ptree_forest_ind.
  - intros i _. reflexivity.
  - intros i ks Q H. rewrite prune_node. cbn [nodes] in *. f_equal. apply Q. intro H1. apply H. right. exact H1.
  - intros _. reflexivity.
  - intros k ks P Q H. rewrite pkids_cons. cbn [flat_map] in *. rewrite in_app_iff in H.
    rewrite flat_map_app, Q by tauto. f_equal.
    destruct (oid_eqb (root_id k) p) eqn:E.
    + apply oid_eqb_eq in E. rewrite (root_p_leaf p k) by tauto. reflexivity.
    + cbn [flat_map]. rewrite app_nil_r. apply P. tauto.
Qed.

(* the nodes whose Count the loop rewrites: the ancestors of each deleted page in the tree it is deleted from *)
Fixpoint touched (ps : list oid) (t : ptree) : list oid :=
  match ps with [] => [] | p :: ps' => chain p t ++ touched ps' (prune p t) end.

Lemma delete_pages_loop_tree_ind pages : forall ns d t,
  doc_wf d -> page_doc_ind d t ->
  (forall n p, assoc_N pages n = Some p -> In p (leaves t) \/ lookup (d_objects d) p = None) ->
  exists d', delete_pages_loop pages ns d = (d', LOk) /\ doc_wf d' /\
             page_doc_ind d' (prune_all (sel pages ns) t) /\
             leaves (prune_all (sel pages ns) t) = fold_left (fun l p => without p l) (sel pages ns) (leaves t) /\
             (forall x, In x (nodes t) -> count_is_direct (d_objects d) x -> count_is_direct (d_objects d') x) /\
             (forall x, In x (touched (sel pages ns) t) -> count_is_direct (d_objects d') x).
Proof.
  induction ns as [|n ns IH]; intros d t W PD Inv.
  - exists d. split; [reflexivity|]. split; [exact W|]. split; [exact PD|]. split; [reflexivity|].
    split; [intros x _ H; exact H | intros x []].
  - unfold sel. cbn [flat_map]. fold (sel pages ns). destruct (assoc_N pages n) as [p|] eqn:Ea.
    + destruct (delete_page_step_ind d t p W PD (Inv n p Ea)) as [d2 [Hstep [W2 [PD2 [Lv [Lp2 [None2 [Hn [Dc Dk]]]]]]]]].
      rewrite (Hstep pages n ns Ea). cbn [app]. unfold prune_all. cbn [fold_left]. fold (prune_all (sel pages ns) (prune p t)).
      rewrite <- Lv.
      destruct (IH d2 (prune p t) W2 PD2) as [d' [E' [W' [PD' [Lv' [Kp Tc]]]]]].
      { intros n' p' Ea'. destruct (Inv n' p' Ea') as [H|H]; [|right; apply None2; exact H].
        destruct (oid_eq_dec p' p) as [->|Hne]; [right; exact Lp2|].
        left. rewrite Lv. apply without_In. split; assumption. }
      exists d'. split; [exact E'|]. split; [exact W'|]. split; [exact PD'|]. split; [exact Lv'|].
      rewrite (proj1 (nodes_prune p) t Hn) in Kp.
      assert (Keep : forall x, In x (nodes t) -> count_is_direct (d_objects d) x -> count_is_direct (d_objects d') x).
      { intros x Hx Hd. apply Kp; [exact Hx|]. apply Dk; [apply (proj1 nodes_ids); exact Hx | | exact Hd].
        intro E1. subst x. exact (Hn Hx). }
      split; [exact Keep|].
      intros x Hx. cbn [touched] in Hx. apply in_app_iff in Hx. destruct Hx as [Hx|Hx]; [|apply Tc; exact Hx].
      apply Kp; [apply (proj1 (chain_nodes p)); exact Hx | apply Dc; exact Hx].
    + cbn [delete_pages_loop]. rewrite Ea. cbn [app]. apply IH; assumption.
Qed.

(* ---------- page_doc_ind and C12 ---------- *)
Lemma page_doc_ind_tree_wf d t : page_doc_ind d t -> tree_wf d t /\ counts_exact (d_objects d) t.
Proof.
  intros [ci [cg [cat [_ [_ [_ [_ [_ [_ [PT [ND _]]]]]]]]]]].
  split; [split; [exact (proj1 (page_tree_ind_represents _) t None PT) | exact ND]|].
  exact (proj1 (page_tree_ind_counts _) t None PT).
Qed.

Lemma page_doc_ind_iter d t :
  page_doc_ind d t -> (N.of_nat (height t) <= PAGE_TREE_DEPTH_LIMIT + 1)%N -> page_iter d = leaves t.
Proof.
  intros PD Hh. pose proof (proj1 (page_doc_ind_tree_wf d t PD)) as TW.
  destruct PD as [ci [cg [cat [_ [Rt [Lc [_ [Pg [Nd _]]]]]]]]].
  destruct t as [i|[i g] ks]; [destruct Nd|].
  apply (page_iter_dfs d cat i g ks); [|exact Pg | exact TW | exact Hh].
  unfold catalog. rewrite Rt. apply lookup_get_dictionary. exact Lc.
Qed.

(* ---------- delete_pages ---------- *)
Theorem delete_pages_tree_ind d t ns :
  doc_wf d -> page_doc_ind d t -> (N.of_nat (height t) <= PAGE_TREE_DEPTH_LIMIT + 1)%N ->
  exists d',
    delete_pages d ns = (d', LOk) /\ doc_wf d' /\
    page_doc_ind d' (prune_all (sel (get_pages d) ns) t) /\
    page_iter d = leaves t /\
    page_iter d' = leaves (prune_all (sel (get_pages d) ns) t) /\
    page_iter d' = map snd (filter (fun np => negb (existsb (N.eqb (fst np)) ns)) (get_pages d)) /\
    (forall x, In x (nodes t) -> count_is_direct (d_objects d) x -> count_is_direct (d_objects d') x) /\
    (forall x, In x (touched (sel (get_pages d) ns) t) -> count_is_direct (d_objects d') x).
Proof.
  intros W PD Hh. pose proof (page_doc_ind_iter d t PD Hh) as It.
  assert (ND : NoDup (leaves t)).
  { destruct PD as [ci [cg [cat [_ [_ [_ [_ [_ [_ [_ [ND _]]]]]]]]]]]. apply (proj1 leaves_nodup). exact ND. }
  destruct (delete_pages_loop_tree_ind (get_pages d) ns d t W PD) as [d' [E [W' [PD' [Lv [Kp Tc]]]]]].
  { intros n p Ha. left. apply assoc_N_In in Ha. unfold get_pages in Ha. rewrite It in Ha.
    apply (in_map snd) in Ha. rewrite number_from_snd in Ha. exact Ha. }
  exists d'. split; [exact E|]. split; [exact W'|]. split; [exact PD'|]. split; [exact It|].
  assert (It' : page_iter d' = leaves (prune_all (sel (get_pages d) ns) t)).
  { apply page_doc_ind_iter; [exact PD'|]. pose proof (prune_all_height (sel (get_pages d) ns) t). lia. }
  split; [exact It'|]. split; [|split; [exact Kp | exact Tc]].
  assert (Gp : get_pages d = number_from 1 (leaves t)) by (unfold get_pages; rewrite It; reflexivity).
  rewrite It', Lv, fold_without, Gp.
  assert (N2 : NoDup (map snd (number_from 1 (leaves t)))) by (rewrite number_from_snd; exact ND).
  pose proof (remaining_pages (number_from 1 (leaves t)) ns (number_from_nodup _ _) N2) as R.
  rewrite number_from_snd in R. exact R.
Qed.

(* ---------- non-vacuity: Counts behind references, one integer object shared by two nodes ---------- *)
Definition tree_doc_ind : doc :=
  let pg (q : N) := ODict [(K_Type, OName K_Page); (K_Parent, ORef q 0)] in
  {| d_version := bs "1.5"; d_binary_mark := []; d_max_id := 11;
     d_trailer := [(K_Root, ORef 1 0)];
     d_objects := [((1,0), ODict [(K_Type, OName K_Catalog'); (K_Pages, ORef 2 0)]);
                   ((2,0), ODict [(K_Type, OName K_Pages); (K_Kids, OArr [ORef 3 0; ORef 4 0; ORef 10 0]); (K_Count, ORef 7 0)]);
                   ((3,0), pg 2);
                   ((4,0), ODict [(K_Type, OName K_Pages); (K_Parent, ORef 2 0); (K_Kids, OArr [ORef 5 0]); (K_Count, ORef 9 0)]);
                   ((5,0), pg 4);
                   ((7,0), ORef 8 0);
                   ((8,0), OInt 3);
                   ((9,0), OInt 1);
                   ((10,0), ODict [(K_Type, OName K_Pages); (K_Parent, ORef 2 0); (K_Kids, OArr [ORef 11 0]); (K_Count, ORef 9 0)]);
                   ((11,0), pg 10)]%N |}.
Definition tree_ex_ind : ptree :=
  PNode (2,0)%N [PLeaf (3,0)%N; PNode (4,0)%N [PLeaf (5,0)%N]; PNode (10,0)%N [PLeaf (11,0)%N]].

Definition count_entry (d : doc) (x : oid) : option obj :=
  match lookup (d_objects d) x with Some (ODict dd) => dict_get dd K_Count | _ => None end.

Lemma tree_ind_example :
  doc_wf tree_doc_ind /\ page_doc_ind tree_doc_ind tree_ex_ind /\
  (N.of_nat (height tree_ex_ind) <= PAGE_TREE_DEPTH_LIMIT + 1)%N /\
  get_pages tree_doc_ind = [(1, (3,0)); (2, (5,0)); (3, (11,0))]%N /\
  prune_all (sel (get_pages tree_doc_ind) [2; 2; 9]%N) tree_ex_ind =
    PNode (2,0)%N [PLeaf (3,0)%N; PNode (4,0)%N []; PNode (10,0)%N [PLeaf (11,0)%N]] /\
  touched (sel (get_pages tree_doc_ind) [2; 2; 9]%N) tree_ex_ind = [(4,0); (2,0)]%N /\
  let d' := fst (delete_pages tree_doc_ind [2; 2; 9]%N) in
  page_iter d' = [(3,0); (11,0)]%N /\
  count_entry d' (2,0)%N = Some (OInt 2) /\ count_entry d' (4,0)%N = Some (OInt 0) /\
  count_entry d' (10,0)%N = Some (ORef 9 0) /\ lookup (d_objects d') (9,0)%N = Some (OInt 1).
Proof.
  split; [unfold doc_wf, sorted_keys; cbn; repeat constructor|].
  split.
  { exists 1%N, 0%N. eexists. split; [unfold unique_keys; cbn; repeat constructor; intros []|].
    split; [reflexivity|]. split; [reflexivity|].
    split; [unfold unique_keys; cbn; repeat constructor; cbn; intuition discriminate|].
    split; [reflexivity|]. split; [exact I|]. split; [|split].
    - unfold tree_ex_ind.
      eapply PINode; [reflexivity | unfold unique_keys; cbn; repeat constructor; cbn; intuition discriminate
                     | reflexivity | reflexivity | apply count_reads_read; vm_compute; reflexivity | reflexivity|].
      repeat constructor.
      + eapply PILeaf; [reflexivity | unfold unique_keys; cbn; repeat constructor; cbn; intuition discriminate
                       | reflexivity | reflexivity].
      + eapply PINode; [reflexivity | unfold unique_keys; cbn; repeat constructor; cbn; intuition discriminate
                       | reflexivity | reflexivity | apply count_reads_read; vm_compute; reflexivity | reflexivity|].
        repeat constructor.
        eapply PILeaf; [reflexivity | unfold unique_keys; cbn; repeat constructor; cbn; intuition discriminate
                       | reflexivity | reflexivity].
      + eapply PINode; [reflexivity | unfold unique_keys; cbn; repeat constructor; cbn; intuition discriminate
                       | reflexivity | reflexivity | apply count_reads_read; vm_compute; reflexivity | reflexivity|].
        repeat constructor.
        eapply PILeaf; [reflexivity | unfold unique_keys; cbn; repeat constructor; cbn; intuition discriminate
                       | reflexivity | reflexivity].
    - cbn. repeat constructor; cbn; intuition discriminate.
    - cbn. intuition discriminate. }
  split; [vm_compute; discriminate|].
  split; [vm_compute; reflexivity|]. split; [vm_compute; reflexivity|]. split; [vm_compute; reflexivity|].
  vm_compute. repeat split; reflexivity.
Qed.

(* the direct domain does not contain this document *)
Lemma tree_ind_example_not_direct : ~ page_doc tree_doc_ind tree_ex_ind.
Proof.
  intros [ci [cg [cat [_ [_ [_ [_ [_ [_ [PT _]]]]]]]]]]. inversion PT as [|? ? dd ? L W Ty Kd Ct Pa F]; subst.
  cbn in L. inversion L; subst dd. cbn in Ct. discriminate Ct.
Qed.
