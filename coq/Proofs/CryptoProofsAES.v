(* CryptoProofsAES.v -- the Gallina AES of Model/Crypto/AES.v is invertible: for a 16- or 32-byte key,
   InvCipher (Cipher b) = b on 16-byte blocks, and blocks stay 16 bytes.  Structure of the proof:
   InvSubBytes . SubBytes = id (256-case sweep), InvShiftRows . ShiftRows = id (a permutation of 16
   positions), InvMixColumns . MixColumns = id (GF(2^8) tables are xor-linear by 65 536-case sweeps; the
   product of the two coefficient matrices is the identity by 16 one-byte sweeps; regrouping of the 16
   xor terms by a boolean-ring argument on the bits), AddRoundKey is an involution; then induction over
   the round keys, whose sizes are computed on a symbolic key. *)
From Coq Require Import Ring.
Require Import Coq.setoid_ring.Ring_theory.
From LV Require Import Base.Bytes Model.Crypto.Word Model.Crypto.AES Model.Crypto.Handler Model.Crypto.Concrete
  Proofs.CryptoProofs Proofs.CryptoProofsFilter.
Local Open Scope N_scope.

Lemma bool_ring_theory : ring_theory false true xorb andb xorb (fun b => b) (@eq bool).
Proof.
  constructor; intros; try reflexivity;
  repeat match goal with b : bool |- _ => destruct b end; reflexivity.
Qed.
Add Ring bring : bool_ring_theory.

Ltac sweep1 :=
  match goal with
  | |- forall a : byte, @?f a = @?g a =>
    intro a; apply byte_eqb_eq; revert a;
    apply (byte_forallb_spec (fun a => byte_eqb (f a) (g a))); vm_compute; reflexivity
  end.
Ltac sweep2 :=
  match goal with
  | |- forall a b : byte, @?f a b = @?g a b =>
    intros a b; apply byte_eqb_eq; revert a b;
    apply (byte2_forallb_spec (fun a b => byte_eqb (f a b) (g a b))); vm_compute; reflexivity
  end.

Lemma N_bxor a b : N_of_byte (bxor a b) = N.lxor (N_of_byte a) (N_of_byte b).
Proof.
  apply N.eqb_eq. revert a b.
  apply (byte2_forallb_spec (fun a b => N.eqb (N_of_byte (bxor a b)) (N.lxor (N_of_byte a) (N_of_byte b)))).
  vm_compute. reflexivity.
Qed.

Lemma N_of_byte_inj a b : N_of_byte a = N_of_byte b -> a = b.
Proof. apply to_N_inj. Qed.

(* regrouping a 4 x 4 table of xor terms by columns instead of rows *)
Lemma x4_transpose t00 t01 t02 t03 t10 t11 t12 t13 t20 t21 t22 t23 t30 t31 t32 t33 :
  x4 (x4 t00 t01 t02 t03) (x4 t10 t11 t12 t13) (x4 t20 t21 t22 t23) (x4 t30 t31 t32 t33) =
  x4 (x4 t00 t10 t20 t30) (x4 t01 t11 t21 t31) (x4 t02 t12 t22 t32) (x4 t03 t13 t23 t33).
Proof.
  apply N_of_byte_inj. unfold x4. rewrite !N_bxor.
  apply N.bits_inj. intro n. rewrite !N.lxor_spec. ring.
Qed.

Lemma x4_a000 a : x4 a x00 x00 x00 = a. Proof. revert a. sweep1. Qed.
Lemma x4_0a00 a : x4 x00 a x00 x00 = a. Proof. revert a. sweep1. Qed.
Lemma x4_00a0 a : x4 x00 x00 a x00 = a. Proof. revert a. sweep1. Qed.
Lemma x4_000a a : x4 x00 x00 x00 a = a. Proof. revert a. sweep1. Qed.

(* the multiplication tables are xor-linear *)
Lemma gmul9_lin a b : gmul9 (bxor a b) = bxor (gmul9 a) (gmul9 b). Proof. revert a b. sweep2. Qed.
Lemma gmul11_lin a b : gmul11 (bxor a b) = bxor (gmul11 a) (gmul11 b). Proof. revert a b. sweep2. Qed.
Lemma gmul13_lin a b : gmul13 (bxor a b) = bxor (gmul13 a) (gmul13 b). Proof. revert a b. sweep2. Qed.
Lemma gmul14_lin a b : gmul14 (bxor a b) = bxor (gmul14 a) (gmul14 b). Proof. revert a b. sweep2. Qed.
Lemma gmul9_x4 a b c d : gmul9 (x4 a b c d) = x4 (gmul9 a) (gmul9 b) (gmul9 c) (gmul9 d).
Proof. unfold x4. rewrite !gmul9_lin. reflexivity. Qed.
Lemma gmul11_x4 a b c d : gmul11 (x4 a b c d) = x4 (gmul11 a) (gmul11 b) (gmul11 c) (gmul11 d).
Proof. unfold x4. rewrite !gmul11_lin. reflexivity. Qed.
Lemma gmul13_x4 a b c d : gmul13 (x4 a b c d) = x4 (gmul13 a) (gmul13 b) (gmul13 c) (gmul13 d).
Proof. unfold x4. rewrite !gmul13_lin. reflexivity. Qed.
Lemma gmul14_x4 a b c d : gmul14 (x4 a b c d) = x4 (gmul14 a) (gmul14 b) (gmul14 c) (gmul14 d).
Proof. unfold x4. rewrite !gmul14_lin. reflexivity. Qed.

(* the 16 entries of (inverse coefficient matrix) x (coefficient matrix) *)
Lemma col_0_0 a : x4 (gmul14 (gmul2 a)) (gmul11 a) (gmul13 a) (gmul9 (gmul3 a)) = a.
Proof. revert a. sweep1. Qed.
Lemma col_0_1 a : x4 (gmul14 (gmul3 a)) (gmul11 (gmul2 a)) (gmul13 a) (gmul9 a) = x00.
Proof. revert a. sweep1. Qed.
Lemma col_0_2 a : x4 (gmul14 a) (gmul11 (gmul3 a)) (gmul13 (gmul2 a)) (gmul9 a) = x00.
Proof. revert a. sweep1. Qed.
Lemma col_0_3 a : x4 (gmul14 a) (gmul11 a) (gmul13 (gmul3 a)) (gmul9 (gmul2 a)) = x00.
Proof. revert a. sweep1. Qed.
Lemma col_1_0 a : x4 (gmul9 (gmul2 a)) (gmul14 a) (gmul11 a) (gmul13 (gmul3 a)) = x00.
Proof. revert a. sweep1. Qed.
Lemma col_1_1 a : x4 (gmul9 (gmul3 a)) (gmul14 (gmul2 a)) (gmul11 a) (gmul13 a) = a.
Proof. revert a. sweep1. Qed.
Lemma col_1_2 a : x4 (gmul9 a) (gmul14 (gmul3 a)) (gmul11 (gmul2 a)) (gmul13 a) = x00.
Proof. revert a. sweep1. Qed.
Lemma col_1_3 a : x4 (gmul9 a) (gmul14 a) (gmul11 (gmul3 a)) (gmul13 (gmul2 a)) = x00.
Proof. revert a. sweep1. Qed.
Lemma col_2_0 a : x4 (gmul13 (gmul2 a)) (gmul9 a) (gmul14 a) (gmul11 (gmul3 a)) = x00.
Proof. revert a. sweep1. Qed.
Lemma col_2_1 a : x4 (gmul13 (gmul3 a)) (gmul9 (gmul2 a)) (gmul14 a) (gmul11 a) = x00.
Proof. revert a. sweep1. Qed.
Lemma col_2_2 a : x4 (gmul13 a) (gmul9 (gmul3 a)) (gmul14 (gmul2 a)) (gmul11 a) = a.
Proof. revert a. sweep1. Qed.
Lemma col_2_3 a : x4 (gmul13 a) (gmul9 a) (gmul14 (gmul3 a)) (gmul11 (gmul2 a)) = x00.
Proof. revert a. sweep1. Qed.
Lemma col_3_0 a : x4 (gmul11 (gmul2 a)) (gmul13 a) (gmul9 a) (gmul14 (gmul3 a)) = x00.
Proof. revert a. sweep1. Qed.
Lemma col_3_1 a : x4 (gmul11 (gmul3 a)) (gmul13 (gmul2 a)) (gmul9 a) (gmul14 a) = x00.
Proof. revert a. sweep1. Qed.
Lemma col_3_2 a : x4 (gmul11 a) (gmul13 (gmul3 a)) (gmul9 (gmul2 a)) (gmul14 a) = x00.
Proof. revert a. sweep1. Qed.
Lemma col_3_3 a : x4 (gmul11 a) (gmul13 a) (gmul9 (gmul3 a)) (gmul14 (gmul2 a)) = a.
Proof. revert a. sweep1. Qed.

Lemma mix_row_0 a0 a1 a2 a3 : x4 (gmul14 (x4 (gmul2 a0) (gmul3 a1) a2 a3)) (gmul11 (x4 a0 (gmul2 a1) (gmul3 a2) a3)) (gmul13 (x4 a0 a1 (gmul2 a2) (gmul3 a3))) (gmul9 (x4 (gmul3 a0) a1 a2 (gmul2 a3))) = a0.
Proof.
  rewrite gmul9_x4, gmul11_x4, gmul13_x4, gmul14_x4. rewrite x4_transpose.
  rewrite col_0_0, col_0_1, col_0_2, col_0_3. apply x4_a000.
Qed.
Lemma mix_row_1 a0 a1 a2 a3 : x4 (gmul9 (x4 (gmul2 a0) (gmul3 a1) a2 a3)) (gmul14 (x4 a0 (gmul2 a1) (gmul3 a2) a3)) (gmul11 (x4 a0 a1 (gmul2 a2) (gmul3 a3))) (gmul13 (x4 (gmul3 a0) a1 a2 (gmul2 a3))) = a1.
Proof.
  rewrite gmul9_x4, gmul11_x4, gmul13_x4, gmul14_x4. rewrite x4_transpose.
  rewrite col_1_0, col_1_1, col_1_2, col_1_3. apply x4_0a00.
Qed.
Lemma mix_row_2 a0 a1 a2 a3 : x4 (gmul13 (x4 (gmul2 a0) (gmul3 a1) a2 a3)) (gmul9 (x4 a0 (gmul2 a1) (gmul3 a2) a3)) (gmul14 (x4 a0 a1 (gmul2 a2) (gmul3 a3))) (gmul11 (x4 (gmul3 a0) a1 a2 (gmul2 a3))) = a2.
Proof.
  rewrite gmul9_x4, gmul11_x4, gmul13_x4, gmul14_x4. rewrite x4_transpose.
  rewrite col_2_0, col_2_1, col_2_2, col_2_3. apply x4_00a0.
Qed.
Lemma mix_row_3 a0 a1 a2 a3 : x4 (gmul11 (x4 (gmul2 a0) (gmul3 a1) a2 a3)) (gmul13 (x4 a0 (gmul2 a1) (gmul3 a2) a3)) (gmul9 (x4 a0 a1 (gmul2 a2) (gmul3 a3))) (gmul14 (x4 (gmul3 a0) a1 a2 (gmul2 a3))) = a3.
Proof.
  rewrite gmul9_x4, gmul11_x4, gmul13_x4, gmul14_x4. rewrite x4_transpose.
  rewrite col_3_0, col_3_1, col_3_2, col_3_3. apply x4_000a.
Qed.

Lemma inv_mix_col_mix_col a0 a1 a2 a3 :
  match mix_col a0 a1 a2 a3 with
  | [m0; m1; m2; m3] => inv_mix_col m0 m1 m2 m3
  | _ => []
  end = [a0; a1; a2; a3].
Proof.
  unfold mix_col, inv_mix_col.
  rewrite mix_row_0, mix_row_1, mix_row_2, mix_row_3. reflexivity.
Qed.

(* ---------- whole-state steps ---------- *)
Lemma inv_mix_columns_mix_columns : forall s, inv_mix_columns (mix_columns s) = s.
Proof.
  fix IH 1. intro s.
  destruct s as [|a0 [|a1 [|a2 [|a3 r]]]]; try reflexivity.
  cbn [mix_columns mix_col app inv_mix_columns inv_mix_col].
  rewrite mix_row_0, mix_row_1, mix_row_2, mix_row_3, (IH r). reflexivity.
Qed.

Lemma mix_columns_length : forall s, length (mix_columns s) = length s.
Proof.
  fix IH 1. intro s. destruct s as [|a0 [|a1 [|a2 [|a3 r]]]]; try reflexivity.
  cbn [mix_columns mix_col app length]. rewrite (IH r). reflexivity.
Qed.

Lemma inv_shift_rows_shift_rows s : inv_shift_rows (shift_rows s) = s.
Proof. do 17 (destruct s as [|? s]; try reflexivity). Qed.

Lemma shift_rows_length s : length (shift_rows s) = length s.
Proof. do 17 (destruct s as [|? s]; try reflexivity). Qed.

Lemma inv_sbox_sbox b : inv_sbox (sbox b) = b.
Proof. revert b. sweep1. Qed.

Lemma inv_sub_bytes_sub_bytes s : inv_sub_bytes (sub_bytes s) = s.
Proof.
  unfold inv_sub_bytes, sub_bytes. rewrite map_map.
  induction s as [|b s IH]; [reflexivity|]. cbn [map]. rewrite inv_sbox_sbox, IH. reflexivity.
Qed.

Lemma add_round_key_involutive rk s :
  (length s <= length rk)%nat -> add_round_key rk (add_round_key rk s) = s.
Proof. intro H. unfold add_round_key. apply xor_bytes_involutive. exact H. Qed.

Lemma add_round_key_length rk s : length rk = 16%nat -> length s = 16%nat -> length (add_round_key rk s) = 16%nat.
Proof. intros H1 H2. unfold add_round_key. rewrite xor_bytes_length. lia. Qed.

Definition len16 (b : bytes) : Prop := length b = 16%nat.

Lemma round_body_length rk s : len16 rk -> len16 s -> len16 (add_round_key rk (mix_columns (shift_rows (sub_bytes s)))).
Proof.
  unfold len16. intros H1 H2. apply add_round_key_length; [exact H1|].
  rewrite mix_columns_length, shift_rows_length. unfold sub_bytes. rewrite map_length. exact H2.
Qed.

Lemma cipher_rounds_inv rks : Forall len16 rks -> forall s, len16 s ->
  inv_cipher_rounds rks (cipher_rounds rks s) = s /\ (rks <> [] -> len16 (cipher_rounds rks s)).
Proof.
  induction 1 as [|rk rest Hrk Hrest IH]; intros s Hs.
  - split; [reflexivity | intro H; contradiction].
  - destruct rest as [|rk2 rest'].
    + cbn [cipher_rounds inv_cipher_rounds]. split.
      * rewrite add_round_key_involutive.
        -- rewrite inv_shift_rows_shift_rows, inv_sub_bytes_sub_bytes. reflexivity.
        -- rewrite shift_rows_length. unfold sub_bytes. rewrite map_length. unfold len16 in *. lia.
      * intros _. apply add_round_key_length; [exact Hrk|].
        rewrite shift_rows_length. unfold sub_bytes. rewrite map_length. exact Hs.
    + change (cipher_rounds (rk :: rk2 :: rest') s)
        with (cipher_rounds (rk2 :: rest') (add_round_key rk (mix_columns (shift_rows (sub_bytes s))))).
      change (inv_cipher_rounds (rk :: rk2 :: rest') (cipher_rounds (rk2 :: rest') (add_round_key rk (mix_columns (shift_rows (sub_bytes s))))))
        with (inv_sub_bytes (inv_shift_rows (inv_mix_columns (add_round_key rk
               (inv_cipher_rounds (rk2 :: rest') (cipher_rounds (rk2 :: rest') (add_round_key rk (mix_columns (shift_rows (sub_bytes s)))))))))).
      pose proof (round_body_length rk s Hrk Hs) as L1.
      destruct (IH _ L1) as [IH1 IH2]. rewrite IH1. split.
      * rewrite add_round_key_involutive.
        -- rewrite inv_mix_columns_mix_columns, inv_shift_rows_shift_rows, inv_sub_bytes_sub_bytes. reflexivity.
        -- rewrite mix_columns_length, shift_rows_length. unfold sub_bytes. rewrite map_length. unfold len16 in *. lia.
      * intros _. apply IH2. discriminate.
Qed.

Lemma cipher_inv rks s : Forall len16 rks -> (2 <= length rks)%nat -> len16 s ->
  inv_cipher rks (cipher rks s) = s /\ len16 (cipher rks s).
Proof.
  intros H Hn Hs. destruct rks as [|rk0 rest]; [cbn in Hn; lia|].
  inversion H as [|? ? H0 Hr]; subst. cbn [cipher inv_cipher].
  assert (L : len16 (add_round_key rk0 s)) by (apply add_round_key_length; assumption).
  destruct (cipher_rounds_inv rest Hr _ L) as [E1 E2]. rewrite E1. split.
  - apply add_round_key_involutive. unfold len16 in *. lia.
  - apply E2. destruct rest; [cbn in Hn; lia | discriminate].
Qed.

(* the round keys of a 16- or 32-byte key: 11 resp. 15 blocks of 16 bytes (computed on a symbolic key) *)
Definition keys_ok (rks : list bytes) : bool :=
  Nat.leb 2 (length rks) && forallb (fun rk => Nat.eqb (length rk) 16) rks.

Lemma key_expansion_ok key : (length key = 16 \/ length key = 32)%nat -> keys_ok (key_expansion key) = true.
Proof.
  intros [H|H].
  - do 17 (destruct key as [|? key]; try discriminate H). vm_compute. reflexivity.
  - do 33 (destruct key as [|? key]; try discriminate H). vm_compute. reflexivity.
Qed.

Lemma keys_ok_spec rks : keys_ok rks = true -> Forall len16 rks /\ (2 <= length rks)%nat.
Proof.
  unfold keys_ok. intro H. apply andb_true_iff in H as [H1 H2]. split.
  - apply Forall_forall. intros rk Hin. rewrite forallb_forall in H2. apply H2 in Hin.
    apply Nat.eqb_eq in Hin. exact Hin.
  - apply Nat.leb_le. exact H1.
Qed.

(* the Gallina AES satisfies the one law the C05 theorems assume of the block cipher *)
Theorem concrete_aes_ok : aes_ok concrete.
Proof.
  intros k Hk b Hb. cbn [concrete p_aes_enc p_aes_dec]. unfold aes_encrypt_block, aes_decrypt_block.
  destruct (keys_ok_spec _ (key_expansion_ok k Hk)) as [F L].
  destruct (cipher_inv (key_expansion k) b F L Hb) as [E1 E2]. split; [exact E1 | exact E2].
Qed.
