(* IsoProofsDoc6.v -- C06, revisions 5 and 6 (V 5): the standard's own consistency (Algorithms 8, 9, 10 against 2.A
   with 11, 12, 13) and the document-level statement standard -> lopdf, under the laws of the primitives:
   AES decryption inverts encryption (aes_ok) and the SHA-2 functions return 32 / 48 / 64 bytes. *)
From LV Require Import Base.Bytes Base.Sx Model.Obj Model.DocQ Gen.Crypto
  Model.Crypto.Word Model.Crypto.RC4 Model.Crypto.PKCS5 Model.Crypto.Handler
  Spec.Crypto.Iso Spec.Crypto.IsoConcrete
  Proofs.CryptoProofs Proofs.CryptoProofsFilter Proofs.CryptoProofsObject Proofs.CryptoProofsDoc
  Proofs.IsoProofsArith Proofs.IsoProofs Proofs.IsoProofsData Proofs.IsoProofsObj Proofs.IsoProofsFilter Proofs.IsoProofsAuth
  Proofs.IsoProofsDoc Proofs.IsoProofsPerms.
Local Open Scope N_scope.

(* SP 800-38A: CBC decryption inverts CBC encryption, in the standard's recurrence *)
Lemma cbc_d_e (E D : bytes -> bytes) :
  (forall b, length b = 16%nat -> D (E b) = b) -> (forall b, length b = 16%nat -> length (E b) = 16%nat) ->
  forall k iv data, length iv = 16%nat -> length data = (16 * k)%nat -> cbc_d k D iv (cbc_e k E iv data) = data.
Proof.
  intros HD HE. induction k as [|k IH]; intros iv data Hiv HL.
  - destruct data; [reflexivity|cbn in HL; lia].
  - cbn [cbc_e cbc_d].
    assert (Lx : length (xor_bytes (firstn 16 data) iv) = 16%nat) by (rewrite xor_bytes_length, firstn_length; lia).
    set (c := E (xor_bytes (firstn 16 data) iv)). assert (Lc : length c = 16%nat) by (apply HE; exact Lx).
    rewrite firstn_app, Lc, Nat.sub_diag, firstn_O, app_nil_r, firstn_all2 by lia.
    rewrite skipn_app, Lc, Nat.sub_diag, skipn_all2, skipn_O by lia. cbn [app].
    rewrite (IH c (skipn 16 data) Lc) by (rewrite skipn_length; lia).
    unfold c. rewrite HD by exact Lx. rewrite xor_bytes_involutive by (rewrite firstn_length; lia).
    apply firstn_skipn.
Qed.

Section Auth6.
Variable P : prims.
Hypothesis HA : aes_ok P.
Hypothesis sha256_len : forall m, length (p_sha256 P m) = 32%nat.
Hypothesis sha384_len : forall m, length (p_sha384 P m) = 48%nat.
Hypothesis sha512_len : forall m, length (p_sha512 P m) = 64%nat.
Let I := iprims_of P.

Lemma round_len pw u K : (32 <= length (fst (alg2B_round I pw u K)))%nat.
Proof.
  unfold alg2B_round. cbv zeta. cbn [fst i_SHA256 i_SHA384 i_SHA512 I iprims_of].
  destruct (be_value _ mod 3) as [|[p|p|]]; rewrite ?sha256_len, ?sha384_len, ?sha512_len; lia.
Qed.

Lemma extra_len pw u : forall fuel rn KE, (32 <= length (fst KE))%nat ->
  (32 <= length (alg2B_extra I fuel pw u rn KE))%nat.
Proof.
  induction fuel as [|f IH]; intros rn KE H; cbn [alg2B_extra]; [exact H|].
  match goal with |- context [if ?c then _ else _] => destruct c end; [|exact H]. apply IH. apply round_len.
Qed.

Lemma hash_len R pw salt u : length (hash_r56 I R pw salt u) = 32%nat.
Proof.
  unfold hash_r56. destruct (R =? 5)%Z; [apply sha256_len|].
  unfold alg2B. rewrite firstn_length. apply Nat.min_l. apply extra_len.
  change 64%nat with (S 63). cbn [Nat.iter nat_rect]. apply round_len.
Qed.

Lemma trunc127_idem pw : trunc127 (trunc127 pw) = trunc127 pw.
Proof. unfold trunc127. rewrite firstn_firstn. reflexivity. Qed.

(* the parts of a 48-byte U / O string: hash, validation salt, key salt *)
Lemma parts48 (h rnd : bytes) : length h = 32%nat ->
  let s := sixteen rnd in
  let v := h ++ firstn 8 s ++ skipn 8 s in
  firstn 32 v = h /\ sub v 32 8 = firstn 8 s /\ sub v 40 8 = skipn 8 s /\ length v = 48%nat.
Proof.
  intros Hh s v. assert (Ls : length s = 16%nat) by (unfold s, sixteen; rewrite firstn_length, app_length, repeat_length; lia).
  assert (L8 : length (firstn 8 s) = 8%nat) by (rewrite firstn_length; lia).
  assert (L8' : length (skipn 8 s) = 8%nat) by (rewrite skipn_length; lia).
  unfold v, sub. repeat split.
  - rewrite firstn_app, Hh, Nat.sub_diag, firstn_O, app_nil_r. apply firstn_all2. lia.
  - rewrite skipn_app, Hh, Nat.sub_diag, skipn_all2, skipn_O by lia. cbn [app].
    rewrite firstn_app, L8, Nat.sub_diag, firstn_O, app_nil_r. apply firstn_all2. lia.
  - rewrite skipn_app, Hh, skipn_all2 by lia. cbn [app]. replace (40 - 32)%nat with 8%nat by lia.
    rewrite skipn_app, L8, Nat.sub_diag, skipn_all2, skipn_O by lia. cbn [app]. apply firstn_all2. lia.
  - rewrite !app_length, Hh, L8, L8'. reflexivity.
Qed.

Lemma aes32 key : length key = 32%nat ->
  (forall b, length b = 16%nat -> p_aes_dec P key (p_aes_enc P key b) = b) /\
  (forall b, length b = 16%nat -> length (p_aes_enc P key b) = 16%nat).
Proof. intro H. split; intros b Hb; apply (HA key (or_intror H) b Hb). Qed.

Lemma unwrap key fek : length key = 32%nat -> length fek = 32%nat ->
  aes_cbc_nopad_d I key zero_iv (aes_cbc_nopad_e I key zero_iv fek) = fek.
Proof.
  intros Hk Hf. destruct (aes32 key Hk) as [HD HE]. unfold aes_cbc_nopad_d, aes_cbc_nopad_e. cbn [i_AES_E i_AES_D I iprims_of].
  assert (Le : length (cbc_e (length fek / 16) (p_aes_enc P key) zero_iv fek) = 32%nat).
  { rewrite Hf. change (32 / 16)%nat with 2%nat. cbn [cbc_e]. rewrite !app_length.
    rewrite !HE; [reflexivity| |]; rewrite xor_bytes_length, ?firstn_length, ?skipn_length, ?Hf;
      try (rewrite HE by (rewrite xor_bytes_length, firstn_length, Hf; reflexivity)); reflexivity. }
  rewrite Le, Hf. apply (cbc_d_e _ _ HD HE 2); [reflexivity|exact Hf].
Qed.

(* Algorithm 13 accepts the Perms of Algorithm 10, and its byte 8 is the T / F lopdf looks at *)
Lemma alg13_alg10 Pz em fek rnd : conforming_P Pz = true -> length fek = 32%nat ->
  alg13 I Pz fek (alg10 I Pz em fek rnd) = true /\
  nth 8 (p_aes_dec P fek (alg10 I Pz em fek rnd)) x00 = (if em then "T"%byte else "F"%byte).
Proof.
  intros C Hf. destruct (aes32 fek Hf) as [HD _]. destruct (perms_block_shape Pz em rnd C) as (L & _ & H8).
  unfold alg13, alg10. cbn [i_AES_E i_AES_D I iprims_of]. rewrite HD by exact L. split; [|exact H8].
  unfold perms_block, sub. apply andb_true_iff. split; [reflexivity|].
  apply bytes_eqb_eq. rewrite firstn_app.
  assert (L8 : length (le_bytes 8 (P_u32 Pz + 4294967295 * 4294967296)) = 8%nat) by apply le_bytes_length.
  rewrite L8. change (4 - 8)%nat with 0%nat. rewrite firstn_O, app_nil_r, le_bytes8_first4, le_bytes4_high. reflexivity.
Qed.

(* what the standard's writer makes for revisions 5 / 6 *)
Section Made.
Variables (R : Z) (fek user owner ru ro rp : bytes) (Pz : Z) (em : bool).
Hypothesis Hf : length fek = 32%nat.
Hypothesis HC : conforming_P Pz = true.
Let Uv := fst (alg8 I R fek user ru).
Let UE := snd (alg8 I R fek user ru).
Let Ov := fst (alg9 I R fek owner Uv ro).
Let OE := snd (alg9 I R fek owner Uv ro).
Let Perms := alg10 I Pz em fek rp.

Lemma made_lengths : length Uv = 48%nat /\ length Ov = 48%nat /\ length UE = 32%nat /\ length OE = 32%nat /\ length Perms = 16%nat.
Proof.
  unfold Uv, Ov, UE, OE, Perms, alg8, alg9. cbv zeta. cbn [fst snd].
  destruct (parts48 (hash_r56 I R (trunc127 user) (firstn 8 (sixteen ru)) []) ru (hash_len _ _ _ _)) as (_ & _ & _ & L1).
  destruct (parts48 (hash_r56 I R (trunc127 owner) (firstn 8 (sixteen ro))
                       (hash_r56 I R (trunc127 user) (firstn 8 (sixteen ru)) [] ++ firstn 8 (sixteen ru) ++ skipn 8 (sixteen ru)))
                    ro (hash_len _ _ _ _)) as (_ & _ & _ & L2).
  repeat split; try assumption.
  - unfold aes_cbc_nopad_e. rewrite Hf. change (32 / 16)%nat with 2%nat. cbn [cbc_e]. rewrite !app_length.
    destruct (aes32 (hash_r56 I R (trunc127 user) (skipn 8 (sixteen ru)) []) (hash_len _ _ _ _)) as [_ HE].
    cbn [i_AES_E I iprims_of]. rewrite !HE; [reflexivity| |]; rewrite xor_bytes_length, ?firstn_length, ?skipn_length, ?Hf;
      try (rewrite HE by (rewrite xor_bytes_length, firstn_length, Hf; reflexivity)); reflexivity.
  - unfold aes_cbc_nopad_e. rewrite Hf. change (32 / 16)%nat with 2%nat. cbn [cbc_e]. rewrite !app_length.
    match goal with |- context [i_AES_E I ?k] => destruct (aes32 k (hash_len _ _ _ _)) as [_ HE] end.
    cbn [i_AES_E I iprims_of]. rewrite !HE; [reflexivity| |]; rewrite xor_bytes_length, ?firstn_length, ?skipn_length, ?Hf;
      try (rewrite HE by (rewrite xor_bytes_length, firstn_length, Hf; reflexivity)); reflexivity.
  - unfold alg10. cbn [i_AES_E I iprims_of]. destruct (aes32 fek Hf) as [_ HE]. apply HE.
    apply (perms_block_shape Pz em rp HC).
Qed.

(* the owner password opens: Algorithm 12 recognises it, OE unwraps to the key, Algorithm 13 accepts Perms *)
Theorem open_owner_r6 : alg2A I R Ov Uv OE UE Perms Pz owner = Some fek.
Proof.
  unfold alg2A, alg12. unfold Ov at 1 2 3, OE, alg9. cbv zeta. cbn [fst snd].
  destruct (parts48 (hash_r56 I R (trunc127 owner) (firstn 8 (sixteen ro)) Uv) ro (hash_len _ _ _ _)) as (E1 & E2 & E3 & _).
  cbv zeta in E1, E2, E3. rewrite E1, E2, E3, bytes_eqb_refl.
  rewrite unwrap by (try apply hash_len; exact Hf).
  destruct (alg13_alg10 Pz em fek rp HC Hf) as [H13 _]. fold Perms in H13. rewrite H13. reflexivity.
Qed.

(* the user password opens, when it is not ALSO recognised as the owner password by Algorithm 12 (if it is, the
   standard -- and lopdf -- unwrap OE with it; that this gives the same key is cryptographic unless the two
   passwords are equal) *)
Theorem open_user_r6 : alg12 I R Ov Uv user = false -> alg2A I R Ov Uv OE UE Perms Pz user = Some fek.
Proof.
  intro H12. unfold alg2A. rewrite H12. unfold alg11. unfold Uv, UE, alg8. cbv zeta. cbn [fst snd].
  destruct (parts48 (hash_r56 I R (trunc127 user) (firstn 8 (sixteen ru)) []) ru (hash_len _ _ _ _)) as (E1 & E2 & E3 & _).
  cbv zeta in E1, E2, E3. rewrite E1, E2, E3, bytes_eqb_refl.
  rewrite unwrap by (try apply hash_len; exact Hf).
  destruct (alg13_alg10 Pz em fek rp HC Hf) as [H13 _]. fold Perms in H13. rewrite H13. reflexivity.
Qed.
End Made.
End Auth6.

(* ---------- lopdf reads the dictionary of revisions 5 / 6 ---------- *)
Definition shape_r6 (ip : iparams) : Prop := ip_V ip = 5%Z /\ (ip_R ip = 5%Z \/ ip_R ip = 6%Z).

Record lengths_r6 (ip : iparams) : Prop := {
  l6_O : length (ip_O ip) = 48%nat; l6_U : length (ip_U ip) = 48%nat;
  l6_OE : length (ip_OE ip) = 32%nat; l6_UE : length (ip_UE ip) = 32%nat;
  l6_Perms : length (ip_Perms ip) = 16%nat;
}.

Theorem palg_of_write_params_r6 ip : shape_r6 ip -> lengths_r6 ip -> palg_of_dict (write_params ip) = Ok (palg_of_ip ip).
Proof.
  destruct ip as [V R L O U OE UE Perms Pz em CF StmF StrF EFF]. unfold shape_r6, palg_of_ip.
  intros Hs [HO HU HOE HUE HP].
  cbn [ip_V ip_R ip_Length ip_O ip_U ip_OE ip_UE ip_Perms ip_P ip_EncryptMetadata ip_CF ip_StmF ip_StrF ip_EFF] in *.
  destruct Hs as [-> [-> | ->]];
    unfold write_params, palg_of_dict;
    cbn [ip_V ip_R ip_Length ip_O ip_U ip_OE ip_UE ip_Perms ip_P ip_EncryptMetadata ip_CF
      ip_StmF ip_StrF ip_EFF Z.eqb Pos.eqb Z.leb Z.ltb Z.compare Pos.compare Pos.compare_cont orb andb app];
    destruct EFF as [eff|]; destruct em; cbn [app]; dg;
      cbn [rbind Z.eqb Pos.eqb Z.leb Z.ltb Z.compare Pos.compare Pos.compare_cont orb andb negb opt_str];
      rewrite ?(len_is_true O 48), ?(len_is_true U 48), ?(len_is_true OE 32), ?(len_is_true UE 32), ?(len_is_true Perms 16) by assumption;
      reflexivity.
Qed.

Lemma write_params_v5 ip : shape_r6 ip ->
  dict_get (write_params ip) K_CF = Some (ODict (write_cf (ip_CF ip))) /\
  dict_get (write_params ip) K_StmF = Some (OName (ip_StmF ip)) /\
  dict_get (write_params ip) K_StrF = Some (OName (ip_StrF ip)) /\
  dict_get (write_params ip) K_EFF = option_map OName (ip_EFF ip).
Proof.
  destruct ip as [V R L O U OE UE Perms Pz em CF StmF StrF EFF]. unfold shape_r6.
  cbn [ip_V ip_R ip_Length ip_O ip_U ip_OE ip_UE ip_Perms ip_P ip_EncryptMetadata ip_CF ip_StmF ip_StrF ip_EFF].
  intros [-> [-> | ->]]; unfold write_params;
  cbn [ip_V ip_R ip_Length ip_O ip_U ip_OE ip_UE ip_Perms ip_P ip_EncryptMetadata ip_CF
      ip_StmF ip_StrF ip_EFF Z.eqb Pos.eqb Z.leb Z.ltb Z.compare Pos.compare Pos.compare_cont orb andb app];
  destruct EFF as [eff|]; destruct em; cbn [app option_map]; repeat split; dg; reflexivity.
Qed.

Lemma matches6_of_ip ip : shape_r6 ip -> lengths_r6 ip -> conforming_P (ip_P ip) = true ->
  matches_r6 (palg_of_ip ip) (ip_R ip) (ip_O ip) (ip_U ip) (ip_OE ip) (ip_UE ip) (ip_Perms ip) (ip_P ip) (ip_EncryptMetadata ip).
Proof.
  intros [_ HR] L HP.
  assert (E5 : (5 <=? ip_R ip)%Z = true) by (destruct HR as [-> | ->]; reflexivity).
  constructor; cbn [palg_of_ip pa_revision pa_O pa_U pa_OE pa_UE pa_perms_enc pa_perms pa_encrypt_metadata];
    rewrite ?E5; try reflexivity; try assumption; [exact (l6_OE _ L)|exact (l6_UE _ L)].
Qed.

Lemma resolve_v5_ok ip fek n : length fek = 32%nat -> method_ok (resolve ip n) fek.
Proof.
  intro HL. unfold resolve. destruct (bytes_eqb n iN_Identity); [exact Logic.I|].
  destruct (cf_lookup (ip_CF ip) n) as [c|]; [|exact Logic.I].
  destruct c; cbn [method_of_cfm method_ok]; try exact Logic.I; lia.
Qed.

Lemma state_matches_st_of_r6 ip k : shape_r6 ip -> cf_ok ip -> length k = 32%nat -> state_matches (st_of ip k) ip k.
Proof.
  intros [EV _] CO HL.
  assert (HV : (ip_V ip <? 4)%Z = false) by (rewrite EV; reflexivity). specialize (CO HV).
  constructor; cbn [st_of es_key es_encrypt_metadata es_crypt_filters es_stmf es_strf es_eff]; rewrite ?EV;
    try reflexivity; try (intro H; discriminate H).
  - lia.
  - intros _. cbn [Z.ltb Z.compare Pos.compare Pos.compare_cont]. apply cf_agree_fold. exact (co_nodup _ CO).
  - intros _. split; [reflexivity|exact (co_stmf _ CO)].
  - intros _. split; [reflexivity|exact (co_strf _ CO)].
  - intros _. exact (co_identity _ CO).
  - intros _. split; [reflexivity|exact (co_eff _ CO)].
  - intros _ n. apply resolve_v5_ok. exact HL.
Qed.

Section DocR6.
Variable P : prims.
Hypothesis md5_len : forall m, length (p_md5 P m) = 16%nat.
Let I := iprims_of P.

Definition open_r6 (ip : iparams) (pw : bytes) : option bytes :=
  alg2A I (ip_R ip) (ip_O ip) (ip_U ip) (ip_OE ip) (ip_UE ip) (ip_Perms ip) (ip_P ip) pw.

Section Dec6.
Variables (D : doc) (ip : iparams) (pw k : bytes).
Hypothesis Hge : get_encrypted D = Some (write_params ip).
Hypothesis Hs : shape_r6 ip.
Hypothesis HL : lengths_r6 ip.
Hypothesis HP : conforming_P (ip_P ip) = true.
Hypothesis Hopen : open_r6 ip pw = Some k.
(* byte 8 of the decrypted Perms is the T / F of Algorithm 10 (c) (lopdf checks it on the user path) *)
Hypothesis H8 : nth 8 (p_aes_dec P k (ip_Perms ip)) x00 = (if ip_EncryptMetadata ip then "T"%byte else "F"%byte).

Lemma palg_write6 : palg_of_doc D = Ok (palg_of_ip ip).
Proof. rewrite palg_of_doc_eq, Hge. apply palg_of_write_params_r6; assumption. Qed.

Lemma revs6 : rev_2_4 (palg_of_ip ip) = false /\ rev_5_6 (palg_of_ip ip) = true.
Proof. unfold rev_2_4, rev_5_6. cbn [palg_of_ip pa_revision]. destruct Hs as [_ [-> | ->]]; split; reflexivity. Qed.

Lemma decode_write6 : decode P D pw = Ok (st_of ip k).
Proof.
  pose proof (matches6_of_ip ip Hs HL HP) as M. destruct revs6 as [R1 R2].
  unfold decode. rewrite Hge, write_params_filter. rewrite bytes_eqb_refl. cbn [negb].
  rewrite palg_write6. cbn [rbind]. unfold compute_fek. rewrite R1, R2.
  rewrite (alg2A_refines P _ _ _ _ _ _ _ _ _ pw k M Hopen H8). cbn [rbind].
  unfold st_of. cbn [palg_of_ip pa_version pa_revision pa_length pa_encrypt_metadata pa_O pa_OE pa_U pa_UE pa_perms pa_perms_enc].
  destruct (write_params_v5 ip Hs) as (C1 & C2 & C3 & C4).
  rewrite (get_crypt_filters_eq D _ _ Hge C1), C2, C3, C4.
  destruct Hs as [EV _]. rewrite EV. cbn [Z.eqb Pos.eqb Z.ltb Z.leb Z.compare Pos.compare Pos.compare_cont orb].
  destruct (ip_EFF ip); reflexivity.
Qed.

Lemma auth_write6 : authenticate_raw_password P D pw = Ok tt.
Proof.
  destruct revs6 as [R1 R2].
  unfold authenticate_raw_password, is_encrypted. rewrite Hge. cbn [negb]. rewrite palg_write6. cbn [rbind].
  unfold auth_owner, auth_user. rewrite R1, R2.
  rewrite (alg12_refines P (palg_of_ip ip) (ip_R ip) pw eq_refl), (alg11_refines P (palg_of_ip ip) (ip_R ip) pw eq_refl).
  cbn [palg_of_ip pa_O pa_U]. unfold open_r6, alg2A in Hopen. fold I.
  destruct (alg12 I (ip_R ip) (ip_O ip) (ip_U ip) pw); [destruct (alg11 I (ip_R ip) (ip_U ip) pw); reflexivity|].
  destruct (alg11 I (ip_R ip) (ip_U ip) pw); [reflexivity|discriminate].
Qed.
End Dec6.

(* lopdf opens what ANY conforming writer of revision 5 / 6 wrote *)
Theorem lopdf_opens_r6 ip fek eid d ivs pw :
  aes_ok P -> shape_r6 ip -> lengths_r6 ip -> cf_ok ip -> conforming_P (ip_P ip) = true ->
  doc_ok ip d eid -> length fek = 32%nat ->
  open_r6 ip pw = Some fek ->
  nth 8 (p_aes_dec P fek (ip_Perms ip)) x00 = (if ip_EncryptMetadata ip then "T"%byte else "F"%byte) ->
  doc_decrypt_raw P (enc_doc ip (fst (Iso.encrypt_objects I ip fek (d_objects d) ivs)) eid d) pw =
  DOk (opened_doc d eid (st_of ip fek)) (st_of ip fek).
Proof.
  intros HA Hs HL CO HP DK Hf Hopen H8.
  set (D := enc_doc ip (fst (Iso.encrypt_objects I ip fek (d_objects d) ivs)) eid d).
  assert (Hge : get_encrypted D = Some (write_params ip)) by apply get_encrypted_enc_doc.
  assert (AG : agree (st_of ip fek) ip fek).
  { apply agree_of_state. apply state_matches_st_of_r6; assumption. }
  apply (lopdf_opens_generic P md5_len ip fek (st_of ip fek) eid d ivs pw HA AG DK).
  - exact (auth_write6 D ip pw fek Hge Hs HL Hopen).
  - exact (decode_write6 D ip pw fek Hge Hs HL HP Hopen H8).
Qed.
End DocR6.

(* ---------- from the request of the standard's writer, revisions 5 / 6 ---------- *)
Section DocR6Req.
Variable P : prims.
Hypothesis md5_len : forall m, length (p_md5 P m) = 16%nat.
Hypothesis HA : aes_ok P.
Hypothesis sha256_len : forall m, length (p_sha256 P m) = 32%nat.
Hypothesis sha384_len : forall m, length (p_sha384 P m) = 48%nat.
Hypothesis sha512_len : forall m, length (p_sha512 P m) = 64%nat.
Let I := iprims_of P.

Record request_ok_r6 (rq : irequest) : Prop := {
  r6_shape : shape_r6 (rq_core rq);
  r6_cf : cf_ok (rq_core rq);
  r6_P : conforming_P (rq_P rq) = true;
  r6_fek : length (rq_fek rq) = 32%nat;      (* "a 32-byte (256-bit) file encryption key" chosen at random *)
}.

Definition owner_r6 (rq : irequest) : bytes := match rq_owner rq with Some o => o | None => [] end.

Definition ip_r6 (rq : irequest) (rnd : list bytes) : iparams :=
  let R := rq_R rq in let fek := rq_fek rq in
  let U8 := alg8 I R fek (rq_user rq) (Iso.draw rnd 0) in
  let O9 := alg9 I R fek (owner_r6 rq) (fst U8) (Iso.draw rnd 1) in
  {| ip_V := rq_V rq; ip_R := R; ip_Length := rq_Length rq; ip_O := fst O9; ip_U := fst U8; ip_OE := snd O9; ip_UE := snd U8;
     ip_Perms := alg10 I (rq_P rq) (rq_EncryptMetadata rq) fek (Iso.draw rnd 2); ip_P := rq_P rq;
     ip_EncryptMetadata := rq_EncryptMetadata rq; ip_CF := rq_CF rq; ip_StmF := rq_StmF rq;
     ip_StrF := rq_StrF rq; ip_EFF := rq_EFF rq |}.

Lemma make_params_r6 rq id0 rnd : (rq_R rq <=? 4)%Z = false -> make_params I rq id0 rnd = (ip_r6 rq rnd, rq_fek rq).
Proof.
  intro H. unfold make_params, ip_r6, owner_r6. rewrite H. cbv zeta.
  destruct (alg8 I (rq_R rq) (rq_fek rq) (rq_user rq) (Iso.draw rnd 0)) as [Uv UE]. cbn [fst snd].
  destruct (alg9 I (rq_R rq) (rq_fek rq) match rq_owner rq with Some o => o | None => [] end Uv (Iso.draw rnd 1)) as [Ov OE].
  reflexivity.
Qed.

Lemma doc_decrypt_raw_eq6 ip objs eid d pw : shape_r6 ip -> lengths_r6 ip ->
  doc_decrypt P (enc_doc ip objs eid d) pw = doc_decrypt_raw P (enc_doc ip objs eid d) pw.
Proof.
  intros Hs HL. unfold doc_decrypt, doc_decrypt_x, is_encrypted. rewrite get_encrypted_enc_doc. cbn [negb].
  rewrite palg_of_doc_eq, get_encrypted_enc_doc, (palg_of_write_params_r6 ip Hs HL).
  unfold sanitize_password. cbn [palg_of_ip pa_revision]. destruct Hs as [_ [-> | ->]]; reflexivity.
Qed.

Section Req6.
Variables (rq : irequest) (eid : option oid) (rnd ivs : list bytes) (d : doc).
Hypothesis RO : request_ok_r6 rq.
Hypothesis DK : doc_ok (rq_core rq) d eid.

Let ip := ip_r6 rq rnd.
Let fek := rq_fek rq.

Lemma req6_shape : shape_r6 ip.
Proof. exact (r6_shape _ RO). Qed.
Lemma req6_cf : cf_ok ip.
Proof. intro HV. destruct (r6_cf _ RO HV). constructor; assumption. Qed.
Lemma req6_doc : doc_ok ip d eid.
Proof. destruct DK. constructor; assumption. Qed.
Lemma req6_lengths : lengths_r6 ip.
Proof.
  destruct (made_lengths P HA sha256_len sha384_len sha512_len (rq_R rq) fek (rq_user rq) (owner_r6 rq)
              (Iso.draw rnd 0) (Iso.draw rnd 1) (Iso.draw rnd 2) (rq_P rq) (rq_EncryptMetadata rq) (r6_fek _ RO) (r6_P _ RO))
    as (L1 & L2 & L3 & L4 & L5).
  constructor; assumption.
Qed.

Lemma encrypt_document_r6 :
  encrypt_document I rq eid rnd ivs d = enc_doc ip (fst (Iso.encrypt_objects I ip fek (d_objects d) ivs)) eid d.
Proof.
  unfold I. rewrite encrypt_document_eq. fold I. rewrite make_params_r6; [reflexivity|].
  destruct req6_shape as [_ HR]. cbn [ip ip_r6 ip_R] in HR. destruct HR as [-> | ->]; reflexivity.
Qed.

Lemma opens_with6 pw : open_r6 P ip pw = Some fek ->
  doc_decrypt P (encrypt_document I rq eid rnd ivs d) pw = DOk (opened_doc d eid (st_of ip fek)) (st_of ip fek).
Proof.
  intro Hopen. rewrite encrypt_document_r6.
  rewrite (doc_decrypt_raw_eq6 ip _ eid d pw req6_shape req6_lengths).
  apply (lopdf_opens_r6 P md5_len ip fek eid d ivs pw HA req6_shape req6_lengths req6_cf (r6_P _ RO) req6_doc (r6_fek _ RO) Hopen).
  apply (alg13_alg10 P HA (rq_P rq) (rq_EncryptMetadata rq) fek (Iso.draw rnd 2) (r6_P _ RO) (r6_fek _ RO)).
Qed.

(* the owner password (Algorithm 9 has no "use the user password instead": without an owner password it is the empty
   string) *)
Theorem iso_encrypt_lopdf_decrypt_owner_r6 :
  doc_decrypt P (encrypt_document I rq eid rnd ivs d) (owner_r6 rq) =
  DOk (opened_doc d eid (st_of ip fek)) (st_of ip fek).
Proof.
  apply opens_with6. unfold open_r6, ip, ip_r6. cbv zeta.
  cbn [ip_R ip_O ip_U ip_OE ip_UE ip_Perms ip_P].
  apply (open_owner_r6 P HA sha256_len sha384_len sha512_len); [exact (r6_fek _ RO)|exact (r6_P _ RO)].
Qed.

(* the user password, when Algorithm 12 does not take it for the owner password *)
Theorem iso_encrypt_lopdf_decrypt_user_r6 :
  alg12 I (rq_R rq) (ip_O ip) (ip_U ip) (rq_user rq) = false ->
  doc_decrypt P (encrypt_document I rq eid rnd ivs d) (rq_user rq) =
  DOk (opened_doc d eid (st_of ip fek)) (st_of ip fek).
Proof.
  intro H12. apply opens_with6. unfold open_r6, ip, ip_r6 in *. cbv zeta in *.
  cbn [ip_R ip_O ip_U ip_OE ip_UE ip_Perms ip_P] in *.
  apply (open_user_r6 P HA sha256_len sha384_len sha512_len); [exact (r6_fek _ RO)|exact (r6_P _ RO)|exact H12].
Qed.
End Req6.
End DocR6Req.
