(* QueryReal.v -- C13 composed with C09 / C04, part 2: the content-reading queries of Model/Query.v with their
   parameters ([decomp], [text_of]: "any function that returns") replaced by OUTCOME-valued stages that can answer
   Panic / OutOfFuel, and the proof that with lopdf's real stages they never do.

   Model/Query.v takes Stream::decompressed_content as [decomp : dict -> bytes -> option bytes] -- a type in which a
   panic cannot even be expressed.  Here:
     * [concat_streams_x], [get_page_content_x], [text_chunks_from_page_x], [extract_text_chunks_x] are the same
       functions over [dx : dict -> bytes -> out bytes] and [tx : .. -> out ..]; a Panic / OutOfFuel of a stage is the
       answer of the query (a panic unwinds through get_page_content).  [get_page_content_x_eq] /
       [text_chunks_from_page_x_eq]: whenever the stages return, they are Query's functions on the stages with the
       outcome forgotten -- the adapter preserves "neither Panic nor OutOfFuel" and the value.
     * [decomp_real inflate lzw] = QueryRealFilt.decompressed_sites: C09's value model of the filter chain with C04's
       site-explicit models beside it, over two TOTAL third-party decoders (flate2's ZlibDecoder::read_to_end,
       weezl's decode_all -- "what the call leaves in the output vector", as in C09).
   What remains assumed is exactly that [inflate] and [lzw] are functions (the two calls return); with
   [gallina_inflate] / [gallina_lzw] (Spec/Inflate.v, Spec/LzwSpec.v) nothing is assumed. *)
From LV Require Import Base.Bytes Model.Obj Model.DocQ Model.PageTree Model.Utf Model.Query Gen.Consts Gen.Tables
  Proofs.QueryProofs Proofs.QueryProofsWalk.
From LV Require Model.A85 Model.StreamFilt Proofs.QueryRealFilt Proofs.FilterProofsStream.
From Coq Require Import Lia List.
Import ListNotations.

(* ---------------------------------------------------------------------------------------------- *)
(* 1. the graph part over outcome-valued stages                                                     *)
(* ---------------------------------------------------------------------------------------------- *)

Section Lifted.
  (* Stream::decompressed_content: Ok data | Err (an Err(_)) | Panic | OutOfFuel *)
  Variable dx : dict -> bytes -> out bytes.
  (* Content::decode + the Tf / Tj / TJ / ET loop + decode_text on the page's encodings *)
  Variable tx : list (bytes * enc_class) -> bytes -> out (list (option ustring)).

  (* for object_id in content_streams { if let Ok(Object::Stream(s)) = get_object(id) {
       match s.decompressed_content() { Ok(data) => content.write_all(&data), Err(_) => content.write_all(&s.content) } } } *)
  Fixpoint concat_streams_x (m : objmap) (ids : list oid) : out bytes :=
    match ids with
    | [] => Ok []
    | id :: ids' =>
      match get_object m id with
      | Some (OStream sd c) =>
        match dx sd c with
        | Ok data => obind' (concat_streams_x m ids') (fun r => Ok (data ++ r))
        | Err => obind' (concat_streams_x m ids') (fun r => Ok (c ++ r))
        | Panic r => Panic r
        | OutOfFuel => OutOfFuel
        end
      | _ => concat_streams_x m ids'
      end
    end.

  Definition get_page_content_x (fuel : nat) (m : objmap) (pid : oid) : out bytes :=
    obind' (get_page_contents fuel m pid) (fun ids => concat_streams_x m ids).

  Definition text_chunks_from_page_x (fuel : nat) (d : doc) (page_number : N) : out (nat * list (option ustring)) :=
    let m := d_objects d in
    match find (fun p => (fst p =? page_number)%N) (get_pages d) with
    | None => Err
    | Some p =>
      let pid := snd p in
      obind' (get_page_fonts fuel m pid) (fun fonts =>
        let '(encs, nerr) := page_encodings m fonts in
        obind' (get_page_content_x fuel m pid) (fun content =>
          obind' (tx encs content) (fun chunks => Ok (nerr, chunks))))
    end.

  Definition extract_text_chunks_x (fuel : nat) (d : doc) (page_numbers : list N) : list (out (nat * list (option ustring))) :=
    map (text_chunks_from_page_x fuel d) page_numbers.
End Lifted.

(* the adapter: an outcome-valued stage seen as one of Query's option-valued parameters *)
Definition forget_d (dx : dict -> bytes -> out bytes) (sd : dict) (c : bytes) : option bytes :=
  match dx sd c with Ok b => Some b | _ => None end.
Definition forget_t (tx : list (bytes * enc_class) -> bytes -> out (list (option ustring)))
  (encs : list (bytes * enc_class)) (content : bytes) : option (list (option ustring)) :=
  match tx encs content with Ok l => Some l | _ => None end.

(* what get_font_encoding can hand over: a one-byte table is one of the tables lopdf ships *)
Definition shipped_table (t : list (option N)) : Prop := (exists n, In (n, t) FONT_ENCODINGS) \/ t = FALLBACK_ENCODING.
Definition enc_shipped (e : bytes * enc_class) : Prop :=
  match snd e with EOneByte t => shipped_table t | _ => True end.

Lemma assoc_table_in k l t : assoc_table k l = Some t -> exists n, In (n, t) l.
Proof.
  induction l as [|[k' v] l IH]; cbn [assoc_table]; [discriminate|].
  destruct (bytes_eqb k' k).
  - intro H. injection H as ->. exists k'. left. reflexivity.
  - intro H. destruct (IH H) as [n Hn]. exists n. right. exact Hn.
Qed.

Lemma get_font_encoding_shipped m font t : get_font_encoding m font = Some (EOneByte t) -> shipped_table t.
Proof.
  unfold get_font_encoding. destruct (negb _); [discriminate|].
  destruct (dict_get font Q_Encoding) as [[]|];
    try (destruct (get_deref m font Q_ToUnicode) as [[]|]; intro H; try discriminate H; injection H as <-; right; reflexivity).
  destruct (assoc_table _ _) eqn:E.
  - intro H. injection H as <-. left. eapply assoc_table_in. exact E.
  - destruct (_ || _); [|discriminate]. destruct (get_deref m font Q_ToUnicode) as [[]|]; discriminate.
Qed.

Lemma page_encodings_shipped m fonts : Forall enc_shipped (fst (page_encodings m fonts)).
Proof.
  induction fonts as [|nf fonts IH]; [constructor|].
  unfold page_encodings in *. cbn [fold_right].
  destruct (get_font_encoding m (snd nf)) as [e|] eqn:E; cbn [fst]; [|exact IH].
  constructor; [|exact IH]. unfold enc_shipped. cbn [snd]. destruct e; try exact I.
  eapply get_font_encoding_shipped. exact E.
Qed.

Section LiftedProofs.
  Variable dx : dict -> bytes -> out bytes.
  Variable tx : list (bytes * enc_class) -> bytes -> out (list (option ustring)).
  Hypothesis dx_returns : forall sd c, returns (dx sd c).

  Lemma concat_streams_x_eq m ids : concat_streams_x dx m ids = Ok (concat_streams (forget_d dx) m ids).
  Proof.
    induction ids as [|id ids IH]; cbn [concat_streams_x concat_streams]; [reflexivity|].
    destruct (get_object m id) as [o|]; [|exact IH]. destruct o as [ | ? | ? | ? | ? | ? ? | ? | ? | sd c | ? ? ]; try exact IH.
    unfold forget_d at 1. pose proof (dx_returns sd c) as H. rewrite IH.
    destruct (dx sd c); cbn [returns obind'] in *; try reflexivity; contradiction.
  Qed.

  (* the adapter preserves the answer: on returning stages the lifted query IS Query's *)
  Theorem get_page_content_x_eq fuel m pid :
    get_page_content_x dx fuel m pid = get_page_content (forget_d dx) fuel m pid.
  Proof.
    unfold get_page_content_x, get_page_content. destruct (get_page_contents fuel m pid); cbn [obind']; try reflexivity.
    apply concat_streams_x_eq.
  Qed.

  Theorem get_page_content_x_total fuel m pid :
    fuel_contents <= fuel -> exists b, get_page_content_x dx fuel m pid = Ok b.
  Proof. intro H. rewrite get_page_content_x_eq. apply get_page_content_total. exact H. Qed.

  (* the text stage need only return on encodings get_font_encoding can produce *)
  Hypothesis tx_returns : forall encs content, Forall enc_shipped encs -> returns (tx encs content).

  Theorem text_chunks_from_page_x_eq fuel d n :
    text_chunks_from_page_x dx tx fuel d n = text_chunks_from_page (forget_d dx) (forget_t tx) fuel d n.
  Proof.
    unfold text_chunks_from_page_x, text_chunks_from_page.
    destruct (find _ _) as [p|]; [|reflexivity].
    destruct (get_page_fonts fuel (d_objects d) (snd p)) as [fonts| | |]; cbn [obind']; try reflexivity.
    pose proof (page_encodings_shipped (d_objects d) fonts) as Hs.
    destruct (page_encodings (d_objects d) fonts) as [encs nerr]. cbn [fst] in Hs.
    rewrite get_page_content_x_eq.
    destruct (get_page_content _ _ _ _) as [content| | |]; cbn [obind']; try reflexivity.
    unfold forget_t. pose proof (tx_returns encs content Hs) as H.
    destruct (tx encs content); cbn [returns obind'] in *; try reflexivity; contradiction.
  Qed.

  Theorem extract_text_chunks_x_eq fuel d ns :
    extract_text_chunks_x dx tx fuel d ns = extract_text_chunks (forget_d dx) (forget_t tx) fuel d ns.
  Proof. unfold extract_text_chunks_x, extract_text_chunks. apply map_ext. intro n. apply text_chunks_from_page_x_eq. Qed.

  Theorem extract_text_chunks_x_total fuel d ns :
    fuel_text (d_objects d) <= fuel -> Forall returns (extract_text_chunks_x dx tx fuel d ns).
  Proof. intro H. rewrite extract_text_chunks_x_eq. apply extract_text_chunks_total. exact H. Qed.
End LiftedProofs.

(* ---------------------------------------------------------------------------------------------- *)
(* 2. the real filter stage                                                                          *)
(* ---------------------------------------------------------------------------------------------- *)

(* the class of a filter panic (overflow / index) is not kept by the filter models: one reason *)
Definition out_of_sres {A} (r : QueryRealFilt.sres A) : out A :=
  match r with
  | QueryRealFilt.SiteOk a => Ok a
  | QueryRealFilt.SiteErr => Err
  | QueryRealFilt.SitePanic => Panic PIndex
  | QueryRealFilt.SiteFuel => OutOfFuel
  end.

Section RealFilter.
  Variable inflate : bytes -> bytes.           (* flate2: what ZlibDecoder::read_to_end leaves in the vector *)
  Variable lzw : bool -> bytes -> bytes.       (* weezl: what decode_all writes, with / without tiff_size_switch *)

  Definition decomp_real (sd : dict) (c : bytes) : out bytes :=
    out_of_sres (QueryRealFilt.decompressed_sites inflate lzw {| StreamFilt.s_dict := sd; StreamFilt.s_content := c |}).

  (* Query's parameter as the runner (Run/RunC13.v) and Proofs/ComposeTextCompress.v instantiate it *)
  Definition decomp_opt (sd : dict) (c : bytes) : option bytes :=
    match StreamFilt.decompressed_content inflate lzw {| StreamFilt.s_dict := sd; StreamFilt.s_content := c |} with
    | A85.Ok o => Some o
    | _ => None
    end.

  Lemma decomp_real_returns sd c : returns (decomp_real sd c).
  Proof.
    unfold decomp_real.
    destruct (QueryRealFilt.decompressed_sites_returns inflate lzw
                {| StreamFilt.s_dict := sd; StreamFilt.s_content := c |}) as [[data H]|H]; rewrite H; exact I.
  Qed.

  Lemma forget_decomp_real sd c : forget_d decomp_real sd c = decomp_opt sd c.
  Proof.
    unfold forget_d, decomp_real, decomp_opt. rewrite QueryRealFilt.decompressed_sites_eq.
    destruct (StreamFilt.decompressed_content _ _ _); reflexivity.
  Qed.

  (* get_page_content with lopdf's real filter code: Ok on EVERY object graph, no Panic, no OutOfFuel;
     and it is the value C13's runner computes *)
  Theorem get_page_content_total_real m pid fuel :
    fuel_contents <= fuel ->
    (exists b, get_page_content_x decomp_real fuel m pid = Ok b) /\
    get_page_content_x decomp_real fuel m pid = get_page_content decomp_opt fuel m pid.
  Proof.
    intro H. split; [apply get_page_content_x_total; [exact decomp_real_returns | exact H]|].
    rewrite (get_page_content_x_eq _ decomp_real_returns).
    unfold get_page_content. destruct (get_page_contents fuel m pid); cbn [obind']; try reflexivity.
    f_equal. induction a as [|id ids IH]; cbn [concat_streams]; [reflexivity|].
    destruct (get_object m id) as [o|]; [|exact IH]. destruct o; try exact IH. rewrite forget_decomp_real, IH. reflexivity.
  Qed.
End RealFilter.

(* a page whose Contents is an ASCII85 stream: the lifted query shows a stage's panic, the real stage decodes *)
Definition ex_content_objs : objmap :=
  [((1, 0)%N, ODict [(Q_Contents, ORef 2 0)]);
   ((2, 0)%N, OStream [(bs "Filter", OName (bs "ASCII85Decode"))] (bs "87cURDZ~>"))].
Definition ex_content_plain : bytes := Eval vm_compute in bs "Hello".

Lemma example_stage_panic_propagates :
  get_page_content_x (fun _ _ => Panic POverflow) fuel_contents ex_content_objs (1, 0)%N = Panic POverflow /\
  get_page_content_x (fun _ _ => OutOfFuel) fuel_contents ex_content_objs (1, 0)%N = OutOfFuel /\
  get_page_content_x (decomp_real (fun _ => []) (fun _ _ => [])) fuel_contents ex_content_objs (1, 0)%N = Ok ex_content_plain.
Proof. repeat split; vm_compute; reflexivity. Qed.
