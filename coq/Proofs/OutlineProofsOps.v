(* OutlineProofsOps.v -- C17: the bookmark table built by any sequence of add_bookmark calls holds
   the forest denoted by that sequence (Spec/OutlineSpec.v, [forest_of_ops]); bookmarks whose
   parent id is unknown at the time of the call hang nowhere.
   Main results: [add_all_inv], [add_all_repr], [forest_height]. *)
From LV Require Import Base.Bytes Model.Obj Model.DocQ Model.Outline Spec.OutlineSpec Proofs.OutlineProofs.

Local Open Scope N_scope.

Definition bdata_of (o : bop) : bdata :=
  {| b_title := op_title o; b_format := op_format o; b_color := op_color o; b_page := op_page o |}.
Definition sop_of (o : bop) : sop := (bdata_of o, op_parent o).

(* ---------- index_from ---------- *)
Lemma index_from_app {A} (l1 l2 : list A) : forall s,
  index_from s (l1 ++ l2) = index_from s l1 ++ index_from (s + N.of_nat (length l1)) l2.
Proof.
  induction l1 as [|x l1 IH]; intro s; cbn [app index_from length].
  - f_equal. lia.
  - f_equal. rewrite IH. f_equal. f_equal. lia.
Qed.

Lemma index_from_In {A} (l : list A) : forall s i x, In (i, x) (index_from s l) -> s <= i < s + N.of_nat (length l).
Proof.
  induction l as [|y l IH]; intros s i x H; cbn [index_from In length] in *; [tauto|].
  destruct H as [H|H]; [inversion H; lia|]. apply IH in H. lia.
Qed.

(* ---------- the table ---------- *)
Lemma tbl_get_set t k v k' : tbl_get (tbl_set t k v) k' = if k =? k' then Some v else tbl_get t k'.
Proof.
  induction t as [|[k0 v0] t IH]; cbn [tbl_set tbl_get]; [reflexivity|].
  destruct (k0 =? k) eqn:E0.
  - apply N.eqb_eq in E0. subst k0. cbn [tbl_get]. destruct (k =? k'); reflexivity.
  - cbn [tbl_get]. destruct (k0 =? k') eqn:E1.
    + apply N.eqb_eq in E1. subst k0. rewrite N.eqb_sym, E0. reflexivity.
    + exact IH.
Qed.

Lemma tbl_set_length_new t k v : tbl_get t k = None -> length (tbl_set t k v) = S (length t).
Proof.
  induction t as [|[k0 v0] t IH]; cbn [tbl_set tbl_get length]; [reflexivity|].
  destruct (k0 =? k); [discriminate|]. intro H. cbn [length]. rewrite IH by exact H. reflexivity.
Qed.

Lemma tbl_set_length_old t k v : tbl_get t k <> None -> length (tbl_set t k v) = length t.
Proof.
  induction t as [|[k0 v0] t IH]; cbn [tbl_set tbl_get length]; [congruence|].
  destruct (k0 =? k); [reflexivity|]. intro H. cbn [length]. rewrite IH by exact H. reflexivity.
Qed.

(* ---------- invariant of add_all ---------- *)
Definition entry_ok (tbl : btable) (iops : list (N * sop)) (i : N) (s : sop) : Prop :=
  exists bm, tbl_get tbl i = Some bm /\
             bm_title bm = b_title (fst s) /\ bm_format bm = b_format (fst s) /\
             bm_color bm = b_color (fst s) /\ bm_page bm = b_page (fst s) /\
             bm_children bm = map fst (filter (is_child_of i) iops).

Record inv (d : doc) (pre : list bop) (b : bdoc) : Prop := {
  inv_base : base b = d;
  inv_max : max_bookmark_id b = N.of_nat (length pre);
  inv_roots : bookmarks b = map fst (filter is_root (index_from 1 (map sop_of pre)));
  inv_tbl : forall i s, In (i, s) (index_from 1 (map sop_of pre)) ->
                        entry_ok (bookmark_table b) (index_from 1 (map sop_of pre)) i s;
  inv_none : forall i, i = 0 \/ N.of_nat (length pre) < i -> tbl_get (bookmark_table b) i = None;
  inv_len : length (bookmark_table b) = length pre;
}.

Lemma inv_fresh d : inv d [] (fresh_bdoc d).
Proof. constructor; try reflexivity. intros i s []. Qed.

Lemma inv_step d pre b o : inv d pre b -> inv d (pre ++ [o]) (add_op b o).
Proof.
  intros [Hbase Hmax Hroots Htbl Hnone Hlen].
  set (n := length pre) in *.
  set (iops := index_from 1 (map sop_of pre)) in *.
  set (id := N.of_nat n + 1).
  set (e' := (id, sop_of o)).
  assert (Hiops : index_from 1 (map sop_of (pre ++ [o])) = iops ++ [e']).
  { rewrite map_app, index_from_app, map_length. cbn [map index_from]. fold n.
    replace (1 + N.of_nat n) with id by (unfold id; lia). reflexivity. }
  assert (Hrange : forall i s, In (i, s) iops -> 1 <= i <= N.of_nat n).
  { intros i s Hin. apply index_from_In in Hin. rewrite map_length in Hin. fold n in Hin. lia. }
  assert (Hlen' : length (pre ++ [o]) = S n) by (rewrite app_length; cbn [length]; lia).
  (* shape of the new state *)
  set (bm' := set_id (new_bookmark (op_title o) (op_color o) (op_format o) (op_page o)) id).
  set (tbl := bookmark_table b) in *.
  set (tbl1 := match op_parent o with
               | Some p => match tbl_get tbl p with Some pb => tbl_set tbl p (push_child pb id) | None => tbl end
               | None => tbl
               end).
  assert (Hadd : add_op b o = {| base := base b; max_bookmark_id := id;
                                 bookmarks := match op_parent o with None => bookmarks b ++ [id] | Some _ => bookmarks b end;
                                 bookmark_table := tbl_set tbl1 id bm' |}).
  { unfold add_op, add_bookmark. rewrite Hmax. fold n id bm' tbl. unfold tbl1.
    destruct (op_parent o) as [p|]; [destruct (tbl_get tbl p)|]; reflexivity. }
  (* lookups in tbl1 *)
  assert (Hget1 : forall i, tbl_get tbl1 i =
            match op_parent o with
            | Some p => match tbl_get tbl p with
                        | Some pb => if p =? i then Some (push_child pb id) else tbl_get tbl i
                        | None => tbl_get tbl i
                        end
            | None => tbl_get tbl i
            end).
  { intro i. unfold tbl1. destruct (op_parent o) as [p|]; [|reflexivity].
    destruct (tbl_get tbl p); [apply tbl_get_set | reflexivity]. }
  assert (Hid_none : tbl_get tbl1 id = None).
  { rewrite Hget1. assert (Hn : tbl_get tbl id = None) by (apply Hnone; right; unfold id; lia).
    destruct (op_parent o) as [p|]; [|exact Hn].
    destruct (tbl_get tbl p) eqn:Ep; [|exact Hn].
    destruct (p =? id) eqn:E; [apply N.eqb_eq in E; subst p; congruence | exact Hn]. }
  rewrite Hadd. constructor; cbn [base max_bookmark_id bookmarks bookmark_table].
  - exact Hbase.
  - rewrite Hlen'. unfold id. lia.
  - rewrite Hiops, filter_app, map_app, Hroots. cbn [filter].
    change (is_root e') with (match op_parent o with None => true | Some _ => false end).
    destruct (op_parent o); cbn [map fst app e']; [rewrite app_nil_r|]; reflexivity.
  - rewrite Hiops. intros i s Hin. apply in_app_or in Hin. destruct Hin as [Hin|Hin].
    + (* an older bookmark *)
      destruct (Hrange i s Hin) as [Hi1 Hi2].
      destruct (Htbl i s Hin) as [bm [Hg [Ht [Hf [Hc [Hp Hch]]]]]].
      unfold entry_ok. rewrite tbl_get_set.
      replace (id =? i) with false by (symmetry; apply N.eqb_neq; unfold id; lia).
      rewrite Hget1, filter_app, map_app. cbn [filter]. unfold is_child_of at 2. cbn [e' snd fst sop_of].
      destruct (op_parent o) as [p|].
      * destruct (tbl_get tbl p) as [pb|] eqn:Ep.
        -- destruct (p =? i) eqn:E.
           ++ apply N.eqb_eq in E. subst p. rewrite Hg in Ep. inversion Ep; subst pb.
              replace (i <? id) with true by (symmetry; apply N.ltb_lt; unfold id; lia). cbn [andb map fst].
              eexists. split; [reflexivity|]. cbn [push_child bm_title bm_format bm_color bm_page bm_children].
              repeat split; try assumption. rewrite Hch. reflexivity.
           ++ cbn [andb map]. rewrite app_nil_r. exists bm. repeat split; assumption.
        -- replace (p =? i) with false
             by (symmetry; apply N.eqb_neq; intro; subst p; congruence).
           cbn [andb map]. rewrite app_nil_r. exists bm. repeat split; assumption.
      * cbn [map]. rewrite app_nil_r. exists bm. repeat split; assumption.
    + (* the new bookmark *)
      destruct Hin as [Hin|[]]. inversion Hin; subst i s. clear Hin.
      unfold entry_ok. rewrite tbl_get_set, N.eqb_refl. exists bm'. split; [reflexivity|].
      repeat split.
      assert (Hnil : forall l : list (N * sop), (forall e, In e l -> fst e <= id) -> filter (is_child_of id) l = []).
      { induction l as [|e l IH]; intro Hl; [reflexivity|]. cbn [filter].
        replace (is_child_of id e) with false.
        - apply IH. intros e0 H0. apply Hl. right. exact H0.
        - symmetry. unfold is_child_of. destruct (snd (snd e)); [|reflexivity].
          replace (id <? fst e) with false; [apply andb_false_r|].
          symmetry. apply N.ltb_ge. apply Hl. left. reflexivity. }
      rewrite Hnil; [reflexivity|].
      intros [i s] Hin. apply in_app_or in Hin. destruct Hin as [Hin|[Hin|[]]].
      * cbn [fst]. destruct (Hrange i s Hin). unfold id. lia.
      * inversion Hin. cbn [fst]. lia.
  - intros i Hi. rewrite Hlen' in Hi. rewrite tbl_get_set.
    replace (id =? i) with false by (symmetry; apply N.eqb_neq; unfold id; lia).
    assert (Hn : tbl_get tbl i = None) by (apply Hnone; lia).
    rewrite Hget1. destruct (op_parent o) as [p|]; [|exact Hn].
    destruct (tbl_get tbl p) eqn:Ep; [|exact Hn].
    destruct (p =? i) eqn:E; [apply N.eqb_eq in E; subst p; congruence | exact Hn].
  - rewrite Hlen', tbl_set_length_new by exact Hid_none. f_equal.
    unfold tbl1. destruct (op_parent o) as [p|]; [|exact Hlen].
    destruct (tbl_get tbl p) eqn:Ep; [|exact Hlen].
    rewrite tbl_set_length_old by congruence. exact Hlen.
Qed.

Theorem add_all_inv d ops : inv d ops (add_all (fresh_bdoc d) ops).
Proof.
  induction ops as [|o ops IH] using rev_ind; [apply inv_fresh|].
  unfold add_all. rewrite fold_left_app. cbn [fold_left]. apply inv_step. exact IH.
Qed.

(* ---------- from the invariant to the represented forest ---------- *)
Lemma iid_tree_of fuel iops e : iid (tree_of fuel iops e) = fst e.
Proof. destruct fuel; reflexivity. Qed.

Lemma tree_of_repr tbl iops n :
  (forall i s, In (i, s) iops -> entry_ok tbl iops i s) ->
  (forall i s, In (i, s) iops -> 1 <= i <= N.of_nat n) ->
  forall fuel e, In e iops -> (N.to_nat (N.of_nat n - fst e) < fuel)%nat -> trepr tbl (tree_of fuel iops e).
Proof.
  intros Htbl Hrange. induction fuel as [|f IH]; intros [i s] Hin Hf; [lia|].
  cbn [tree_of fst snd]. destruct (Htbl i s Hin) as [bm [Hg [Ht [Hfm [Hc [Hp Hch]]]]]].
  apply (TR tbl i (fst s) _ bm); try assumption.
  - rewrite Hch, map_map. apply map_ext. intro e. symmetry. apply iid_tree_of.
  - apply Forall_forall. intros t Ht'. apply in_map_iff in Ht'. destruct Ht' as [[j s'] [<- Hj]].
    apply filter_In in Hj. destruct Hj as [Hj Hc'].
    apply IH; [exact Hj|]. cbn [fst] in *.
    unfold is_child_of in Hc'. cbn [fst snd] in Hc'. destruct (snd s'); [|discriminate].
    apply andb_true_iff in Hc'. destruct Hc' as [_ Hlt]. apply N.ltb_lt in Hlt.
    destruct (Hrange j s' Hj). destruct (Hrange i s Hin). lia.
Qed.

Lemma iheight_tree_of iops : forall fuel e, (iheight (tree_of fuel iops e) <= S fuel)%nat.
Proof.
  induction fuel as [|f IH]; intro e; cbn [tree_of]; rewrite iheight_node; [cbn; lia|].
  apply le_n_S. induction (filter (is_child_of (fst e)) iops) as [|k ks IHk]; [cbn; lia|].
  cbn [map]. rewrite fheight_cons. specialize (IH k). lia.
Qed.

Lemma forest_height ops : (fheight (forest_of_ops (map sop_of ops)) <= S (length ops))%nat.
Proof.
  unfold forest_of_ops. rewrite map_length.
  induction (filter is_root (index_from 1 (map sop_of ops))) as [|k ks IH]; [cbn; lia|].
  cbn [map]. rewrite fheight_cons. pose proof (iheight_tree_of (index_from 1 (map sop_of ops)) (length ops) k). lia.
Qed.

Theorem add_all_repr d ops :
  let b := add_all (fresh_bdoc d) ops in
  let f := forest_of_ops (map sop_of ops) in
  base b = d /\
  bookmarks b = map iid f /\
  Forall (trepr (bookmark_table b)) f /\
  default_fuel b = S (length ops).
Proof.
  intros b f. destruct (add_all_inv d ops) as [Hbase Hmax Hroots Htbl Hnone Hlen]. fold b in Hbase, Hmax, Hroots, Htbl, Hnone, Hlen.
  set (iops := index_from 1 (map sop_of ops)) in *.
  assert (Hrange : forall i s, In (i, s) iops -> 1 <= i <= N.of_nat (length ops)).
  { intros i s Hin. apply index_from_In in Hin. rewrite map_length in Hin. lia. }
  split; [exact Hbase|]. split; [|split].
  - rewrite Hroots. unfold f, forest_of_ops. fold iops. rewrite map_map. apply map_ext.
    intro e. symmetry. apply iid_tree_of.
  - unfold f, forest_of_ops. fold iops. rewrite map_length.
    apply Forall_forall. intros t Ht. apply in_map_iff in Ht. destruct Ht as [[i s] [<- Hi]].
    apply filter_In in Hi. destruct Hi as [Hi _].
    apply (tree_of_repr _ iops (length ops) Htbl Hrange); [exact Hi|].
    destruct (Hrange i s Hi). cbn [fst]. lia.
  - unfold default_fuel. rewrite Hlen. reflexivity.
Qed.

(* ---------- orphans ----------
   A call whose parent id is 0, its own id or a later id attaches the bookmark nowhere: it is
   neither a root nor anybody's child in the denoted forest. *)
Lemma orphan_nowhere (ops : list sop) k d p :
  In (k, (d, Some p)) (index_from 1 ops) -> (p = 0 \/ k <= p) ->
  is_root (k, (d, Some p)) = false /\
  forall e, In e (index_from 1 ops) -> is_child_of (fst e) (k, (d, Some p)) = false.
Proof.
  intros Hin Hp. split; [reflexivity|].
  intros [i s] Hi. unfold is_child_of. cbn [fst snd].
  apply index_from_In in Hi. destruct Hp as [->|Hp].
  - replace (0 =? i) with false by (symmetry; apply N.eqb_neq; lia). reflexivity.
  - destruct (p =? i) eqn:E; [|reflexivity]. apply N.eqb_eq in E. subst p.
    replace (i <? k) with false by (symmetry; apply N.ltb_ge; lia). reflexivity.
Qed.
