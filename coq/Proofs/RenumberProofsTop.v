(* RenumberProofsTop.v -- C10, part 5: the known-finding class as a boolean predicate, the
   theorems in the form used by Props/C10.v, witnesses and refutations. *)
From LV Require Import Base.Bytes Model.Obj Model.DocQ Model.PageTree Model.Traverse Model.Renumber Model.RenumberV0 Model.RenumberV1
  Spec.RenumberSpec Proofs.RenumberProofsMap Proofs.RenumberProofsTrav Proofs.RenumberProofsTravO Proofs.RenumberProofs Proofs.RenumberProofsDense.

(* ---------- reachable ids, computed ---------- *)
Definition reach_list (tr : dict) (m : objmap) : list oid :=
  match traverse_objects (fun x => x) (trav_fuel tr m) tr m with
  | Some (_, _, refs) => refs
  | None => []
  end.

Lemma reachf_id tr m x : reachf (fun y => y) tr m x <-> reach tr m x.
Proof.
  split; induction 1; [apply reach_root | eapply reach_step | apply (reachf_root (fun y => y)) | eapply (reachf_step (fun y => y))]; eauto.
Qed.

Lemma reach_list_spec tr m x : In x (reach_list tr m) <-> reach tr m x.
Proof.
  unfold reach_list. destruct (traverse_spec (fun y => y) tr m (trav_fuel tr m) (le_n _)) as [m' [refs [E [_ [H _]]]]].
  rewrite E. rewrite H. apply reachf_id.
Qed.

(* ---------- the ids a document uses ---------- *)
Definition bm_targets (d : rdoc) : list oid := map (fun kb => bm_page (snd kb)) (bm_table d).

Definition used (d : rdoc) (x : oid) : Prop :=
  has_obj (d_objects (base d)) x \/ reach (d_trailer (base d)) (d_objects (base d)) x \/ In x (bm_targets d).

(* KnownClass (finding C10 dangling-in-range, FIXED in /repo): the inputs on which the code before the repair
   (Model/RenumberV1.v) could fail, decided on the input: some reference reachable from the trailer, or some
   bookmark target, names no object and its number lies in [start, start+n).  No theorem about the current
   code has this hypothesis any more; the predicate is kept for the refutation on the old model and because
   Proofs/EditProofs*.v (C11) name it in their domain. *)
Definition KnownClass (start : N) (d : rdoc) : bool :=
  let m := d_objects (base d) in
  existsb (fun x => negb (mem_oid x (map fst m)) && (start <=? fst x)%N && (fst x <? start + N.of_nat (length m))%N)
          (reach_list (d_trailer (base d)) m ++ bm_targets d).

Lemma not_known_out start d :
  KnownClass start d = false ->
  forall x, used d x -> ~ has_obj (d_objects (base d)) x ->
            ~ (start <= fst x < start + N.of_nat (length (d_objects (base d))))%N.
Proof.
  unfold KnownClass. intros H x U Hn [R1 R2].
  assert (Hin : In x (reach_list (d_trailer (base d)) (d_objects (base d)) ++ bm_targets d)).
  { apply in_app_iff. destruct U as [U|[U|U]]; [contradiction | left; apply reach_list_spec; exact U | right; exact U]. }
  assert (K : existsb (fun x => negb (mem_oid x (map fst (d_objects (base d)))) && (start <=? fst x)%N &&
                               (fst x <? start + N.of_nat (length (d_objects (base d))))%N)
                      (reach_list (d_trailer (base d)) (d_objects (base d)) ++ bm_targets d) = true).
  { apply existsb_exists. exists x. split; [exact Hin|].
    replace (mem_oid x (map fst (d_objects (base d)))) with false by (symmetry; apply mem_oid_nIn; exact Hn).
    cbn [negb andb]. apply andb_true_iff. split; [apply N.leb_le | apply N.ltb_lt]; assumption. }
  congruence.
Qed.

Definition fits (start : N) (d : rdoc) : Prop :=
  (start + N.of_nat (length (d_objects (base d))) <= 4294967296)%N.

(* ---------- dense pass, stated on documents ---------- *)
Theorem dense_pass_iso start d :
  sorted_keys (d_objects (base d)) -> fits start d ->
  exists d' rho,
    dense_pass start d = Done d' /\
    inj_on (has_obj (d_objects (base d))) rho /\
    d_trailer (base d') = rename_dict_o (live (d_objects (base d)) rho) (d_trailer (base d)) /\
    (forall id, reach (d_trailer (base d)) (d_objects (base d)) id -> has_obj (d_objects (base d)) id ->
                lookup (d_objects (base d')) (rho id) =
                option_map (rename_o (live (d_objects (base d)) rho)) (lookup (d_objects (base d)) id)) /\
    (forall id, has_obj (d_objects (base d)) id -> ~ reach (d_trailer (base d)) (d_objects (base d)) id ->
                lookup (d_objects (base d')) (rho id) = lookup (d_objects (base d)) id) /\
    bm_table d' = renumber_bookmarks_with
                    (live_or (d_objects (base d)) rho (no_page start (map fst (d_objects (base d))))) (bm_table d) /\
    map fst (d_objects (base d')) = dense_ids (map fst (d_objects (base d))) start /\
    d_max_id (base d') = dense_max d start /\
    (forall x, reach (d_trailer (base d')) (d_objects (base d')) x <->
               exists id, reach (d_trailer (base d)) (d_objects (base d)) id /\ has_obj (d_objects (base d)) id /\ x = rho id) /\
    bookmarks d' = bookmarks d /\ d_version (base d') = d_version (base d) /\ d_binary_mark (base d') = d_binary_mark (base d).
Proof.
  intros S F.
  destruct (dense_pass_spec d start S) as [d' [rho H]].
  - unfold fits in F. unfold U32_MAX. lia.
  - exists d', rho. intuition.
Qed.

(* the numbers are start, start+1, ...; the generations are kept in order; max_id is the last number *)
Corollary dense_numbers start d d' :
  map fst (d_objects (base d')) = dense_ids (map fst (d_objects (base d))) start ->
  map fst (map fst (d_objects (base d'))) = nums_from start (length (d_objects (base d))) /\
  map snd (map fst (d_objects (base d'))) = map snd (map fst (d_objects (base d))).
Proof.
  intro H. rewrite H, dense_ids_nums, dense_ids_gens, map_length. auto.
Qed.

Lemma nums_from_last s n : n <> 0 -> last (nums_from s n) 0%N = (s + N.of_nat n - 1)%N.
Proof.
  revert s. induction n as [|n IH]; intros s H; [congruence|]. cbn [nums_from].
  destruct n as [|n]; [cbn; lia|]. change (last (s :: nums_from (s + 1) (S n)) 0%N) with (last (nums_from (s + 1) (S n)) 0%N).
  rewrite IH by discriminate. lia.
Qed.

Corollary dense_max_is_last start d :
  d_objects (base d) <> [] ->
  dense_max d start = last (nums_from start (length (d_objects (base d)))) 0%N.
Proof.
  intro H. rewrite nums_from_last by (destruct (d_objects (base d)); [congruence | discriminate]).
  unfold dense_max. destruct (d_objects (base d)); [congruence | reflexivity].
Qed.

(* consequences named in the property text *)
Corollary dense_deref_same d d' rho id o :
  (forall id, reach (d_trailer (base d)) (d_objects (base d)) id ->
              lookup (d_objects (base d')) (rho id) = option_map (rename rho) (lookup (d_objects (base d)) id)) ->
  reach (d_trailer (base d)) (d_objects (base d)) id -> lookup (d_objects (base d)) id = Some o ->
  lookup (d_objects (base d')) (rho id) = Some (rename rho o).
Proof. intros H R L. rewrite H by exact R. rewrite L. reflexivity. Qed.

Corollary dense_dangling_stays d d' rho id :
  (forall id, reach (d_trailer (base d)) (d_objects (base d)) id ->
              lookup (d_objects (base d')) (rho id) = option_map (rename rho) (lookup (d_objects (base d)) id)) ->
  reach (d_trailer (base d)) (d_objects (base d)) id -> lookup (d_objects (base d)) id = None ->
  lookup (d_objects (base d')) (rho id) = None.
Proof. intros H R L. rewrite H by exact R. rewrite L. reflexivity. Qed.

(* no panic exactly when the numbers fit *)
Theorem dense_pass_panics start d :
  (start <= U32_MAX)%N -> d_objects (base d) <> [] -> ~ fits start d -> dense_pass start d = Panic.
Proof.
  intros Hs Hne Hf. unfold dense_pass. rewrite dense_replace_overflow; auto.
  - destruct (d_objects (base d)); [congruence | discriminate].
  - rewrite map_length. unfold fits in Hf. unfold U32_MAX. lia.
Qed.

(* ---------- witnesses ---------- *)
Definition S_ (s : String.string) : obj := OStr (bs s) false.
Definition page_of (parent : N) (name : String.string) : obj :=
  ODict [(K_Type, OName K_Page); (K_Parent, ORef parent 0); (bs "Name", S_ name)].
Arguments S_ _%string_scope.
Arguments page_of _%N _%string_scope.
Definition mkdoc (tr : dict) (m : objmap) (mx : N) : doc :=
  {| d_version := bs "1.5"; d_binary_mark := []; d_trailer := tr; d_objects := m; d_max_id := mx |}.
Definition mkrdoc (b : doc) (bms : list (option N * oid)) : rdoc :=
  fold_left (fun acc s => add_bookmark acc (snd s) (fst s)) bms
            {| base := b; max_bookmark_id := 0; bookmarks := []; bm_table := [] |}.

(* DESIGN 7: objects {1,2,3,4,9} and a dangling `5 0 R` held by the catalog *)
Definition ex_dangling : rdoc :=
  mkrdoc (mkdoc [(K_Root, ORef 1 0); (bs "Nine", ORef 9 0)]
     [((1,0), ODict [(K_Type, OName (bs "Catalog")); (K_Pages, ORef 2 0); (bs "Gone", ORef 5 0)]);
      ((2,0), ODict [(K_Type, OName K_Pages); (K_Kids, OArr [ORef 3 0; ORef 4 0]); (K_Count, OInt 2)]);
      ((3,0), page_of 2 "a"); ((4,0), page_of 2 "b"); ((9,0), ODict [(bs "Tag", S_ "nine")])]%N 9) [].

Definition holds_ref (m : objmap) (id : oid) (k : bytes) : option obj :=
  match lookup m id with Some (ODict dd) => dict_get dd k | _ => None end.

Theorem dangling_refuted :
  exists d', renumber_objects_with_v1 1 ex_dangling = Done d' /\
    KnownClass 1 ex_dangling = true /\
    reach (d_trailer (base ex_dangling)) (d_objects (base ex_dangling)) (5, 0)%N /\
    lookup (d_objects (base ex_dangling)) (5, 0)%N = None /\
    holds_ref (d_objects (base ex_dangling)) (1, 0)%N (bs "Gone") = Some (ORef 5 0) /\
    holds_ref (d_objects (base d')) (1, 0)%N (bs "Gone") = Some (ORef 5 0) /\
    lookup (d_objects (base d')) (5, 0)%N = lookup (d_objects (base ex_dangling)) (9, 0)%N /\
    lookup (d_objects (base d')) (5, 0)%N <> None.
Proof.
  eexists. split; [vm_compute; reflexivity|]. split; [vm_compute; reflexivity|]. split.
  - eapply reach_step; [apply reach_root; left; reflexivity | vm_compute; reflexivity | vm_compute; auto].
  - repeat split; try (vm_compute; reflexivity). vm_compute. discriminate.
Qed.

(* the same input on the repaired code: the dangling reference is written as what it denotes, null;
   number 5 is still given to old object 9, and nothing that meant "no object" points to it *)
Theorem dangling_repaired :
  exists d', renumber_objects_with 1 ex_dangling = Done d' /\
    holds_ref (d_objects (base d')) (1, 0)%N (bs "Gone") = Some ONull /\
    lookup (d_objects (base d')) (5, 0)%N = lookup (d_objects (base ex_dangling)) (9, 0)%N /\
    d_trailer (base d') = [(K_Root, ORef 1 0); (bs "Nine", ORef 5 0)]%N.
Proof. eexists. split; [vm_compute; reflexivity|]. repeat split; vm_compute; reflexivity. Qed.

(* a bookmark whose page names no object, start 0, first object of generation 0: the pinned code leaves the
   target (0,0), which then names the object numbered 0; the repaired code writes the "no page" id (0,1) *)
Definition ex_bm0 : rdoc :=
  mkrdoc (mkdoc [(K_Root, ORef 4 0)]
     [((4,0), ODict [(K_Type, OName (bs "Catalog"))]); ((7,0), ODict [(bs "Tag", S_ "seven")])]%N 7)
    [(None, (0,0)); (None, (7,0)); (None, (2,0))]%N.

Theorem dangling_bookmark_refuted :
  exists d0 d1, renumber_objects_with_v1 0 ex_bm0 = Done d0 /\ renumber_objects_with 0 ex_bm0 = Done d1 /\
    map (fun kb => bm_page (snd kb)) (bm_table ex_bm0) = [(0,0); (7,0); (2,0)]%N /\
    lookup (d_objects (base ex_bm0)) (0,0)%N = None /\
    map (fun kb => bm_page (snd kb)) (bm_table d0) = [(0,0); (1,0); (2,0)]%N /\
    lookup (d_objects (base d0)) (0,0)%N <> None /\
    map (fun kb => bm_page (snd kb)) (bm_table d1) = [(0,1); (1,0); (0,1)]%N /\
    lookup (d_objects (base d1)) (0,1)%N = None.
Proof.
  do 2 eexists. split; [vm_compute; reflexivity|]. split; [vm_compute; reflexivity|].
  repeat split; try (vm_compute; reflexivity). vm_compute. discriminate.
Qed.

(* two pages whose ids are swapped with respect to page order, bookmarks on both, an unreachable
   object, a dangling reference outside the new range, generations, a cycle *)
Definition ex_swap : rdoc :=
  mkrdoc (mkdoc [(K_Root, ORef 1 0); (bs "Far", ORef 77 0)]
     [((1,0), ODict [(K_Type, OName (bs "Catalog")); (K_Pages, ORef 2 0)]);
      ((2,0), ODict [(K_Type, OName K_Pages); (K_Kids, OArr [ORef 8 1; ORef 3 0]); (K_Count, OInt 2)]);
      ((3,0), page_of 2 "second"); ((6,0), ODict [(bs "Orphan", ORef 3 0)]); ((8,1), page_of 2 "first")]%N 8)
    [(None, (8,1)); (None, (3,0)); (Some 1, (3,0))]%N.

Lemma ex_swap_sorted : sorted_keys (d_objects (base ex_swap)).
Proof. unfold sorted_keys. vm_compute. repeat constructor. Qed.

Theorem ex_swap_hyps :
  sorted_keys (d_objects (base ex_swap)) /\ fits 1 ex_swap /\ KnownClass 1 ex_swap = false /\
  page_iter (base ex_swap) = [(8,1); (3,0)]%N /\
  exists d', renumber_objects_with 1 ex_swap = Done d' /\
    map fst (d_objects (base d')) = [(1,0); (2,0); (3,0); (4,0); (5,1)]%N /\
    page_iter (base d') = [(3,0); (5,1)]%N /\
    map (fun kb => bm_page (snd kb)) (bm_table d') = [(3,0); (5,1); (5,1)]%N /\
    d_max_id (base d') = 5%N.
Proof.
  split; [exact ex_swap_sorted|]. split; [unfold fits; vm_compute; discriminate|].
  split; [vm_compute; reflexivity|]. split; [vm_compute; reflexivity|].
  eexists. split; [vm_compute; reflexivity|]. repeat split; vm_compute; reflexivity.
Qed.

(* ---------- refutations of the property on the pinned code (model RenumberV0) ---------- *)
(* sequential renaming of bookmark targets: pages 5 and 3 swap; the pinned code renames 5 -> 3 and then
   3 -> 5 one after the other, so afterwards all three bookmarks name the same page; the repaired code
   keeps them apart *)
Definition ex_swap0 : rdoc :=
  mkrdoc (mkdoc [(K_Root, ORef 1 0)]
     [((1,0), ODict [(K_Type, OName (bs "Catalog")); (K_Pages, ORef 2 0)]);
      ((2,0), ODict [(K_Type, OName K_Pages); (K_Kids, OArr [ORef 5 0; ORef 3 0]); (K_Count, OInt 2)]);
      ((3,0), page_of 2 "second"); ((5,0), page_of 2 "first")]%N 5)
    [(None, (5,0)); (None, (3,0)); (Some 1, (3,0))]%N.

Theorem bookmarks_v0_refuted :
  exists d0 d1, renumber_objects_with_v0 1 ex_swap0 = Done d0 /\ renumber_objects_with 1 ex_swap0 = Done d1 /\
    map (fun kb => bm_page (snd kb)) (bm_table ex_swap0) = [(5,0); (3,0); (3,0)]%N /\
    map (fun kb => bm_page (snd kb)) (bm_table d0) = [(4,0); (4,0); (4,0)]%N /\
    map (fun kb => bm_page (snd kb)) (bm_table d1) = [(3,0); (4,0); (4,0)]%N /\
    page_iter (base d1) = [(3,0); (4,0)]%N.
Proof. do 2 eexists. split; [vm_compute; reflexivity|]. split; [vm_compute; reflexivity|]. repeat split; vm_compute; reflexivity. Qed.

Definition ex_twice : rdoc :=
  mkrdoc (mkdoc [(K_Root, ORef 1 0)]
     [((1,0), ODict [(K_Type, OName (bs "Catalog")); (K_Pages, ORef 2 0)]);
      ((2,0), ODict [(K_Type, OName K_Pages); (K_Kids, OArr [ORef 3 0; ORef 5 0; ORef 3 0]); (K_Count, OInt 3)]);
      ((3,0), page_of 2 "a"); ((5,0), page_of 2 "b")]%N 5) [].

Theorem page_twice_v0_refuted :
  exists d0 d1, renumber_objects_with_v0 1 ex_twice = Done d0 /\ renumber_objects_with 1 ex_twice = Done d1 /\
    length (d_objects (base ex_twice)) = 4 /\ length (d_objects (base d0)) = 3 /\ length (d_objects (base d1)) = 4.
Proof. do 2 eexists. split; [vm_compute; reflexivity|]. split; [vm_compute; reflexivity|]. repeat split. Qed.

Definition ex_gens : rdoc :=
  mkrdoc (mkdoc [(K_Root, ORef 1 0)]
     [((1,0), ODict [(K_Type, OName (bs "Catalog")); (K_Pages, ORef 2 0)]);
      ((2,0), ODict [(K_Type, OName K_Pages); (K_Kids, OArr [ORef 7 0; ORef 8 0; ORef 5 0; ORef 5 1]); (K_Count, OInt 4)]);
      ((5,0), page_of 2 "c"); ((5,1), page_of 2 "d"); ((7,0), page_of 2 "a"); ((8,0), page_of 2 "b")]%N 8) [].

Theorem page_generations_v0_refuted :
  exists d0 d1, renumber_objects_with_v0 1 ex_gens = Done d0 /\ renumber_objects_with 1 ex_gens = Done d1 /\
    length (d_objects (base ex_gens)) = 6 /\ length (d_objects (base d0)) = 5 /\ length (d_objects (base d1)) = 6.
Proof. do 2 eexists. split; [vm_compute; reflexivity|]. split; [vm_compute; reflexivity|]. repeat split. Qed.

Definition ex_empty : rdoc := mkrdoc (mkdoc [] [] 0) [].
Definition ex_one : rdoc := mkrdoc (mkdoc [(K_Root, ORef 5 0)] [((5,0), ODict [(bs "Self", ORef 5 0)])]%N 5) [].

Theorem u32_v0_refuted :
  renumber_objects_with_v0 0 ex_empty = Panic /\
  renumber_objects_with_v0 4294967295 ex_one = Panic /\
  (exists d', renumber_objects_with 0 ex_empty = Done d' /\ d_max_id (base d') = 0%N) /\
  (exists d', renumber_objects_with 4294967295 ex_one = Done d' /\
              map fst (d_objects (base d')) = [(4294967295, 0)]%N /\ d_max_id (base d') = 4294967295%N).
Proof.
  split; [vm_compute; reflexivity|]. split; [vm_compute; reflexivity|].
  split; eexists; (split; [vm_compute; reflexivity|]); repeat split.
Qed.
