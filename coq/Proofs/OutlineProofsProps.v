(* OutlineProofsProps.v -- C17: the statements of Props/C17.v that are re-packagings of
   [build_outline_ok] (fresh ids, per-item titles and destinations) and the non-vacuity example. *)
From LV Require Import Base.Bytes Model.Obj Model.DocQ Model.PageTree Model.Outline Model.Toc Gen.QueryC
  Spec.OutlineSpec Proofs.OutlineProofs Proofs.OutlineProofsTitle Proofs.OutlineProofsRead
  Proofs.OutlineProofsOps Proofs.OutlineProofsMain.

Local Open Scope N_scope.

(* ---------- every node of the forest ---------- *)
Fixpoint onodes (t : otree) : list otree :=
  match t with ONode _ _ _ ks => t :: flat_map onodes ks end.

(* what the property asks of one item: its title (decodable by the reader to the very string that
   was given) and a go-to action whose destination is its page *)
Definition item_carries (get : N -> option dict) (t : otree) : Prop :=
  match t with
  | ONode id info bd kids =>
    exists d a,
      get id = Some d /\ get info = Some a /\
      dict_get d K_Title = Some (OStr (title_bytes (b_title bd)) false) /\
      dict_get d K_A = Some (ORef info 0) /\
      dict_get d K_F = Some (OInt (Z.of_N (b_format bd))) /\
      dict_get a K_S = Some (OName K_GoTo) /\
      dict_get a K_D = Some (OArr [ORef (fst (b_page bd)) (snd (b_page bd)); OName K_Fit])
  end.

Lemma items_ok_nodes get p prev l :
  items_ok get p prev l -> Forall (item_carries get) (flat_map onodes l).
Proof.
  induction 1 as [|parent prev id info bd kids rest d a Hd Hi Ha Hao Hk IHk Hr IHr]; [constructor|].
  cbn [flat_map onodes]. cbn [app]. constructor.
  - exists d, a. destruct Hi, Hao. repeat split; assumption.
  - apply Forall_app. split; assumption.
Qed.

(* ---------- fresh identifiers ---------- *)
Theorem outline_ids_fresh b f fuel :
  bookmarks b = map iid f -> f <> [] ->
  Forall (trepr (bookmark_table b)) f ->
  (fheight f <= fuel)%nat ->
  let m0 := d_max_id (base b) in
  let m' := m0 + 1 + 2 * N.of_nat (fsize f) in
  m' < U32_LIMIT ->
  exists f' b',
    numbered (m0 + 1) f f' m' /\
    build_outline fuel b = OOk (Some (m0 + 1, 0), b') /\
    (* the outline root gets m0+1 and the items and actions m0+2 .. m', in preorder *)
    (m0 + 1) :: flat_map oids f' = nseq (m0 + 1) (S (2 * fsize f)) /\
    NoDup ((m0 + 1) :: flat_map oids f') /\
    Forall (fun k => m0 < k) ((m0 + 1) :: flat_map oids f') /\
    d_max_id (base b') = m' /\
    (* nothing else changes, every id in (m0, m'] is a dictionary now *)
    (forall id, ~ created m0 m' id -> lookup (d_objects (base b')) id = lookup (d_objects (base b)) id) /\
    (forall id, created m0 m' id -> exists d, lookup (d_objects (base b')) id = Some (ODict d)).
Proof.
  intros Hroots Hne Htr Hfuel m0 m' Hlim.
  destruct (build_outline_ok b f fuel Hroots Hne Htr Hfuel Hlim)
    as [f' [b' [Hnum [Hbuild [Hmax' [_ [_ [Hframe Hcreated]]]]]]]].
  exists f', b'. split; [exact Hnum|]. split; [exact Hbuild|].
  assert (E : (m0 + 1) :: flat_map oids f' = nseq (m0 + 1) (S (2 * fsize f))).
  { rewrite (numbered_oids _ _ _ _ Hnum). cbn [nseq]. reflexivity. }
  split; [exact E|]. rewrite E. split; [apply nseq_NoDup|]. split.
  - apply Forall_forall. intros k Hk. apply nseq_In in Hk. lia.
  - split; [exact Hmax'|]. split; assumption.
Qed.

(* ---------- titles and destinations ---------- *)
Theorem titles_and_dests b f fuel :
  bookmarks b = map iid f -> f <> [] ->
  Forall (trepr (bookmark_table b)) f ->
  (fheight f <= fuel)%nat ->
  let m0 := d_max_id (base b) in
  let m' := m0 + 1 + 2 * N.of_nat (fsize f) in
  m' < U32_LIMIT ->
  exists f' b',
    numbered (m0 + 1) f f' m' /\
    build_outline fuel b = OOk (Some (m0 + 1, 0), b') /\
    Forall (item_carries (get_of (d_objects (base b')))) (flat_map onodes f').
Proof.
  intros Hroots Hne Htr Hfuel m0 m' Hlim.
  destruct (build_outline_ok b f fuel Hroots Hne Htr Hfuel Hlim)
    as [f' [b' [Hnum [Hbuild [_ [_ [[Hitems _] _]]]]]]].
  exists f', b'. split; [exact Hnum|]. split; [exact Hbuild|].
  eapply items_ok_nodes. exact Hitems.
Qed.

(* ---------- example ---------- *)
Lemma max_id_bounds_check d :
  forallb (fun io => fst (fst io) <=? d_max_id d) (d_objects d) = true -> max_id_bounds d.
Proof.
  intros H id o Hl. apply lookup_In in Hl. rewrite forallb_forall in H.
  specialize (H _ Hl). cbn [fst] in H. apply N.leb_le. exact H.
Qed.

Lemma scalar_titles_check f :
  forallb (fun r : row => forallb is_scalar (row_title r)) (preorder f) = true -> scalar_titles f.
Proof.
  intro H. unfold scalar_titles. apply Forall_forall. intros r Hr.
  rewrite forallb_forall in H. specialize (H r Hr). apply Forall_forall. intros c Hc.
  rewrite forallb_forall in H. exact (H c Hc).
Qed.

Lemma targets_check d f :
  forallb (fun r : row => match page_num (get_pages d) (snd r) with Some _ => true | None => false end) (preorder f) = true ->
  targets_are_pages d f.
Proof.
  intro H. unfold targets_are_pages. apply Forall_forall. intros r Hr.
  rewrite forallb_forall in H. specialize (H r Hr). cbv beta in H.
  destruct (page_num (get_pages d) (snd r)) as [n|]; [exists n; reflexivity | discriminate].
Qed.

Definition K_Catalog := Eval cbv in bs "Catalog".
Definition ex_cat : dict := [(K_Type, OName K_Catalog); (K_Pages, ORef 2 0)].
Definition ex_doc : doc :=
  {| d_version := bs "1.5"; d_binary_mark := [];
     d_trailer := [(K_Root, ORef 1 0)];
     d_objects := [((1, 0), ODict ex_cat);
                   ((2, 0), ODict [(K_Type, OName K_Pages); (K_Kids, OArr [ORef 3 0; ORef 4 0]); (K_Count, OInt 2)]);
                   ((3, 0), ODict [(K_Type, OName K_Page); (K_Parent, ORef 2 0)]);
                   ((4, 0), ODict [(K_Type, OName K_Page); (K_Parent, ORef 2 0)])];
     d_max_id := 4 |}.

Definition no_color : bytes * bytes * bytes := (bs "0", bs "0", bs "0").
(* "A" (root, page 3); "Bé𝄞" (child of 1, page 4: Latin-1 and astral characters); an orphan whose
   parent id 9 does not exist; "C" (root, page 4); "" (child of 1, page 3: the empty title) *)
Definition ex_ops : list bop :=
  [ {| op_title := [65]; op_format := 0; op_color := no_color; op_page := (3, 0); op_parent := None |};
    {| op_title := [66; 233; 119070]; op_format := 2; op_color := no_color; op_page := (4, 0); op_parent := Some 1 |};
    {| op_title := [122; 122]; op_format := 0; op_color := no_color; op_page := (3, 0); op_parent := Some 9 |};
    {| op_title := [67]; op_format := 1; op_color := no_color; op_page := (4, 0); op_parent := None |};
    {| op_title := []; op_format := 0; op_color := no_color; op_page := (3, 0); op_parent := Some 1 |} ].

Definition ex_forest : list itree := forest_of_ops (map sop_of ex_ops).

Definition ex_toc : list toc_entry :=
  [ {| te_level := 1; te_title := [65]; te_page := 1 |};
    {| te_level := 2; te_title := [66; 233; 119070]; te_page := 2 |};
    {| te_level := 2; te_title := []; te_page := 1 |};
    {| te_level := 1; te_title := [67]; te_page := 2 |} ].

Definition ex_built : bdoc :=
  match build_outline 6 (add_all (fresh_bdoc ex_doc) ex_ops) with
  | OOk (_, b') => b'
  | _ => fresh_bdoc ex_doc
  end.
Definition ex_final : doc := attach (base ex_built) (1, 0) (5, 0).

Lemma ex_hyps :
  ex_forest <> [] /\
  max_id_bounds ex_doc /\
  d_max_id ex_doc + 1 + 2 * N.of_nat (fsize ex_forest) < U32_LIMIT /\
  root_id ex_doc = Some (1, 0) /\
  get_object_mut_id (d_objects ex_doc) (1, 0) = Some ((1, 0), ODict ex_cat) /\
  no_name_trees ex_cat /\
  distinct_titles ex_forest /\ scalar_titles ex_forest /\
  N.of_nat (fheight ex_forest) <= OUTLINE_DEPTH_LIMIT + 1 /\
  (fsize ex_forest <= 4)%nat /\
  build_outline (default_fuel (add_all (fresh_bdoc ex_doc) ex_ops)) (add_all (fresh_bdoc ex_doc) ex_ops)
    = OOk (Some (5, 0), ex_built) /\
  targets_are_pages ex_final ex_forest /\
  expected_toc ex_final ex_forest = ex_toc /\
  get_toc 4 ex_final = TOk ex_toc 0.
Proof.
  split; [vm_compute; discriminate|].
  split; [apply max_id_bounds_check; vm_compute; reflexivity|].
  split; [vm_compute; reflexivity|].
  split; [reflexivity|]. split; [vm_compute; reflexivity|].
  split; [split; reflexivity|].
  split.
  { unfold distinct_titles. vm_compute.
    repeat (constructor; [intro H; repeat (destruct H as [H|H]; [discriminate H|]); exact H|]). constructor. }
  split; [apply scalar_titles_check; vm_compute; reflexivity|].
  split; [vm_compute; discriminate|].
  split; [vm_compute; lia|].
  split; [vm_compute; reflexivity|].
  split; [apply targets_check; vm_compute; reflexivity|].
  split; vm_compute; reflexivity.
Qed.

(* ---------- example with zero-page parents (adjust_zero_pages) ----------
   A(0,0)[ B(0,0)[ B1 -> page 4 ], C -> page 3 ],  D(0,7)[ E -> page 3 ] *)
Definition zop (t : N) (pg : oid) (par : option N) : bop :=
  {| op_title := [t]; op_format := 0; op_color := no_color; op_page := pg; op_parent := par |}.
Definition zero_ops : list bop :=
  [ zop 65 (0, 0) None; zop 66 (0, 0) (Some 1); zop 67 (3, 0) (Some 1); zop 98 (4, 0) (Some 2);
    zop 68 (0, 7) None; zop 69 (3, 0) (Some 5) ].
Definition zero_forest : list itree := forest_of_ops (map sop_of zero_ops).
Definition zero_adjusted : bdoc :=
  match adjust_zero_pages 7 (add_all (fresh_bdoc ex_doc) zero_ops) with
  | OOk b1 => b1
  | _ => fresh_bdoc ex_doc
  end.
Definition zero_final : doc :=
  match build_outline 7 zero_adjusted with
  | OOk (_, b') => attach (base b') (1, 0) (5, 0)
  | _ => ex_doc
  end.
Fixpoint tree_pages (t : itree) : list (N * oid) :=
  match t with INode i d ks => (i, b_page d) :: flat_map tree_pages ks end.

Lemma zero_example :
  let b := add_all (fresh_bdoc ex_doc) zero_ops in
  adjust_zero_pages (default_fuel b) b = OOk zero_adjusted /\
  (* the pages in the table are those of the specification [fix_tree] *)
  (forall i p, In (i, p) (flat_map tree_pages (map fix_tree zero_forest)) <->
               exists bm, tbl_get (bookmark_table zero_adjusted) i = Some bm /\ bm_page bm = p) /\
  flat_map tree_pages (map fix_tree zero_forest) = [(1, (4, 0)); (2, (4, 0)); (4, (4, 0)); (3, (3, 0)); (5, (3, 0)); (6, (3, 0))] /\
  bookmarks zero_adjusted = bookmarks b /\
  (exists b', build_outline (default_fuel zero_adjusted) zero_adjusted = OOk (Some (5, 0), b') /\
              attach (base b') (1, 0) (5, 0) = zero_final) /\
  get_toc 6 zero_final = TOk (expected_toc zero_final (map fix_tree zero_forest)) 0 /\
  map te_page (expected_toc zero_final (map fix_tree zero_forest)) = [2; 2; 2; 1; 1; 1] /\
  map te_level (expected_toc zero_final (map fix_tree zero_forest)) = [1; 2; 3; 2; 1; 2].
Proof.
  cbv zeta.
  split; [vm_compute; reflexivity|].
  split.
  { assert (E : flat_map tree_pages (map fix_tree zero_forest)
                = [(1, (4, 0)); (2, (4, 0)); (4, (4, 0)); (3, (3, 0)); (5, (3, 0)); (6, (3, 0))]) by (vm_compute; reflexivity).
    rewrite E. intros i p. split.
    - intro H. repeat (destruct H as [H|H]; [inversion H; subst; eexists; split; vm_compute; reflexivity|]). destruct H.
    - intros [bm [Hg Hp]].
      destruct (N.eq_dec i 1) as [->|]; [vm_compute in Hg; inversion Hg; subst; vm_compute; tauto|].
      destruct (N.eq_dec i 2) as [->|]; [vm_compute in Hg; inversion Hg; subst; vm_compute; tauto|].
      destruct (N.eq_dec i 3) as [->|]; [vm_compute in Hg; inversion Hg; subst; vm_compute; tauto|].
      destruct (N.eq_dec i 4) as [->|]; [vm_compute in Hg; inversion Hg; subst; vm_compute; tauto|].
      destruct (N.eq_dec i 5) as [->|]; [vm_compute in Hg; inversion Hg; subst; vm_compute; tauto|].
      destruct (N.eq_dec i 6) as [->|]; [vm_compute in Hg; inversion Hg; subst; vm_compute; tauto|].
      exfalso. revert Hg. unfold zero_adjusted. vm_compute (adjust_zero_pages _ _). cbn [bookmark_table tbl_get].
      repeat match goal with |- context [(?a =? i)] => replace (a =? i) with false by (symmetry; apply N.eqb_neq; lia) end.
      discriminate. }
  split; [vm_compute; reflexivity|].
  split; [vm_compute; reflexivity|].
  split; [eexists; split; vm_compute; reflexivity|].
  split; [vm_compute; reflexivity|].
  split; vm_compute; reflexivity.
Qed.

(* ---------- the First-nesting limit of get_outlines: forests higher than OUTLINE_DEPTH_LIMIT + 1 ---------- *)
Definition too_deep (f : list itree) : bool := (OUTLINE_DEPTH_LIMIT + 1 <? N.of_nat (fheight f))%N.

(* a chain: bookmark k+1 is the only child of bookmark k; titles are the distinct letters U+0400+k *)
Fixpoint chain_ops (n : nat) (k : N) : list bop :=
  match n with
  | O => []
  | S n' => {| op_title := [1024 + k]; op_format := 0; op_color := no_color; op_page := (3, 0);
               op_parent := if (k =? 0)%N then None else Some k |} :: chain_ops n' (k + 1)
  end.
Definition deep_ops : list bop := chain_ops 258 0.
Definition deep_forest : list itree := forest_of_ops (map sop_of deep_ops).
Definition deep_final : doc :=
  match build_outline 259 (add_all (fresh_bdoc ex_doc) deep_ops) with
  | OOk (_, b') => attach (base b') (1, 0) (5, 0)
  | _ => ex_doc
  end.

Fixpoint ueqb (a b : ustring) : bool :=
  match a, b with
  | [], [] => true
  | x :: a', y :: b' => (x =? y) && ueqb a' b'
  | _, _ => false
  end.
Lemma ueqb_eq a : forall b, ueqb a b = true -> a = b.
Proof.
  induction a as [|x a IH]; intros [|y b] H; try discriminate; [reflexivity|].
  cbn [ueqb] in H. apply andb_true_iff in H. destruct H as [H1 H2]. apply N.eqb_eq in H1. subst. f_equal. apply IH. exact H2.
Qed.
Lemma ueqb_refl a : ueqb a a = true.
Proof. induction a as [|x a IH]; [reflexivity|]. cbn [ueqb]. rewrite N.eqb_refl. exact IH. Qed.
Fixpoint nodupb (l : list ustring) : bool :=
  match l with [] => true | x :: r => negb (existsb (ueqb x) r) && nodupb r end.
Lemma nodupb_sound l : nodupb l = true -> NoDup l.
Proof.
  induction l as [|x r IH]; intro H; [constructor|].
  cbn [nodupb] in H. apply andb_true_iff in H. destruct H as [H1 H2]. constructor; [|apply IH; exact H2].
  intro Hin. apply negb_true_iff in H1. assert (E : existsb (ueqb x) r = true).
  { apply existsb_exists. exists x. split; [exact Hin | apply ueqb_refl]. }
  congruence.
Qed.

Lemma deep_witness :
  too_deep deep_forest = true /\
  fheight deep_forest = 258%nat /\
  deep_forest <> [] /\
  distinct_titles deep_forest /\ scalar_titles deep_forest /\
  targets_are_pages deep_final deep_forest /\
  (exists b', build_outline (default_fuel (add_all (fresh_bdoc ex_doc) deep_ops)) (add_all (fresh_bdoc ex_doc) deep_ops)
              = OOk (Some (5, 0), b') /\ attach (base b') (1, 0) (5, 0) = deep_final) /\
  get_toc 1000 deep_final = TErr.
Proof.
  split; [vm_compute; reflexivity|].
  split; [vm_compute; reflexivity|].
  split; [vm_compute; discriminate|].
  split; [unfold distinct_titles; apply nodupb_sound; vm_compute; reflexivity|].
  split; [apply scalar_titles_check; vm_compute; reflexivity|].
  split; [apply targets_check; vm_compute; reflexivity|].
  split; [eexists; split; [vm_compute; reflexivity | vm_compute; reflexivity]|].
  vm_compute. reflexivity.
Qed.
