(* TextProofsExtract.v -- text shown with a predefined one-byte encoding over the table's
   repertoire is what extract_text returns (with the layout separators of Spec/ShownText.v). *)
From LV Require Import Base.Bytes Model.Utf Model.Obj Model.OneByte Model.TextExtract Gen.Tables
  Spec.ShownText Proofs.TextProofsUtf Proofs.TextProofsTables.
Local Open Scope N_scope.

(* the operations that show a list of pieces with font resource [fname] whose encoding is [t] *)
Definition item_obj (t : table) (i : item) : obj :=
  match i with
  | IText s hex => OStr (string_to_bytes t s) hex
  | IAdjust k => OInt k
  end.

Definition piece_op (t : table) (p : piece) : op :=
  match p with
  | PTj s hex => (K_Tj, [OStr (string_to_bytes t s) hex])
  | PTJ items => (K_TJ, [OArr (map (item_obj t) items)])
  end.

Definition K_BT := Eval cbv in bs "BT".

Definition show_ops (fname : bytes) (size : obj) (t : table) (ps : list piece) : list op :=
  (K_BT, []) :: (K_Tf, [OName fname; size]) :: map (piece_op t) ps ++ [(K_ET, [])].

Definition page_showing (fname : bytes) (font : dict) (size : obj) (t : table) (ps : list piece) : page :=
  {| p_fonts := [(fname, font)]; p_ops := show_ops fname size t ps |}.

(* ---- collect_text on the shown operands ---- *)
Lemma collect_obj_arr enc arr text :
  collect_obj enc (OArr arr) text =
  let '(t, e) := collect_text enc arr text in
  match e with None => (t ++ [32], None) | Some _ => (t, e) end.
Proof.
  cbn [collect_obj].
  match goal with |- (let '(t, e) := ?f arr text in _) = _ => set (go := f) end.
  assert (E : forall l tx, go l tx = collect_text enc l tx).
  { induction l as [|x l IH]; intro tx; [reflexivity|].
    subst go. cbn [collect_text]. destruct (collect_obj enc x tx) as [t1 [e1|]]; [reflexivity|].
    apply IH. }
  rewrite E. reflexivity.
Qed.

Section Shown.
  Variable t : table.
  Hypothesis Ht : In t reachable_tables.
  Let enc := EncOneByte t.
  Let R := in_repertoire t.

  Lemma collect_str s hex text :
    Forall R s -> collect_obj enc (OStr (string_to_bytes t s) hex) text = (text ++ s, None).
  Proof.
    intro H. cbn [collect_obj enc_bytes_to_string enc]. rewrite (repertoire_rt t Ht s H). reflexivity.
  Qed.

  Lemma collect_items items text :
    Forall (item_over R) items ->
    collect_text enc (map (item_obj t) items) text = (text ++ concat (map item_text items), None).
  Proof.
    intro H. revert text. induction H as [|i items Hi _ IH]; intro text.
    - cbn. rewrite app_nil_r. reflexivity.
    - cbn [map collect_text concat]. destruct i as [s hex|k].
      + cbn [item_obj item_text]. rewrite (collect_str s hex text Hi). rewrite IH, app_assoc. reflexivity.
      + cbn [item_obj item_text collect_obj].
        change TJ_SPACE_THRESHOLD with (-100)%Z.
        destruct (k <? -100)%Z; rewrite IH; [rewrite app_assoc|rewrite app_nil_l]; reflexivity.
  Qed.

  Lemma step_piece encs text chunks p :
    piece_over R p ->
    step encs {| cur_enc := Some enc; cur_text := text; rchunks := chunks |} (piece_op t p) =
    Ok {| cur_enc := Some enc; cur_text := text ++ piece_text p; rchunks := chunks |}.
  Proof.
    intro H. destruct p as [s hex|items]; cbn [piece_op piece_text piece_over] in *.
    - change (step encs {| cur_enc := Some enc; cur_text := text; rchunks := chunks |}
                   (K_Tj, [OStr (string_to_bytes t s) hex]))
        with (match collect_text enc [OStr (string_to_bytes t s) hex] text with
              | (t', None) => Ok {| cur_enc := Some enc; cur_text := t'; rchunks := chunks |}
              | (t', Some (SErr e)) => Ok {| cur_enc := Some enc; cur_text := t'; rchunks := Err e :: chunks |}
              | (_, Some SPanic) => Panic
              | (_, Some SUnmodelled) => Unmodelled
              end).
      cbn [collect_text]. rewrite (collect_str s hex text H). reflexivity.
    - change (step encs {| cur_enc := Some enc; cur_text := text; rchunks := chunks |}
                   (K_TJ, [OArr (map (item_obj t) items)]))
        with (match collect_text enc [OArr (map (item_obj t) items)] text with
              | (t', None) => Ok {| cur_enc := Some enc; cur_text := t'; rchunks := chunks |}
              | (t', Some (SErr e)) => Ok {| cur_enc := Some enc; cur_text := t'; rchunks := Err e :: chunks |}
              | (_, Some SPanic) => Panic
              | (_, Some SUnmodelled) => Unmodelled
              end).
      cbn [collect_text]. rewrite collect_obj_arr, (collect_items items text H).
      rewrite app_assoc. reflexivity.
  Qed.

  Lemma run_pieces encs text chunks ps rest :
    Forall (piece_over R) ps ->
    run_ops encs {| cur_enc := Some enc; cur_text := text; rchunks := chunks |} (map (piece_op t) ps ++ rest) =
    run_ops encs {| cur_enc := Some enc; cur_text := text ++ concat (map piece_text ps); rchunks := chunks |} rest.
  Proof.
    intro H. revert text. induction H as [|p ps Hp _ IH]; intro text.
    - cbn. rewrite app_nil_r. reflexivity.
    - cbn [map app run_ops concat]. rewrite (step_piece encs text chunks p Hp). rewrite IH, app_assoc. reflexivity.
  Qed.

  (* no shown character is a line feed, so ET always ends the line *)
  Lemma item_no_nl i : item_over R i -> Forall (fun c => c <> 10) (item_text i).
  Proof.
    destruct i as [s hex|k]; cbn [item_over item_text]; intro H.
    - eapply Forall_impl; [|exact H]. intros c Hc. exact (repertoire_no_newline t Ht c Hc).
    - destruct (k <? -100)%Z; repeat constructor. discriminate.
  Qed.

  Lemma concat_Forall {A} (P : A -> Prop) (ls : list (list A)) : Forall (Forall P) ls -> Forall P (concat ls).
  Proof. induction 1; cbn; [constructor|]. apply Forall_app. split; assumption. Qed.

  Lemma piece_no_nl p : piece_over R p -> Forall (fun c => c <> 10) (piece_text p).
  Proof.
    destruct p as [s hex|items]; cbn [piece_over piece_text]; intro H.
    - eapply Forall_impl; [|exact H]. intros c Hc. exact (repertoire_no_newline t Ht c Hc).
    - apply Forall_app. split; [|repeat constructor; discriminate].
      apply concat_Forall. apply Forall_map. eapply Forall_impl; [|exact H]. apply item_no_nl.
  Qed.

  Lemma pieces_no_nl ps : Forall (piece_over R) ps -> Forall (fun c => c <> 10) (concat (map piece_text ps)).
  Proof.
    intro H. apply concat_Forall. apply Forall_map. eapply Forall_impl; [|exact H]. apply piece_no_nl.
  Qed.

  Lemma ends_with_nl_false s : Forall (fun c => c <> 10) s -> ends_with_nl s = false.
  Proof.
    intro H. unfold ends_with_nl. destruct (rev s) as [|c r] eqn:E; [reflexivity|].
    apply N.eqb_neq. rewrite Forall_forall in H. apply H. apply in_rev. rewrite E. left. reflexivity.
  Qed.

  (* (3) *)
  Theorem extract_shown_text_table :
    forall fname font size ps,
      get_font_encoding font = Ok (EncOneByte t) ->
      Forall (piece_over R) ps ->
      extract_text [page_showing fname font size t ps] [1] = Ok (shown_text ps) /\
      extract_text_chunks [page_showing fname font size t ps] [1] = Ok [Ok (shown_text ps)].
  Proof.
    intros fname font size ps Hf Hps.
    assert (Hc : page_chunks (page_showing fname font size t ps) = Ok [Ok (shown_text ps)]).
    { unfold page_chunks, page_showing. cbn [p_fonts p_ops].
      change (sort_fonts [(fname, font)]) with [(fname, font)].
      cbn [page_encodings]. rewrite Hf. cbn [rev]. unfold show_ops.
      cbn [run_ops].
      change (step [(fname, EncOneByte t)] {| cur_enc := None; cur_text := []; rchunks := [] |} (K_BT, []))
        with (Ok {| cur_enc := None; cur_text := []; rchunks := [] |}).
      cbv iota.
      change (step [(fname, EncOneByte t)] {| cur_enc := None; cur_text := []; rchunks := [] |}
                   (K_Tf, [OName fname; size]))
        with (Ok {| cur_enc := assoc_bytes fname [(fname, EncOneByte t)]; cur_text := []; rchunks := [] |}).
      cbv iota. cbn [assoc_bytes]. rewrite bytes_eqb_refl.
      fold enc. rewrite (run_pieces _ [] [] ps _ Hps). cbn [app run_ops].
      change (step [(fname, enc)] {| cur_enc := Some enc; cur_text := concat (map piece_text ps); rchunks := [] |} (K_ET, []))
        with (if ends_with_nl (concat (map piece_text ps))
              then Ok {| cur_enc := Some enc; cur_text := concat (map piece_text ps); rchunks := [] |}
              else Ok {| cur_enc := Some enc; cur_text := concat (map piece_text ps) ++ [10]; rchunks := [] |}).
      rewrite (ends_with_nl_false _ (pieces_no_nl ps Hps)).
      cbn [cur_text rchunks]. fold (shown_text ps).
      unfold shown_text. destruct (concat (map piece_text ps)); reflexivity. }
    assert (Hk : extract_text_chunks [page_showing fname font size t ps] [1] = Ok [Ok (shown_text ps)]).
    { cbn [extract_text_chunks].
      change (nth_page [page_showing fname font size t ps] 1) with (Some (page_showing fname font size t ps)).
      cbv iota. rewrite Hc. reflexivity. }
    split; [|exact Hk].
    unfold extract_text. rewrite Hk. reflexivity.
  Qed.
End Shown.

(* for any font dictionary that selects a predefined one-byte encoding *)
Theorem extract_shown_text :
  forall font t fname size ps,
    get_font_encoding font = Ok (EncOneByte t) ->
    Forall (piece_over (in_repertoire t)) ps ->
    extract_text [page_showing fname font size t ps] [1] = Ok (shown_text ps).
Proof.
  intros font t fname size ps Hf Hps.
  exact (proj1 (extract_shown_text_table t (font_encoding_reachable font t Hf) fname font size ps Hf Hps)).
Qed.

(* non-vacuity: "Hello" / [(W) -120 (orld)] with WinAnsiEncoding *)
Definition ex_font : dict :=
  [(K_Type, OName K_Font); (K_Encoding, OName (bs "WinAnsiEncoding"))].
Definition ex_pieces : list piece :=
  [PTj [72; 233; 108; 108; 111] false; PTJ [IText [87] true; IAdjust (-120); IText [111; 114; 108; 100; 8364] false]].

Lemma ex_shown :
  exists t, get_font_encoding ex_font = Ok (EncOneByte t) /\
            Forall (piece_over (in_repertoire t)) ex_pieces /\
            extract_text [page_showing (bs "F1") ex_font (OInt 12) t ex_pieces] [1] =
              Ok [72; 233; 108; 108; 111; 87; 32; 111; 114; 108; 100; 8364; 32; 10].
Proof.
  eexists. split; [vm_compute; reflexivity|]. split.
  - repeat constructor; try (exists (byte_of_N 72); vm_compute; reflexivity);
      try (exists (byte_of_N 233); vm_compute; reflexivity);
      try (exists (byte_of_N 108); vm_compute; reflexivity);
      try (exists (byte_of_N 111); vm_compute; reflexivity);
      try (exists (byte_of_N 87); vm_compute; reflexivity);
      try (exists (byte_of_N 114); vm_compute; reflexivity);
      try (exists (byte_of_N 100); vm_compute; reflexivity);
      try (exists (byte_of_N 128); vm_compute; reflexivity).
  - vm_compute. reflexivity.
Qed.
