(* CMapParserProofs.v -- the fuel of Model/CMapParser.v is sufficient: no input makes the model of
   the CMap grammar answer POutOfFuel, and every element parser of a repetition (many0 / many1 /
   separated_list1 / fold_many0) consumes at least one byte, which is why nom's "parser did not
   consume" guards of those combinators can never fire and need no model.

   Method: one predicate [res_ok Q p] = "p is not POutOfFuel, and if p = POk _ rest then
   Q (length rest)"; every parser gets a lemma with Q = "at most / less than the length of its
   input"; a fuelled loop started with fuel > length of its input never reaches fuel 0. *)
From LV Require Import Base.Bytes Model.CMap Model.CMapParser Gen.CMapC.

Definition res_ok {A} (Q : nat -> Prop) (p : pres A) : Prop :=
  match p with POk _ r => Q (length r) | POutOfFuel => False | _ => True end.

Notation le_res n := (res_ok (fun k => k <= n)%nat).
Notation lt_res n := (res_ok (fun k => k < n)%nat).

Lemma res_ok_bind {A B} (Q Q' : nat -> Prop) (p : pres A) (f : A -> bytes -> pres B) :
  res_ok Q p -> (forall a r, Q (length r) -> res_ok Q' (f a r)) -> res_ok Q' (pbind p f).
Proof. destruct p; cbn; auto; tauto. Qed.

Lemma res_ok_weaken {A} (Q Q' : nat -> Prop) (p : pres A) :
  (forall k, Q k -> Q' k) -> res_ok Q p -> res_ok Q' p.
Proof. destruct p; cbn; auto. Qed.

Lemma res_ok_not_oof {A} Q (p : pres A) : res_ok Q p -> p <> POutOfFuel.
Proof. destruct p; cbn; congruence || tauto. Qed.

(* ---------- the functions that only skip ---------- *)
Lemma space0_len s : (length (space0 s) <= length s)%nat.
Proof. induction s as [|c s IH]; cbn [space0 length]; [lia|]. destruct (is_sp c || is_tab c); cbn [length]; lia. Qed.

Ltac maxes :=
  repeat match goal with
  | |- context [Nat.max ?a ?b] =>
    let H := fresh in destruct (Nat.max_spec a b) as [[? H]|[? H]]; rewrite H in *; clear H
  | H0 : context [Nat.max ?a ?b] |- _ =>
    let H := fresh in destruct (Nat.max_spec a b) as [[? H]|[? H]]; rewrite H in *; clear H
  end.

Lemma skip_ws_len ws : forall s pending,
  (length (skip_ws ws s pending) <=
   match pending with Some st => Nat.max (length st) (length s) | None => length s end)%nat.
Proof.
  induction s as [|c s IH]; intros [st|]; cbn [skip_ws length]; try (maxes; unfold bytes in *; lia).
  - destruct (is_cr c || is_lf c).
    + pose proof (IH None) as H. cbn beta iota in H. maxes; unfold bytes in *; lia.
    + pose proof (IH (Some st)) as H. cbn beta iota in H. maxes; unfold bytes in *; lia.
  - destruct (ws c).
    + pose proof (IH None) as H. cbn beta iota in H. lia.
    + destruct (beq c x25).
      * pose proof (IH (Some (c :: s))) as H. cbn beta iota in H. cbn [length] in H. maxes; unfold bytes in *; lia.
      * cbn [length]. lia.
Qed.

Lemma multispace0_len s : (length (multispace0 s) <= length s)%nat.
Proof. exact (skip_ws_len cmap_ws s None). Qed.
Lemma pdf_space_len s : (length (pdf_space s) <= length s)%nat.
Proof. exact (skip_ws_len pdf_ws s None). Qed.

Lemma digit0_len s : (length (digit0 s) <= length s)%nat.
Proof. induction s as [|c s IH]; cbn [digit0 length]; [lia|]. destruct (is_dig c); cbn [length]; lia. Qed.

(* ---------- tactics ---------- *)
Ltac pose_new pf :=
  let T := type of pf in
  lazymatch goal with
  | H : T |- _ => fail
  | _ => pose proof pf
  end.

Ltac len_facts :=
  repeat match goal with
  | |- context [space0 ?x] => pose_new (space0_len x)
  | H : context [space0 ?x] |- _ => pose_new (space0_len x)
  | |- context [multispace0 ?x] => pose_new (multispace0_len x)
  | H : context [multispace0 ?x] |- _ => pose_new (multispace0_len x)
  | |- context [pdf_space ?x] => pose_new (pdf_space_len x)
  | H : context [pdf_space ?x] |- _ => pose_new (pdf_space_len x)
  | |- context [digit0 ?x] => pose_new (digit0_len x)
  | H : context [digit0 ?x] |- _ => pose_new (digit0_len x)
  end.

Ltac fin := cbn beta in *; len_facts; cbn [length] in *; unfold bytes in *; lia.

Create HintDb cmres.

Ltac base := solve [eauto 3 with cmres].

Ltac chain :=
  lazymatch goal with
  | |- res_ok _ (pbind _ _) =>
    eapply res_ok_bind; [ base | intros ? ? ?; cbn beta in *; chain ]
  | |- res_ok _ (POk _ _) => cbn [res_ok]; fin
  | |- _ => eapply res_ok_weaken; [| base]; cbn beta; intros; fin
  end.

(* ---------- leaves ---------- *)
Lemma strip_len : forall t s r, strip t s = Some r -> length s = (length t + length r)%nat.
Proof.
  induction t as [|x t IH]; intros s r H; cbn [strip] in H.
  - inversion H; reflexivity.
  - destruct s as [|y s]; [discriminate|]. destruct (byte_eqb x y); [|discriminate].
    apply IH in H. cbn [length]. lia.
Qed.

Lemma tag_res t s : res_ok (fun k => length s = (length t + k)%nat) (tag t s).
Proof. unfold tag. destruct (strip t s) eqn:E; cbn; [apply strip_len; exact E|exact I]. Qed.
#[export] Hint Resolve tag_res : cmres.

Lemma space1_lt s : lt_res (length s) (space1 s).
Proof.
  destruct s as [|c s]; cbn [space1]; [exact I|]. destruct (is_sp c || is_tab c); cbn [res_ok]; [|exact I].
  pose proof (space0_len s). cbn [length]. lia.
Qed.
#[export] Hint Resolve space1_lt : cmres.

Lemma multispace1_lt s : lt_res (length s) (multispace1 s).
Proof.
  unfold multispace1. destruct (length (multispace0 s) <? length s)%nat eqn:E; cbn [res_ok]; [|exact I].
  apply Nat.ltb_lt; exact E.
Qed.
#[export] Hint Resolve multispace1_lt : cmres.

Lemma digit1_lt s : lt_res (length s) (digit1 s).
Proof.
  destruct s as [|c s]; cbn [digit1]; [exact I|]. destruct (is_dig c); cbn [res_ok]; [|exact I].
  pose proof (digit0_len s). cbn [length]. lia.
Qed.
#[export] Hint Resolve digit1_lt : cmres.

Lemma hex_char_lt s : lt_res (length s) (hex_char s).
Proof.
  destruct s as [|a [|b r]]; cbn [hex_char]; try exact I.
  destruct (hexv a); [|exact I]. destruct (hexv b); [|exact I]. cbn [res_ok length]. lia.
Qed.
#[export] Hint Resolve hex_char_lt : cmres.

Lemma hex_chars_len : forall cnt s, (length (snd (hex_chars cnt s)) <= length s)%nat.
Proof.
  induction cnt as [|c IH]; intro s; cbn [hex_chars]; [cbn; lia|].
  pose proof (hex_char_lt s) as H. destruct (hex_char s) as [v r| | | |]; cbn [snd]; try lia.
  cbn [res_ok] in H. specialize (IH r). destruct (hex_chars c r) as [vs r']. cbn [snd] in *. lia.
Qed.

Lemma source_code_lt s : lt_res (length s) (source_code s).
Proof.
  unfold source_code. eapply res_ok_bind; [apply tag_res|]. intros _ r H. cbn beta in H. cbn [length] in H.
  pose proof (hex_chars_len (N.to_nat CMAP_SRC_MAX_BYTES) r) as H1.
  destruct (hex_chars (N.to_nat CMAP_SRC_MAX_BYTES) r) as [vs r']. cbn [snd] in H1.
  destruct vs as [|v vs]; [exact I|]. chain.
Qed.
#[export] Hint Resolve source_code_lt : cmres.

Lemma hex_u16_lt s : lt_res (length s) (hex_u16 s).
Proof. unfold hex_u16. chain. Qed.
#[export] Hint Resolve hex_u16_lt : cmres.

Lemma target_units_len : forall cnt s, (length (snd (target_units cnt s)) <= length s)%nat.
Proof.
  induction cnt as [|c IH]; intro s; cbn [target_units]; [cbn; lia|].
  pose proof (hex_u16_lt s) as H. destruct (hex_u16 s) as [v r| | | |]; cbn [snd]; try lia.
  cbn [res_ok] in H. specialize (IH (multispace0 r)). pose proof (multispace0_len r).
  destruct (target_units c (multispace0 r)) as [vs r']. cbn [snd] in *. lia.
Qed.

Lemma target_string_lt s : lt_res (length s) (target_string s).
Proof.
  unfold target_string. eapply res_ok_bind; [apply tag_res|]. intros _ r H. cbn beta in H. cbn [length] in H.
  pose proof (target_units_len (N.to_nat CMAP_TARGET_MAX_UNITS) r) as H1.
  destruct (target_units (N.to_nat CMAP_TARGET_MAX_UNITS) r) as [vs r']. cbn [snd] in H1.
  destruct vs as [|v vs]; [exact I|]. chain.
Qed.
#[export] Hint Resolve target_string_lt : cmres.

Lemma code_range_pair_lt s : lt_res (length s) (code_range_pair s).
Proof.
  unfold code_range_pair. eapply res_ok_bind; [base|]. intros a r H.
  eapply res_ok_bind; [base|]. intros b r' H'. cbn beta in *.
  destruct (snd a =? snd b)%N; [|exact I]. cbn [res_ok]. fin.
Qed.
#[export] Hint Resolve code_range_pair_lt : cmres.

(* ---------- separated_list1 ---------- *)
Lemma target_list_rest_ok : forall fuel s, (length s < fuel)%nat -> le_res (length s) (target_list_rest fuel s).
Proof.
  induction fuel as [|f IH]; intros s Hf; [lia|]. cbn [target_list_rest].
  pose proof (multispace0_len s) as H1.
  pose proof (target_string_lt (multispace0 s)) as H2.
  destruct (target_string (multispace0 s)) as [v r'| | | |]; cbn [res_ok] in *; try lia.
  eapply res_ok_bind; [apply IH; lia|]. intros vs r'' H3. cbn beta in *. cbn [res_ok]. lia.
Qed.

Lemma range_target_array_lt s : lt_res (length s) (range_target_array s).
Proof.
  unfold range_target_array. eapply res_ok_bind; [apply tag_res|]. intros _ r H.
  eapply res_ok_bind; [base|]. intros v r1 H1.
  eapply res_ok_bind; [apply target_list_rest_ok; lia|]. intros vs r2 H2. cbn beta in *.
  chain.
Qed.
#[export] Hint Resolve range_target_array_lt : cmres.

(* ---------- lines ---------- *)
Lemma bf_range_line_lt s : lt_res (length s) (bf_range_line s).
Proof.
  unfold bf_range_line. eapply res_ok_bind; [base|]. intros rg r H. cbn beta in H. cbv zeta.
  eapply res_ok_bind with (Q := fun k => (k < length (space0 r))%nat).
  - pose proof (target_string_lt (space0 r)) as H1.
    destruct (target_string (space0 r)) as [v r'| | | |]; cbn [res_ok] in *; try tauto.
    apply range_target_array_lt.
  - intros dst r1 H1. cbn beta in *. chain.
Qed.

Lemma bf_char_line_lt s : lt_res (length s) (bf_char_line s).
Proof. unfold bf_char_line. chain. Qed.

Lemma cs_range_line_lt s : lt_res (length s) (cs_range_line s).
Proof. unfold cs_range_line. chain. Qed.

(* ---------- many0 / many1 ---------- *)
Section Many.
  Context {A : Type} (p : bytes -> pres A).
  Hypothesis p_consumes : forall s, lt_res (length s) (p s).

  Lemma many0_ok : forall fuel s, (length s < fuel)%nat -> le_res (length s) (many0 p fuel s).
  Proof.
    induction fuel as [|f IH]; intros s Hf; [lia|]. cbn [many0].
    pose proof (p_consumes s) as H. destruct (p s) as [a r| | | |]; cbn [res_ok] in *; try lia.
    eapply res_ok_bind; [apply IH; lia|]. intros l r' H'. cbn beta in *. cbn [res_ok]. lia.
  Qed.

  Lemma many1_lt s : lt_res (length s) (many1 p s).
  Proof.
    unfold many1. eapply res_ok_bind; [apply p_consumes|]. intros a r H.
    eapply res_ok_bind; [apply many0_ok; lia|]. intros l r' H'. cbn beta in *. cbn [res_ok]. lia.
  Qed.
End Many.

Lemma section_of_lt {A} tb te (line : bytes -> pres A) :
  (forall s, lt_res (length s) (line s)) -> forall s, lt_res (length s) (section_of tb te line s).
Proof.
  intros Hl s. pose proof (many1_lt line Hl) as Hm. unfold section_of. chain.
Qed.

Lemma alt_res {A} Q (p q : bytes -> pres A) s : res_ok Q (p s) -> res_ok Q (q s) -> res_ok Q (alt p q s).
Proof. unfold alt. destruct (p s); cbn; tauto. Qed.

Lemma pmap_res {A B} Q (f : A -> B) (p : bytes -> pres A) s : res_ok Q (p s) -> res_ok Q (pmap f p s).
Proof. unfold pmap. destruct (p s); cbn; tauto. Qed.

Lemma cmap_section_lt s : lt_res (length s) (cmap_section s).
Proof.
  unfold cmap_section. repeat apply alt_res; apply pmap_res; apply section_of_lt.
  - exact cs_range_line_lt.
  - exact bf_char_line_lt.
  - exact bf_range_line_lt.
Qed.

Lemma cmap_codespace_and_mappings_lt s : lt_res (length s) (cmap_codespace_and_mappings s).
Proof. exact (many1_lt cmap_section cmap_section_lt s). Qed.
#[export] Hint Resolve cmap_codespace_and_mappings_lt : cmres.

(* ---------- metadata ---------- *)
Lemma name_body_ok : forall fuel s, (length s < fuel)%nat -> le_res (length s) (name_body fuel s).
Proof.
  induction fuel as [|f IH]; intros s Hf; [lia|]. cbn [name_body].
  destruct s as [|c s']; [cbn; lia|]. cbn [length] in Hf.
  destruct (beq c x23).
  - pose proof (hex_char_lt s') as H. destruct (hex_char s') as [v r| | | |]; cbn [res_ok] in *; try lia.
    eapply res_ok_weaken; [|apply IH; lia]. cbn beta. intros. cbn [length]. lia.
  - destruct (is_regular c); [|cbn; lia].
    eapply res_ok_weaken; [|apply IH; lia]. cbn beta. intros. cbn [length]. lia.
Qed.

Lemma name_lt s : lt_res (length s) (name s).
Proof.
  unfold name. eapply res_ok_bind; [apply tag_res|]. intros _ r H. cbn beta in H. cbn [length] in H.
  eapply res_ok_weaken; [|apply name_body_ok; lia]. cbn beta. intros. lia.
Qed.
#[export] Hint Resolve name_lt : cmres.

Lemma cmap_name_lt s : lt_res (length s) (cmap_name s).
Proof. unfold cmap_name. chain. Qed.

Lemma cmap_type_lt s : lt_res (length s) (cmap_type s).
Proof. unfold cmap_type. chain. Qed.

Lemma plain_string_body_le : forall s, le_res (length s) (plain_string_body s).
Proof.
  induction s as [|c s IH]; cbn [plain_string_body]; [exact I|].
  destruct (beq c x29); [cbn; lia|]. destruct (beq c x28 || beq c x5c); [exact I|].
  eapply res_ok_weaken; [|exact IH]. cbn beta. intros. cbn [length]. lia.
Qed.
#[export] Hint Resolve plain_string_body_le : cmres.

Lemma simple_value_le s : le_res (length s) (simple_value s).
Proof.
  unfold simple_value. destruct s as [|c s']; [exact I|].
  destruct (beq c x2f); [chain|]. destruct (beq c x28); [chain|].
  destruct (is_dig c); [|exact I]. cbv zeta.
  destruct (9 <? _)%nat; [exact I|].
  pose proof (digit0_len s') as H0. destruct (digit0 s') as [|d t]; [cbn; lia|].
  destruct (beq d x2e); [exact I|].
  pose proof (pdf_space_len (d :: t)) as H1.
  destruct (pdf_space (d :: t)) as [|e u]; [cbn; lia|].
  destruct (is_dig e); [exact I|]. cbn [res_ok]. cbn [length] in *. lia.
Qed.
#[export] Hint Resolve simple_value_le : cmres.

Lemma dict_entries_ok (tail : bytes -> pres unit) :
  (forall x, le_res (length x) (tail x)) ->
  forall fuel s, (length s < fuel)%nat -> le_res (length s) (dict_entries tail fuel s).
Proof.
  intro Ht. induction fuel as [|f IH]; intros s Hf; [lia|]. cbn [dict_entries].
  pose proof (name_lt s) as H1. destruct (name s) as [u r| | | |]; cbn [res_ok] in *; try lia.
  pose proof (simple_value_le (pdf_space r)) as H2. pose proof (pdf_space_len r) as H2'.
  destruct (simple_value (pdf_space r)) as [u1 r1| | | |]; cbn [res_ok] in *; try lia.
  pose proof (Ht r1) as H3. destruct (tail r1) as [u2 r2| | | |]; cbn [res_ok] in *; try lia.
  eapply res_ok_weaken; [|apply IH; lia]. cbn beta. intros. lia.
Qed.

Lemma dictionary_le s : le_res (length s) (dictionary s).
Proof.
  unfold dictionary. eapply res_ok_bind; [apply tag_res|]. intros _ r H.
  eapply res_ok_bind.
  - apply dict_entries_ok; [intro x; cbn; lia|]. pose proof (pdf_space_len r).
    lia.
  - intros _ r1 H1. cbn beta in *. chain.
Qed.

Lemma dict_dup_le s : le_res (length s) (dict_dup s).
Proof.
  unfold dict_dup.
  assert (Ht : forall x, le_res (length x) ((fun x => let* (_, y) := tag T_def x in multispace1 y) x)).
  { intro x. cbn beta. chain. }
  pose proof (fun r => dict_entries_ok _ Ht (S (length r)) r (Nat.lt_succ_diag_r _)) as Hd.
  chain.
Qed.

Lemma cid_system_info_le s : le_res (length s) (cid_system_info s).
Proof.
  unfold cid_system_info.
  assert (Ha : forall x, le_res (length x) (alt dictionary dict_dup x)).
  { intro x. apply alt_res; [apply dictionary_le | apply dict_dup_le]. }
  chain.
Qed.

Lemma metadata_item_le s : le_res (length s) (metadata_item s).
Proof.
  unfold metadata_item. repeat apply alt_res.
  - apply cid_system_info_le.
  - eapply res_ok_weaken; [|apply cmap_name_lt]. cbn beta. intros. lia.
  - eapply res_ok_weaken; [|apply cmap_type_lt]. cbn beta. intros. lia.
Qed.
#[export] Hint Resolve metadata_item_le : cmres.

Lemma metadata_upto_le : forall cnt s, le_res (length s) (metadata_upto cnt s).
Proof.
  induction cnt as [|c IH]; intro s; cbn [metadata_upto]; [cbn; lia|].
  pose proof (metadata_item_le s) as H. destruct (metadata_item s) as [u r| | | |]; cbn [res_ok] in *; try lia.
  eapply res_ok_weaken; [|apply IH]. cbn beta. intros. lia.
Qed.
#[export] Hint Resolve metadata_upto_le : cmres.

Lemma cmap_metadata_le s : le_res (length s) (cmap_metadata s).
Proof. unfold cmap_metadata. chain. Qed.
#[export] Hint Resolve cmap_metadata_le : cmres.

(* ---------- frame ---------- *)
Lemma cidinit_procset_le s : le_res (length s) (cidinit_procset s).
Proof.
  unfold cidinit_procset.
  assert (Ha : forall x, le_res (length x) (alt (tag T_ProcSet) (tag T_Procset) x)).
  { intro x. apply alt_res; (eapply res_ok_weaken; [|apply tag_res]); cbn beta; intros; lia. }
  chain.
Qed.
#[export] Hint Resolve cidinit_procset_le : cmres.

Lemma cmap_end_le s : le_res (length s) (cmap_end s).
Proof. unfold cmap_end. chain. Qed.
#[export] Hint Resolve cmap_end_le : cmres.

Lemma cmap_data_le s : le_res (length s) (cmap_data s).
Proof. unfold cmap_data. chain. Qed.
#[export] Hint Resolve cmap_data_le : cmres.

Lemma cmap_resource_dictionary_le s : le_res (length s) (cmap_resource_dictionary s).
Proof. unfold cmap_resource_dictionary. chain. Qed.
#[export] Hint Resolve cmap_resource_dictionary_le : cmres.

Lemma cmap_stream_le s : le_res (length s) (cmap_stream s).
Proof. unfold cmap_stream. chain. Qed.

(* ---------- results ---------- *)
Theorem cmap_stream_fuel : forall s, cmap_stream s <> POutOfFuel.
Proof. intro s. exact (res_ok_not_oof _ _ (cmap_stream_le s)). Qed.

Theorem cmap_parse_fuel : forall s, cmap_parse s <> ParseOutOfFuel.
Proof.
  intro s. unfold cmap_parse. pose proof (cmap_stream_fuel s) as H.
  destruct (cmap_stream s) as [secs r| | | |]; try discriminate; [|congruence].
  destruct (from_sections secs); discriminate.
Qed.

(* every element parser of a repetition consumes: the loop guards of nom's many0 / many1 /
   separated_list1 ("the parser succeeded without consuming") can not fire *)
Definition consumes {A} (p : bytes -> pres A) : Prop :=
  forall s a r, p s = POk a r -> (length r < length s)%nat.

Lemma lt_res_consumes {A} (p : bytes -> pres A) : (forall s, lt_res (length s) (p s)) -> consumes p.
Proof. intros H s a r E. specialize (H s). rewrite E in H. exact H. Qed.

Theorem repetition_elements_consume :
  consumes cmap_section /\ consumes cs_range_line /\ consumes bf_char_line /\ consumes bf_range_line /\
  consumes space1 /\ consumes target_string /\ consumes hex_char /\ consumes hex_u16 /\ consumes name.
Proof.
  repeat split; apply lt_res_consumes.
  - exact cmap_section_lt. - exact cs_range_line_lt. - exact bf_char_line_lt. - exact bf_range_line_lt.
  - exact space1_lt. - exact target_string_lt. - exact hex_char_lt. - exact hex_u16_lt. - exact name_lt.
Qed.
