(* FilterProofsDict.v -- facts about the IndexMap model of Model/Obj.v (dict_get / dict_set / dict_swap_remove)
   needed by the stream-filter proofs.  [dict_wf] (pairwise distinct keys) is what the Rust type IndexMap
   guarantees. *)
From LV Require Import Base.Bytes Model.Obj.
From Coq Require Import Lia List Permutation.
Import ListNotations.

Definition keys (d : dict) : list bytes := map fst d.
Definition dict_wf (d : dict) : Prop := NoDup (keys d).

Lemma dict_get_None d k : dict_get d k = None <-> ~ In k (keys d).
Proof.
  induction d as [|[k' v'] d IH]; cbn [dict_get keys map fst In].
  - tauto.
  - destruct (bytes_eqb k' k) eqn:E.
    + apply bytes_eqb_eq in E. split; [discriminate | intro H; exfalso; apply H; left; exact E].
    + apply bytes_eqb_neq in E. rewrite IH. unfold keys. tauto.
Qed.

Lemma dict_get_In d k v : dict_wf d -> (dict_get d k = Some v <-> In (k, v) d).
Proof.
  unfold dict_wf. induction d as [|[k' v'] d IH]; cbn [dict_get keys map fst In]; intro W.
  - split; [discriminate | tauto].
  - inversion W as [|? ? Hn Hd]; subst.
    destruct (bytes_eqb k' k) eqn:E.
    + apply bytes_eqb_eq in E. subst k'. split.
      * intro H. inversion H. left. reflexivity.
      * intros [H|H]; [inversion H; reflexivity|].
        exfalso. apply Hn. apply (in_map fst) in H. exact H.
    + apply bytes_eqb_neq in E. rewrite (IH Hd). split; [tauto|].
      intros [H|H]; [inversion H; congruence | exact H].
Qed.

Lemma dict_has_In d k : dict_has d k = true <-> In k (keys d).
Proof.
  unfold dict_has. destruct (dict_get d k) eqn:E.
  - split; [intros _|reflexivity].
    destruct (in_dec (list_eq_dec Byte.byte_eq_dec) k (keys d)) as [H|H]; [exact H|].
    apply dict_get_None in H. congruence.
  - apply dict_get_None in E. split; [discriminate | tauto].
Qed.

(* ---- dict_set ---- *)
Lemma dict_get_set_same d k v : dict_get (dict_set d k v) k = Some v.
Proof.
  induction d as [|[k' v'] d IH]; cbn [dict_set dict_get].
  - rewrite bytes_eqb_refl. reflexivity.
  - destruct (bytes_eqb k' k) eqn:E; cbn [dict_get]; rewrite E; [reflexivity | exact IH].
Qed.

Lemma dict_get_set_other d k v k' : k' <> k -> dict_get (dict_set d k v) k' = dict_get d k'.
Proof.
  intro N. induction d as [|[k0 v0] d IH]; cbn [dict_set dict_get].
  - replace (bytes_eqb k k') with false by (symmetry; apply bytes_eqb_neq; congruence). reflexivity.
  - destruct (bytes_eqb k0 k) eqn:E; cbn [dict_get].
    + apply bytes_eqb_eq in E. subst k0.
      replace (bytes_eqb k k') with false by (symmetry; apply bytes_eqb_neq; congruence). reflexivity.
    + rewrite IH. reflexivity.
Qed.

Lemma keys_set_in d k v x : In x (keys (dict_set d k v)) -> x = k \/ In x (keys d).
Proof.
  induction d as [|[k0 v0] d IH]; cbn [dict_set keys map fst In].
  - intuition congruence.
  - destruct (bytes_eqb k0 k) eqn:E; cbn [keys map fst In]; [tauto|].
    intros [H|H]; [tauto|]. destruct (IH H); tauto.
Qed.

Lemma dict_set_wf d k v : dict_wf d -> dict_wf (dict_set d k v).
Proof.
  unfold dict_wf. induction d as [|[k0 v0] d IH]; cbn [dict_set keys map fst]; intro W.
  - constructor; [intros [] | constructor].
  - inversion W as [|? ? Hn Hd]; subst.
    destruct (bytes_eqb k0 k) eqn:E; cbn [keys map fst]; [exact W|].
    constructor; [|apply IH; exact Hd].
    intro H. apply keys_set_in in H as [H|H]; [|tauto].
    apply bytes_eqb_neq in E. congruence.
Qed.

(* ---- dict_swap_remove ---- *)
Definition sr_go (kl : bytes) (vl : obj) (k : bytes) : dict -> dict :=
  fix go (d : dict) : dict :=
    match d with
    | [] => []
    | (k', v') :: d' => if bytes_eqb k' k then (kl, vl) :: removelast d' else (k', v') :: go d'
    end.

Lemma dict_swap_remove_unfold d k :
  dict_swap_remove d k =
  if dict_has d k then
    match rev d with
    | [] => []
    | (kl, vl) :: _ => if bytes_eqb kl k then removelast d else sr_go kl vl k d
    end
  else d.
Proof. reflexivity. Qed.

Lemma sr_go_spec kl vl k v rest : forall d1,
  ~ In k (keys d1) -> sr_go kl vl k (d1 ++ (k, v) :: rest) = d1 ++ (kl, vl) :: removelast rest.
Proof.
  induction d1 as [|[k0 v0] d1 IH]; intro Hn.
  - cbn [app sr_go]. rewrite bytes_eqb_refl. reflexivity.
  - cbn [keys map fst In] in Hn.
    change (sr_go kl vl k (((k0, v0) :: d1) ++ (k, v) :: rest))
      with (if bytes_eqb k0 k then (kl, vl) :: removelast (d1 ++ (k, v) :: rest)
            else (k0, v0) :: sr_go kl vl k (d1 ++ (k, v) :: rest)).
    replace (bytes_eqb k0 k) with false by (symmetry; apply bytes_eqb_neq; tauto).
    rewrite IH by tauto. reflexivity.
Qed.

Lemma split_first d k : In k (keys d) -> exists d1 v d2, d = d1 ++ (k, v) :: d2 /\ ~ In k (keys d1).
Proof.
  induction d as [|[k0 v0] d IH]; cbn [keys map fst In]; [tauto|].
  intro H. destruct (bytes_eqb k0 k) eqn:E.
  - apply bytes_eqb_eq in E. subst. exists [], v0, d. split; [reflexivity | intros []].
  - apply bytes_eqb_neq in E. destruct H as [H|H]; [congruence|].
    destruct (IH H) as (d1 & v & d2 & -> & Hn).
    exists ((k0, v0) :: d1), v, d2. split; [reflexivity|].
    cbn [keys map fst In]. unfold keys in Hn. tauto.
Qed.

Lemma last_case {A} (l : list A) : l = [] \/ exists l' a, l = l' ++ [a].
Proof. destruct l as [|x l]; [left; reflexivity | right]. destruct (exists_last (l:=x :: l)) as (l' & a & E); [discriminate|eauto]. Qed.

(* the two shapes of a successful removal *)
Lemma swap_remove_shape d k : dict_wf d -> In k (keys d) ->
  exists d1 v, ~ In k (keys d1) /\
    ((d = d1 ++ [(k, v)] /\ dict_swap_remove d k = d1) \/
     (exists d2 kl vl, d = d1 ++ (k, v) :: d2 ++ [(kl, vl)] /\ dict_swap_remove d k = d1 ++ (kl, vl) :: d2)).
Proof.
  intros W Hin. rewrite dict_swap_remove_unfold.
  replace (dict_has d k) with true by (symmetry; apply dict_has_In; exact Hin).
  destruct (split_first d k Hin) as (d1 & v & d2 & -> & Hn).
  exists d1, v. split; [exact Hn|].
  destruct (last_case d2) as [-> | (d2' & [kl vl] & ->)].
  - left. split; [reflexivity|].
    rewrite rev_app_distr. cbn [rev app]. rewrite bytes_eqb_refl. apply removelast_last.
  - right. exists d2', kl, vl. split; [reflexivity|].
    replace (d1 ++ (k, v) :: d2' ++ [(kl, vl)]) with ((d1 ++ (k, v) :: d2') ++ [(kl, vl)])
      by (rewrite <- app_assoc; reflexivity).
    rewrite rev_app_distr. cbn [rev app].
    assert (kl <> k) as Hk.
    { intro. subst kl. unfold dict_wf, keys in W. rewrite !map_app in W. cbn [map fst] in W.
      apply NoDup_remove_2 in W. apply W. rewrite map_app. cbn [map fst]. rewrite !in_app_iff. cbn [In]. tauto. }
    replace (bytes_eqb kl k) with false by (symmetry; apply bytes_eqb_neq; exact Hk).
    rewrite <- app_assoc. cbn [app]. rewrite sr_go_spec by exact Hn.
    rewrite removelast_last. reflexivity.
Qed.

Lemma swap_remove_absent d k : ~ In k (keys d) -> dict_swap_remove d k = d.
Proof.
  intro H. rewrite dict_swap_remove_unfold.
  replace (dict_has d k) with false; [reflexivity|].
  symmetry. destruct (dict_has d k) eqn:E; [|reflexivity]. apply dict_has_In in E. tauto.
Qed.

(* removal = the same entries without the key, in some order *)
Lemma swap_remove_perm d k : dict_wf d ->
  exists v, In k (keys d) -> Permutation d ((k, v) :: dict_swap_remove d k).
Proof.
  intro W. destruct (in_dec (list_eq_dec Byte.byte_eq_dec) k (keys d)) as [Hin|Hn].
  - destruct (swap_remove_shape d k W Hin) as (d1 & v & _ & [[-> ->] | (d2 & kl & vl & -> & ->)]); exists v; intros _.
    + apply Permutation_sym. apply Permutation_cons_append.
    + apply Permutation_sym. apply Permutation_cons_app.
      change ((kl, vl) :: d2) with ([(kl, vl)] ++ d2).
      apply Permutation_app_head. apply Permutation_app_comm.
  - exists ONull. tauto.
Qed.

Lemma swap_remove_wf d k : dict_wf d -> dict_wf (dict_swap_remove d k).
Proof.
  intro W. destruct (in_dec (list_eq_dec Byte.byte_eq_dec) k (keys d)) as [Hin|Hn].
  - destruct (swap_remove_perm d k W) as (v & P). specialize (P Hin).
    unfold dict_wf, keys in *. apply (Permutation_map fst) in P. cbn [map fst] in P.
    apply (Permutation_NoDup P) in W. inversion W. assumption.
  - rewrite swap_remove_absent by exact Hn. exact W.
Qed.

Lemma swap_remove_in d k k' v' : dict_wf d ->
  (In (k', v') (dict_swap_remove d k) <-> In (k', v') d /\ k' <> k).
Proof.
  intro W. destruct (in_dec (list_eq_dec Byte.byte_eq_dec) k (keys d)) as [Hin|Hn].
  - destruct (swap_remove_perm d k W) as (v & P). specialize (P Hin).
    assert (NoDup (k :: keys (dict_swap_remove d k))) as ND.
    { unfold dict_wf, keys in *. apply (Permutation_map fst) in P. cbn [map fst] in P.
      apply (Permutation_NoDup P). exact W. }
    inversion ND as [|? ? Hk _]; subst.
    split.
    + intro H. split.
      * apply (Permutation_in _ (Permutation_sym P)). right. exact H.
      * intro. subst k'. apply Hk. apply (in_map fst) in H. exact H.
    + intros [H Hne]. apply (Permutation_in _ P) in H. destruct H as [H|H]; [inversion H; congruence | exact H].
  - rewrite swap_remove_absent by exact Hn. split; [|tauto].
    intro H. split; [exact H|]. intro. subst k'. apply Hn. apply (in_map fst) in H. exact H.
Qed.

Lemma dict_get_swap_remove_same d k : dict_wf d -> dict_get (dict_swap_remove d k) k = None.
Proof.
  intro W. apply dict_get_None. intro H. apply in_map_iff in H as ([k0 v0] & E & H). cbn [fst] in E. subst k0.
  apply swap_remove_in in H; [tauto | exact W].
Qed.

Lemma dict_get_swap_remove_other d k k' : dict_wf d -> k' <> k ->
  dict_get (dict_swap_remove d k) k' = dict_get d k'.
Proof.
  intros W N. pose proof (swap_remove_wf d k W) as W'.
  destruct (dict_get d k') as [v|] eqn:E.
  - apply dict_get_In; [exact W'|]. apply swap_remove_in; [exact W|]. split; [|exact N].
    apply dict_get_In; assumption.
  - apply dict_get_None. apply dict_get_None in E. intro H. apply E.
    apply in_map_iff in H as ([k0 v0] & E0 & H). cbn [fst] in E0. subst k0.
    apply swap_remove_in in H; [|exact W]. destruct H as [H _]. apply (in_map fst) in H. exact H.
Qed.
