(* StrictIncSaveProofs.v -- C03, part 9: the incremental statement about [save] / [inc_save] on the
   property's domain, the way the hypotheses arise from c07's editing operations
   (create_from, set_object: Model/Incremental.v), and a concrete instance. *)
From LV Require Import Base.Bytes Base.Sx Model.Obj Model.Writer Model.Save Model.Incremental Gen.Lex Gen.SaveFmt Gen.Inc
  Proofs.LexProofs Proofs.RealProofs Proofs.ObjectRtProofs Proofs.SaveProofs Spec.SaveSpec
  Proofs.FilterProofsDict Proofs.LoadProofs Proofs.LoadProofsXref Proofs.LoadProofsTable Proofs.LoadProofsFull
  Proofs.StrictReaderProofs Proofs.SaveStrictProofs Proofs.StrictObjectProofs Proofs.StrictFileProofs
  Proofs.StrictTilingProofs Proofs.StrictLoadProofs Proofs.StrictLoadStreamProofs Proofs.StrictRevisionProofs
  Proofs.StrictSaveProofs Proofs.StrictIncrementalProofs.
From LV Require Spec.StrictReader Model.Parser.

Local Open Scope N_scope.

(* one update of a saved file: [inc_dom] relative to the document save works on *)
Definition inc_update (x : xref_type) (d : doc) (s : incdoc) : Prop := inc_dom x (raise_max_id d) s.

Theorem strict_load_inc_save x d s :
  strict_savable d -> small_file x d -> inc_update x d s ->
  blen (io_bytes (inc_save s)) < u32_mod ->
  SR.strict_load (io_bytes (inc_save s)) = SR.SOk (sdoc_inc x (raise_max_id d) s).
Proof.
  intros Hs Hsm Hu Hl. apply strict_load_inc; try assumption.
  apply strict_savable_raise. exact Hs.
Qed.

(* field by field *)
Theorem strict_load_inc_fields x d s :
  strict_savable d -> small_file x d -> inc_update x d s ->
  blen (io_bytes (inc_save s)) < u32_mod ->
  let nd := xd_doc (i_new s) in
  exists r, SR.strict_load (io_bytes (inc_save s)) = SR.SOk r /\
    firstn (length (so_bytes (save x d))) (io_bytes (inc_save s)) = so_bytes (save x d) /\
    SR.s_version r = d_version d /\
    SR.s_revisions r = 2 /\
    SR.s_stream r = is_stream x /\
    SR.s_startxref r = io_start (inc_save s) /\
    (exists seen, SR.s_objects r = omerge seen (norm_objects (d_objects nd)) (norm_objects (d_objects d))) /\
    dict_get (SR.s_trailer r) K_Prev = Some (OInt (Z.of_N (blen (body_of d)))) /\
    chain 0 (effective (0, 0) (SR.s_spans r)) (SR.lenN (io_bytes (inc_save s))).
Proof.
  intros Hs Hsm Hu Hl nd. exists (sdoc_inc x (raise_max_id d) s).
  pose proof (strict_load_inc_save x d s Hs Hsm Hu Hl) as Hload. split; [exact Hload|].
  pose proof (strict_savable_raise d Hs) as [Sv _ _].
  pose proof (inc_save_shape x (raise_max_id d) s Sv Hsm Hu Hl) as Eshape. cbv zeta in Eshape.
  destruct Hu as [Hb Ht Hr Hmk Hvn Hp Hmx]. fold nd in Hr, Hmk, Hvn, Hp, Hmx, Eshape.
  split.
  { rewrite Eshape. rewrite <- !app_assoc. unfold save.
    rewrite firstn_app, Nat.sub_diag. cbn [firstn]. rewrite app_nil_r. apply firstn_all. }
  split; [reflexivity|]. split; [reflexivity|]. split; [reflexivity|]. split.
  { cbn [sdoc_inc SR.s_startxref]. fold nd.
    (* io_start = the counter after the new objects *)
    unfold inc_save. rewrite Hb. fold nd.
    pose proof (rd_max_id nd Hr) as Hmax.
    replace (u32_top <=? d_max_id nd) with false by (symmetry; apply N.leb_gt; unfold u32_top, u32_mod in *; lia).
    rewrite Hmk. cbn [negb].
    destruct (save_core_rev_shape x (raise_max_id d) Sv Hsm) as [Hshape _].
    assert (Hoff : header_offset (so_bytes (save_core x (raise_max_id d))) = O).
    { rewrite Hshape. unfold header_bytes. rewrite <- !app_assoc. apply header_offset_pdf. }
    assert (Hsep : separator (so_bytes (save_core x (raise_max_id d))) = [x0a]).
    { rewrite Hshape. destruct (startxref_ends (rev_start (raise_max_id d) (hm_len (raise_max_id d)))) as [pre Hpre]. rewrite Hpre.
      rewrite !app_assoc. apply separator_eof. }
    unfold inc_head. rewrite Hb. fold nd. rewrite Hsep.
    assert (Hstart : start_count (so_bytes (save_core x (raise_max_id d))) + blen ([x0a] ++ header_bytes nd ++ mark_bytes nd) =
                     blen (so_bytes (save_core x (raise_max_id d)) ++ inc_lines nd)).
    { unfold start_count, inc_lines. rewrite Hoff. unfold blen. repeat (rewrite ?app_length; cbn [length app]). lia. }
    rewrite Hstart. rewrite (write_objects_explicit (d_objects nd) _ (rd_numbers nd Hr)).
    rewrite Ht. destruct x; cbn [io_start]; [reflexivity|].
    replace (u32_top <=? d_max_id nd + 1) with false by (symmetry; apply N.leb_gt; unfold u32_top, u32_mod in *; lia).
    destruct (xstream_parts nd _ _) as [[t c] x1]. reflexivity. }
  split; [eexists; reflexivity|]. split.
  { cbn [sdoc_inc SR.s_trailer]. fold nd.
    rewrite rev_trailer_get by (try discriminate; apply (rd_trailer nd Hr)).
    rewrite Hp. reflexivity. }
  pose proof (strict_load_sound _ _ Hload) as [_ [_ [_ [_ [_ [_ Hc]]]]]]. exact Hc.
Qed.

(* ---------- how the hypotheses arise: create_from + replacing the new objects ---------- *)
Lemma inc_version_ok : forallb SR.not_eol INC_VERSION = true. Proof. reflexivity. Qed.
Lemma inc_mark_ok : binary_mark_ok INC_BINARY_MARK = true. Proof. reflexivity. Qed.

Theorem inc_dom_create x d prev m :
  xd_start prev = blen (body_of d) -> xd_type prev = x -> blen (body_of d) < u32_mod ->
  obj_wf (ODict (d_trailer (xd_doc prev))) ->
  d_max_id d + (if is_stream x then 1 else 0) <= d_max_id (xd_doc prev) -> d_max_id (xd_doc prev) + 2 < u32_mod ->
  increasing 0 (obj_numbers m) ->
  Forall (fun io : oid * obj => fst (fst io) <= d_max_id (xd_doc prev) /\ snd (fst io) <= 65535 /\
                                top_wf (snd io) /\ skipped (snd io) = false) m ->
  inc_dom x d (set_new_objects (create_from (so_bytes (save_core x d)) prev) m).
Proof.
  intros Hst Hty Hsmall Hw Hmx Hmax Hinc Hobjs.
  destruct (wf_dict_inv _ Hw) as [Hnd Hfv].
  assert (Hi : obj_wf (OInt (Z.of_N (xd_start prev)))).
  { constructor. apply in_i64_small. rewrite Hst. unfold u32_mod in *. lia. }
  constructor; cbn [set_new_objects with_new Incremental.with_objects create_from new_from_prev i_bytes i_prev i_new xd_doc xd_type
                    d_version d_binary_mark d_trailer d_objects d_max_id].
  - reflexivity.
  - exact Hty.
  - constructor; cbn [d_max_id d_objects d_trailer]; try assumption.
    constructor; [apply dict_set_wf; exact Hnd|].
    apply dict_set_forall; [exact Hfv | exact Hi | intros; exact Hi].
  - apply inc_mark_ok.
  - apply inc_version_ok.
  - rewrite dict_get_set_same, Hst. reflexivity.
  - exact Hmx.
Qed.

(* ---------- a concrete update ---------- *)
Definition ex_prev : xdoc :=
  {| xd_doc := {| d_version := bs "1.5"; d_binary_mark := [xbb; xad; xc0; xde];
                  d_trailer := [(K_Root, ORef 1 0); (K_Size, OInt 4)]; d_objects := []; d_max_id := 3 |};
     xd_start := blen (body_of (raise_max_id ex_doc3)); xd_type := XTable |}.

Definition ex_update : incdoc :=
  set_new_objects (create_from (so_bytes (save XTable ex_doc3)) ex_prev)
                  [((1, 0), ODict [(K_Type, OName (bs "Catalog")); (bs "V", OReal (bs "2.5"))]);
                   ((3, 3), OStr (bs "replaced") false)].

Theorem strict_inc_example :
  inc_update XTable ex_doc3 ex_update /\ blen (io_bytes (inc_save ex_update)) < u32_mod /\
  SR.s_objects (sdoc_inc XTable (raise_max_id ex_doc3) ex_update) =
    [((1, 0), ODict [(K_Type, OName (bs "Catalog")); (bs "V", OReal (bs "2.5"))]); ((3, 3), OStr (bs "replaced") false)] /\
  SR.s_revisions (sdoc_inc XTable (raise_max_id ex_doc3) ex_update) = 2.
Proof.
  split; [|split; [vm_compute; reflexivity | split; vm_compute; reflexivity]].
  unfold inc_update, ex_update. apply inc_dom_create; try reflexivity.
  - constructor; [repeat constructor; cbn; intuition discriminate|].
    constructor; [cbn [snd]; constructor; vm_compute; discriminate|].
    constructor; [cbn [snd]; constructor; reflexivity | constructor].
  - cbn [obj_numbers map fst increasing]. repeat split; reflexivity.
  - apply Forall_cons; [|apply Forall_cons; [|apply Forall_nil]]; cbn [fst snd ex_prev xd_doc d_max_id].
    + split; [vm_compute; discriminate|]. split; [vm_compute; discriminate|]. split; [|reflexivity].
      cbn [top_wf]. constructor; [repeat constructor; cbn; intuition discriminate|].
      constructor; [constructor|]. constructor; [|constructor]. cbn [snd]. constructor. apply real_wfb_spec. reflexivity.
    + split; [vm_compute; discriminate|]. split; [vm_compute; discriminate|]. split; [|reflexivity]. constructor.
Qed.
