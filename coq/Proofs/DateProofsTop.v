(* Proofs/DateProofsTop.v -- C18, part 3: jiff's representable range, the model's instant is the
   specification's instant, and the statements of the property: the formatters agree, every
   textual form is read back by every back end, all ordered pairs, the pinned time parser refuted,
   non-vacuity examples. *)
From LV Require Import Base.Bytes Gen.DateFmt Model.DateTime Spec.PdfDate Proofs.DateProofs Proofs.DateProofsParse.
Local Open Scope Z_scope.
Import PdfDate.

Lemma dfc_lower y m d : 1 <= y -> 1 <= m <= 12 -> 1 <= d -> - 719162 <= days_from_civil y m d.
Proof.
  intros Hy Hm Hd. unfold days_from_civil. destruct (m <=? 2) eqn:E; [apply Z.leb_le in E | apply Z.leb_gt in E]; zdiv.
Qed.
Lemma dfc_upper y m d : y <= 9998 -> 1 <= m <= 12 -> d <= 31 -> days_from_civil y m d <= 2932531.
Proof.
  intros Hy Hm Hd. unfold days_from_civil. destruct (m <=? 2) eqn:E; [apply Z.leb_le in E | apply Z.leb_gt in E]; zdiv.
Qed.

Lemma jiff_zoned_ok_le f m : valid (spec_of f) -> valid_offset m ->
  DateTime.instant f (60 * m) <= JIFF_TS_MAX -> jiff_zoned_ok f (60 * m) = true.
Proof.
  intros Hv Hm Hi. pose proof (valid_bounds f Hv) as B. unfold valid_offset in Hm.
  unfold jiff_zoned_ok. apply in_range_true. split; [|exact Hi].
  unfold DateTime.instant, JIFF_TS_MIN. pose proof (dfc_lower (cy f) (cmo f) (cd f)). lia.
Qed.
Lemma jiff_zoned_ok_9998 f m : valid (spec_of f) -> valid_offset m -> cy f <= 9998 -> jiff_zoned_ok f (60 * m) = true.
Proof.
  intros Hv Hm Hy. apply jiff_zoned_ok_le; try assumption.
  pose proof (valid_bounds f Hv) as B. unfold valid_offset in Hm.
  unfold DateTime.instant, JIFF_TS_MAX. pose proof (dfc_upper (cy f) (cmo f) (cd f)). lia.
Qed.

(* ---------- the instant of the model is the instant of the specification ---------- *)
Definition year_step_ok (y : Z) : bool := days_from_civil (y + 1) 1 1 =? days_from_civil y 1 1 + year_days y.
Lemma year_step_sweep : zrange_forallb 1 9998 year_step_ok = true.
Proof. vm_compute. reflexivity. Qed.

Lemma days_before_year_closed n : Z.of_nat n <= 9998 -> days_before_year n = days_from_civil (Z.of_nat n + 1) 1 1 + 719162.
Proof.
  induction n as [|k IH]; intro H; [reflexivity|].
  cbn [days_before_year]. rewrite IH by lia.
  pose proof (zrange_forallb_spec _ _ _ year_step_sweep (Z.of_nat (S k)) ltac:(lia)) as Hs.
  unfold year_step_ok in Hs. apply Z.eqb_eq in Hs.
  replace (Z.of_nat k + 1) with (Z.of_nat (S k)) by lia. lia.
Qed.

Definition months_ok (y : Z) : bool :=
  forallb (fun m => days_from_civil y m 1 =? days_from_civil y 1 1 + days_before_month y (Z.to_nat (m - 1)))
          [1; 2; 3; 4; 5; 6; 7; 8; 9; 10; 11; 12].
Lemma months_sweep : zrange_forallb 1 9999 months_ok = true.
Proof. vm_compute. reflexivity. Qed.

Lemma dfc_day y m d : days_from_civil y m d = days_from_civil y m 1 + (d - 1).
Proof. unfold days_from_civil. lia. Qed.

Lemma dfc_day_number f : valid (spec_of f) ->
  days_from_civil (cy f) (cmo f) (cd f) = day_number (spec_of f) - EPOCH_DAY.
Proof.
  intro Hv. pose proof (valid_bounds f Hv) as B.
  unfold day_number, EPOCH_DAY. cbn [spec_of year month day].
  rewrite dfc_day. rewrite days_before_year_closed by lia.
  replace (Z.of_nat (Z.to_nat (cy f - 1)) + 1) with (cy f) by lia.
  pose proof (zrange_forallb_spec _ _ _ months_sweep (cy f) ltac:(lia)) as Hs. unfold months_ok in Hs.
  rewrite forallb_forall in Hs.
  assert (In (cmo f) [1; 2; 3; 4; 5; 6; 7; 8; 9; 10; 11; 12]) as Hin.
  { assert (cmo f = 1 \/ cmo f = 2 \/ cmo f = 3 \/ cmo f = 4 \/ cmo f = 5 \/ cmo f = 6 \/ cmo f = 7 \/ cmo f = 8 \/
            cmo f = 9 \/ cmo f = 10 \/ cmo f = 11 \/ cmo f = 12) as C by lia.
    cbn [In]. intuition. }
  apply Hs in Hin. apply Z.eqb_eq in Hin. lia.
Qed.

Theorem instant_spec f m : valid (spec_of f) -> DateTime.instant f (60 * m) = PdfDate.instant (spec_of f) m.
Proof.
  intro Hv. unfold DateTime.instant, PdfDate.instant. rewrite dfc_day_number by exact Hv.
  cbn [spec_of hour minute second]. lia.
Qed.

Definition civil_of (d : PdfDate.t) : civil := mkCivil (year d) (month d) (day d) (hour d) (minute d) (second d).
Lemma spec_of_civil_of d : spec_of (civil_of d) = d.
Proof. destruct d; reflexivity. Qed.
Lemma civil_of_spec_of f : civil_of (spec_of f) = f.
Proof. destruct f; reflexivity. Qed.

(* ---------- the three formatters agree ---------- *)
Theorem fmt_agree f m : valid (spec_of f) -> - 1439 <= m <= 1439 ->
  fmt_chrono f (60 * m) = Some (print (spec_of f) m) /\
  fmt_jiff f (60 * m) = Some (print (spec_of f) m) /\
  fmt_time f (60 * m) = Some (print (spec_of f) m).
Proof.
  intros Hv Hm. split; [|split]; [apply fmt_chrono_print | apply fmt_jiff_print | apply fmt_time_print]; assumption.
Qed.
Theorem fmt_agree_utc f : valid (spec_of f) ->
  fmt_chrono_utc f = Some (print_utc (spec_of f)) /\ fmt_jiff_utc f = Some (print_utc (spec_of f)).
Proof. intro Hv. split; [apply fmt_chrono_utc_print | apply fmt_jiff_utc_print]; exact Hv. Qed.

(* ---------- back ends ---------- *)
Inductive backend := Chrono | Jiff | Time.
Definition fmt_of (b : backend) : civil -> Z -> option bytes :=
  match b with Chrono => fmt_chrono | Jiff => fmt_jiff | Time => fmt_time end.
Definition read_of (b : backend) : bytes -> option (civil * Z) :=
  match b with Chrono => read_chrono | Jiff => read_jiff | Time => read_time end.
(* what the parsed type of the back end can hold: jiff's Zoned is limited to the Timestamp range
   -9999-01-02T01:59:59Z .. 9999-12-30T22:00:00Z *)
Definition holds (b : backend) (f : civil) (off : Z) : Prop :=
  match b with Jiff => DateTime.instant f off <= JIFF_TS_MAX | _ => True end.

Lemma holds_jiff b f m : valid (spec_of f) -> valid_offset m -> holds b f (60 * m) -> b = Jiff -> jiff_zoned_ok f (60 * m) = true.
Proof. intros Hv Hm H ->. apply jiff_zoned_ok_le; assumption. Qed.

Ltac rd L := unfold read_chrono, read_jiff, read_time; rewrite L by assumption; cbn [obind].

Theorem read_print b f m : valid (spec_of f) -> valid_offset m -> holds b f (60 * m) ->
  read_of b (print (spec_of f) m) = Some (f, 60 * m).
Proof.
  intros Hv Hm Hh. destruct b; cbn [read_of]; rd dts_print.
  - apply chrono_full; assumption.
  - apply jiff_full; try assumption. apply jiff_zoned_ok_le; assumption.
  - apply time_full; assumption.
Qed.
Theorem read_print_utc b f : valid (spec_of f) -> holds b f 0 -> read_of b (print_utc (spec_of f)) = Some (f, 0).
Proof.
  intros Hv Hh. assert (valid_offset 0) as H0 by (unfold valid_offset; lia).
  destruct b; cbn [read_of]; rd dts_print_utc.
  - apply chrono_full_utc; assumption.
  - apply jiff_full_utc; try assumption. apply (jiff_zoned_ok_le f 0); assumption.
  - apply time_full_utc; assumption.
Qed.
Theorem read_print_minute b f m : valid (spec_of f) -> valid_offset m -> cs f = 0 -> holds b f (60 * m) ->
  read_of b (print_minute (spec_of f) m) = Some (f, 60 * m).
Proof.
  intros Hv Hm Hs Hh. destruct b; cbn [read_of]; rd dts_print_minute.
  - apply chrono_minute; assumption.
  - apply jiff_minute; try assumption. apply jiff_zoned_ok_le; assumption.
  - apply time_minute; assumption.
Qed.
Theorem read_print_minute_utc b f : valid (spec_of f) -> cs f = 0 -> holds b f 0 ->
  read_of b (print_minute_utc (spec_of f)) = Some (f, 0).
Proof.
  intros Hv Hs Hh. assert (valid_offset 0) as H0 by (unfold valid_offset; lia).
  destruct b; cbn [read_of]; rd dts_print_minute_utc.
  - apply chrono_minute_utc; assumption.
  - apply jiff_minute_utc; try assumption. apply (jiff_zoned_ok_le f 0); assumption.
  - apply time_minute_utc; assumption.
Qed.
Theorem read_print_date b f : valid (spec_of f) -> ch f = 0 -> cmi f = 0 -> cs f = 0 -> holds b f 0 ->
  read_of b (print_date (spec_of f)) = Some (f, 0).
Proof.
  intros Hv Hh0 Hmi Hs Hh. assert (valid_offset 0) as H0 by (unfold valid_offset; lia).
  destruct b; cbn [read_of]; rd dts_print_date.
  - apply chrono_date_only; assumption.
  - apply jiff_date_only; try assumption. apply (jiff_zoned_ok_le f 0); assumption.
  - apply time_date_only; assumption.
Qed.

(* every textual form of the specification is read back by every back end *)
Theorem read_denotes b s d m : Denotes s d m -> valid d -> - 1439 <= m <= 1439 -> holds b (civil_of d) (60 * m) ->
  read_of b s = Some (civil_of d, 60 * m).
Proof.
  intros HD Hv Hm Hh. rewrite <- (spec_of_civil_of d) in Hv.
  destruct HD as [d m|d|d m Hs|d Hs|d Hh0 Hmi0 Hs]; rewrite <- (spec_of_civil_of d) at 1.
  - apply read_print; assumption.
  - apply read_print_utc; assumption.
  - apply read_print_minute; assumption.
  - apply read_print_minute_utc; assumption.
  - apply read_print_date; assumption.
Qed.

(* ... and the instant it denotes (day counting of the specification) is the instant read *)
Theorem read_denotes_instant b s d m : Denotes s d m -> valid d -> - 1439 <= m <= 1439 -> holds b (civil_of d) (60 * m) ->
  exists f off, read_of b s = Some (f, off) /\ off = 60 * m /\ spec_of f = d /\ DateTime.instant f off = PdfDate.instant d m.
Proof.
  intros HD Hv Hm Hh. exists (civil_of d), (60 * m). split; [apply read_denotes; assumption|]. split; [reflexivity|].
  split; [apply spec_of_civil_of|]. rewrite <- (spec_of_civil_of d) at 2. apply instant_spec. rewrite spec_of_civil_of. exact Hv.
Qed.

(* all ordered pairs: what back end a prints, back end b reads back *)
Theorem cross_pairs a b f m : valid (spec_of f) -> - 1439 <= m <= 1439 -> holds b f (60 * m) ->
  exists s, fmt_of a f (60 * m) = Some s /\ s = print (spec_of f) m /\ read_of b s = Some (f, 60 * m).
Proof.
  intros Hv Hm Hh. exists (print (spec_of f) m). split; [|split; [reflexivity|apply read_print; assumption]].
  destruct (fmt_agree f m Hv Hm) as (A & B & C). destruct a; assumption.
Qed.
(* the UTC source types (chrono DateTime<Utc>, jiff Timestamp) print the Z form; every back end reads it *)
Theorem cross_pairs_utc b f : valid (spec_of f) -> holds b f 0 ->
  fmt_chrono_utc f = Some (print_utc (spec_of f)) /\ fmt_jiff_utc f = Some (print_utc (spec_of f)) /\
  read_of b (print_utc (spec_of f)) = Some (f, 0).
Proof.
  intros Hv Hh. destruct (fmt_agree_utc f Hv) as [A B]. split; [exact A|split; [exact B|apply read_print_utc; assumption]].
Qed.

(* jiff's range only bites in the last 26 hours of year 9999 *)
Theorem holds_9998 b f m : valid (spec_of f) -> - 1439 <= m <= 1439 -> cy f <= 9998 -> holds b f (60 * m).
Proof.
  intros Hv Hm Hy. destruct b; cbn [holds]; try exact I.
  pose proof (jiff_zoned_ok_9998 f m Hv Hm Hy) as H. unfold jiff_zoned_ok, in_range in H.
  apply andb_true_iff in H as [_ H]. apply Z.leb_le in H. exact H.
Qed.

(* ---------- the pinned time parser (before commit 86e28c7): one pattern ---------- *)
Definition TIME_PARSE_V0 : list (N * bytes) := firstn 1 TIME_PARSE.
Definition read_time_v0 (s : bytes) : option (civil * Z) := do t <- datetime_string s; parse_time_with TIME_PARSE_V0 t.

Definition ex_f : civil := mkCivil 2024 2 29 12 34 56.
Definition ex_min : civil := mkCivil 1998 12 23 19 52 0.
Definition ex_day : civil := mkCivil 2004 2 29 0 0 0.

Lemma ex_valid : valid (spec_of ex_f) /\ valid (spec_of ex_min) /\ valid (spec_of ex_day).
Proof. unfold valid. cbn. lia. Qed.

Theorem time_v0_refuted :
  (exists f s, valid (spec_of f) /\ fmt_chrono_utc f = Some s /\ fmt_jiff_utc f = Some s /\ read_time_v0 s = None) /\
  (exists d m, valid d /\ second d = 0 /\ - 1439 <= m <= 1439 /\ read_time_v0 (print_minute d m) = None) /\
  (exists d, valid d /\ hour d = 0 /\ minute d = 0 /\ second d = 0 /\ read_time_v0 (print_date d) = None).
Proof.
  destruct ex_valid as (V1 & V2 & V3). split; [|split].
  - exists ex_f, (bs "D:20240229123456Z"). split; [exact V1|]. vm_compute. repeat split.
  - exists (spec_of ex_min), (- 480). split; [exact V2|]. split; [reflexivity|]. split; [lia|]. vm_compute. reflexivity.
  - exists (spec_of ex_day). split; [exact V3|]. repeat (split; [reflexivity|]). vm_compute. reflexivity.
Qed.

(* ---------- non-vacuity ---------- *)
Theorem example_full :
  valid (spec_of ex_f) /\ - 1439 <= 330 <= 1439 /\
  fmt_chrono ex_f 19800 = Some (bs "D:20240229123456+05'30'") /\
  fmt_jiff ex_f 19800 = Some (bs "D:20240229123456+05'30'") /\
  fmt_time ex_f 19800 = Some (bs "D:20240229123456+05'30'") /\
  read_chrono (bs "D:20240229123456+05'30'") = Some (ex_f, 19800) /\
  read_jiff (bs "D:20240229123456+05'30'") = Some (ex_f, 19800) /\
  read_time (bs "D:20240229123456+05'30'") = Some (ex_f, 19800) /\
  DateTime.instant ex_f 19800 = 1709190296.
Proof. split; [exact (proj1 ex_valid)|]. split; [lia|]. vm_compute. repeat split. Qed.

Theorem example_forms :
  Denotes (bs "D:20240229123456-08'00'") (spec_of ex_f) (- 480) /\
  Denotes (bs "D:20240229123456Z") (spec_of ex_f) 0 /\
  Denotes (bs "D:199812231952-08'00'") (spec_of ex_min) (- 480) /\
  Denotes (bs "D:199812231952Z") (spec_of ex_min) 0 /\
  Denotes (bs "D:20040229") (spec_of ex_day) 0 /\
  read_time (bs "D:199812231952-08'00'") = Some (ex_min, - 28800) /\
  read_time (bs "D:20040229") = Some (ex_day, 0) /\
  read_time (bs "D:20240229123456Z") = Some (ex_f, 0).
Proof.
  split; [exact (DFull (spec_of ex_f) (- 480))|].
  split; [exact (DFullZ (spec_of ex_f))|].
  split; [exact (DMinute (spec_of ex_min) (- 480) eq_refl)|].
  split; [exact (DMinuteZ (spec_of ex_min) eq_refl)|].
  split; [exact (DDate (spec_of ex_day) eq_refl eq_refl eq_refl)|].
  vm_compute. repeat split.
Qed.

(* the one place where a back end cannot hold a valid instant of the property's domain *)
Theorem example_jiff_limit :
  let f := mkCivil 9999 12 31 0 0 0 in
  valid (spec_of f) /\ ~ holds Jiff f 0 /\ read_jiff (print_utc (spec_of f)) = None /\
  read_chrono (print_utc (spec_of f)) = Some (f, 0) /\ read_time (print_utc (spec_of f)) = Some (f, 0).
Proof.
  cbv zeta. split; [unfold valid; cbn; lia|]. split; [cbn; vm_compute; intro H; apply H; reflexivity|].
  vm_compute. repeat split.
Qed.
