(* StrictRevisionProofs.v -- C03, part 7: ONE REVISION IN CONTEXT.  A revision as the writer lays it
   out -- indirect objects, cross-reference section (table + trailer, or cross-reference stream),
   startxref marker -- standing anywhere in a file (arbitrary bytes [pre0] before the objects,
   arbitrary bytes [post] after %%EOF) is read by the strict reader's [read_section] and
   [read_entries] to explicit results.  This is the common part of the plain save (pre0 = header +
   binary mark, post = []) and of the incremental save (first revision: post = the appended update;
   second revision: pre0 = the previous file + the repeated header lines). *)
From LV Require Import Base.Bytes Base.Sx Model.Obj Model.Writer Model.Save Gen.Lex Gen.SaveFmt
  Proofs.LexProofs Proofs.RealProofs Proofs.ObjectRtProofs Proofs.SaveProofs Spec.SaveSpec
  Proofs.FilterProofsDict Proofs.LoadProofs Proofs.LoadProofsXref Proofs.LoadProofsTable
  Proofs.StrictReaderProofs Proofs.SaveStrictProofs Proofs.StrictObjectProofs Proofs.StrictFileProofs
  Proofs.StrictTilingProofs Proofs.StrictLoadProofs Proofs.StrictLoadStreamProofs.
From LV Require Spec.StrictReader Model.Parser.
From Coq Require Import ZifyBool ZifyN ZifyNat.

Local Open Scope N_scope.

(* the part of [savable_core] a revision needs (no condition on version, binary mark, Prev, Encrypt) *)
Record rev_dom (nd : doc) : Prop := {
  rd_max_id : d_max_id nd + 2 < u32_mod;
  rd_numbers : increasing 0 (obj_numbers (d_objects nd));
  rd_objects : Forall (fun io : oid * obj => fst (fst io) <= d_max_id nd /\ snd (fst io) <= 65535 /\
                                             top_wf (snd io) /\ skipped (snd io) = false) (d_objects nd);
  rd_trailer : obj_wf (ODict (d_trailer nd));
}.

Lemma savable_rev_dom d : savable_core d -> rev_dom d.
Proof.
  intro Sv. constructor; [apply (sv_max_id d Sv) | apply (sv_numbers d Sv) | | apply (sv_trailer d Sv)].
  pose proof (sv_objects d Sv) as H. eapply Forall_impl; [|exact H]. intros io [H1 [H2 [H3 H4]]].
  unfold Parser.u16_max in H2. auto.
Qed.

Lemma wf_dict_inv d : obj_wf (ODict d) -> dict_wf d /\ Forall (fun kv => obj_wf (snd kv)) d.
Proof. intro H. inversion H; subst. split; assumption. Qed.

Section Revision.
  Variable nd : doc.
  Variable pos0 : N.                         (* offset of the first object *)
  Hypothesis Hdom : rev_dom nd.

  Let objs := d_objects nd.
  Let nid := d_max_id nd + 1.
  Definition rev_xmap : xmap := entries_of pos0 (d_objects nd).
  Definition rev_start : N := pos0 + blen (objs_bytes (d_objects nd)).

  Lemma rd_obj_dom : Forall obj_dom objs.
  Proof. pose proof (rd_objects nd Hdom) as H. eapply Forall_impl; [|exact H]. intros io [_ [H2 [H3 _]]]. split; assumption. Qed.
  Lemma rd_unskipped : unskipped objs.
  Proof. pose proof (rd_objects nd Hdom) as H. eapply Forall_impl; [|exact H]. intros io [_ [_ [_ H4]]]. exact H4. Qed.

  Lemma rev_xmap_incr : incr 1 rev_xmap.
  Proof. apply (entries_of_incr objs pos0 0 (rd_numbers nd Hdom)). Qed.
  Lemma rev_xmap_bound : Forall (fun ke => fst ke < nid) rev_xmap.
  Proof.
    apply entries_of_bound. pose proof (rd_objects nd Hdom) as H. eapply Forall_impl; [|exact H].
    intros io [H1 _]. unfold nid, oid in *. lia.
  Qed.
  Lemma rev_xmap_normal : Forall (fun ke => normal_e (snd ke)) rev_xmap.
  Proof.
    apply entries_of_normal. pose proof (rd_objects nd Hdom) as H. eapply Forall_impl; [|exact H].
    intros io [_ [H2 _]]. exact H2.
  Qed.

  Lemma trailer_table_wf' : obj_wf (ODict (trailer_table nd)).
  Proof.
    destruct (wf_dict_inv _ (rd_trailer nd Hdom)) as [Hn Hf].
    pose proof (rd_max_id nd Hdom) as Hm.
    assert (Hi : Parser.in_i64 (Z.of_N (d_max_id nd + 1)) = true) by (apply in_i64_small; unfold u32_mod in *; lia).
    unfold trailer_table. constructor.
    - apply (dict_set_wf (d_trailer nd) K_Size _ Hn).
    - apply dict_set_forall; [exact Hf | constructor; exact Hi | intros; constructor; exact Hi].
  Qed.

  (* ---------------- table ---------------- *)
  Definition tab_part : bytes := write_xref rev_xmap nid ++ trailer_bytes (trailer_table nd).
  Definition tab_entries : list (N * SR.xent) := (0, SR.XFree 0 65535) :: map xuse_of rev_xmap.
  Definition tab_rev (len : N) (post : bytes) : SR.revision :=
    {| SR.r_x := rev_start; SR.r_stream := false; SR.r_entries := tab_entries;
       SR.r_trailer := norm_dict (trailer_table nd); SR.r_size := nid;
       SR.r_p := len - SR.lenN (marker rev_start ++ post); SR.r_q := len - SR.lenN post |}.

  Lemma tab_entries_ok : Forall (fun ie : N * SR.xent => fst ie < nid) tab_entries /\ sincr 0 tab_entries.
  Proof.
    split.
    - constructor; [cbn [fst]; unfold nid; lia|]. rewrite Forall_map. eapply Forall_impl; [|exact rev_xmap_bound].
      intros a Ha. exact Ha.
    - cbn [tab_entries sincr]. split; [lia|]. apply sincr_map. exact rev_xmap_incr.
  Qed.

  Lemma tab_read_section file pre0 post :
    file = pre0 ++ objs_bytes objs ++ tab_part ++ startxref_bytes rev_start ++ post -> blen pre0 = pos0 ->
    SR.read_section file (SR.lenN file) rev_start = SR.SOk (tab_rev (SR.lenN file) post).
  Proof.
    intros Hf Hp.
    set (secs := table_sections rev_xmap nid).
    assert (Hflat : flatten secs = (0, XUnusable) :: rev_xmap).
    { apply table_flat; [exact rev_xmap_incr | exact rev_xmap_bound | exact rev_xmap_normal | unfold nid; lia]. }
    assert (Hgood : Forall sec_good secs) by (apply table_sections_good; exact rev_xmap_normal).
    assert (Hsize : dict_get (trailer_table nd) K_Size = Some (OInt (Z.of_N nid))) by (unfold trailer_table; apply dict_get_set_same).
    assert (Hst : rev_start = blen (pre0 ++ objs_bytes objs)) by (unfold rev_start; rewrite blen_app, Hp; reflexivity).
    assert (E : file = (pre0 ++ objs_bytes objs) ++
                       (bs "xref" ++ x0a :: flat_map write_xref_section secs ++ trailer_bytes (trailer_table nd)) ++
                       startxref_bytes (blen (pre0 ++ objs_bytes objs)) ++ post).
    { rewrite Hf, <- Hst. unfold tab_part, write_xref. fold secs. repeat (rewrite <- app_assoc; cbn [app]). reflexivity. }
    pose proof (read_section_table file (pre0 ++ objs_bytes objs) secs (trailer_table nd) nid post E Hgood trailer_table_wf' Hsize) as H.
    rewrite <- Hst in H. rewrite H, Hflat. reflexivity.
  Qed.

  Lemma tab_read_entries file pre0 tail revs :
    file = pre0 ++ objs_bytes objs ++ tail -> blen pre0 = pos0 -> solid tail = true -> SR.lenN file <= u32_mod ->
    SR.read_entries file (SR.lenN file) revs tab_entries = SR.SOk (located_of pos0 objs).
  Proof.
    intros Hf Hp Ht Hs. cbn [tab_entries SR.read_entries]. unfold rev_xmap. rewrite <- Hp.
    apply (read_entries_written objs file revs pre0 tail Hf rd_obj_dom Ht Hs).
  Qed.

  (* ---------------- cross-reference stream ---------------- *)
  Definition str_map : xmap := rev_xmap ++ [(nid, XNormal rev_start 0)].
  Definition str_secs : list xsection := stream_sections str_map nid.
  Definition str_content : bytes := xstream_content str_secs.
  Definition str_dict : dict := xs_trailer (d_trailer nd) (nid + 1) str_secs (length str_content).
  Definition str_part : bytes := write_indirect_object nid 0 (OStream str_dict str_content).
  Definition str_entries : list (N * SR.xent) := map xuse_of str_map.
  Definition str_rev (len : N) (post : bytes) : SR.revision :=
    {| SR.r_x := rev_start; SR.r_stream := true; SR.r_entries := str_entries;
       SR.r_trailer := norm_dict str_dict; SR.r_size := nid + 1;
       SR.r_p := len - SR.lenN (marker rev_start ++ post); SR.r_q := len - SR.lenN post |}.
  Definition str_loc (len : N) (post : bytes) : SR.located :=
    {| SR.l_id := nid; SR.l_gen := 0; SR.l_off := rev_start;
       SR.l_end := len - SR.lenN (marker rev_start ++ post);
       SR.l_obj := OStream (norm_dict str_dict) str_content |}.

  (* what the writer computes is this *)
  Lemma xstream_parts_rev : rev_start < u32_mod ->
    xstream_parts nd rev_xmap (rev_start mod u32_mod) = (str_dict, str_content, str_map).
  Proof.
    intro Hn. rewrite (N.mod_small _ _ Hn). rewrite xstream_parts_eq. cbv zeta.
    rewrite (save_xinsert_last _ _ _ rev_xmap_bound). reflexivity.
  Qed.

  Hypothesis Hsmall : rev_start < u32_mod.

  Lemma str_map_incr : incr 1 str_map.
  Proof. unfold str_map. apply incr_snoc; [exact rev_xmap_incr | exact rev_xmap_bound | unfold nid; lia]. Qed.
  Lemma str_map_bound : Forall (fun ke => fst ke < 1 + nid) str_map.
  Proof.
    unfold str_map. apply Forall_app. split.
    - eapply Forall_impl; [|exact rev_xmap_bound]. intros a Ha. cbn beta in *. lia.
    - constructor; [cbn [fst]; lia | constructor].
  Qed.
  Lemma str_map_normal : Forall (fun ke => normal_e (snd ke)) str_map.
  Proof.
    unfold str_map. apply Forall_app. split; [exact rev_xmap_normal|].
    constructor; [cbn [snd normal_e]; lia | constructor].
  Qed.

  Lemma str_entries_ok : Forall (fun ie : N * SR.xent => fst ie < nid + 1) str_entries /\ sincr 1 str_entries.
  Proof.
    split.
    - unfold str_entries. rewrite Forall_map. eapply Forall_impl; [|exact str_map_bound].
      intros a Ha. unfold xuse_of. cbn [fst]. cbn beta in Ha. lia.
    - apply sincr_map. exact str_map_incr.
  Qed.

  Lemma str_top_wf : blen str_content < u32_mod -> top_wf (OStream str_dict str_content).
  Proof.
    intro Hc. destruct (wf_dict_inv _ (rd_trailer nd Hdom)) as [Hnd Hfv].
    pose proof (rd_max_id nd Hdom) as Hm.
    assert (Hsin : Forall (sec_in (1 + nid)) str_secs) by (apply stream_sections_in; exact str_map_normal).
    split; [|apply xs_trailer_Length].
    constructor; [apply xs_trailer_wf; exact Hnd|].
    apply (xs_trailer_values (d_trailer nd) _ _ _ Hnd obj_wf Hfv).
    - constructor.
    - constructor. apply in_i64_small. unfold nid, u32_mod in *. lia.
    - unfold xs_W, XS_W1, XS_W2, XS_W3. constructor. repeat constructor.
    - apply (index_wf str_secs (1 + nid) Hsin). unfold nid, u32_mod in *. lia.
    - constructor. apply in_i64_small. unfold blen, u32_mod in *. lia.
  Qed.

  Lemma str_read_section file pre0 post :
    file = pre0 ++ objs_bytes objs ++ str_part ++ startxref_bytes rev_start ++ post -> blen pre0 = pos0 ->
    SR.lenN file <= u32_mod ->
    SR.read_section file (SR.lenN file) rev_start = SR.SOk (str_rev (SR.lenN file) post).
  Proof.
    intros Hf Hp Hs.
    destruct (wf_dict_inv _ (rd_trailer nd Hdom)) as [Hnd Hfv].
    assert (Hflat : flatten str_secs = str_map) by (apply stream_flat; [exact str_map_incr | exact str_map_bound]).
    assert (Hsn : Forall sec_normal str_secs) by (apply stream_sections_normal; exact str_map_normal).
    assert (Hst : rev_start = blen (pre0 ++ objs_bytes objs)) by (unfold rev_start; rewrite blen_app, Hp; reflexivity).
    assert (Hc : blen str_content < u32_mod).
    { pose proof (wio_stream_long nid 0 str_dict str_content) as Hl. fold str_part in Hl.
      rewrite Hf in Hs. unfold SR.lenN, blen in *. rewrite !app_length in Hs. lia. }
    assert (E : file = (pre0 ++ objs_bytes objs) ++ write_indirect_object nid 0 (OStream str_dict (xstream_content str_secs)) ++
                       startxref_bytes (blen (pre0 ++ objs_bytes objs)) ++ post).
    { rewrite Hf, <- Hst. unfold str_part, str_content. rewrite <- !app_assoc. reflexivity. }
    pose proof (read_section_stream file (pre0 ++ objs_bytes objs) nid str_dict str_secs (nid + 1) post E (str_top_wf Hc)
                  (xs_trailer_Type _ _ _ _ Hnd) (xs_trailer_Filter _ _ _ _ Hnd) (xs_trailer_Size _ _ _ _ Hnd)
                  (xs_trailer_W _ _ _ _ Hnd) (xs_trailer_Index _ _ _ _ Hnd) Hsn) as H.
    rewrite <- Hst in H. rewrite H, Hflat. reflexivity.
  Qed.

  Lemma str_read_entries file pre0 post revs :
    file = pre0 ++ objs_bytes objs ++ str_part ++ startxref_bytes rev_start ++ post -> blen pre0 = pos0 ->
    SR.lenN file <= u32_mod ->
    SR.read_entries file (SR.lenN file) revs str_entries =
    SR.SOk (located_of pos0 objs ++ [str_loc (SR.lenN file) post]).
  Proof.
    intros Hf Hp Hs.
    assert (Hst : rev_start = blen (pre0 ++ objs_bytes objs)) by (unfold rev_start; rewrite blen_app, Hp; reflexivity).
    assert (Hc : blen str_content < u32_mod).
    { pose proof (wio_stream_long nid 0 str_dict str_content) as Hl. fold str_part in Hl.
      rewrite Hf in Hs. unfold SR.lenN, blen in *. rewrite !app_length in Hs. lia. }
    assert (Hsolid : solid (str_part ++ startxref_bytes rev_start ++ post) = true).
    { unfold str_part, write_indirect_object. rewrite <- !app_assoc. apply solid_digits; [apply N_dec_nonempty | apply N_dec_digits]. }
    unfold str_entries, str_map. rewrite map_app.
    assert (H1 : SR.read_entries file (SR.lenN file) revs (map xuse_of rev_xmap) = SR.SOk (located_of pos0 objs)).
    { unfold rev_xmap. rewrite <- Hp. apply (read_entries_written objs file revs pre0 _ Hf rd_obj_dom Hsolid Hs). }
    rewrite (read_entries_app _ _ _ _ _ _ H1).
    cbn [map xuse_of fst snd xent_of SR.read_entries].
    assert (E : file = (pre0 ++ objs_bytes objs) ++ write_indirect_object nid 0 (OStream str_dict str_content) ++
                       (startxref_bytes rev_start ++ post)).
    { rewrite Hf. unfold str_part. rewrite <- !app_assoc. reflexivity. }
    rewrite Hst at 1.
    rewrite (read_at_written_gen file revs (pre0 ++ objs_bytes objs) nid 0 (OStream str_dict str_content) _ E ltac:(lia) (str_top_wf Hc)).
    rewrite <- Hst. rewrite skip_sp_marker. cbn [SR.sbind norm_obj]. fold (norm_dict str_dict). reflexivity.
  Qed.
End Revision.

(* ---------- either format ---------- *)
Definition is_stream (x : xref_type) : bool := match x with XTable => false | XStream => true end.

Definition part_of (x : xref_type) (nd : doc) (pos0 : N) : bytes :=
  match x with XTable => tab_part nd pos0 | XStream => str_part nd pos0 end.
Definition rev_of (x : xref_type) (nd : doc) (pos0 len : N) (post : bytes) : SR.revision :=
  match x with XTable => tab_rev nd pos0 len post | XStream => str_rev nd pos0 len post end.
Definition extra_loc (x : xref_type) (nd : doc) (pos0 len : N) (post : bytes) : list SR.located :=
  match x with XTable => [] | XStream => [str_loc nd pos0 len post] end.
Definition locs_of (x : xref_type) (nd : doc) (pos0 len : N) (post : bytes) : list SR.located :=
  located_of pos0 (d_objects nd) ++ extra_loc x nd pos0 len post.

Lemma rev_of_x x nd pos0 len post : SR.r_x (rev_of x nd pos0 len post) = rev_start nd pos0.
Proof. destruct x; reflexivity. Qed.
Lemma rev_of_p x nd pos0 len post :
  SR.r_p (rev_of x nd pos0 len post) = len - SR.lenN (marker (rev_start nd pos0) ++ post).
Proof. destruct x; reflexivity. Qed.
Lemma rev_of_q x nd pos0 len post : SR.r_q (rev_of x nd pos0 len post) = len - SR.lenN post.
Proof. destruct x; reflexivity. Qed.
Lemma rev_of_stream x nd pos0 len post : SR.r_stream (rev_of x nd pos0 len post) = is_stream x.
Proof. destruct x; reflexivity. Qed.

Lemma part_solid x nd pos0 t : solid (part_of x nd pos0 ++ t) = true.
Proof.
  destruct x; cbn [part_of].
  - reflexivity.
  - unfold str_part, write_indirect_object. rewrite <- !app_assoc. apply solid_digits; [apply N_dec_nonempty | apply N_dec_digits].
Qed.

Lemma part_nonempty x nd pos0 : 0 < blen (part_of x nd pos0).
Proof.
  destruct x; cbn [part_of].
  - unfold tab_part, write_xref. rewrite !blen_app. change (blen (bs "xref")) with 4. lia.
  - apply wio_nonempty.
Qed.

Theorem rev_read_section x nd pos0 file pre0 post :
  rev_dom nd ->
  file = pre0 ++ objs_bytes (d_objects nd) ++ part_of x nd pos0 ++ startxref_bytes (rev_start nd pos0) ++ post ->
  blen pre0 = pos0 -> SR.lenN file < u32_mod ->
  SR.read_section file (SR.lenN file) (rev_start nd pos0) = SR.SOk (rev_of x nd pos0 (SR.lenN file) post).
Proof.
  intros Hd Hf Hp Hs. destruct x; cbn [part_of rev_of] in *.
  - apply (tab_read_section nd pos0 Hd file pre0 post Hf Hp).
  - assert (Hn : rev_start nd pos0 < u32_mod).
    { rewrite Hf in Hs. unfold rev_start, SR.lenN, blen in *. rewrite !app_length in Hs. lia. }
    apply (str_read_section nd pos0 Hd Hn file pre0 post Hf Hp). lia.
Qed.

Theorem rev_read_entries x nd pos0 file pre0 post revs :
  rev_dom nd ->
  file = pre0 ++ objs_bytes (d_objects nd) ++ part_of x nd pos0 ++ startxref_bytes (rev_start nd pos0) ++ post ->
  blen pre0 = pos0 -> SR.lenN file < u32_mod ->
  SR.read_entries file (SR.lenN file) revs (SR.r_entries (rev_of x nd pos0 (SR.lenN file) post)) =
  SR.SOk (locs_of x nd pos0 (SR.lenN file) post).
Proof.
  intros Hd Hf Hp Hs. unfold locs_of. destruct x; cbn [part_of rev_of extra_loc SR.r_entries tab_rev str_rev] in *.
  - rewrite app_nil_r. apply (tab_read_entries nd pos0 Hd file pre0 _ revs Hf Hp); [|lia]. reflexivity.
  - assert (Hn : rev_start nd pos0 < u32_mod).
    { rewrite Hf in Hs. unfold rev_start, SR.lenN, blen in *. rewrite !app_length in Hs. lia. }
    apply (str_read_entries nd pos0 Hd Hn file pre0 post revs Hf Hp). lia.
Qed.

Lemma rev_entries_ok x nd pos0 len post :
  rev_dom nd -> rev_start nd pos0 < u32_mod ->
  Forall (fun ie : N * SR.xent => fst ie < SR.r_size (rev_of x nd pos0 len post)) (SR.r_entries (rev_of x nd pos0 len post)) /\
  sincr 0 (SR.r_entries (rev_of x nd pos0 len post)) /\
  Forall (fun ie : N * SR.xent => fst ie <= d_max_id nd + 1) (SR.r_entries (rev_of x nd pos0 len post)).
Proof.
  intros Hd Hs. destruct x; cbn [rev_of SR.r_size SR.r_entries tab_rev str_rev].
  - destruct (tab_entries_ok nd pos0 Hd) as [H1 H2]. split; [exact H1|]. split; [exact H2|].
    eapply Forall_impl; [|exact H1]. intros a Ha. cbn beta in *. lia.
  - destruct (str_entries_ok nd pos0 Hd Hs) as [H1 H2]. split; [exact H1|]. split.
    + clear H1. revert H2. generalize (str_entries nd pos0). intros l H. destruct l as [|[k e] l]; [exact I|].
      cbn [sincr] in *. destruct H. split; [lia | assumption].
    + eapply Forall_impl; [|exact H1]. intros a Ha. cbn beta in *. lia.
Qed.

Lemma rev_size x nd pos0 len post :
  SR.r_size (rev_of x nd pos0 len post) = d_max_id nd + 1 + (if is_stream x then 1 else 0).
Proof. destruct x; cbn [rev_of SR.r_size tab_rev str_rev is_stream]; lia. Qed.

(* spans of the objects an accepted revision locates *)
Definition dup_span (x : xref_type) (a : SR.spanT) : list SR.spanT := if is_stream x then [a] else [].

Lemma locs_spans x nd pos0 len post :
  map (fun l => (SR.l_off l, SR.l_end l)) (locs_of x nd pos0 len post) =
  map span_of (located_of pos0 (d_objects nd)) ++
  dup_span x (rev_start nd pos0, len - SR.lenN (marker (rev_start nd pos0) ++ post)).
Proof. unfold locs_of. rewrite map_app. destruct x; reflexivity. Qed.

(* dropping the cross-reference stream's own object from the located objects *)
Lemma locs_filter x nd pos0 len post (f : N -> bool) :
  (forall l, In l (located_of pos0 (d_objects nd)) -> f (SR.l_off l) = false) ->
  (is_stream x = true -> f (rev_start nd pos0) = true) ->
  filter (fun l => negb (f (SR.l_off l))) (locs_of x nd pos0 len post) = located_of pos0 (d_objects nd).
Proof.
  intros H1 H2. unfold locs_of. rewrite filter_app.
  rewrite (filter_all_true _ (located_of pos0 (d_objects nd))) by (intros a Ha; rewrite (H1 a Ha); reflexivity).
  destruct x; cbn [extra_loc filter]; [apply app_nil_r|].
  cbn [str_loc SR.l_off]. rewrite (H2 eq_refl). cbn [negb]. apply app_nil_r.
Qed.
