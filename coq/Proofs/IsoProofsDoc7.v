(* IsoProofsDoc7.v -- C06, document level, revisions 5 and 6, direction lopdf -> standard: what
   EncryptionState::try_from(R5 / V5) + Document::encrypt produce is opened by the standard's reader (Algorithm 2.A)
   with the owner and the user password.  Under aes_ok and the SHA-2 output sizes. *)
From LV Require Import Base.Bytes Base.Sx Model.Obj Model.DocQ Gen.Crypto
  Model.Crypto.Word Model.Crypto.RC4 Model.Crypto.PKCS5 Model.Crypto.Handler
  Spec.Crypto.Iso Spec.Crypto.IsoConcrete
  Proofs.CryptoProofs Proofs.CryptoProofsFilter Proofs.CryptoProofsObject Proofs.CryptoProofsDoc
  Proofs.IsoProofs Proofs.IsoProofsData Proofs.IsoProofsObj Proofs.IsoProofsFilter Proofs.IsoProofsAuth
  Proofs.IsoProofsDoc Proofs.IsoProofsRT Proofs.IsoProofsDoc2 Proofs.IsoProofsPerms Proofs.IsoProofsDoc6.
Local Open Scope N_scope.

Section Doc7.
Variable P : prims.
Hypothesis md5_len : forall m, length (p_md5 P m) = 16%nat.
Hypothesis HA : aes_ok P.
Let I := iprims_of P.

(* the part of C06_iso_opens_lopdf_r4 that does not depend on the revision *)
Theorem iso_opens_generic st ip d ivs d1 pw :
  read_params (encode st) = Some ip -> agree st ip (es_key st) ->
  max_id_ok d -> dict_get (d_trailer d) K_Encrypt = None ->
  Forall (fun io => indirect_ok ip (snd io)) (d_objects d) ->
  doc_encrypt P st d ivs = DOk d1 tt ->
  open_key I ip (file_id0 (d_trailer d)) pw = Some (es_key st) ->
  open_document I d1 pw =
  Opened {| d_version := d_version d; d_binary_mark := d_binary_mark d; d_trailer := d_trailer d;
            d_objects := iso_norm_objs ip (d_objects d); d_max_id := d_max_id d + 1 |} (es_key st).
Proof.
  intros Hread AG Hmax Htr Hobjs He Hopen.
  unfold doc_encrypt in He. destruct (is_encrypted d); [discriminate|].
  rewrite (encrypt_objects_refines P md5_len st _ _ AG _ Hobjs ivs) in He.
  destruct (d_max_id d =? u32_max); [discriminate|]. inversion He as [Hd1]. clear He Hd1.
  set (id := (d_max_id d + 1, 0)).
  set (m' := fst (Iso.encrypt_objects (iprims_of P) ip (es_key st) (d_objects d) ivs)).
  assert (Hfresh : ~ In id (map fst (d_objects d))).
  { intro Hin. apply Hmax in Hin. subst id. cbn [fst] in Hin. lia. }
  assert (Hkeys : map fst m' = map fst (d_objects d)) by apply iso_encrypt_objects_keys.
  unfold open_document, find_encrypt. cbn [d_trailer d_objects d_version d_binary_mark d_max_id fst snd].
  change iK_Encrypt with K_Encrypt. rewrite dget_set_same.
  change (d_max_id d + 1, 0) with id. rewrite lookup_insert_same. rewrite Hread.
  assert (Hfid : file_id0 (dict_set (d_trailer d) K_Encrypt (ORef (d_max_id d + 1) 0)) = file_id0 (d_trailer d)).
  { unfold file_id0. rewrite dget_set_other by (cbv; discriminate). reflexivity. }
  rewrite Hfid. fold I. rewrite Hopen.
  rewrite iso_decrypt_objects_insert by (rewrite Hkeys; exact Hfresh).
  unfold m'. fold I.
  rewrite (iso_decrypt_objects_rt P md5_len HA ip (es_key st) (Some id) (d_objects d) (ag_str_ok _ _ _ AG) (ag_stm_ok _ _ _ AG)).
  2:{ intros s Es. inversion Es; subst s. exact Hfresh. }
  cbn [option_map].
  assert (Hfresh2 : ~ In id (map fst (iso_norm_objs ip (d_objects d)))).
  { unfold iso_norm_objs. rewrite map_map. cbn [fst]. exact Hfresh. }
  rewrite remove_insert_fresh by exact Hfresh2.
  rewrite remove_plain_set_fresh by exact Htr. reflexivity.
Qed.

(* ---------- the dictionary of try_from(R5 / V5) read by the standard ---------- *)
Definition st_shape_r6 (st : estate) : Prop :=
  es_version st = 5%Z /\ (es_revision st = 5%Z \/ es_revision st = 6%Z) /\ es_key_length st = None.

Definition ip_of_st6 (st : estate) : iparams :=
  {| ip_V := es_version st; ip_R := es_revision st; ip_Length := 256;
     ip_O := es_O st; ip_U := es_U st; ip_OE := es_OE st; ip_UE := es_UE st; ip_Perms := es_perms_enc st;
     ip_P := p_value_i64 (es_perms st); ip_EncryptMetadata := es_encrypt_metadata st;
     ip_CF := map (fun nf => (fst nf, icfm_of (snd nf))) (es_crypt_filters st);
     ip_StmF := es_stmf st; ip_StrF := es_strf st; ip_EFF := es_eff st |}.

Theorem read_params_encode6 st : st_shape_r6 st -> NoDup (map fst (es_crypt_filters st)) ->
  read_params (encode st) = Some (ip_of_st6 st).
Proof.
  intros Hs ND. destruct st as [V R KL em cfs key stmf strf eff O OE U UE perms pe].
  unfold st_shape_r6 in Hs. cbn [es_version es_revision es_key_length] in Hs.
  unfold ip_of_st6, encode.
  cbn [es_version es_revision es_key_length es_encrypt_metadata es_crypt_filters es_key es_stmf es_strf es_eff es_O es_OE es_U
       es_UE es_perms es_perms_enc] in *.
  destruct Hs as (-> & [-> | ->] & ->);
    cbn [Z.leb Z.compare Pos.compare Pos.compare_cont andb];
    rewrite (encode_cf_fold cfs ND []) by (intros k _ []); cbn [app];
    destruct eff as [e|]; destruct em; repeat (cbn [dict_set]; keq; cbv iota); unfold read_params; dg;
      cbn [Z.eqb Pos.eqb Z.leb Z.compare Pos.compare Pos.compare_cont negb]; rewrite read_cf_entries;
      cbn [Z.to_N Z.of_N str_or_empty name_or]; dg; reflexivity.
Qed.

Record lst_ok6 (st : estate) : Prop := {
  l6_shape : st_shape_r6 st;
  l6_key : length (es_key st) = 32%nat;
  l6_nodup : NoDup (map fst (es_crypt_filters st));
  l6_identity : bt_get (es_crypt_filters st) N_Identity = None;
  l6_stmf : es_stmf st = N_Identity \/ bt_get (es_crypt_filters st) (es_stmf st) <> None;
  l6_strf : es_strf st = N_Identity \/ bt_get (es_crypt_filters st) (es_strf st) <> None;
  l6_eff : forall e, es_eff st = Some e -> e = N_Identity \/ bt_get (es_crypt_filters st) e <> None;
}.

Lemma state_matches_lst6 st : lst_ok6 st -> state_matches st (ip_of_st6 st) (es_key st).
Proof.
  intro LO. destruct (l6_shape _ LO) as (EV & _ & _).
  assert (Hdef : forall n, (n = N_Identity \/ bt_get (es_crypt_filters st) n <> None) -> defined (ip_of_st6 st) n).
  { intros n [Hn|Hn]; [left; exact Hn|right]. cbn [ip_of_st6 ip_CF]. intro H. apply cf_lookup_map_none in H. contradiction. }
  constructor; cbn [ip_of_st6 ip_V ip_EncryptMetadata ip_CF ip_StmF ip_StrF ip_EFF]; rewrite ?EV;
    try reflexivity; try (intro H; discriminate H).
  - rewrite (l6_key _ LO). lia.
  - intros _ n. symmetry. apply cf_lookup_map.
  - intros _. split; [reflexivity|]. apply Hdef. exact (l6_stmf _ LO).
  - intros _. split; [reflexivity|]. apply Hdef. exact (l6_strf _ LO).
  - intros _. apply cf_lookup_map_none. exact (l6_identity _ LO).
  - intros _. split; [reflexivity|]. intros e He. apply Hdef. exact (l6_eff _ LO e He).
  - intros _ n. apply resolve_v5_ok. exact (l6_key _ LO).
Qed.

Theorem iso_opens_lopdf_r6 st d ivs d1 pw :
  lst_ok6 st -> max_id_ok d -> dict_get (d_trailer d) K_Encrypt = None ->
  Forall (fun io => indirect_ok (ip_of_st6 st) (snd io)) (d_objects d) ->
  doc_encrypt P st d ivs = DOk d1 tt ->
  open_key I (ip_of_st6 st) (file_id0 (d_trailer d)) pw = Some (es_key st) ->
  open_document I d1 pw =
  Opened {| d_version := d_version d; d_binary_mark := d_binary_mark d; d_trailer := d_trailer d;
            d_objects := iso_norm_objs (ip_of_st6 st) (d_objects d); d_max_id := d_max_id d + 1 |} (es_key st).
Proof.
  intros LO. apply iso_opens_generic.
  - apply read_params_encode6; [exact (l6_shape _ LO)|exact (l6_nodup _ LO)].
  - apply agree_of_state. apply state_matches_lst6. exact LO.
Qed.
End Doc7.

(* ---------- EncryptionState::try_from(R5 / V5) and the interoperability statement ---------- *)
Section Interop7.
Variable P : prims.
Hypothesis md5_len : forall m, length (p_md5 P m) = 16%nat.
Hypothesis HA : aes_ok P.
Hypothesis sha256_len : forall m, length (p_sha256 P m) = 32%nat.
Hypothesis sha384_len : forall m, length (p_sha384 P m) = 48%nat.
Hypothesis sha512_len : forall m, length (p_sha512 P m) = 64%nat.
Let I := iprims_of P.

Definition st_r6 (R : Z) (em : bool) (perms : N) (fek owner user : bytes) (rnd : list bytes)
           (cfs : cfmap) (stmf strf : bytes) : estate :=
  let Pz := p_value_i64 perms in
  let U8 := alg8 I R fek user (Handler.draw rnd 0) in
  let O9 := alg9 I R fek owner (fst U8) (Handler.draw rnd 1) in
  {| es_version := 5; es_revision := R; es_key_length := None; es_encrypt_metadata := em; es_crypt_filters := cfs;
     es_key := fek; es_stmf := stmf; es_strf := strf; es_eff := None;
     es_O := fst O9; es_OE := snd O9; es_U := fst U8; es_UE := snd U8;
     es_perms := perms; es_perms_enc := alg10 I Pz em fek (Handler.draw rnd 2) |}.

Lemma try_from_r6_eq R em perms fek owner user rnd cfs stmf strf : perms_ok perms -> length fek = 32%nat ->
  try_from_r6 P (palg0 em None 5 R perms) fek owner user rnd cfs stmf strf =
  Ok (st_r6 R em perms fek owner user rnd cfs stmf strf).
Proof.
  intros Hp Hf. destruct (perms_roundtrip perms Hp) as [E1 E2].
  unfold try_from_r6. rewrite (len_is_true fek 32 Hf). cbn [negb].
  rewrite (alg8_refines P (palg0 em None 5 R perms) R fek user (Handler.draw rnd 0) eq_refl Hf).
  destruct (alg8 (iprims_of P) R fek user (Handler.draw rnd 0)) as [u ue] eqn:E8.
  rewrite (alg9_refines P (with_U (palg0 em None 5 R perms) u ue) R fek owner (Handler.draw rnd 1) eq_refl Hf).
  cbn [with_U pa_U].
  destruct (alg9 (iprims_of P) R fek owner u (Handler.draw rnd 1)) as [o oe] eqn:E9.
  rewrite (alg10_refines P (with_U (palg0 em None 5 R perms) u ue) (p_value_i64 perms) em fek (Handler.draw rnd 2)
             (eq_sym E1) E2 eq_refl).
  unfold st_r6. fold I. unfold I. rewrite E8. cbn [fst snd]. rewrite E9. reflexivity.
Qed.

Definition version_ok6 (v : eversion) : Prop :=
  match v with
  | ER5 em cfs fek stmf strf owner user perms | EV5 em cfs fek stmf strf owner user perms =>
    perms_ok perms /\ length fek = 32%nat /\ NoDup (map fst cfs) /\ bt_get cfs N_Identity = None /\
    (stmf = N_Identity \/ bt_get cfs stmf <> None) /\ (strf = N_Identity \/ bt_get cfs strf <> None)
  | _ => False
  end.

Definition st_of_version6 (v : eversion) (rnd : list bytes) : estate :=
  match v with
  | ER5 em cfs fek stmf strf owner user perms => st_r6 5 em perms fek owner user rnd cfs stmf strf
  | EV5 em cfs fek stmf strf owner user perms => st_r6 6 em perms fek owner user rnd cfs stmf strf
  | _ => st_r6 0 true 0 [] [] [] [] [] [] []
  end.

Theorem try_from_version_eq6 d v rnd : version_ok6 v -> try_from_version P d v rnd = Ok (st_of_version6 v rnd).
Proof.
  destruct v as [| | |em cfs fek stmf strf owner user perms|em cfs fek stmf strf owner user perms]; cbn [version_ok6]; try contradiction;
    intros (Hp & Hf & _); cbn [try_from_version st_of_version6]; apply try_from_r6_eq; assumption.
Qed.

Lemma st_of_version6_ok v rnd : version_ok6 v -> lst_ok6 (st_of_version6 v rnd).
Proof.
  destruct v as [| | |em cfs fek stmf strf owner user perms|em cfs fek stmf strf owner user perms]; cbn [version_ok6]; try contradiction;
    intros (Hp & Hf & ND & Hi & Hs & Hr);
    constructor; cbn [st_of_version6 st_r6 es_version es_revision es_key_length es_crypt_filters es_stmf es_strf es_eff es_key];
    try assumption; try (intros e H; discriminate H).
  - repeat split; try reflexivity. left. reflexivity.
  - repeat split; try reflexivity. right. reflexivity.
Qed.

Section Go.
Variables (d : doc) (v : eversion) (rnd ivs : list bytes) (st : estate) (d1 : doc).
Hypothesis Hv : version_ok6 v.
Hypothesis Hmax : max_id_ok d.
Hypothesis Htr : dict_get (d_trailer d) K_Encrypt = None.
Hypothesis Hobjs : Forall (fun io => indirect_ok (ip_of_st6 (st_of_version6 v rnd)) (snd io)) (d_objects d).
Hypothesis Htry : try_from_version P d v rnd = Ok st.
Hypothesis Henc : doc_encrypt P st d ivs = DOk d1 tt.

Lemma st_is6 : st = st_of_version6 v rnd.
Proof. rewrite (try_from_version_eq6 d v rnd Hv) in Htry. inversion Htry. reflexivity. Qed.

Definition plain_again6 : doc :=
  {| d_version := d_version d; d_binary_mark := d_binary_mark d; d_trailer := d_trailer d;
     d_objects := iso_norm_objs (ip_of_st6 st) (d_objects d); d_max_id := d_max_id d + 1 |}.

Lemma opens_with7 pw : open_key I (ip_of_st6 st) (file_id0 (d_trailer d)) pw = Some (es_key st) ->
  open_document I d1 pw = Opened plain_again6 (es_key st).
Proof.
  intro Hopen. unfold plain_again6.
  apply (iso_opens_lopdf_r6 P md5_len HA st d ivs d1 pw); try assumption.
  - rewrite st_is6. apply (st_of_version6_ok v rnd Hv).
  - rewrite st_is6. exact Hobjs.
Qed.

(* with the owner password (the empty string when none was given: Algorithm 9 has no "use the user password") *)
Theorem lopdf_encrypt_iso_decrypt_owner_r6 : open_document I d1 (v_owner v) = Opened plain_again6 (es_key st).
Proof.
  apply opens_with7. rewrite st_is6. clear Hobjs Htry Henc.
  destruct v as [| | |em cfs fek stmf strf owner user perms|em cfs fek stmf strf owner user perms]; cbn [version_ok6] in Hv; try contradiction;
    destruct Hv as (Hp & Hf & _); destruct (perms_roundtrip perms Hp) as [_ HC];
    unfold open_key; cbn [st_of_version6 st_r6 ip_of_st6 ip_R ip_O ip_U ip_OE ip_UE ip_Perms ip_P ip_EncryptMetadata es_version es_revision
                          es_O es_U es_OE es_UE es_perms es_perms_enc es_encrypt_metadata es_key v_owner
                          Z.leb Z.compare Pos.compare Pos.compare_cont];
    apply (open_owner_r6 P HA sha256_len sha384_len sha512_len); assumption.
Qed.

(* with the user password, when Algorithm 12 does not take it for the owner password *)
Theorem lopdf_encrypt_iso_decrypt_user_r6 :
  alg12 I (ip_R (ip_of_st6 st)) (ip_O (ip_of_st6 st)) (ip_U (ip_of_st6 st)) (v_user v) = false ->
  open_document I d1 (v_user v) = Opened plain_again6 (es_key st).
Proof.
  intro H12. apply opens_with7. revert H12. rewrite st_is6. clear Hobjs Htry Henc.
  destruct v as [| | |em cfs fek stmf strf owner user perms|em cfs fek stmf strf owner user perms]; cbn [version_ok6] in Hv; try contradiction;
    destruct Hv as (Hp & Hf & _); destruct (perms_roundtrip perms Hp) as [_ HC];
    unfold open_key; cbn [st_of_version6 st_r6 ip_of_st6 ip_R ip_O ip_U ip_OE ip_UE ip_Perms ip_P ip_EncryptMetadata es_version es_revision
                          es_O es_U es_OE es_UE es_perms es_perms_enc es_encrypt_metadata es_key v_user
                          Z.leb Z.compare Pos.compare Pos.compare_cont];
    intro H12; apply (open_user_r6 P HA sha256_len sha384_len sha512_len); assumption.
Qed.
End Go.
End Interop7.
