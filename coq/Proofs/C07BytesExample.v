(* C07BytesExample.v -- C07, byte level: non-vacuity.  A two-object document is saved (table format), loaded,
   updated through the modelled API (object 1 replaced by set_object, object 3 added by add_object), saved
   incrementally and loaded again.  Every hypothesis of [inc_save_reload_table] is discharged, the conclusion is
   evaluated, and the executable loader model run on the produced bytes gives the same document.  A second update
   (object 3 replaced, object 4 added) made from the bytes and the loaded document of the first one shows the
   induction step of [lopdf_history] on concrete data. *)
From LV Require Import Base.Bytes Base.Sx Model.Obj Model.DocQ Model.Writer Model.Parser Model.Save Model.Xref Model.Loader
  Model.Incremental Model.Utf Gen.Lex Gen.SaveFmt Gen.Inc Proofs.IncrementalProofs Proofs.LexProofs Proofs.RealProofs
  Proofs.ObjectRtProofs Proofs.SaveProofs Proofs.FilterProofsDict Spec.SaveSpec Proofs.LoadProofs Proofs.LoadProofsFile
  Proofs.LoadProofsXref Proofs.LoadProofsTable Proofs.LoadProofsAgain Proofs.LoadProofsStream Proofs.LoadProofsFull
  Proofs.StrictLoadProofs Proofs.StrictRevisionProofs Proofs.StrictIncrementalProofs Proofs.C07Bytes Proofs.C07BytesTable
  Proofs.C07BytesStream Proofs.C07BytesHistory.

Local Open Scope N_scope.

Definition ex_d : doc :=
  {| d_version := bs "1.5"; d_binary_mark := [xbb; xad; xc0; xde];
     d_trailer := [(K_Root, ORef 1 0)];
     d_objects := [((1, 0), ODict [(K_Type, OName (bs "Catalog"))]); ((2, 0), OInt 7)];
     d_max_id := 2 |}.

Definition ex_cat2 : obj := ODict [(K_Type, OName (bs "Catalog")); (bs "V", OInt 2)].
Definition ex_edits : list edit := [ESet (1, 0) ex_cat2; EAdd (OStr (bs "new") false)].

Definition ex_F : bytes := so_bytes (save XTable ex_d).
Definition ex_prev : xdoc := {| xd_doc := reloaded XTable ex_d; xd_start := Save.blen (body_of ex_d); xd_type := XTable |}.
Definition ex_s : incdoc := fold_left apply_edit ex_edits (create_from ex_F ex_prev).
Definition ex_nd : doc := xd_doc (i_new ex_s).

Lemma ex_d_savable : savable ex_d.
Proof.
  constructor; cbn [ex_d d_version d_binary_mark d_trailer d_objects d_max_id].
  - vm_compute. reflexivity.
  - reflexivity.
  - reflexivity.
  - vm_compute. discriminate.
  - cbn [obj_numbers map fst increasing]. repeat split; reflexivity.
  - apply Forall_cons; [|apply Forall_cons; [|apply Forall_nil]]; cbn [fst snd].
    + split; [vm_compute; discriminate|]. split; [|reflexivity].
      cbn [top_wf]. constructor; [repeat constructor; cbn; intuition discriminate|]. repeat constructor.
    + split; [vm_compute; discriminate|]. split; [|reflexivity]. constructor. reflexivity.
  - constructor; [repeat constructor; cbn; intuition discriminate|].
    constructor; [cbn [snd]; constructor; vm_compute; discriminate | constructor].
  - reflexivity.
  - reflexivity.
Qed.

Lemma ex_nd_eq :
  ex_nd = {| d_version := INC_VERSION; d_binary_mark := INC_BINARY_MARK;
             d_trailer := [(K_Root, ORef 1 0); (Save.K_Size, OInt 3); (Save.K_Prev, OInt 67)];
             d_objects := [((1, 0), ex_cat2); ((3, 0), OStr (bs "new") false)];
             d_max_id := 3 |}.
Proof. vm_compute. reflexivity. Qed.

Lemma ex_nd_rev : rev_dom ex_nd.
Proof.
  rewrite ex_nd_eq. constructor; cbn [d_max_id d_objects d_trailer].
  - vm_compute. reflexivity.
  - cbn [obj_numbers map fst increasing]. repeat split; reflexivity.
  - apply Forall_cons; [|apply Forall_cons; [|apply Forall_nil]]; cbn [fst snd].
    + split; [vm_compute; discriminate|]. split; [vm_compute; discriminate|]. split; [|reflexivity].
      cbn [top_wf ex_cat2]. constructor; [repeat constructor; cbn; intuition discriminate|].
      constructor; [constructor|]. constructor; [|constructor]. cbn [snd]. constructor. reflexivity.
    + split; [vm_compute; discriminate|]. split; [vm_compute; discriminate|]. split; [|reflexivity]. constructor.
  - constructor; [repeat constructor; cbn; intuition discriminate|].
    constructor; [cbn [snd]; constructor; vm_compute; discriminate|].
    constructor; [cbn [snd]; constructor; reflexivity|].
    constructor; [cbn [snd]; constructor; reflexivity | constructor].
Qed.

Definition ex_result : doc :=
  {| d_version := bs "1.5"; d_binary_mark := [xbb; xad; xc0; xde];
     d_trailer := [(K_Root, ORef 1 0); (Save.K_Size, OInt 4)];
     d_objects := [((1, 0), ex_cat2); ((2, 0), OInt 7); ((3, 0), OStr (bs "new") false)];
     d_max_id := 3 |}.

(* the hypotheses of inc_save_reload_table hold, and its conclusion is this document *)
Theorem example_reload :
  savable ex_d /\ known_deep ex_d = false /\ small_file XTable ex_d /\ dict_get (d_trailer ex_d) K_XRefStm = None /\
  rev_dom ex_nd /\ known_deep ex_nd = false /\ Save.blen (io_bytes (inc_save ex_s)) < u32_mod /\
  Forall (fun io : oid * obj => In (fst io) (map fst (d_objects (SaveSpec.written ex_d))) \/
                                ~ In (fst (fst io)) (obj_numbers (d_objects (SaveSpec.written ex_d)))) (new_objects ex_s) /\
  io_status (inc_save ex_s) = IncOk /\
  load (io_bytes (inc_save ex_s)) = LOk ex_result XTTable.
Proof.
  assert (H1 := ex_d_savable).
  assert (H2 : known_deep ex_d = false) by (vm_compute; reflexivity).
  assert (H3 : small_file XTable ex_d) by (vm_compute; reflexivity).
  assert (H4 : dict_get (d_trailer ex_d) K_XRefStm = None) by reflexivity.
  assert (H5 := ex_nd_rev).
  assert (H6 : known_deep ex_nd = false) by (vm_compute; reflexivity).
  assert (H7 : Save.blen (io_bytes (inc_save ex_s)) < u32_mod) by (vm_compute; reflexivity).
  assert (H8 : Forall (fun io : oid * obj => In (fst io) (map fst (d_objects (SaveSpec.written ex_d))) \/
                                ~ In (fst (fst io)) (obj_numbers (d_objects (SaveSpec.written ex_d)))) (new_objects ex_s)).
  { change (new_objects ex_s) with (d_objects ex_nd). rewrite ex_nd_eq. cbn [d_objects].
    apply Forall_cons; [left; left; reflexivity|]. apply Forall_cons; [|apply Forall_nil].
    right. vm_compute. intros [H|[H|[]]]; discriminate H. }
  repeat (split; [assumption|]).
  destruct (inc_save_reload_table ex_d ex_edits H1 H2 H3 H4 H5 H6 H7 H8) as [Hst Hload].
  split; [exact Hst|]. etransitivity; [exact Hload|]. vm_compute. reflexivity.
Qed.

(* the executable loader model, run on the produced bytes, agrees (no theorem involved) *)
Theorem example_reload_computed : load (io_bytes (inc_save ex_s)) = LOk ex_result XTTable.
Proof. vm_compute. reflexivity. Qed.

(* ---------- a second update, made from the bytes and the document of the first ---------- *)
Definition ex_F2 : bytes := io_bytes (inc_save ex_s).
Definition ex_prev2 : xdoc := {| xd_doc := ex_result; xd_start := io_start (inc_save ex_s); xd_type := XTable |}.
Definition ex_s2 : incdoc :=
  fold_left apply_edit [ESet (3, 0) (OStr (bs "newer") false); EAdd (ORef 1 0)] (create_from ex_F2 ex_prev2).

Definition ex_result2 : objmap :=
  [((1, 0), ex_cat2); ((2, 0), OInt 7); ((3, 0), OStr (bs "newer") false); ((4, 0), ORef 1 0)].

Lemma ex_history1 :
  lopdf_history ex_F2 (io_start (inc_save ex_s)) XTable (d_objects ex_result).
Proof.
  destruct example_reload as (H1 & H2 & H3 & H4 & H5 & H6 & H7 & H8 & _).
  pose proof (hist_save XTable ex_d H1 H2 H3 H4) as Hh.
  assert (Hl : load (so_bytes (save XTable ex_d)) = LOk (reloaded XTable ex_d) XTTable).
  { apply (load_save_gen XTable ex_d); [apply savable_written; exact H1 | rewrite known_deep_written by exact H1; exact H2 | exact H3]. }
  pose proof (hist_update _ _ XTable _ (reloaded XTable ex_d) ex_s Hh Hl) as Hu.
  assert (Ebytes : i_bytes ex_s = so_bytes (save XTable ex_d)) by reflexivity.
  assert (Eprev : i_prev ex_s = {| xd_doc := reloaded XTable ex_d; xd_start := Save.blen (body_of ex_d); xd_type := XTable |}) by reflexivity.
  specialize (Hu Ebytes Eprev).
  assert (Hdom : upd_dom (Save.blen (body_of ex_d)) (xd_doc (i_new ex_s))).
  { change (xd_doc (i_new ex_s)) with ex_nd. constructor; [exact H5 | exact H6 | | | |]; rewrite ex_nd_eq; vm_compute; reflexivity. }
  assert (Hmx : d_max_id (reloaded XTable ex_d) <= d_max_id (xd_doc (i_new ex_s))) by (vm_compute; discriminate).
  specialize (Hu Hdom Hmx H7).
  assert (Hids : Forall (fun io : oid * obj => In (fst io) (map fst (d_objects (reloaded XTable ex_d))) \/
                            ~ In (fst (fst io)) (obj_numbers (d_objects (reloaded XTable ex_d)))) (d_objects (xd_doc (i_new ex_s)))).
  { change (d_objects (xd_doc (i_new ex_s))) with (d_objects ex_nd). rewrite ex_nd_eq. cbn [d_objects].
    apply Forall_cons; [left; left; reflexivity|]. apply Forall_cons; [|apply Forall_nil].
    right. vm_compute. intros [H|[H|[]]]; discriminate H. }
  specialize (Hu Hids).
  cbn [step_objs] in Hu.
  replace (d_objects ex_result) with
    (Incremental.overlay (d_objects (reloaded XTable ex_d)) (norm_objects (d_objects (xd_doc (i_new ex_s)))))
    by (vm_compute; reflexivity).
  exact Hu.
Qed.

Theorem example_second_update :
  lopdf_history (io_bytes (inc_save ex_s2)) (io_start (inc_save ex_s2)) XTable ex_result2 /\
  load (io_bytes (inc_save ex_s2)) =
  LOk {| d_version := bs "1.5"; d_binary_mark := [xbb; xad; xc0; xde];
         d_trailer := [(K_Root, ORef 1 0); (Save.K_Size, OInt 5)]; d_objects := ex_result2; d_max_id := 4 |} XTTable.
Proof.
  split; [|vm_compute; reflexivity].
  pose proof (hist_update _ _ XTable _ ex_result ex_s2 ex_history1 example_reload_computed eq_refl eq_refl) as Hu.
  assert (End : xd_doc (i_new ex_s2) =
                {| d_version := INC_VERSION; d_binary_mark := INC_BINARY_MARK;
                   d_trailer := [(K_Root, ORef 1 0); (Save.K_Size, OInt 4); (Save.K_Prev, OInt (Z.of_N (io_start (inc_save ex_s))))];
                   d_objects := [((3, 0), OStr (bs "newer") false); ((4, 0), ORef 1 0)];
                   d_max_id := 4 |}) by (vm_compute; reflexivity).
  assert (Hdom : upd_dom (io_start (inc_save ex_s)) (xd_doc (i_new ex_s2))).
  { rewrite End. constructor; try (vm_compute; reflexivity).
    constructor; cbn [d_max_id d_objects d_trailer].
    - vm_compute. reflexivity.
    - cbn [obj_numbers map fst increasing]. repeat split; reflexivity.
    - apply Forall_cons; [|apply Forall_cons; [|apply Forall_nil]]; cbn [fst snd].
      + split; [vm_compute; discriminate|]. split; [vm_compute; discriminate|]. split; [|reflexivity]. constructor.
      + split; [vm_compute; discriminate|]. split; [vm_compute; discriminate|]. split; [|reflexivity].
        constructor; vm_compute; discriminate.
    - constructor; [repeat constructor; cbn; intuition discriminate|].
      constructor; [cbn [snd]; constructor; vm_compute; discriminate|].
      constructor; [cbn [snd]; constructor; reflexivity|].
      constructor; [cbn [snd]; constructor; vm_compute; reflexivity | constructor]. }
  assert (Hmx : d_max_id ex_result <= d_max_id (xd_doc (i_new ex_s2))) by (rewrite End; vm_compute; discriminate).
  specialize (Hu Hdom Hmx).
  assert (Hlen : Save.blen (io_bytes (inc_save ex_s2)) < u32_mod) by (vm_compute; reflexivity).
  specialize (Hu Hlen).
  assert (Hids : Forall (fun io : oid * obj => In (fst io) (map fst (d_objects ex_result)) \/
                            ~ In (fst (fst io)) (obj_numbers (d_objects ex_result))) (d_objects (xd_doc (i_new ex_s2)))).
  { rewrite End. cbn [d_objects].
    apply Forall_cons; [left; right; right; left; reflexivity|]. apply Forall_cons; [|apply Forall_nil].
    right. vm_compute. intros [H|[H|[H|[]]]]; discriminate H. }
  specialize (Hu Hids). cbn [step_objs] in Hu.
  replace ex_result2 with (Incremental.overlay (d_objects ex_result) (norm_objects (d_objects (xd_doc (i_new ex_s2)))))
    by (vm_compute; reflexivity).
  exact Hu.
Qed.

(* ---------- the same document and edits in the cross-reference STREAM format ---------- *)
Definition ex_Fs : bytes := so_bytes (save XStream ex_d).
Definition ex_prev_s : xdoc := {| xd_doc := reloaded XStream ex_d; xd_start := Save.blen (body_of ex_d); xd_type := XStream |}.
Definition ex_ss : incdoc := fold_left apply_edit ex_edits (create_from ex_Fs ex_prev_s).

(* the loaded document holds the two cross-reference stream objects (numbers 3 and 5) besides the objects 1, 2, 4 *)
Theorem example_stream :
  lopdf_history (io_bytes (inc_save ex_ss)) (io_start (inc_save ex_ss)) XStream
                (step_objs XStream (d_objects (reloaded XStream ex_d)) (xd_doc (i_new ex_ss))
                           (Save.blen (ex_Fs ++ inc_lines (xd_doc (i_new ex_ss))))) /\
  obj_numbers (step_objs XStream (d_objects (reloaded XStream ex_d)) (xd_doc (i_new ex_ss))
                         (Save.blen (ex_Fs ++ inc_lines (xd_doc (i_new ex_ss))))) = [1; 2; 3; 4; 5] /\
  exists d', load (io_bytes (inc_save ex_ss)) = LOk d' XTStream /\
             d_objects d' = step_objs XStream (d_objects (reloaded XStream ex_d)) (xd_doc (i_new ex_ss))
                                      (Save.blen (ex_Fs ++ inc_lines (xd_doc (i_new ex_ss)))) /\
             lookup (d_objects d') (1, 0) = Some ex_cat2 /\ lookup (d_objects d') (4, 0) = Some (OStr (bs "new") false).
Proof.
  assert (H1 := ex_d_savable).
  assert (H2 : known_deep ex_d = false) by (vm_compute; reflexivity).
  assert (H3 : small_file XStream ex_d) by (vm_compute; reflexivity).
  assert (H4 : dict_get (d_trailer ex_d) K_XRefStm = None) by reflexivity.
  pose proof (hist_save XStream ex_d H1 H2 H3 H4) as Hh.
  assert (Hl : load (so_bytes (save XStream ex_d)) = LOk (reloaded XStream ex_d) XTStream).
  { apply (load_save_gen XStream ex_d); [apply savable_written; exact H1 | rewrite known_deep_written by exact H1; exact H2 | exact H3]. }
  pose proof (hist_update _ _ XStream _ (reloaded XStream ex_d) ex_ss Hh Hl eq_refl eq_refl) as Hu.
  assert (End : xd_doc (i_new ex_ss) =
                {| d_version := INC_VERSION; d_binary_mark := INC_BINARY_MARK;
                   d_trailer := [(K_Root, ORef 1 0); (K_Type, OName K_XRef); (Save.K_Size, OInt 4); (Save.K_Prev, OInt 67)];
                   d_objects := [((1, 0), ex_cat2); ((4, 0), OStr (bs "new") false)];
                   d_max_id := 4 |}) by (vm_compute; reflexivity).
  assert (Hdom : upd_dom (Save.blen (body_of ex_d)) (xd_doc (i_new ex_ss))).
  { rewrite End. constructor; try (vm_compute; reflexivity).
    constructor; cbn [d_max_id d_objects d_trailer].
    - vm_compute. reflexivity.
    - cbn [obj_numbers map fst increasing]. repeat split; reflexivity.
    - apply Forall_cons; [|apply Forall_cons; [|apply Forall_nil]]; cbn [fst snd].
      + split; [vm_compute; discriminate|]. split; [vm_compute; discriminate|]. split; [|reflexivity].
        cbn [top_wf ex_cat2]. constructor; [repeat constructor; cbn; intuition discriminate|].
        constructor; [constructor|]. constructor; [|constructor]. cbn [snd]. constructor. reflexivity.
      + split; [vm_compute; discriminate|]. split; [vm_compute; discriminate|]. split; [|reflexivity]. constructor.
    - constructor; [repeat constructor; cbn; intuition discriminate|].
      constructor; [cbn [snd]; constructor; vm_compute; discriminate|].
      constructor; [cbn [snd]; constructor|].
      constructor; [cbn [snd]; constructor; reflexivity|].
      constructor; [cbn [snd]; constructor; reflexivity | constructor]. }
  assert (Hmx : d_max_id (reloaded XStream ex_d) <= d_max_id (xd_doc (i_new ex_ss))) by (vm_compute; discriminate).
  assert (Hlen : Save.blen (io_bytes (inc_save ex_ss)) < u32_mod) by (vm_compute; reflexivity).
  specialize (Hu Hdom Hmx Hlen).
  assert (Hids : Forall (fun io : oid * obj => In (fst io) (map fst (d_objects (reloaded XStream ex_d))) \/
                            ~ In (fst (fst io)) (obj_numbers (d_objects (reloaded XStream ex_d)))) (d_objects (xd_doc (i_new ex_ss)))).
  { rewrite End. cbn [d_objects].
    apply Forall_cons; [left; left; reflexivity|]. apply Forall_cons; [|apply Forall_nil].
    right. vm_compute. intros [H|[H|[H|[]]]]; discriminate H. }
  specialize (Hu Hids).
  split; [exact Hu|]. split; [vm_compute; reflexivity|].
  destruct (history_loads _ _ _ _ Hu) as [_ [v [m [t [mx Hload]]]]].
  eexists. split; [exact Hload|]. cbn [d_objects]. split; [reflexivity|]. split; vm_compute; reflexivity.
Qed.

(* ---------- the hypothesis on generations is necessary ---------- *)
(* An update that re-uses object number 2 under ANOTHER generation ((2,1) instead of (2,0)): the merged table has one
   entry per NUMBER, so the loader returns (2,1) only, while Incremental.overlay, which is keyed by (number, generation),
   keeps both.  This is why inc_table_good / inc_stream_good / lopdf_history require every new identifier to be a
   previous identifier or to carry a new number. *)
Definition ex_sg : incdoc := fold_left apply_edit [ESet (2, 1) (OInt 8)] (create_from ex_F ex_prev).

Theorem gen_hypothesis_needed :
  (exists d', load (io_bytes (inc_save ex_sg)) = LOk d' XTTable /\
              d_objects d' = [((1, 0), ODict [(K_Type, OName (bs "Catalog"))]); ((2, 1), OInt 8)]) /\
  Incremental.overlay (d_objects (reloaded XTable ex_d)) (norm_objects (new_objects ex_sg)) =
    [((1, 0), ODict [(K_Type, OName (bs "Catalog"))]); ((2, 0), OInt 7); ((2, 1), OInt 8)].
Proof. split; [eexists; split; vm_compute; reflexivity | vm_compute; reflexivity]. Qed.

Print Assumptions example_reload.
Print Assumptions example_stream.
Print Assumptions example_second_update.
