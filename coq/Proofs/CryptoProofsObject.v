(* CryptoProofsObject.v -- C05 rung 2: decrypt_object inverts encrypt_object on every object
   (object_rt), by induction over the nested object type. *)
From LV Require Import Base.Bytes Base.Sx Model.Obj Model.Crypto.Word Model.Crypto.RC4 Model.Crypto.PKCS5
  Model.Crypto.Handler Proofs.CryptoProofs Proofs.CryptoProofsFilter.
Local Open Scope N_scope.

(* ---------- induction principle for the nested object type ---------- *)
Lemma obj_ind5 (Q : obj -> Prop) :
  Q ONull -> (forall b, Q (OBool b)) -> (forall z, Q (OInt z)) -> (forall r, Q (OReal r)) ->
  (forall n, Q (OName n)) -> (forall s h, Q (OStr s h)) ->
  (forall l, Forall Q l -> Q (OArr l)) ->
  (forall d, Forall (fun kv => Q (snd kv)) d -> Q (ODict d)) ->
  (forall d c, Forall (fun kv => Q (snd kv)) d -> Q (OStream d c)) ->
  (forall i g, Q (ORef i g)) ->
  forall o, Q o.
Proof.
  intros H1 H2 H3 H4 H5 H6 HA HD HS HR.
  fix IH 1. intro o. destruct o as [|b|z|r|n|s h|l|d|d c|i g].
  - exact H1.
  - apply H2.
  - apply H3.
  - apply H4.
  - apply H5.
  - apply H6.
  - apply HA. induction l as [|x l IHl]; constructor; [apply IH | exact IHl].
  - apply HD. induction d as [|[k v] d IHd]; constructor; [apply IH | exact IHd].
  - apply HS. induction d as [|[k v] d IHd]; constructor; [apply IH | exact IHd].
  - apply HR.
Qed.

(* ---------- dictionary facts ---------- *)
Lemma dget_set_other d k v k' : k <> k' -> dict_get (dict_set d k v) k' = dict_get d k'.
Proof.
  intro Hk. induction d as [|[k0 v0] d IH]; cbn [dict_set dict_get].
  - destruct (bytes_eqb k k') eqn:E; [apply bytes_eqb_eq in E; contradiction | reflexivity].
  - destruct (bytes_eqb k0 k) eqn:E; cbn [dict_get].
    + apply bytes_eqb_eq in E. subst k0.
      destruct (bytes_eqb k k') eqn:E'; [apply bytes_eqb_eq in E'; contradiction | reflexivity].
    + rewrite IH. reflexivity.
Qed.

Lemma dget_set_same d k v : dict_get (dict_set d k v) k = Some v.
Proof.
  induction d as [|[k0 v0] d IH]; cbn [dict_set dict_get].
  - rewrite bytes_eqb_refl. reflexivity.
  - destruct (bytes_eqb k0 k) eqn:E; cbn [dict_get]; rewrite E; [reflexivity | exact IH].
Qed.

Lemma dset_set d k v w : dict_set (dict_set d k v) k w = dict_set d k w.
Proof.
  induction d as [|[k0 v0] d IH]; cbn [dict_set].
  - rewrite bytes_eqb_refl. reflexivity.
  - destruct (bytes_eqb k0 k) eqn:E; cbn [dict_set]; rewrite E; [reflexivity | rewrite IH; reflexivity].
Qed.

Lemma dset_same d k v : dict_get d k = Some v -> dict_set d k v = d.
Proof.
  induction d as [|[k0 v0] d IH]; cbn [dict_set dict_get]; [discriminate|].
  destruct (bytes_eqb k0 k) eqn:E; intro H.
  - inversion H; subst. reflexivity.
  - rewrite IH by exact H. reflexivity.
Qed.

(* ---------- the nested loops as top-level functions ---------- *)
Fixpoint enc_list (P : prims) (st : estate) (id : oid) (l : list obj) (ivs : list bytes)
  : res (list obj * list bytes) :=
  match l with
  | [] => Ok ([], ivs)
  | x :: l' =>
    rlet r1 := encrypt_object P st id x ivs in
    rlet r2 := enc_list P st id l' (snd r1) in
    Ok (fst r1 :: fst r2, snd r2)
  end.
Fixpoint enc_dict (P : prims) (st : estate) (id : oid) (d : dict) (ivs : list bytes)
  : res (dict * list bytes) :=
  match d with
  | [] => Ok ([], ivs)
  | (k, x) :: d' =>
    rlet r1 := encrypt_object P st id x ivs in
    rlet r2 := enc_dict P st id d' (snd r1) in
    Ok ((k, fst r1) :: fst r2, snd r2)
  end.
Fixpoint dec_list (P : prims) (st : estate) (id : oid) (l : list obj) : res (list obj) :=
  match l with
  | [] => Ok []
  | x :: l' => rlet x' := decrypt_object P st id x in rlet r := dec_list P st id l' in Ok (x' :: r)
  end.
Fixpoint dec_dict (P : prims) (st : estate) (id : oid) (d : dict) : res dict :=
  match d with
  | [] => Ok []
  | (k, x) :: d' => rlet x' := decrypt_object P st id x in rlet r := dec_dict P st id d' in Ok ((k, x') :: r)
  end.

Definition enc_body (P : prims) (st : estate) (id : oid) (o : obj) (ivs : list bytes) : res (obj * list bytes) :=
  match o with
  | OArr l => rlet r := enc_list P st id l ivs in Ok (OArr (fst r), snd r)
  | ODict d => rlet r := enc_dict P st id d ivs in Ok (ODict (fst r), snd r)
  | OStr s h =>
    let f := string_filter st in
    rlet r := cf_encrypt P f (cf_compute_key P f (es_key st) id) s ivs in
    Ok (OStr (fst r) h, snd r)
  | OStream d c =>
    let f := stream_cf st o in
    rlet rd := enc_dict P st id d ivs in
    rlet r := cf_encrypt P f (cf_compute_key P f (es_key st) id) c (snd rd) in
    Ok (set_content (fst rd) (fst r), snd r)
  | _ => Ok (o, ivs)
  end.

Lemma encrypt_object_eq P st id o ivs :
  encrypt_object P st id o ivs = if skip_object st o then Ok (o, ivs) else enc_body P st id o ivs.
Proof.
  destruct o as [|b|z|r|n|s h|l|d|d c|i g]; try reflexivity.
  - cbn [encrypt_object enc_body]. destruct (skip_object st (OArr l)); [reflexivity|].
    f_equal. revert ivs. induction l as [|x l IH]; intro ivs; [reflexivity|].
    cbn [enc_list]. destruct (encrypt_object P st id x ivs) as [[x' ivs1]| |]; cbn [rbind fst snd]; try reflexivity.
    rewrite IH. reflexivity.
  - cbn [encrypt_object enc_body]. destruct (skip_object st (ODict d)); [reflexivity|].
    f_equal. revert ivs. induction d as [|[k x] d IH]; intro ivs; [reflexivity|].
    cbn [enc_dict]. destruct (encrypt_object P st id x ivs) as [[x' ivs1]| |]; cbn [rbind fst snd]; try reflexivity.
    rewrite IH. reflexivity.
  - cbn [encrypt_object enc_body]. destruct (skip_object st (OStream d c)); [reflexivity|].
    f_equal. revert ivs. induction d as [|[k x] d IH]; intro ivs; [reflexivity|].
    cbn [enc_dict]. destruct (encrypt_object P st id x ivs) as [[x' ivs1]| |]; cbn [rbind fst snd]; try reflexivity.
    rewrite IH. reflexivity.
Qed.

Definition dec_body (P : prims) (st : estate) (id : oid) (o : obj) : res obj :=
  match o with
  | OArr l => rlet l' := dec_list P st id l in Ok (OArr l')
  | ODict d => rlet d' := dec_dict P st id d in Ok (ODict d')
  | OStr s h =>
    let f := string_filter st in
    rlet p := cf_decrypt P f (cf_compute_key P f (es_key st) id) s in Ok (OStr p h)
  | OStream d c =>
    let f := stream_cf st o in
    rlet d' := dec_dict P st id d in
    rlet p := cf_decrypt P f (cf_compute_key P f (es_key st) id) c in Ok (set_content d' p)
  | _ => Ok o
  end.

Lemma decrypt_object_eq P st id o :
  decrypt_object P st id o = if skip_object st o then Ok o else dec_body P st id o.
Proof.
  destruct o as [|b|z|r|n|s h|l|d|d c|i g]; try reflexivity.
  - cbn [decrypt_object dec_body]. destruct (skip_object st (OArr l)); [reflexivity|].
    f_equal. induction l as [|x l IH]; [reflexivity|].
    cbn [dec_list]. destruct (decrypt_object P st id x) as [x'| |]; cbn [rbind]; try reflexivity.
    rewrite IH. reflexivity.
  - cbn [decrypt_object dec_body]. destruct (skip_object st (ODict d)); [reflexivity|].
    f_equal. induction d as [|[k x] d IH]; [reflexivity|].
    cbn [dec_dict]. destruct (decrypt_object P st id x) as [x'| |]; cbn [rbind]; try reflexivity.
    rewrite IH. reflexivity.
  - cbn [decrypt_object dec_body]. destruct (skip_object st (OStream d c)); [reflexivity|].
    f_equal. induction d as [|[k x] d IH]; [reflexivity|].
    cbn [dec_dict]. destruct (decrypt_object P st id x) as [x'| |]; cbn [rbind]; try reflexivity.
    rewrite IH. reflexivity.
Qed.

(* ---------- what a round trip yields: the object with Stream::set_content's Length bookkeeping ---------- *)
Fixpoint norm_len (st : estate) (o : obj) : obj :=
  if skip_object st o then o
  else match o with
       | OArr l => OArr (map (norm_len st) l)
       | ODict d => ODict (map (fun kv => (fst kv, norm_len st (snd kv))) d)
       | OStream d c => set_content (map (fun kv => (fst kv, norm_len st (snd kv))) d) c
       | _ => o
       end.

(* streams whose /Length is the direct integer length of their content (what the reader and Stream::new produce) *)
Fixpoint lengths_ok (st : estate) (o : obj) : Prop :=
  if skip_object st o then True
  else match o with
       | OArr l => (fix go (l : list obj) : Prop := match l with [] => True | x :: r => lengths_ok st x /\ go r end) l
       | ODict d => (fix go (d : dict) : Prop := match d with [] => True | (_, x) :: r => lengths_ok st x /\ go r end) d
       | OStream d c =>
         dict_get d K_Length = Some (OInt (Z.of_nat (length c))) /\
         (fix go (d : dict) : Prop := match d with [] => True | (_, x) :: r => lengths_ok st x /\ go r end) d
       | _ => True
       end.

Lemma norm_len_id st o : lengths_ok st o -> norm_len st o = o.
Proof.
  induction o as [|b|z|r|n|s h|l Hl|d Hd|d c Hd|i g] using obj_ind5; cbn [norm_len lengths_ok]; try reflexivity.
  - destruct (skip_object st (OArr l)); [reflexivity|]. intro H. f_equal.
    induction Hl as [|x l Hx _ IH]; [reflexivity|]. destruct H as [H1 H2]. cbn [map]. rewrite Hx by exact H1.
    rewrite IH by exact H2. reflexivity.
  - destruct (skip_object st (ODict d)); [reflexivity|]. intro H. f_equal.
    induction Hd as [|[k x] d Hx _ IH]; [reflexivity|]. destruct H as [H1 H2]. cbn [map fst snd] in *.
    rewrite Hx by exact H1. rewrite IH by exact H2. reflexivity.
  - destruct (skip_object st (OStream d c)); [reflexivity|]. intros [H H']. unfold set_content.
    assert (G : map (fun kv => (fst kv, norm_len st (snd kv))) d = d).
    { clear H. induction Hd as [|[k x] d Hx _ IH]; [reflexivity|]. destruct H' as [H1 H2]. cbn [map fst snd] in *.
      rewrite Hx by exact H1. rewrite IH by exact H2. reflexivity. }
    rewrite G. rewrite dset_same by exact H. reflexivity.
Qed.

(* ---------- encryption does not change what the exemption and override tests look at ---------- *)
Definition namef (o : obj) : option bytes := match o with OName n => Some n | _ => None end.
(* what Stream::filters reads of a Filter value *)
Definition fview (x : option obj) : option (list bytes) :=
  match x with Some (OName n) => Some [n] | Some (OArr l) => omap namef l | _ => None end.
(* what the override reads of one decode-parameters value *)
Definition dp1 (x : option obj) : option (option bytes) :=
  match x with
  | Some (ODict dp) => Some (match dict_get dp K_Name with Some (OName n) => Some n | _ => None end)
  | _ => None
  end.
(* ... and of a DecodeParms value: the parameters themselves, or one entry per filter *)
Definition dpview (x : option obj) : option (option bytes) + list (option (option bytes)) :=
  match x with
  | Some (OArr ps) => inr (map (fun p => dp1 (Some p)) ps)
  | other => inl (dp1 other)
  end.
Definition dp_at (v : option (option bytes) + list (option (option bytes))) (k : nat) : option (option bytes) :=
  match v with inl a => a | inr l => match nth_error l k with Some a => a | None => None end end.

Definition name_eq (x x' : obj) : Prop := namef x = namef x'.

Lemma rbind_ok {A B} (r : res A) (f : A -> res B) b :
  rbind r f = Ok b -> exists a, r = Ok a /\ f a = Ok b.
Proof. destruct r as [a| |]; cbn [rbind]; intro H; [exists a; auto | discriminate | discriminate]. Qed.

Lemma enc_name_eq P st id x ivs x' ivs' : encrypt_object P st id x ivs = Ok (x', ivs') -> name_eq x x'.
Proof.
  unfold name_eq. rewrite encrypt_object_eq. destruct (skip_object st x).
  - intro H; inversion H; subst. reflexivity.
  - destruct x; cbn [enc_body]; intro H;
      try (inversion H; subst; reflexivity).
    + apply rbind_ok in H; destruct H as [a [_ H]]; inversion H; subst; reflexivity.
    + apply rbind_ok in H; destruct H as [a [_ H]]; inversion H; subst; reflexivity.
    + apply rbind_ok in H; destruct H as [a [_ H]]; inversion H; subst; reflexivity.
    + apply rbind_ok in H; destruct H as [a [_ H]].
      apply rbind_ok in H; destruct H as [b [_ H]]. inversion H; subst; reflexivity.
Qed.

Lemma enc_dict_get P st id d ivs d' ivs' :
  enc_dict P st id d ivs = Ok (d', ivs') ->
  forall k, match dict_get d k, dict_get d' k with
            | None, None => True
            | Some x, Some x' => exists iv iv', encrypt_object P st id x iv = Ok (x', iv')
            | _, _ => False
            end.
Proof.
  revert ivs d' ivs'. induction d as [|[k0 x] d IH]; intros ivs d' ivs' H k.
  - inversion H; subst. exact I.
  - cbn [enc_dict] in H. apply rbind_ok in H. destruct H as [[x' ivs1] [H1 H]].
    apply rbind_ok in H. destruct H as [[d1 ivs2] [H2 H]]. inversion H; subst. cbn [fst snd dict_get].
    destruct (bytes_eqb k0 k).
    + exists ivs, ivs1. exact H1.
    + eapply IH; exact H2.
Qed.

Lemma enc_list_names P st id l ivs l' ivs' :
  enc_list P st id l ivs = Ok (l', ivs') -> omap namef l' = omap namef l.
Proof.
  revert ivs l' ivs'. induction l as [|x l IH]; intros ivs l' ivs' H.
  - inversion H; subst. reflexivity.
  - cbn [enc_list] in H. apply rbind_ok in H. destruct H as [[x' ivs1] [H1 H]].
    apply rbind_ok in H. destruct H as [[l1 ivs2] [H2 H]]. inversion H; subst. cbn [fst snd omap].
    rewrite <- (enc_name_eq _ _ _ _ _ _ _ H1). rewrite (IH _ _ _ H2). reflexivity.
Qed.

Lemma enc_dp1 P st id x ivs x' ivs' :
  encrypt_object P st id x ivs = Ok (x', ivs') -> dp1 (Some x') = dp1 (Some x).
Proof.
  rewrite encrypt_object_eq. destruct (skip_object st x).
  - intro H; inversion H; subst. reflexivity.
  - destruct x; cbn [enc_body]; intro H; try (inversion H; subst; reflexivity).
    + apply rbind_ok in H; destruct H as [a [_ H]]; inversion H; subst; reflexivity.
    + apply rbind_ok in H; destruct H as [[l' iv1] [H1 H]]; inversion H; subst. reflexivity.
    + apply rbind_ok in H; destruct H as [[d' iv1] [H1 H]]; inversion H; subst. cbn [fst dp1]. f_equal.
      pose proof (enc_dict_get _ _ _ _ _ _ _ H1 K_Name) as G.
      destruct (dict_get d K_Name) as [y|], (dict_get d' K_Name) as [y'|]; try contradiction; [|reflexivity].
      destruct G as [iv [iv' G]]. apply enc_name_eq in G. unfold name_eq in G.
      destruct y, y'; cbn [namef] in G; try discriminate; try reflexivity. inversion G; reflexivity.
    + apply rbind_ok in H; destruct H as [a [_ H]].
      apply rbind_ok in H; destruct H as [b [_ H]]. inversion H; subst; reflexivity.
Qed.

Lemma enc_list_dp1 P st id l ivs l' ivs' :
  enc_list P st id l ivs = Ok (l', ivs') -> map (fun p => dp1 (Some p)) l' = map (fun p => dp1 (Some p)) l.
Proof.
  revert ivs l' ivs'. induction l as [|x l IH]; intros ivs l' ivs' H.
  - inversion H; subst. reflexivity.
  - cbn [enc_list] in H. apply rbind_ok in H. destruct H as [[x' ivs1] [H1 H]].
    apply rbind_ok in H. destruct H as [[l1 ivs2] [H2 H]]. inversion H; subst. cbn [fst snd map].
    rewrite (enc_dp1 _ _ _ _ _ _ _ H1). rewrite (IH _ _ _ H2). reflexivity.
Qed.

Lemma enc_views P st id x ivs x' ivs' :
  encrypt_object P st id x ivs = Ok (x', ivs') ->
  fview (Some x') = fview (Some x) /\ dpview (Some x') = dpview (Some x).
Proof.
  intro H0. pose proof (enc_dp1 _ _ _ _ _ _ _ H0) as D1. revert H0.
  rewrite encrypt_object_eq. destruct (skip_object st x).
  - intro H; inversion H; subst. split; reflexivity.
  - destruct x; cbn [enc_body]; intro H; try (inversion H; subst; split; reflexivity).
    + apply rbind_ok in H; destruct H as [a [_ H]]; inversion H; subst; split; reflexivity.
    + apply rbind_ok in H; destruct H as [[l' iv1] [H1 H]]; inversion H; subst. cbn [fst fview dpview].
      split; [apply (enc_list_names _ _ _ _ _ _ _ H1) | f_equal; apply (enc_list_dp1 _ _ _ _ _ _ _ H1)].
    + apply rbind_ok in H; destruct H as [[d' iv1] [H1 H]]; inversion H; subst. cbn [fst fview dpview].
      split; [reflexivity|]. f_equal. exact D1.
    + apply rbind_ok in H; destruct H as [a [_ H]].
      apply rbind_ok in H; destruct H as [b [_ H]]. inversion H; subst; split; reflexivity.
Qed.

Lemma enc_dict_views P st id d ivs d' ivs' :
  enc_dict P st id d ivs = Ok (d', ivs') ->
  forall k, fview (dict_get d' k) = fview (dict_get d k) /\ dpview (dict_get d' k) = dpview (dict_get d k) /\
            option_map namef (dict_get d' k) = option_map namef (dict_get d k).
Proof.
  intros H k. pose proof (enc_dict_get _ _ _ _ _ _ _ H k) as G.
  destruct (dict_get d k) as [y|], (dict_get d' k) as [y'|]; try contradiction; [|repeat split; reflexivity].
  destruct G as [iv [iv' G]]. destruct (enc_views _ _ _ _ _ _ _ G) as [V1 V2].
  apply enc_name_eq in G. unfold name_eq in G. cbn [option_map]. rewrite G. repeat split; assumption.
Qed.

Lemma has_type_view d d' t :
  option_map namef (dict_get d' K_Type) = option_map namef (dict_get d K_Type) -> has_type d' t = has_type d t.
Proof.
  unfold has_type. intro H.
  destruct (dict_get d K_Type) as [y|], (dict_get d' K_Type) as [y'|]; cbn [option_map] in H; try discriminate; [|reflexivity].
  inversion H as [H1]. destruct y, y'; cbn [namef] in H1; try discriminate; try reflexivity. inversion H1; reflexivity.
Qed.

Lemma skip_stream_view st d c d' c' :
  option_map namef (dict_get d' K_Type) = option_map namef (dict_get d K_Type) ->
  skip_object st (OStream d' c') = skip_object st (OStream d c).
Proof.
  intro H. unfold skip_object, is_xref_stream, is_metadata_stream.
  rewrite !(has_type_view d d' _ H). reflexivity.
Qed.

(* the override in terms of the two views *)
Lemma override_filter_view st d c :
  override_filter st (OStream d c) =
  match fview (dict_get d K_Filter) with
  | Some fs =>
    match position N_Crypt fs with
    | Some k => Some (match dp_at (dpview (dict_get d K_DecodeParms)) k with
                      | Some (Some n) => match bt_get (es_crypt_filters st) n with Some f => f | None => CF_Identity end
                      | _ => CF_Identity
                      end)
    | None => None
    end
  | None => None
  end.
Proof.
  unfold override_filter. change (stream_filters d) with (fview (dict_get d K_Filter)).
  destruct (fview (dict_get d K_Filter)) as [fs|]; [|reflexivity].
  destruct (position N_Crypt fs) as [k|]; [|reflexivity]. f_equal.
  assert (E : dp1 (match dict_get d K_DecodeParms with Some (OArr ps) => nth_error ps k | other => other end)
              = dp_at (dpview (dict_get d K_DecodeParms)) k).
  { destruct (dict_get d K_DecodeParms) as [y|]; [|reflexivity].
    destruct y; try reflexivity. cbn [dpview dp_at]. rewrite nth_error_map.
    destruct (nth_error l k); reflexivity. }
  rewrite <- E.
  destruct (match dict_get d K_DecodeParms with Some (OArr ps) => nth_error ps k | other => other end) as [y|]; [|reflexivity].
  destruct y; try reflexivity. cbn [dp1]. destruct (dict_get d0 K_Name) as [z|]; [|reflexivity]. destruct z; reflexivity.
Qed.

Lemma stream_cf_view st d c d' c' :
  option_map namef (dict_get d' K_Type) = option_map namef (dict_get d K_Type) ->
  fview (dict_get d' K_Filter) = fview (dict_get d K_Filter) ->
  dpview (dict_get d' K_DecodeParms) = dpview (dict_get d K_DecodeParms) ->
  stream_cf st (OStream d' c') = stream_cf st (OStream d c).
Proof.
  intros HT HF HD. unfold stream_cf. rewrite !override_filter_view, HF, HD, (has_type_view d d' _ HT). reflexivity.
Qed.

Lemma dec_dict_set_int P st id d k z r :
  dec_dict P st id d = Ok r -> dec_dict P st id (dict_set d k (OInt z)) = Ok (dict_set r k (OInt z)).
Proof.
  revert r. induction d as [|[k0 x] d IH]; intros r H; cbn [dict_set dec_dict] in *.
  - inversion H; subst. rewrite decrypt_object_eq. reflexivity.
  - apply rbind_ok in H. destruct H as [x' [Hx H]]. apply rbind_ok in H. destruct H as [r1 [Hr H]].
    inversion H; subst. destruct (bytes_eqb k0 k) eqn:E; cbn [dec_dict dict_set].
    + rewrite (decrypt_object_eq P st id (OInt z)).
      cbn [skip_object is_xref_stream is_metadata_stream orb andb dec_body rbind].
      rewrite Hr. cbn [rbind]. rewrite E. reflexivity.
    + rewrite Hx. cbn [rbind]. rewrite (IH _ Hr). cbn [rbind]. rewrite E. reflexivity.
Qed.

Definition norm_dict (st : estate) (d : dict) : dict := map (fun kv => (fst kv, norm_len st (snd kv))) d.

(* ---------- object_rt ---------- *)
Theorem object_rt P st id :
  aes_ok P ->
  forall o ivs o' ivs',
    encrypt_object P st id o ivs = Ok (o', ivs') ->
    decrypt_object P st id o' = Ok (norm_len st o).
Proof.
  intro HP.
  assert (DictRT : forall d, Forall (fun kv => forall ivs o' ivs', encrypt_object P st id (snd kv) ivs = Ok (o', ivs') ->
                                                 decrypt_object P st id o' = Ok (norm_len st (snd kv))) d ->
                   forall ivs d' ivs1, enc_dict P st id d ivs = Ok (d', ivs1) -> dec_dict P st id d' = Ok (norm_dict st d)).
  { intros d Hd. induction Hd as [|[k x] d Hx _ IH]; intros ivs d' ivs1 H1.
    - inversion H1; subst. reflexivity.
    - cbn [enc_dict] in H1. apply rbind_ok in H1. destruct H1 as [[x' ivs2] [Hx1 H1]].
      apply rbind_ok in H1. destruct H1 as [[d1 ivs3] [Hd1 H1]]. inversion H1; subst. cbn [fst snd] in *.
      cbn [dec_dict norm_dict map fst snd]. rewrite (Hx _ _ _ Hx1). cbn [rbind].
      fold (norm_dict st d). rewrite (IH _ _ _ Hd1). reflexivity. }
  induction o as [|b|z|r|n|s h|l Hl|d Hd|d c Hd|i g] using obj_ind5; intros ivs o' ivs' H;
    rewrite encrypt_object_eq in H; rewrite decrypt_object_eq; cbn [norm_len].
  all: try (destruct (skip_object st _) eqn:Es in H;
            [ inversion H; subst; rewrite Es; reflexivity | ]).
  all: try (cbn [enc_body] in H; inversion H; subst; rewrite Es; reflexivity).
  - (* string *)
    cbn [enc_body] in H. apply rbind_ok in H. destruct H as [[ct ivs1] [H1 H]]. inversion H; subst.
    cbn [fst snd]. assert (Es' : skip_object st (OStr ct h) = false) by reflexivity.
    rewrite Es'. cbn [dec_body].
    rewrite (filter_rt _ _ _ _ _ _ _ HP H1). cbn [rbind]. rewrite Es. reflexivity.
  - (* array *)
    cbn [enc_body] in H. apply rbind_ok in H. destruct H as [[l' ivs1] [H1 H]].
    assert (G : dec_list P st id l' = Ok (map (norm_len st) l)).
    { clear Es H. revert ivs l' ivs1 H1. induction Hl as [|x l Hx _ IH]; intros ivs l' ivs1 H1.
      - inversion H1; subst. reflexivity.
      - cbn [enc_list] in H1. apply rbind_ok in H1. destruct H1 as [[x' ivs2] [Hx1 H1]].
        apply rbind_ok in H1. destruct H1 as [[l1 ivs3] [Hl1 H1]]. inversion H1; subst. cbn [fst snd] in *.
        cbn [dec_list map]. rewrite (Hx _ _ _ Hx1). cbn [rbind]. rewrite (IH _ _ _ Hl1). reflexivity. }
    inversion H; subst. cbn [fst snd]. assert (Es' : skip_object st (OArr l') = false) by reflexivity.
    rewrite Es'. cbn [dec_body]. rewrite Es. rewrite G. reflexivity.
  - (* dictionary *)
    cbn [enc_body] in H. apply rbind_ok in H. destruct H as [[d' ivs1] [H1 H]].
    pose proof (DictRT d Hd _ _ _ H1) as G.
    inversion H; subst. cbn [fst snd]. assert (Es' : skip_object st (ODict d') = false) by reflexivity.
    rewrite Es'. cbn [dec_body]. rewrite Es. rewrite G. reflexivity.
  - (* stream *)
    cbn [enc_body] in H. apply rbind_ok in H. destruct H as [[d' ivs1] [Hd1 H]].
    apply rbind_ok in H. destruct H as [[ct ivs2] [H1 H]]. cbn [fst snd] in *.
    pose proof (DictRT d Hd _ _ _ Hd1) as G.
    pose proof (enc_dict_views _ _ _ _ _ _ _ Hd1) as V.
    inversion H; subst. clear H. unfold set_content.
    set (d2 := dict_set d' K_Length (OInt (Z.of_nat (length ct)))).
    assert (Vt : option_map namef (dict_get d2 K_Type) = option_map namef (dict_get d K_Type)).
    { subst d2. rewrite dget_set_other by (cbv; discriminate). apply V. }
    assert (Vf : fview (dict_get d2 K_Filter) = fview (dict_get d K_Filter)).
    { subst d2. rewrite dget_set_other by (cbv; discriminate). apply V. }
    assert (Vd : dpview (dict_get d2 K_DecodeParms) = dpview (dict_get d K_DecodeParms)).
    { subst d2. rewrite dget_set_other by (cbv; discriminate). apply V. }
    rewrite (skip_stream_view st d c d2 ct Vt), Es. cbn [dec_body].
    rewrite (stream_cf_view st d c d2 ct Vt Vf Vd).
    subst d2. rewrite (dec_dict_set_int _ _ _ _ _ _ _ G). cbn [rbind].
    rewrite (filter_rt _ _ _ _ _ _ _ HP H1). cbn [rbind].
    unfold set_content. rewrite dset_set. reflexivity.
Qed.

(* on documents whose streams carry their own length, the round trip is the identity *)
Corollary object_rt_exact P st id o ivs o' ivs' :
  aes_ok P -> lengths_ok st o ->
  encrypt_object P st id o ivs = Ok (o', ivs') -> decrypt_object P st id o' = Ok o.
Proof.
  intros HP HL H. rewrite (object_rt P st id HP _ _ _ _ H). rewrite norm_len_id by exact HL. reflexivity.
Qed.

(* decrypt_object reads only these six components of the state; of the crypt filter map it reads the look-ups *)
Definition st_equiv (a b : estate) : Prop :=
  es_key a = es_key b /\ (forall n, bt_get (es_crypt_filters a) n = bt_get (es_crypt_filters b) n) /\
  es_stmf a = es_stmf b /\
  es_strf a = es_strf b /\ es_encrypt_metadata a = es_encrypt_metadata b /\ es_eff a = es_eff b.

Lemma skip_object_equiv a b o : st_equiv a b -> skip_object a o = skip_object b o.
Proof. intros [_ [_ [_ [_ [E _]]]]]. unfold skip_object. rewrite E. reflexivity. Qed.

Lemma get_crypt_filter_equiv a b n : st_equiv a b -> get_crypt_filter a n = get_crypt_filter b n.
Proof. intros [_ [Ec _]]. unfold get_crypt_filter. rewrite Ec. reflexivity. Qed.

Lemma override_filter_equiv a b o : st_equiv a b -> override_filter a o = override_filter b o.
Proof.
  intros [_ [Ec _]]. unfold override_filter. destruct o; try reflexivity.
  destruct (stream_filters _) as [fs|]; [|reflexivity]. destruct (position _ _) as [k|]; [|reflexivity]. f_equal.
  match goal with |- match ?p with _ => _ end = _ => destruct p as [[]|] end; try reflexivity.
  match goal with |- match ?p with _ => _ end = _ => destruct p as [[]|] end; try reflexivity.
  rewrite Ec. reflexivity.
Qed.

Lemma stream_cf_equiv a b o : st_equiv a b -> stream_cf a o = stream_cf b o.
Proof.
  intro HE. pose proof HE as [_ [_ [Em [_ [_ Ef]]]]].
  unfold stream_cf, embedded_file_filter, stream_filter. rewrite (override_filter_equiv a b o HE), Em, Ef.
  destruct (override_filter b o); [reflexivity|].
  destruct o; try apply (get_crypt_filter_equiv a b _ HE).
  destruct (has_type _ _); [|apply (get_crypt_filter_equiv a b _ HE)].
  destruct (es_eff b); apply (get_crypt_filter_equiv a b _ HE).
Qed.

Lemma decrypt_object_equiv P a b id : st_equiv a b -> forall o, decrypt_object P a id o = decrypt_object P b id o.
Proof.
  intros HE.
  pose proof HE as [Ek [Ec [Em [Er [Ed Ef]]]]].
  induction o as [|bb|z|r|n|s h|l Hl|d Hd|d c Hd|i g] using obj_ind5;
    rewrite !decrypt_object_eq, (skip_object_equiv a b _ HE); destruct (skip_object b _); try reflexivity; cbn [dec_body].
  - unfold string_filter. rewrite Ek, Er, (get_crypt_filter_equiv a b _ HE). reflexivity.
  - assert (G : dec_list P a id l = dec_list P b id l).
    { induction Hl as [|x l Hx _ IH]; [reflexivity|]. cbn [dec_list]. rewrite Hx, IH. reflexivity. }
    rewrite G. reflexivity.
  - assert (G : dec_dict P a id d = dec_dict P b id d).
    { induction Hd as [|[k x] d Hx _ IH]; [reflexivity|]. cbn [dec_dict]. cbn [snd] in Hx. rewrite Hx, IH. reflexivity. }
    rewrite G. reflexivity.
  - assert (G : dec_dict P a id d = dec_dict P b id d).
    { induction Hd as [|[k x] d Hx _ IH]; [reflexivity|]. cbn [dec_dict]. cbn [snd] in Hx. rewrite Hx, IH. reflexivity. }
    rewrite G, Ek, (stream_cf_equiv a b _ HE). reflexivity.
Qed.
