(* SpellingObjProofs.v -- rung 2 of C02, composite level: for EVERY style tree the reference writer accepts
   (Spec/RefWriter.v ostyle: spellings of the scalars, any filler between the tokens of references, arrays and
   dictionaries) the parser's ordered choice reads the spelled object back.  This generalises c14's object_rt
   (Proofs/ObjectRtProofs.v: "the spelling lopdf's writer produces") to "any spelling the style denotes", by the
   same induction over the object with the style quantified inside.
     denote o y        what is read back: the object itself, except that a real carries the text that was matched
                       (same decimal value, SpellingNumProofs.same_dec) and a string the format it was written in
     spell_wf o y      the objects / styles covered (domain of the data model + the two open findings)
     spell_rt          the theorem, at the level of [object_alts_c]; corollaries for the entry points below *)
From LV Require Import Base.Bytes Base.Sx Model.Obj Model.Writer Model.Parser Gen.Lex
  Spec.XrefSpec Spec.RefWriter Proofs.LexProofs Proofs.LitStringProofs Proofs.RealProofs Proofs.ObjectRtProofs
  Proofs.SpellingProofs Proofs.SpellingProofsLit Proofs.SpellingProofsLitRaw Proofs.SpellingNumProofs.
From Coq Require Import Lia.
Local Open Scope N_scope.

(* ---------- separators ---------- *)
(* sep_bytes looks only at the first byte of the token to the right *)
Definition sepT (left : bytes) (f : filler) (T : bytes) : bytes :=
  match fill_bytes f with
  | [] => if (is_reg (last left x20) || byte_eqb (last left x20) x2f) && is_reg (hd x20 T) then [x20] else []
  | fb => fb
  end.

Lemma sep_bytes_T left f right more : right <> [] -> sep_bytes left f right = sepT left f (right ++ more).
Proof. intro H. unfold sep_bytes, sepT. destruct right; [contradiction|reflexivity]. Qed.

Lemma fill1_head x : exists c t, fill1_bytes x = c :: t /\ (is_whitespace c = true \/ c = x25).
Proof.
  destruct x as [k|txt e]; cbn [fill1_bytes].
  - eexists _, _. split; [reflexivity|]. left. apply ws_byte_ws.
  - eexists _, _. split; [reflexivity|]. right. reflexivity.
Qed.

Lemma fill_head f c t : fill_bytes f = c :: t -> is_whitespace c = true \/ c = x25.
Proof.
  destruct f as [|x f]; [discriminate|]. unfold fill_bytes. cbn [flat_map].
  destruct (fill1_head x) as [c0 [t0 [E H]]]. rewrite E. cbn [app]. intro K. inversion K; subst. exact H.
Qed.

Lemma space_sepT left f T : space (sepT left f T ++ T) = space T.
Proof.
  unfold sepT. destruct (fill_bytes f) as [|c t] eqn:E.
  - destruct (_ && _); reflexivity.
  - rewrite <- E. apply filler_skipped.
Qed.

Definition last_reg (t : bytes) : Prop := is_reg (last t x20) || byte_eqb (last t x20) x2f = true.

Lemma sepT_nonreg left f T : last_reg left -> starts_with is_regular (sepT left f T ++ T) = false.
Proof.
  unfold last_reg, sepT. intro H. destruct (fill_bytes f) as [|c t] eqn:E.
  - rewrite H. cbn [andb]. destruct T as [|c0 T']; [reflexivity|]. cbn [hd].
    destruct (is_reg c0) eqn:Er; [reflexivity|]. cbn [app starts_with].
    destruct (class_agree_spec c0) as [_ [_ K]]. rewrite <- K. exact Er.
  - cbn [app starts_with]. destruct (fill_head f c t E) as [K|K].
    + unfold is_regular. rewrite K. reflexivity.
    + subst c. reflexivity.
Qed.

Lemma nonreg_nondigit rest : starts_with is_regular rest = false -> starts_with is_dec_digit rest = false.
Proof. intro H. apply digit_or_point_digit, not_regular_follow. exact H. Qed.

(* ---------- last bytes of tokens ---------- *)
Lemma last_app_ne (a b : bytes) d : b <> [] -> last (a ++ b) d = last b d.
Proof.
  intro H. induction a as [|x a IH]; [reflexivity|]. cbn [app]. 
  destruct (a ++ b) eqn:E; [apply app_eq_nil in E as [_ E]; contradiction|]. rewrite <- IH. reflexivity.
Qed.

Lemma last_forallb (p : byte -> bool) l d : l <> [] -> forallb p l = true -> p (last l d) = true.
Proof.
  intros Hne H. induction l as [|x l IH]; [contradiction|]. cbn [forallb] in H. apply andb_true_iff in H as [Hx Hl].
  destruct l as [|y l']; [exact Hx|]. apply IH; [discriminate|exact Hl].
Qed.

Definition digit_reg_facts (c : byte) : bool := negb (digit_or_point c) || is_reg c.
Lemma digit_reg_sweep : byte_forallb digit_reg_facts = true. Proof. vm_compute. reflexivity. Qed.
Lemma digit_is_reg c : digit_or_point c = true -> is_reg c = true.
Proof.
  intro H. pose proof (byte_forallb_spec _ digit_reg_sweep c) as K. unfold digit_reg_facts in K.
  rewrite H in K. exact K.
Qed.

Lemma last_reg_digits t : t <> [] -> forallb digit_or_point t = true -> last_reg t.
Proof.
  intros Hne H. unfold last_reg. rewrite (digit_is_reg _ (last_forallb digit_or_point t x20 Hne H)). reflexivity.
Qed.

Lemma digits_dop l : forallb is_dec_digit l = true -> forallb digit_or_point l = true.
Proof.
  induction l as [|c l IH]; [reflexivity|]. cbn [forallb]. intro H. apply andb_true_iff in H as [Hc Hl].
  unfold digit_or_point at 1. rewrite Hc, (IH Hl). reflexivity.
Qed.

(* ---------- tails that start at a token ---------- *)
Definition tailok (T : bytes) : Prop := tok_start T = true /\ ref_tail T = false /\ noR T = true.

Lemma tailok_close c s : c = x5d \/ c = x3e -> tailok (c :: s).
Proof. intros [->| ->]; repeat split; reflexivity. Qed.

Lemma ref_tail_sepT left f T : ref_tail (sepT left f T ++ T) = ref_tail T.
Proof. unfold ref_tail. rewrite space_sepT. reflexivity. Qed.
Lemma noR_sepT left f T : noR (sepT left f T ++ T) = noR T.
Proof. unfold noR. rewrite space_sepT. reflexivity. Qed.

(* what follows a token that ends in a regular byte (or is the empty name) satisfies every follow condition *)
Lemma follow_sep ar o t f T : tailok T -> last_reg t -> follow_ok ar o (sepT t f T ++ T).
Proof.
  intros [_ [H2 _]] Hl. pose proof (sepT_nonreg t f T Hl) as Hn.
  destruct o; cbn [follow_ok]; try exact I; try exact Hn.
  - split; [apply not_regular_follow; exact Hn | intros _; rewrite ref_tail_sepT; exact H2].
  - split; [apply not_regular_follow; exact Hn | intros _; rewrite ref_tail_sepT; exact H2].
  - unfold name_follow. rewrite Hn. reflexivity.
Qed.

Lemma space_sep_tok t f T : tailok T -> space (sepT t f T ++ T) = T.
Proof. intros [H _]. rewrite space_sepT. apply space_tok. exact H. Qed.

(* first bytes *)
Definition lead2 (c : byte) : bool := obj_lead c || byte_eqb c x2b || byte_eqb c x2e.
Definition lead2_facts (c : byte) : bool :=
  negb (lead2 c) || (negb (is_whitespace c) && negb (byte_eqb c x25) && negb (byte_eqb x52 c)).
Lemma lead2_sweep : byte_forallb lead2_facts = true. Proof. vm_compute. reflexivity. Qed.
Lemma lead2_spec c : lead2 c = true -> is_whitespace c = false /\ byte_eqb c x25 = false /\ byte_eqb x52 c = false.
Proof.
  intro H. pose proof (byte_forallb_spec _ lead2_sweep c) as K. unfold lead2_facts in K. rewrite H in K. cbn [negb orb] in K.
  apply andb_true_iff in K as [K K3]. apply andb_true_iff in K as [K1 K2]. apply negb_true_iff in K1, K2, K3. auto.
Qed.
Lemma lead2_tok c s : lead2 c = true -> tok_start (c :: s) = true.
Proof. intro H. destruct (lead2_spec c H) as [H1 [H2 _]]. cbn [tok_start]. rewrite H1, H2. reflexivity. Qed.

(* a token whose first byte is not a digit *)
Lemma tailok_nondigit c t X : lead2 c = true -> is_dec_digit c = false -> tailok ((c :: t) ++ X).
Proof.
  intros Hl Hd. destruct (lead2_spec c Hl) as [H1 [H2 H3]]. cbn [app].
  assert (Hs : space (c :: t ++ X) = c :: t ++ X) by (apply space_tok, lead2_tok; exact Hl).
  split; [apply lead2_tok; exact Hl|]. split.
  - unfold ref_tail. rewrite Hs. unfold unsigned_int. cbn [take_while]. rewrite Hd. reflexivity.
  - unfold noR. rewrite Hs. cbn [prefixb]. rewrite H3. reflexivity.
Qed.

(* a token that begins with digits [ds]; [X] is everything after them *)
Lemma tailok_digits ds X :
  ds <> [] -> forallb is_dec_digit ds = true -> starts_with is_dec_digit X = false -> prefixb [x52] (space X) = false ->
  tailok (ds ++ X).
Proof.
  intros Hne Hd HX HR. destruct (digits_cons ds Hne Hd) as [c [t [E Hc]]].
  assert (Ht : tok_start (ds ++ X) = true) by (apply digits_tok; assumption).
  split; [exact Ht|]. split.
  - unfold ref_tail. rewrite (space_tok _ Ht). unfold unsigned_int.
    rewrite (take_while_app _ _ _ Hd HX), (match_nonempty _ _ _ Hne).
    destruct (_ <=? u16_max); [exact HR | reflexivity].
  - unfold noR. rewrite (space_tok _ Ht), E. cbn [app prefixb].
    destruct (digit_or_minus_facts c (or_intror Hc)) as [_ [_ G]]. rewrite G. reflexivity.
Qed.

Lemma noR_prefix T : noR T = true -> prefixb [x52] (space T) = false.
Proof. unfold noR. intro H. apply negb_true_iff in H. exact H. Qed.

(* ---------- indirect references: leading zeros, any filler between the three parts ---------- *)
Definition ref_parts (y : ostyle) : nat * nat * filler * filler :=
  match y with YRef z1 z2 f1 f2 => (z1, z2, f1, f2) | _ => (0%nat, 0%nat, [], []) end.

Definition ref_text (i g : N) (y : ostyle) (rest : bytes) : bytes :=
  let '(z1, z2, f1, f2) := ref_parts y in
  let I := zeros z1 ++ N_dec i in
  let G := zeros z2 ++ N_dec g in
  let X2 := sepT G f2 (x52 :: rest) ++ x52 :: rest in
  I ++ sepT I f1 (G ++ X2) ++ G ++ X2.

Lemma padded_ne k n : zeros k ++ N_dec n <> [].
Proof. intro E. apply app_eq_nil in E as [_ E]. exact (N_dec_nonempty n E). Qed.
Lemma padded_digits_all k n : forallb is_dec_digit (zeros k ++ N_dec n) = true.
Proof. rewrite forallb_app, zeros_digits, N_dec_digits. reflexivity. Qed.

Lemma w_ref_text i g y rest : w_ref i g y ++ rest = ref_text i g y rest.
Proof.
  unfold ref_text, w_ref.
  assert (G : forall z1 z2 f1 f2,
    join [(zeros z1 ++ N_dec i, f1); (zeros z2 ++ N_dec g, f2); ([x52], [])] ++ rest =
    (zeros z1 ++ N_dec i) ++ sepT (zeros z1 ++ N_dec i) f1 ((zeros z2 ++ N_dec g) ++ sepT (zeros z2 ++ N_dec g) f2 (x52 :: rest) ++ x52 :: rest) ++
    (zeros z2 ++ N_dec g) ++ sepT (zeros z2 ++ N_dec g) f2 (x52 :: rest) ++ x52 :: rest).
  { intros. cbn [join]. change (fill_bytes []) with (@nil byte). rewrite app_nil_r.
    rewrite (sep_bytes_T _ f1 _ (sepT (zeros z2 ++ N_dec g) f2 (x52 :: rest) ++ x52 :: rest) (padded_ne z2 g)).
    rewrite (sep_bytes_T _ f2 [x52] rest) by discriminate.
    rewrite <- !app_assoc. reflexivity. }
  destruct y; try (exact (G 0%nat 0%nat [] [])). cbn [ref_parts]. apply G.
Qed.

Lemma unsigned_padded maxv k n X :
  n <= maxv -> starts_with is_dec_digit X = false ->
  unsigned_int maxv ((zeros k ++ N_dec n) ++ X) = POk n X.
Proof.
  intros Hn HX. destruct (padded_digits k n X HX) as [Ht [Hne [Hv _]]].
  unfold unsigned_int. rewrite <- app_assoc, Ht, (match_nonempty _ _ _ Hne), Hv.
  assert (n <=? maxv = true) as -> by lia. reflexivity.
Qed.

Lemma reference_any_spelling i g y rest :
  i <= u32_max -> g <= u16_max -> reference (w_ref i g y ++ rest) = POk (ORef i g) rest.
Proof.
  intros Hi Hg. rewrite w_ref_text. unfold ref_text. destruct (ref_parts y) as [[[z1 z2] f1] f2].
  set (I := zeros z1 ++ N_dec i). set (G := zeros z2 ++ N_dec g).
  set (X2 := sepT G f2 (x52 :: rest) ++ x52 :: rest).
  assert (LI : last_reg I) by (apply last_reg_digits; [apply padded_ne | apply digits_dop, padded_digits_all]).
  assert (LG : last_reg G) by (apply last_reg_digits; [apply padded_ne | apply digits_dop, padded_digits_all]).
  unfold reference, object_id.
  rewrite (unsigned_padded u32_max z1 i _ Hi) by (apply nonreg_nondigit, sepT_nonreg; exact LI).
  cbn [pbind]. rewrite space_sepT.
  rewrite (space_tok (G ++ X2)) by (apply digits_tok; [apply padded_ne | apply padded_digits_all]).
  unfold X2 at 1. 
  rewrite (unsigned_padded u16_max z2 g _ Hg) by (apply nonreg_nondigit, sepT_nonreg; exact LG).
  cbn [pbind]. rewrite space_sepT. rewrite (space_tok (x52 :: rest)) by reflexivity.
  reflexivity.
Qed.

(* the token of a reference in a sequence *)
Lemma tailok_ref i g y T : tailok (ref_text i g y T).
Proof.
  unfold ref_text. destruct (ref_parts y) as [[[z1 z2] f1] f2].
  set (I := zeros z1 ++ N_dec i). set (G := zeros z2 ++ N_dec g).
  set (X2 := sepT G f2 (x52 :: T) ++ x52 :: T).
  assert (LI : last_reg I) by (apply last_reg_digits; [apply padded_ne | apply digits_dop, padded_digits_all]).
  apply tailok_digits; [apply padded_ne | apply padded_digits_all | apply nonreg_nondigit, sepT_nonreg; exact LI |].
  rewrite space_sepT. rewrite (space_tok (G ++ X2)) by (apply digits_tok; [apply padded_ne | apply padded_digits_all]).
  destruct (digits_cons G (padded_ne z2 g) (padded_digits_all z2 g)) as [c [t [E Hc]]]. rewrite E. cbn [app prefixb].
  destruct (digit_or_minus_facts c (or_intror Hc)) as [_ [_ K]]. rewrite K. reflexivity.
Qed.

(* ---------- numbers through the ordered choice ---------- *)
Lemma numlead_fail c s : (is_dec_digit c = true \/ c = x2d \/ c = x2b \/ c = x2e) ->
  null (c :: s) = PErr /\ boolean (c :: s) = PErr.
Proof.
  intros [H|[->|[->| ->]]]; try (split; reflexivity).
  destruct (digit_facts c H) as [H1 [H2 [H3 _]]]. split; [apply null_err; exact H1 | apply boolean_err; assumption].
Qed.

Lemma reference_nondigit c s : is_dec_digit c = false -> reference (c :: s) = PErr.
Proof. intro H. unfold reference, object_id, unsigned_int. cbn [take_while]. rewrite H. reflexivity. Qed.

(* an unsigned digit string followed by something that is not the rest of a reference *)
Lemma reference_digits_err ds X :
  ds <> [] -> forallb is_dec_digit ds = true -> starts_with is_dec_digit X = false ->
  (ref_tail X = false \/ starts_with (fun c => byte_eqb c x2e) X = true) ->
  reference (ds ++ X) = PErr.
Proof.
  intros Hne Hd HX Ht. unfold reference, object_id. unfold unsigned_int at 1.
  rewrite (take_while_app _ _ _ Hd HX), (match_nonempty _ _ _ Hne).
  destruct (digits_val ds <=? u32_max); [|reflexivity]. cbn [pbind].
  destruct Ht as [Ht|Ht].
  - unfold ref_tail in Ht. destruct (unsigned_int_cases u16_max (space X)) as [[v [r E]]|E]; rewrite E in *; cbn [pbind].
    + unfold ptag. rewrite Ht. reflexivity.
    + reflexivity.
  - destruct X as [|c X']; [discriminate|]. cbn [starts_with] in Ht. apply byte_eqb_eq in Ht. subst c.
    reflexivity.
Qed.

Lemma w_int_shape z plus lz :
  exists sg ds, w_int z plus lz = sg ++ ds /\ ds <> [] /\ forallb is_dec_digit ds = true /\
                (sg = [] \/ sg = [x2d] \/ sg = [x2b]).
Proof.
  unfold w_int. destruct z as [|p|p].
  - exists (if plus then [x2b] else []), (zeros lz ++ N_dec (Z.to_N 0)).
    split; [reflexivity|]. split; [apply padded_ne|]. split; [apply padded_digits_all|]. destruct plus; auto.
  - exists (if plus then [x2b] else []), (zeros lz ++ N_dec (Z.to_N (Zpos p))).
    split; [reflexivity|]. split; [apply padded_ne|]. split; [apply padded_digits_all|]. destruct plus; auto.
  - exists [x2d], (zeros lz ++ N_dec (Npos p)). split; [reflexivity|]. split; [apply padded_ne|]. split; [apply padded_digits_all|]. auto.
Qed.

Lemma alts_int_any elem cont ar n z plus lz rest :
  in_i64 z = true -> num_follow ar rest ->
  object_alts_c elem cont ar n (w_int z plus lz ++ rest) = POk (OInt z) rest.
Proof.
  intros Hz [Hf Hrt]. pose proof (digit_or_point_digit _ Hf) as Hd.
  pose proof (integer_any_spelling z plus lz rest Hz Hd) as Ei.
  destruct (w_int_shape z plus lz) as [sg [ds [E [Hne [Hds Hsg]]]]]. rewrite E in *.
  destruct (digits_cons ds Hne Hds) as [c [t [Ec Hc]]].
  assert (Hlead : exists c0 t0, (sg ++ ds) ++ rest = c0 :: t0 /\
                   (is_dec_digit c0 = true \/ c0 = x2d \/ c0 = x2b \/ c0 = x2e)).
  { destruct Hsg as [->|[->| ->]]; cbn [app]; [rewrite Ec; cbn [app]|..]; eexists _, _; (split; [reflexivity|]); auto. }
  destruct Hlead as [c0 [t0 [E0 H0]]]. destruct (numlead_fail c0 t0 H0) as [N1 N2].
  unfold object_alts_c. rewrite E0, N1, N2. cbn [palt]. rewrite <- E0.
  assert (Href : (if ar then reference ((sg ++ ds) ++ rest) else PErr) = PErr).
  { destruct ar; [|reflexivity]. destruct Hsg as [->|[->| ->]]; cbn [app].
    - apply reference_digits_err; auto.
    - apply reference_nondigit. reflexivity.
    - apply reference_nondigit. reflexivity. }
  rewrite Href. cbn [palt].
  assert (Hreal : real ((sg ++ ds) ++ rest) = PErr).
  { unfold real. rewrite <- app_assoc.
    assert (Hos : exists o, opt_sign (sg ++ ds ++ rest) = (o, ds ++ rest)).
    { destruct Hsg as [->|[->| ->]]; cbn [app]; [|eexists; reflexivity|eexists; reflexivity].
      exists None. apply opt_sign_digits; assumption. }
    destruct Hos as [o Eo]. rewrite Eo. rewrite (take_while_app _ _ _ Hds Hd). rewrite Ec.
    destruct rest as [|r0 rest']; [reflexivity|]. cbn [starts_with] in Hf. unfold digit_or_point in Hf.
    apply orb_false_iff in Hf as [_ Hf]. rewrite Hf. reflexivity. }
  rewrite Hreal. cbn [pmap palt]. rewrite Ei. reflexivity.
Qed.

Lemma alts_real_any elem cont ar n r (y : rstyle) rest :
  real_wf r -> num_follow ar rest ->
  object_alts_c elem cont ar n (w_real r y ++ rest) = POk (OReal (w_real r y)) rest.
Proof.
  intros Hw [Hf Hrt]. pose proof (digit_or_point_digit _ Hf) as Hd.
  destruct (real_any_spelling r y rest Hw Hd) as [Er _].
  destruct Hw as [neg [ip [fd [-> [Hne [Hdi Hfd]]]]]].
  rewrite (w_real_text neg ip fd y Hne Hdi Hfd) in *.
  set (fr := fd ++ zeros (r_tz y)) in *. set (ipt := int_part y ip fr) in *.
  assert (Hipt : forallb is_dec_digit ipt = true).
  { unfold ipt, int_part. assert (G : forallb is_dec_digit (zeros (r_lz y) ++ ip) = true)
      by (rewrite forallb_app, zeros_digits, Hdi; reflexivity).
    destruct fr; [exact G|]. destruct (_ && _); [reflexivity | exact G]. }
  set (txt := (sign_bytes neg (r_plus y) ++ ipt ++ x2e :: fr) ++ rest) in *.
  assert (Hlead : exists c0 t0, txt = c0 :: t0 /\ (is_dec_digit c0 = true \/ c0 = x2d \/ c0 = x2b \/ c0 = x2e)).
  { unfold txt, sign_bytes. destruct neg; [eexists _, _; split; [reflexivity|auto]|].
    destruct (r_plus y); [eexists _, _; split; [reflexivity|auto]|]. cbn [app].
    destruct ipt as [|c t]; [eexists _, _; split; [reflexivity|auto]|].
    cbn [forallb] in Hipt. apply andb_true_iff in Hipt as [Hc _]. eexists _, _; split; [reflexivity|auto]. }
  destruct Hlead as [c0 [t0 [E0 H0]]]. destruct (numlead_fail c0 t0 H0) as [N1 N2].
  unfold object_alts_c. rewrite E0, N1, N2. cbn [palt]. rewrite <- E0.
  assert (Href : (if ar then reference txt else PErr) = PErr).
  { destruct ar; [|reflexivity]. unfold txt, sign_bytes. destruct neg; [apply reference_nondigit; reflexivity|].
    destruct (r_plus y); [apply reference_nondigit; reflexivity|]. cbn [app].
    destruct ipt as [|c t] eqn:Ei; [apply reference_nondigit; reflexivity|].
    rewrite <- Ei in *. rewrite <- app_assoc. apply reference_digits_err; [rewrite Ei; discriminate|exact Hipt|reflexivity|right; reflexivity]. }
  rewrite Href. cbn [palt]. rewrite Er. reflexivity.
Qed.

(* ---------- what is read back, and the domain ---------- *)
Definition rstyle_of (y : ostyle) : rstyle := match y with YReal ry => ry | _ => default_rstyle end.
Definition str_format (h : bool) (y : ostyle) : bool :=
  match y with YStr (SLit _ _) => false | YStr (SHex _ _ _) => true | _ => h end.

Definition a_hd (sts : list (ostyle * filler)) : ostyle * filler :=
  match sts with [] => (YDefault, []) | p :: _ => p end.
Definition d_hd (sts : list (nstyle * filler * ostyle * filler)) : nstyle * filler * ostyle * filler :=
  match sts with [] => ([], [], YDefault, []) | p :: _ => p end.
Definition arr_sts (y : ostyle) : list (ostyle * filler) := match y with YArr _ sts => sts | _ => [] end.
Definition arr_f0 (y : ostyle) : filler := match y with YArr f0 _ => f0 | _ => [] end.
Definition dict_sts (y : ostyle) := match y with YDict _ sts => sts | _ => [] end.
Definition dict_f0 (y : ostyle) : filler := match y with YDict f0 _ => f0 | _ => [] end.
Definition d_ks (p : nstyle * filler * ostyle * filler) : nstyle := fst (fst (fst p)).
Definition d_fk (p : nstyle * filler * ostyle * filler) : filler := snd (fst (fst p)).
Definition d_vs (p : nstyle * filler * ostyle * filler) : ostyle := snd (fst p).
Definition d_fv (p : nstyle * filler * ostyle * filler) : filler := snd p.

Fixpoint denote (o : obj) (y : ostyle) {struct o} : obj :=
  match o with
  | OReal r => OReal (w_real r (rstyle_of y))
  | OStr s h => OStr s (str_format h y)
  | OArr l =>
    OArr ((fix go (l : list obj) (sts : list (ostyle * filler)) : list obj :=
             match l with [] => [] | x :: l' => denote x (fst (a_hd sts)) :: go l' (tl sts) end) l (arr_sts y))
  | ODict d | OStream d _ =>
    ODict ((fix go (d : list (bytes * obj)) (sts : list (nstyle * filler * ostyle * filler)) : dict :=
              match d with [] => [] | (k, v) :: d' => (k, denote v (d_vs (d_hd sts))) :: go d' (tl sts) end) d (dict_sts y))
  | _ => o
  end.
Fixpoint denote_list (l : list obj) (sts : list (ostyle * filler)) : list obj :=
  match l with [] => [] | x :: l' => denote x (fst (a_hd sts)) :: denote_list l' (tl sts) end.
Fixpoint denote_dict (d : dict) (sts : list (nstyle * filler * ostyle * filler)) : dict :=
  match d with [] => [] | (k, v) :: d' => (k, denote v (d_vs (d_hd sts))) :: denote_dict d' (tl sts) end.
Lemma denote_arr l y : denote (OArr l) y = OArr (denote_list l (arr_sts y)).
Proof. reflexivity. Qed.
Lemma denote_dict_eq d y : denote (ODict d) y = ODict (denote_dict d (dict_sts y)).
Proof. reflexivity. Qed.

(* literal strings: every spelling except the two open findings -- an LF spelled as a raw CR / CR LF (C02-raw-eol)
   and raw parentheses nested deeper than MAX_BRACKET (C02-deep-parens) *)
Definition lit_ok (s : bytes) (l : list lpos) : Prop :=
  no_raw_cr s l = true /\ raw_depth_ok s l = true.

Fixpoint spell_wf (o : obj) (y : ostyle) {struct o} : Prop :=
  match o with
  | ONull | OBool _ | OName _ => True
  | OInt z => in_i64 z = true
  | OReal r => real_wf r
  | OStr s h =>
    match y with
    | YStr (SLit l _) => lit_ok s l
    | YStr (SHex _ _ _) => True
    | _ => if h then True else lit_ok s (default_lit s)
    end
  | ORef i g => i <= u32_max /\ g <= u16_max
  | OArr l =>
    (fix go (l : list obj) (sts : list (ostyle * filler)) : Prop :=
       match l with [] => True | x :: l' => spell_wf x (fst (a_hd sts)) /\ go l' (tl sts) end) l (arr_sts y)
  | ODict d =>
    NoDup (map fst d) /\
    (fix go (d : list (bytes * obj)) (sts : list (nstyle * filler * ostyle * filler)) : Prop :=
       match d with [] => True | (k, v) :: d' => spell_wf v (d_vs (d_hd sts)) /\ go d' (tl sts) end) d (dict_sts y)
  | OStream _ _ => False
  end.
Fixpoint wf_list (l : list obj) (sts : list (ostyle * filler)) : Prop :=
  match l with [] => True | x :: l' => spell_wf x (fst (a_hd sts)) /\ wf_list l' (tl sts) end.
Fixpoint wf_dict (d : dict) (sts : list (nstyle * filler * ostyle * filler)) : Prop :=
  match d with [] => True | (k, v) :: d' => spell_wf v (d_vs (d_hd sts)) /\ wf_dict d' (tl sts) end.
Lemma spell_wf_arr l y : spell_wf (OArr l) y <-> wf_list l (arr_sts y).
Proof. reflexivity. Qed.
Lemma spell_wf_dict d y : spell_wf (ODict d) y <-> NoDup (map fst d) /\ wf_dict d (dict_sts y).
Proof. reflexivity. Qed.

(* ---------- the text of arrays and dictionaries, laid out as the parser walks it ---------- *)
Fixpoint arr_toks (l : list obj) (sts : list (ostyle * filler)) : list (bytes * filler) :=
  match l with
  | [] => [(bs "]", [])]
  | x :: l' => (w_obj x (fst (a_hd sts)), snd (a_hd sts)) :: arr_toks l' (tl sts)
  end.
Fixpoint dict_toks (d : dict) (sts : list (nstyle * filler * ostyle * filler)) : list (bytes * filler) :=
  match d with
  | [] => [(bs ">>", [])]
  | (k, v) :: d' => (w_name k (d_ks (d_hd sts)), d_fk (d_hd sts)) :: (w_obj v (d_vs (d_hd sts)), d_fv (d_hd sts)) ::
                    dict_toks d' (tl sts)
  end.

Lemma w_obj_arr l y : w_obj (OArr l) y = join ((bs "[", arr_f0 y) :: arr_toks l (arr_sts y)).
Proof.
  cbn [w_obj]. assert (E : (match y with YArr f0 sts => (f0, sts) | _ => ([], []) end) = (arr_f0 y, arr_sts y))
    by (destruct y; reflexivity).
  rewrite E. f_equal. f_equal. generalize (arr_sts y). induction l as [|x l IH]; intro sts; [reflexivity|].
  cbn [arr_toks]. destruct sts as [|[sy f] t]; cbn [a_hd fst snd tl]; f_equal; apply IH.
Qed.
Lemma w_obj_dict d y : w_obj (ODict d) y = join ((bs "<<", dict_f0 y) :: dict_toks d (dict_sts y)).
Proof.
  cbn [w_obj]. assert (E : (match y with YDict f0 sts => (f0, sts) | _ => ([], []) end) = (dict_f0 y, dict_sts y))
    by (destruct y; reflexivity).
  rewrite E. f_equal. f_equal. generalize (dict_sts y). induction d as [|[k v] d IH]; intro sts; [reflexivity|].
  cbn [dict_toks]. destruct sts as [|[[[ks fk] vs] fv] t]; cbn [d_hd d_ks d_fk d_vs d_fv fst snd tl]; do 2 f_equal; apply IH.
Qed.

Fixpoint arr_text (l : list obj) (sts : list (ostyle * filler)) (rest : bytes) : bytes :=
  match l with
  | [] => x5d :: rest
  | x :: l' =>
    let T := arr_text l' (tl sts) rest in
    let t := w_obj x (fst (a_hd sts)) in
    t ++ sepT t (snd (a_hd sts)) T ++ T
  end.
Fixpoint dict_text (d : dict) (sts : list (nstyle * filler * ostyle * filler)) (rest : bytes) : bytes :=
  match d with
  | [] => x3e :: x3e :: rest
  | (k, v) :: d' =>
    let T := dict_text d' (tl sts) rest in
    let tv := w_obj v (d_vs (d_hd sts)) in
    let Tv := tv ++ sepT tv (d_fv (d_hd sts)) T ++ T in
    let tk := w_name k (d_ks (d_hd sts)) in
    tk ++ sepT tk (d_fk (d_hd sts)) Tv ++ Tv
  end.

(* join, one token at a time *)
Lemma join_cons t f t2 f2 toks more :
  t2 <> [] ->
  join ((t, f) :: (t2, f2) :: toks) ++ more = t ++ sepT t f (join ((t2, f2) :: toks) ++ more) ++ join ((t2, f2) :: toks) ++ more.
Proof.
  intro H. cbn [join]. destruct toks as [|[t3 f3] toks'].
  - rewrite (sep_bytes_T t f t2 (fill_bytes f2 ++ more) H). rewrite <- ?app_assoc. reflexivity.
  - rewrite (sep_bytes_T t f t2 (sep_bytes t2 f2 t3 ++ join ((t3, f3) :: toks') ++ more) H).
    rewrite <- ?app_assoc. reflexivity.
Qed.

(* ---------- facts about single tokens ---------- *)
Definition hexd_reg_ok (d : N) : bool := is_reg (hexd true d) && is_reg (hexd false d).
Lemma hexd_reg_sweep : below_nat 16 hexd_reg_ok = true. Proof. vm_compute. reflexivity. Qed.
Lemma hexd_reg u d : d < 16 -> is_reg (hexd u d) = true.
Proof.
  intro H. pose proof (below_nat_spec 16 _ hexd_reg_sweep d H) as K. unfold hexd_reg_ok in K.
  apply andb_true_iff in K as [K1 K2]. destruct u; assumption.
Qed.

Lemma w_name_byte_last b c : exists pre z, w_name_byte b c = pre ++ [z] /\ is_reg z = true.
Proof.
  assert (E : exists pre z, [x23; hexd true (N_of_byte b / 16); hexd true (N_of_byte b mod 16)] = pre ++ [z] /\ is_reg z = true).
  { exists [x23; hexd true (N_of_byte b / 16)], (hexd true (N_of_byte b mod 16)). split; [reflexivity|apply hexd_reg, lo_lt]. }
  unfold w_name_byte. destruct c as [|u1 u2].
  - destruct (name_must_escape b) eqn:Em; [exact E|]. exists [], b. split; [reflexivity|].
    unfold name_must_escape in Em. apply orb_false_iff in Em as [Em _]. apply negb_false_iff in Em. exact Em.
  - exists [x23; hexd u1 (N_of_byte b / 16)], (hexd u2 (N_of_byte b mod 16)). split; [reflexivity|apply hexd_reg, lo_lt].
Qed.

Lemma w_name_body_last : forall n st, w_name_body n st = [] \/ is_reg (last (w_name_body n st) x20) = true.
Proof.
  induction n as [|b n IH]; intro st; [left; reflexivity|]. right.
  assert (G : forall c st', is_reg (last (w_name_byte b c ++ w_name_body n st') x20) = true).
  { intros c st'. destruct (IH st') as [E|E].
    - rewrite E, app_nil_r. destruct (w_name_byte_last b c) as [pre [z [Ez Hz]]]. rewrite Ez.
      rewrite last_app_ne by discriminate. exact Hz.
    - destruct (w_name_body n st') eqn:Eb; [discriminate E|]. rewrite last_app_ne by discriminate. exact E. }
  cbn [w_name_body]. destruct st as [|c st']; apply G.
Qed.

Lemma last_reg_name n st : last_reg (w_name n st).
Proof.
  unfold last_reg, w_name. destruct (w_name_body_last n st) as [E|E].
  - rewrite E. reflexivity.
  - destruct (w_name_body n st) as [|b0 l0] eqn:Eb; [discriminate E|].
    change (x2f :: b0 :: l0) with ([x2f] ++ b0 :: l0). rewrite last_app_ne by discriminate. rewrite E. reflexivity.
Qed.

Lemma last_reg_int z plus lz : last_reg (w_int z plus lz).
Proof.
  destruct (w_int_shape z plus lz) as [sg [ds [E [Hne [Hds _]]]]]. rewrite E. unfold last_reg.
  rewrite last_app_ne by exact Hne.
  rewrite (digit_is_reg _ (last_forallb digit_or_point ds x20 Hne (digits_dop ds Hds))). reflexivity.
Qed.

Lemma real_parts_of r (y : rstyle) : real_wf r ->
  exists neg ipt fr, w_real r y = sign_bytes neg (r_plus y) ++ ipt ++ x2e :: fr /\
                     forallb is_dec_digit ipt = true /\ forallb is_dec_digit fr = true.
Proof.
  intros [neg [ip [fd [-> [Hne [Hdi Hfd]]]]]]. rewrite (w_real_text neg ip fd y Hne Hdi Hfd).
  exists neg, (int_part y ip (fd ++ zeros (r_tz y))), (fd ++ zeros (r_tz y)). split; [reflexivity|]. split.
  - unfold int_part. assert (G : forallb is_dec_digit (zeros (r_lz y) ++ ip) = true)
      by (rewrite forallb_app, zeros_digits, Hdi; reflexivity).
    destruct (fd ++ zeros (r_tz y)); [exact G|]. destruct (_ && _); [reflexivity | exact G].
  - rewrite forallb_app, Hfd, zeros_digits. reflexivity.
Qed.

Lemma last_reg_real r (y : rstyle) : real_wf r -> last_reg (w_real r y).
Proof.
  intro H. destruct (real_parts_of r y H) as [neg [ipt [fr [E [_ Hfr]]]]]. rewrite E. unfold last_reg.
  rewrite app_assoc. rewrite last_app_ne by discriminate.
  assert (Hd : forallb digit_or_point (x2e :: fr) = true) by (cbn [forallb]; rewrite (digits_dop fr Hfr); reflexivity).
  rewrite (digit_is_reg _ (last_forallb digit_or_point (x2e :: fr) x20 ltac:(discriminate) Hd)). reflexivity.
Qed.

Definition num_like (x : obj) : Prop := match x with OInt _ | OReal _ | ORef _ _ => True | _ => False end.

Lemma arr_toks_hd l sts : exists t2 f2 toks, arr_toks l sts = (t2, f2) :: toks.
Proof. destruct l; eexists _, _, _; reflexivity. Qed.
Lemma dict_toks_hd d sts : exists t2 f2 toks, dict_toks d sts = (t2, f2) :: toks.
Proof. destruct d as [|[k v] d]; eexists _, _, _; reflexivity. Qed.

Lemma w_obj_head x y : spell_wf x y ->
  exists c t, w_obj x y = c :: t /\ lead2 c = true /\ (is_dec_digit c = true -> num_like x).
Proof.
  intro H. destruct x as [|b|z|r|n|s h|l|d|d c0|i g]; cbn [spell_wf] in H.
  - eexists _, _. split; [reflexivity|]. split; [reflexivity|discriminate].
  - destruct b; eexists _, _; (split; [reflexivity|]); (split; [reflexivity|discriminate]).
  - cbn [w_obj]. set (txt := match y with YInt p lz => w_int z p lz | _ => w_int z false 0 end).
    assert (Hs : exists plus lz, txt = w_int z plus lz) by (unfold txt; destruct y; eauto).
    destruct Hs as [plus [lz ->]]. destruct (w_int_shape z plus lz) as [sg [ds [E [Hne [Hds Hsg]]]]]. rewrite E.
    destruct (digits_cons ds Hne Hds) as [c [t [Ec Hc]]].
    destruct Hsg as [->|[->| ->]]; cbn [app]; [rewrite Ec|..]; eexists _, _; (split; [reflexivity|]); (split; [|intros _; exact I]);
      try reflexivity. unfold lead2. rewrite (digit_lead c Hc). reflexivity.
  - cbn [w_obj]. set (ry := match y with YReal ry => ry | _ => default_rstyle end).
    assert (Hs : (match y with YReal ry0 => w_real r ry0 | _ => w_real r default_rstyle end) = w_real r ry)
      by (unfold ry; destruct y; reflexivity).
    rewrite Hs. destruct (real_parts_of r ry H) as [neg [ipt [fr [E [Hi _]]]]]. rewrite E. unfold sign_bytes.
    destruct neg; [eexists _, _; split; [reflexivity|split; [reflexivity|intros _; exact I]]|].
    destruct (r_plus ry); [eexists _, _; split; [reflexivity|split; [reflexivity|intros _; exact I]]|].
    cbn [app]. destruct ipt as [|c t]; [eexists _, _; split; [reflexivity|split; [reflexivity|intros _; exact I]]|].
    cbn [forallb] in Hi. apply andb_true_iff in Hi as [Hc _]. eexists _, _. split; [reflexivity|]. split; [|intros _; exact I].
    unfold lead2. rewrite (digit_lead c Hc). reflexivity.
  - eexists _, _. split; [reflexivity|]. split; [reflexivity|discriminate].
  - cbn [w_obj]. unfold w_string.
    destruct y as [| | | |[l tc|l tw dl]| | |]; try (destruct h); eexists _, _; (split; [reflexivity|]); (split; [reflexivity|discriminate]).
  - rewrite w_obj_arr. destruct (arr_toks_hd l (arr_sts y)) as [t2 [f2 [toks E]]]. rewrite E. cbn [join].
    eexists _, _. split; [reflexivity|]. split; [reflexivity|discriminate].
  - rewrite w_obj_dict. destruct (dict_toks_hd d (dict_sts y)) as [t2 [f2 [toks E]]]. rewrite E. cbn [join].
    eexists _, _. split; [reflexivity|]. split; [reflexivity|discriminate].
  - contradiction.
  - cbn [w_obj]. pose proof (w_ref_text i g y []) as E. rewrite app_nil_r in E. rewrite E. unfold ref_text.
    destruct (ref_parts y) as [[[z1 z2] f1] f2].
    destruct (digits_cons _ (padded_ne z1 i) (padded_digits_all z1 i)) as [c [t [Ec Hc]]]. rewrite Ec. cbn [app].
    eexists _, _. split; [reflexivity|]. split; [|intros _; exact I]. unfold lead2. rewrite (digit_lead c Hc). reflexivity.
Qed.

Lemma w_obj_ne x y : spell_wf x y -> w_obj x y <> [].
Proof. intro H. destruct (w_obj_head x y H) as [c [t [E _]]]. rewrite E. discriminate. Qed.

(* ---------- a token in front of a good tail gives a good tail; and its follow condition holds ---------- *)
Lemma tailok_tok x y f T : spell_wf x y -> tailok T -> tailok (w_obj x y ++ sepT (w_obj x y) f T ++ T).
Proof.
  intros Hw HT. destruct (w_obj_head x y Hw) as [c [t [E [Hl Hn]]]].
  destruct (is_dec_digit c) eqn:Hc.
  2:{ rewrite E at 1. apply tailok_nondigit; assumption. }
  specialize (Hn eq_refl). destruct x as [|b|z|r|n|s h|l|d|d c0|i g]; try contradiction; cbn [spell_wf] in Hw.
  - (* an unsigned integer *)
    cbn [w_obj] in *. set (txt := match y with YInt p lz => w_int z p lz | _ => w_int z false 0 end) in *.
    assert (Hs : exists plus lz, txt = w_int z plus lz) by (unfold txt; destruct y; eauto).
    destruct Hs as [plus [lz Es]]. rewrite Es in *.
    pose proof (last_reg_int z plus lz) as Hlr.
    destruct (w_int_shape z plus lz) as [sg [ds [E2 [Hne [Hds Hsg]]]]]. rewrite E2 in *.
    assert (sg = []) as ->.
    { destruct Hsg as [->|[->| ->]]; [reflexivity|..]; cbn [app] in E; inversion E; subst c; discriminate Hc. }
    cbn [app] in *. apply tailok_digits; [exact Hne|exact Hds|apply nonreg_nondigit, sepT_nonreg; exact Hlr|].
    rewrite space_sepT. apply noR_prefix. apply HT.
  - (* a real that begins with a digit *)
    cbn [w_obj] in *. set (ry := match y with YReal ry => ry | _ => default_rstyle end).
    assert (Hs : (match y with YReal ry0 => w_real r ry0 | _ => w_real r default_rstyle end) = w_real r ry)
      by (unfold ry; destruct y; reflexivity).
    rewrite Hs in *. destruct (real_parts_of r ry Hw) as [neg [ipt [fr [E2 [Hi Hfr]]]]]. rewrite E2 in *.
    assert (sign_bytes neg (r_plus ry) = [] /\ ipt <> []) as [Esg Hine].
    { unfold sign_bytes in *. destruct neg; [cbn [app] in E; inversion E; subst c; discriminate Hc|].
      destruct (r_plus ry); [cbn [app] in E; inversion E; subst c; discriminate Hc|]. split; [reflexivity|].
      cbn [app] in E. destruct ipt; [cbn [app] in E; inversion E; subst c; discriminate Hc|discriminate]. }
    rewrite Esg. cbn [app]. rewrite <- app_assoc. apply tailok_digits; [exact Hine|exact Hi|reflexivity|reflexivity].
  - (* a reference *)
    cbn [w_obj]. rewrite w_ref_text. apply tailok_ref.
Qed.

Lemma follow_tok x y f T : spell_wf x y -> tailok T -> follow_ok true (denote x y) (sepT (w_obj x y) f T ++ T).
Proof.
  intros Hw HT. destruct x as [|b|z|r|n|s h|l|d|d c0|i g]; cbn [spell_wf] in Hw; try exact I.
  - apply follow_sep; [exact HT|reflexivity].
  - apply follow_sep; [exact HT|]. destruct b; reflexivity.
  - apply follow_sep; [exact HT|]. cbn [w_obj]. destruct y; apply last_reg_int.
  - apply follow_sep; [exact HT|]. cbn [w_obj]. destruct y; apply last_reg_real; exact Hw.
  - apply follow_sep; [exact HT|]. apply last_reg_name.
Qed.

Lemma tailok_name k ks X : tailok (w_name k ks ++ X).
Proof. unfold w_name. apply (tailok_nondigit x2f); reflexivity. Qed.

(* ---------- the text of a composite ---------- *)
Lemma tailok_arr_text l sts rest : wf_list l sts -> tailok (arr_text l sts rest).
Proof.
  revert sts. induction l as [|x l IH]; intros sts H; cbn [arr_text]; [apply tailok_close; auto|].
  destruct H as [H1 H2]. apply tailok_tok; [exact H1 | apply IH; exact H2].
Qed.

Lemma tailok_dict_text d sts rest : tailok (dict_text d sts rest).
Proof. destruct d as [|[k v] d]; cbn [dict_text]; [apply tailok_close; auto | apply tailok_name]. Qed.

Lemma join_cons' t f toks more :
  (exists t2 f2 toks', toks = (t2, f2) :: toks' /\ t2 <> []) ->
  join ((t, f) :: toks) ++ more = t ++ sepT t f (join toks ++ more) ++ join toks ++ more.
Proof. intros [t2 [f2 [toks' [-> H]]]]. apply join_cons. exact H. Qed.

Lemma arr_toks_ne l sts : wf_list l sts -> exists t2 f2 toks', arr_toks l sts = (t2, f2) :: toks' /\ t2 <> [].
Proof.
  intro H. destruct l as [|x l]; cbn [arr_toks]; eexists _, _, _; (split; [reflexivity|]); [discriminate|].
  apply w_obj_ne. apply H.
Qed.
Lemma dict_toks_ne d sts : exists t2 f2 toks', dict_toks d sts = (t2, f2) :: toks' /\ t2 <> [].
Proof. destruct d as [|[k v] d]; cbn [dict_toks]; eexists _, _, _; (split; [reflexivity|]); discriminate. Qed.

Lemma arr_join l sts rest : wf_list l sts -> join (arr_toks l sts) ++ rest = arr_text l sts rest.
Proof.
  revert sts. induction l as [|x l IH]; intros sts H; [reflexivity|]. destruct H as [H1 H2].
  cbn [arr_toks arr_text]. rewrite (join_cons' _ _ _ rest (arr_toks_ne l (tl sts) H2)), (IH (tl sts) H2). reflexivity.
Qed.

Lemma w_arr_text l y rest : wf_list l (arr_sts y) ->
  w_obj (OArr l) y ++ rest =
  x5b :: sepT [x5b] (arr_f0 y) (arr_text l (arr_sts y) rest) ++ arr_text l (arr_sts y) rest.
Proof.
  intro H. rewrite w_obj_arr. rewrite (join_cons' _ _ _ rest (arr_toks_ne l _ H)), (arr_join l _ rest H). reflexivity.
Qed.

Lemma dict_join d sts rest : wf_dict d sts -> join (dict_toks d sts) ++ rest = dict_text d sts rest.
Proof.
  revert sts. induction d as [|[k v] d IH]; intros sts H; [reflexivity|]. destruct H as [H1 H2].
  cbn [dict_toks dict_text].
  rewrite (join_cons' _ _ _ rest).
  2:{ eexists _, _, _. split; [reflexivity|]. apply w_obj_ne. exact H1. }
  rewrite (join_cons' _ _ _ rest (dict_toks_ne d (tl sts))), (IH (tl sts) H2). reflexivity.
Qed.

Lemma w_dict_text d y rest : wf_dict d (dict_sts y) ->
  w_obj (ODict d) y ++ rest =
  x3c :: x3c :: sepT [x3c; x3c] (dict_f0 y) (dict_text d (dict_sts y) rest) ++ dict_text d (dict_sts y) rest.
Proof.
  intro H. rewrite w_obj_dict. rewrite (join_cons' _ _ _ rest (dict_toks_ne d _)), (dict_join d _ rest H). reflexivity.
Qed.

(* ---------- the loops of the parser over such a text ---------- *)
Section Loops2.
  Variable f : nat.
  Variable dp : nat.
  Let elem := direct_objects_at (S f) dp.

  Definition elem_rt2 (x : obj) : Prop :=
    forall y rest, spell_wf x y -> follow_ok true (denote x y) rest -> (length (w_obj x y ++ rest) <= f)%nat ->
                   elem (w_obj x y ++ rest) = POk (denote x y) rest.

  Lemma many0_arr2 : forall l sts rest n,
    Forall elem_rt2 l -> wf_list l sts ->
    (length (arr_text l sts rest) <= f)%nat -> (length (arr_text l sts rest) <= n)%nat ->
    many0_direct elem n (arr_text l sts rest) = POk (denote_list l sts) (x5d :: rest).
  Proof.
    induction l as [|x l IH]; intros sts rest n He Hw Hf Hn.
    - cbn [arr_text] in *. destruct n as [|n]; [cbn in Hn; lia|]. cbn [many0_direct].
      unfold elem. rewrite (elem_close f dp x5d rest) by reflexivity. reflexivity.
    - inversion He as [|? ? Hex Hel]; subst. destruct Hw as [Hwx Hwl].
      cbn [arr_text] in *. set (T := arr_text l (tl sts) rest) in *. set (t := w_obj x (fst (a_hd sts))) in *.
      pose proof (tailok_arr_text l (tl sts) rest Hwl) as HT. fold T in HT.
      pose proof (w_obj_ne x _ Hwx) as Hne. fold t in Hne.
      assert (Hlen : (1 <= length t)%nat) by (destruct t; [contradiction|cbn; lia]).
      rewrite !app_length in Hf, Hn.
      destruct n as [|n]; [lia|]. cbn [many0_direct].
      unfold t at 1. rewrite (Hex _ _ Hwx (follow_tok x _ _ T Hwx HT)) by (fold t; rewrite !app_length; lia).
      fold t. rewrite (space_sep_tok t _ T HT). cbn [denote_list].
      unfold T. rewrite IH; [reflexivity|assumption|assumption| |]; fold T; lia.
  Qed.

  Lemma inner_dict2 : forall d sts rest n acc,
    Forall (fun kv => elem_rt2 (snd kv)) d -> wf_dict d sts ->
    (length (dict_text d sts rest) <= f)%nat -> (length (dict_text d sts rest) <= n)%nat ->
    inner_dictionary elem n (dict_text d sts rest) acc =
    POk (fold_left (fun a kv => dict_set a (fst kv) (snd kv)) (denote_dict d sts) acc) (x3e :: x3e :: rest).
  Proof.
    induction d as [|[k v] d IH]; intros sts rest n acc He Hw Hf Hn.
    - cbn [dict_text] in *. destruct n as [|n]; [cbn in Hn; lia|]. reflexivity.
    - inversion He as [|? ? Hex Hel]; subst. destruct Hw as [Hwx Hwl]. cbn [snd] in Hex.
      cbn [dict_text] in *. set (T := dict_text d (tl sts) rest) in *.
      set (tv := w_obj v (d_vs (d_hd sts))) in *. set (Tv := tv ++ sepT tv (d_fv (d_hd sts)) T ++ T) in *.
      set (tk := w_name k (d_ks (d_hd sts))) in *.
      pose proof (tailok_dict_text d (tl sts) rest) as HT. fold T in HT.
      assert (HTv : tailok Tv) by (apply tailok_tok; assumption).
      pose proof (w_obj_ne v _ Hwx) as Hne. fold tv in Hne.
      assert (Hlen : (1 <= length tv)%nat) by (destruct tv; [contradiction|cbn; lia]).
      assert (Hlk : (1 <= length tk)%nat) by (unfold tk, w_name; cbn; lia).
      unfold Tv in Hf, Hn. rewrite !app_length in Hf, Hn.
      destruct n as [|n]; [lia|]. cbn [inner_dictionary].
      assert (Hnf : name_follow (sepT tk (d_fk (d_hd sts)) Tv ++ Tv) = true).
      { unfold name_follow. rewrite (sepT_nonreg tk _ Tv (last_reg_name _ _)). reflexivity. }
      unfold tk at 1. rewrite (name_any_spelling k _ _ Hnf). fold tk.
      rewrite (space_sep_tok tk _ Tv HTv). unfold Tv at 1. unfold tv at 1.
      rewrite (Hex _ _ Hwx (follow_tok v _ _ T Hwx HT)) by (fold tv; rewrite !app_length; lia).
      fold tv. rewrite (space_sep_tok tv _ T HT). cbn [denote_dict fold_left fst snd].
      unfold T. rewrite IH; [reflexivity|assumption|assumption| |]; fold T; lia.
  Qed.
End Loops2.

Lemma denote_dict_keys d sts : map fst (denote_dict d sts) = map fst d.
Proof. revert sts. induction d as [|[k v] d IH]; intro sts; [reflexivity|]. cbn [denote_dict map fst]. rewrite IH. reflexivity. Qed.

Lemma fold_set_fresh : forall (d acc : dict),
  NoDup (map fst (acc ++ d)) -> fold_left (fun a kv => dict_set a (fst kv) (snd kv)) d acc = acc ++ d.
Proof.
  induction d as [|[k v] d IH]; intros acc H; cbn [fold_left]; [rewrite app_nil_r; reflexivity|]. cbn [fst snd].
  assert (Hk : ~ In k (map fst acc)).
  { rewrite map_app in H. apply NoDup_remove_2 in H. intro K. apply H. apply in_or_app. left. exact K. }
  rewrite (dict_set_fresh acc k v Hk), IH.
  - rewrite <- app_assoc. reflexivity.
  - rewrite <- app_assoc. exact H.
Qed.

(* ---------- the theorem ---------- *)
Lemma alts_name_any elem cont ar n k (st : nstyle) rest :
  name_follow rest = true -> object_alts_c elem cont ar n (w_name k st ++ rest) = POk (OName k) rest.
Proof.
  intro H. pose proof (name_any_spelling k st rest H) as E. unfold w_name in *. cbn [app] in *.
  rewrite alts_nonnum by reflexivity. unfold alts_tail. rewrite E. reflexivity.
Qed.

Lemma alts_literal_any elem cont ar n s (l : list lpos) (tc : list eolk) rest :
  lit_ok s l -> (length (w_literal s l tc ++ rest) <= n)%nat ->
  object_alts_c elem cont ar n (w_literal s l tc ++ rest) = POk (OStr s false) rest.
Proof.
  intros [H1 H2] Hn. pose proof (literal_any_spelling s l tc rest n H1 H2 Hn) as E.
  unfold w_literal in *. cbn [app] in *.
  rewrite alts_nonnum by reflexivity. unfold alts_tail. rewrite name_err by reflexivity. rewrite E. reflexivity.
Qed.

Lemma alts_hex_any elem cont ar n s (l : list hpos) (tw : list N) (dl : bool) rest :
  object_alts_c elem cont ar n (w_hexstr s l tw dl ++ rest) = POk (OStr s true) rest.
Proof.
  pose proof (hex_string_any_spelling s l tw dl rest) as E. unfold w_hexstr in *. cbn [app] in *.
  rewrite alts_nonnum by reflexivity. unfold alts_tail. rewrite name_err, literal_err by reflexivity. rewrite E. reflexivity.
Qed.

Lemma alts_ref_any elem cont n i g y rest :
  i <= u32_max -> g <= u16_max ->
  object_alts_c elem cont true n (w_ref i g y ++ rest) = POk (ORef i g) rest.
Proof.
  intros Hi Hg. pose proof (reference_any_spelling i g y rest Hi Hg) as E.
  assert (Hh : exists c t, w_ref i g y ++ rest = c :: t /\ is_dec_digit c = true).
  { rewrite w_ref_text. unfold ref_text. destruct (ref_parts y) as [[[z1 z2] f1] f2].
    destruct (digits_cons _ (padded_ne z1 i) (padded_digits_all z1 i)) as [c [t [Ec Hc]]]. rewrite Ec. cbn [app]. eauto. }
  destruct Hh as [c [t [Ec Hc]]]. unfold object_alts_c. rewrite Ec in *.
  destruct (numlead_fail c t (or_introl Hc)) as [N1 N2]. rewrite N1, N2. cbn [palt]. rewrite E. reflexivity.
Qed.

Theorem spell_rt : forall o y ar rest f depth,
  spell_wf o y -> ref_ok ar o -> follow_ok ar (denote o y) rest ->
  (length (w_obj o y ++ rest) <= f)%nat -> (nest o <= depth)%nat ->
  object_alts_c (direct_objects_at f (pred depth)) (depth_ok depth) ar f (w_obj o y ++ rest) =
  POk (denote o y) rest.
Proof.
  induction o as [|b|z|r|n|s h|l Hl|d Hd|d c Hd|i g] using obj_rt_ind; intros y ar rest f depth Hw Hr Hf Hlen Hdp.
  - apply alts_null. exact Hf.
  - destruct b; [apply alts_true|apply alts_false]; exact Hf.
  - cbn [w_obj denote spell_wf follow_ok] in *. destruct y; apply alts_int_any; assumption.
  - cbn [w_obj denote spell_wf follow_ok] in *. destruct y; apply alts_real_any; assumption.
  - cbn [w_obj denote follow_ok] in *. apply alts_name_any. exact Hf.
  - cbn [w_obj denote spell_wf] in *. unfold w_string in *.
    (* the two explicit string styles first: a failing [apply] of the other lemma makes the unifier unfold
       [object_alts_c] on both sides, which took 550 s *)
    destruct y as [| | | |[l tc|l tw dl]| | |]; cbn [str_format].
    5:{ apply alts_literal_any; assumption. }
    5:{ apply alts_hex_any. }
    all: destruct h; [apply alts_hex_any | apply alts_literal_any; assumption].
  - (* array *)
    pose proof (proj1 (spell_wf_arr l y) Hw) as Hwl.
    rewrite (w_arr_text l y rest Hwl) in *. cbn [length] in Hlen.
    destruct f as [|f]; [lia|]. cbn [nest] in Hdp. fold (nest_list l) in Hdp.
    destruct depth as [|dp]; [lia|]. cbn [pred depth_ok].
    assert (He : Forall (elem_rt2 f dp) l).
    { pose proof (nest_list_le l dp ltac:(lia)) as Hn. clear - Hl Hn.
      induction Hl as [|x l Hx Hl IH]; constructor.
      - inversion Hn; subst. intros y rest Hw Hf Hlen. cbn [direct_objects_at].
        apply Hx; [assumption|apply ref_ok_true|assumption|exact Hlen|assumption].
      - inversion Hn; subst. apply IH; assumption. }
    set (T := arr_text l (arr_sts y) rest) in *.
    pose proof (tailok_arr_text l (arr_sts y) rest Hwl) as HT. fold T in HT.
    rewrite app_length in Hlen.
    rewrite alts_nonnum by reflexivity. unfold alts_tail.
    rewrite name_err, literal_err, hex_err by reflexivity. cbn [pmap palt].
    unfold array_p. rewrite (space_sep_tok [x5b] _ T HT). unfold T.
    rewrite (many0_arr2 f dp l (arr_sts y) rest (S f) He Hwl) by (fold T; lia).
    cbn [pbind]. reflexivity.
  - (* dictionary *)
    destruct (proj1 (spell_wf_dict d y) Hw) as [Hnd Hwd].
    rewrite (w_dict_text d y rest Hwd) in *. cbn [length] in Hlen.
    destruct f as [|f]; [lia|]. cbn [nest] in Hdp. fold (nest_dict d) in Hdp.
    destruct depth as [|dp]; [lia|]. cbn [pred depth_ok].
    assert (He : Forall (fun kv => elem_rt2 f dp (snd kv)) d).
    { pose proof (nest_dict_le d dp ltac:(lia)) as Hn. clear - Hd Hn.
      induction Hd as [|[k x] d Hx Hdd IH]; constructor.
      - inversion Hn; subst. cbn [snd] in *. intros y rest Hw Hf Hlen. cbn [direct_objects_at].
        apply Hx; [assumption|apply ref_ok_true|assumption|exact Hlen|assumption].
      - inversion Hn; subst. apply IH; assumption. }
    set (T := dict_text d (dict_sts y) rest) in *.
    pose proof (tailok_dict_text d (dict_sts y) rest) as HT. fold T in HT.
    rewrite app_length in Hlen.
    rewrite alts_nonnum by reflexivity. unfold alts_tail.
    rewrite name_err, literal_err by reflexivity. cbn [pmap palt].
    assert (hexadecimal_string (x3c :: x3c :: sepT [x3c; x3c] (dict_f0 y) T ++ T) = PErr) as -> by reflexivity.
    rewrite array_err by reflexivity. cbn [pmap palt].
    unfold dictionary_p. rewrite (space_sep_tok [x3c; x3c] _ T HT). unfold T.
    rewrite (inner_dict2 f dp d (dict_sts y) rest (S f) [] He Hwd) by (fold T; lia).
    cbn [pbind]. rewrite fold_set_fresh by (cbn [app]; rewrite denote_dict_keys; exact Hnd).
    reflexivity.
  - contradiction.
  - destruct ar; [|discriminate Hr]. destruct Hw as [Hi Hg]. cbn [w_obj denote]. apply alts_ref_any; assumption.
Qed.

(* ---------- corollaries for the entry points ---------- *)
Theorem direct_objects_spelled o y rest f :
  spell_wf o y -> follow_ok true (denote o y) rest -> (length (w_obj o y ++ rest) < f)%nat -> (nest o <= MAX_DEPTH)%nat ->
  direct_objects f (w_obj o y ++ rest) = POk (denote o y) rest.
Proof.
  intros Hw Hf Hlen Hd. unfold direct_objects. destruct f as [|f]; [lia|]. cbn [direct_objects_at].
  apply spell_rt; [assumption|apply ref_ok_true|assumption|lia|assumption].
Qed.

(* parser::direct_object (what ObjectStream::new and the indirect-object parser call) *)
Theorem direct_object_any_spelling o y rest f :
  spell_wf o y -> follow_ok true (denote o y) rest -> (length (w_obj o y ++ rest) < f)%nat -> (nest o <= MAX_DEPTH)%nat ->
  direct_object f (w_obj o y ++ rest) = POk (denote o y) (space rest).
Proof. intros. unfold direct_object. rewrite direct_objects_spelled by assumption. reflexivity. Qed.

(* the standalone dictionary parser (trailer, stream dictionary) *)
Theorem dictionary_any_spelling d y rest f :
  spell_wf (ODict d) y -> (length (w_obj (ODict d) y ++ rest) < f)%nat -> (nest (ODict d) <= MAX_DEPTH)%nat ->
  dictionary f (w_obj (ODict d) y ++ rest) = POk (denote_dict d (dict_sts y)) rest.
Proof.
  intros Hw Hlen Hd. unfold dictionary. destruct f as [|f]; [lia|].
  destruct (proj1 (spell_wf_dict d y) Hw) as [Hnd Hwd].
  rewrite (w_dict_text d y rest Hwd) in *. cbn [length] in Hlen.
  destruct f as [|f]; [lia|].
  cbn [nest] in Hd. fold (nest_dict d) in Hd.
  destruct MAX_DEPTH as [|dp] eqn:EM; [lia|]. cbn [depth_ok pred].
  assert (He : Forall (fun kv => elem_rt2 f dp (snd kv)) d).
  { pose proof (nest_dict_le d dp ltac:(lia)) as Hn. clear - Hn.
    induction d as [|[k x] d IH]; constructor.
    - inversion Hn; subst. cbn [snd] in *. intros y rest Hw Hf Hlen. cbn [direct_objects_at].
      apply spell_rt; [assumption|apply ref_ok_true|assumption|exact Hlen|assumption].
    - inversion Hn; subst. apply IH; assumption. }
  set (T := dict_text d (dict_sts y) rest) in *.
  pose proof (tailok_dict_text d (dict_sts y) rest) as HT. fold T in HT.
  rewrite app_length in Hlen.
  unfold dictionary_p. rewrite (space_sep_tok [x3c; x3c] _ T HT). unfold T.
  rewrite (inner_dict2 f dp d (dict_sts y) rest (S f) [] He Hwd) by (fold T; lia).
  cbn [pbind]. rewrite fold_set_fresh by (cbn [app]; rewrite denote_dict_keys; exact Hnd).
  reflexivity.
Qed.

(* ---------- what is read back has the same value ---------- *)
(* same value: reals by their decimal value, strings without their format, dictionaries in file order *)
Inductive same_value : obj -> obj -> Prop :=
| sv_null : same_value ONull ONull
| sv_bool b : same_value (OBool b) (OBool b)
| sv_int z : same_value (OInt z) (OInt z)
| sv_real r1 r2 : same_dec r1 r2 -> same_value (OReal r1) (OReal r2)
| sv_name n : same_value (OName n) (OName n)
| sv_str s h1 h2 : same_value (OStr s h1) (OStr s h2)
| sv_ref i g : same_value (ORef i g) (ORef i g)
| sv_arr l1 l2 : Forall2 same_value l1 l2 -> same_value (OArr l1) (OArr l2)
| sv_dict d1 d2 : Forall2 (fun a b => fst a = fst b /\ same_value (snd a) (snd b)) d1 d2 -> same_value (ODict d1) (ODict d2)
| sv_stream d1 d2 c : Forall2 (fun a b => fst a = fst b /\ same_value (snd a) (snd b)) d1 d2 ->
                      same_value (OStream d1 c) (OStream d2 c).

Theorem denote_same_value : forall o y, spell_wf o y -> same_value o (denote o y).
Proof.
  induction o as [|b|z|r|n|s h|l Hl|d Hd|d c Hd|i g] using obj_rt_ind; intros y Hw; try (cbn [denote]; constructor).
  - cbn [spell_wf] in Hw. apply (real_any_spelling r (rstyle_of y) [] Hw eq_refl).
  - change (Forall2 same_value l (denote_list l (arr_sts y))).
    pose proof (proj1 (spell_wf_arr l y) Hw) as Hwl. clear Hw. revert Hwl. generalize (arr_sts y).
    induction Hl as [|x l Hx Hl IH]; intros sts Hwl; cbn [denote_list]; constructor.
    + apply Hx. apply Hwl.
    + apply IH. apply Hwl.
  - change (Forall2 (fun a b => fst a = fst b /\ same_value (snd a) (snd b)) d (denote_dict d (dict_sts y))).
    destruct (proj1 (spell_wf_dict d y) Hw) as [_ Hwd]. clear Hw. revert Hwd. generalize (dict_sts y).
    induction Hd as [|[k x] d Hx Hdd IH]; intros sts Hwd; cbn [denote_dict]; constructor.
    + cbn [fst snd] in *. split; [reflexivity|]. apply Hx. apply Hwd.
    + apply IH. apply Hwd.
  - contradiction.
Qed.
