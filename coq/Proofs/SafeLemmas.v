(* SafeLemmas.v -- the algebra of the C04 outcome/cost monad (Model/Safe.v). *)
From LV Require Import Base.Bytes Model.Safe.
Local Open Scope N_scope.

Lemma outcome_bind {A B} (m : M A) (f : A -> M B) :
  outcome (bind m f) =
  match outcome m with SOk a => outcome (f a) | SErr => SErr | SPanic r => SPanic r | SFuel => SFuel end.
Proof. unfold outcome, bind. destruct (fst m); reflexivity. Qed.

Lemma steps_bind {A B} (m : M A) (f : A -> M B) :
  steps (bind m f) = steps m + match outcome m with SOk a => steps (f a) | _ => 0 end.
Proof. unfold steps, outcome, bind. destruct (fst m); cbn; lia. Qed.

Lemma alloc_bind {A B} (m : M A) (f : A -> M B) :
  max_alloc (bind m f) = N.max (max_alloc m) (match outcome m with SOk a => max_alloc (f a) | _ => 0 end).
Proof. unfold max_alloc, outcome, bind. destruct (fst m); cbn; lia. Qed.

Lemma depth_bind {A B} (m : M A) (f : A -> M B) :
  max_depth (bind m f) = N.max (max_depth m) (match outcome m with SOk a => max_depth (f a) | _ => 0 end).
Proof. unfold max_depth, outcome, bind. destruct (fst m); cbn; lia. Qed.

Lemma no_panic_bind {A B} (m : M A) (f : A -> M B) :
  no_panic m -> (forall a, outcome m = SOk a -> no_panic (f a)) -> no_panic (bind m f).
Proof.
  unfold no_panic. intros Hm Hf. rewrite outcome_bind.
  destruct (outcome m) eqn:E; auto.
Qed.

Lemma terminates_bind {A B} (m : M A) (f : A -> M B) :
  terminates m -> (forall a, outcome m = SOk a -> terminates (f a)) -> terminates (bind m f).
Proof.
  unfold terminates. intros Hm Hf. rewrite outcome_bind.
  destruct (outcome m) eqn:E; auto; congruence.
Qed.

Lemma alloc_bind_le {A B} (m : M A) (f : A -> M B) b :
  max_alloc m <= b -> (forall a, outcome m = SOk a -> max_alloc (f a) <= b) -> max_alloc (bind m f) <= b.
Proof.
  intros Hm Hf. rewrite alloc_bind. destruct (outcome m) eqn:E; try lia. specialize (Hf a eq_refl). lia.
Qed.

Lemma depth_bind_le {A B} (m : M A) (f : A -> M B) b :
  max_depth m <= b -> (forall a, outcome m = SOk a -> max_depth (f a) <= b) -> max_depth (bind m f) <= b.
Proof.
  intros Hm Hf. rewrite depth_bind. destruct (outcome m) eqn:E; try lia. specialize (Hf a eq_refl). lia.
Qed.

Lemma steps_bind_le {A B} (m : M A) (f : A -> M B) b1 b2 :
  steps m <= b1 -> (forall a, outcome m = SOk a -> steps (f a) <= b2) -> steps (bind m f) <= b1 + b2.
Proof.
  intros Hm Hf. rewrite steps_bind. destruct (outcome m) eqn:E; try lia. specialize (Hf a eq_refl). lia.
Qed.

(* ---- primitives ---- *)
Lemma outcome_ret {A} (a : A) : outcome (ret a) = SOk a. Proof. reflexivity. Qed.
Lemma outcome_tick n : outcome (tick n) = SOk tt. Proof. reflexivity. Qed.
Lemma outcome_request n : outcome (request n) = SOk tt. Proof. reflexivity. Qed.
Lemma no_panic_ret {A} (a : A) : no_panic (ret a). Proof. reflexivity. Qed.
Lemma no_panic_fail {A} : no_panic (@fail A). Proof. reflexivity. Qed.
Lemma no_panic_tick n : no_panic (tick n). Proof. reflexivity. Qed.
Lemma no_panic_request n : no_panic (request n). Proof. reflexivity. Qed.
Lemma no_panic_try_request n : no_panic (try_request n).
Proof. unfold no_panic, try_request. destruct (ISIZE_MAX <? n); reflexivity. Qed.
Lemma no_panic_out_of_fuel {A} : no_panic (@out_of_fuel A). Proof. reflexivity. Qed.

Lemma ck_sub_ok a b : b <= a -> ck_sub a b = ret (a - b).
Proof. intros H. unfold ck_sub. apply N.leb_le in H. rewrite H. reflexivity. Qed.
Lemma ck_add_ok m a b : a + b <= m -> ck_add m a b = ret (a + b).
Proof. intros H. unfold ck_add. apply N.leb_le in H. rewrite H. reflexivity. Qed.
Lemma ck_mul_ok m a b : a * b <= m -> ck_mul m a b = ret (a * b).
Proof. intros H. unfold ck_mul. apply N.leb_le in H. rewrite H. reflexivity. Qed.
Lemma slice_from_ok {A} (l : list A) n : n <= N.of_nat (length l) -> slice_from l n = ret (skipn (N.to_nat n) l).
Proof. intros H. unfold slice_from. apply N.leb_le in H. rewrite H. reflexivity. Qed.
Lemma slice_to_ok {A} (l : list A) n : n <= N.of_nat (length l) -> slice_to l n = ret (firstn (N.to_nat n) l).
Proof. intros H. unfold slice_to. apply N.leb_le in H. rewrite H. reflexivity. Qed.

Lemma bind_ret_l {A B} (a : A) (f : A -> M B) :
  outcome (bind (ret a) f) = outcome (f a) /\ steps (bind (ret a) f) = steps (f a)
  /\ max_alloc (bind (ret a) f) = max_alloc (f a) /\ max_depth (bind (ret a) f) = max_depth (f a).
Proof.
  unfold outcome, steps, max_alloc, max_depth, bind, ret. cbn. repeat split; try lia.
Qed.

(* cost facts of the primitives *)
Lemma cost_ret {A} (a : A) : steps (ret a) = 0 /\ max_alloc (ret a) = 0 /\ max_depth (ret a) = 0.
Proof. repeat split. Qed.
Lemma cost_fail {A} : steps (@fail A) = 0 /\ max_alloc (@fail A) = 0 /\ max_depth (@fail A) = 0.
Proof. repeat split. Qed.
Lemma cost_ck_sub a b : steps (ck_sub a b) = 0 /\ max_alloc (ck_sub a b) = 0 /\ max_depth (ck_sub a b) = 0.
Proof. unfold ck_sub. destruct (b <=? a); repeat split. Qed.
Lemma cost_ck_add m a b : steps (ck_add m a b) = 0 /\ max_alloc (ck_add m a b) = 0 /\ max_depth (ck_add m a b) = 0.
Proof. unfold ck_add. destruct (a + b <=? m); repeat split. Qed.
Lemma cost_ck_mul m a b : steps (ck_mul m a b) = 0 /\ max_alloc (ck_mul m a b) = 0 /\ max_depth (ck_mul m a b) = 0.
Proof. unfold ck_mul. destruct (a * b <=? m); repeat split. Qed.
Lemma cost_slice_from {A} (l : list A) n :
  steps (slice_from l n) = 0 /\ max_alloc (slice_from l n) = 0 /\ max_depth (slice_from l n) = 0.
Proof. unfold slice_from. destruct (n <=? _); repeat split. Qed.
Lemma cost_slice_to {A} (l : list A) n :
  steps (slice_to l n) = 0 /\ max_alloc (slice_to l n) = 0 /\ max_depth (slice_to l n) = 0.
Proof. unfold slice_to. destruct (n <=? _); repeat split. Qed.
