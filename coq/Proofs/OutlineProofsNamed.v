(* OutlineProofsNamed.v -- C17, consumer side WITH named destinations (Model/TocNamed.v): on any object graph
   that holds the outline of a forest, whatever `Dests` / `Names` tree the catalog has (valid, cyclic, ill-typed),
   get_toc returns the preorder of the forest when get_named_destinations accepts the tree and Err when it does not;
   the destination map is never consulted, because every item build_outline writes has an explicit destination
   array `[page /Fit]` in its GoTo action.
   Main results: [walk_items_nm] (the First/Next walk returns the same outlines, same budget, and the map
   UNCHANGED), [toc_of_outline_nm], [toc_of_holds_any], [named_destinations_returns] (from C13's totality
   theorem: the name-tree walk never panics or runs out of fuel), [walk_nil] / [get_toc_no_tree] (without a tree the
   model is Model/Toc.v's). *)
From LV Require Import Base.Bytes Model.Obj Model.DocQ Model.PageTree Model.Outline Model.Toc Gen.QueryC
  Spec.OutlineSpec Proofs.OutlineProofs Proofs.OutlineProofsTitle Proofs.OutlineProofsRead Proofs.OutlineProofsOps
  Proofs.OutlineProofsMain.
From LV Require Model.Query Proofs.QueryProofs Proofs.QueryProofsWalk Model.TocNamed.

Local Open Scope N_scope.

Notation nmap := TocNamed.nmap.

(* ---------- an item written by build_outline: the map is not looked at ---------- *)
Lemma get_outline_item_nm m d parent prev next info bd kids a (nm : nmap) :
  item_ok d parent prev next info bd kids -> get_of m info = Some a -> action_ok a bd ->
  TocNamed.get_outline m d nm = (nm, ROk (Some (dest_of bd))).
Proof.
  intros Hi Ha Hao. unfold TocNamed.get_outline.
  rewrite (gdd_ref m d K_A info a (io_a _ _ _ _ _ _ _ Hi) Ha).
  rewrite (ao_s _ _ Hao). change (bytes_eqb K_GoTo K_GoTo) with true. cbn [orb].
  rewrite (io_title _ _ _ _ _ _ _ Hi), (ao_d _ _ Hao). reflexivity.
Qed.

Definition walk_sub (f : nat) (m : objmap) (node : dict) (nm1 : nmap) (budget depth : N)
  : wres (list outline * N * nmap) :=
  match dict_get node K_First with
  | None => WOk ([], budget, nm1)
  | Some first =>
    if (OUTLINE_DEPTH_LIMIT <=? depth)%N then WErr
    else
      let fd : option (dict * N) :=
        match first with
        | ODict d => Some (d, budget)
        | ORef i g =>
          match follow_ref budget with
          | None => None
          | Some b1 => match get_dictionary m (i, g) with Some d => Some (d, b1) | None => None end
          end
        | _ => None
        end in
      match fd with
      | None => WErr
      | Some (d, b1) =>
        match TocNamed.walk f m d nm1 b1 (depth + 1) with
        | WOk ([], b2, nm2) => WOk ([], b2, nm2)
        | WOk (subs, b2, nm2) => WOk ([OSub subs], b2, nm2)
        | e => e
        end
      end
  end.

Definition walk_rest (f : nat) (m : objmap) (node : dict) (item : list outline) (depth : N)
           (sub : wres (list outline * N * nmap)) : wres (list outline * N * nmap) :=
  match sub with
  | WOk (s, b2, nm2) =>
    let nb : option N :=
      match dict_get node K_Next with
      | Some (ORef _ _) => follow_ref b2
      | _ => Some b2
      end in
    match nb with
    | None => WErr
    | Some b3 =>
      match get_dict_in_dict m node K_Next with
      | Some n =>
        match TocNamed.walk f m n nm2 b3 depth with
        | WOk (r, b4, nm3) => WOk (item ++ s ++ r, b4, nm3)
        | e => e
        end
      | None => WOk (item ++ s, b3, nm2)
      end
    end
  | e => e
  end.

Lemma walk_S f m node nm budget depth :
  TocNamed.walk (S f) m node nm budget depth =
  walk_rest f m node (match snd (TocNamed.get_outline m node nm) with ROk (Some o) => [o] | _ => [] end) depth
            (walk_sub f m node (fst (TocNamed.get_outline m node nm)) budget depth).
Proof. cbn [TocNamed.walk]. destruct (TocNamed.get_outline m node nm) as [nm1 r]. reflexivity. Qed.

(* Toc.walk_items with the destination map: same outlines, same remaining budget, the map is returned as it came *)
Lemma walk_items_nm m : forall fuel l p prev (nm : nmap) budget depth,
  items_ok (get_of m) p prev l -> (ofsize l <= fuel)%nat ->
  N.of_nat (ofsize l) <= budget + 1 ->
  depth + N.of_nat (ofheight l) <= OUTLINE_DEPTH_LIMIT + 1 ->
  match l with
  | [] => True
  | t :: _ => forall d, get_of m (o_id t) = Some d ->
                        TocNamed.walk fuel m d nm budget depth
                        = WOk (flat_map outs_of l, budget + 1 - N.of_nat (ofsize l), nm)
  end.
Proof.
  induction fuel as [|f IH]; intros l p prev nm budget depth Hio Hsz Hbud Hdep.
  - destruct l as [|[i a bd ks] r]; [exact I|]. rewrite ofsize_cons, osize_node in Hsz. lia.
  - destruct l as [|[id info bd kids] rest]; [exact I|]. intros d Hd.
    inversion Hio as [|parent prev0 id0 info0 bd0 kids0 rest0 d0 a Hd0 Hi Ha Hao Hk Hr]; subst.
    cbn [o_id] in Hd. rewrite Hd0 in Hd. inversion Hd; subst d0. clear Hd.
    rewrite ofsize_cons, osize_node in Hsz, Hbud.
    rewrite ofheight_cons, oheight_node in Hdep.
    rewrite walk_S, (get_outline_item_nm m d _ _ _ _ _ _ a nm Hi Ha Hao). cbn [fst snd].
    (* children *)
    assert (Hsub : walk_sub f m d nm budget depth
                   = WOk (wrap (flat_map outs_of kids), budget - N.of_nat (ofsize kids), nm)).
    { unfold walk_sub. rewrite (io_first _ _ _ _ _ _ _ Hi).
      destruct kids as [|k ks]; [cbn [head_id oref option_map flat_map wrap ofsize fold_right]; rewrite N.sub_0_r; reflexivity|].
      destruct (items_ok_head _ _ _ _ _ Hk) as [dk Hdk].
      assert (Hpos : (1 <= ofsize (k :: ks))%nat) by (destruct k; rewrite ofsize_cons, osize_node; lia).
      assert (Hh : (1 <= ofheight (k :: ks))%nat) by (destruct k; rewrite ofheight_cons, oheight_node; lia).
      cbn [head_id oref option_map].
      replace (OUTLINE_DEPTH_LIMIT <=? depth) with false by (symmetry; apply N.leb_gt; lia).
      cbv zeta. rewrite follow_ref_pos by lia. rewrite (get_dictionary_of _ _ _ Hdk).
      assert (A1 : (ofsize (k :: ks) <= f)%nat) by lia.
      assert (A2 : N.of_nat (ofsize (k :: ks)) <= budget - 1 + 1) by lia.
      assert (A3 : depth + 1 + N.of_nat (ofheight (k :: ks)) <= OUTLINE_DEPTH_LIMIT + 1) by lia.
      pose proof (IH (k :: ks) id None nm (budget - 1) (depth + 1) Hk A1 A2 A3 dk Hdk) as W.
      rewrite W. rewrite wrap_cons. destruct k. cbn [flat_map outs_of app]. f_equal. f_equal. f_equal. lia. }
    rewrite Hsub. unfold walk_rest. rewrite (io_next _ _ _ _ _ _ _ Hi).
    (* next sibling *)
    destruct rest as [|n r].
    + cbn [head_id oref option_map].
      rewrite (gdd_none m d K_Next) by (rewrite (io_next _ _ _ _ _ _ _ Hi); reflexivity).
      cbn [flat_map outs_of ofsize fold_right]. rewrite app_nil_r, osize_node. f_equal. f_equal. f_equal. lia.
    + destruct (items_ok_head _ _ _ _ _ Hr) as [dn Hdn].
      assert (Hpos : (1 <= ofsize (n :: r))%nat) by (destruct n; rewrite ofsize_cons, osize_node; lia).
      cbn [head_id oref option_map]. rewrite follow_ref_pos by lia.
      rewrite (gdd_ref m d K_Next (o_id n) dn) by (rewrite ?(io_next _ _ _ _ _ _ _ Hi); first [reflexivity | exact Hdn]).
      assert (A1 : (ofsize (n :: r) <= f)%nat) by lia.
      assert (A2 : N.of_nat (ofsize (n :: r)) <= budget - N.of_nat (ofsize kids) - 1 + 1) by lia.
      assert (A3 : depth + N.of_nat (ofheight (n :: r)) <= OUTLINE_DEPTH_LIMIT + 1) by lia.
      pose proof (IH (n :: r) p (Some id) nm (budget - N.of_nat (ofsize kids) - 1) depth Hr A1 A2 A3 dn Hdn) as W.
      rewrite W. cbn [flat_map outs_of app]. f_equal. f_equal. f_equal.
      rewrite (ofsize_cons (ONode id info bd kids) (n :: r)), osize_node. lia.
Qed.

(* ---------- the name-tree walk returns (C13) ---------- *)
Lemma named_destinations_returns m cat :
  (exists nm, TocNamed.named_destinations m cat = WOk nm) \/ TocNamed.named_destinations m cat = WErr.
Proof.
  unfold TocNamed.named_destinations. destruct (named_tree m cat) as [tree|]; [|left; eexists; reflexivity].
  pose proof (QueryProofsWalk.get_named_destinations_total m tree [] (Query.fuel_nd m) (le_n _)) as R.
  destruct (Query.get_named_destinations (Query.fuel_nd m) m tree []) as [nm [u| | |]]; cbn [snd] in R;
    try contradiction; [left; eexists; reflexivity | right; reflexivity].
Qed.

Lemma readable_true d cat :
  catalog d = Some cat -> TocNamed.name_tree_readable d = true ->
  exists nm, TocNamed.named_destinations (d_objects d) cat = WOk nm.
Proof.
  intros Hc. unfold TocNamed.name_tree_readable. rewrite Hc.
  destruct (TocNamed.named_destinations (d_objects d) cat); try discriminate. intros _. eexists. reflexivity.
Qed.

Lemma readable_false d cat :
  catalog d = Some cat -> TocNamed.name_tree_readable d = false ->
  TocNamed.named_destinations (d_objects d) cat = WErr.
Proof.
  intros Hc. unfold TocNamed.name_tree_readable. rewrite Hc.
  destruct (named_destinations_returns (d_objects d) cat) as [[nm E]|E]; rewrite E; [discriminate | reflexivity].
Qed.

(* no tree: nothing to read *)
Lemma no_name_trees_readable d cat : catalog d = Some cat -> no_name_trees cat -> TocNamed.name_tree_readable d = true.
Proof.
  intros Hc [Hd Hn]. unfold TocNamed.name_tree_readable, TocNamed.named_destinations, named_tree. rewrite Hc.
  rewrite (gdd_none _ cat K_Dests Hd), (gdd_none _ cat K_Names Hn). reflexivity.
Qed.

(* ---------- get_toc on a document that holds an outline, ANY catalog ---------- *)
Theorem toc_of_outline_nm d cat root (f : list otree) fuel :
  catalog d = Some cat ->
  dict_get cat K_Outlines = Some (ORef root 0) ->
  outline_ok (get_of (d_objects d)) root f ->
  f <> [] ->
  (ofsize f <= fuel)%nat ->
  (ofsize f <= S (length (d_objects d)))%nat ->
  (N.of_nat (ofheight f) <= OUTLINE_DEPTH_LIMIT + 1) ->
  NoDup (map row_key (flat_map (orows 1) f)) ->
  Forall (row_ok (get_pages d)) (flat_map (orows 1) f) ->
  TocNamed.get_toc fuel d =
  if TocNamed.name_tree_readable d then TOk (map (entry_of (get_pages d)) (flat_map (orows 1) f)) 0 else TErr.
Proof.
  intros Hcat Hout [Hitems [od [Hod [Hfirst _]]]] Hne Hfuel Hbud Hdep Hnd Hrows.
  unfold TocNamed.get_toc, TocNamed.get_outlines_top. rewrite Hcat.
  rewrite (gdd_ref _ cat K_Outlines root od Hout Hod).
  destruct f as [|t r]; [congruence|].
  destruct (items_ok_head _ _ _ _ _ Hitems) as [dt Hdt].
  rewrite (gdd_ref _ od K_First (o_id t) dt Hfirst Hdt).
  destruct (TocNamed.name_tree_readable d) eqn:R.
  - destruct (readable_true d cat Hcat R) as [nm E]. rewrite E.
    rewrite (walk_items_nm (d_objects d) fuel (t :: r) root None nm (N.of_nat (length (d_objects d))) 0 Hitems Hfuel
               ltac:(lia) ltac:(lia) dt Hdt).
    rewrite (setup_outs (ofsize (t :: r)) (t :: r) [] 1 (le_n _)).
    rewrite ix_all_distinct by exact Hnd. cbn [app].
    rewrite (toc_rows_ok _ _ Hrows). reflexivity.
  - rewrite (readable_false d cat Hcat R). reflexivity.
Qed.

Lemma toc_of_holds_any d root f' fuel :
  holds_any d root f' ->
  (ofsize f' <= fuel)%nat ->
  N.of_nat (ofheight f') <= OUTLINE_DEPTH_LIMIT + 1 ->
  NoDup (map row_key (flat_map (orows 1) f')) ->
  Forall (row_ok (get_pages d)) (flat_map (orows 1) f') ->
  TocNamed.get_toc fuel d =
  if TocNamed.name_tree_readable d then TOk (map (entry_of (get_pages d)) (flat_map (orows 1) f')) 0 else TErr.
Proof.
  intros [cat [H1 [H2 [H4 [H5 H6]]]]] Hfuel Hdeep Hnd Hrows.
  exact (toc_of_outline_nm d cat root f' fuel H1 H2 H4 H5 Hfuel H6 Hdeep Hnd Hrows).
Qed.

(* a malformed name tree ends get_toc whatever the outline is *)
Theorem toc_unreadable d cat fuel :
  catalog d = Some cat -> TocNamed.name_tree_readable d = false ->
  TocNamed.get_toc fuel d = TErr.
Proof.
  intros Hcat R. unfold TocNamed.get_toc, TocNamed.get_outlines_top. rewrite Hcat.
  destruct (get_dict_in_dict (d_objects d) cat K_Outlines); [|reflexivity].
  rewrite (readable_false d cat Hcat R). reflexivity.
Qed.

(* ---------- without a tree the model is Model/Toc.v's ---------- *)
Lemma bor_direct_nil dest title :
  TocNamed.bor_direct dest title [] = ([], Toc.bor_direct dest title).
Proof. destruct dest as [| | | | | | l | | |]; try reflexivity. destruct l as [|a0 [|a1 l]]; reflexivity. Qed.

Lemma get_outline_nil m node : TocNamed.get_outline m node [] = ([], Toc.get_outline m node).
Proof.
  assert (B : forall dest title, TocNamed.build_outline_result m dest title [] = ([], Toc.build_outline_result m dest title)).
  { intros dest title. unfold TocNamed.build_outline_result, Toc.build_outline_result.
    destruct dest; try apply bor_direct_nil. destruct (get_object m (id, gen)); [apply bor_direct_nil | reflexivity]. }
  unfold TocNamed.get_outline, Toc.get_outline.
  destruct (get_dict_in_dict m node K_A) as [action|].
  - destruct (dict_get action K_S) as [[]|]; try reflexivity.
    destruct (bytes_eqb n K_GoTo || bytes_eqb n K_GoToR); [|reflexivity].
    destruct (dict_get node K_Title) as [[]|]; try reflexivity.
    + destruct (dict_get action K_D); [apply B | reflexivity].
    + destruct (dict_get action K_D); [|reflexivity]. destruct (get_object m (id, gen)); [apply B | reflexivity].
  - destruct (dict_get node K_Dest); [|reflexivity]. destruct (dict_get node K_Title); [apply B | reflexivity].
Qed.

Definition lift_nil (r : wres (list outline * N)) : wres (list outline * N * nmap) :=
  match r with
  | WOk (l, b) => WOk (l, b, [])
  | WErr => WErr | WPanic => WPanic | WFuel => WFuel | WUnmodelled => WUnmodelled
  end.

Ltac walk_tail IH m node :=
  destruct (dict_get node K_Next) as [[]|];
  try (match goal with |- context [follow_ref ?b] => destruct (follow_ref b); [|reflexivity] end);
  (destruct (get_dict_in_dict m node K_Next) as [?n|]; [|reflexivity]);
  rewrite IH;
  match goal with |- context [Toc.walk ?f m ?n ?b ?d] => destruct (Toc.walk f m n b d) as [[? ?]| | | |] end;
  reflexivity.

Lemma walk_nil m : forall fuel node budget depth,
  TocNamed.walk fuel m node [] budget depth = lift_nil (Toc.walk fuel m node budget depth).
Proof.
  induction fuel as [|f IH]; intros node budget depth; [reflexivity|].
  cbn [TocNamed.walk Toc.walk]. rewrite get_outline_nil.
  destruct (dict_get node K_First) as [first|]; [|walk_tail IH m node].
  destruct (OUTLINE_DEPTH_LIMIT <=? depth); [reflexivity|]. cbv zeta.
  destruct first; try reflexivity.
  - rewrite IH. destruct (Toc.walk f m d budget (depth + 1)) as [[[|s0 subs] b2]| | | |]; cbn [lift_nil]; try reflexivity;
      walk_tail IH m node.
  - destruct (follow_ref budget) as [b1|]; [|reflexivity].
    destruct (get_dictionary m (id, gen)) as [d0|]; [|reflexivity].
    rewrite IH. destruct (Toc.walk f m d0 b1 (depth + 1)) as [[[|s0 subs] b2]| | | |]; cbn [lift_nil]; try reflexivity;
      walk_tail IH m node.
Qed.

Theorem get_toc_no_tree d cat fuel :
  catalog d = Some cat -> named_tree (d_objects d) cat = None -> TocNamed.get_toc fuel d = Toc.get_toc fuel d.
Proof.
  intros Hc Hn. unfold TocNamed.get_toc, Toc.get_toc, TocNamed.get_outlines_top, Toc.get_outlines_top,
    TocNamed.named_destinations. rewrite Hc.
  destruct (get_dict_in_dict (d_objects d) cat K_Outlines) as [od|]; [|reflexivity]. rewrite Hn, walk_nil.
  destruct (Toc.walk fuel (d_objects d) _ _ 0) as [[outs b]| | | |]; reflexivity.
Qed.

(* ---------- main theorem over a represented forest, ANY catalog ---------- *)
Definition toc_or_err (d : doc) (f : list itree) : tres :=
  if TocNamed.name_tree_readable d then TOk (expected_toc d f) 0 else TErr.

Theorem reads_back_forest_nm b f cid rid cat fuel fuel2 :
  bookmarks b = map iid f -> f <> [] ->
  Forall (trepr (bookmark_table b)) f ->
  let d := base b in
  let m0 := d_max_id d in
  max_id_bounds d ->
  m0 + 1 + 2 * N.of_nat (fsize f) < U32_LIMIT ->
  root_id d = Some cid ->
  get_object_mut_id (d_objects d) cid = Some (rid, ODict cat) ->
  distinct_titles f -> scalar_titles f ->
  N.of_nat (fheight f) <= OUTLINE_DEPTH_LIMIT + 1 ->
  (fheight f <= fuel)%nat ->
  (fsize f <= fuel2)%nat ->
  exists b',
    build_outline fuel b = OOk (Some (m0 + 1, 0), b') /\
    let d2 := attach (base b') cid (m0 + 1, 0) in
    (targets_are_pages d2 f -> TocNamed.get_toc fuel2 d2 = toc_or_err d2 f).
Proof.
  intros Hroots Hne Htr d m0 Hmax Hlim Hroot Hcat Hdist Hscal Hdeep Hfuel Hfuel2.
  destruct (build_holds_any b f cid rid cat fuel Hroots Hne Htr Hmax Hlim Hroot Hcat Hfuel)
    as [b' [f' [Hnum [Hbuild [Hholds _]]]]].
  fold d m0 in Hnum, Hbuild, Hholds.
  exists b'. split; [exact Hbuild|]. intros d2 Htargets.
  destruct (numbered_conditions _ _ _ _ fuel2 Hnum Hdist Hscal Hdeep Hfuel2) as [Hrows [C1 [C2 C3]]].
  unfold toc_or_err, expected_toc. rewrite <- Hrows.
  apply (toc_of_holds_any d2 (m0 + 1) f' fuel2 Hholds C1 C2 C3).
  rewrite Hrows. apply rows_ok; assumption.
Qed.

(* ---------- main theorem over add_bookmark calls, ANY catalog ---------- *)
Theorem reads_back_ops_nm d ops cid rid cat fuel2 :
  let b := add_all (fresh_bdoc d) ops in
  let f := forest_of_ops (map sop_of ops) in
  let m0 := d_max_id d in
  f <> [] ->
  max_id_bounds d ->
  m0 + 1 + 2 * N.of_nat (fsize f) < U32_LIMIT ->
  root_id d = Some cid ->
  get_object_mut_id (d_objects d) cid = Some (rid, ODict cat) ->
  distinct_titles f -> scalar_titles f ->
  N.of_nat (fheight f) <= OUTLINE_DEPTH_LIMIT + 1 ->
  (fsize f <= fuel2)%nat ->
  exists b',
    build_outline (default_fuel b) b = OOk (Some (m0 + 1, 0), b') /\
    let d2 := attach (base b') cid (m0 + 1, 0) in
    (targets_are_pages d2 f -> TocNamed.get_toc fuel2 d2 = toc_or_err d2 f).
Proof.
  intros b f m0 Hne Hmax Hlim Hroot Hcat Hdist Hscal Hdeep Hfuel2.
  destruct (add_all_repr d ops) as [Hbase [Hroots [Htr Hdf]]]. fold b f in Hbase, Hroots, Htr, Hdf.
  rewrite Hdf.
  pose proof (reads_back_forest_nm b f cid rid cat (S (length ops)) fuel2 Hroots Hne Htr) as H.
  cbv zeta in H. rewrite Hbase in H. fold m0 in H.
  apply H; try assumption. apply forest_height.
Qed.

(* the catalog of the built document keeps every entry but Outlines: its name tree entries are the original's *)
Lemma cat_with_keeps cat n k : k <> K_Outlines -> dict_get (cat_with cat n) k = dict_get cat k.
Proof.
  intro Hk. unfold cat_with. rewrite dict_get_set.
  destruct (bytes_eqb K_Outlines k) eqn:E; [apply bytes_eqb_eq in E; congruence | reflexivity].
Qed.

(* ---------- the instance "catalog without name trees": there is nothing to read, the answer is the preorder ---------- *)
Theorem reads_back_ops_no_tree d ops cid rid cat fuel2 :
  let b := add_all (fresh_bdoc d) ops in
  let f := forest_of_ops (map sop_of ops) in
  let m0 := d_max_id d in
  f <> [] ->
  max_id_bounds d ->
  m0 + 1 + 2 * N.of_nat (fsize f) < U32_LIMIT ->
  root_id d = Some cid ->
  get_object_mut_id (d_objects d) cid = Some (rid, ODict cat) ->
  no_name_trees cat ->
  distinct_titles f -> scalar_titles f ->
  N.of_nat (fheight f) <= OUTLINE_DEPTH_LIMIT + 1 ->
  (fsize f <= fuel2)%nat ->
  exists b',
    build_outline (default_fuel b) b = OOk (Some (m0 + 1, 0), b') /\
    let d2 := attach (base b') cid (m0 + 1, 0) in
    TocNamed.name_tree_readable d2 = true /\
    (targets_are_pages d2 f -> TocNamed.get_toc fuel2 d2 = TOk (expected_toc d2 f) 0).
Proof.
  intros b f m0 Hne Hmax Hlim Hroot Hcat Hnn Hdist Hscal Hdeep Hfuel2.
  destruct (reads_back_ops_nm d ops cid rid cat fuel2 Hne Hmax Hlim Hroot Hcat Hdist Hscal Hdeep Hfuel2) as [b' [Hbuild Htoc]].
  fold b f m0 in Hbuild, Htoc. exists b'. split; [exact Hbuild|]. intro d2.
  destruct (add_all_repr d ops) as [Hbase [Hroots [Htr Hdf]]]. fold b f in Hbase, Hroots, Htr, Hdf.
  pose proof (build_holds_any b f cid rid cat (default_fuel b) Hroots Hne Htr) as H. cbv zeta in H.
  rewrite Hbase in H. fold m0 in H.
  destruct (H Hmax Hlim Hroot Hcat ltac:(rewrite Hdf; apply forest_height)) as [b2 [f' [_ [Hbuild2 [_ Hcatalog]]]]].
  rewrite Hbuild in Hbuild2. inversion Hbuild2; subst b2. fold d2 in Hcatalog.
  assert (R : TocNamed.name_tree_readable d2 = true).
  { apply (no_name_trees_readable d2 _ Hcatalog). destruct Hnn as [N1 N2].
    split; rewrite cat_with_keeps by (intro X; vm_compute in X; discriminate); assumption. }
  split; [exact R|]. intro Ht. cbv zeta in Htoc. fold d2 in Htoc. rewrite (Htoc Ht). unfold toc_or_err. rewrite R. reflexivity.
Qed.
