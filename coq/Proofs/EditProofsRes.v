(* EditProofsRes.v -- C11, part 6: I_resources.  After get_or_create_resources / add_graphics_state / add_xobject, EVERY
   node of EVERY object graph (cyclic Parent chains, reference chains, objects playing several roles at once) can still
   use every resource name it could use before: res_le (effective_resources before) (effective_resources after), with
   the effective resources of Spec/AbstractDoc.v (nearest Resources up the Parent chain, flattened to category / name).
   The code is the one after the repair of C11-resources-shadow (a page that only inherits gets a COPY of the inherited
   dictionary).  Not covered: add_xobject when the XObject entry of the resource dictionary is an indirect reference
   (the call then writes into a separate object; see notes/C11.md).

   Structure: a relation between the object map before and after ([mrel]: every object is unchanged, or is a dictionary
   that was "safely grown" [dg]); dereferencing, the walk up the Parent chain and the flattening are monotone for it;
   each write of the three calls is an instance. *)
From LV Require Import Base.Bytes Model.Obj Model.DocQ Model.PageTree Model.Traverse Model.Edit Gen.Consts
  Spec.AbstractDoc Proofs.RenumberProofsMap Proofs.EditProofs.
From LV Require Proofs.FilterProofsDict.

(* ---------- small facts on dictionaries ---------- *)
Definition kp (d d' : dict) : Prop := forall k, In k (map fst d) -> In k (map fst d').

Lemma dict_set_keeps d k v e : In e d -> In e (dict_set d k v) \/ (fst e = k /\ dict_get d k = Some (snd e)).
Proof.
  induction d as [|[k' v'] d IH]; cbn [dict_set dict_get In]; [tauto|].
  intros [<-|H]; cbn [fst snd].
  - destruct (bytes_eqb k' k) eqn:E; [right; apply bytes_eqb_eq in E; auto | left; left; reflexivity].
  - destruct (bytes_eqb k' k) eqn:E; [left; right; exact H|].
    destruct (IH H) as [H1|H1]; [left; right; exact H1 | right; exact H1].
Qed.

Lemma dict_set_in d k v : In (k, v) (dict_set d k v).
Proof.
  induction d as [|[k' v'] d IH]; cbn [dict_set]; [left; reflexivity|].
  destruct (bytes_eqb k' k) eqn:E; [apply bytes_eqb_eq in E; subst; left; reflexivity | right; exact IH].
Qed.

Lemma dict_set_kp d k v : kp d (dict_set d k v).
Proof.
  intros k0 H. apply in_map_iff in H. destruct H as [[k1 v1] [<- H]]. cbn [fst].
  destruct (dict_set_keeps d k v _ H) as [H1|[H1 _]].
  - apply in_map_iff. exists (k1, v1). split; [reflexivity | exact H1].
  - cbn [fst] in H1. subst. apply in_map_iff. exists (k, v). split; [reflexivity | apply dict_set_in].
Qed.

Lemma dict_get_some_in d k v : dict_get d k = Some v -> In (k, v) d.
Proof.
  induction d as [|[k' v'] d IH]; cbn [dict_get]; [discriminate|].
  destruct (bytes_eqb k' k) eqn:E; [|intro H; right; apply IH; exact H].
  apply bytes_eqb_eq in E. subst. intro H; inversion H; subst. left. reflexivity.
Qed.

Lemma dict_has_false d k : dict_has d k = false -> dict_get d k = None.
Proof. unfold dict_has. destruct (dict_get d k); [discriminate | reflexivity]. Qed.

Lemma dict_has_true d k : dict_has d k = true -> exists v, dict_get d k = Some v.
Proof. unfold dict_has. destruct (dict_get d k) as [v|]; [eauto | discriminate]. Qed.

Lemma deref_aux_dict m f last d : deref_aux m f last (ODict d) = Some (last, ODict d).
Proof. destruct f; reflexivity. Qed.

Lemma dereference_dict m d : dereference m (ODict d) = Some (None, ODict d).
Proof. apply deref_aux_dict. Qed.

Lemma res_le_some l1 l2 :
  (forall c n x, In (c, n, x) l1 -> exists x', In (c, n, x') l2) -> res_le (Some l1) (Some l2).
Proof. intro H. destruct l1; exact H. Qed.

Lemma res_le_nil r : res_le (Some []) r.
Proof. destruct r as [l|]; [|exact I]. apply res_le_some. intros c n x []. Qed.

(* ---------- the relation ---------- *)
(* a value of a resource dictionary (a category): unchanged, or a direct dictionary that kept its keys *)
Definition vg (v v' : obj) : Prop := v' = v \/ exists cd cd', v = ODict cd /\ v' = ODict cd' /\ kp cd cd'.
(* a resource dictionary: every entry is still there, its value unchanged or grown *)
Definition cg (d d' : dict) : Prop := forall c v, In (c, v) d -> exists v', In (c, v') d' /\ vg v v'.
(* a Resources value: unchanged, or a direct dictionary grown as a resource dictionary *)
Definition rg (r r' : obj) : Prop := r' = r \/ exists rd rd', r = ODict rd /\ r' = ODict rd' /\ cg rd rd'.
(* a dictionary object, whatever role it plays: Parent untouched, entries grown, an existing Resources value grown *)
Definition dg (d d' : dict) : Prop :=
  dict_get d' K_Parent = dict_get d K_Parent /\ cg d d' /\
  (forall r, dict_get d K_Resources = Some r -> exists r', dict_get d' K_Resources = Some r' /\ rg r r').

Lemma vg_refl v : vg v v. Proof. left. reflexivity. Qed.
Lemma cg_refl d : cg d d. Proof. intros c v H. exists v. split; [exact H | apply vg_refl]. Qed.
Lemma rg_refl r : rg r r. Proof. left. reflexivity. Qed.

Lemma cg_kp d d' : cg d d' -> kp d d'.
Proof.
  intros C k H. apply in_map_iff in H. destruct H as [[k1 v1] [<- H]]. destruct (C _ _ H) as [v' [H' _]].
  apply in_map_iff. exists (k1, v'). split; [reflexivity | exact H'].
Qed.

Section Rel.
  Variables m m' : objmap.
  (* the one dictionary that may GAIN a Resources entry (get_or_create_resources on a page that only inherits), and the
     dictionary it gains *)
  Variable pd0 : dict.
  Variable rd0 : dict.

  Definition gain (d d' : dict) : Prop :=
    dict_get d K_Resources = None ->
    dict_get d' K_Resources = None \/ (d = pd0 /\ dict_get d' K_Resources = Some (ODict rd0)).

  Definition orel (x x' : obj) : Prop := x' = x \/ exists d d', x = ODict d /\ x' = ODict d' /\ dg d d' /\ gain d d'.

  Hypothesis mrel : forall id,
    lookup m' id = lookup m id \/
    exists d d', lookup m id = Some (ODict d) /\ lookup m' id = Some (ODict d') /\ dg d d' /\ gain d d'.

  Lemma deref_rel : forall fuel last o,
    match deref_aux m fuel last o with
    | None => deref_aux m' fuel last o = None
    | Some (r, x) => exists x', deref_aux m' fuel last o = Some (r, x') /\ orel x x'
    end.
  Proof.
    induction fuel as [|f IH]; intros last o.
    - destruct o as [| | | | | | | | |i g]; cbn [deref_aux]; try (eexists; split; [reflexivity | left; reflexivity]).
      destruct (mrel (i, g)) as [E|[d [d' [E1 [E2 _]]]]].
      + rewrite E. destruct (lookup m (i, g)); reflexivity.
      + rewrite E1, E2. reflexivity.
    - destruct o as [| | | | | | | | |i g]; cbn [deref_aux]; try (eexists; split; [reflexivity | left; reflexivity]).
      destruct (mrel (i, g)) as [E|[d [d' [E1 [E2 [G1 G2]]]]]].
      + rewrite E. destruct (lookup m (i, g)) as [o1|]; [apply IH | reflexivity].
      + rewrite E1, E2. rewrite !deref_aux_dict. eexists. split; [reflexivity|]. right. exists d, d'. auto.
  Qed.

  Lemma dereference_rel o :
    match dereference m o with
    | None => dereference m' o = None
    | Some (r, x) => exists x', dereference m' o = Some (r, x') /\ orel x x'
    end.
  Proof. apply deref_rel. Qed.

  Definition npair (node node' : dict) : Prop := node' = node \/ (dg node node' /\ gain node node').

  Lemma get_dictionary_rel id :
    match get_dictionary m id with
    | None => get_dictionary m' id = None
    | Some nd => exists nd', get_dictionary m' id = Some nd' /\ npair nd nd'
    end.
  Proof.
    unfold get_dictionary, get_object.
    destruct (mrel id) as [E|[d [d' [E1 [E2 [G1 G2]]]]]].
    - rewrite E. destruct (lookup m id) as [o|]; [|reflexivity].
      pose proof (dereference_rel o) as H. destruct (dereference m o) as [[r x]|].
      + destruct H as [x' [H1 H2]]. rewrite H1. cbn [option_map snd].
        destruct H2 as [->|[d [d' [-> [-> [G1 G2]]]]]].
        * destruct x; try reflexivity. eexists. split; [reflexivity | left; reflexivity].
        * eexists. split; [reflexivity | right; auto].
      + rewrite H. reflexivity.
    - rewrite E1, E2. rewrite !dereference_dict. cbn [option_map snd]. eexists. split; [reflexivity | right; auto].
  Qed.

  (* what the gained dictionary is: the one the walk from pd0 finds *)
  Hypothesis rd0_spec : forall k r, (k <= length m)%nat -> nearest_resources k m pd0 = Some r ->
    forall l rd, dereference m r = Some (l, ODict rd) -> rd0 = rd.

  Lemma nearest_rel : forall k node node', npair node node' -> (k <= length m)%nat ->
    match nearest_resources k m node with
    | Some r => exists r', nearest_resources k m' node' = Some r' /\
                           (rg r r' \/ (r' = ODict rd0 /\ forall l rd, dereference m r = Some (l, ODict rd) -> rd0 = rd))
    | None => nearest_resources k m' node' = None \/ nearest_resources k m' node' = Some (ODict rd0)
    end.
  Proof.
    induction k as [|k IH]; intros node node' NP Hk.
    - cbn [nearest_resources]. change S_Resources with K_Resources.
      destruct (dict_get node K_Resources) as [r|] eqn:Er.
      + destruct NP as [->|[[_ [_ G3]] _]]; [rewrite Er; eexists; split; [reflexivity | left; apply rg_refl]|].
        destruct (G3 r Er) as [r' [E' R]]. rewrite E'. eexists. split; [reflexivity | left; exact R].
      + destruct NP as [->|[_ G]]; [rewrite Er; left; reflexivity|].
        destruct (G Er) as [E'|[_ E']]; rewrite E'; [left | right]; reflexivity.
    - cbn [nearest_resources]. change S_Resources with K_Resources.
      destruct (dict_get node K_Resources) as [r|] eqn:Er.
      + destruct NP as [->|[[_ [_ G3]] _]]; [rewrite Er; eexists; split; [reflexivity | left; apply rg_refl]|].
        destruct (G3 r Er) as [r' [E' R]]. rewrite E'. eexists. split; [reflexivity | left; exact R].
      + assert (Hpar : dict_get node' K_Parent = dict_get node K_Parent).
        { destruct NP as [->|[[G1 _] _]]; [reflexivity | exact G1]. }
        assert (Hres : dict_get node' K_Resources = None \/ (node = pd0 /\ dict_get node' K_Resources = Some (ODict rd0))).
        { destruct NP as [->|[_ G]]; [left; exact Er | exact (G Er)]. }
        destruct Hres as [E'|[Ep E']].
        * rewrite E', Hpar. destruct (dict_get node K_Parent) as [[| | | | | | | | |i g]|]; try (left; reflexivity).
          pose proof (get_dictionary_rel (i, g)) as Hg. destruct (get_dictionary m (i, g)) as [pn|].
          -- destruct Hg as [pn' [Eg NP']]. rewrite Eg. apply IH; [exact NP' | lia].
          -- rewrite Hg. left. reflexivity.
        * rewrite E'. subst node.
          pose proof (rd0_spec (S k)) as Hs. cbn [nearest_resources] in Hs. change S_Resources with K_Resources in Hs.
          rewrite Er in Hs.
          destruct (match dict_get pd0 K_Parent with
                    | Some (ORef i g) => match get_dictionary m (i, g) with
                                         | Some pd => nearest_resources k m pd
                                         | None => None
                                         end
                    | _ => None
                    end) as [r|] eqn:En.
          -- eexists. split; [reflexivity|]. right. split; [reflexivity|]. intros l rd Hd. eapply (Hs r Hk eq_refl); exact Hd.
          -- right. reflexivity.
  Qed.

  (* names persist through the flattening *)
  Lemma flatten_rel rd rd' : cg rd rd' ->
    forall c n x, In (c, n, x) (flatten_resources m rd) -> exists x', In (c, n, x') (flatten_resources m' rd').
  Proof.
    intros C c n x H. unfold flatten_resources in *. apply in_flat_map in H. destruct H as [[c0 v] [Hin He]]. cbn [fst snd] in He.
    destruct (C _ _ Hin) as [v' [Hin' V]].
    assert (G : exists x', In (c, n, x') (match dereference m' v' with
                                          | Some (_, ODict cd) => map (fun nx : bytes * obj => (c0, fst nx, snd nx)) cd
                                          | Some (_, y) => [(c0, [], y)]
                                          | None => []
                                          end)).
    { destruct V as [->|[cd [cd' [-> [-> K]]]]].
      - pose proof (dereference_rel v) as D. destruct (dereference m v) as [[l y]|]; [|destruct He].
        destruct D as [y' [D1 D2]]. rewrite D1. destruct D2 as [->|[d [d' [-> [-> [[_ [C2 _]] _]]]]]].
        + exists x. exact He.
        + apply in_map_iff in He. destruct He as [[n0 x0] [E0 H0]]. cbn [fst snd] in E0. inversion E0; subst.
          assert (Hk : In n (map fst d')) by (apply (cg_kp _ _ C2); apply in_map_iff; exists (n, x); split; [reflexivity | exact H0]).
          apply in_map_iff in Hk. destruct Hk as [[n1 x1] [E1 H1]]. cbn [fst] in E1. subst n1.
          exists x1. apply in_map_iff. exists (n, x1). split; [reflexivity | exact H1].
      - rewrite dereference_dict in He. rewrite dereference_dict.
        apply in_map_iff in He. destruct He as [[n0 x0] [E0 H0]]. cbn [fst snd] in E0. inversion E0; subst.
        assert (Hk : In n (map fst cd')) by (apply K; apply in_map_iff; exists (n, x); split; [reflexivity | exact H0]).
        apply in_map_iff in Hk. destruct Hk as [[n1 x1] [E1 H1]]. cbn [fst] in E1. subst n1.
        exists x1. apply in_map_iff. exists (n, x1). split; [reflexivity | exact H1]. }
    destruct G as [x' G]. exists x'. apply in_flat_map. exists (c0, v'). split; [exact Hin' | exact G].
  Qed.

  Hypothesis same_length : length m' = length m.

  Theorem resources_rel q : res_le (effective_resources m q) (effective_resources m' q).
  Proof.
    unfold effective_resources. rewrite same_length.
    pose proof (get_dictionary_rel q) as Hg. destruct (get_dictionary m q) as [qd|]; [|exact I].
    destruct Hg as [qd' [Eg NP]]. rewrite Eg.
    pose proof (nearest_rel (length m) qd qd' NP (le_n _)) as Hn.
    destruct (nearest_resources (length m) m qd) as [r|].
    - destruct Hn as [r' [En R]]. rewrite En.
      destruct (dereference m r) as [[l x]|] eqn:Ed; [|exact I].
      destruct x as [| | | | | | |rd| |]; try exact I.
      destruct R as [R|[-> Hr]].
      + destruct R as [->|[rd1 [rd1' [-> [-> C]]]]].
        * pose proof (dereference_rel r) as D. rewrite Ed in D. destruct D as [x' [D1 D2]]. rewrite D1.
          destruct D2 as [->|[d [d' [E1 [-> [[_ [C2 _]] _]]]]]].
          -- apply res_le_some. apply flatten_rel. apply cg_refl.
          -- inversion E1; subst. apply res_le_some. apply flatten_rel. exact C2.
        * rewrite dereference_dict in Ed. rewrite dereference_dict. inversion Ed; subst.
          apply res_le_some. apply flatten_rel. exact C.
      + rewrite (Hr l rd eq_refl).
        rewrite dereference_dict. apply res_le_some. apply flatten_rel. apply cg_refl.
    - destruct Hn as [En|En]; rewrite En.
      + apply res_le_nil.
      + apply res_le_nil.
  Qed.
End Rel.

(* ---------- res_le is a preorder on what matters ---------- *)
Lemma res_le_some_inv l1 l2 : res_le (Some l1) (Some l2) ->
  forall c n x, In (c, n, x) l1 -> exists x', In (c, n, x') l2.
Proof. intro H. destruct l1; [intros c n x [] | exact H]. Qed.

Lemma res_le_trans r1 r2 r3 : res_le r1 r2 -> res_le r2 r3 -> res_le r1 r3.
Proof.
  destruct r1 as [l1|]; [|intros; exact I]. destruct r2 as [l2|]; destruct r3 as [l3|].
  - intros H1 H2. apply res_le_some. intros c n x Hin.
    destruct (res_le_some_inv _ _ H1 _ _ _ Hin) as [x' H']. exact (res_le_some_inv _ _ H2 _ _ _ H').
  - intros H1 H2. destruct l2 as [|e2 l2]; [|destruct l1; contradiction].
    destruct l1 as [|[[c n] x] l1]; [exact I|].
    destruct (res_le_some_inv _ _ H1 c n x (or_introl eq_refl)) as [x' []].
  - intros H1 _. destruct l1 as [|e1 l1]; [apply res_le_nil | contradiction].
  - intros H1 _. exact H1.
Qed.

Lemma res_le_refl r : res_le r r.
Proof. destruct r as [l|]; [|exact I]. apply res_le_some. intros c n x H. exists x. exact H. Qed.

(* ---------- the code's walk (inherited_loop) finds what the specification's walk finds ---------- *)
Lemma inherited_is_nearest m : forall k node r,
  dict_get node K_Resources = None -> nearest_resources k m node = Some r ->
  forall k', (k <= k')%nat ->
  inherited_loop k' m node = match dereference m r with Some (_, ODict rd) => Some rd | _ => None end.
Proof.
  induction k as [|k IH]; intros node r En Hn k' Hk; cbn [nearest_resources] in Hn; change S_Resources with K_Resources in Hn;
    rewrite En in Hn; [discriminate|].
  destruct k' as [|k']; [lia|]. cbn [inherited_loop].
  destruct (dict_get node K_Parent) as [[| | | | | | | | |i g]|]; try discriminate. cbn [as_ref].
  destruct (get_dictionary m (i, g)) as [pn|]; [|discriminate].
  destruct (dict_get pn K_Resources) as [r0|] eqn:E0.
  - destruct k; cbn [nearest_resources] in Hn; change S_Resources with K_Resources in Hn; rewrite E0 in Hn; inversion Hn; subst; reflexivity.
  - apply (IH pn r E0 Hn). lia.
Qed.

(* ---------- update as an instance of the relation ---------- *)
Lemma mrel_update m t td td' pd0 rd0 :
  lookup m t = Some (ODict td) -> dg td td' -> gain pd0 rd0 td td' ->
  forall id, lookup (update m t (ODict td')) id = lookup m id \/
             exists d d', lookup m id = Some (ODict d) /\ lookup (update m t (ODict td')) id = Some (ODict d') /\
                          dg d d' /\ gain pd0 rd0 d d'.
Proof.
  intros L G1 G2 id. rewrite lookup_update. destruct (oid_eqb t id) eqn:E; [|left; reflexivity].
  apply oid_eqb_eq in E. subst id. rewrite L. right. exists td, td'. auto.
Qed.

Lemma length_update m t o : length (update m t o) = length m.
Proof. rewrite <- (map_length fst), keys_update, map_length. reflexivity. Qed.

Lemma gain_none pd0 rd0 d d' : (dict_get d K_Resources = None -> dict_get d' K_Resources = None) -> gain pd0 rd0 d d'.
Proof. intros H E. left. exact (H E). Qed.

(* one object rewritten by a safe growth that gains no Resources entry *)
Lemma step_safe m t td td' :
  lookup m t = Some (ODict td) -> dg td td' ->
  (dict_get td K_Resources = None -> dict_get td' K_Resources = None) ->
  forall q, res_le (effective_resources m q) (effective_resources (update m t (ODict td')) q).
Proof.
  intros L G1 G2 q.
  apply (resources_rel m (update m t (ODict td')) [] []).
  - apply (mrel_update m t td td' [] [] L G1). apply gain_none. exact G2.
  - intros k r _ Hn l rd _. exfalso.
    destruct k; cbn [nearest_resources] in Hn; discriminate.
  - apply length_update.
Qed.

(* ---------- the writes of add_resource as safe growths ---------- *)
Lemma K_XObject_neq : K_XObject <> K_Parent /\ K_XObject <> K_Resources.
Proof. split; intro H; discriminate H. Qed.
Lemma K_ExtGState_neq : K_ExtGState <> K_Parent /\ K_ExtGState <> K_Resources.
Proof. split; intro H; discriminate H. Qed.

(* setting a key that is absent *)
Lemma cg_set_absent d k v : dict_get d k = None -> cg d (dict_set d k v).
Proof.
  intros E c v0 H. exists v0. split; [|apply vg_refl].
  destruct (dict_set_keeps d k v _ H) as [H1|[_ H1]]; [exact H1|]. rewrite E in H1. discriminate.
Qed.

(* replacing a direct dictionary value by a dictionary that kept its keys *)
Lemma cg_set_grown d k xd xd' : dict_get d k = Some (ODict xd) -> kp xd xd' -> cg d (dict_set d k (ODict xd')).
Proof.
  intros E K c v0 H. destruct (dict_set_keeps d k (ODict xd') _ H) as [H1|[H1 H2]].
  - exists v0. split; [exact H1 | apply vg_refl].
  - cbn [fst snd] in *. subst c. rewrite E in H2. inversion H2; subst v0.
    exists (ODict xd'). split; [apply dict_set_in|]. right. exists xd, xd'. auto.
Qed.

(* a top-level key other than Parent / Resources *)
Lemma dg_top d d' k : k <> K_Parent -> k <> K_Resources -> cg d d' ->
  (forall k', k' <> k -> dict_get d' k' = dict_get d k') -> dg d d'.
Proof.
  intros H1 H2 C Ho. split; [apply Ho; congruence|]. split; [exact C|].
  intros r Er. exists r. split; [rewrite Ho by congruence; exact Er | apply rg_refl].
Qed.

(* the Resources entry itself, grown as a resource dictionary *)
Lemma dg_res td rd rd' : dict_get td K_Resources = Some (ODict rd) -> cg rd rd' ->
  dg td (dict_set td K_Resources (ODict rd')).
Proof.
  intros E C. split; [|split].
  - apply FilterProofsDict.dict_get_set_other. intro H; discriminate H.
  - intros c v0 H. destruct (dict_set_keeps td K_Resources (ODict rd') _ H) as [H1|[H1 H2]].
    + exists v0. split; [exact H1 | apply vg_refl].
    + cbn [fst snd] in *. subst c. rewrite E in H2. inversion H2; subst v0.
      exists (ODict rd'). split; [apply dict_set_in|]. right. exists rd, rd'. split; [reflexivity|]. split; [reflexivity|].
      apply cg_kp. exact C.
  - intros r Er. rewrite E in Er. inversion Er; subst r. exists (ODict rd').
    split; [apply FilterProofsDict.dict_get_set_same|]. right. exists rd, rd'. auto.
Qed.

(* writing [o'] where the resource dictionary [rd] of location [loc] was, when rd grew into rd' *)
Lemma loc_set_safe m loc rd rd' key :
  loc_get m loc = Some (ODict rd) -> cg rd rd' ->
  key <> K_Parent -> key <> K_Resources -> (forall k', k' <> key -> dict_get rd' k' = dict_get rd k') ->
  forall q, res_le (effective_resources m q) (effective_resources (loc_set m loc (ODict rd')) q).
Proof.
  intros L C N1 N2 Ho q. destruct loc as [t|t]; cbn [loc_get loc_set] in *.
  - apply (step_safe m t rd rd' L).
    + apply (dg_top rd rd' key); assumption.
    + intro E. rewrite Ho by congruence. exact E.
  - destruct (lookup m t) as [[| | | | | | |td| |]|] eqn:Lt; try discriminate.
    apply (step_safe m t td _ Lt).
    + apply (dg_res td rd rd'); assumption.
    + intro E. rewrite E in L. discriminate.
Qed.

Lemma loc_get_set m loc o o0 : loc_get m loc = Some o0 -> loc_get (loc_set m loc o) loc = Some o.
Proof.
  destruct loc as [t|t]; cbn [loc_get loc_set]; intro L.
  - rewrite lookup_update, oid_eqb_refl, L. reflexivity.
  - destruct (lookup m t) as [[| | | | | | |td| |]|] eqn:Lt; try discriminate.
    rewrite lookup_update, oid_eqb_refl, Lt. apply FilterProofsDict.dict_get_set_same.
Qed.

(* ---------- get_or_create_resources ---------- *)
Lemma deref_final m : forall fuel last o r x,
  deref_aux m fuel last o = Some (Some r, x) -> (last = Some r /\ x = o) \/ lookup m r = Some x.
Proof.
  induction fuel as [|f IH]; intros last o r x H.
  - destruct o as [| | | | | | | | |i g]; cbn [deref_aux] in H; try (inversion H; subst; left; split; reflexivity).
    destruct (lookup m (i, g)); discriminate.
  - destruct o as [| | | | | | | | |i g]; cbn [deref_aux] in H; try (inversion H; subst; left; split; reflexivity).
    destruct (lookup m (i, g)) as [o1|] eqn:L; [|discriminate].
    destruct (IH _ _ _ _ H) as [[E1 E2]|E]; [|right; exact E].
    inversion E1; subst. right. exact L.
Qed.

Lemma deref_some_last m : forall f l o r x, deref_aux m f (Some l) o = Some (r, x) -> r <> None.
Proof.
  induction f as [|f IH]; intros l o r x H; destruct o as [| | | | | | | | |i g]; cbn [deref_aux] in H;
    try (inversion H; subst; discriminate).
  - destruct (lookup m (i, g)); discriminate.
  - destruct (lookup m (i, g)) as [o1|]; [|discriminate]. eapply IH; exact H.
Qed.

Lemma deref_none_last m f o x : deref_aux m f None o = Some (None, x) -> x = o.
Proof.
  intro H. destruct f; destruct o as [| | | | | | | | |i g]; cbn [deref_aux] in H; try (inversion H; reflexivity).
  - destruct (lookup m (i, g)); discriminate.
  - destruct (lookup m (i, g)) as [o1|]; [|discriminate]. exfalso. exact (deref_some_last _ _ _ _ _ _ H eq_refl).
Qed.

(* the object get_object_mut points at is the one get_object reads *)
Lemma get_object_mut_agrees m id o t :
  get_object m id = Some o -> get_object_mut_id m id = Some t -> lookup m t = Some o.
Proof.
  unfold get_object, get_object_mut_id. destruct (lookup m id) as [o0|] eqn:L; [|discriminate].
  unfold dereference. destruct (deref_aux m (N.to_nat DEREF_LIMIT) None o0) as [[[r|] x]|] eqn:D; cbn [option_map snd]; try discriminate.
  - intros H1 H2. inversion H1; inversion H2; subst.
    destruct (deref_final _ _ _ _ _ _ D) as [[E _]|E]; [discriminate | exact E].
  - intros H1 H2. apply deref_none_last in D. inversion H1; inversion H2; subst. exact L.
Qed.

(* I_resources for get_or_create_resources (this is where C11-resources-shadow was) *)
Theorem gocr_resources d page d' loc :
  get_or_create_resources d page = (d', loc) ->
  forall q, res_le (effective_resources (d_objects d) q) (effective_resources (d_objects d') q).
Proof.
  unfold get_or_create_resources. set (m := d_objects d).
  destruct (get_object m page) as [[| | | | | | |pd| |]|] eqn:Eg; try (intro H; inversion H; subst; intro q; apply res_le_refl).
  destruct (if dict_has pd K_Resources then as_ref (dict_get pd K_Resources) else None);
    [intro H; inversion H; subst; intro q; apply res_le_refl|].
  destruct (get_object_mut_id m page) as [t|] eqn:Et; [|intro H; inversion H; subst; intro q; apply res_le_refl].
  pose proof (get_object_mut_agrees m page _ t Eg Et) as Lt. rewrite Lt.
  intro H; inversion H; subst d' loc; clear H. cbn [d_objects with_objs]. intro q.
  destruct (dict_has pd K_Resources) eqn:Eh.
  - (* the entry exists: nothing changes *)
    apply (step_safe m t pd pd Lt).
    + split; [reflexivity|]. split; [apply cg_refl|]. intros r Er. exists r. split; [exact Er | apply rg_refl].
    + auto.
  - (* the page only inherits: it gets a copy of what it inherits *)
    apply dict_has_false in Eh.
    apply (resources_rel m _ pd (initial_resources m pd)).
    + apply (mrel_update m t pd _ pd (initial_resources m pd) Lt).
      * split; [apply FilterProofsDict.dict_get_set_other; intro Hk; discriminate Hk|].
        split; [apply cg_set_absent; exact Eh|]. intros r Er. rewrite Eh in Er. discriminate.
      * intros _. right. split; [reflexivity | apply FilterProofsDict.dict_get_set_same].
    + intros k r Hk Hn l rd Hd. unfold initial_resources, inherited_resources.
      rewrite (inherited_is_nearest m k pd r Eh Hn (length m) Hk), Hd. reflexivity.
    + apply length_update.
Qed.

(* ---------- add_graphics_state / add_xobject ---------- *)
Definition category_indirect (d : doc) (page : oid) (key : bytes) : Prop :=
  let '(d1, loc) := get_or_create_resources d page in
  match loc with
  | Some l => match loc_get (d_objects d1) l with
              | Some (ODict rd) => exists i g, dict_get rd key = Some (ORef i g)
              | _ => False
              end
  | None => False
  end.

Theorem add_resource_resources follow key d page nm x d' r :
  key <> K_Parent -> key <> K_Resources ->
  (follow = true -> ~ category_indirect d page key) ->
  add_resource follow key d page nm x = (d', r) ->
  forall q, res_le (effective_resources (d_objects d) q) (effective_resources (d_objects d') q).
Proof.
  intros N1 N2 Hind. unfold add_resource, category_indirect in *.
  destruct (get_or_create_resources d page) as [d1 loc] eqn:Eg.
  pose proof (gocr_resources d page d1 loc Eg) as S1.
  destruct loc as [loc|]; [|intro H; injection H as <- _; exact S1].
  assert (Same1 : forall r0, (d1, r0) = (d', r) ->
                  forall q, res_le (effective_resources (d_objects d) q) (effective_resources (d_objects d') q)).
  { intros r0 H. injection H as <- _. exact S1. }
  destruct (loc_get (d_objects d1) loc) as [[| | | | | | |rd| |]|] eqn:El;
    [apply Same1 | apply Same1 | apply Same1 | apply Same1 | apply Same1 | apply Same1 | apply Same1 | | apply Same1 | apply Same1 | apply Same1].
  set (m1 := d_objects d1) in *.
  set (rd1 := if dict_has rd key then rd else dict_set rd key (ODict [])).
  set (m2 := loc_set m1 loc (ODict rd1)).
  assert (C1 : cg rd rd1 /\ (forall k', k' <> key -> dict_get rd1 k' = dict_get rd k')).
  { unfold rd1. destruct (dict_has rd key) eqn:Eh; [split; [apply cg_refl | reflexivity]|].
    split; [apply cg_set_absent; apply dict_has_false; exact Eh|].
    intros k' Hk. apply FilterProofsDict.dict_get_set_other. exact Hk. }
  destruct C1 as [C1 O1].
  assert (S2 : forall q, res_le (effective_resources (d_objects d) q) (effective_resources m2 q)).
  { intro q. eapply res_le_trans; [apply S1|]. apply (loc_set_safe m1 loc rd rd1 key El C1 N1 N2 O1). }
  assert (El2 : loc_get m2 loc = Some (ODict rd1)) by (eapply loc_get_set; exact El).
  assert (Same : forall r0, (with_objs d1 m2, r0) = (d', r) ->
                 forall q, res_le (effective_resources (d_objects d) q) (effective_resources (d_objects d') q)).
  { intros r0 H. injection H as <- _. exact S2. }
  destruct (dict_get rd1 key) as [[| | | | | | |xd| |i g]|] eqn:Ek;
    [apply Same | apply Same | apply Same | apply Same | apply Same | apply Same | apply Same | | apply Same | | apply Same].
  - (* the category is a direct dictionary: the name goes into it *)
    intro H; injection H as <- _. cbn [d_objects with_objs]. intro q.
    eapply res_le_trans; [apply S2|].
    apply (loc_set_safe m2 loc rd1 _ key El2).
    + apply (cg_set_grown rd1 key xd); [exact Ek | apply dict_set_kp].
    + exact N1.
    + exact N2.
    + intros k' Hk. apply FilterProofsDict.dict_get_set_other. exact Hk.
  - (* the category is a reference *)
    destruct follow; [|apply Same].
    exfalso. apply (Hind eq_refl). exists i, g.
    unfold rd1 in Ek. destruct (dict_has rd key) eqn:Eh; [exact Ek|].
    rewrite FilterProofsDict.dict_get_set_same in Ek. discriminate.
Qed.

(* add_graphics_state never follows a reference: no restriction at all *)
Theorem add_graphics_state_resources d page nm g d' r :
  add_graphics_state d page nm g = (d', r) ->
  forall q, res_le (effective_resources (d_objects d) q) (effective_resources (d_objects d') q).
Proof.
  apply add_resource_resources; try (intro H; discriminate H).
Qed.

Theorem add_xobject_resources_partial d page nm x d' r :
  ~ category_indirect d page K_XObject ->
  add_xobject d page nm x = (d', r) ->
  forall q, res_le (effective_resources (d_objects d) q) (effective_resources (d_objects d') q).
Proof.
  intro H. apply add_resource_resources; try (intro H0; discriminate H0). intros _. exact H.
Qed.

(* ---------- frames of the resource operations: at most two objects change, nothing is added or removed ---------- *)
Definition touches_at_most (m m' : objmap) (t1 t2 : oid) : Prop :=
  map fst m' = map fst m /\ forall y, y <> t1 -> y <> t2 -> lookup m' y = lookup m y.

Lemma touches_refl m t1 t2 : touches_at_most m m t1 t2.
Proof. split; reflexivity. Qed.

Lemma touches_update m m1 t1 t2 o : touches_at_most m m1 t1 t2 -> touches_at_most m (update m1 t1 o) t1 t2.
Proof.
  intros [K L]. split; [rewrite keys_update; exact K|]. intros y H1 H2. rewrite lookup_update.
  replace (oid_eqb t1 y) with false; [apply L; assumption|]. symmetry. apply oid_eqb_neq. congruence.
Qed.

Lemma touches_update2 m m1 t1 t2 o : touches_at_most m m1 t1 t2 -> touches_at_most m (update m1 t2 o) t1 t2.
Proof.
  intros [K L]. split; [rewrite keys_update; exact K|]. intros y H1 H2. rewrite lookup_update.
  replace (oid_eqb t2 y) with false; [apply L; assumption|]. symmetry. apply oid_eqb_neq. congruence.
Qed.

Definition loc_id (l : res_loc) : oid := match l with RLObj t => t | RLEntry t => t end.

Lemma touches_loc_set m m1 l t2 o : touches_at_most m m1 (loc_id l) t2 -> touches_at_most m (loc_set m1 l o) (loc_id l) t2.
Proof.
  intro H. destruct l as [t|t]; cbn [loc_set loc_id] in *; [apply touches_update; exact H|].
  destruct (lookup m1 t) as [[| | | | | | |td| |]|]; try exact H. apply touches_update. exact H.
Qed.

Lemma gocr_frame d page d' loc :
  get_or_create_resources d page = (d', loc) ->
  d_trailer d' = d_trailer d /\ d_max_id d' = d_max_id d /\
  forall t2, match loc with
             | Some l => touches_at_most (d_objects d) (d_objects d') (loc_id l) t2
             | None => d_objects d' = d_objects d
             end.
Proof.
  unfold get_or_create_resources.
  assert (Nop : (d, @None res_loc) = (d', loc) ->
            d_trailer d' = d_trailer d /\ d_max_id d' = d_max_id d /\
            forall t2 : oid, match loc with
                             | Some l => touches_at_most (d_objects d) (d_objects d') (loc_id l) t2
                             | None => d_objects d' = d_objects d
                             end).
  { intro H. injection H as <- <-. auto. }
  destruct (get_object (d_objects d) page) as [[| | | | | | |pd| |]|]; try exact Nop.
  destruct (if dict_has pd K_Resources then as_ref (dict_get pd K_Resources) else None) as [rid|].
  - intro H. injection H as <- <-. split; [reflexivity|]. split; [reflexivity|]. intro t2.
    destruct (get_object_mut_id (d_objects d) rid); cbn [option_map]; [apply touches_refl | reflexivity].
  - destruct (get_object_mut_id (d_objects d) page) as [t|]; [|exact Nop].
    destruct (lookup (d_objects d) t) as [[| | | | | | |td| |]|]; try exact Nop.
    intro H. injection H as <- <-. split; [reflexivity|]. split; [reflexivity|]. intro t2. cbn [loc_id d_objects with_objs].
    apply touches_update. apply touches_refl.
Qed.

Theorem add_resource_frame follow key d page nm x d' r :
  add_resource follow key d page nm x = (d', r) ->
  d_trailer d' = d_trailer d /\ d_max_id d' = d_max_id d /\
  exists t1 t2, touches_at_most (d_objects d) (d_objects d') t1 t2.
Proof.
  unfold add_resource. destruct (get_or_create_resources d page) as [d1 loc] eqn:Eg.
  destruct (gocr_frame d page d1 loc Eg) as [T1 [M1 F1]].
  destruct loc as [loc|].
  2:{ intro H; injection H as <- _. split; [exact T1|]. split; [exact M1|]. exists page, page. rewrite (F1 page). apply touches_refl. }
  assert (Base : forall (t2 : oid) (r0 : out), (d1, r0) = (d', r) ->
            d_trailer d' = d_trailer d /\ d_max_id d' = d_max_id d /\ exists t1 t2, touches_at_most (d_objects d) (d_objects d') t1 t2).
  { intros t2 r0 H. injection H as <- _. split; [exact T1|]. split; [exact M1|]. exists (loc_id loc), t2. apply F1. }
  destruct (loc_get (d_objects d1) loc) as [[| | | | | | |rd| |]|];
    [apply (Base page) | apply (Base page) | apply (Base page) | apply (Base page) | apply (Base page) | apply (Base page)
     | apply (Base page) | | apply (Base page) | apply (Base page) | apply (Base page)].
  set (rd1 := if dict_has rd key then rd else dict_set rd key (ODict [])).
  assert (Two : forall (t2 : oid) (m3 : objmap) (r0 : out), touches_at_most (d_objects d) m3 (loc_id loc) t2 -> (with_objs d1 m3, r0) = (d', r) ->
            d_trailer d' = d_trailer d /\ d_max_id d' = d_max_id d /\ exists t1 t2, touches_at_most (d_objects d) (d_objects d') t1 t2).
  { intros t2 m3 r0 Ht H. injection H as <- _. split; [exact T1|]. split; [exact M1|]. exists (loc_id loc), t2. exact Ht. }
  pose proof (fun t2 => touches_loc_set (d_objects d) (d_objects d1) loc t2 (ODict rd1) (F1 t2)) as F2.
  destruct (dict_get rd1 key) as [[| | | | | | |xd| |i g]|];
    [apply (Two page _ _ (F2 page)) | apply (Two page _ _ (F2 page)) | apply (Two page _ _ (F2 page)) | apply (Two page _ _ (F2 page))
     | apply (Two page _ _ (F2 page)) | apply (Two page _ _ (F2 page)) | apply (Two page _ _ (F2 page)) |
     | apply (Two page _ _ (F2 page)) | | apply (Two page _ _ (F2 page))].
  - apply (Two page). apply touches_loc_set. apply F2.
  - destruct follow; [|apply (Two page _ _ (F2 page))].
    destruct (get_object _ (i, g)); [|apply (Two page _ _ (F2 page))].
    destruct (get_object_mut_id _ (i, g)) as [t|]; [|apply (Two page _ _ (F2 page))].
    destruct (lookup _ t) as [[| | | | | | |xd| |]|];
      [apply (Two page _ _ (F2 page)) | apply (Two page _ _ (F2 page)) | apply (Two page _ _ (F2 page)) | apply (Two page _ _ (F2 page))
       | apply (Two page _ _ (F2 page)) | apply (Two page _ _ (F2 page)) | apply (Two page _ _ (F2 page)) |
       | apply (Two page _ _ (F2 page)) | apply (Two page _ _ (F2 page)) | apply (Two page _ _ (F2 page))].
    apply (Two t). apply touches_update2. apply F2.
Qed.
