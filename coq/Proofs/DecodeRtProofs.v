(* DecodeRtProofs.v -- C14, second sentence of the property: content decoded from ANY byte string,
   encoded again, decodes to the same operations.

   The model keeps a real as its decimal text (DESIGN 3).  Rust holds an f32: a real parsed from an
   arbitrary spelling ("+1.50", ".5", "5.") is printed by Content::encode in the Display form of the
   f32 ("1.5", "0.5", "5").  This step is a function [canon : text -> text] (Display o from_str)
   specified by the float assumptions of DESIGN 3, written out in [canon_spec]:
     canon_shape  the output for a source spelling that does not overflow f32 has the Display shape
                  of a finite f32 (-?digits(.digits)?),
     canon_idem   from_str (to_string x) = x, and "r.0" denotes the same f32 as "r": printing, writing
                  (with ".0" appended when the text has no point), reading and printing again gives
                  the same text.
   [canon_exact] (exact decimal canonicalisation: an f32 of unbounded precision) satisfies the
   specification, so the hypotheses are consistent; the real f32 behaviour is validated on the crate
   by the (real ...) cases of props/c14.py.

   A source spelling whose value rounds to an infinite f32 (integer part >= 2^128 - 2^103) is the
   open known finding C14-real-overflow: it decodes to Real(inf), which is encoded as "inf". *)
From LV Require Import Base.Bytes Base.Sx Model.Obj Model.Writer Model.Parser Gen.Lex
  Proofs.LexProofs Proofs.LitStringProofs Proofs.RealProofs Proofs.ObjectRtProofs Proofs.ContentProofs
  Proofs.ParserSoundProofs.
From Coq Require Import ZifyBool ZifyN ZifyNat.
Local Open Scope N_scope.

(* ---------- overflow, pointed spelling ---------- *)

(* [real_int_val], [F32_INF_FROM], [real_overflow] are in Model/Parser.v: a source real overflows f32
   when its integer digits denote at least f32::MAX + half an ulp *)
Lemma F32_INF_FROM_eq : F32_INF_FROM = 2 ^ 128 - 2 ^ 103.
Proof. vm_compute. reflexivity. Qed.

(* how write_real spells a Display text so that it is read back as a real: ".0" when there is no point *)
Definition pointed (r : bytes) : bytes :=
  let '(_, t) := strip_minus r in if forallb is_dec_digit t then r ++ [x2e; x30] else r.

Lemma norm_real_pointed r : (exists z, norm_real r = OInt z) \/ norm_real r = OReal (pointed r).
Proof.
  unfold norm_real, pointed. destruct (strip_minus r) as [neg t]. destruct (forallb is_dec_digit t).
  - destruct (_ <=? _); [right; reflexivity|left; eauto].
  - right. reflexivity.
Qed.

(* ---------- "the same operations (an integral real may return as an integer)" ---------- *)

Definition intnorm_real (r : bytes) : obj := match norm_real r with OInt z => OInt z | _ => OReal r end.

Fixpoint intnorm_obj (o : obj) : obj :=
  match o with
  | OReal r => intnorm_real r
  | OArr l => OArr (map intnorm_obj l)
  | ODict d => ODict (map (fun kv => (fst kv, intnorm_obj (snd kv))) d)
  | OStream d c => OStream (map (fun kv => (fst kv, intnorm_obj (snd kv))) d) c
  | _ => o
  end.
Definition intnorm_op (op : operation) : operation :=
  {| op_operator := op_operator op; op_operands := map intnorm_obj (op_operands op) |}.

Fixpoint overflow_obj (o : obj) : bool :=
  match o with
  | OReal t => real_overflow t
  | OArr l => existsb overflow_obj l
  | ODict d => existsb (fun kv => overflow_obj (snd kv)) d
  | OStream d _ => existsb (fun kv => overflow_obj (snd kv)) d
  | _ => false
  end.

(* ---------- what remains outside the theorem (decidable on the decoded operations) ---------- *)

(* OPEN known finding C14-keyword-residual: an operator that IS a keyword, or a lone BI: returned only
   for a malformed token such as "null1" / "BI1" / "true" + 0xFF (keyword glued to a regular byte that
   is no operator character: the keyword parsers of 93a8a25 refuse it, the operator parser takes it);
   the re-encoded text is the keyword itself, which reads back as an operand (BI: as the beginning of
   an inline image) *)
Definition kw_residual (op : operation) : bool :=
  keyword_op (op_operator op) ||
  (match op_operands op with [] => true | _ => false end && bytes_eqb K_BI (op_operator op)).

(* open known finding C14-real-overflow *)
Definition overflow_op (op : operation) : bool := existsb overflow_obj (op_operands op).

(* Rust: a Vec holds at most isize::MAX bytes (so the Length entry of an inline image is an i64) *)
Definition image_fits (op : operation) : bool :=
  match op_operands op with [OStream _ c] => (Z.of_nat (length c) <=? i64_max)%Z | _ => true end.

Definition known_dec (op : operation) : bool := kw_residual op || overflow_op op || negb (image_fits op).

(* the same class as a decidable predicate on the INPUT bytes: some operation the input decodes to is
   in [known_dec].  props/c14.py [classify] mirrors it (keyword residual: on the first decode of the
   extracted model, which is [decode_content bs], together with the necessary condition on the bytes
   "null / true / false / BI followed by a regular byte that is no operator character"; overflow: a
   numeral with a point whose integer digits reach F32_INF_FROM) *)
Definition known_input (bs : bytes) : bool :=
  match decode_content bs with DecOk ops => existsb known_dec ops | _ => false end.

(* ---------- generic facts about maps over dictionary values ---------- *)

Definition map_vals (f : obj -> obj) (d : dict) : dict := map (fun kv => (fst kv, f (snd kv))) d.

Lemma dict_get_map f d k : dict_get (map_vals f d) k = option_map f (dict_get d k).
Proof.
  induction d as [|[k' v] d IH]; [reflexivity|]. cbn [map_vals map dict_get fst snd].
  destruct (bytes_eqb k' k); [reflexivity|exact IH].
Qed.

Lemma get_abbr_map f d a k : get_abbr (map_vals f d) a k = option_map f (get_abbr d a k).
Proof. unfold get_abbr. rewrite !dict_get_map. destruct (dict_get d a); reflexivity. Qed.

Lemma map_vals_keys f d : map fst (map_vals f d) = map fst d.
Proof. unfold map_vals. rewrite map_map. reflexivity. Qed.

Lemma img_len_map f d len :
  (forall z, f (OInt z) = OInt z) -> (forall n, f (OName n) = OName n) ->
  img_len d = Some len -> img_len (map_vals f d) = Some len.
Proof.
  intros Hi Hn. unfold img_len. rewrite !get_abbr_map.
  destruct (get_abbr d (bs "W") (bs "Width")) as [[]|]; cbn [option_map]; try discriminate. rewrite Hi.
  destruct (get_abbr d (bs "H") (bs "Height")) as [[]|]; cbn [option_map]; try discriminate. rewrite Hi.
  destruct (get_abbr d (bs "BPC") (bs "BitsPerComponent")) as [[]|]; cbn [option_map]; try discriminate. rewrite Hi.
  destruct (get_abbr d (bs "CS") (bs "ColorSpace")) as [[]|]; cbn [option_map]; try discriminate. rewrite Hn.
  destruct (get_abbr d (bs "F") (bs "Filter")); cbn [option_map]; intro H; exact H.
Qed.

Lemma nest_map_eq (f : obj -> obj) l :
  Forall (fun x => nest (f x) = nest x) l -> nest_list (map f l) = nest_list l.
Proof. induction 1 as [|x l Hx Hl IH]; [reflexivity|]. cbn [map nest_list fold_right]. unfold nest_list in IH. rewrite Hx, IH. reflexivity. Qed.
Lemma nest_map_vals_eq (f : obj -> obj) d :
  Forall (fun kv => nest (f (snd kv)) = nest (snd kv)) d -> nest_dict (map_vals f d) = nest_dict d.
Proof.
  induction 1 as [|x l Hx Hl IH]; [reflexivity|]. cbn [map_vals map nest_dict fold_right snd].
  unfold nest_dict, map_vals in IH. rewrite Hx, IH. reflexivity.
Qed.

(* ---------- the theorem, for any canonicalisation function satisfying the float assumptions ---------- *)

Record canon_spec (canon : bytes -> bytes) : Prop := {
  canon_shape : forall t, real_src t -> real_overflow t = false -> real_wf (canon t);
  canon_idem : forall t, real_src t -> real_overflow t = false -> canon (pointed (canon t)) = canon t
}.

Section Canon.
  Variable canon : bytes -> bytes.
  Hypothesis HC : canon_spec canon.

  (* the value Rust holds for a decoded object, as the text it prints *)
  Fixpoint canon_obj (o : obj) : obj :=
    match o with
    | OReal t => OReal (canon t)
    | OArr l => OArr (map canon_obj l)
    | ODict d => ODict (map (fun kv => (fst kv, canon_obj (snd kv))) d)
    | OStream d c => OStream (map (fun kv => (fst kv, canon_obj (snd kv))) d) c
    | _ => o
    end.
  Definition canon_op (op : operation) : operation :=
    {| op_operator := op_operator op; op_operands := map canon_obj (op_operands op) |}.

  Lemma canon_nest o : nest (canon_obj o) = nest o.
  Proof.
    induction o as [|b|z|r|n|s h|l Hl|d Hd|d c Hd|i g] using obj_rt_ind; try reflexivity.
    - cbn [canon_obj nest]. fold (nest_list (map canon_obj l)). fold (nest_list l).
      rewrite (nest_map_eq canon_obj l Hl). reflexivity.
    - cbn [canon_obj nest]. fold (map_vals canon_obj d). fold (nest_dict (map_vals canon_obj d)). fold (nest_dict d).
      rewrite (nest_map_vals_eq canon_obj d Hd). reflexivity.
    - cbn [canon_obj nest]. fold (map_vals canon_obj d). fold (nest_dict (map_vals canon_obj d)). fold (nest_dict d).
      rewrite (nest_map_vals_eq canon_obj d Hd). reflexivity.
  Qed.

  (* a parsed value without overflowing reals becomes a well-formed object of the data model *)
  Lemma canon_wf o : pv o -> overflow_obj o = false -> obj_wf (canon_obj o).
  Proof.
    induction o as [|b|z|r|n|s h|l Hl|d Hd|d c Hd|i g] using obj_rt_ind; intros Hp Ho; inversion Hp; subst;
      cbn [canon_obj]; try (constructor; assumption).
    - constructor. apply (canon_shape _ HC); assumption.
    - constructor. cbn [overflow_obj] in Ho. clear Hp.
      induction Hl as [|x l Hx Hl IH]; [constructor|]. inversion H0; subst.
      cbn [existsb] in Ho. apply orb_false_iff in Ho as [Ho1 Ho2]. cbn [map]. constructor; auto.
    - fold (map_vals canon_obj d). constructor; [rewrite map_vals_keys; assumption|].
      cbn [overflow_obj] in Ho. clear Hp H0.
      induction Hd as [|[k x] d Hx Hd IH]; [constructor|]. inversion H1; subst. cbn [snd] in *.
      cbn [existsb snd] in Ho. apply orb_false_iff in Ho as [Ho1 Ho2]. cbn [map_vals map]. constructor; cbn [snd fst]; auto.
  Qed.

  Lemma canon_ref_ok o : pv o -> ref_ok false o -> ref_ok false (canon_obj o).
  Proof. intros Hp Hr. destruct o; try exact I. exact Hr. Qed.

  (* a second cycle: what is read back (norm_obj), held by Rust (canon_obj), is the value before
     encoding up to "an integral real below 2^63 is now an integer" *)
  Lemma canon_norm_canon o : pv o -> overflow_obj o = false ->
    canon_obj (norm_obj (canon_obj o)) = intnorm_obj (canon_obj o).
  Proof.
    induction o as [|b|z|r|n|s h|l Hl|d Hd|d c Hd|i g] using obj_rt_ind; intros Hp Ho; inversion Hp; subst;
      cbn [canon_obj norm_obj intnorm_obj]; try reflexivity.
    - cbn [overflow_obj] in Ho. unfold intnorm_real.
      destruct (norm_real_pointed (canon r)) as [[z E]|E]; rewrite E; [reflexivity|].
      cbn [canon_obj]. rewrite (canon_idem _ HC r H0 Ho). reflexivity.
    - f_equal. cbn [overflow_obj] in Ho. clear Hp.
      induction Hl as [|x l Hx Hl IH]; [reflexivity|]. inversion H0; subst.
      cbn [existsb] in Ho. apply orb_false_iff in Ho as [Ho1 Ho2]. cbn [map]. rewrite Hx, IH by assumption. reflexivity.
    - f_equal. cbn [overflow_obj] in Ho. clear Hp H0.
      induction Hd as [|[k x] d Hx Hd IH]; [reflexivity|]. inversion H1; subst. cbn [snd] in *.
      cbn [existsb snd] in Ho. apply orb_false_iff in Ho as [Ho1 Ho2]. cbn [map fst snd]. rewrite Hx, IH by assumption. reflexivity.
  Qed.

  Lemma pv_not_stream o : pv o -> norm_operand (canon_obj o) = norm_obj (canon_obj o).
  Proof. intro H. destruct H; reflexivity. Qed.

  Lemma max_depth_pos : MAX_DEPTH = S (pred MAX_DEPTH).
  Proof. reflexivity. Qed.

  (* one decoded operation *)
  Lemma op_dec_dom op : op_dec op -> known_dec op = false ->
    op_dom (canon_op op) /\ known_class (canon_op op) = false /\
    canon_op (norm_op (canon_op op)) = intnorm_op (canon_op op).
  Proof.
    intros [Ha Hd] Hk. unfold known_dec in Hk. apply orb_false_iff in Hk as [Hk Hfit].
    apply orb_false_iff in Hk as [Hkw Hov]. apply negb_false_iff in Hfit.
    unfold kw_residual in Hkw. apply orb_false_iff in Hkw as [Hkw Hbi]. unfold overflow_op in Hov.
    destruct op as [oper operands]. cbn [op_operator op_operands] in *.
    destruct Hd as [Hp|Hi].
    - (* plain operation *)
      assert (Hov' : forall o, In o operands -> overflow_obj o = false).
      { intros o Ho. destruct (overflow_obj o) eqn:E; [|reflexivity].
        assert (existsb overflow_obj operands = true) by (apply existsb_exists; eauto). congruence. }
      rewrite Forall_forall in Hp. split; [|split].
      + split; [exact Ha|]. left. unfold canon_op. cbn [op_operator op_operands]. split; [exact Hkw|]. split.
        * rewrite Forall_forall. intros o' Ho'. apply in_map_iff in Ho' as [o [<- Ho]].
          destruct (Hp o Ho) as [A [B C]]. split; [apply canon_wf; auto|apply canon_ref_ok; assumption].
        * intro E. destruct operands; [exact Hbi|discriminate].
      + unfold known_class, too_deep_op, canon_op. cbn [op_operands].
        destruct (existsb (fun o => Nat.ltb MAX_DEPTH (nest o)) (map canon_obj operands)) eqn:E; [|reflexivity].
        apply existsb_exists in E as [o' [Ho' E]].
        apply in_map_iff in Ho' as [o [<- Ho]]. rewrite canon_nest in E. destruct (Hp o Ho) as [_ [_ C]].
        apply Nat.ltb_lt in E. lia.
      + unfold canon_op, norm_op, intnorm_op. cbn [op_operator op_operands]. f_equal.
        rewrite !map_map. apply map_ext_in. intros o Ho. destruct (Hp o Ho) as [A _].
        rewrite (pv_not_stream o A). apply canon_norm_canon; auto.
    - (* inline image *)
      destruct Hi as [Hop [d [c [Hops [Hnd [Hv [Hl Hg]]]]]]]. cbn [op_operator op_operands] in *. subst oper operands.
      cbn [image_fits op_operands] in Hfit. cbn [existsb overflow_obj] in Hov. rewrite orb_false_r in Hov.
      assert (Hpv : Forall (fun kv => pvd (pred MAX_DEPTH) (snd kv)) d).
      { eapply Forall_impl; [|exact Hv]. intros kv [A|A]; [exact A|]. rewrite A. split; [|cbn; lia].
        constructor. unfold in_i64, i64_min. apply andb_true_iff. split; [lia|exact Hfit]. }
      assert (Hov' : forall kv, In kv d -> overflow_obj (snd kv) = false).
      { intros kv Hkv. destruct (overflow_obj (snd kv)) eqn:E; [|reflexivity].
        assert (existsb (fun kv => overflow_obj (snd kv)) d = true) by (apply existsb_exists; eauto). congruence. }
      rewrite Forall_forall in Hpv.
      unfold canon_op. cbn [op_operator op_operands map canon_obj]. fold (map_vals canon_obj d).
      assert (Hlen : img_len (norm_dict (map_vals canon_obj d)) = Some (N.of_nat (length c))).
      { unfold norm_dict. fold (map_vals norm_obj (map_vals canon_obj d)).
        apply img_len_map; [reflexivity|reflexivity|]. apply img_len_map; [reflexivity|reflexivity|exact Hl]. }
      split; [|split].
      + split; [reflexivity|]. right. split; [reflexivity|]. exists (map_vals canon_obj d), c. cbn [op_operands].
        split; [reflexivity|]. split; [rewrite map_vals_keys; exact Hnd|]. split; [|exact Hlen].
        rewrite Forall_forall. intros kv' Hkv'. apply in_map_iff in Hkv' as [kv [<- Hkv]]. cbn [snd].
        apply canon_wf; [apply (Hpv kv Hkv)|apply Hov'; exact Hkv].
      + unfold known_class, too_deep_op. cbn [op_operands existsb]. rewrite orb_false_r.
        apply Nat.ltb_ge. change (OStream (map_vals canon_obj d) c) with (canon_obj (OStream d c)).
        rewrite canon_nest. cbn [nest]. fold (nest_dict d). rewrite max_depth_pos. apply le_n_S, nest_dict_bound.
        rewrite Forall_forall. intros kv Hkv. apply (Hpv kv Hkv).
      + unfold norm_op, intnorm_op. cbn [op_operator op_operands map norm_operand intnorm_obj].
        fold (map_vals intnorm_obj (map_vals canon_obj d)). unfold stream_new.
        assert (Hg' : dict_get (norm_dict (map_vals canon_obj d)) K_Length = Some (OInt (Z.of_nat (length c)))).
        { unfold norm_dict. fold (map_vals norm_obj (map_vals canon_obj d)). rewrite !dict_get_map, Hg. reflexivity. }
        rewrite (dict_set_same _ _ _ Hg'). cbn [map canon_obj]. do 3 f_equal.
        unfold norm_dict, map_vals. rewrite !map_map. apply map_ext_in. intros kv Hkv. cbn [fst snd]. f_equal.
        apply canon_norm_canon; [apply (Hpv kv Hkv)|apply Hov'; exact Hkv].
  Qed.

  (* THE SECOND SENTENCE, for every byte string.  [map canon_op ops] is what Rust holds after the
     first decode; it is encoded, the bytes decode to [map norm_op ...] (first sentence), and what
     Rust then holds is the same operations up to "an integral real may return as an integer". *)
  Theorem decode_encode_decode bs ops :
    decode_content bs = DecOk ops -> Forall (fun op => known_dec op = false) ops ->
    exists ops2,
      decode_content (encode_content (map canon_op ops)) = DecOk ops2 /\
      map canon_op ops2 = map intnorm_op (map canon_op ops).
  Proof.
    intros Hdec Hk. pose proof (decoded_ops_sound bs ops Hdec) as Hs.
    assert (H : Forall (fun op => op_dom (canon_op op) /\ known_class (canon_op op) = false /\
                                  canon_op (norm_op (canon_op op)) = intnorm_op (canon_op op)) ops).
    { rewrite Forall_forall in *. intros op Hop. apply op_dec_dom; auto. }
    exists (map norm_op (map canon_op ops)). split.
    - apply content_rt_dom; rewrite Forall_forall in *; intros op' Hop'; apply in_map_iff in Hop' as [op [<- Hop]];
        destruct (H op Hop) as [A [B _]]; assumption.
    - rewrite !map_map. apply map_ext_in. intros op Hop. rewrite Forall_forall in H. destruct (H op Hop) as [_ [_ C]]. exact C.
  Qed.
  (* the same statement with the excluded class as a predicate on the input *)
  Corollary decode_encode_decode_input bs ops :
    decode_content bs = DecOk ops -> known_input bs = false ->
    exists ops2,
      decode_content (encode_content (map canon_op ops)) = DecOk ops2 /\
      map canon_op ops2 = map intnorm_op (map canon_op ops).
  Proof.
    intros Hdec Hk. apply (decode_encode_decode bs ops Hdec). unfold known_input in Hk. rewrite Hdec in Hk.
    apply Forall_forall. intros op Hop. destruct (known_dec op) eqn:E; [|reflexivity].
    assert (Hex : existsb known_dec ops = true) by (apply existsb_exists; exists op; split; assumption).
    rewrite Hex in Hk. discriminate.
  Qed.
End Canon.

(* ---------- the float assumptions are consistent: exact decimal canonicalisation ---------- *)

(* an "f32 of unbounded precision": drop a plus sign, supply the leading zero, drop trailing zeros
   of the fraction (and the point when nothing remains) *)
Definition is_zero_digit (c : byte) : bool := byte_eqb c x30.
Definition strip_tz (fs : bytes) : bytes := List.rev (skip_while is_zero_digit (List.rev fs)).
Definition canon_exact (t : bytes) : bytes :=
  let '(sg, t1) := opt_sign t in
  let '(ds, r) := take_while is_dec_digit t1 in
  let fs := match r with x2e :: f => fst (take_while is_dec_digit f) | _ => [] end in
  real_text (match sg with Some true => true | _ => false end)
            (match ds with [] => [x30] | _ => ds end) (strip_tz fs).

Lemma skip_while_idem p : forall l : bytes, skip_while p (skip_while p l) = skip_while p l.
Proof.
  induction l as [|c l IH]; [reflexivity|]. cbn [skip_while]. destruct (p c) eqn:E; [exact IH|].
  cbn [skip_while]. rewrite E. reflexivity.
Qed.

Lemma forallb_skip_while p q : forall l : bytes, forallb p l = true -> forallb p (skip_while q l) = true.
Proof.
  induction l as [|c l IH]; [reflexivity|]. cbn [forallb skip_while]. intro H. apply andb_true_iff in H as [H1 H2].
  destruct (q c); [apply IH; exact H2|]. cbn [forallb]. rewrite H1, H2. reflexivity.
Qed.

Lemma forallb_rev p (l : bytes) : forallb p (List.rev l) = forallb p l.
Proof.
  induction l as [|c l IH]; [reflexivity|]. cbn [List.rev forallb]. rewrite forallb_app, IH. cbn [forallb].
  rewrite andb_true_r. apply andb_comm.
Qed.

Lemma strip_tz_digits fs : forallb is_dec_digit fs = true -> forallb is_dec_digit (strip_tz fs) = true.
Proof. intro H. unfold strip_tz. rewrite forallb_rev. apply forallb_skip_while. rewrite forallb_rev. exact H. Qed.

Lemma strip_tz_idem fs : strip_tz (strip_tz fs) = strip_tz fs.
Proof. unfold strip_tz. rewrite rev_involutive, skip_while_idem. reflexivity. Qed.

Lemma canon_exact_shape t : real_wf (canon_exact t).
Proof.
  unfold canon_exact. destruct (opt_sign t) as [sg t1]. destruct (take_while is_dec_digit t1) as [ds r] eqn:Ed.
  destruct (take_while_split _ _ _ _ Ed) as [_ Hd].
  eexists _, _, _. split; [reflexivity|]. split; [destruct ds; discriminate|]. split; [destruct ds; [reflexivity|exact Hd]|].
  apply strip_tz_digits. destruct r as [|c f]; [reflexivity|].
  destruct (byte_eqb c x2e) eqn:E.
  - apply byte_eqb_eq in E. subst c. destruct (take_while is_dec_digit f) as [fs r2] eqn:Ef.
    destruct (take_while_split _ _ _ _ Ef) as [_ Hf]. exact Hf.
  - destruct c; try reflexivity. discriminate E.
Qed.

Lemma canon_exact_text neg ds fs :
  ds <> [] -> forallb is_dec_digit ds = true -> forallb is_dec_digit fs = true -> fs <> [] ->
  canon_exact (real_text neg ds fs) = real_text neg ds (strip_tz fs).
Proof.
  intros Hne Hd Hf Hfne. unfold canon_exact, real_text at 1. destruct fs as [|f0 fs']; [contradiction|].
  set (fs := f0 :: fs') in *. rewrite (opt_sign_text neg ds (x2e :: fs) Hne Hd).
  rewrite (take_while_app is_dec_digit ds (x2e :: fs) Hd) by reflexivity.
  assert (take_while is_dec_digit fs = (fs, [])) as ->
    by (rewrite <- (app_nil_r fs) at 1; apply take_while_app; [exact Hf|reflexivity]).
  cbn [fst]. destruct ds; [contradiction|]. destruct neg; reflexivity.
Qed.

Lemma pointed_text neg ds fs :
  ds <> [] -> forallb is_dec_digit ds = true ->
  pointed (real_text neg ds fs) = real_text neg ds (match fs with [] => [x30] | _ => fs end).
Proof.
  intros Hne Hd. unfold pointed, real_text. destruct fs as [|f0 fs].
  - rewrite (strip_minus_text neg ds [] Hne Hd), !app_nil_r, Hd. rewrite <- !app_assoc. reflexivity.
  - rewrite (strip_minus_text neg ds _ Hne Hd), forallb_digit_point. reflexivity.
Qed.

Lemma canon_exact_form t : exists neg ds fs,
  canon_exact t = real_text neg ds (strip_tz fs) /\ ds <> [] /\
  forallb is_dec_digit ds = true /\ forallb is_dec_digit fs = true.
Proof.
  unfold canon_exact. destruct (opt_sign t) as [sg t1]. destruct (take_while is_dec_digit t1) as [ds r] eqn:Ed.
  destruct (take_while_split _ _ _ _ Ed) as [_ Hd].
  eexists _, _, _. split; [reflexivity|]. split; [destruct ds; discriminate|]. split; [destruct ds; [reflexivity|exact Hd]|].
  destruct r as [|c f]; [reflexivity|].
  destruct (byte_eqb c x2e) eqn:E.
  - apply byte_eqb_eq in E. subst c. destruct (take_while is_dec_digit f) as [fs r2] eqn:Ef.
    destruct (take_while_split _ _ _ _ Ef) as [_ Hf]. exact Hf.
  - destruct c; try reflexivity. discriminate E.
Qed.

Theorem canon_exact_spec : canon_spec canon_exact.
Proof.
  split.
  - intros t _ _. apply canon_exact_shape.
  - intros t _ _. destruct (canon_exact_form t) as [neg [ds [fs [E [Hne [Hd Hf]]]]]]. rewrite E.
    rewrite (pointed_text neg ds (strip_tz fs) Hne Hd).
    destruct (strip_tz fs) as [|g0 gs] eqn:Es.
    + rewrite canon_exact_text by (auto; discriminate). reflexivity.
    + rewrite canon_exact_text; [| | |rewrite <- Es; apply strip_tz_digits; exact Hf|discriminate]; auto.
      rewrite <- Es, strip_tz_idem. reflexivity.
Qed.

(* ---------- a concrete stream (non-vacuity of the second-sentence theorem) ---------- *)

(* a comment, reals in non-canonical spellings, an operator that begins with a keyword, nested
   containers with a reference, an inline image (long keys, CR LF after ID, data beginning with
   white space and containing "EI"), trailing white space *)
Definition ex_stream : bytes := Eval cbv in
  bs "% c" ++ [x0a] ++ bs "+1.50 .5 5. -.0 00.250 cm" ++ [x0d; x0a] ++ bs "/F#31 12. Tf [(a\)b) -7.0 <4> [1 0 R]] nullify" ++ [x0a] ++
  bs "BI /Width 2/Height 1 /ColorSpace/RGB /BitsPerComponent 8 ID" ++ [x0d; x0a] ++ bs " EI EI" ++ [x0a] ++ bs "EI Q  ".

Definition ex_decoded : list operation :=
  [ mkop "cm" [OReal (bs "+1.50"); OReal (bs ".5"); OReal (bs "5."); OReal (bs "-.0"); OReal (bs "00.250")];
    mkop "Tf" [OName (bs "F1"); OReal (bs "12.")];
    mkop "nullify" [OArr [OStr (bs "a)b") false; OReal (bs "-7.0"); OStr [x40] true; OArr [ORef 1 0]]];
    mkop "BI" [OStream [(bs "Width", OInt 2); (bs "Height", OInt 1); (bs "ColorSpace", OName (bs "RGB"));
                        (bs "BitsPerComponent", OInt 8); (bs "Length", OInt 6)] (bs " EI EI")];
    mkop "Q" [] ].

Lemma ex_stream_decodes :
  decode_content ex_stream = DecOk ex_decoded /\ forallb (fun op => negb (known_dec op)) ex_decoded = true.
Proof. split; vm_compute; reflexivity. Qed.

(* what Rust holds (exact canonicalisation), and what the re-encoded bytes decode to *)
Lemma ex_stream_second_cycle :
  map (canon_op canon_exact) ex_decoded =
  [ mkop "cm" [OReal (bs "1.5"); OReal (bs "0.5"); OReal (bs "5"); OReal (bs "-0"); OReal (bs "00.25")];
    mkop "Tf" [OName (bs "F1"); OReal (bs "12")];
    mkop "nullify" [OArr [OStr (bs "a)b") false; OReal (bs "-7"); OStr [x40] true; OArr [ORef 1 0]]];
    mkop "BI" [OStream [(bs "Width", OInt 2); (bs "Height", OInt 1); (bs "ColorSpace", OName (bs "RGB"));
                        (bs "BitsPerComponent", OInt 8); (bs "Length", OInt 6)] (bs " EI EI")];
    mkop "Q" [] ] /\
  decode_content (encode_content (map (canon_op canon_exact) ex_decoded)) =
  DecOk [ mkop "cm" [OReal (bs "1.5"); OReal (bs "0.5"); OInt 5; OInt 0; OReal (bs "00.25")];
          mkop "Tf" [OName (bs "F1"); OInt 12];
          mkop "nullify" [OArr [OStr (bs "a)b") false; OInt (-7); OStr [x40] true; OArr [ORef 1 0]]];
          mkop "BI" [OStream [(bs "Width", OInt 2); (bs "Height", OInt 1); (bs "ColorSpace", OName (bs "RGB"));
                              (bs "BitsPerComponent", OInt 8); (bs "Length", OInt 6)] (bs " EI EI")];
          mkop "Q" [] ].
Proof. split; vm_compute; reflexivity. Qed.

(* the overflow class is real: 2^128 - 2^103 and everything above is read as an infinite f32 by Rust,
   printed "inf", and "inf" is an operator *)
Definition overflow_witness : bytes := Eval cbv in bs "340282356779733661637539395458142568448.0 w".
Lemma overflow_witness_class :
  decode_content overflow_witness = DecOk [mkop "w" [OReal (bs "340282356779733661637539395458142568448.0")]] /\
  known_dec (mkop "w" [OReal (bs "340282356779733661637539395458142568448.0")]) = true /\
  known_dec (mkop "w" [OReal (bs "340282356779733661637539395458142568447.999")]) = false /\
  decode_content (encode_content [mkop "w" [OReal (bs "inf")]]) = DecOk [mkop "inf" []; mkop "w" []].
Proof. repeat split; vm_compute; reflexivity. Qed.

(* the residual keyword class is real: a keyword glued to a digit is returned as an operator *)
Lemma kw_residual_witness :
  decode_content (bs "null1 x") = DecOk [mkop "null" []; mkop "x" [OInt 1]] /\
  known_dec (mkop "null" []) = true /\
  decode_content (encode_content [mkop "null" []; mkop "x" [OInt 1]]) = DecOk [mkop "x" [ONull; OInt 1]].
Proof. repeat split; vm_compute; reflexivity. Qed.

(* the class on the input: the witnesses of both open findings are inside, and so are the other shapes
   of the keyword residual (found by the thorough tier as "true" + 0xFF + " cm"; a lone BI glued to a
   digit re-encodes to "BI", which does not decode at all); a keyword followed by a delimiter or by an
   operator character, or inside a name / a string, is outside *)
Lemma known_input_witness :
  known_input (bs "null1 x") = true /\ known_input overflow_witness = true /\
  known_input (bs "true" ++ [xff] ++ bs " cm") = true /\
  decode_content (bs "true" ++ [xff] ++ bs " cm") = DecOk [mkop "true" []] /\
  decode_content (encode_content [mkop "true" []]) = DecOk [] /\
  known_input (bs "BI1 ") = true /\ decode_content (bs "BI1 ") = DecOk [mkop "BI" []] /\
  decode_content (encode_content [mkop "BI" []]) = DecErr /\
  known_input (bs "1 false.5 x") = true /\
  known_input (bs "null(a) Tj") = false /\ known_input (bs "true/N nullx") = false /\
  known_input (bs "/null1 (true2) BI* [false] BIx") = false /\ known_input ex_stream = false.
Proof. repeat split; vm_compute; reflexivity. Qed.
